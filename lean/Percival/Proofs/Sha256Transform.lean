import Percival.Model.Sha256
import Percival.Spec.Sha256
import Percival.Proofs.Schedule
import Percival.Proofs.Words
/-! `Model.Sha256.transform` (the C's macro-structured `SHA256_Transform`) is the FIPS 180-4
compression function `Spec.Sha256.compress` (helper lemmas for C01 / P2). -/
namespace Percival.Proofs.Sha256T
open Percival Percival.Model.Sha256
open Percival.Spec (Bytes wordsBE)

/-! ### bit identities: the C's `Ch`/`Maj` are the standard's -/

theorem ch_eq (x y z : UInt32) : Model.Sha256.Ch x y z = Spec.Sha256.Ch x y z := by
  unfold Model.Sha256.Ch Spec.Sha256.Ch
  apply UInt32.toBitVec_inj.mp
  simp only [UInt32.toBitVec_xor, UInt32.toBitVec_and, UInt32.toBitVec_not]
  ext i hi
  simp only [BitVec.getElem_xor, BitVec.getElem_and, BitVec.getElem_not]
  cases x.toBitVec[i] <;> cases y.toBitVec[i] <;> cases z.toBitVec[i] <;> rfl

theorem maj_eq (x y z : UInt32) : Model.Sha256.Maj x y z = Spec.Sha256.Maj x y z := by
  unfold Model.Sha256.Maj Spec.Sha256.Maj
  apply UInt32.toBitVec_inj.mp
  simp only [UInt32.toBitVec_xor, UInt32.toBitVec_and, UInt32.toBitVec_or]
  ext i hi
  simp only [BitVec.getElem_xor, BitVec.getElem_and, BitVec.getElem_or]
  cases x.toBitVec[i] <;> cases y.toBitVec[i] <;> cases z.toBitVec[i] <;> rfl

theorem S0_eq (x : UInt32) : Model.Sha256.S0 x = Spec.Sha256.bigSigma0 x := rfl
theorem S1_eq (x : UInt32) : Model.Sha256.S1 x = Spec.Sha256.bigSigma1 x := rfl
theorem s0_eq (x : UInt32) : Model.Sha256.s0 x = Spec.Sha256.smallSigma0 x := rfl
theorem s1_eq (x : UInt32) : Model.Sha256.s1 x = Spec.Sha256.smallSigma1 x := rfl

/-! ### one round on the rotating register file -/

/-- the working variables `a … h` as round `i` sees them -/
def regsAt (S : Vector UInt32 8) (i : Nat) : Spec.Sha256.Regs :=
  ⟨S[slot 64 i], S[slot 65 i], S[slot 66 i], S[slot 67 i], S[slot 68 i], S[slot 69 i], S[slot 70 i], S[slot 71 i]⟩

theorem RND_spec (S : Vector UInt32 8) (a b c d e f g h : Fin 8) (k : UInt32)
    (hd : d ≠ h) (hah : a ≠ h) (hbh : b ≠ h) (hch : c ≠ h) (heh : e ≠ h) (hfh : f ≠ h) (hgh : g ≠ h)
    (had : a ≠ d) (hbd : b ≠ d) (hcd : c ≠ d) (hed : e ≠ d) (hfd : f ≠ d) (hgd : g ≠ d) :
    let S' := RND S a b c d e f g h k
    S'[a] = S[a] ∧ S'[b] = S[b] ∧ S'[c] = S[c] ∧ S'[e] = S[e] ∧ S'[f] = S[f] ∧ S'[g] = S[g] ∧
    S'[d] = S[d] + (S[h] + (S1 S[e] + Ch S[e] S[f] S[g] + k)) ∧
    S'[h] = (S[h] + (S1 S[e] + Ch S[e] S[f] S[g] + k)) + (S0 S[a] + Maj S[a] S[b] S[c]) := by
  simp only [RND]
  have := Fin.val_ne_of_ne hd
  have := Fin.val_ne_of_ne hd.symm
  have := Fin.val_ne_of_ne hah
  have := Fin.val_ne_of_ne hah.symm
  have := Fin.val_ne_of_ne hbh
  have := Fin.val_ne_of_ne hbh.symm
  have := Fin.val_ne_of_ne hch
  have := Fin.val_ne_of_ne hch.symm
  have := Fin.val_ne_of_ne heh
  have := Fin.val_ne_of_ne heh.symm
  have := Fin.val_ne_of_ne hfh
  have := Fin.val_ne_of_ne hfh.symm
  have := Fin.val_ne_of_ne hgh
  have := Fin.val_ne_of_ne hgh.symm
  have := Fin.val_ne_of_ne had
  have := Fin.val_ne_of_ne had.symm
  have := Fin.val_ne_of_ne hbd
  have := Fin.val_ne_of_ne hbd.symm
  have := Fin.val_ne_of_ne hcd
  have := Fin.val_ne_of_ne hcd.symm
  have := Fin.val_ne_of_ne hed
  have := Fin.val_ne_of_ne hed.symm
  have := Fin.val_ne_of_ne hfd
  have := Fin.val_ne_of_ne hfd.symm
  have := Fin.val_ne_of_ne hgd
  have := Fin.val_ne_of_ne hgd.symm
  simp [Fin.getElem_fin, *]

theorem slot_succ (n i : Nat) (hi : i < 64) (hn : 64 ≤ n) : slot (n + 1) (i + 1) = slot n i := by
  apply Fin.ext; simp only [slot]; omega

theorem slot_64_succ (i : Nat) (hi : i < 64) : slot 64 (i + 1) = slot 71 i := by
  apply Fin.ext; simp only [slot]; omega

theorem slot_ne (n m i : Nat) (hi : i ≤ 64) (hn : 64 ≤ n) (hm : 64 ≤ m) (hnm : n % 8 ≠ m % 8) :
    slot n i ≠ slot m i := by
  intro h; have := congrArg Fin.val h; simp only [slot] at this; omega

/-- `RNDr(S, W, i, ii)` performs round `t = i + ii` of §6.2.2 step 3 -/
theorem RNDr_spec (S : Vector UInt32 8) (W : Vector UInt32 64) (i : Fin 16) (b : Fin 4) :
    regsAt (RNDr S W i b) (i.val + 1) =
      Spec.Sha256.round (regsAt S i.val) K[i.val + 16 * b.val] W[i.val + 16 * b.val] := by
  have hi : i.val < 64 := by omega
  have hi' : i.val ≤ 64 := by omega
  obtain ⟨ha, hb, hc, he, hf, hg, hd, hh⟩ := RND_spec S (slot 64 i) (slot 65 i) (slot 66 i) (slot 67 i) (slot 68 i)
    (slot 69 i) (slot 70 i) (slot 71 i) (W[i.val + 16 * b.val] + K[i.val + 16 * b.val])
    (slot_ne _ _ _ hi' (by omega) (by omega) (by omega)) (slot_ne _ _ _ hi' (by omega) (by omega) (by omega))
    (slot_ne _ _ _ hi' (by omega) (by omega) (by omega)) (slot_ne _ _ _ hi' (by omega) (by omega) (by omega))
    (slot_ne _ _ _ hi' (by omega) (by omega) (by omega)) (slot_ne _ _ _ hi' (by omega) (by omega) (by omega))
    (slot_ne _ _ _ hi' (by omega) (by omega) (by omega)) (slot_ne _ _ _ hi' (by omega) (by omega) (by omega))
    (slot_ne _ _ _ hi' (by omega) (by omega) (by omega)) (slot_ne _ _ _ hi' (by omega) (by omega) (by omega))
    (slot_ne _ _ _ hi' (by omega) (by omega) (by omega)) (slot_ne _ _ _ hi' (by omega) (by omega) (by omega))
    (slot_ne _ _ _ hi' (by omega) (by omega) (by omega))
  simp only [regsAt, Spec.Sha256.round, RNDr]
  simp only [slot_64_succ _ hi, slot_succ 64 _ hi (by omega), slot_succ 65 _ hi (by omega), slot_succ 66 _ hi (by omega),
    slot_succ 67 _ hi (by omega), slot_succ 68 _ hi (by omega), slot_succ 69 _ hi (by omega), slot_succ 70 _ hi (by omega)]
  rw [ha, hb, hc, he, hf, hg, hd, hh]
  simp only [S0_eq, S1_eq, ch_eq, maj_eq]
  congr 1
  · ac_rfl
  · ac_rfl

/-! ### sixteen rounds -/

/-- word `t` of a 64-word vector, 0 outside -/
def wf (W : Vector UInt32 64) (t : Nat) : UInt32 := if h : t < 64 then W[t] else 0

/-- `(K_t, W_t)` -/
def kw (W : Vector UInt32 64) (t : Nat) : UInt32 × UInt32 := (wf K t, wf W t)

def rnd (r : Spec.Sha256.Regs) (kw : UInt32 × UInt32) : Spec.Sha256.Regs := Spec.Sha256.round r kw.1 kw.2

/-- line `i` of the sixteen `RNDr` lines (total in `i`) -/
def RNDr' (W : Vector UInt32 64) (b : Fin 4) (S : Vector UInt32 8) (i : Nat) : Vector UInt32 8 :=
  if h : i < 16 then RNDr S W ⟨i, h⟩ b else S

theorem rnd16_fold (S : Vector UInt32 8) (W : Vector UInt32 64) (b : Fin 4) :
    rnd16 S W b = (List.range' 0 16).foldl (RNDr' W b) S := by
  simp only [rnd16, List.range'_succ, List.range'_zero, List.foldl_cons, List.foldl_nil, RNDr',
    Nat.reduceAdd, Nat.reduceLT, ↓reduceDIte]
  rfl

theorem fold_RNDr (W : Vector UInt32 64) (b : Fin 4) (n j : Nat) (S : Vector UInt32 8) (h : j + n ≤ 16) :
    regsAt ((List.range' j n).foldl (RNDr' W b) S) (j + n) =
      ((List.range' j n).map (fun i => kw W (i + 16 * b.val))).foldl rnd (regsAt S j) := by
  induction n generalizing j S with
  | zero => simp
  | succ n ih =>
    simp only [List.range'_succ, List.foldl_cons, List.map_cons]
    have hj : j < 16 := by omega
    have h1 := ih (j + 1) (RNDr' W b S j) (by omega)
    rw [show j + 1 + n = j + (n + 1) by omega] at h1
    rw [h1]
    congr 1
    have := RNDr_spec S W ⟨j, hj⟩ b
    simp only [RNDr', hj, dite_true]
    rw [this]
    have hb := b.isLt
    simp only [rnd, kw, wf, show j + 16 * b.val < 64 by omega, dite_true]

theorem regsAt_16 (S : Vector UInt32 8) : regsAt S 16 = regsAt S 0 := rfl

theorem rnd16_spec (S : Vector UInt32 8) (W : Vector UInt32 64) (b : Fin 4) :
    regsAt (rnd16 S W b) 0 = ((List.range' 0 16).map (fun i => kw W (i + 16 * b.val))).foldl rnd (regsAt S 0) := by
  rw [rnd16_fold, ← regsAt_16]
  exact fold_RNDr W b 16 0 S (by omega)


/-! ### the message schedule as the C extends it -/

/-- one `MSCH` line writing `W[n]` (total in `n`) -/
def MSCH' (W : Vector UInt32 64) (n : Nat) : Vector UInt32 64 :=
  if h : 16 ≤ n ∧ n < 64 then W.set n (s1 W[n - 2] + W[n - 7] + s0 W[n - 15] + W[n - 16]) else W

theorem MSCH_eq (W : Vector UInt32 64) (b : Fin 3) (i : Fin 16) :
    MSCH W b i = MSCH' W (i.val + 16 * b.val + 16) := by
  have hb := b.isLt
  have hi := i.isLt
  have h : 16 ≤ i.val + 16 * b.val + 16 ∧ i.val + 16 * b.val + 16 < 64 := by omega
  simp only [MSCH, MSCH', h, and_self, dite_true]
  simp only [show i.val + 16 * b.val + 16 - 2 = i.val + 16 * b.val + 14 by omega,
    show i.val + 16 * b.val + 16 - 7 = i.val + 16 * b.val + 9 by omega,
    show i.val + 16 * b.val + 16 - 15 = i.val + 16 * b.val + 1 by omega,
    show i.val + 16 * b.val + 16 - 16 = i.val + 16 * b.val by omega]

theorem msch16_fold (W : Vector UInt32 64) (b : Fin 3) :
    msch16 W b = (List.range' (16 * b.val + 16) 16).foldl MSCH' W := by
  have hl : List.range' (16 * b.val + 16) 16 = [0 + 16 * b.val + 16, 1 + 16 * b.val + 16, 2 + 16 * b.val + 16, 3 + 16 * b.val + 16, 4 + 16 * b.val + 16, 5 + 16 * b.val + 16, 6 + 16 * b.val + 16, 7 + 16 * b.val + 16, 8 + 16 * b.val + 16, 9 + 16 * b.val + 16, 10 + 16 * b.val + 16, 11 + 16 * b.val + 16, 12 + 16 * b.val + 16, 13 + 16 * b.val + 16, 14 + 16 * b.val + 16, 15 + 16 * b.val + 16] := by
    simp only [List.range'_succ, List.range'_zero, List.cons.injEq, and_true]
    omega
  rw [hl]
  simp only [msch16, MSCH_eq, List.foldl_cons, List.foldl_nil]
  rfl

theorem wf_MSCH'_ne (W : Vector UInt32 64) (n t : Nat) (hne : t ≠ n) : wf (MSCH' W n) t = wf W t := by
  unfold wf MSCH'
  by_cases ht : t < 64
  · simp only [ht, dite_true]
    split
    · rw [Vector.getElem_set_ne]; omega
    · rfl
  · simp [ht]

theorem wf_MSCH'_self (W : Vector UInt32 64) (n : Nat) (h : 16 ≤ n ∧ n < 64) :
    wf (MSCH' W n) n = s1 (wf W (n - 2)) + wf W (n - 7) + s0 (wf W (n - 15)) + wf W (n - 16) := by
  unfold wf MSCH'
  simp only [h, and_self, dite_true, Vector.getElem_set_self,
    show n - 2 < 64 by omega, show n - 7 < 64 by omega, show n - 15 < 64 by omega, show n - 16 < 64 by omega]

/-- running `MSCH` for `W[s], …, W[s+m-1]` leaves earlier words alone and establishes the recurrence -/
theorem fold_MSCH' (m s : Nat) (W : Vector UInt32 64) (hs : 16 ≤ s) (hm : s + m ≤ 64) :
    (∀ t, t < s → wf ((List.range' s m).foldl MSCH' W) t = wf W t) ∧
    (∀ t, s ≤ t → t < s + m → wf ((List.range' s m).foldl MSCH' W) t =
      s1 (wf ((List.range' s m).foldl MSCH' W) (t - 2)) + wf ((List.range' s m).foldl MSCH' W) (t - 7)
        + s0 (wf ((List.range' s m).foldl MSCH' W) (t - 15)) + wf ((List.range' s m).foldl MSCH' W) (t - 16)) := by
  induction m generalizing s W with
  | zero => exact ⟨fun _ _ => rfl, fun t h1 h2 => by omega⟩
  | succ m ih =>
    simp only [List.range'_succ, List.foldl_cons]
    obtain ⟨i1, i2⟩ := ih (s + 1) (MSCH' W s) (by omega) (by omega)
    refine ⟨?_, ?_⟩
    · intro t ht
      rw [i1 t (by omega), wf_MSCH'_ne _ _ _ (by omega)]
    · intro t h1 h2
      by_cases hts : t = s
      · subst hts
        rw [i1 t (by omega), i1 (t - 2) (by omega), i1 (t - 7) (by omega), i1 (t - 15) (by omega), i1 (t - 16) (by omega)]
        rw [wf_MSCH'_self _ _ (by omega), wf_MSCH'_ne _ _ (t - 2) (by omega), wf_MSCH'_ne _ _ (t - 7) (by omega),
          wf_MSCH'_ne _ _ (t - 15) (by omega), wf_MSCH'_ne _ _ (t - 16) (by omega)]
      · exact i2 t (by omega) (by omega)


/-! ### glue -/

theorem wordsBE_length (b : Bytes) : (wordsBE b).length = b.length / 4 := Words.wordsBE_length b

theorem wf_decodeBlock (block : Bytes) (hb : block.length = 64) (t : Nat) (ht : t < 16) :
    wf (decodeBlock block) t = (wordsBE block).getD t 0 := by
  have hl : (wordsBE block).length = 16 := by rw [wordsBE_length, hb]
  unfold wf decodeBlock
  simp only [show t < 64 by omega, dite_true]
  simp only [Vector.getElem_mk, List.getElem_toArray, List.getElem_take]
  rw [List.getElem_append_left (by omega)]
  simp [List.getD_eq_getElem?_getD, List.getElem?_eq_getElem (show t < (wordsBE block).length by omega)]

/-- the vector after all 48 `MSCH` lines -/
def Wf (W0 : Vector UInt32 64) : Vector UInt32 64 := (List.range' 16 48).foldl MSCH' W0

theorem msch_all (W0 : Vector UInt32 64) : msch16 (msch16 (msch16 W0 0) 1) 2 = Wf W0 := by
  rw [msch16_fold, msch16_fold, msch16_fold, ← List.foldl_append, ← List.foldl_append]
  rfl

/-- what a group of rounds reads from the partly extended vector is what it would read from the final one -/
theorem wf_prefix (W0 : Vector UInt32 64) (k : Nat) (hk : k ≤ 48) (t : Nat) (ht : t < 16 + k) :
    wf (Wf W0) t = wf ((List.range' 16 k).foldl MSCH' W0) t := by
  have : List.range' 16 48 = List.range' 16 k ++ List.range' (16 + k) (48 - k) := by
    rw [List.range'_append_1]; congr 1; omega
  unfold Wf
  rw [this, List.foldl_append]
  exact (fold_MSCH' (48 - k) (16 + k) _ (by omega) (by omega)).1 t ht

/-- the C's schedule is the FIPS 180-4 schedule -/
theorem Wf_eq_spec (block : Bytes) (hb : block.length = 64) (t : Nat) (ht : t < 64) :
    wf (Wf (decodeBlock block)) t = (Spec.Sha256.schedule block).getD t 0 := by
  have hl : (wordsBE block).length = 16 := by rw [wordsBE_length, hb]
  obtain ⟨_, s16, srec⟩ := Schedule.sched_spec Spec.Sha256.nextW
    (fun w2 w7 w15 w16 => Spec.Sha256.smallSigma1 w2 + w7 + Spec.Sha256.smallSigma0 w15 + w16) 1 6 14 15
    (by omega) (by omega) (by omega) (by omega)
    (by
      intro l h
      match l, h with
      | _ :: w2 :: _ :: _ :: _ :: _ :: w7 :: _ :: _ :: _ :: _ :: _ :: _ :: _ :: w15 :: w16 :: _, _ => rfl)
    (wordsBE block) hl 48
  obtain ⟨m16, mrec⟩ := fold_MSCH' 48 16 (decodeBlock block) (by omega) (by omega)
  show wf (Wf (decodeBlock block)) t = (Schedule.R Spec.Sha256.nextW (wordsBE block) 48).getD t 0
  induction t using Nat.strongRecOn with
  | _ t ih =>
    by_cases h16 : t < 16
    · rw [s16 t h16]
      unfold Wf
      rw [m16 t h16, wf_decodeBlock block hb t h16]
    · rw [srec t (by omega) (by omega)]
      unfold Wf at ih ⊢
      rw [mrec t (by omega) (by omega)]
      rw [ih (t - 2) (by omega) (by omega), ih (t - 7) (by omega) (by omega), ih (t - 15) (by omega) (by omega),
        ih (t - 16) (by omega) (by omega)]
      simp only [s0_eq, s1_eq]
      rw [show t - 1 - 1 = t - 2 by omega, show t - 1 - 6 = t - 7 by omega, show t - 1 - 14 = t - 15 by omega,
        show t - 1 - 15 = t - 16 by omega]


/-- the FIPS 180-4 schedule of a block: length 64, `W_t = M_t` for `t < 16`, the recurrence above -/
theorem sched256 (block : Bytes) (hb : block.length = 64) :
    (Spec.Sha256.schedule block).length = 64 := by
  have hl : (wordsBE block).length = 16 := by rw [wordsBE_length, hb]
  exact (Schedule.sched_spec Spec.Sha256.nextW
    (fun w2 w7 w15 w16 => Spec.Sha256.smallSigma1 w2 + w7 + Spec.Sha256.smallSigma0 w15 + w16) 1 6 14 15
    (by omega) (by omega) (by omega) (by omega)
    (by
      intro l h
      match l, h with
      | _ :: w2 :: _ :: _ :: _ :: _ :: w7 :: _ :: _ :: _ :: _ :: _ :: _ :: _ :: w15 :: w16 :: _, _ => rfl)
    (wordsBE block) hl 48).1

theorem K_toList : K.toList = Spec.Sha256.K := by decide

theorem wf_toList (W : Vector UInt32 64) (t : Nat) : wf W t = W.toList.getD t 0 := by
  unfold wf
  by_cases h : t < 64
  · simp [h, List.getD_eq_getElem?_getD]
  · simp [h, List.getD_eq_getElem?_getD]

theorem wf_K (t : Nat) : wf K t = Spec.Sha256.K.getD t 0 := by rw [wf_toList, K_toList]

/-- `zip` of two lists of the same length, by index -/
theorem zip_eq_map_range (ks ws : List UInt32) (n : Nat) (hk : ks.length = n) (hw : ws.length = n) :
    ks.zip ws = (List.range' 0 n).map (fun t => (ks.getD t 0, ws.getD t 0)) := by
  apply List.ext_getElem
  · simp [hk, hw]
  · intro i h1 h2
    simp only [List.length_zip, hk, hw, Nat.min_self] at h1
    simp [List.getD_eq_getElem?_getD, hk, hw, h1]

theorem map_shift (g : Nat → UInt32 × UInt32) (n j s : Nat) :
    (List.range' j n).map (fun i => g (i + s)) = (List.range' (j + s) n).map g := by
  induction n generalizing j with
  | zero => rfl
  | succ n ih =>
    simp only [List.range'_succ, List.map_cons]
    rw [ih (j + 1), show j + 1 + s = j + s + 1 by omega]

/-- group `b` of sixteen rounds, reading the partly extended vector, in terms of the final vector -/
theorem rnd16_final (S : Vector UInt32 8) (W0 : Vector UInt32 64) (b : Fin 4) :
    regsAt (rnd16 S ((List.range' 16 (16 * b.val)).foldl MSCH' W0) b) 0 =
      ((List.range' (16 * b.val) 16).map (kw (Wf W0))).foldl rnd (regsAt S 0) := by
  have h1 := rnd16_spec S ((List.range' 16 (16 * b.val)).foldl MSCH' W0) b
  have h2 := map_shift (kw ((List.range' 16 (16 * b.val)).foldl MSCH' W0)) 16 0 (16 * b.val)
  rw [Nat.zero_add] at h2
  have hm : (List.range' (16 * b.val) 16).map (kw ((List.range' 16 (16 * b.val)).foldl MSCH' W0))
      = (List.range' (16 * b.val) 16).map (kw (Wf W0)) := by
    apply List.map_congr_left
    intro t ht
    have hb := b.isLt
    simp only [List.mem_range'_1] at ht
    show (wf K t, wf _ t) = (wf K t, wf _ t)
    rw [wf_prefix W0 (16 * b.val) (by omega) t (by omega)]
  rw [h1, h2, hm]

theorem range64 : List.range' 0 16 ++ (List.range' 16 16 ++ (List.range' 32 16 ++ List.range' 48 16)) = List.range' 0 64 := by
  decide

theorem mix_spec (S : Vector UInt32 8) (W0 : Vector UInt32 64) :
    regsAt (mix S W0) 0 = ((List.range' 0 64).map (kw (Wf W0))).foldl rnd (regsAt S 0) := by
  have e1 : msch16 W0 0 = (List.range' 16 16).foldl MSCH' W0 := msch16_fold W0 0
  have e2 : msch16 (msch16 W0 0) 1 = (List.range' 16 32).foldl MSCH' W0 := by
    rw [msch16_fold, msch16_fold, ← List.foldl_append]; rfl
  have e3 : msch16 (msch16 (msch16 W0 0) 1) 2 = (List.range' 16 48).foldl MSCH' W0 := by
    rw [msch16_fold, msch16_fold, msch16_fold, ← List.foldl_append, ← List.foldl_append]; rfl
  have r0 : ∀ S, regsAt (rnd16 S W0 0) 0 = ((List.range' 0 16).map (kw (Wf W0))).foldl rnd (regsAt S 0) :=
    fun S => rnd16_final S W0 0
  have r1 : ∀ S, regsAt (rnd16 S ((List.range' 16 16).foldl MSCH' W0) 1) 0 =
      ((List.range' 16 16).map (kw (Wf W0))).foldl rnd (regsAt S 0) := fun S => rnd16_final S W0 1
  have r2 : ∀ S, regsAt (rnd16 S ((List.range' 16 32).foldl MSCH' W0) 2) 0 =
      ((List.range' 32 16).map (kw (Wf W0))).foldl rnd (regsAt S 0) := fun S => rnd16_final S W0 2
  have r3 : ∀ S, regsAt (rnd16 S ((List.range' 16 48).foldl MSCH' W0) 3) 0 =
      ((List.range' 48 16).map (kw (Wf W0))).foldl rnd (regsAt S 0) := fun S => rnd16_final S W0 3
  unfold mix
  simp only
  rw [e3, r3, e2, r2, e1, r1, r0, ← List.foldl_append, ← List.foldl_append, ← List.foldl_append,
    ← List.map_append, ← List.map_append, ← List.map_append, range64]

theorem rounds_spec (H : Spec.Sha256.Regs) (block : Bytes) (hb : block.length = 64) :
    Spec.Sha256.rounds H (Spec.Sha256.schedule block) =
      ((List.range' 0 64).map (kw (Wf (decodeBlock block)))).foldl rnd H := by
  have hz := zip_eq_map_range Spec.Sha256.K (Spec.Sha256.schedule block) 64 (by decide) (sched256 block hb)
  unfold Spec.Sha256.rounds
  rw [hz]
  have : (List.range' 0 64).map (fun t => (Spec.Sha256.K.getD t 0, (Spec.Sha256.schedule block).getD t 0))
      = (List.range' 0 64).map (kw (Wf (decodeBlock block))) := by
    apply List.map_congr_left
    intro t ht
    simp only [List.mem_range'_1] at ht
    show _ = (wf K t, wf _ t)
    rw [Wf_eq_spec block hb t (by omega), wf_K]
  rw [this]
  rfl

end Percival.Proofs.Sha256T
