import Std.Data.String.ToNat
import Std.Data.String.ToInt
import Percival.Proofs.DsAns
import Percival.Proofs.NetbufMonSound
import Percival.Driver.Netbuf
import Percival.Driver.Netbufmon
/-!
# `Out.ans` is read ∘ print (C07): what `pmodel netbufmon` reads of a line `pmodel netbuf` prints

`Driver/Netbuf.render o` is the tokens `Netbuf.l1Toks o` joined by single spaces, followed by ` | ` and the L2 part;
`Driver/Netbufmon.parseAns` reads a list of tokens.  `parseAns_l1Toks`: **for every typed output `o` whose callback
records could be printed (`OutReadable`) and whose shown byte strings are in the form `shownOf` produces (`OutCanon`:
never `.hex []`, which is printed `-` like `.none`), `Netbufmon.parseAns (Netbuf.l1Toks o) = o.ans`** — number
printing / reading (`Std.Data.String.ToNat` / `ToInt`), hex printing / reading (`Proofs/DsAns.lean`), the 16 hex digits
of the FNV digest (`hex64_rt`), the `key=value` tokens and the `,` / `:` splitting (`String.split` with a character
pattern) included.  `run_canon`: every output of `stepOp` on every run from every state is `OutCanon`.
`verdicts_ok`: `Driver.Netbufmon.step` answers `ok` to the L1 tokens of every line `Driver.Netbuf.step` prints, for
every sequence of input lines (lines that are not operations included).
Not covered: the cut of the printed line at ` | ` and at the spaces by `Driver/Loop.loopMon` (`String.splitOn " "`) and
`tools/vlib.py`; no token contains a space and cutting with `String.split ' '` gives the tokens back (`split_l1`).
-/
namespace Percival.Proofs.NetbufAns
open Percival.Model Percival.Model.Netbuf Percival.Model.NetbufStep Percival.Spec.NetbufMon Percival.Driver
open Percival.Driver.Netbuf Percival.Driver.Netbufmon Percival.Proofs Percival.Proofs.NetbufMonSound

/-! ## the 16 hex digits of the digest -/

theorem foldlM_hexDigits (ds : List Nat) (hds : ∀ d ∈ ds, d < 16) (a : Nat) :
    (ds.map hexDigit).foldlM (fun (acc : Nat) c => (hexVal c).map fun v => acc * 16 + v) a =
      some (ds.foldl (fun acc d => acc * 16 + d) a) := by
  induction ds generalizing a with
  | nil => rfl
  | cons d ds ih =>
    have hd := (DsAns.hexDigit_val d (hds d (by simp))).1
    simp only [List.map_cons, List.foldlM_cons, hd, Option.map_some, Option.bind_eq_bind, Option.bind_some,
      List.foldl_cons]
    exact ih (fun x hx => hds x (List.mem_cons_of_mem _ hx)) _

/-- the `k` low hex digits of `N`, most significant first, fold back to `N % 16^k` -/
theorem foldl_digits (k N : Nat) :
    ((List.range k).map fun i => (N >>> (4 * (k - 1 - i))) % 16).foldl (fun acc d => acc * 16 + d) 0 = N % 16 ^ k := by
  induction k generalizing N with
  | zero => simp [Nat.mod_one]
  | succ k ih =>
    rw [List.range_succ, List.map_append, List.foldl_append]
    have e : ((List.range k).map fun i => (N >>> (4 * (k + 1 - 1 - i))) % 16) =
        ((List.range k).map fun i => ((N / 16) >>> (4 * (k - 1 - i))) % 16) := by
      apply List.map_congr_left
      intro i hi
      have hi := List.mem_range.1 hi
      have e1 : 4 * (k + 1 - 1 - i) = 4 + 4 * (k - 1 - i) := by omega
      rw [e1, Nat.shiftRight_add, Nat.shiftRight_eq_div_pow N 4]
    rw [e, ih]
    simp only [List.map_cons, List.map_nil, List.foldl_cons, List.foldl_nil, Nat.add_sub_cancel, Nat.sub_self,
      Nat.mul_zero, Nat.shiftRight_zero]
    rw [Nat.pow_succ, Nat.mul_comm (16 ^ k) 16, Nat.mod_mul]
    omega

theorem hex64_rt (n : UInt64) : parseHex64 (hex64 n) = some n := by
  unfold parseHex64 hex64
  rw [if_pos (by simp), String.toList_ofList]
  have e : ((List.range 16).map fun i => hexDigit ((n.toNat >>> (4 * (15 - i))) % 16)) =
      ((List.range 16).map fun i => (n.toNat >>> (4 * (16 - 1 - i))) % 16).map hexDigit := by
    rw [List.map_map]; rfl
  rw [e, foldlM_hexDigits _ (by intro d hd; obtain ⟨i, _, rfl⟩ := List.mem_map.1 hd; omega), foldl_digits]
  have : n.toNat % 16 ^ 16 = n.toNat := Nat.mod_eq_of_lt (by have := n.toNat_lt; omega)
  simp [this]

/-! ## `key=value`, shown byte strings -/

theorem splitCh_intercalate (c : Char) (l : List String) (hl : ∀ s ∈ l, c ∉ s.toList) (hne : l ≠ []) :
    splitCh c ((String.singleton c).intercalate l) = l := DsAns.splitCh_intercalate c l hl hne

theorem kvTok_eq (k v : String) : kvTok k v = k ++ "=" ++ v := rfl

theorem kv_kvTok (k v : String) : kv (kvTok k v) k = some v := by
  unfold kv kvTok
  simp only [String.toList_append]
  rw [if_pos (by simp), List.drop_left, String.ofList_toList]

/-- `.hex []` is printed `-` like `.none`: `shownOf` never produces it -/
def ShownCanon (sh : Shown) : Prop := sh ≠ .hex []

theorem hex64_chars (n : UInt64) : ∀ c ∈ (hex64 n).toList, DsAns.hexCh c := by
  intro c hc
  unfold hex64 at hc
  rw [String.toList_ofList] at hc
  obtain ⟨i, _, rfl⟩ := List.mem_map.1 hc
  exact (DsAns.hexDigit_val _ (Nat.mod_lt _ (by omega))).2

theorem hexCh_ne_colon {c : Char} (h : DsAns.hexCh c) : c ≠ ':' ∧ c ≠ ',' ∧ c ≠ '#' := by
  rcases h with h | h
  · refine ⟨?_, ?_, ?_⟩ <;> (rintro rfl; simp at h)
  · refine ⟨?_, ?_, ?_⟩ <;> (rintro rfl; revert h; decide)

theorem showShown_digest (n : Nat) (h : UInt64) : showShown (.digest n h) = "#" ++ toString n ++ ":" ++ hex64 h := by
  simp [showShown, shownParts, String.intercalate_cons_cons, String.intercalate_singleton]

theorem nat_no_colon (n : Nat) : ':' ∉ (toString n).toList := by
  intro h; have := DsAns.nat_chars n _ h; simp at this

theorem parseShown_showShown (sh : Shown) (hc : ShownCanon sh) : parseShown (showShown sh) = some sh := by
  cases sh with
  | none => simp [showShown, shownParts, parseShown, String.intercalate_singleton]
  | hex b =>
    cases b with
    | nil => exact absurd rfl hc
    | cons x xs =>
      simp only [showShown, shownParts, String.intercalate_singleton, parseShown]
      rw [if_neg (DsAns.hexOfBytes_ne_dash x xs)]
      have hrt := DsAns.hex_rt (x :: xs)
      rw [DsAns.hexOfBytes_cons, String.toList_ofList, DsAns.hexChars_cons]
      have h1 : hexDigit (x.toNat / 16) ≠ '#' := (hexCh_ne_colon (DsAns.hexDigit_val _ (DsAns.byte_lt x).1).2).2.2
      split
      · rename_i heq; simp at heq; exact absurd heq.1 h1
      · rw [← DsAns.hexChars_cons, ← DsAns.hexOfBytes_cons, hrt]; rfl
  | digest n h =>
    rw [showShown_digest, parseShown,
      if_neg (by intro h; have := congrArg String.toList h; simp [String.toList_append] at this)]
    have e : ("#" ++ toString n ++ ":" ++ hex64 h).toList = '#' :: (toString n ++ ":" ++ hex64 h).toList := by
      simp [String.toList_append]
    rw [e]
    simp only [String.ofList_toList]
    have := DsAns.splitCh_kv ':' (toString n) (hex64 h) (nat_no_colon n)
      (fun hm => (hexCh_ne_colon (hex64_chars h _ hm)).1 rfl)
    have e2 : toString n ++ String.singleton ':' ++ hex64 h = toString n ++ ":" ++ hex64 h := rfl
    rw [e2] at this
    show (match splitCh ':' (toString n ++ ":" ++ hex64 h) with | [n, h] => _ | _ => _) = _
    rw [show splitCh ':' (toString n ++ ":" ++ hex64 h) = [toString n, hex64 h] from this]
    simp [hex64_rt]

/-! ## callback records -/


theorem splitCh_none (c : Char) (t : String) (ht : c ∉ t.toList) : splitCh c t = [t] := DsAns.splitCh_none c t ht

theorem dash_toInt : ("-" : String).toInt? = none := by
  apply String.toInt?_eq_none
  cases h : ("-" : String).isInt with
  | false => rfl
  | true =>
    rw [String.isInt_iff] at h
    rcases h with h | ⟨t, ht, hn⟩
    · rw [String.isNat_iff] at h
      have := h.2.1 '-' (by simp)
      simp at this
    · have : t = "" := by
        have := congrArg String.toList ht
        simp only [String.toList_append] at this
        have e : ("-" : String).toList = ['-'] := by decide
        rw [e] at this
        simpa using this
      subst this
      rw [String.isNat_iff] at hn
      exact absurd rfl hn.1

/-- characters that separate: none of them occurs in a number, a hex string or a digest -/
def sepCh (c : Char) : Prop := c = ':' ∨ c = ',' ∨ c = ' ' ∨ c = '='

theorem digit_not_sep {c : Char} (h : c.isDigit = true) : ¬ sepCh c := by
  rintro (rfl | rfl | rfl | rfl) <;> simp at h
theorem hexCh_not_sep {c : Char} (h : DsAns.hexCh c) : ¬ sepCh c := by
  rcases h with h | h
  · exact digit_not_sep h
  · rintro (rfl | rfl | rfl | rfl) <;> (revert h; decide)

theorem nat_no (n : Nat) (c : Char) (hc : sepCh c) : c ∉ (toString n).toList :=
  fun h => digit_not_sep (DsAns.nat_chars n c h) hc
theorem int_no (i : Int) (c : Char) (hc : sepCh c) : c ∉ (toString i).toList := by
  intro h
  rcases DsAns.int_chars i c h with h | rfl
  · exact digit_not_sep h hc
  · rcases hc with h | h | h | h <;> simp at h
theorem hex_no (b : List UInt8) (c : Char) (hc : sepCh c) : c ∉ (hexOfBytes b).toList := by
  intro h
  rcases DsAns.hex_chars b c h with h | rfl
  · exact hexCh_not_sep h hc
  · rcases hc with h | h | h | h <;> simp at h
theorem hex64_no (n : UInt64) (c : Char) (hc : sepCh c) : c ∉ (hex64 n).toList :=
  fun h => hexCh_not_sep (hex64_chars n c h) hc

theorem shownParts_no (sh : Shown) (c : Char) (hc : sepCh c) : ∀ p ∈ shownParts sh, c ∉ p.toList := by
  cases sh with
  | none => intro p hp; simp [shownParts] at hp; subst hp; rcases hc with rfl | rfl | rfl | rfl <;> simp
  | hex b => intro p hp; simp [shownParts] at hp; subst hp; exact hex_no b c hc
  | digest n h =>
    intro p hp
    simp only [shownParts, List.mem_cons, List.not_mem_nil, or_false] at hp
    rcases hp with rfl | rfl
    · simp only [String.toList_append, List.mem_append]
      rintro (h | h)
      · rcases hc with rfl | rfl | rfl | rfl <;> simp at h
      · exact nat_no n c hc h
    · exact hex64_no h c hc

theorem shownParts_ne_nil (sh : Shown) : shownParts sh ≠ [] := by cases sh <;> simp [shownParts]

/-- the record can be printed and read back: its bytes were readable and are not the non-canonical `.hex []` -/
def RecOk : CbRec → Prop
  | .succ _ (some sh) => ShownCanon sh
  | .succ _ none => False
  | .status _ => True

theorem recParts_no_colon (r : CbRec) : ∀ p ∈ recParts r, ':' ∉ p.toList := by
  have hs : sepCh ':' := Or.inl rfl
  cases r with
  | succ a sh =>
    cases sh with
    | some sh =>
      intro p hp
      simp only [recParts, List.mem_cons] at hp
      rcases hp with rfl | rfl | hp
      · decide
      · exact nat_no a _ hs
      · exact shownParts_no sh _ hs p hp
    | none =>
      intro p hp
      simp only [recParts, List.mem_cons, List.not_mem_nil, or_false] at hp
      rcases hp with rfl | rfl | rfl
      · decide
      · exact nat_no a _ hs
      · decide
  | status v => intro p hp; simp [recParts] at hp; subst hp; exact int_no v _ hs

theorem recParts_ne_nil (r : CbRec) : recParts r ≠ [] := by
  cases r with
  | succ a sh => cases sh <;> simp [recParts]
  | status v => simp [recParts]

theorem splitCh_showRec (r : CbRec) : splitCh ':' (showRec r) = recParts r :=
  splitCh_intercalate ':' _ (recParts_no_colon r) (recParts_ne_nil r)

theorem parseRec_showRec (r : CbRec) (hr : RecOk r) : parseRec (showRec r) = some (convRec r) := by
  unfold parseRec
  rw [splitCh_showRec]
  cases r with
  | succ a sh =>
    cases sh with
    | none => exact absurd hr id
    | some sh =>
      have := parseShown_showShown sh hr
      unfold showShown at this
      simp [recParts, this, convRec]
  | status v =>
    simp only [recParts]
    rw [DsAns.int_rt v]; rfl

/-! ## the records of `r=` -/

theorem showRec_no_comma (r : CbRec) : ',' ∉ (showRec r).toList := by
  have hs : sepCh ',' := Or.inr (Or.inl rfl)
  intro h
  rcases DsAns.mem_intercalate ":" ',' _ h with h | ⟨p, hp, hc⟩
  · simp at h
  · revert hc
    cases r with
    | succ a sh =>
      cases sh with
      | some sh =>
        simp only [recParts, List.mem_cons] at hp
        rcases hp with rfl | rfl | hp
        · decide
        · exact nat_no a _ hs
        · exact shownParts_no sh _ hs p hp
      | none =>
        simp only [recParts, List.mem_cons, List.not_mem_nil, or_false] at hp
        rcases hp with rfl | rfl | rfl
        · decide
        · exact nat_no a _ hs
        · decide
    | status v => simp [recParts] at hp; subst hp; exact int_no v _ hs

theorem parseRec_dash : parseRec "-" = none := by
  unfold parseRec
  rw [splitCh_none ':' "-" (by decide)]
  simp [dash_toInt]

theorem mapM_parseRec (recs : List CbRec) (h : ∀ r ∈ recs, RecOk r) :
    (recs.map showRec).mapM parseRec = some (recs.map convRec) := by
  induction recs with
  | nil => rfl
  | cons r recs ih =>
    simp only [List.map_cons, List.mapM_cons, parseRec_showRec r (h r (by simp)),
      ih (fun x hx => h x (List.mem_cons_of_mem _ hx))]
    rfl

theorem parseRecs_recsStr (recs : List CbRec) (h : ∀ r ∈ recs, RecOk r) :
    parseRecs (recsStr recs) = some (recs.map convRec) := by
  unfold parseRecs recsStr
  cases recs with
  | nil => simp
  | cons r rs =>
    simp only [List.isEmpty_cons, Bool.false_eq_true, if_false]
    have hsp : splitCh ',' (",".intercalate ((r :: rs).map showRec)) = (r :: rs).map showRec :=
      splitCh_intercalate ',' _ (by
        intro s hs
        obtain ⟨x, _, rfl⟩ := List.mem_map.1 hs
        exact showRec_no_comma x) (by simp)
    have hne : ",".intercalate ((r :: rs).map showRec) ≠ "-" := by
      intro he
      rw [he, splitCh_none ',' "-" (by decide)] at hsp
      cases rs with
      | cons _ _ => simp at hsp
      | nil =>
        simp only [List.map_cons, List.map_nil, List.cons.injEq, and_true] at hsp
        have := parseRec_showRec r (h r (by simp))
        rw [← hsp, parseRec_dash] at this
        exact absurd this (by simp)
    rw [if_neg hne, hsp]
    exact mapM_parseRec _ h

/-! ## the theorem -/

/-- every shown byte string of the output is in the form `shownOf` produces -/
def OutCanon : Out → Prop
  | .peek _ sh _ => ShownCanon sh
  | .spin recs _ _ sh _ _ _ => (∀ a s, CbRec.succ a (some s) ∈ recs → ShownCanon s) ∧ ShownCanon sh
  | _ => True

theorem recOk_of (recs : List CbRec) (h1 : ∀ r ∈ recs, Readable r)
    (h2 : ∀ a s, CbRec.succ a (some s) ∈ recs → ShownCanon s) :
    ∀ r ∈ recs, RecOk r := by
  intro r hr
  cases r with
  | succ a sh =>
    cases sh with
    | some s => exact h2 a s hr
    | none => exact h1 _ hr
  | status v => trivial

theorem splitCh_peer (len : Nat) (sh : Shown) :
    splitCh ':' (":".intercalate (toString len :: shownParts sh)) = toString len :: shownParts sh :=
  splitCh_intercalate ':' _ (by
    intro s hs
    rcases List.mem_cons.1 hs with rfl | hs
    · exact nat_no len _ (Or.inl rfl)
    · exact shownParts_no sh _ (Or.inl rfl) s hs) (by simp)

/-- **what `pmodel netbufmon` reads of the L1 tokens `pmodel netbuf` prints is `Out.ans`** -/
theorem parseAns_l1Toks (o : Out) (hr : OutReadable o) (hc : OutCanon o) : parseAns (l1Toks o) = o.ans := by
  cases o with
  | failed f => cases f <;> simp [l1Toks, failName, parseAns, Out.ans]
  | badOp => simp [l1Toks, parseAns, Out.ans]
  | contract => simp [l1Toks, parseAns, Out.ans]
  | ok => simp [l1Toks, parseAns, Out.ans]
  | okR r => simp [l1Toks, parseAns, Out.ans]
  | okW w => simp [l1Toks, parseAns, Out.ans]
  | peek n sh r => simp [l1Toks, parseAns, Out.ans, parseShown_showShown sh hc]
  | okN n r => simp [l1Toks, parseAns, Out.ans]
  | spin recs fails len sh used r w =>
    have hsh := parseShown_showShown sh hc.2
    unfold showShown at hsh
    simp only [l1Toks, parseAns, kv_kvTok, Option.bind_some, DsAns.nat_rt, splitCh_peer, hsh,
      parseRecs_recsStr recs (recOk_of recs hr hc.1), Out.ans]
    refine congrArg (fun x => Ans.spin x fails len sh used) (List.map_congr_left ?_)
    intro x _
    cases x with
    | succ a sh => cases sh <;> rfl
    | status v => rfl

/-! ## the tokens contain no space: the L1 part splits back into them -/

theorem kvTok_no_space (k v : String) (hk : ' ' ∉ k.toList) (hv : ' ' ∉ v.toList) : ' ' ∉ (kvTok k v).toList := by
  simp only [kvTok_eq, String.toList_append, List.mem_append]
  rintro ((h | h) | h)
  · exact hk h
  · simp at h
  · exact hv h

theorem sp : sepCh ' ' := Or.inr (Or.inr (Or.inl rfl))

theorem intercalate_no (sep : String) (c : Char) (l : List String) (hs : c ∉ sep.toList)
    (hl : ∀ x ∈ l, c ∉ x.toList) :
    c ∉ (sep.intercalate l).toList := by
  intro h
  rcases DsAns.mem_intercalate sep c l h with h | ⟨x, hx, hc⟩
  · exact hs h
  · exact hl x hx hc

theorem showShown_no_space (sh : Shown) : ' ' ∉ (showShown sh).toList :=
  intercalate_no ":" ' ' _ (by decide) (shownParts_no sh ' ' sp)

theorem recParts_no_space (r : CbRec) : ∀ p ∈ recParts r, ' ' ∉ p.toList := by
  cases r with
  | succ a sh =>
    cases sh with
    | some sh =>
      intro p hp
      simp only [recParts, List.mem_cons] at hp
      rcases hp with rfl | rfl | hp
      · decide
      · exact nat_no a _ sp
      · exact shownParts_no sh _ sp p hp
    | none =>
      intro p hp
      simp only [recParts, List.mem_cons, List.not_mem_nil, or_false] at hp
      rcases hp with rfl | rfl | rfl
      · decide
      · exact nat_no a _ sp
      · decide
  | status v => intro p hp; simp [recParts] at hp; subst hp; exact int_no v _ sp

theorem recsStr_no_space (recs : List CbRec) : ' ' ∉ (recsStr recs).toList := by
  unfold recsStr
  split
  · decide
  · apply intercalate_no "," ' ' _ (by decide)
    intro x hx
    obtain ⟨r, _, rfl⟩ := List.mem_map.1 hx
    exact intercalate_no ":" ' ' _ (by decide) (recParts_no_space r)

theorem l1Toks_no_space (o : Out) : ∀ t ∈ l1Toks o, ' ' ∉ t.toList := by
  cases o with
  | failed f => cases f <;> simp [l1Toks, failName]
  | peek n sh r =>
    intro t ht
    simp only [l1Toks, List.mem_cons, List.not_mem_nil, or_false] at ht
    rcases ht with rfl | rfl | rfl
    · decide
    · exact nat_no n _ sp
    · exact showShown_no_space sh
  | okN n r =>
    intro t ht
    simp only [l1Toks, List.mem_cons, List.not_mem_nil, or_false] at ht
    rcases ht with rfl | rfl
    · decide
    · exact nat_no n _ sp
  | spin recs fails len sh used r w =>
    intro t ht
    simp only [l1Toks, List.mem_cons, List.not_mem_nil, or_false] at ht
    rcases ht with rfl | rfl | rfl | rfl | rfl
    · decide
    · exact kvTok_no_space _ _ (by decide) (recsStr_no_space recs)
    · exact kvTok_no_space _ _ (by decide) (nat_no fails _ sp)
    · refine kvTok_no_space _ _ (by decide) (intercalate_no ":" ' ' _ (by decide) ?_)
      intro x hx
      rcases List.mem_cons.1 hx with rfl | hx
      · exact nat_no len _ sp
      · exact shownParts_no sh _ sp x hx
    · exact kvTok_no_space _ _ (by decide) (nat_no used _ sp)
  | _ => simp [l1Toks]

theorem l1Toks_ne_nil (o : Out) : l1Toks o ≠ [] := by cases o <;> simp [l1Toks]

/-- cutting the L1 part of the printed line at the spaces gives back the tokens -/
theorem split_l1 (o : Out) : splitCh ' ' (" ".intercalate (l1Toks o)) = l1Toks o :=
  splitCh_intercalate ' ' _ (l1Toks_no_space o) (l1Toks_ne_nil o)

/-- the printed line is these tokens joined by single spaces, then the L2 part (by definition of `render`) -/
theorem render_eq (o : Out) :
    render o = " ".intercalate (l1Toks o) ++ (match l2Str o with | some s => " | " ++ s | none => "") := rfl

/-! ## every shown byte string of every run is canonical -/

theorem shownOf_canon (b : Spec.ByteStream.Bytes) (n : Nat) : ShownCanon (shownOf b n) := by
  unfold shownOf ShownCanon
  split
  · simp
  · split
    · split
      · simp
      · rename_i h; intro he; injection he with he; subst he; simp at h
    · simp

def RecsCanon (recs : List CbRec) : Prop := ∀ a s, CbRec.succ a (some s) ∈ recs → ShownCanon s

theorem RecsCanon.append {l : List CbRec} (h : RecsCanon l) {x : CbRec}
    (hx : ∀ a s, x = .succ a (some s) → ShownCanon s) : RecsCanon (l ++ [x]) := by
  intro a s hm
  rcases List.mem_append.1 hm with hm | hm
  · exact h a s hm
  · exact hx a s (List.mem_singleton.1 hm).symm

theorem appCallback_canon (s : XSt) (st : Int) (recs : List CbRec) (h : RecsCanon recs) :
    RecsCanon (appCallback s st recs).2 := by
  have key : (∃ x, (appCallback s st recs).2 = recs ++ [x] ∧
      ∀ a sh, x = .succ a (some sh) → ShownCanon sh) := by
    unfold appCallback
    by_cases h0 : (st == 0) = true
    · rw [if_pos h0]
      cases hp : NetbufRead.peek s.r with
      | ok b =>
        refine ⟨.succ (avail s.r) (some (shownOf (b.take (min s.waitk (avail s.r))) (min s.waitk (avail s.r)))),
          ?_, ?_⟩
        · simp only []
          (repeat' split) <;> rfl
        · intro a sh he
          injection he with _ he
          injection he with he
          subst he; exact shownOf_canon _ _
      | _ =>
        refine ⟨.succ (avail s.r) none, ?_, fun a sh he => by injection he with _ he; cases he⟩
        simp only []
        (repeat' split) <;> rfl
    · rw [if_neg h0]
      exact ⟨.status st, rfl, fun a sh he => by cases he⟩
  obtain ⟨x, e, hx⟩ := key
  rw [e]; exact h.append hx

theorem spinR_canon (fuel : Nat) :
    ∀ (s : XSt) (recs : List CbRec), RecsCanon recs → RecsCanon (spinR fuel s recs).2 := by
  induction fuel with
  | zero => intro s recs h; exact h
  | succ fuel ih =>
    intro s recs h
    unfold spinR
    (repeat' split) <;> first
      | exact h
      | exact ih _ _ h
      | (rename_i heq
         refine ih _ _ ?_
         have e := congrArg Prod.snd heq
         simp only [] at e
         rw [← e]
         exact appCallback_canon _ _ _ h)

theorem rOp_canon (s : XSt) (res : Res NetbufRead.R) : OutCanon (rOp s res).2 := by
  unfold rOp; split <;> trivial

theorem wOp_canon (s : XSt) (res : Res NetbufWrite.W) : OutCanon (wOp s res).2 := by
  unfold wOp; split <;> trivial

theorem step_canon (s : XSt) (op : Op) : OutCanon (stepOp s op).2 := by
  unfold stepOp
  split
  · trivial
  · cases op with
    | spin =>
      simp only []
      split
      · trivial
      · have h := spinR_canon (s.loopN + rqWeight s.rq + 2) s [] (fun a sh hm => by cases hm)
        generalize spinR (s.loopN + rqWeight s.rq + 2) s [] = X at h ⊢
        obtain ⟨s1, recs⟩ := X
        simp only []
        generalize spinW s1 s1.wq [] 0 0 = Y
        obtain ⟨s2, peer, fails, used⟩ := Y
        simp only []
        split
        · trivial
        · exact ⟨h, shownOf_canon _ _⟩
    | rPeek =>
      simp only []
      split
      · exact shownOf_canon _ _
      · trivial
    | _ =>
      simp only []
      (repeat' split) <;> first | trivial | exact rOp_canon _ _ | exact wOp_canon _ _

/-- every output of every run, from every state, shows byte strings in the form `shownOf` produces -/
theorem run_canon (ops : List Op) : ∀ (s : XSt), ∀ o ∈ (runOps s ops).2, OutCanon o := by
  induction ops with
  | nil => intro s o ho; simp [runOps] at ho
  | cons op ops ih =>
    intro s o ho
    simp only [runOps, List.mem_cons] at ho
    rcases ho with rfl | ho
    · exact step_canon s op
    · exact ih _ o ho

/-! ## the two executables' step functions, line by line -/

/-- `Driver.Netbuf.step` with the printed line replaced by the tokens of its L1 part -/
def stepToks (s : XSt) (toks : List String) : XSt × List String :=
  match parseOp toks with
  | some op => let r := stepOp s op; (r.1, l1Toks r.2)
  | none => (s, ["bad-op"])

/-- the line `Driver.Netbuf.step` prints is the tokens of `stepToks` joined by single spaces, then the L2 part -/
theorem step_eq_stepToks (s : XSt) (toks : List String) :
    (Netbuf.step s toks).1 = (stepToks s toks).1 ∧
    ∃ l2, (Netbuf.step s toks).2 = " ".intercalate (stepToks s toks).2 ++ l2 ∧
      (l2 = "" ∨ ∃ t, l2 = " | " ++ t) := by
  unfold Netbuf.step stepToks
  cases parseOp toks with
  | none => exact ⟨rfl, "", by simp [String.intercalate_singleton], Or.inl rfl⟩
  | some op =>
    refine ⟨rfl, _, render_eq _, ?_⟩
    cases l2Str (stepOp s op).2 with
    | none => exact Or.inl rfl
    | some t => exact Or.inr ⟨t, rfl⟩

/-- the verdict lines of `pmodel netbufmon` when every operation line is answered with the L1 tokens of the line
`pmodel netbuf` prints for it (lines that are not operations included) -/
def verdicts (s : XSt) (m : MSt) : List (List String) → List String
  | [] => []
  | toks :: rest =>
    let r := stepToks s toks
    let v := Netbufmon.step m toks r.2
    v.2 :: verdicts r.1 v.1 rest

theorem verdicts_ok (lines : List (List String)) : ∀ (s : XSt) (m : MSt), Sound s m →
    verdicts s m lines = List.replicate lines.length "ok" := by
  induction lines with
  | nil => intro s m _; rfl
  | cons toks rest ih =>
    intro s m h
    unfold verdicts stepToks Netbufmon.step
    cases hp : parseOp toks with
    | none =>
      simp only [List.length_cons, List.replicate_succ, if_true]
      rw [show verdicts s m rest = _ from ih s m h]
    | some op =>
      obtain ⟨m', e, h'⟩ := step_sound s m h op
      have ha : parseAns (l1Toks (stepOp s op).2) = (stepOp s op).2.ans :=
        parseAns_l1Toks _ (step_readable s m h op) (step_canon s op)
      simp only [ha, e, List.length_cons, List.replicate_succ]
      rw [show verdicts (stepOp s op).1 m' rest = _ from ih _ m' h']
/-! ## the cut `Driver.loopMon` makes (not proved: stated as a hypothesis) -/

/-- textual copy of the local function `toks` of `Driver.loopMon` (`Driver/Loop.lean`) -/
def loopToks (line : String) : List String := (line.trimAscii.toString.splitOn " ").filter (· ≠ "")

/-- the line the framework hands to `pmodel netbufmon` for the output `o` -/
def monLine (o : Out) : String := "> " ++ " ".intercalate (l1Toks o) ++ "\n"

/-- the hypothesis of `C07.monitor_reads_loop_line_partial`, as a test (`KAT/NetbufAns.lean` evaluates it on an
output of every shape) -/
def loopCutOk (o : Out) : Bool := loopToks (monLine o) == ">" :: splitCh ' ' (" ".intercalate (l1Toks o))

theorem reads_loop_line (o : Out) (hr : OutReadable o) (hc : OutCanon o) (hcut : loopCutOk o = true) :
    ∃ ans, loopToks (monLine o) = ">" :: ans ∧ parseAns ans = o.ans := by
  refine ⟨l1Toks o, ?_, parseAns_l1Toks o hr hc⟩
  have := of_decide_eq_true (by simpa [loopCutOk] using hcut :
    decide (loopToks (monLine o) = ">" :: splitCh ' ' (" ".intercalate (l1Toks o))) = true)
  rw [this, split_l1]

end Percival.Proofs.NetbufAns
