import Percival.Proofs.AfMonRunB
/-!
# C14, monitor soundness, helper `Run`: `events_run()` against `Spec.Reg.runOk`, and the deadlines piece `DlRel`

`DlRel s ms` (this helper's piece of the state relation): shape of the immediate queues (`ImmInv`), and for every
timer the record in the timer queue carries `(secOf d, usecOf d)` of the monitor's deadline `d` for that id and the
timer's `tid` as pointer; `tid`s are distinct and older than the timer's queue record.  `run_step`: the monitor accepts the
model's answer to `run`, `RegRel` and `DlRel` hold afterwards, and every other operation (except `end`) keeps `DlRel`.
-/
namespace Percival.Proofs.AfMonRun
open Percival.Model Percival.Model.EvReg Percival.Model.TimerQueue Percival.Model.AfStep
open Percival.Spec.AfMon (Op Ans MState monStep MAXID)
open Percival.Spec.Reg (Reg runOk timersOrderOk deadlineOf)
open Percival.Proofs.AfMonRel
open Percival.Proofs.EvRegTimer (Step regImm regTimers TmInv tmInv_congr)
open Percival.Proofs.EvRegNet (regNet NetInv netInv_congr)

structure DlRel (s : S) (ms : MState) : Prop where
  imm : ImmInv s.ev
  tidNd : (s.ev.timers.map (·.tid)).Nodup
  tidTqr : ∀ x ∈ s.ev.timers, x.tid < x.tqr
  recs : ∀ t, s.ev.tq = some t → ∀ x ∈ s.ev.timers, ∃ rc d, lookup t.q.recs x.tqr = some rc ∧ rc.ptr = x.tid ∧
    dl ms.reg.timers x.id = some d ∧ rc.sec = secOf d ∧ rc.usec = usecOf d

/-- task 1 -/
theorem dlRel_init : DlRel {} {} :=
  ⟨immInv_init, List.nodup_nil, fun x h => (by cases h), fun t h => (by cases h)⟩

theorem tmRel_of {s : S} {ms : MState} (h : RegRel s ms) (hd : DlRel s ms) : TmRel s.ev s.m ms.reg.timers :=
  ⟨h.tmInv, h.tm, hd.tidNd, hd.tidTqr, hd.recs⟩

/-! ### from `Good` to the monitor's verdict -/

theorem tok_of (r : Reg) (now : Int) : ∀ (ids : List Nat) (prev : Option Int), ids.Nodup →
    (∀ i ∈ ids, ∃ d, dl r.timers i = some d ∧ d ≤ now ∧ ∀ p, prev = some p → p ≤ d) →
    ids.Pairwise (fun i j => ∀ di dj, dl r.timers i = some di → dl r.timers j = some dj → di ≤ dj) →
    timersOrderOk r now ids prev = true
  | [], _, _, _, _ => rfl
  | i :: rest, prev, hnd, hdue, hord => by
    obtain ⟨d, hd, hle, hprev⟩ := hdue i List.mem_cons_self
    obtain ⟨hni, hnd'⟩ := List.nodup_cons.mp hnd
    obtain ⟨hhead, hord'⟩ := List.pairwise_cons.mp hord
    unfold timersOrderOk
    rw [deadlineOf_eq, hd]
    have ih := tok_of r now rest (some d) hnd' (fun j hj => by
      obtain ⟨dj, hdj, hlej, _⟩ := hdue j (List.mem_cons_of_mem _ hj)
      exact ⟨dj, hdj, hlej, fun p hp => by cases hp; exact hhead j hj d dj hd hdj⟩) hord'
    simp only [ih, hle, decide_true, Bool.true_and, Bool.and_true]
    simp only [Bool.and_eq_true, Bool.not_eq_true', List.contains_eq_mem, decide_eq_false_iff_not]
    refine ⟨?_, hni⟩
    cases prev with
    | none => rfl
    | some p => simpa using hprev p rfl

theorem good_tok {r : Reg} {now : Int} {ids : List Nat} (g : Good r.timers now ids) :
    timersOrderOk r now ids none = true :=
  tok_of r now ids none g.nd (fun i hi => by
    obtain ⟨d, hd, hle⟩ := g.due i hi
    exact ⟨d, hd, hle, fun p hp => by cases hp⟩) g.ord

theorem good_length {D : List (Nat × Int)} {now : Int} {ids : List Nat} (g : Good D now ids)
    (hnd : (D.map (·.1)).Nodup) : ids.length = (D.filter (fun p => decide (p.2 ≤ now))).length := by
  have h1 : D.filter (fun p => decide (p.2 ≤ now)) = D.filter (fun p => ids.contains p.1) := by
    apply List.filter_congr
    intro p hp
    by_cases hin : p.1 ∈ ids
    · obtain ⟨d, hd, hle⟩ := g.due p.1 hin
      rw [dl_of_mem D p.1 p.2 hnd hp] at hd
      cases hd
      simp [hin, hle]
    · have := g.rest p hp hin
      have h2 : ¬ p.2 ≤ now := by omega
      simp [hin, h2]
  have h2 : (D.filter (fun p => ids.contains p.1)).length = ((D.map (·.1)).filter (fun i => ids.contains i)).length := by
    rw [List.filter_map, List.length_map]; rfl
  rw [h1, h2]
  apply List.Perm.length_eq
  apply (List.perm_ext_iff_of_nodup g.nd (hnd.filter _)).mpr
  intro a
  simp only [List.mem_filter, List.contains_iff_mem, List.mem_map]
  constructor
  · intro ha
    obtain ⟨d, hd, _⟩ := g.due a ha
    exact ⟨⟨(a, d), dl_mem _ _ _ hd, rfl⟩, ha⟩
  · intro ha; exact ha.2

theorem remove_nil (r : Reg) : r.remove [] = r := by
  cases r with
  | mk imm timers net =>
    have : (fun x : List Nat => List.filter (fun _ => true) x) = id := by
      funext x; simp
    simp [Reg.remove, this]

/-! ### the monitor's step on the model's answer to `run` -/

theorem run_accept (s : S) (ms : MState) (ok : Bool) (ran : List Nat) (e' : Ev) (m' : Mem)
    (hrun : run s.ev s.now s.m = (ok, ran, e', m'))
    (hok : runOk ms.reg ms.now ok (decide (0 < m'.refusals - s.m.refusals)) ran = true) :
    Accepts s ms .run ∧ next s ms .run = ({ s with m := m', ev := e' }, { ms with reg := ms.reg.remove ran }) := by
  unfold Accepts next ansOf
  simp only [stepOp, hrun]
  have hfo : (Spec.AfMon.Head.fail == Spec.AfMon.Head.ok) = false := by decide
  cases ok
  · simp only [Out.ans, headOf, boolRes, monStep, Ans.rfn, DsStep.rf]
    simp [hok, hfo]
  · simp only [Out.ans, headOf, boolRes, monStep, Ans.rfn, DsStep.rf]
    simp [hok]

theorem immOrder_eq {s : S} {ms : MState} (h : RegRel s ms) :
    ms.reg.immOrder = s.ev.heads.flatten.map (·.id) := by
  unfold Reg.immOrder
  rw [h.imm]
  simp only [regImm, registry, List.map_flatten]

theorem all_nil {α : Type} (L : List (List α)) (n : Nat) (hl : L.length = n) (h : ∀ l ∈ L, l = []) :
    L = List.replicate n [] :=
  List.eq_replicate_iff.mpr ⟨hl, h⟩

/-- `run` with an immediate event pending -/
theorem run_imm_step (s : S) (ms : MState) (h : RegRel s ms) (hd : DlRel s ms) (hne : s.ev.heads.flatten ≠ []) :
    Accepts s ms .run ∧ RegRel (next s ms .run).1 (next s ms .run).2 ∧ DlRel (next s ms .run).1 (next s ms .run).2 := by
  obtain ⟨e', m', hrun, hfl', hi', hfr, hst⟩ := run_imm s.ev s.now s.m hd.imm hne
  have hio := immOrder_eq h
  have hok : runOk ms.reg ms.now true (decide (0 < m'.refusals - s.m.refusals))
      (s.ev.heads.flatten.map (·.id)) = true := by
    unfold runOk
    have : ms.reg.immOrder.isEmpty = false := by
      rw [hio]
      cases hc : s.ev.heads.flatten with
      | nil => exact absurd hc hne
      | cons a l => rfl
    simp only [this, Bool.not_false, if_true]
    rw [hio]; simp
  obtain ⟨hacc, hnext⟩ := run_accept s ms true _ e' m' hrun hok
  rw [hnext]
  obtain ⟨f1, f2, f3, f4, f5, f6⟩ := hfr
  have hran : s.ev.heads.flatten.map (·.id) = ms.reg.imm.flatten := by rw [← hio]; rfl
  have htimers : ms.reg.timers.filter (fun x => !(s.ev.heads.flatten.map (·.id)).contains x.1) = ms.reg.timers := by
    apply List.filter_eq_self.mpr
    intro p hp
    have hp1 : p.1 ∈ regTimers s.ev := by rw [← h.tm]; exact List.mem_map.mpr ⟨p, hp, rfl⟩
    have : p.1 ∉ s.ev.heads.flatten.map (·.id) := by
      intro hin
      rw [hran, h.imm] at hin
      exact h.disj _ hin hp1
    simpa using this
  have hregT : regTimers e' = regTimers s.ev := by simp only [regTimers, registry, f2]
  have hregI : regImm e' = List.replicate 32 [] := by
    apply all_nil _ _ (by simp [regImm, registry, hi'.len])
    intro l hl
    simp only [regImm, registry, List.mem_map] at hl
    obtain ⟨l0, hl0, rfl⟩ := hl
    rw [List.flatten_eq_nil_iff.mp hfl' l0 hl0]; rfl
  refine ⟨hacc, ⟨h.now, ?_, ?_, ?_, netInv_congr s.ev e' h.netInv f3 f4 f5 f6,
    tmInv_congr s.ev e' s.m m' h.tmInv f1 f2 hst.n, ?_, ?_, ?_⟩, ⟨hi', ?_, ?_, ?_⟩⟩
  · show (ms.reg.remove _).imm = regImm e'
    rw [hregI]
    apply all_nil
    · simp only [Reg.remove, List.length_map]
      rw [h.imm]; simp [regImm, registry, hd.imm.len]
    · intro l hl
      simp only [Reg.remove, List.mem_map] at hl
      obtain ⟨l0, hl0, rfl⟩ := hl
      apply List.filter_eq_nil_iff.mpr
      intro a ha
      have : a ∈ ms.reg.imm.flatten := List.mem_flatten.mpr ⟨l0, hl0, ha⟩
      rw [← hran] at this
      have hc := List.contains_iff_mem.mpr this
      show ¬ ((!(s.ev.heads.flatten.map (·.id)).contains a) = true)
      rw [hc]; decide
  · show (ms.reg.remove _).timers.map (·.1) = regTimers e'
    simp only [Reg.remove]
    rw [htimers, hregT]; exact h.tm
  · intro fd w id
    show (fd, w, id) ∈ ms.reg.net ↔ (fd, w, id) ∈ regNet e'
    rw [h.net]
    simp only [regNet, registry, f4]
  · show (regImm e').flatten.Nodup
    rw [hregI]; simp
  · intro i hi
    rw [hregI] at hi
    simp at hi
  · intro i hi
    rw [hregT] at hi
    exact h.tmSmall i hi
  · show (e'.timers.map (·.tid)).Nodup
    rw [f2]; exact hd.tidNd
  · intro x hx
    exact hd.tidTqr x (f2 ▸ hx)
  · intro t ht x hx
    have := hd.recs t (f1 ▸ ht) x (f2 ▸ hx)
    simp only [Reg.remove]
    rw [htimers]
    exact this

/-- `run` without immediate events: the timer half -/
theorem run_tm_step (s : S) (ms : MState) (h : RegRel s ms) (hd : DlRel s ms) (hfl : s.ev.heads.flatten = []) :
    Accepts s ms .run ∧ RegRel (next s ms .run).1 (next s ms .run).2 ∧ DlRel (next s ms .run).1 (next s ms .run).2 := by
  have rel0 := tmRel_of h hd
  have rel1 : TmRel { s.ev with minq := 32 } s.m ms.reg.timers := tmRel_congr rel0 rfl rfl (Nat.le_refl _)
  have hn1 : NetInv { s.ev with minq := 32 } := netInv_congr s.ev _ h.netInv rfl rfl rfl rfl
  have hi1 : ImmInv { s.ev with minq := 32 } := immInv_empty hd.imm hfl
  obtain ⟨ok, ran, e', m', hr, hst, hcase⟩ :=
    runTmW_spec (wantTv { s.ev with minq := 32 }) { s.ev with minq := 32 } s.now s.m ms.reg.timers rel1 hn1
  have hrun : run s.ev s.now s.m = (ok, ran, e', m') := by rw [run_noimm s.ev s.now s.m hd.imm hfl]; exact hr
  have hio : ms.reg.immOrder = [] := by rw [immOrder_eq h, hfl]; rfl
  have hall : ∀ l ∈ ms.reg.imm, l = [] := List.flatten_eq_nil_iff.mp hio
  have himm : ∀ ids : List Nat, ms.reg.imm.map (·.filter (!ids.contains ·)) = ms.reg.imm := by
    intro ids
    have : ∀ l ∈ ms.reg.imm, (fun l : List Nat => l.filter (!ids.contains ·)) l = id l := by
      intro l hl; rw [hall l hl]; rfl
    rw [List.map_congr_left this, List.map_id]
  rcases hcase with ⟨rfl, rfl, href, rfl⟩ | ⟨rfl, good, rel', hheads, hminq, hn', hnet'⟩
  · have hok : runOk ms.reg ms.now false (decide (0 < m'.refusals - s.m.refusals)) [] = true := by
      unfold runOk
      rw [hio]
      have : 0 < m'.refusals - s.m.refusals := by omega
      simp [timersOrderOk, this]
    obtain ⟨hacc, hnext⟩ := run_accept s ms false _ _ m' hrun hok
    rw [hnext, remove_nil]
    exact ⟨hacc, ⟨h.now, h.imm, h.tm, h.net, hn1, (tmRel_congr rel1 rfl rfl hst.n).inv, h.immNd, h.disj, h.tmSmall⟩,
      ⟨hi1, hd.tidNd, hd.tidTqr, hd.recs⟩⟩
  · have hok : runOk ms.reg ms.now true (decide (0 < m'.refusals - s.m.refusals)) ran = true := by
      unfold runOk
      rw [hio, h.now]
      have h1 := good_tok (r := ms.reg) good
      have h2 := good_length good rel0.nodupD
      simp [h1, h2]
    obtain ⟨hacc, hnext⟩ := run_accept s ms true _ e' m' hrun hok
    rw [hnext]
    have hregI : regImm e' = regImm s.ev := by simp only [regImm, registry, hheads]
    have hflat : (regImm s.ev).flatten = [] := by rw [← h.imm]; exact hio
    refine ⟨hacc, ⟨h.now, ?_, ?_, ?_, hn', rel'.inv, ?_, ?_, ?_⟩,
      ⟨immInv_congr hi1 hheads hminq, rel'.tidNd, rel'.tidTqr, rel'.recs⟩⟩
    · show (ms.reg.remove ran).imm = regImm e'
      rw [hregI, ← h.imm]
      exact himm ran
    · exact rel'.ids
    · intro fd w id
      show (fd, w, id) ∈ ms.reg.net ↔ (fd, w, id) ∈ regNet e'
      rw [h.net]
      show _ ↔ (fd, w, id) ∈ (registry e').net
      rw [hnet']; rfl
    · show (regImm e').flatten.Nodup
      rw [hregI]; exact h.immNd
    · intro i hi
      have hi' : i ∈ (regImm e').flatten := hi
      rw [hregI, hflat] at hi'
      cases hi'
    · intro i hi
      have hi' : i ∈ e'.timers.map (·.id) := hi
      rw [← rel'.ids] at hi'
      obtain ⟨p, hp, rfl⟩ := List.mem_map.mp hi'
      apply h.tmSmall
      rw [← h.tm]
      exact List.mem_map.mpr ⟨p, (List.mem_filter.mp hp).1, rfl⟩

/-- task 2: the monitor accepts the model's answer to `run`, and both pieces hold afterwards -/
theorem run_run (s : S) (ms : MState) (h : RegRel s ms) (hd : DlRel s ms) :
    Accepts s ms .run ∧ RegRel (next s ms .run).1 (next s ms .run).2 ∧ DlRel (next s ms .run).1 (next s ms .run).2 := by
  by_cases hfl : s.ev.heads.flatten = []
  · exact run_tm_step s ms h hd hfl
  · exact run_imm_step s ms h hd hfl

/-! ## task 3: every other operation keeps `DlRel` -/

/-- `DlRel` reads the immediate queues, `minq`, the timer queue, the timer list and the monitor's timers -/
theorem dlRel_congr {s s' : S} {ms ms' : MState} (hd : DlRel s ms) (h1 : s'.ev.heads = s.ev.heads)
    (h2 : s'.ev.minq = s.ev.minq) (h3 : s'.ev.tq = s.ev.tq) (h4 : s'.ev.timers = s.ev.timers)
    (h5 : ms'.reg.timers = ms.reg.timers) : DlRel s' ms' :=
  ⟨immInv_congr hd.imm h1 h2, by rw [h4]; exact hd.tidNd, fun x hx => hd.tidTqr x (h4 ▸ hx),
   fun t ht x hx => by rw [h5]; exact hd.recs t (h3 ▸ ht) x (h4 ▸ hx)⟩

/-- operations that touch neither the immediate queues nor the timers -/
def frameOp : Op → Bool
  | .failat _ | .failfrom _ | .failoff | .clock _ | .hInit | .hAdd _ _ | .hMin | .hDelmin | .hFree | .hCreate _
  | .regNet _ _ _ | .cancelNet _ _ => true
  | _ => false

theorem mon_frame (ms : MState) (op : Op) (a : Ans) (hop : frameOp op = true ∨ ∃ i p, op = .regImm i p) :
    (monStep ms op a).1.reg.timers = ms.reg.timers := by
  cases op <;> simp only [frameOp, Bool.false_eq_true, false_or, reduceCtorEq, exists_false] at hop <;>
    simp only [monStep] <;> (repeat' split) <;> rfl

theorem model_frame (s : S) (op : Op) (hop : frameOp op = true) :
    (stepOp s op).1.ev.heads = s.ev.heads ∧ (stepOp s op).1.ev.minq = s.ev.minq ∧ (stepOp s op).1.ev.tq = s.ev.tq ∧
    (stepOp s op).1.ev.timers = s.ev.timers := by
  cases op <;> simp only [frameOp, Bool.false_eq_true] at hop
  case regNet i sfd w =>
    simp only [stepOp]
    split
    · exact ⟨rfl, rfl, rfl, rfl⟩
    · have hf := (Percival.Proofs.EvRegNet.netReg_frame s.ev i sfd w s.m).1
      rcases hres : netReg s.ev i sfd w s.m with ⟨r, e', m'⟩
      rw [hres] at hf
      exact ⟨hf.1, hf.2.1, hf.2.2.1, hf.2.2.2.1⟩
  case cancelNet sfd w =>
    simp only [stepOp]
    split
    · exact ⟨rfl, rfl, rfl, rfl⟩
    · have hf := (Percival.Proofs.EvRegNet.netCancel_frame s.ev sfd w s.m).1
      rcases hres : netCancel s.ev sfd w s.m with ⟨r, e', m'⟩
      rw [hres] at hf
      exact ⟨hf.1, hf.2.1, hf.2.2.1, hf.2.2.2.1⟩
  all_goals (simp only [stepOp]; (repeat' split) <;> first | exact ⟨rfl, rfl, rfl, rfl⟩ | trivial | simp)

/-- the frame: allocation schedule, clock, pointer heap and descriptor operations keep `DlRel` -/
theorem frame_dl (s : S) (ms : MState) (op : Op) (hop : frameOp op = true) (hd : DlRel s ms) :
    DlRel (next s ms op).1 (next s ms op).2 := by
  obtain ⟨a, b, c, d⟩ := model_frame s op hop
  exact dlRel_congr hd a b c d (mon_frame ms op _ (Or.inl hop))

/-! ### immediate events -/

theorem immReg_immInv (e : Ev) (id prio : Nat) (m : Mem) (hi : ImmInv e) : ImmInv (immReg e id prio m).2.1 := by
  rw [Percival.Proofs.EvRegTimer.immReg_eq]
  rcases MPool.malloc e.recPool recSize m with ⟨o, p, m1⟩
  cases o with
  | none => exact immInv_congr hi rfl rfl
  | some rid =>
    dsimp only
    rcases MPool.malloc e.qPool qSize m1 with ⟨oq, qp, m2⟩
    cases oq with
    | none => exact immInv_congr hi rfl rfl
    | some qid =>
      dsimp only
      refine ⟨by simp [hi.len], ?_, ?_⟩
      · show (if prio < e.minq then prio else e.minq) ≤ 32
        have := hi.minq
        split <;> omega
      · intro j hj
        have hj' : j < (if prio < e.minq then prio else e.minq) := hj
        have hjm : j < e.minq ∧ prio ≠ j := by split at hj' <;> omega
        show (e.heads.modify prio _)[j]? = some []
        rw [List.getElem?_modify_ne _ _ hjm.2]
        exact hi.below j hjm.1

theorem regImm_dl (s : S) (ms : MState) (i prio : Nat) (hd : DlRel s ms) :
    DlRel (next s ms (.regImm i prio)).1 (next s ms (.regImm i prio)).2 := by
  have hmon := mon_frame ms (.regImm i prio) (ansOf s (.regImm i prio)) (Or.inr ⟨i, prio, rfl⟩)
  have hmodel : (stepOp s (.regImm i prio)).1.ev = s.ev ∨
      (stepOp s (.regImm i prio)).1.ev = (immReg s.ev i prio s.m).2.1 := by
    simp only [stepOp]
    split
    · exact Or.inl rfl
    · exact Or.inr rfl
  rcases hmodel with he | he
  · exact dlRel_congr hd (by rw [show (next s ms (.regImm i prio)).1.ev = s.ev from he])
      (by rw [show (next s ms (.regImm i prio)).1.ev = s.ev from he])
      (by rw [show (next s ms (.regImm i prio)).1.ev = s.ev from he])
      (by rw [show (next s ms (.regImm i prio)).1.ev = s.ev from he]) hmon
  · have he' : (next s ms (.regImm i prio)).1.ev = (immReg s.ev i prio s.m).2.1 := he
    obtain ⟨o1, o2, _⟩ := Percival.Proofs.EvRegTimer.immReg_other s.ev i prio s.m
    refine ⟨by rw [he']; exact immReg_immInv _ _ _ _ hd.imm, by rw [he', o2]; exact hd.tidNd,
      fun x hx => hd.tidTqr x (by rw [he', o2] at hx; exact hx), ?_⟩
    intro t ht x hx
    rw [he'] at ht hx
    rw [o1] at ht
    rw [o2] at hx
    rw [show (next s ms (.regImm i prio)).2.reg.timers = ms.reg.timers from hmon]
    exact hd.recs t ht x hx

theorem immCancel_shape (e : Ev) (id : Nat) (m : Mem) (e' : Ev) (m' : Mem) (h : immCancel e id m = some (e', m')) :
    e'.heads = e.heads.map (·.filter (·.id != id)) ∧ e'.minq = e.minq ∧ e'.tq = e.tq ∧ e'.timers = e.timers ∧
    id ∈ (regImm e).flatten := by
  unfold immCancel at h
  cases hfind : e.heads.flatten.find? (·.id == id) with
  | none => rw [hfind] at h; cases h
  | some ent =>
    rw [hfind] at h
    simp only [Percival.Proofs.EvRegTimer.freerec_eq, Option.some.injEq, Prod.mk.injEq] at h
    obtain ⟨h1, _⟩ := h
    subst h1
    refine ⟨rfl, rfl, rfl, rfl, ?_⟩
    have hm := List.mem_of_find?_eq_some hfind
    have hid : ent.id = id := by simpa using List.find?_some hfind
    simp only [regImm, registry, ← List.map_flatten]
    exact List.mem_map.mpr ⟨ent, hm, hid⟩

theorem cancelImm_dl (s : S) (ms : MState) (i : Nat) (h : RegRel s ms) (hd : DlRel s ms) :
    DlRel (next s ms (.cancelImm i)).1 (next s ms (.cancelImm i)).2 := by
  -- the monitor's timers do not change: an immediate id is not a timer id
  have hmon : (monStep ms (.cancelImm i) (ansOf s (.cancelImm i))).1.reg.timers = ms.reg.timers := by
    simp only [monStep]
    split
    · rfl
    · rename_i hany
      split
      · show ms.reg.timers.filter (fun x => !([i] : List Nat).contains x.1) = ms.reg.timers
        apply List.filter_eq_self.mpr
        intro p hp
        have hin : i ∈ (regImm s.ev).flatten := by
          rw [← h.imm]
          simp only [Bool.not_eq_true, Bool.not_eq_false', List.any_eq_true, List.contains_iff_mem] at hany
          obtain ⟨l, hl, hil⟩ := hany
          exact List.mem_flatten.mpr ⟨l, hl, hil⟩
        have hp1 : p.1 ∈ regTimers s.ev := by rw [← h.tm]; exact List.mem_map.mpr ⟨p, hp, rfl⟩
        have : p.1 ≠ i := fun hh => h.disj i hin (hh ▸ hp1)
        simp [this]
      · rfl
  cases hc : immCancel s.ev i s.m with
  | none =>
    have he : (next s ms (.cancelImm i)).1 = s := by simp only [next, stepOp, hc]
    exact dlRel_congr hd (by rw [he]) (by rw [he]) (by rw [he]) (by rw [he]) hmon
  | some r =>
    obtain ⟨e', m'⟩ := r
    have he : (next s ms (.cancelImm i)).1.ev = e' := by simp only [next, stepOp, hc]
    obtain ⟨a, b, c, d, _⟩ := immCancel_shape s.ev i s.m e' m' hc
    refine ⟨?_, by rw [he, d]; exact hd.tidNd, fun x hx => hd.tidTqr x (by rw [he, d] at hx; exact hx), ?_⟩
    · rw [he]
      refine ⟨by rw [a]; simp [hd.imm.len], by rw [b]; exact hd.imm.minq, ?_⟩
      intro j hj
      rw [b] at hj
      rw [a, List.getElem?_map, hd.imm.below j hj]
      rfl
    · intro t ht x hx
      rw [he] at ht hx
      rw [c] at ht
      rw [d] at hx
      rw [show (next s ms (.cancelImm i)).2.reg.timers = ms.reg.timers from hmon]
      exact hd.recs t ht x hx

/-! ### timers -/

theorem tmAny_iff {s : S} {ms : MState} (h : RegRel s ms) (i : Nat) :
    ms.reg.timers.any (·.1 == i) = registeredTm s.ev i := by
  rw [Bool.eq_iff_iff]
  have h1 : ms.reg.timers.any (·.1 == i) = true ↔ i ∈ ms.reg.timers.map (·.1) := by
    simp [List.any_eq_true, List.mem_map]
  have h2 : registeredTm s.ev i = true ↔ i ∈ regTimers s.ev := by
    simp [registeredTm, regTimers, registry, List.any_eq_true, List.mem_map]
  rw [h1, h2, h.tm]

theorem immAny_iff {s : S} {ms : MState} (h : RegRel s ms) (i : Nat) :
    ms.reg.imm.any (·.contains i) = registeredImm s.ev i := by
  rw [Bool.eq_iff_iff, h.imm]
  simp [registeredImm, regImm, registry, List.any_eq_true, List.mem_map]

/-- the monitor and the harness skip the same registrations -/
theorem hasId_eq {s : S} {ms : MState} (h : RegRel s ms) (i : Nat) :
    ms.reg.hasId i = (registeredImm s.ev i || registeredTm s.ev i) := by
  unfold Reg.hasId
  rw [tmAny_iff h, immAny_iff h]

open Percival.Proofs.EvRegTimer (tmBody tmQ tmReg_eq step_mpMalloc step_tqInit) in
open Percival.Proofs.EArray (pair_eta) in
/-- what `events_timer_register` stores, once the queue `t` exists -/
theorem tmBody_recs (e : Ev) (t : HeapAlloc.TQA) (i : Nat) (us now : Int) (m0 : Mem) :
    ∀ R, tmBody e t i us now m0 = R →
    (R.1 = false → R.2.1.timers = e.timers ∧ ∃ t', R.2.1.tq = some t' ∧ t'.q = t.q) ∧
    (R.1 = true → ∃ tid rid r t', R.2.1.timers = ⟨tid, rid, i, r⟩ :: e.timers ∧ R.2.1.tq = some t' ∧ tid < r ∧
      m0.n ≤ tid ∧ t'.q.recs = (r, ⟨secOf (now + us), usecOf (now + us), tid⟩) :: t.q.recs) := by
  intro R hR
  unfold tmBody at hR
  have s1 := step_mpMalloc e.recPool recSize m0
  rcases h1 : MPool.malloc e.recPool recSize m0 with ⟨o, p, m1⟩
  rw [h1] at hR s1
  dsimp only at hR s1
  cases o with
  | none =>
    dsimp only at hR; subst hR
    exact ⟨fun _ => ⟨rfl, t, rfl, rfl⟩, fun hh => by cases hh⟩
  | some rid =>
    dsimp only at hR
    cases hr : (m1.malloc tmSize).1
    · rw [pair_eta _ hr] at hR
      dsimp only at hR; subst hR
      exact ⟨fun _ => ⟨rfl, t, rfl, rfl⟩, fun hh => by cases hh⟩
    · rw [pair_eta _ hr] at hR
      dsimp only at hR
      unfold HeapAlloc.tqAdd at hR
      cases hr2 : ((m1.malloc tmSize).2.malloc HeapAlloc.tqRecSize).1
      · rw [pair_eta _ hr2] at hR
        dsimp only at hR; subst hR
        exact ⟨fun _ => ⟨rfl, t, rfl, rfl⟩, fun hh => by cases hh⟩
      · rw [pair_eta _ hr2] at hR
        dsimp only at hR
        rcases hres : EArray.append (HeapAlloc.shape t.q.h.a.size t.alloc) (SeqMap.encPtr (m1.malloc tmSize).2.n) 1
          SeqMap.ptrLen ((m1.malloc tmSize).2.malloc HeapAlloc.tqRecSize).2 with ⟨st, a', m2⟩
        rw [hres] at hR
        cases st <;> dsimp only at hR <;> subst hR
        · refine ⟨fun hh => (by cases hh), fun _ => ⟨m1.n, rid, (m1.malloc tmSize).2.n, _, rfl, rfl, ?_, s1.n, rfl⟩⟩
          show m1.n < m1.n + 1
          omega
        · exact ⟨fun _ => ⟨rfl, _, rfl, rfl⟩, fun hh => by cases hh⟩
        · exact ⟨fun _ => ⟨rfl, _, rfl, rfl⟩, fun hh => by cases hh⟩

open Percival.Proofs.EvRegTimer (tmBody tmQ tmReg_eq step_tqInit) in
/-- what `events_timer_register` stores -/
theorem tmReg_recs (e : Ev) (i : Nat) (us now : Int) (m : Mem) :
    ∀ R, tmReg e i us now m = R →
    (R.1 = false → R.2.1.timers = e.timers ∧ ∀ t t', e.tq = some t → R.2.1.tq = some t' → t'.q = t.q) ∧
    (R.1 = true → ∃ tid rid r t' recs0, R.2.1.timers = ⟨tid, rid, i, r⟩ :: e.timers ∧ R.2.1.tq = some t' ∧ tid < r ∧
      m.n ≤ tid ∧ t'.q.recs = (r, ⟨secOf (now + us), usecOf (now + us), tid⟩) :: recs0 ∧
      ∀ t, e.tq = some t → recs0 = t.q.recs) := by
  intro R hR
  rw [tmReg_eq] at hR
  unfold tmQ at hR
  cases htq : e.tq with
  | some t =>
    rw [htq] at hR
    dsimp only at hR
    obtain ⟨b1, b2⟩ := tmBody_recs e t i us now m R hR
    refine ⟨fun hf => ?_, fun hok => ?_⟩
    · obtain ⟨c1, t', c2, c3⟩ := b1 hf
      refine ⟨c1, fun t1 t1' h1 h1' => ?_⟩
      cases h1
      rw [c2] at h1'; cases h1'
      exact c3
    · obtain ⟨tid, rid, r, t', c1, c2, c3, c4, c5⟩ := b2 hok
      exact ⟨tid, rid, r, t', t.q.recs, c1, c2, c3, c4, c5, fun t1 h1 => by cases h1; rfl⟩
  | none =>
    rw [htq] at hR
    dsimp only at hR
    have hst := step_tqInit m
    rcases hini : HeapAlloc.tqInit m with ⟨o, m0⟩
    rw [hini] at hR hst
    cases o with
    | none =>
      dsimp only at hR; subst hR
      exact ⟨fun _ => ⟨rfl, fun t1 _ h1 => (by cases h1)⟩, fun hh => (by cases hh)⟩
    | some t =>
      dsimp only at hR
      obtain ⟨b1, b2⟩ := tmBody_recs e t i us now m0 R hR
      refine ⟨fun hf => ⟨(b1 hf).1, fun t1 _ h1 => (by cases h1)⟩, fun hok => ?_⟩
      obtain ⟨tid, rid, r, t', c1, c2, c3, c4, c5⟩ := b2 hok
      exact ⟨tid, rid, r, t', t.q.recs, c1, c2, c3, Nat.le_trans hst.n c4, c5, fun t1 h1 => by cases h1⟩

theorem ite_fst {α β : Type} (c : Prop) [Decidable c] (a : α) (x y : β) :
    (if c then (a, x) else (a, y)).1 = a := by split <;> rfl

/-- the two states after `regtm`: skipped by both sides, or the model registered / failed and the monitor followed -/
theorem regTm_next (s : S) (ms : MState) (i : Nat) (us : Int) (h : RegRel s ms) :
    next s ms (.regTm i us) = (s, ms) ∨
    (∃ ok e' m', tmReg s.ev i us s.now s.m = (ok, e', m') ∧ registeredTm s.ev i = false ∧
      next s ms (.regTm i us) = ({ s with m := m', ev := e' },
        if ok then { ms with reg := { ms.reg with timers := (i, ms.now + us) :: ms.reg.timers } } else ms)) := by
  unfold next ansOf
  by_cases hskip : (decide (i ≥ MAXID) || registeredImm s.ev i || registeredTm s.ev i) = true
  · left
    have hs2 : (decide (i ≥ MAXID) || ms.reg.hasId i) = true := by
      rw [hasId_eq h, ← Bool.or_assoc]; exact hskip
    simp only [stepOp, monStep, if_pos hskip, if_pos hs2]
  · right
    have hs2 : ¬ (decide (i ≥ MAXID) || ms.reg.hasId i) = true := by
      rw [hasId_eq h, ← Bool.or_assoc]; exact hskip
    have hnt : registeredTm s.ev i = false := by
      cases hh : registeredTm s.ev i
      · rfl
      · rw [hh] at hskip; simp at hskip
    rcases hres : tmReg s.ev i us s.now s.m with ⟨ok, e', m'⟩
    refine ⟨ok, e', m', rfl, hnt, ?_⟩
    simp only [stepOp, monStep, if_neg hskip, if_neg hs2, hres]
    cases ok
    · simp only [Out.ans, headOf, boolRes]
      simp only [Bool.false_eq_true, if_false]
      rw [show (Spec.AfMon.Head.fail == Spec.AfMon.Head.ok) = false from by decide]
      simp only [Bool.false_eq_true, if_false]
      congr 1
      exact ite_fst _ _ _ _
    · simp [Out.ans, headOf, boolRes]

/-- `regtm` keeps `DlRel`: the new record carries `(secOf, usecOf)` of the deadline the monitor records -/
theorem regTm_dl (s : S) (ms : MState) (i : Nat) (us : Int) (h : RegRel s ms) (hd : DlRel s ms) :
    DlRel (next s ms (.regTm i us)).1 (next s ms (.regTm i us)).2 := by
  rcases regTm_next s ms i us h with hn | ⟨ok, e', m', hres, hnt, hn⟩
  · rw [hn]; exact hd
  · obtain ⟨f1, f2⟩ := tmReg_recs s.ev i us s.now s.m _ hres
    have hoth := Percival.Proofs.EvRegTimer.tmReg_other s.ev i us s.now s.m
    rw [hres] at hoth
    obtain ⟨o1, o2, _⟩ := hoth
    have hi' : ImmInv e' := immInv_congr hd.imm o1 o2
    -- a registered timer means the queue exists
    have hq : ∀ x ∈ s.ev.timers, ∃ t, s.ev.tq = some t := by
      intro x hx
      cases hq0 : s.ev.tq with
      | none => rw [h.tmInv.noq hq0] at hx; cases hx
      | some t => exact ⟨t, rfl⟩
    cases ok with
    | false =>
      simp only [Bool.false_eq_true, if_false] at hn
      rw [hn]
      obtain ⟨ht, hqq⟩ := f1 rfl
      dsimp only at ht hqq
      refine ⟨hi', by rw [show e'.timers = s.ev.timers from ht]; exact hd.tidNd,
        fun x hx => hd.tidTqr x (by rw [← ht]; exact hx), ?_⟩
      intro t' ht' x hx
      have hx' : x ∈ s.ev.timers := by rw [← ht]; exact hx
      obtain ⟨t, hq0⟩ := hq x hx'
      have := hqq t t' hq0 ht'
      rw [this]
      exact hd.recs t hq0 x hx'
    | true =>
      simp only [if_true] at hn
      rw [hn]
      obtain ⟨tid, rid, r, t', recs0, c1, c2, c3, c4, c5, c6⟩ := f2 rfl
      dsimp only at c1 c2
      have hold : ∀ x ∈ s.ev.timers, x.tid < x.tqr ∧ x.tqr < s.m.n ∧ x.id ≠ i := by
        intro x hx
        refine ⟨hd.tidTqr x hx, h.tmInv.lt x hx, fun hxi => ?_⟩
        have : registeredTm s.ev i = true := List.any_eq_true.mpr ⟨x, hx, by simp [hxi]⟩
        rw [hnt] at this; cases this
      refine ⟨hi', ?_, ?_, ?_⟩
      · show (e'.timers.map (·.tid)).Nodup
        rw [c1, List.map_cons, List.nodup_cons]
        refine ⟨?_, hd.tidNd⟩
        intro hmem
        obtain ⟨x, hx, hxt⟩ := List.mem_map.mp hmem
        have := hold x hx
        dsimp only at hxt
        omega
      · intro x hx
        have hx' : x ∈ e'.timers := hx
        rw [c1] at hx'
        rcases List.mem_cons.mp hx' with hx' | hx'
        · subst hx'; exact c3
        · exact hd.tidTqr x hx'
      · intro t'' ht'' x hx
        have ht3 : e'.tq = some t'' := ht''
        rw [c2] at ht3; cases ht3
        have hx' : x ∈ e'.timers := hx
        rw [c1] at hx'
        show ∃ rc d, lookup t'.q.recs x.tqr = some rc ∧ rc.ptr = x.tid ∧
          dl ((i, ms.now + us) :: ms.reg.timers) x.id = some d ∧ rc.sec = secOf d ∧ rc.usec = usecOf d
        rw [c5]
        rcases List.mem_cons.mp hx' with hx' | hx'
        · subst hx'
          refine ⟨⟨secOf (s.now + us), usecOf (s.now + us), tid⟩, ms.now + us, ?_, rfl, ?_, ?_, ?_⟩
          · rw [Percival.Proofs.TQ.lookup_cons]; simp
          · rw [dl_cons]; simp
          · rw [h.now]
          · rw [h.now]
        · obtain ⟨t, hq0⟩ := hq x hx'
          obtain ⟨rc, d, a1, a2, a3, a4, a5⟩ := hd.recs t hq0 x hx'
          obtain ⟨b1, b2, b3⟩ := hold x hx'
          refine ⟨rc, d, ?_, a2, ?_, a4, a5⟩
          · rw [Percival.Proofs.TQ.lookup_cons, c6 t hq0]
            have : x.tqr ≠ r := by omega
            simp [this, a1]
          · rw [dl_cons]
            have : i ≠ x.id := fun hh => b3 hh.symm
            simp [this, a3]

theorem tqdelete_recs (q q' : TQ) (r : Nat) (h : TimerQueue.delete q r = some q') : q'.recs = q.recs := by
  unfold TimerQueue.delete at h
  cases h1 : Heap.posOf q.h r with
  | none => simp [h1] at h
  | some rc =>
    cases h2 : Heap.delete (key q.recs) q.h rc with
    | none => simp [h1, h2] at h
    | some h' =>
      simp [h1, h2] at h
      subst h; rfl

theorem tmCancel_shape (e : Ev) (i : Nat) (m : Mem) (e' : Ev) (m' : Mem) (h : tmCancel e i m = some (e', m')) :
    ∃ t t', e.tq = some t ∧ e'.tq = some t' ∧ t'.q.recs = t.q.recs ∧ e'.timers = e.timers.filter (·.id != i) ∧
      e'.heads = e.heads ∧ e'.minq = e.minq ∧ registeredTm e i = true := by
  unfold tmCancel at h
  cases hfind : e.timers.find? (·.id == i) with
  | none => rw [hfind] at h; simp at h
  | some ent =>
    cases htq : e.tq with
    | none => rw [hfind, htq] at h; simp at h
    | some t =>
      rw [hfind, htq] at h
      dsimp only at h
      unfold HeapAlloc.tqDelete at h
      cases hdel : TimerQueue.delete t.q ent.tqr with
      | none => rw [hdel] at h; simp at h
      | some q' =>
        rw [hdel] at h
        simp only [Percival.Proofs.EvRegTimer.freerec_eq, Option.some.injEq, Prod.mk.injEq] at h
        obtain ⟨h1, _⟩ := h
        subst h1
        refine ⟨t, _, rfl, rfl, tqdelete_recs _ _ _ hdel, rfl, rfl, rfl, ?_⟩
        have hm := List.mem_of_find?_eq_some hfind
        have hid := List.find?_some hfind
        exact List.any_eq_true.mpr ⟨ent, hm, hid⟩
theorem cancelTm_next (s : S) (ms : MState) (i : Nat) (h : RegRel s ms) :
    (next s ms (.cancelTm i) = (s, ms)) ∨
    (∃ e' m', tmCancel s.ev i s.m = some (e', m') ∧
      next s ms (.cancelTm i) = ({ s with m := m', ev := e' }, { ms with reg := ms.reg.remove [i] })) := by
  unfold next ansOf
  cases hc : tmCancel s.ev i s.m with
  | none =>
    left
    simp only [stepOp, hc, monStep, Out.ans]
    congr 1
    split
    · rfl
    · rw [show (Spec.AfMon.Head.skip == Spec.AfMon.Head.ok) = false from by decide]
      rfl
  | some r =>
    obtain ⟨e', m'⟩ := r
    right
    obtain ⟨_, _, _, _, _, _, _, _, hreg⟩ := tmCancel_shape s.ev i s.m e' m' hc
    have hany : ms.reg.timers.any (·.1 == i) = true := by rw [tmAny_iff h]; exact hreg
    refine ⟨e', m', rfl, ?_⟩
    simp only [stepOp, hc, monStep, Out.ans, headOf, hany]
    simp

/-- `canceltm` keeps `DlRel` -/
theorem cancelTm_dl (s : S) (ms : MState) (i : Nat) (h : RegRel s ms) (hd : DlRel s ms) :
    DlRel (next s ms (.cancelTm i)).1 (next s ms (.cancelTm i)).2 := by
  rcases cancelTm_next s ms i h with hn | ⟨e', m', hc, hn⟩
  · rw [hn]; exact hd
  · rw [hn]
    obtain ⟨t, t', q0, q1, q2, q3, q4, q5, _⟩ := tmCancel_shape s.ev i s.m e' m' hc
    refine ⟨immInv_congr hd.imm q4 q5, ?_, ?_, ?_⟩
    · show (e'.timers.map (·.tid)).Nodup
      rw [q3]; exact (List.filter_sublist.map _).nodup hd.tidNd
    · intro x hx
      have hx' : x ∈ e'.timers := hx
      rw [q3] at hx'
      exact hd.tidTqr x (List.mem_filter.mp hx').1
    · intro t'' ht'' x hx
      have ht3 : e'.tq = some t'' := ht''
      rw [q1] at ht3; cases ht3
      have hx' : x ∈ e'.timers := hx
      rw [q3] at hx'
      obtain ⟨hx1, hx2⟩ := List.mem_filter.mp hx'
      have hne : x.id ≠ i := by simpa using hx2
      obtain ⟨rc, d, a1, a2, a3, a4, a5⟩ := hd.recs t q0 x hx1
      refine ⟨rc, d, by rw [q2]; exact a1, a2, ?_, a4, a5⟩
      show dl (ms.reg.timers.filter (fun p => !([i] : List Nat).contains p.1)) x.id = some d
      rw [dl_filter _ _ _ (fun p _ hp => by simp [hp, hne])]
      exact a3


/-! ## task 4 -/

/-- helper `Run`'s contribution: for `run` the monitor accepts the model's answer and `RegRel` holds afterwards; every
operation except `end` keeps `DlRel` -/
theorem run_step (s : S) (ms : MState) (op : Op) (hop : op ≠ .end_) (h : RegRel s ms) (hd : DlRel s ms) :
    (op = .run → Accepts s ms op ∧ RegRel (next s ms op).1 (next s ms op).2) ∧
    DlRel (next s ms op).1 (next s ms op).2 := by
  cases op with
  | end_ => exact absurd rfl hop
  | run =>
    obtain ⟨a, b, c⟩ := run_run s ms h hd
    exact ⟨fun _ => ⟨a, b⟩, c⟩
  | regImm i prio => exact ⟨fun hh => (by cases hh), regImm_dl s ms i prio hd⟩
  | cancelImm i => exact ⟨fun hh => (by cases hh), cancelImm_dl s ms i h hd⟩
  | regTm i us => exact ⟨fun hh => (by cases hh), regTm_dl s ms i us h hd⟩
  | cancelTm i => exact ⟨fun hh => (by cases hh), cancelTm_dl s ms i h hd⟩
  | failat k => exact ⟨fun hh => (by cases hh), frame_dl s ms _ (by rfl) hd⟩
  | failfrom k => exact ⟨fun hh => (by cases hh), frame_dl s ms _ (by rfl) hd⟩
  | failoff => exact ⟨fun hh => (by cases hh), frame_dl s ms _ (by rfl) hd⟩
  | clock us => exact ⟨fun hh => (by cases hh), frame_dl s ms _ (by rfl) hd⟩
  | hInit => exact ⟨fun hh => (by cases hh), frame_dl s ms _ (by rfl) hd⟩
  | hAdd e k => exact ⟨fun hh => (by cases hh), frame_dl s ms _ (by rfl) hd⟩
  | hMin => exact ⟨fun hh => (by cases hh), frame_dl s ms _ (by rfl) hd⟩
  | hDelmin => exact ⟨fun hh => (by cases hh), frame_dl s ms _ (by rfl) hd⟩
  | hFree => exact ⟨fun hh => (by cases hh), frame_dl s ms _ (by rfl) hd⟩
  | hCreate els => exact ⟨fun hh => (by cases hh), frame_dl s ms _ (by rfl) hd⟩
  | regNet i fd w => exact ⟨fun hh => (by cases hh), frame_dl s ms _ (by rfl) hd⟩
  | cancelNet fd w => exact ⟨fun hh => (by cases hh), frame_dl s ms _ (by rfl) hd⟩

/-! ## non-vacuity -/

/-- the hypotheses of `run_step` hold initially -/
theorem regRel_init : RegRel {} {} :=
  ⟨rfl, by decide, rfl, fun fd w id => by simp [regNet, registry, netOf],
   Percival.Proofs.EvRegNet.netInv_init, Percival.Proofs.EvRegTimer.tmInv_init _, by decide,
   fun i hi => by simp [regTimers, registry], fun i hi => by simp [regTimers, registry] at hi⟩

/-- two timers and two immediate events: the first `run` answers the immediate events by priority, the second (after
the clock passed both deadlines) the timers by deadline, the third nothing -/
def demoOps : List Op := [.regTm 1 500, .regTm 2 100, .regImm 5 3, .regImm 7 1, .run, .clock 1000, .run, .run]

example : (runOps {} demoOps).map (·.2.ans.ran) =
    [none, none, none, none, some (some [7, 5]), none, some (some [2, 1]), some (some [])] := by decide +kernel

example : Spec.AfMon.acceptsRun {} (demoOps.zip ((runOps {} demoOps).map (·.2.ans))) = true := by decide +kernel

/-- the `timeval` of `events_timer_min` is refused: `run` fails with one refused request, nothing ran -/
def demoFail : List Op := [.regTm 1 500, .clock 1000, .failat 1, .run, .run]

example : (runOps {} demoFail).map (fun r => (r.2.ans.head, r.2.ans.rf, r.2.ans.ran)) =
    [(.ok, some 0, none), (.ok, none, none), (.ok, none, none), (.fail, some 1, some (some [])),
     (.ok, some 0, some (some [1]))] := by decide +kernel

example : Spec.AfMon.acceptsRun {} (demoFail.zip ((runOps {} demoFail).map (·.2.ans))) = true := by decide +kernel

end Percival.Proofs.AfMonRun
