import Percival.Proofs.HexEndian
/-! Round trips of the endian store/load routines, from the `*_spec` lemmas. -/
namespace Percival.Proofs.Endian
open Percival.Model Percival.Spec

theorem mid_of_splice (l pre mid post : List UInt8) (p n : Nat) (h : l = pre ++ mid ++ post)
    (hp : pre.length = p) (hm : mid.length = n) : (l.drop p).take n = mid := by
  subst h; subst hp; subst hm
  simp

theorem size_of_splice (b b' : Buf) (p n : Nat) (mid : List UInt8) (hm : mid.length = n) (h : p + n ≤ b.size)
    (hl : b'.toList = b.toList.take p ++ mid ++ b.toList.drop (p + n)) : b'.size = b.size := by
  have := congrArg List.length hl
  simp at this
  omega

theorem be16_roundtrip (b : Buf) (p : Nat) (x : UInt16) (h : p + 2 ≤ b.size) :
    ∃ b', Endian.be16enc b p x = .ok b' ∧ b'.size = b.size ∧ Endian.be16dec b' p = .ok x := by
  obtain ⟨b', he, hl⟩ := be16enc_spec b p x h
  have hs := size_of_splice b b' p 2 _ (beBytes_length 2 _) h hl
  refine ⟨b', he, hs, ?_⟩
  rw [be16dec_spec b' p (by omega), mid_of_splice _ _ _ _ p 2 hl (by simp; omega) (beBytes_length 2 _),
    beVal_beBytes 2 _ (by have := x.toNat_lt; omega)]
  simp

theorem le16_roundtrip (b : Buf) (p : Nat) (x : UInt16) (h : p + 2 ≤ b.size) :
    ∃ b', Endian.le16enc b p x = .ok b' ∧ b'.size = b.size ∧ Endian.le16dec b' p = .ok x := by
  obtain ⟨b', he, hl⟩ := le16enc_spec b p x h
  have hs := size_of_splice b b' p 2 _ (leBytes_length 2 _) h hl
  refine ⟨b', he, hs, ?_⟩
  rw [le16dec_spec b' p (by omega), mid_of_splice _ _ _ _ p 2 hl (by simp; omega) (leBytes_length 2 _),
    leVal_leBytes 2 _ (by have := x.toNat_lt; omega)]
  simp

theorem be32_roundtrip (b : Buf) (p : Nat) (x : UInt32) (h : p + 4 ≤ b.size) :
    ∃ b', Endian.be32enc b p x = .ok b' ∧ b'.size = b.size ∧ Endian.be32dec b' p = .ok x := by
  obtain ⟨b', he, hl⟩ := be32enc_spec b p x h
  have hs := size_of_splice b b' p 4 _ (beBytes_length 4 _) h hl
  refine ⟨b', he, hs, ?_⟩
  rw [be32dec_spec b' p (by omega), mid_of_splice _ _ _ _ p 4 hl (by simp; omega) (beBytes_length 4 _),
    beVal_beBytes 4 _ (by have := x.toNat_lt; omega)]
  simp

theorem le32_roundtrip (b : Buf) (p : Nat) (x : UInt32) (h : p + 4 ≤ b.size) :
    ∃ b', Endian.le32enc b p x = .ok b' ∧ b'.size = b.size ∧ Endian.le32dec b' p = .ok x := by
  obtain ⟨b', he, hl⟩ := le32enc_spec b p x h
  have hs := size_of_splice b b' p 4 _ (leBytes_length 4 _) h hl
  refine ⟨b', he, hs, ?_⟩
  rw [le32dec_spec b' p (by omega), mid_of_splice _ _ _ _ p 4 hl (by simp; omega) (leBytes_length 4 _),
    leVal_leBytes 4 _ (by have := x.toNat_lt; omega)]
  simp

theorem be64_roundtrip (b : Buf) (p : Nat) (x : UInt64) (h : p + 8 ≤ b.size) :
    ∃ b', Endian.be64enc b p x = .ok b' ∧ b'.size = b.size ∧ Endian.be64dec b' p = .ok x := by
  obtain ⟨b', he, hl⟩ := be64enc_spec b p x h
  have hs := size_of_splice b b' p 8 _ (beBytes_length 8 _) h hl
  refine ⟨b', he, hs, ?_⟩
  rw [be64dec_spec b' p (by omega), mid_of_splice _ _ _ _ p 8 hl (by simp; omega) (beBytes_length 8 _),
    beVal_beBytes 8 _ (by have := x.toNat_lt; omega)]
  simp

theorem le64_roundtrip (b : Buf) (p : Nat) (x : UInt64) (h : p + 8 ≤ b.size) :
    ∃ b', Endian.le64enc b p x = .ok b' ∧ b'.size = b.size ∧ Endian.le64dec b' p = .ok x := by
  obtain ⟨b', he, hl⟩ := le64enc_spec b p x h
  have hs := size_of_splice b b' p 8 _ (leBytes_length 8 _) h hl
  refine ⟨b', he, hs, ?_⟩
  rw [le64dec_spec b' p (by omega), mid_of_splice _ _ _ _ p 8 hl (by simp; omega) (leBytes_length 8 _),
    leVal_leBytes 8 _ (by have := x.toNat_lt; omega)]
  simp

end Percival.Proofs.Endian
