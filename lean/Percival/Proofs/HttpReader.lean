import Percival.Proofs.HttpStep
import Percival.Proofs.NetbufRead
/-! The scripted reader of `Model/HttpStep.lean` against the proved model of `netbuf_read.c` (`Model/NetbufRead.lean`, C07):
    the buffer geometry after `netbuf_read_consume` + `netbuf_read_wait` and after one `recv` which delivers data. -/
namespace Percival.Proofs.HttpReader
open Percival.Model Percival.Model.HttpStep Percival.Model.Netbuf Percival.Proofs.NetbufRead

/-- the reader state `readerWait` hands to its event loop when the wait is not immediate: read pointer advanced,
    then `netbuf_read_wait`'s resize and compaction -/
def prep (r : Reader) (c k : Nat) : Reader :=
  let r := { r with bufpos := r.bufpos + c }
  let r := if r.cap < k then
      { r with cap := max (r.cap * 2) k, datalen := r.datalen - r.bufpos, bufpos := 0 } else r
  if r.cap - r.bufpos < k then { r with datalen := r.datalen - r.bufpos, bufpos := 0 } else r

theorem readerWait_eq (r : Reader) (c k : Nat) :
    readerWait r c k =
      if r.datalen - (r.bufpos + c) ≥ k then ({ r with bufpos := r.bufpos + c }, some (.more (r.datalen - (r.bufpos + c) - k)))
      else fill k (2 * ((prep r c k).remaining + k) + 1000000) (prep r c k) := rfl

/-- same buffer geometry -/
def SameGeo (rd : Reader) (nb : NetbufRead.R) : Prop :=
  rd.cap = nb.buflen ∧ rd.bufpos = nb.bufpos ∧ rd.datalen = nb.datalen

theorem wait_geometry (rd : Reader) (nb : NetbufRead.R) (c k : Nat) (hgeo : Geo nb) (hp : nb.pending = .none)
    (heq : SameGeo rd nb) (hc : c ≤ nb.datalen - nb.bufpos) :
    ∃ nb2, (NetbufRead.consume nb c >>= fun nb1 => NetbufRead.wait nb1 k) = .ok nb2 ∧ Geo nb2 ∧
      window nb2 = (window nb).drop c ∧
      (k ≤ nb.datalen - nb.bufpos - c →
        nb2.pending = .immediate ∧ SameGeo { rd with bufpos := rd.bufpos + c } nb2) ∧
      (¬ k ≤ nb.datalen - nb.bufpos - c →
        nb2.pending = .read ∧ nb2.waitlen = k ∧ k ≤ nb2.buflen - nb2.bufpos ∧ SameGeo (prep rd c k) nb2) := by
  obtain ⟨e1, e2, e3⟩ := heq
  obtain ⟨g1, g2, g3⟩ := hgeo
  -- consume
  have hcons : NetbufRead.consume nb c = .ok { nb with bufpos := nb.bufpos + c } := by
    unfold NetbufRead.consume
    rw [sub_eq _ _ g2]
    simp only [Res.ok_bind]
    rw [if_neg (by omega)]
    rfl
  rw [hcons]
  simp only [Res.ok_bind]
  have geo1 : Geo { nb with bufpos := nb.bufpos + c } := ⟨g1, by show nb.bufpos + c ≤ nb.datalen; omega, g3⟩
  have win1 : window { nb with bufpos := nb.bufpos + c } = (window nb).drop c := by
    simp only [window]
    rw [List.drop_take, List.drop_drop]
    congr 1
    omega
  unfold NetbufRead.wait
  rw [if_neg (by simp [hp]), sub_eq _ _ (by show nb.bufpos + c ≤ nb.datalen; omega)]
  simp only [Res.ok_bind]
  by_cases hk : k ≤ nb.datalen - (nb.bufpos + c)
  · rw [if_pos hk]
    refine ⟨_, rfl, ⟨g1, geo1.pos, g3⟩, win1, fun _ => ⟨rfl, e1, by show rd.bufpos + c = nb.bufpos + c; omega, e3⟩,
      fun h => absurd (by omega) h⟩
  · rw [if_neg hk]
    have hgf : Percival.Gen.Netbuf.growFactor = 2 := rfl
    by_cases hb : nb.buflen < k
    · -- the buffer is too small: resize
      obtain ⟨r1, er, m, hbl⟩ := resize_spec geo1 k
      have hbig := (newBuflen_ge nb.buflen k).1
      have hbl' : r1.buflen = NetbufRead.newBuflen nb.buflen k := hbl
      have hbp : r1.bufpos = 0 := m.bufpos
      have hdl : r1.datalen = nb.datalen - (nb.bufpos + c) := m.datalen
      have egrow : NetbufRead.growIfNeeded { nb with bufpos := nb.bufpos + c } k = .ok r1 := by
        unfold NetbufRead.growIfNeeded
        rw [if_pos (by exact hb)]
        exact er
      rw [egrow]
      simp only [Res.ok_bind]
      have ecomp : NetbufRead.compactIfNeeded r1 k = .ok r1 := by
        unfold NetbufRead.compactIfNeeded
        rw [sub_eq _ _ (by omega)]
        simp only [Res.ok_bind]
        rw [if_neg (by omega)]
        rfl
      rw [ecomp]
      simp only [Res.ok_bind]
      have geo2 : Geo { r1 with waitlen := k } := ⟨m.geo.len, m.geo.pos, m.geo.dat⟩
      rw [doread_spec geo2 (by show r1.datalen < r1.buflen; omega)]
      refine ⟨_, rfl, ⟨m.geo.len, m.geo.pos, m.geo.dat⟩, ?_, fun h => absurd (by omega) hk, fun _ => ⟨rfl, rfl, ?_, ?_⟩⟩
      · show window r1 = _
        rw [m.win, win1]
      · show k ≤ r1.buflen - r1.bufpos
        omega
      · have hcap : rd.cap < k := by omega
        simp only [prep, hcap, if_true]
        rw [if_neg (by have := Nat.le_max_right (rd.cap * 2) k; omega)]
        refine ⟨?_, hbp.symm, ?_⟩
        · show max (rd.cap * 2) k = r1.buflen
          rw [hbl', e1]
          simp only [NetbufRead.newBuflen, hgf]
          split <;> omega
        · show rd.datalen - (rd.bufpos + c) = r1.datalen
          omega
    · have egrow : NetbufRead.growIfNeeded { nb with bufpos := nb.bufpos + c } k = .ok { nb with bufpos := nb.bufpos + c } := by
        unfold NetbufRead.growIfNeeded
        rw [if_neg (by exact hb)]
        rfl
      rw [egrow]
      simp only [Res.ok_bind]
      have hcap : ¬ rd.cap < k := by omega
      by_cases hroom : nb.buflen - (nb.bufpos + c) < k
      · -- too little room behind the read pointer: move the data to the front
        obtain ⟨r2, ec, m, hbl⟩ := compact_spec geo1
        have hbl' : r2.buflen = nb.buflen := hbl
        have hbp : r2.bufpos = 0 := m.bufpos
        have hdl : r2.datalen = nb.datalen - (nb.bufpos + c) := m.datalen
        have ecomp : NetbufRead.compactIfNeeded { nb with bufpos := nb.bufpos + c } k = .ok r2 := by
          unfold NetbufRead.compactIfNeeded
          rw [sub_eq _ _ (by show nb.bufpos + c ≤ nb.buflen; omega)]
          simp only [Res.ok_bind]
          rw [if_pos (by exact hroom)]
          exact ec
        rw [ecomp]
        simp only [Res.ok_bind]
        have geo2 : Geo { r2 with waitlen := k } := ⟨m.geo.len, m.geo.pos, m.geo.dat⟩
        rw [doread_spec geo2 (by show r2.datalen < r2.buflen; omega)]
        refine ⟨_, rfl, ⟨m.geo.len, m.geo.pos, m.geo.dat⟩, ?_, fun h => absurd (by omega) hk, fun _ => ⟨rfl, rfl, ?_, ?_⟩⟩
        · show window r2 = _
          rw [m.win, win1]
        · show k ≤ r2.buflen - r2.bufpos
          omega
        · simp only [prep, hcap, if_false]
          rw [if_pos (by omega)]
          exact ⟨by show rd.cap = r2.buflen; omega, hbp.symm, by show rd.datalen - (rd.bufpos + c) = r2.datalen; omega⟩
      · have ecomp : NetbufRead.compactIfNeeded { nb with bufpos := nb.bufpos + c } k = .ok { nb with bufpos := nb.bufpos + c } := by
          unfold NetbufRead.compactIfNeeded
          rw [sub_eq _ _ (by show nb.bufpos + c ≤ nb.buflen; omega)]
          simp only [Res.ok_bind]
          rw [if_neg (by exact hroom)]
          rfl
        rw [ecomp]
        simp only [Res.ok_bind]
        have geo2 : Geo { { nb with bufpos := nb.bufpos + c } with waitlen := k } := ⟨g1, geo1.pos, g3⟩
        rw [doread_spec geo2 (by show nb.datalen < nb.buflen; omega)]
        refine ⟨_, rfl, ⟨g1, geo1.pos, g3⟩, win1, fun h => absurd (by omega) hk, fun _ => ⟨rfl, rfl, ?_, ?_⟩⟩
        · show k ≤ nb.buflen - (nb.bufpos + c)
          omega
        · simp only [prep, hcap, if_false]
          rw [if_neg (by omega)]
          exact ⟨e1, by show rd.bufpos + c = nb.bufpos + c; omega, e3⟩

/-- **One `recv` which delivers data**, as `netbuf_read.c`'s `callback_read` handles it: the bytes are appended to
    the window, `datalen` grows by their number (what `fill` does to its count), nothing else of the geometry
    changes, and the wait completes (status 0) exactly when `waitlen` bytes are buffered. -/
theorem recv_geometry (nb : NetbufRead.R) (d : List UInt8) (hgeo : Geo nb) (hp : nb.pending = .read)
    (hroom : nb.waitlen ≤ nb.buflen - nb.bufpos) (hd0 : d.length ≠ 0) (hfit : d.length ≤ nb.buflen - nb.datalen) :
    ∃ nb' st, NetbufRead.callbackRead nb (.data d) = .ok (nb', st) ∧ Geo nb' ∧ window nb' = window nb ++ d ∧
      nb'.buflen = nb.buflen ∧ nb'.bufpos = nb.bufpos ∧ nb'.datalen = nb.datalen + d.length ∧ nb'.waitlen = nb.waitlen ∧
      (nb.waitlen ≤ nb.datalen + d.length - nb.bufpos → st = some 0 ∧ nb'.pending = .none) ∧
      (¬ nb.waitlen ≤ nb.datalen + d.length - nb.bufpos → st = none ∧ nb'.pending = .read) := by
  obtain ⟨g1, g2, g3⟩ := hgeo
  have hlen' : (nb.buf.take nb.datalen ++ (d ++ nb.buf.drop (nb.datalen + d.length))).length = nb.buflen := by
    simp [List.length_take, List.length_drop]; omega
  have hwin' : ((nb.buf.take nb.datalen ++ (d ++ nb.buf.drop (nb.datalen + d.length))).drop nb.bufpos).take
      (nb.datalen + d.length - nb.bufpos) = window nb ++ d := by
    rw [window_blit _ _ _ _ g2 (by omega)]
    rfl
  unfold NetbufRead.callbackRead
  rw [if_neg (by simp [hp])]
  simp only []
  rw [if_neg hd0, blit_eq _ _ _ (by omega)]
  simp only [Res.ok_bind]
  rw [sub_eq _ _ (by show nb.bufpos ≤ nb.datalen + d.length; omega)]
  simp only [Res.ok_bind]
  by_cases hdone : nb.waitlen ≤ nb.datalen + d.length - nb.bufpos
  · rw [if_neg (by show ¬ (nb.datalen + d.length - nb.bufpos < nb.waitlen); omega)]
    refine ⟨_, _, rfl, ⟨hlen', ?_, ?_⟩, hwin', rfl, rfl, rfl, rfl, fun _ => ⟨rfl, rfl⟩, fun h => absurd hdone h⟩
    · show nb.bufpos ≤ nb.datalen + d.length; omega
    · show nb.datalen + d.length ≤ nb.buflen; omega
  · rw [if_pos (by show nb.datalen + d.length - nb.bufpos < nb.waitlen; omega)]
    have geo' : Geo ⟨nb.buf.take nb.datalen ++ (d ++ nb.buf.drop (nb.datalen + d.length)), nb.buflen, nb.bufpos,
        nb.datalen + d.length, nb.waitlen, NetbufRead.Pending.none⟩ :=
      ⟨hlen', by show nb.bufpos ≤ nb.datalen + d.length; omega, by show nb.datalen + d.length ≤ nb.buflen; omega⟩
    rw [doread_spec geo' (by show nb.datalen + d.length < nb.buflen; omega)]
    exact ⟨_, _, rfl, ⟨hlen', geo'.pos, geo'.dat⟩, hwin', rfl, rfl, rfl, rfl, fun h => absurd h hdone, fun _ => ⟨rfl, rfl⟩⟩

end Percival.Proofs.HttpReader
