import Percival.Proofs.AfMonRunA
/-!
# C14, monitor soundness, helper `Run`, part B: the timer half of `events_run()`

`TmRel e m D`: the model's timer state `e.tq`/`e.timers` against the monitor's list `D` of (id, deadline): same ids
in the same order, every timer's queue record carries `(secOf d, usecOf d)` of the monitor's deadline `d` and the
timer's `tid` as pointer, `tid`s distinct.  Under it `runTimers` (enough fuel) releases exactly the due timers in
non-decreasing order of deadline.
-/
namespace Percival.Proofs.AfMonRun
open Percival.Model Percival.Model.EvReg Percival.Model.TimerQueue
open Percival.Proofs.EvRegTimer (Step step_mpFree step_free step_shrink freerec_eq regImm regTimers TmInv tmInv_congr
  perm_filter_id)
open Percival.Spec.PQ (IsLeast)
open Percival.Proofs.TQ (TQInv tq_getptr key_of_lookup)
open Percival.Proofs.AllocFail (HInv)

/-- `timerqueue_getptr` with its storage: nothing is due, or a least record, which is due, is released -/
theorem tqGetptr_spec (t : HeapAlloc.TQA) (sec usec : Int) (m : Mem) (hq : TQInv t.q)
    (hh : HInv (HeapAlloc.heapOf t)) :
    (HeapAlloc.tqGetptr t sec usec m = (t, none, m) ∧ ∀ x ∈ t.q.h.a.toList, key t.q.recs x > tvKey sec usec) ∨
    (∃ t' m' r x, HeapAlloc.tqGetptr t sec usec m = (t', some x.ptr, m') ∧
      IsLeast (key t.q.recs) t.q.h.a.toList r ∧ key t.q.recs r ≤ tvKey sec usec ∧ lookup t.q.recs r = some x ∧
      TQInv t'.q ∧ t.q.h.a.toList.Perm (r :: t'.q.h.a.toList) ∧ t'.q.recs = t.q.recs ∧
      HInv (HeapAlloc.heapOf t') ∧ Step m m') := by
  have hg := tq_getptr t.q sec usec hq
  unfold HeapAlloc.tqGetptr
  rcases hres : TimerQueue.getptr t.q sec usec with ⟨q', o⟩
  rw [hres] at hg
  cases o with
  | none =>
    left
    dsimp only at hg ⊢
    exact ⟨rfl, hg.2⟩
  | some rp =>
    obtain ⟨r, p⟩ := rp
    right
    dsimp only at hg ⊢
    obtain ⟨hl, hdue, ⟨x, hx, hp⟩, hq', hperm, hrecs⟩ := hg
    subst hp
    have hs := Percival.Proofs.EArray.shrink_spec (HeapAlloc.shape t.q.h.a.size t.alloc) 1 SeqMap.ptrLen m
      (Percival.Proofs.AllocFail.shape_inv hh.1 hh.2)
    have hst := step_shrink (HeapAlloc.shape t.q.h.a.size t.alloc) 1 SeqMap.ptrLen m
    rcases hsh : EArray.shrink (HeapAlloc.shape t.q.h.a.size t.alloc) 1 SeqMap.ptrLen m with ⟨a', m'⟩
    rw [hsh] at hs hst
    dsimp only at hs hst ⊢
    refine ⟨_, _, r, x, rfl, hl, hdue, hx, hq', hperm, hrecs, ⟨?_, hs.1.lt⟩, hst.trans (step_free _ _)⟩
    show 8 * q'.h.a.size ≤ a'.alloc
    have hlen := hperm.length_eq
    simp only [Array.length_toList, List.length_cons] at hlen
    have := hs.1.le
    have hsz := hs.2.1
    simp only [HeapAlloc.shape, SeqMap.ptrLen, Nat.one_mul] at hsz
    omega

/-! ### the monitor's deadline of an id -/

def dl (D : List (Nat × Int)) (i : Nat) : Option Int := (D.find? (·.1 == i)).map (·.2)

theorem deadlineOf_eq (r : Spec.Reg.Reg) (i : Nat) : Spec.Reg.deadlineOf r i = dl r.timers i := rfl

theorem dl_cons (D : List (Nat × Int)) (j i : Nat) (d : Int) :
    dl ((j, d) :: D) i = if j = i then some d else dl D i := by
  unfold dl
  by_cases h : j = i
  · simp [h]
  · simp [h]

theorem dl_mem : ∀ (D : List (Nat × Int)) (i : Nat) (d : Int), dl D i = some d → (i, d) ∈ D
  | [], _, _, h => by simp [dl] at h
  | (j, d') :: D, i, d, h => by
    rw [dl_cons] at h
    by_cases hj : j = i
    · simp only [hj, if_true, Option.some.injEq] at h
      subst h; subst hj; exact List.mem_cons_self
    · simp only [hj, if_false] at h
      exact List.mem_cons_of_mem _ (dl_mem D i d h)

theorem dl_of_mem : ∀ (D : List (Nat × Int)) (i : Nat) (d : Int), (D.map (·.1)).Nodup → (i, d) ∈ D → dl D i = some d
  | [], _, _, _, h => by cases h
  | (j, d') :: D, i, d, hnd, h => by
    rw [dl_cons]
    simp only [List.map_cons, List.nodup_cons] at hnd
    by_cases hj : j = i
    · simp only [hj, if_true]
      rcases List.mem_cons.mp h with h | h
      · cases h; rfl
      · exact absurd (List.mem_map.mpr ⟨(i, d), h, rfl⟩) (hj ▸ hnd.1)
    · simp only [hj, if_false]
      rcases List.mem_cons.mp h with h | h
      · cases h; exact absurd rfl hj
      · exact dl_of_mem D i d hnd.2 h

theorem dl_filter (f : Nat × Int → Bool) (i : Nat) : ∀ (D : List (Nat × Int)), (∀ p ∈ D, p.1 = i → f p = true) →
    dl (D.filter f) i = dl D i
  | [], _ => rfl
  | (j, d) :: D, h => by
    have ih := dl_filter f i D (fun p hp => h p (List.mem_cons_of_mem _ hp))
    by_cases hj : j = i
    · have := h (j, d) List.mem_cons_self hj
      rw [List.filter_cons_of_pos this, dl_cons, dl_cons]
      simp [hj]
    · rw [dl_cons]
      simp only [hj, if_false]
      by_cases hf : f (j, d) = true
      · rw [List.filter_cons_of_pos hf, dl_cons]; simp [hj, ih]
      · rw [List.filter_cons_of_neg hf]; exact ih

theorem dl_some_of_mem_map (D : List (Nat × Int)) (i : Nat) (h : i ∈ D.map (·.1)) : ∃ d, dl D i = some d := by
  induction D with
  | nil => cases h
  | cons p D ih =>
    obtain ⟨j, d'⟩ := p
    rw [dl_cons]
    by_cases hj : j = i
    · exact ⟨d', by simp [hj]⟩
    · simp only [hj, if_false]
      apply ih
      simp only [List.map_cons, List.mem_cons] at h
      rcases h with h | h
      · exact absurd h.symm hj
      · exact h

/-! ### the relation on the timer part -/

structure TmRel (e : Ev) (m : Mem) (D : List (Nat × Int)) : Prop where
  inv : TmInv e m
  ids : D.map (·.1) = e.timers.map (·.id)
  tidNd : (e.timers.map (·.tid)).Nodup
  tidTqr : ∀ x ∈ e.timers, x.tid < x.tqr
  recs : ∀ t, e.tq = some t → ∀ x ∈ e.timers, ∃ rc d, lookup t.q.recs x.tqr = some rc ∧ rc.ptr = x.tid ∧
    dl D x.id = some d ∧ rc.sec = secOf d ∧ rc.usec = usecOf d

theorem tmRel_init (m : Mem) : TmRel ({} : Ev) m [] :=
  ⟨Percival.Proofs.EvRegTimer.tmInv_init m, rfl, List.nodup_nil, fun x h => (by cases h), fun t h => (by cases h)⟩

theorem tmRel_congr {e e' : Ev} {m m' : Mem} {D : List (Nat × Int)} (h : TmRel e m D) (h1 : e'.tq = e.tq)
    (h2 : e'.timers = e.timers) (hn : m.n ≤ m'.n) : TmRel e' m' D :=
  ⟨tmInv_congr e e' m m' h.inv h1 h2 hn, by rw [h2]; exact h.ids, by rw [h2]; exact h.tidNd,
   fun x hx => h.tidTqr x (h2 ▸ hx),
   fun t ht x hx => h.recs t (h1 ▸ ht) x (h2 ▸ hx)⟩

theorem TmRel.nodupD {e : Ev} {m : Mem} {D : List (Nat × Int)} (h : TmRel e m D) : (D.map (·.1)).Nodup := by
  rw [h.ids]; exact h.inv.nodup

/-- every pair of the monitor's list belongs to a timer entry -/
theorem TmRel.entry_of_mem {e : Ev} {m : Mem} {D : List (Nat × Int)} (h : TmRel e m D) {p : Nat × Int} (hp : p ∈ D) :
    ∃ x ∈ e.timers, x.id = p.1 ∧ dl D x.id = some p.2 := by
  have : p.1 ∈ e.timers.map (·.id) := by rw [← h.ids]; exact List.mem_map.mpr ⟨p, hp, rfl⟩
  obtain ⟨x, hx, hxi⟩ := List.mem_map.mp this
  exact ⟨x, hx, hxi, by rw [hxi]; exact dl_of_mem D p.1 p.2 h.nodupD hp⟩

/-! ### lists with a duplicate-free key -/

theorem inj_of_nodup {α : Type} (f : α → Nat) : ∀ (l : List α) (a b : α), (l.map f).Nodup → a ∈ l → b ∈ l →
    f a = f b → a = b
  | [], _, _, _, h, _, _ => by cases h
  | x :: xs, a, b, hnd, ha, hb, hf => by
    simp only [List.map_cons, List.nodup_cons] at hnd
    rcases List.mem_cons.mp ha with ha' | ha' <;> rcases List.mem_cons.mp hb with hb' | hb'
    · rw [ha', hb']
    · rw [← ha'] at hnd; exact absurd (List.mem_map.mpr ⟨b, hb', hf.symm⟩) hnd.1
    · rw [← hb'] at hnd; exact absurd (List.mem_map.mpr ⟨a, ha', hf⟩) hnd.1
    · exact inj_of_nodup f xs a b hnd.2 ha' hb' hf

theorem find_of_nodup {α : Type} (f : α → Nat) (l : List α) (a : α) (hnd : (l.map f).Nodup) (ha : a ∈ l) :
    l.find? (fun y => f y == f a) = some a := by
  cases hfind : l.find? (fun y => f y == f a) with
  | none =>
    have := List.find?_eq_none.mp hfind a ha
    simp at this
  | some b =>
    have hb := List.mem_of_find?_eq_some hfind
    have hfb : f b = f a := by simpa using List.find?_some hfind
    rw [inj_of_nodup f l b a hnd hb ha hfb]

theorem perm_filter_key {α : Type} (f : α → Nat) : ∀ (l : List α) (a : α), a ∈ l → (l.map f).Nodup →
    l.Perm (a :: l.filter (fun y => f y != f a))
  | [], _, hmem, _ => by cases hmem
  | x :: xs, a, hmem, hnd => by
    simp only [List.map_cons, List.nodup_cons] at hnd
    obtain ⟨hx, hnd'⟩ := hnd
    by_cases hxe : x = a
    · subst hxe
      have hall : xs.filter (fun y => f y != f x) = xs := by
        apply List.filter_eq_self.mpr
        intro b hb
        have : f b ≠ f x := fun h => hx (List.mem_map.mpr ⟨b, hb, h⟩)
        simpa using this
      simp [hall]
    · have hmem' : a ∈ xs := by
        cases hmem with
        | head => exact absurd rfl hxe
        | tail _ h => exact h
      have hne : f x ≠ f a := fun h => hx (List.mem_map.mpr ⟨a, hmem', h.symm⟩)
      have ih := perm_filter_key f xs a hmem' hnd'
      have : (x :: xs).filter (fun y => f y != f a) = x :: xs.filter (fun y => f y != f a) := by
        simp [hne]
      rw [this]
      exact (ih.cons x).trans (List.Perm.swap a x _)

/-- removing an entry by one duplicate-free key or by another is the same -/
theorem filter_key_eq {α : Type} (f g : α → Nat) (l : List α) (a : α) (ha : a ∈ l) (hf : (l.map f).Nodup)
    (hg : (l.map g).Nodup) : l.filter (fun y => f y != f a) = l.filter (fun y => g y != g a) := by
  apply List.filter_congr
  intro y hy
  by_cases h : f y = f a
  · have := inj_of_nodup f l y a hf hy ha h
    subst this; simp
  · have h' : g y ≠ g a := fun hh => h (by rw [inj_of_nodup g l y a hg hy ha hh])
    show (f y != f a) = (g y != g a)
    rw [bne_iff_ne.mpr h, bne_iff_ne.mpr h']

/-! ### one iteration of `runTimers` -/

theorem timer_step (e : Ev) (m : Mem) (D : List (Nat × Int)) (t : HeapAlloc.TQA) (now : Int) (h : TmRel e m D)
    (ht : e.tq = some t) :
    (HeapAlloc.tqGetptr t (secOf now) (usecOf now) m = (t, none, m) ∧ ∀ p ∈ D, now < p.2) ∨
    (∃ t' m1 ent d, HeapAlloc.tqGetptr t (secOf now) (usecOf now) m = (t', some ent.tid, m1) ∧ ent ∈ e.timers ∧
      e.timers.find? (fun y => y.tid == ent.tid) = some ent ∧ dl D ent.id = some d ∧ d ≤ now ∧ (∀ p ∈ D, d ≤ p.2) ∧
      Step m m1 ∧
      ∀ (e2 : Ev) (m2 : Mem), e2.tq = some t' → e2.timers = e.timers.filter (fun y => y.tid != ent.tid) →
        m1.n ≤ m2.n → TmRel e2 m2 (D.filter (fun p => p.1 != ent.id))) := by
  obtain ⟨hq, hperm, hh⟩ := h.inv.tq t ht
  -- the key of a timer's record is the key of its deadline
  have hkey : ∀ y ∈ e.timers, ∀ d, dl D y.id = some d → y.tqr ∈ t.q.h.a.toList ∧
      key t.q.recs y.tqr = tvKey (secOf d) (usecOf d) := by
    intro y hy d hd
    obtain ⟨rc, d', hlk, _, hd', hs, hu⟩ := h.recs t ht y hy
    rw [hd] at hd'; cases hd'
    exact ⟨hperm.mem_iff.mpr (List.mem_map.mpr ⟨y, hy, rfl⟩), by rw [key_of_lookup _ _ _ hlk, hs, hu]⟩
  rcases tqGetptr_spec t (secOf now) (usecOf now) m hq hh with
    ⟨hg, hall⟩ | ⟨t', m1, r, x, hg, hl, hdue, hx, hq', hperm', hrecs, hh', hst⟩
  · left
    refine ⟨hg, ?_⟩
    intro p hp
    obtain ⟨y, hy, _, hyd⟩ := h.entry_of_mem hp
    obtain ⟨hmem, hk⟩ := hkey y hy p.2 hyd
    have := hall y.tqr hmem
    rw [hk] at this
    by_cases hle : p.2 ≤ now
    · have := (tvKey_mono p.2 now).mpr hle
      omega
    · omega
  · right
    obtain ⟨ent, hent, hentr⟩ := List.mem_map.mp (hperm.mem_iff.mp hl.1)
    obtain ⟨rc, d, hlk, hptr, hd, hs, hu⟩ := h.recs t ht ent hent
    rw [hentr, hx] at hlk
    cases hlk
    have hkr : key t.q.recs r = tvKey (secOf d) (usecOf d) := by rw [← hentr]; exact (hkey ent hent d hd).2
    have hidtid : e.timers.filter (fun y => y.tid != ent.tid) = e.timers.filter (fun y => y.id != ent.id) :=
      filter_key_eq (·.tid) (·.id) e.timers ent hent h.tidNd h.inv.nodup
    refine ⟨t', m1, ent, d, by rw [hg, hptr], hent, find_of_nodup (·.tid) e.timers ent h.tidNd hent, hd, ?_, ?_, hst, ?_⟩
    · rw [hkr] at hdue
      exact (tvKey_mono d now).mp hdue
    · intro p hp
      obtain ⟨y, hy, _, hyd⟩ := h.entry_of_mem hp
      obtain ⟨hmem, hk⟩ := hkey y hy p.2 hyd
      have := hl.2 y.tqr hmem
      rw [hkr, hk] at this
      exact (tvKey_mono d p.2).mp this
    · intro e2 m2 h2q h2t hn
      have hsub : ∀ y ∈ e2.timers, y ∈ e.timers ∧ y.id ≠ ent.id := by
        intro y hy
        rw [h2t, hidtid] at hy
        have := List.mem_filter.mp hy
        exact ⟨this.1, by simpa using this.2⟩
      have hn' : m.n ≤ m2.n := Nat.le_trans hst.n hn
      refine ⟨⟨?_, ?_, ?_, ?_⟩, ?_, ?_, ?_, ?_⟩
      · intro hnone; rw [h2q] at hnone; cases hnone
      · intro t'' ht''
        rw [h2q] at ht''; cases ht''
        refine ⟨hq', ?_, hh'⟩
        have pf := perm_filter_key (·.tid) e.timers ent hent h.tidNd
        have p1 := hperm'.symm.trans (hperm.trans (pf.map (·.tqr)))
        simp only [List.map_cons, hentr] at p1
        rw [h2t]
        exact p1.cons_inv
      · intro y hy
        exact Nat.lt_of_lt_of_le (h.inv.lt y (hsub y hy).1) hn'
      · rw [h2t]; exact (List.filter_sublist.map _).nodup h.inv.nodup
      · have e1 : (D.filter (fun p => p.1 != ent.id)).map (·.1) = (D.map (·.1)).filter (· != ent.id) := by
          rw [List.filter_map]; rfl
        have e2 : (e.timers.filter (fun y => y.id != ent.id)).map (·.id) =
            (e.timers.map (·.id)).filter (· != ent.id) := by
          rw [List.filter_map]; rfl
        rw [h2t, hidtid, e1, e2, h.ids]
      · rw [h2t]; exact (List.filter_sublist.map _).nodup h.tidNd
      · intro y hy
        exact h.tidTqr y (hsub y hy).1
      · intro t'' ht'' y hy
        rw [h2q] at ht''; cases ht''
        obtain ⟨hy1, hy2⟩ := hsub y hy
        obtain ⟨rc, d', a1, a2, a3, a4, a5⟩ := h.recs t ht y hy1
        refine ⟨rc, d', by rw [hrecs]; exact a1, a2, ?_, a4, a5⟩
        rw [dl_filter _ _ D (fun p _ hp => by simp [hp, hy2])]
        exact a3

/-! ### the loop -/

/-- the parts of the event state the timer half of `run` never touches -/
def TmFrame (e e' : Ev) : Prop :=
  e'.heads = e.heads ∧ e'.minq = e.minq ∧ e'.qPool = e.qPool ∧ e'.sAlloc = e.sAlloc ∧ e'.socks = e.socks ∧
    e'.fds = e.fds ∧ e'.fdsAlloc = e.fdsAlloc

theorem TmFrame.refl (e : Ev) : TmFrame e e := ⟨rfl, rfl, rfl, rfl, rfl, rfl, rfl⟩

theorem TmFrame.trans {a b c : Ev} (h1 : TmFrame a b) (h2 : TmFrame b c) : TmFrame a c := by
  obtain ⟨a1, a2, a3, a4, a5, a6, a7⟩ := h1
  obtain ⟨b1, b2, b3, b4, b5, b6, b7⟩ := h2
  exact ⟨b1.trans a1, b2.trans a2, b3.trans a3, b4.trans a4, b5.trans a5, b6.trans a6, b7.trans a7⟩

/-- `ids` are distinct due timers of `D` in non-decreasing order of deadline, and no other timer of `D` is due -/
structure Good (D : List (Nat × Int)) (now : Int) (ids : List Nat) : Prop where
  nd : ids.Nodup
  due : ∀ i ∈ ids, ∃ d, dl D i = some d ∧ d ≤ now
  ord : ids.Pairwise (fun i j => ∀ di dj, dl D i = some di → dl D j = some dj → di ≤ dj)
  rest : ∀ p ∈ D, p.1 ∉ ids → now < p.2

theorem filter_not_contains_nil (D : List (Nat × Int)) :
    D.filter (fun p => !([] : List Nat).contains p.1) = D := by
  apply List.filter_eq_self.mpr
  intro a _; simp

theorem filter_filter_contains (D : List (Nat × Int)) (i : Nat) (ids : List Nat) :
    (D.filter (fun p => p.1 != i)).filter (fun p => !ids.contains p.1) =
      D.filter (fun p => !(i :: ids).contains p.1) := by
  rw [List.filter_filter]
  apply List.filter_congr
  intro p _
  rw [List.contains_cons]
  cases h1 : ids.contains p.1 <;> cases h2 : (p.1 == i) <;> simp [h2, bne]

theorem runTimers_spec (now : Int) : ∀ (fuel : Nat) (e : Ev) (m : Mem) (ran : List Nat) (D : List (Nat × Int)),
    TmRel e m D → e.timers.length < fuel →
    ∃ ids e' m', runTimers now fuel e m ran = (ran ++ ids, e', m') ∧ Good D now ids ∧
      TmRel e' m' (D.filter (fun p => !ids.contains p.1)) ∧ TmFrame e e' ∧ Step m m'
  | 0, _, _, _, _, _, hf => by omega
  | fuel+1, e, m, ran, D, h, hf => by
    unfold runTimers
    cases ht : e.tq with
    | none =>
      have hnil := h.inv.noq ht
      have hD : D = [] := by
        have := h.ids
        rw [hnil] at this
        simpa using this
      subst hD
      exact ⟨[], e, m, by simp, ⟨List.nodup_nil, fun i hi => (by cases hi), List.Pairwise.nil, fun p hp => (by cases hp)⟩,
        h, TmFrame.refl _, Step.refl _⟩
    | some t =>
      dsimp only
      rcases timer_step e m D t now h ht with ⟨hg, hall⟩ |
        ⟨t', m1, ent, d, hg, hent, hfind, hd, hdnow, hmin, hst, hrel⟩
      · rw [hg]
        refine ⟨[], e, m, by simp, ⟨List.nodup_nil, fun i hi => (by cases hi), List.Pairwise.nil, fun p hp _ => hall p hp⟩,
          ?_, TmFrame.refl _, Step.refl _⟩
        rw [filter_not_contains_nil]; exact h
      · rw [hg]
        dsimp only
        rw [hfind]
        dsimp only
        simp only [freerec_eq]
        have hst2 : Step m1 (MPool.free e.recPool ent.rid (m1.free false)).2 :=
          (step_free _ _).trans (step_mpFree _ _ _)
        have hrel2 := hrel
          ({ e with tq := some t', timers := e.timers.filter (fun y => y.tid != ent.tid),
                    recPool := (MPool.free e.recPool ent.rid (m1.free false)).1 } : Ev)
          (MPool.free e.recPool ent.rid (m1.free false)).2 rfl rfl hst2.n
        have hlen := (perm_filter_key (·.tid) e.timers ent hent h.tidNd).length_eq
        simp only [List.length_cons] at hlen
        obtain ⟨ids', e', m', hrun, good', rel', fr', st'⟩ := runTimers_spec now fuel _ _ (ran ++ [ent.id]) _ hrel2
          (by show (e.timers.filter (fun y => y.tid != ent.tid)).length < fuel; omega)
        have hids : ∀ i ∈ ids', i ≠ ent.id ∧ dl (D.filter (fun p => p.1 != ent.id)) i = dl D i := by
          intro i hi
          obtain ⟨d', hd', _⟩ := good'.due i hi
          have hm := (List.mem_filter.mp (dl_mem _ _ _ hd')).2
          have hne : i ≠ ent.id := by simpa using hm
          exact ⟨hne, dl_filter _ _ D (fun p _ hp => by simp [hp, hne])⟩
        refine ⟨ent.id :: ids', e', m', ?_, ⟨?_, ?_, ?_, ?_⟩, ?_, ?_, hst.trans (hst2.trans st')⟩
        · rw [hrun]; simp
        · exact List.nodup_cons.mpr ⟨fun hmem => (hids _ hmem).1 rfl, good'.nd⟩
        · intro i hi
          rcases List.mem_cons.mp hi with hi | hi
          · subst hi; exact ⟨d, hd, hdnow⟩
          · obtain ⟨d', hd', hle⟩ := good'.due i hi
            exact ⟨d', by rw [← (hids i hi).2]; exact hd', hle⟩
        · refine List.pairwise_cons.mpr ⟨?_, ?_⟩
          · intro j _ di dj hdi hdj
            rw [hd] at hdi; cases hdi
            exact hmin _ (dl_mem _ _ _ hdj)
          · refine List.Pairwise.imp_of_mem ?_ good'.ord
            intro a b ha hb hab di dj hdi hdj
            exact hab di dj (by rw [(hids a ha).2]; exact hdi) (by rw [(hids b hb).2]; exact hdj)
        · intro p hp hnot
          have h1 : p.1 ≠ ent.id := fun hh => hnot (by rw [hh]; exact List.mem_cons_self)
          have h2 : p.1 ∉ ids' := fun hh => hnot (List.mem_cons_of_mem _ hh)
          exact good'.rest p (List.mem_filter.mpr ⟨hp, by simpa using h1⟩) h2
        · rw [← filter_filter_contains]; exact rel'
        · exact TmFrame.trans ⟨rfl, rfl, rfl, rfl, rfl, rfl, rfl⟩ fr'

/-! ### the second half of `events_run()` -/

theorem tv_stage (w : Bool) (m1 : Mem) :
    Step m1 (if w then m1.malloc tvSize else (true, m1)).2 ∧
    ((if w then m1.malloc tvSize else (true, m1)).1 = false →
      m1.refusals < (if w then m1.malloc tvSize else (true, m1)).2.refusals) := by
  cases w
  · exact ⟨Step.refl _, fun h => by cases h⟩
  · refine ⟨Percival.Proofs.EvRegTimer.step_malloc _ _, fun h => ?_⟩
    have := (Percival.Proofs.EArray.malloc_fail (m := m1) (sz := tvSize) h).1
    show m1.refusals < (m1.malloc tvSize).2.refusals
    omega

theorem free_stage (w : Bool) (m3 : Mem) :
    Step m3 (if w then m3.free false else m3) ∧ (if w then m3.free false else m3).refusals = m3.refusals := by
  cases w
  · exact ⟨Step.refl _, rfl⟩
  · show Step m3 (m3.free false) ∧ (m3.free false).refusals = m3.refusals
    exact ⟨step_free _ _, (Percival.Proofs.EArray.free_facts m3 false).1⟩

open Percival.Proofs.EvRegNet (NetInv netInit_spec netInv_congr) in
/-- the timer half of `events_run()`: it fails only with a refused request and then nothing ran and the event state
is unchanged; otherwise exactly the due timers ran, in non-decreasing order of deadline -/
theorem runTmW_spec (w : Bool) (e1 : Ev) (now : Int) (m1 : Mem) (D : List (Nat × Int)) (h : TmRel e1 m1 D)
    (hn : NetInv e1) :
    ∃ ok ran e' m', runTmW w e1 now m1 = (ok, ran, e', m') ∧ Step m1 m' ∧
      ((ok = false ∧ ran = [] ∧ m1.refusals < m'.refusals ∧ e' = e1) ∨
       (ok = true ∧ Good D now ran ∧ TmRel e' m' (D.filter (fun p => !ran.contains p.1)) ∧ e'.heads = e1.heads ∧
         e'.minq = e1.minq ∧ NetInv e' ∧ (registry e').net = (registry e1).net)) := by
  obtain ⟨s1, f1⟩ := tv_stage w m1
  unfold runTmW
  rcases h1 : (if w then m1.malloc tvSize else (true, m1)) with ⟨b, m2⟩
  rw [h1] at s1 f1
  dsimp only at s1 f1 ⊢
  cases b with
  | false => exact ⟨false, [], e1, m2, rfl, s1, Or.inl ⟨rfl, rfl, f1 rfl, rfl⟩⟩
  | true =>
    dsimp only
    have hi := netInit_spec e1 m2
    obtain ⟨s3, r3⟩ := free_stage w (netInit e1 m2).2.2
    rcases hni : netInit e1 m2 with ⟨ok0, e2, m3⟩
    rw [hni] at hi s3 r3
    dsimp only at hi s3 r3 ⊢
    obtain ⟨hfr, hadv, _, hok, hfail, _, hinv⟩ := hi
    have s2 : Step m2 m3 := ⟨hadv.1, hadv.2.1, hadv.2.2.1, hadv.2.2.2⟩
    have sall := s1.trans (s2.trans s3)
    cases ok0 with
    | false =>
      dsimp only
      obtain ⟨he, hr⟩ := hfail rfl
      have := s1.r
      exact ⟨false, [], e2, _, rfl, sall, Or.inl ⟨rfl, rfl, by omega, he⟩⟩
    | true =>
      dsimp only
      obtain ⟨hni2, hreg⟩ := hinv hn
      have rel2 : TmRel e2 (if w then m3.free false else m3) D := tmRel_congr h hfr.2.2.1 hfr.2.2.2.1 sall.n
      obtain ⟨ids, e', m', hrun, good, rel', fr, st⟩ :=
        runTimers_spec now (e2.timers.length + 1) e2 _ [] D rel2 (Nat.lt_succ_self _)
      rw [hrun]
      refine ⟨true, ids, e', m', by simp, sall.trans st, Or.inr ⟨rfl, good, rel', fr.1.trans hfr.1,
        fr.2.1.trans hfr.2.1, netInv_congr e2 e' hni2 fr.2.2.2.1 fr.2.2.2.2.1 fr.2.2.2.2.2.1 fr.2.2.2.2.2.2, ?_⟩⟩
      rw [← hreg]
      simp only [registry, fr.2.2.2.2.1]

end Percival.Proofs.AfMonRun
