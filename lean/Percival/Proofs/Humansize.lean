import Percival.Model.Humansize
import Percival.Proofs.Numeral
/-! Helper lemmas for C16: `humansize` and `humansize_parse` against `Spec/Humansize.lean`. -/
set_option linter.unusedSimpArgs false
namespace Percival.Proofs.Humansize
open Percival.Spec.Humansize Percival.Model.Humansize Percival.Gen Percival.Spec.Numeral

theorem prefixes_eq : HumansizeC.prefixes = siPrefixes := by decide

theorem shiftLoop_stop {size c : Nat} (h : size < 10000) : shiftLoop size c = (size, c) := by
  rw [shiftLoop]; split
  · rename_i h'; simp only [HumansizeC.loopLimit] at h'; omega
  · rfl

theorem shiftLoop_step {size c : Nat} (h : 10000 ≤ size) : shiftLoop size c = shiftLoop (size / 1000) (c + 1) := by
  rw [shiftLoop]; split
  · rfl
  · rename_i h'; simp only [HumansizeC.loopLimit] at h'; omega

/-- the loop: for `1000^k ≤ n < 1000^(k+1)` it ends with `n / (100·1000^(k-1))` and `shiftcnt = k` -/
theorem shiftLoop_range (n : Nat) (hn : 1000 ≤ n) (hn2 : n < 1000 ^ 7) :
    ∃ k P, 1 ≤ k ∧ k ≤ 6 ∧ P = 1000 ^ (k - 1) ∧ 1000 * P ≤ n ∧ n < 1000000 * P ∧
      shiftLoop (n / 100) 1 = (n / (100 * P), k) := by
  by_cases h1 : n < 1000 ^ 2
  · exact ⟨1, 1, by omega, by omega, by simp, by omega, by omega, by rw [shiftLoop_stop (by omega)]⟩
  by_cases h2 : n < 1000 ^ 3
  · refine ⟨2, 1000, by omega, by omega, by simp, by omega, by omega, ?_⟩
    rw [shiftLoop_step (by omega), shiftLoop_stop (by omega)]; simp; omega
  by_cases h3 : n < 1000 ^ 4
  · refine ⟨3, 1000000, by omega, by omega, by simp, by omega, by omega, ?_⟩
    rw [shiftLoop_step (by omega), shiftLoop_step (by omega), shiftLoop_stop (by omega)]; simp; omega
  by_cases h4 : n < 1000 ^ 5
  · refine ⟨4, 1000000000, by omega, by omega, by simp, by omega, by omega, ?_⟩
    rw [shiftLoop_step (by omega), shiftLoop_step (by omega), shiftLoop_step (by omega), shiftLoop_stop (by omega)]; simp; omega
  by_cases h5 : n < 1000 ^ 6
  · refine ⟨5, 1000000000000, by omega, by omega, by simp, by omega, by omega, ?_⟩
    rw [shiftLoop_step (by omega), shiftLoop_step (by omega), shiftLoop_step (by omega), shiftLoop_step (by omega),
      shiftLoop_stop (by omega)]; simp; omega
  · refine ⟨6, 1000000000000000, by omega, by omega, by simp, by omega, by omega, ?_⟩
    rw [shiftLoop_step (by omega), shiftLoop_step (by omega), shiftLoop_step (by omega), shiftLoop_step (by omega),
      shiftLoop_step (by omega), shiftLoop_stop (by omega)]; simp; omega

/-- the chosen form is the largest valid one not above `n` -/
theorem form_largest (n k P : Nat) (hk1 : 1 ≤ k) (hk6 : k ≤ 6) (hP : P = 1000 ^ (k - 1))
    (hlo : 1000 * P ≤ n) (hhi : n < 1000000 * P) :
    IsLargestBelow
      (if n / (100 * P) < 100 then Form.dec (n / (100 * P) / 10) (n / (100 * P) % 10) k
       else Form.int (n / (100 * P) / 10) k) n := by
  have hk : k = 1 ∨ k = 2 ∨ k = 3 ∨ k = 4 ∨ k = 5 ∨ k = 6 := by omega
  rcases hk with rfl | rfl | rfl | rfl | rfl | rfl <;> simp only [Nat.reducePow, Nat.reduceSub] at hP <;> subst hP <;> simp only [Nat.reduceMul] at * <;>
  (split
   · refine ⟨by simp only [Form.Valid]; omega, by simp only [Form.value, Nat.reducePow, Nat.reduceSub, Nat.reduceMul]; omega, ?_⟩
     intro g hg hgn
     cases g with
     | bytes m => simp only [Form.Valid, Form.value, Nat.reducePow, Nat.reduceSub, Nat.reduceMul] at *; omega
     | dec a b j =>
       simp only [Form.Valid] at hg
       have hj : j = 1 ∨ j = 2 ∨ j = 3 ∨ j = 4 ∨ j = 5 ∨ j = 6 := by omega
       rcases hj with rfl | rfl | rfl | rfl | rfl | rfl <;>
         simp only [Form.value, Nat.reducePow, Nat.reduceSub, Nat.reduceMul] at * <;> omega
     | int x j =>
       simp only [Form.Valid] at hg
       have hj : j = 1 ∨ j = 2 ∨ j = 3 ∨ j = 4 ∨ j = 5 ∨ j = 6 := by omega
       rcases hj with rfl | rfl | rfl | rfl | rfl | rfl <;>
         simp only [Form.value, Nat.reducePow, Nat.reduceSub, Nat.reduceMul] at * <;> omega
   · refine ⟨by simp only [Form.Valid]; omega, by simp only [Form.value, Nat.reducePow, Nat.reduceSub, Nat.reduceMul]; omega, ?_⟩
     intro g hg hgn
     cases g with
     | bytes m => simp only [Form.Valid, Form.value, Nat.reducePow, Nat.reduceSub, Nat.reduceMul] at *; omega
     | dec a b j =>
       simp only [Form.Valid] at hg
       have hj : j = 1 ∨ j = 2 ∨ j = 3 ∨ j = 4 ∨ j = 5 ∨ j = 6 := by omega
       rcases hj with rfl | rfl | rfl | rfl | rfl | rfl <;>
         simp only [Form.value, Nat.reducePow, Nat.reduceSub, Nat.reduceMul] at * <;> omega
     | int x j =>
       simp only [Form.Valid] at hg
       have hj : j = 1 ∨ j = 2 ∨ j = 3 ∨ j = 4 ∨ j = 5 ∨ j = 6 := by omega
       rcases hj with rfl | rfl | rfl | rfl | rfl | rfl <;>
         simp only [Form.value, Nat.reducePow, Nat.reduceSub, Nat.reduceMul] at * <;> omega)

theorem format_spec (n : Nat) (hn : n < 1000 ^ 7) :
    ∃ f str, IsLargestBelow f n ∧ f.render = some str ∧ format n = .str str := by
  by_cases hs : n < 1000
  · refine ⟨.bytes n, _, ⟨by simp only [Form.Valid]; omega, by simp [Form.value], ?_⟩, rfl, ?_⟩
    · intro g hg hgn
      simp only [Form.value]
      cases g with
      | bytes m => simpa [Form.value] using hgn
      | dec a b j =>
        simp only [Form.Valid] at hg
        have : 1 ≤ 1000 ^ (j - 1) := Nat.pow_pos (by omega)
        simp only [Form.value] at hgn
        have h2 : (10 * a + b) * 100 * 1 ≤ (10 * a + b) * 100 * 1000 ^ (j - 1) := Nat.mul_le_mul_left _ this
        omega
      | int x j =>
        simp only [Form.Valid] at hg
        have : 1000 ^ 1 ≤ 1000 ^ j := Nat.pow_le_pow_right (by omega) hg.2.2.1
        simp only [Form.value] at hgn
        have h2 : x * 1000 ^ 1 ≤ x * 1000 ^ j := Nat.mul_le_mul_left _ this
        omega
    · simp [format, HumansizeC.smallLimit, hs]
  · obtain ⟨k, P, hk1, hk6, hP, hlo, hhi, hloop⟩ := shiftLoop_range n (by omega) hn
    have hbig := form_largest n k P hk1 hk6 hP hlo hhi
    have hpre : ∃ p, siPrefixes[k]? = some p := by
      have : k < siPrefixes.length := by simp [siPrefixes]; omega
      exact ⟨siPrefixes[k], by simp [this]⟩
    obtain ⟨p, hp⟩ := hpre
    simp only [format, HumansizeC.smallLimit, hs, if_false, HumansizeC.firstDiv, HumansizeC.firstShift, hloop,
      prefixes_eq, hp, HumansizeC.decimalLimit]
    by_cases hd : n / (100 * P) < 100
    · rw [if_pos hd] at hbig ⊢
      exact ⟨_, _, hbig, by simp [Form.render, hp], rfl⟩
    · rw [if_neg hd] at hbig ⊢
      exact ⟨_, _, hbig, by simp [Form.render, hp], rfl⟩


/-! ### humansize_parse: the state machine after the digits -/

/-- the final multiplication with its overflow check -/
def good (n m : Nat) : ParseResult := if n > U64MAX / m then .fail else .ok (n * m)

theorem finish_good {st : St} {n m : Nat} (hst : st ≠ .err) (hm : m ≠ 0) : finish ⟨st, n, m⟩ = good n m := by
  unfold finish good
  simp only [hm, if_false]
  split <;> simp [hst]

theorem finish_err {n m : Nat} (hm : m ≠ 0) : finish ⟨.err, n, m⟩ = .fail := by
  unfold finish
  simp only [hm, if_false]
  split <;> simp

/-- exponent of an SI prefix letter -/
def siExp (c : UInt8) : Option Nat :=
  if c = 0x6b then some 1 else if c = 0x4d then some 2 else if c = 0x47 then some 3
  else if c = 0x54 then some 4 else if c = 0x50 then some 5 else if c = 0x45 then some 6 else none

theorem siSwitch_one (c : UInt8) :
    siSwitch 1 c = match siExp c with | some k => 1000 ^ k | none => 1 := by
  unfold siSwitch siExp
  simp only [HumansizeC.siCases]
  by_cases h1 : c = 0x45
  · subst h1; decide
  by_cases h2 : c = 0x50
  · subst h2; decide
  by_cases h3 : c = 0x54
  · subst h3; decide
  by_cases h4 : c = 0x47
  · subst h4; decide
  by_cases h5 : c = 0x4d
  · subst h5; decide
  by_cases h6 : c = 0x6b
  · subst h6; decide
  have e1 : (0x45 != c) = true := by simp; exact fun h => h1 h.symm
  have e2 : (0x50 != c) = true := by simp; exact fun h => h2 h.symm
  have e3 : (0x54 != c) = true := by simp; exact fun h => h3 h.symm
  have e4 : (0x47 != c) = true := by simp; exact fun h => h4 h.symm
  have e5 : (0x4d != c) = true := by simp; exact fun h => h5 h.symm
  have e6 : (0x6b != c) = true := by simp; exact fun h => h6 h.symm
  simp [List.dropWhile, e1, e2, e3, e4, e5, e6, h1, h2, h3, h4, h5, h6]

theorem siExp_pos {c : UInt8} {k : Nat} (h : siExp c = some k) : 1 ≤ k ∧ k ≤ 6 ∧ siPrefixes[k]? = some c := by
  unfold siExp at h
  repeat' split at h
  all_goals (first | (injection h with h; subst h; subst_vars; decide) | cases h)

theorem run_err (n m : Nat) (r : List UInt8) : run ⟨.err, n, m⟩ r = ⟨.err, n, m⟩ := by
  cases r <;> simp [run, step]

theorem res5 (n m : Nat) (hm : m ≠ 0) (r : List UInt8) :
    finish (run ⟨.s5, n, m⟩ r) = if r = [] then good n m else .fail := by
  cases r with
  | nil => simp [run, finish_good, hm]
  | cons c r' => simp [run, step, case5, finish_err hm]

theorem res4 (n m : Nat) (hm : m ≠ 0) (r : List UInt8) :
    finish (run ⟨.s4, n, m⟩ r) = if r = [] ∨ r = [0x42] then good n m else .fail := by
  cases r with
  | nil => simp [run, finish_good, hm]
  | cons c r' =>
    by_cases hc : c = 0x42
    · subst hc
      simp only [run, step, case4, if_true]
      simp only [reduceCtorEq, if_false]
      rw [res5 n m hm]; simp
    · simp [run, step, case4, case5, hc, finish_err hm]

/-- result from state 3 (after the optional space), multiplier still 1 -/
def res3 (n : Nat) : List UInt8 → ParseResult
  | [] => good n 1
  | c :: r' =>
    match siExp c with
    | some k => if r' = [] ∨ r' = [0x42] then good n (1000 ^ k) else .fail
    | none => if c = 0x42 ∧ r' = [] then good n 1 else .fail

theorem res3_spec (n : Nat) (r : List UInt8) : finish (run ⟨.s3, n, 1⟩ r) = res3 n r := by
  cases r with
  | nil => simp [run, res3, finish_good]
  | cons c r' =>
    simp only [run, step, case3, siSwitch_one, res3]
    cases hk : siExp c with
    | some k =>
      have hk1 := (siExp_pos hk).1
      have hne : (1000 : Nat) ^ k ≠ 1 := by
        have : 1000 ^ 1 ≤ 1000 ^ k := Nat.pow_le_pow_right (by omega) hk1
        omega
      have hne0 : (1000 : Nat) ^ k ≠ 0 := by
        have : 0 < 1000 ^ k := Nat.pow_pos (by omega)
        omega
      simp only [hne, ne_eq, not_false_eq_true, if_true, reduceCtorEq, if_false]
      exact res4 n _ hne0 r'
    | none =>
      simp only [ne_eq, not_true_eq_false, if_false]
      by_cases hc : c = 0x42
      · subst hc
        simp only [case4, if_true, reduceCtorEq, if_false, true_and]
        rw [res5 n 1 (by omega)]
      · simp [case4, case5, hc, finish_err]


/-- result from state 1 at the first non-digit -/
def res1 (n : Nat) : List UInt8 → ParseResult
  | 0x20 :: r' => res3 n r'
  | r => res3 n r

theorem siExp_space : siExp 0x20 = none := by decide
theorem siExp_B : siExp 0x42 = none := by decide

theorem res1_spec (n : Nat) (r : List UInt8) (hr : ∀ c r', r = c :: r' → isDec c = false) :
    finish (run ⟨.s1, n, 1⟩ r) = res1 n r := by
  cases r with
  | nil => simp [run, res1, res3, finish_good]
  | cons c r' =>
    have hc := hr c r' rfl
    by_cases hsp : c = 0x20
    · subst hsp
      simp only [run, step, case1, hc, Bool.false_eq_true, if_false, case2, if_true, reduceCtorEq, res1]
      exact res3_spec n r'
    · have : res1 n (c :: r') = res3 n (c :: r') := by
        unfold res1
        split
        · rename_i heq; injection heq with h1 h2; exact absurd h1 hsp
        · rfl
      rw [this, ← res3_spec]
      simp only [run, step, case1, hc, Bool.false_eq_true, if_false, case2, hsp]
      rfl

theorem good_ok_iff {n m v : Nat} (hm : 0 < m) : good n m = .ok v ↔ v = n * m ∧ v ≤ U64MAX := by
  unfold good
  have := @Nat.div_lt_iff_lt_mul m U64MAX n hm
  split
  · rename_i h
    constructor
    · intro h'; cases h'
    · rintro ⟨rfl, h2⟩; have := this.mp h; omega
  · rename_i h
    constructor
    · intro h'; injection h' with h'; subst h'; exact ⟨rfl, by have := mt this.mpr h; omega⟩
    · rintro ⟨rfl, _⟩; rfl

theorem good_cases (n m : Nat) : good n m = .fail ∨ good n m = .ok (n * m) := by
  unfold good; split <;> simp

theorem pow1000_pos (k : Nat) : 0 < 1000 ^ k := Nat.pow_pos (by omega)

/-- the result after the digits is governed by the suffix language -/
theorem res1_ok_iff (n v : Nat) (r : List UInt8) :
    res1 n r = .ok v ↔ ∃ k, Suffix r k ∧ v = n * 1000 ^ k ∧ v ≤ U64MAX := by
  constructor
  · intro h
    -- read the shape of `r` off the definition
    have key : ∀ r, res3 n r = .ok v → ∃ k pre b, r = pre ++ b ∧ SiPrefix pre k ∧ (b = [] ∨ b = [0x42]) ∧
        v = n * 1000 ^ k ∧ v ≤ U64MAX := by
      intro r h
      cases r with
      | nil =>
        simp only [res3] at h
        obtain ⟨h1, h2⟩ := (good_ok_iff (by omega)).mp h
        exact ⟨0, [], [], rfl, Or.inl ⟨rfl, rfl⟩, Or.inl rfl, by simpa using h1, h2⟩
      | cons c r' =>
        simp only [res3] at h
        cases hk : siExp c with
        | some k =>
          simp only [hk] at h
          split at h
          · rename_i hb
            obtain ⟨h1, h2⟩ := (good_ok_iff (pow1000_pos k)).mp h
            obtain ⟨hk1, _, hp⟩ := siExp_pos hk
            exact ⟨k, [c], r', rfl, Or.inr ⟨hk1, c, hp, rfl⟩, hb, h1, h2⟩
          · cases h
        | none =>
          simp only [hk] at h
          split at h
          · rename_i hb
            obtain ⟨rfl, rfl⟩ := hb
            obtain ⟨h1, h2⟩ := (good_ok_iff (by omega)).mp h
            exact ⟨0, [], [0x42], rfl, Or.inl ⟨rfl, rfl⟩, Or.inr rfl, by simpa using h1, h2⟩
          · cases h
    unfold res1 at h
    split at h
    · obtain ⟨k, pre, b, rfl, hp, hb, hv⟩ := key _ h
      exact ⟨k, ⟨[0x20], pre, b, by simp, Or.inr rfl, hp, hb⟩, hv⟩
    · obtain ⟨k, pre, b, rfl, hp, hb, hv⟩ := key _ h
      exact ⟨k, ⟨[], pre, b, by simp, Or.inl rfl, hp, hb⟩, hv⟩
  · rintro ⟨k, ⟨sp, pre, b, rfl, hsp, hpre, hb⟩, hv, hmax⟩
    have hgood : good n (1000 ^ k) = .ok v := (good_ok_iff (pow1000_pos k)).mpr ⟨hv, hmax⟩
    have key : res3 n (pre ++ b) = .ok v := by
      rcases hpre with ⟨rfl, rfl⟩ | ⟨hk1, c, hc, rfl⟩
      · rcases hb with rfl | rfl
        · simpa [res3] using hgood
        · simpa [res3, siExp_B] using hgood
      · have hk6 : k < 7 := by
          have := List.getElem?_eq_some_iff.mp hc
          obtain ⟨h, _⟩ := this; simpa [siPrefixes] using h
        have hk : siExp c = some k := by
          have : k = 1 ∨ k = 2 ∨ k = 3 ∨ k = 4 ∨ k = 5 ∨ k = 6 := by omega
          rcases this with rfl | rfl | rfl | rfl | rfl | rfl <;>
            (simp [siPrefixes] at hc; subst hc; decide)
        rcases hb with rfl | rfl <;> simp [res3, hk, hgood]
    rcases hsp with rfl | rfl
    · -- no space: the first byte of `pre ++ b` is not a space
      have : res1 n ([] ++ pre ++ b) = res3 n (pre ++ b) := by
        simp only [List.nil_append]
        unfold res1
        split
        · rename_i r' heq
          exfalso
          rcases hpre with ⟨rfl, rfl⟩ | ⟨hk1, c, hc, rfl⟩
          · rcases hb with rfl | rfl <;> simp at heq
          · simp only [List.cons_append, List.nil_append, List.cons.injEq] at heq
            obtain ⟨rfl, _⟩ := heq
            have hk6 : k < 7 := by
              have := List.getElem?_eq_some_iff.mp hc
              obtain ⟨h, _⟩ := this; simpa [siPrefixes] using h
            have : k = 1 ∨ k = 2 ∨ k = 3 ∨ k = 4 ∨ k = 5 ∨ k = 6 := by omega
            rcases this with rfl | rfl | rfl | rfl | rfl | rfl <;> simp [siPrefixes] at hc
        · rfl
      rw [this]; exact key
    · simpa [res1] using key


/-! ### the digits -/

theorem digitOf10 {c : UInt8} {d : Nat} (h : digitOf 10 c = some d) :
    isDec c = true ∧ d = c.toNat - 0x30 ∧ ¬ (c < 0x30 ∨ c > 0x39) := by
  unfold digitOf digitVal at h
  unfold isDec
  split at h
  · rename_i d' hd
    split at hd
    · rename_i hc
      simp at hd; subst hd
      split at h
      · simp at h; subst h
        refine ⟨by simp [hc.1, hc.2], rfl, ?_⟩
        simp only [UInt8.lt_iff_toNat_lt, UInt8.le_iff_toNat_le] at *
        simp at *; omega
      · simp at h
    · split at hd
      · simp at hd; subst hd; split at h
        · rename_i h'; omega
        · simp at h
      · split at hd
        · simp at hd; subst hd; split at h
          · rename_i h'; omega
          · simp at h
        · simp at hd
  · simp at h

theorem digitOf10_of_isDec {c : UInt8} (h : isDec c = true) : digitOf 10 c = some (c.toNat - 0x30) := by
  unfold isDec at h
  simp at h
  have h1 := UInt8.le_iff_toNat_le.mp h.1
  have h2 := UInt8.le_iff_toNat_le.mp h.2
  simp at h1 h2
  unfold digitOf digitVal
  simp [h.1, h.2]; omega

theorem digitOf10_none_of_not_isDec {c : UInt8} (h : isDec c = false) : digitOf 10 c = none := by
  cases hd : digitOf 10 c with
  | none => rfl
  | some d => have := (digitOf10 hd).1; simp [h] at this

theorem digitsVal_mono {radix : Nat} : ∀ (ds : List UInt8) (acc n : Nat), 0 < radix →
    digitsVal radix acc ds = some n → acc ≤ n := by
  intro ds
  induction ds with
  | nil => intro acc n _ h; simp [digitsVal] at h; omega
  | cons c cs ih =>
    intro acc n hr h
    simp only [digitsVal] at h
    split at h
    · have := ih _ _ hr h
      have : acc * 1 ≤ acc * radix := Nat.mul_le_mul_left _ hr
      omega
    · cases h

/-- one digit in state 1 -/
theorem step_digit {c : UInt8} {d n0 : Nat} (hd : digitOf 10 c = some d) :
    (n0 * 10 + d ≤ U64MAX → step ⟨.s1, n0, 1⟩ c = ⟨.s1, n0 * 10 + d, 1⟩) ∧
    (¬ n0 * 10 + d ≤ U64MAX → ∃ sz, step ⟨.s1, n0, 1⟩ c = ⟨.err, sz, 1⟩) := by
  obtain ⟨h1, rfl, _⟩ := digitOf10 hd
  simp only [step, case1, h1, if_true]
  have hdle : c.toNat - 0x30 ≤ 9 := by have := Percival.Proofs.Numeral.digitOf_lt hd; omega
  simp only [U64MAX] at *
  by_cases ha : n0 > (2 ^ 64 - 1) / 10
  · have : ¬ (n0 * 10 + (c.toNat - 48) ≤ 2 ^ 64 - 1) := by omega
    simp only [ha, if_true, this, false_implies, true_and, not_false_eq_true, true_implies]
    split <;> exact ⟨_, rfl⟩
  · simp only [ha, if_false]
    by_cases hb : n0 * 10 > 2 ^ 64 - 1 - (c.toNat - 48)
    · have : ¬ (n0 * 10 + (c.toNat - 48) ≤ 2 ^ 64 - 1) := by omega
      simp only [hb, if_true, this, false_implies, true_and, not_false_eq_true, true_implies]
      exact ⟨_, rfl⟩
    · have : (n0 * 10 + (c.toNat - 48) ≤ 2 ^ 64 - 1) := by omega
      simp [hb, this]

theorem run_digits (rest : List UInt8) : ∀ (ds : List UInt8) (n0 n : Nat), n0 ≤ U64MAX →
    digitsVal 10 n0 ds = some n →
    (n ≤ U64MAX → run ⟨.s1, n0, 1⟩ (ds ++ rest) = run ⟨.s1, n, 1⟩ rest) ∧
    (n > U64MAX → finish (run ⟨.s1, n0, 1⟩ (ds ++ rest)) = .fail) := by
  intro ds
  induction ds with
  | nil =>
    intro n0 n h0 h
    simp [digitsVal] at h; subst h
    exact ⟨fun _ => rfl, fun h => by omega⟩
  | cons c cs ih =>
    intro n0 n h0 h
    simp only [digitsVal] at h
    cases hd : digitOf 10 c with
    | none => simp [hd] at h
    | some d =>
      simp only [hd] at h
      have hmono := digitsVal_mono cs _ _ (by omega) h
      obtain ⟨hs1, hs2⟩ := @step_digit c d n0 hd
      simp only [List.cons_append, run]
      by_cases hle : n0 * 10 + d ≤ U64MAX
      · rw [hs1 hle]
        simp only [reduceCtorEq, if_false]
        exact ih _ _ hle h
      · obtain ⟨sz, hsz⟩ := hs2 hle
        rw [hsz]
        simp only [if_true]
        exact ⟨fun h => by omega, fun _ => finish_err (by omega)⟩

theorem run_init_digit {c : UInt8} (hc : isDec c = true) (cs : List UInt8) :
    run init (c :: cs) = run ⟨.s1, 0, 1⟩ (c :: cs) := by
  have hd := digitOf10_of_isDec hc
  obtain ⟨_, _, hn⟩ := digitOf10 hd
  simp only [run, step, init, case0, hn, if_false]
  rfl

theorem digitsVal_takeWhile (s : List UInt8) (acc : Nat) :
    ∃ n, digitsVal 10 acc (s.takeWhile isDec) = some n := by
  induction s generalizing acc with
  | nil => exact ⟨acc, rfl⟩
  | cons c cs ih =>
    by_cases hc : isDec c = true
    · simp only [List.takeWhile_cons, hc, if_true, digitsVal, digitOf10_of_isDec hc]
      exact ih _
    · simp only [List.takeWhile_cons, hc]; exact ⟨acc, rfl⟩

theorem dropWhile_head (s : List UInt8) : ∀ c r', s.dropWhile isDec = c :: r' → isDec c = false := by
  induction s with
  | nil => intro c r' h; simp at h
  | cons x xs ih =>
    intro c r' h
    rw [List.dropWhile_cons] at h
    split at h
    · exact ih c r' h
    · rename_i hx; injection h with h1 h2; subst h1; simpa using hx


/-! ### humansize_parse against the grammar -/

theorem split_digits (ds r : List UInt8) (hall : ∀ c ∈ ds, isDec c = true)
    (hr : ∀ c r', r = c :: r' → isDec c = false) :
    (ds ++ r).takeWhile isDec = ds ∧ (ds ++ r).dropWhile isDec = r := by
  cases r with
  | nil =>
    simp only [List.append_nil]
    induction ds with
    | nil => simp
    | cons c cs ih =>
      have hc := hall c (by simp)
      have := ih (fun c h => hall c (by simp [h]))
      simp [hc, this]
  | cons x b => exact Percival.Proofs.Numeral.takeWhile_append_stop ds x b hall (hr x b rfl)

theorem digitsVal_all_dec : ∀ (ds : List UInt8) (acc n : Nat), digitsVal 10 acc ds = some n →
    ∀ c ∈ ds, isDec c = true := by
  intro ds
  induction ds with
  | nil => intro _ _ _ c hc; simp at hc
  | cons x xs ih =>
    intro acc n h c hc
    simp only [digitsVal] at h
    cases hd : digitOf 10 x with
    | none => simp [hd] at h
    | some d =>
      simp only [hd] at h
      rcases List.mem_cons.mp hc with rfl | hc
      · exact (digitOf10 hd).1
      · exact ih _ _ h c hc

theorem suffix_head {r : List UInt8} {k : Nat} (h : Suffix r k) : ∀ c r', r = c :: r' → isDec c = false := by
  obtain ⟨sp, pre, b, rfl, hsp, hpre, hb⟩ := h
  intro c r' heq
  have hc : c = 0x20 ∨ c = 0x42 ∨ ∃ j, 1 ≤ j ∧ siPrefixes[j]? = some c := by
    rcases hsp with rfl | rfl
    · rcases hpre with ⟨rfl, _⟩ | ⟨hk, p, hp, rfl⟩
      · rcases hb with rfl | rfl
        · simp at heq
        · simp at heq; exact Or.inr (Or.inl heq.1.symm)
      · simp at heq; exact Or.inr (Or.inr ⟨k, hk, heq.1 ▸ hp⟩)
    · simp at heq; exact Or.inl heq.1.symm
  rcases hc with rfl | rfl | ⟨j, hj1, hj⟩
  · decide
  · decide
  · have hj7 : j < 7 := by
      obtain ⟨h, _⟩ := List.getElem?_eq_some_iff.mp hj; simpa [siPrefixes] using h
    have : j = 1 ∨ j = 2 ∨ j = 3 ∨ j = 4 ∨ j = 5 ∨ j = 6 := by omega
    rcases this with rfl | rfl | rfl | rfl | rfl | rfl <;> (simp [siPrefixes] at hj; subst hj; decide)

theorem parse_nil : parse [] = .fail := by decide

theorem parse_nondigit {c : UInt8} (cs : List UInt8) (hc : isDec c = false) : parse (c :: cs) = .fail := by
  have : c < 0x30 ∨ c > 0x39 := by
    unfold isDec at hc
    simp only [Bool.and_eq_false_iff, decide_eq_false_iff_not, UInt8.not_le] at hc
    exact hc
  simp only [parse, run, step, init, case0, this, if_true]
  exact finish_err (by omega)

theorem parse_digits {c : UInt8} (cs : List UInt8) (hc : isDec c = true) {n : Nat}
    (hn : digitsVal 10 0 ((c :: cs).takeWhile isDec) = some n) :
    parse (c :: cs) = if n ≤ U64MAX then res1 n ((c :: cs).dropWhile isDec) else .fail := by
  have hsplit := (List.takeWhile_append_dropWhile (p := isDec) (l := c :: cs)).symm
  obtain ⟨h1, h2⟩ := run_digits ((c :: cs).dropWhile isDec) _ 0 n (by simp [U64MAX]) hn
  simp only [parse]
  rw [run_init_digit hc, hsplit]
  by_cases hle : n ≤ U64MAX
  · rw [if_pos hle, h1 hle, res1_spec n _ (dropWhile_head _)]
    rw [← hsplit]
  · rw [if_neg hle, h2 (by omega)]

theorem res3_cases (n : Nat) (r : List UInt8) : res3 n r = .fail ∨ ∃ v, res3 n r = .ok v := by
  unfold res3
  split
  · rcases good_cases n 1 with h | h
    · exact Or.inl h
    · exact Or.inr ⟨_, h⟩
  · split
    · split
      · rename_i k _ _
        rcases good_cases n (1000 ^ k) with h | h
        · exact Or.inl h
        · exact Or.inr ⟨_, h⟩
      · exact Or.inl rfl
    · split
      · rcases good_cases n 1 with h | h
        · exact Or.inl h
        · exact Or.inr ⟨_, h⟩
      · exact Or.inl rfl

theorem res1_cases (n : Nat) (r : List UInt8) : res1 n r = .fail ∨ ∃ v, res1 n r = .ok v := by
  unfold res1; split <;> exact res3_cases _ _

theorem parse_cases (s : List UInt8) : parse s = .fail ∨ ∃ v, parse s = .ok v := by
  cases s with
  | nil => exact Or.inl parse_nil
  | cons c cs =>
    by_cases hc : isDec c = true
    · obtain ⟨n, hn⟩ := digitsVal_takeWhile (c :: cs) 0
      rw [parse_digits cs hc hn]
      split
      · exact res1_cases _ _
      · exact Or.inl rfl
    · exact Or.inl (parse_nondigit cs (by simpa using hc))

theorem parse_ok_iff (s : List UInt8) (v : Nat) :
    parse s = .ok v ↔ Parses s v ∧ v ≤ U64MAX := by
  constructor
  · intro h
    cases s with
    | nil => rw [parse_nil] at h; cases h
    | cons c cs =>
      by_cases hc : isDec c = true
      · obtain ⟨n, hn⟩ := digitsVal_takeWhile (c :: cs) 0
        rw [parse_digits cs hc hn] at h
        split at h
        · obtain ⟨k, hsuf, hv, hmax⟩ := (res1_ok_iff n v _).mp h
          refine ⟨⟨_, _, n, k, (List.takeWhile_append_dropWhile (p := isDec)).symm, ?_, hn, hsuf, hv⟩, hmax⟩
          simp [List.takeWhile_cons, hc]
        · cases h
      · rw [parse_nondigit cs (by simpa using hc)] at h; cases h
  · rintro ⟨⟨ds, r, n, k, rfl, hne, hn, hsuf, hv⟩, hmax⟩
    obtain ⟨c, cs, rfl⟩ := List.exists_cons_of_ne_nil hne
    have hall := digitsVal_all_dec _ _ _ hn
    obtain ⟨e1, e2⟩ := split_digits (c :: cs) r hall (suffix_head hsuf)
    have hc := hall c (by simp)
    have hn' : digitsVal 10 0 ((c :: (cs ++ r)).takeWhile isDec) = some n := by
      have : c :: (cs ++ r) = (c :: cs) ++ r := rfl
      rw [this, e1]; exact hn
    have hnle : n ≤ U64MAX := by
      have : n * 1 ≤ n * 1000 ^ k := Nat.mul_le_mul_left _ (pow1000_pos k)
      omega
    show parse (c :: (cs ++ r)) = .ok v
    rw [parse_digits (cs ++ r) hc hn', if_pos hnle]
    have : (c :: (cs ++ r)).dropWhile isDec = r := e2
    rw [this]
    exact (res1_ok_iff n v r).mpr ⟨k, hsuf, hv, hmax⟩

theorem parse_fail_iff (s : List UInt8) :
    parse s = .fail ↔ ¬ ∃ v, Parses s v ∧ v ≤ U64MAX := by
  constructor
  · rintro h ⟨v, hv⟩
    rw [(parse_ok_iff s v).mpr hv] at h; cases h
  · intro h
    rcases parse_cases s with hf | ⟨v, hv⟩
    · exact hf
    · exact absurd ⟨v, (parse_ok_iff s v).mp hv⟩ h

theorem parse_ne_divzero (s : List UInt8) : parse s ≠ .divzero := by
  rcases parse_cases s with hf | ⟨v, hv⟩ <;> simp [*]


end Percival.Proofs.Humansize
