import Percival.Model.HeapAlloc
import Percival.Proofs.AllocFail
import Percival.Proofs.EArrayStep
import Percival.Proofs.HeapCreate
import Percival.Proofs.EvRegTimer
/-!
# C14: `ptrheap_create` with its allocations (`Model.HeapAlloc.create`)

* `create_nil` — `ptrheap_init` is `ptrheap_create` of no element (as in the C);
* `create_spec` — success: the heap is C13's `Heap.create`, the storage invariant holds, no request was refused,
  exactly `2 + (buffer)` blocks were taken; failure: the count of live blocks is what it was, and a request was refused
  (or `8 * N` does not fit `size_t`);
* `create_refused_fails` — if any request the call makes is refused the call fails (no size hypothesis);
* `create_fails_iff` — the three allocation sites in the C's order, each consulted against the oracle;
* `create_free_live` — a created heap released with `ptrheap_free` leaves the count of live blocks where it was.
-/
namespace Percival.Proofs.HeapCreateAlloc
open Percival.Model Percival.Model.HeapAlloc
open Percival.Proofs.EArray (pair_eta malloc_ok malloc_fail free_facts bufBlocks SIZE_MAX_eq SZ_eq)
open Percival.Proofs.AllocFail (HInv)
open Percival.Proofs.EvRegTimer (Step Granted step_malloc step_free step_eaInit)

theorem heapCreate_nil (key : Nat → Int) : Heap.create key [] = Heap.empty := rfl

/-- `ptrheap_init(...)` is `ptrheap_create(..., 0, NULL)` -/
theorem create_nil (key : Nat → Int) (m : Mem) : create key [] m = init m := by
  unfold create init
  simp only [List.length_nil, heapCreate_nil]

theorem heapCreate_size (key : Nat → Int) (ptrs : List Nat) : (Heap.create key ptrs).a.size = ptrs.length := by
  have := (Percival.Proofs.Heap.create_perm key ptrs).length_eq
  simpa using this

/-- what `ptrheap_create` returns and what it does to the allocator's counters -/
theorem create_spec (key : Nat → Int) (ptrs : List Nat) (m : Mem) :
    match create key ptrs m with
    | (some ha, m') => ha.h = Heap.create key ptrs ∧ HInv ha ∧ 8 * ptrs.length ≤ EArray.SIZE_MAX ∧
        m'.refusals = m.refusals ∧ m'.live = m.live + 2 + (if ha.alloc = 0 then 0 else 1)
    | (none, m') => m'.live = m.live ∧ (m'.refusals > m.refusals ∨ 8 * ptrs.length > EArray.SIZE_MAX) := by
  unfold create
  cases hr : (m.malloc structSize).1
  · rw [pair_eta _ hr]; dsimp only
    have := malloc_fail hr
    exact ⟨this.2.1, Or.inl (by omega)⟩
  · rw [pair_eta _ hr]; dsimp only
    have hm := malloc_ok hr
    have hs := Percival.Proofs.EArray.init_spec ptrs.length SeqMap.ptrLen (m.malloc structSize).2
    rcases hres : EArray.init ptrs.length SeqMap.ptrLen (m.malloc structSize).2 with ⟨oa, m2⟩
    rw [hres] at hs
    have hv : SeqMap.ptrLen.val = 8 := rfl
    cases oa with
    | some a =>
      dsimp only at hs ⊢
      obtain ⟨hinv, _, hsz, hle, hlive, hrf⟩ := hs
      rw [hv] at hsz hle
      refine ⟨rfl, ⟨?_, hinv.lt⟩, by omega, by rw [hrf, hm.1], ?_⟩
      · show 8 * (Heap.create key ptrs).a.size ≤ a.alloc
        rw [heapCreate_size]
        have := hinv.le
        omega
      · rw [hlive, hm.2.1]; simp only [bufBlocks]; omega
    | none =>
      dsimp only at hs ⊢
      have f := free_facts m2 false
      rw [hv] at hs
      refine ⟨by rw [f.2.1, hs.1, hm.2.1]; simp, ?_⟩
      rcases hs.2 with h | h
      · left; rw [f.1]; omega
      · right; omega

/-- the oracle only moves forward: same decision function, position and refusals grow, nothing refused if granted -/
theorem step_create (key : Nat → Int) (ptrs : List Nat) (m : Mem) : Step m (create key ptrs m).2 := by
  unfold create
  have h1 := step_malloc m structSize
  split
  · rename_i heq; rw [heq] at h1; exact h1
  · rename_i m1 heq; rw [heq] at h1
    have h2 := step_eaInit ptrs.length SeqMap.ptrLen m1
    split
    · rename_i heq2; rw [heq2] at h2; exact h1.trans h2
    · rename_i m2 heq2; rw [heq2] at h2
      have h2' : Step m1 m2 := h2
      exact h1.trans (h2'.trans (step_free m2 false))

/-- **a refused request makes the call fail** (every oracle, every list; no hypothesis on the size), and a failed
call leaves the count of live blocks where it was -/
theorem create_refused_fails (key : Nat → Int) (ptrs : List Nat) (m : Mem) :
    (m.refusals < (create key ptrs m).2.refusals → (create key ptrs m).1 = none) ∧
    ((create key ptrs m).1 = none → (create key ptrs m).2.live = m.live) := by
  have hs := create_spec key ptrs m
  rcases hres : create key ptrs m with ⟨o, m'⟩
  rw [hres] at hs
  cases o with
  | some ha => dsimp only at hs ⊢; exact ⟨fun h => by omega, fun h => by cases h⟩
  | none => dsimp only at hs ⊢; exact ⟨fun _ => rfl, fun _ => hs.1⟩

/-- the allocation sites of `elasticarray_init(k, 8)`: the structure (24 bytes), then — for `k > 0` — the buffer -/
theorem eaInit_sites (k : Nat) (m : Mem) (hk : 8 * k ≤ EArray.SIZE_MAX) :
    ((EArray.init k SeqMap.ptrLen m).1 = none ↔ (m.f m.n 24 = false ∨ (0 < k ∧ m.f (m.n + 1) (8 * k) = false))) ∧
    (EArray.init k SeqMap.ptrLen m).2.n ≤ m.n + 2 := by
  have hv : SeqMap.ptrLen.val = 8 := rfl
  have hmod : k * 8 % EArray.SZ = k * 8 := Nat.mod_eq_of_lt (by simp only [SZ_eq, SIZE_MAX_eq] at *; omega)
  have hdiv : ¬ k > EArray.SIZE_MAX / 8 := by simp only [SIZE_MAX_eq] at *; omega
  have hc : k * 8 = 8 * k := Nat.mul_comm _ _
  unfold EArray.init EArray.resizeRec
  simp only [hv, hdiv, if_false, hmod]
  by_cases h1 : m.f m.n 24 = true
  · have hm : m.malloc EArray.structSize = (true, (m.malloc EArray.structSize).2) := by
      simp [Mem.malloc, EArray.structSize, h1]
    rw [hm]; dsimp only
    by_cases hk0 : k = 0
    · subst hk0
      simp [EArray.resize, EArray.wantAlloc, h1, Mem.malloc, Mem.free]
    · have hw : EArray.wantAlloc 0 (k * 8) = k * 8 := by
        simp only [EArray.wantAlloc]
        rw [if_pos (by omega)]
        simp; omega
      simp only [EArray.resize, hw]
      rw [if_neg (by omega), if_pos (by omega)]
      by_cases h2 : m.f (m.n + 1) (8 * k) = true
      · simp [Mem.realloc, Mem.malloc, h1, h2, hc]
      · simp [Mem.realloc, Mem.malloc, h1, h2, hc, EArray.free, Mem.free]; omega
  · have hm : m.malloc EArray.structSize = (false, (m.malloc EArray.structSize).2) := by
      simp [Mem.malloc, EArray.structSize, h1]
    rw [hm]; dsimp only
    simp [h1, Mem.malloc]

/-- **the allocation sites of `ptrheap_create` in the C's order**, for a list whose `8 * N` bytes fit `size_t`: the
call fails exactly if the oracle refuses the structure (request `m.n`, 40 bytes), or the list structure (request
`m.n + 1`, 24 bytes), or — for `N > 0` only — the list's buffer (request `m.n + 2`, `8 * N` bytes); it consults at
most these three -/
theorem create_fails_iff (key : Nat → Int) (ptrs : List Nat) (m : Mem) (hsmall : 8 * ptrs.length ≤ EArray.SIZE_MAX) :
    ((create key ptrs m).1 = none ↔
      (m.f m.n 40 = false ∨ m.f (m.n + 1) 24 = false ∨ (ptrs ≠ [] ∧ m.f (m.n + 2) (8 * ptrs.length) = false))) ∧
    (create key ptrs m).2.n ≤ m.n + 3 := by
  have hpos : 0 < ptrs.length ↔ ptrs ≠ [] := by
    cases ptrs <;> simp
  unfold create
  by_cases h1 : m.f m.n 40 = true
  · have hm : m.malloc structSize = (true, (m.malloc structSize).2) := by
      simp [Mem.malloc, structSize, h1]
    have hn : (m.malloc structSize).2.n = m.n + 1 := rfl
    have hf : (m.malloc structSize).2.f = m.f := rfl
    rw [hm]; dsimp only
    have hs := eaInit_sites ptrs.length (m.malloc structSize).2 hsmall
    rw [hn, hf, hpos] at hs
    rcases hi : EArray.init ptrs.length SeqMap.ptrLen (m.malloc structSize).2 with ⟨oa, m2⟩
    rw [hi] at hs
    cases oa with
    | some a =>
      dsimp only at hs ⊢
      refine ⟨⟨fun h => (by cases h), fun h => ?_⟩, by omega⟩
      rcases h with h | h | h
      · rw [h1] at h; cases h
      · exact absurd (hs.1.mpr (Or.inl h)) (by simp)
      · exact absurd (hs.1.mpr (Or.inr h)) (by simp)
    | none =>
      dsimp only at hs ⊢
      refine ⟨⟨fun _ => Or.inr ?_, fun _ => rfl⟩, ?_⟩
      · rcases hs.1.mp rfl with h | h
        · exact Or.inl h
        · exact Or.inr h
      · have : (m2.free false).n = m2.n := rfl
        omega
  · have hm : m.malloc structSize = (false, (m.malloc structSize).2) := by
      simp [Mem.malloc, structSize, h1]
    rw [hm]; dsimp only
    have hn : (m.malloc structSize).2.n = m.n + 1 := rfl
    refine ⟨⟨fun _ => Or.inl (by simpa using h1), fun _ => rfl⟩, by omega⟩

/-- a successful `elasticarray_init(k, 8)` allocates exactly the `8 * k` bytes asked for (no buffer for `k = 0`) -/
theorem eaInit_alloc (k : Nat) (m : Mem) (a : EArray.EA) (m' : Mem)
    (h : EArray.init k SeqMap.ptrLen m = (some a, m')) : a.alloc = 8 * k ∧ a.size = 8 * k := by
  have hs := Percival.Proofs.EArray.init_spec k SeqMap.ptrLen m
  rw [h] at hs
  have hv : SeqMap.ptrLen.val = 8 := rfl
  have hk : k * 8 ≤ EArray.SIZE_MAX := hv ▸ hs.2.2.2.1
  have hsz : a.size = k * 8 := hv ▸ hs.2.2.1
  have hmod : k * 8 % EArray.SZ = k * 8 := Nat.mod_eq_of_lt (by simp only [SZ_eq, SIZE_MAX_eq] at *; omega)
  have hdiv : ¬ k > EArray.SIZE_MAX / 8 := by simp only [SIZE_MAX_eq] at *; omega
  refine ⟨?_, by omega⟩
  unfold EArray.init EArray.resizeRec at h
  simp only [hv, hdiv, if_false, hmod] at h
  split at h
  · cases h
  · rename_i m1 _
    by_cases hk0 : k = 0
    · subst hk0
      simp only [EArray.resize, EArray.wantAlloc] at h
      simp at h
      rw [← h.1]
    · have hw : EArray.wantAlloc 0 (k * 8) = k * 8 := by
        simp only [EArray.wantAlloc]
        rw [if_pos (by omega)]
        simp; omega
      simp only [EArray.resize, hw] at h
      rw [if_neg (by omega), if_pos (by omega)] at h
      rcases hr : Mem.realloc m1 ((0 : Nat) == 0) (k * 8) with ⟨ok, m2⟩
      rw [hr] at h
      cases ok
      · simp at h
      · simp at h; rw [← h.1]; simp; omega

/-- the storage of a created heap is exactly `8 * N` bytes (L2 `hal=`): no buffer for `N = 0` -/
theorem create_alloc (key : Nat → Int) (ptrs : List Nat) (m : Mem) (ha : HeapA) (m' : Mem)
    (h : create key ptrs m = (some ha, m')) : ha.alloc = 8 * ptrs.length := by
  unfold create at h
  split at h
  · cases h
  · rename_i m1 _
    rcases hi : EArray.init ptrs.length SeqMap.ptrLen m1 with ⟨oa, m2⟩
    rw [hi] at h
    cases oa with
    | none => cases h
    | some a =>
      simp only [Prod.mk.injEq, Option.some.injEq] at h
      rw [← h.1]
      exact (eaInit_alloc _ _ _ _ hi).1

/-- once the allocator grants what is asked, the call succeeds -/
theorem create_succeeds_when_granted (key : Nat → Int) (ptrs : List Nat) (m : Mem)
    (hsmall : 8 * ptrs.length ≤ EArray.SIZE_MAX) (hg : Granted m) : (create key ptrs m).1.isSome = true := by
  have hi := (create_fails_iff key ptrs m hsmall).1
  cases hc : (create key ptrs m).1 with
  | some _ => rfl
  | none =>
    rcases hi.mp hc with h | h | ⟨_, h⟩
    · rw [hg _ _ (Nat.le_refl _)] at h; cases h
    · rw [hg _ _ (by omega)] at h; cases h
    · rw [hg _ _ (by omega)] at h; cases h

theorem heapFree_live' (ha : HeapA) (m : Mem) :
    (HeapAlloc.free ha m).live = m.live - 2 - (if ha.alloc = 0 then 0 else 1) := by
  simp only [HeapAlloc.free, EArray.free, HeapAlloc.shape]
  rw [(free_facts _ _).2.1, (free_facts _ _).2.1, (free_facts _ _).2.1]
  by_cases h : ha.alloc = 0 <;> simp [h] <;> omega

/-- **a created heap released with `ptrheap_free` leaves nothing live** -/
theorem create_free_live (key : Nat → Int) (ptrs : List Nat) (m : Mem) (ha : HeapA) (m' : Mem)
    (h : create key ptrs m = (some ha, m')) : (HeapAlloc.free ha m').live = m.live := by
  have hs := create_spec key ptrs m
  rw [h] at hs
  dsimp only at hs
  rw [heapFree_live', hs.2.2.2.2]
  omega

end Percival.Proofs.HeapCreateAlloc
