import Percival.Model.NetbufRead
/-! Helper lemmas for C07, reader half: the window of `netbuf_read.c`'s buffer refines
`received.drop consumed`. -/
namespace Percival.Proofs.NetbufRead
open Percival.Spec.ByteStream Percival.Model.Netbuf Percival.Model.NetbufRead

theorem slice_eq (b : Bytes) (off len : Nat) (h : off + len ≤ b.length) :
    slice b off len = .ok ((b.drop off).take len) := by simp [slice, h]

theorem blit_eq (dst : Bytes) (off : Nat) (src : Bytes) (h : off + src.length ≤ dst.length) :
    blit dst off src = .ok (dst.take off ++ (src ++ dst.drop (off + src.length))) := by simp [blit, h]

theorem sub_eq (a b : Nat) (h : b ≤ a) : sub a b = .ok (a - b) := by simp [sub, h]

/-- window of a buffer after `d` was stored at `dl` -/
theorem window_blit (buf d : Bytes) (bp dl : Nat) (h1 : bp ≤ dl) (h2 : dl + d.length ≤ buf.length) :
    ((buf.take dl ++ (d ++ buf.drop (dl + d.length))).drop bp).take (dl + d.length - bp)
      = (buf.drop bp).take (dl - bp) ++ d := by
  have hl : (buf.take dl).length = dl := by simp [List.length_take]; omega
  rw [List.drop_append_of_le_length (by omega)]
  have hl2 : ((buf.take dl).drop bp).length = dl - bp := by simp [List.length_drop, hl]
  rw [← List.append_assoc]
  have : dl + d.length - bp = ((buf.take dl).drop bp ++ d).length := by simp [hl2]; omega
  rw [this, List.take_left']
  · congr 1
    rw [List.drop_take]
  · rfl

/-- the bytes between the read pointer and the write pointer: what `peek` points at -/
def window (r : R) : Bytes := (r.buf.drop r.bufpos).take (r.datalen - r.bufpos)

/-- the geometry of the buffer -/
structure Geo (r : R) : Prop where
  len : r.buf.length = r.buflen
  pos : r.bufpos ≤ r.datalen
  dat : r.datalen ≤ r.buflen

theorem window_length {r : R} (g : Geo r) : (window r).length = r.datalen - r.bufpos := by
  obtain ⟨h1, h2, h3⟩ := g
  simp [window, List.length_take, List.length_drop]; omega

theorem peek_eq {r : R} (g : Geo r) : peek r = .ok (window r) := by
  obtain ⟨h1, h2, h3⟩ := g
  simp only [peek, window]
  rw [sub_eq _ _ h2]
  simp only [Res.ok_bind]
  rw [slice_eq _ _ _ (by omega)]

theorem newBuflen_ge (buflen len : Nat) : len ≤ newBuflen buflen len ∧ buflen ≤ newBuflen buflen len := by
  unfold newBuflen
  have h2 : Percival.Gen.Netbuf.growFactor = 2 := rfl
  rw [h2]
  split <;> omega

structure Moved (r r' : R) : Prop where
  geo : Geo r'
  bufpos : r'.bufpos = 0
  datalen : r'.datalen = r.datalen - r.bufpos
  win : window r' = window r
  pending : r'.pending = r.pending
  waitlen : r'.waitlen = r.waitlen

theorem resize_spec {r : R} (g : Geo r) (len : Nat) :
    ∃ r', resize r len = .ok r' ∧ Moved r r' ∧ r'.buflen = newBuflen r.buflen len := by
  have hw := window_length g
  obtain ⟨h1, h2, h3⟩ := g
  have hn := newBuflen_ge r.buflen len
  simp only [resize]
  rw [sub_eq _ _ h2]
  simp only [Res.ok_bind]
  rw [slice_eq _ _ _ (by omega)]
  simp only [Res.ok_bind]
  have hwl : ((r.buf.drop r.bufpos).take (r.datalen - r.bufpos)).length = r.datalen - r.bufpos := hw
  rw [blit_eq _ _ _ (by simp only [hwl, List.length_replicate]; omega)]
  simp only [Res.ok_bind, Res.pure_eq]
  refine ⟨_, rfl, ⟨⟨?_, ?_, ?_⟩, rfl, rfl, ?_, rfl, rfl⟩, rfl⟩
  · simp [hwl] <;> omega
  · simp
  · simp <;> omega
  · simp only [window, List.take_zero, List.nil_append, List.drop_zero, Nat.sub_zero]
    rw [← hwl, List.take_left']
    all_goals first | rfl | simp [hwl]

theorem compact_spec {r : R} (g : Geo r) :
    ∃ r', compact r = .ok r' ∧ Moved r r' ∧ r'.buflen = r.buflen := by
  have hw := window_length g
  obtain ⟨h1, h2, h3⟩ := g
  simp only [compact]
  rw [sub_eq _ _ h2]
  simp only [Res.ok_bind]
  rw [slice_eq _ _ _ (by omega)]
  simp only [Res.ok_bind]
  have hwl : ((r.buf.drop r.bufpos).take (r.datalen - r.bufpos)).length = r.datalen - r.bufpos := hw
  rw [blit_eq _ _ _ (by simp only [hwl]; omega)]
  simp only [Res.ok_bind, Res.pure_eq]
  refine ⟨_, rfl, ⟨⟨?_, ?_, ?_⟩, rfl, rfl, ?_, rfl, rfl⟩, rfl⟩
  · simp [hwl] <;> omega
  · simp
  · simp <;> omega
  · simp only [window, List.take_zero, List.nil_append, List.drop_zero, Nat.sub_zero]
    rw [← hwl, List.take_left']
    all_goals first | rfl | simp [hwl]

theorem doread_spec {r : R} (g : Geo r) (h : r.datalen < r.buflen) :
    doread r = .ok { r with pending := .read } := by
  obtain ⟨h1, h2, h3⟩ := g
  simp only [doread]
  rw [sub_eq _ _ h3]
  simp only [Res.ok_bind]
  rw [if_neg (by omega), slice_eq _ _ _ (by omega)]
  rfl


/-- how the model's `pending` mirrors the outstanding `wait k` of the abstract reader -/
def PendRel (r : R) (a : Reader) : Prop :=
  match r.pending, a.waiting with
  | .none, none => True
  | .immediate, some k => k ≤ a.visible.length
  | .read, some k => r.waitlen = k ∧ a.visible.length < k ∧ k ≤ r.buflen - r.bufpos
  | _, _ => False

/-- the refinement relation: `bufpos ≤ datalen ≤ buflen = |buf|`, `buf[bufpos..datalen) = received.drop consumed`,
and the outstanding wait is the same on both sides (with room for it in the buffer) -/
structure Rel (r : R) (a : Reader) : Prop where
  geo : Geo r
  win : window r = a.visible
  pend : PendRel r a
  cons : a.consumed ≤ a.received.length

theorem Rel.avail {r : R} {a : Reader} (h : Rel r a) : a.visible.length = r.datalen - r.bufpos := by
  rw [← h.win]; exact window_length h.geo

theorem rel_init : Rel init Reader.init := by
  refine ⟨⟨?_, ?_, ?_⟩, ?_, ?_, ?_⟩
  · simp [init]
  · simp [init]
  · simp [init]
  · simp [window, init, Reader.visible, Reader.init]
  · simp [PendRel, init, Reader.init]
  · simp [Reader.init]

theorem pending_none_of {r : R} {a : Reader} (h : Rel r a) (hw : a.waiting = none) : r.pending = .none := by
  have := h.pend
  unfold PendRel at this
  rw [hw] at this
  cases hp : r.pending <;> simp_all

theorem wait_rel {r : R} {a : Reader} (h : Rel r a) (hw : a.waiting = none) (k : Nat) :
    ∃ r', wait r k = .ok r' ∧ Rel r' { a with waiting := some k } := by
  have hp := pending_none_of h hw
  have hav := h.avail
  have hgeo := h.geo
  obtain ⟨g1, g2, g3⟩ := hgeo
  unfold wait
  rw [if_neg (by simp [hp]), sub_eq _ _ g2]
  simp only [Res.ok_bind]
  by_cases hk : k ≤ r.datalen - r.bufpos
  · rw [if_pos hk]
    refine ⟨_, rfl, ⟨⟨g1, g2, g3⟩, ?_, ?_, h.cons⟩⟩
    · exact h.win
    · simp only [PendRel, Reader.visible] at *
      omega
  · rw [if_neg hk]
    -- stage 1: grow if the buffer cannot hold k bytes at all
    have s1 : ∃ r1, growIfNeeded r k = Res.ok r1 ∧ Geo r1 ∧
        r1.datalen - r1.bufpos = r.datalen - r.bufpos ∧ window r1 = window r ∧ k ≤ r1.buflen := by
      unfold growIfNeeded
      by_cases hb : r.buflen < k
      · rw [if_pos hb]
        obtain ⟨r1, e, m, hbl⟩ := resize_spec h.geo k
        refine ⟨r1, e, m.geo, ?_, m.win, ?_⟩
        · rw [m.datalen, m.bufpos]; omega
        · rw [hbl]; exact (newBuflen_ge _ _).1
      · rw [if_neg hb]
        exact ⟨r, rfl, h.geo, rfl, rfl, by omega⟩
    obtain ⟨r1, e1, geo1, av1, win1, big1⟩ := s1
    rw [e1]
    simp only [Res.ok_bind]
    -- stage 2: move the data to the front if the room behind the read pointer is too small
    have s2 : ∃ r2, compactIfNeeded r1 k = Res.ok r2 ∧ Geo r2 ∧
        r2.datalen - r2.bufpos = r.datalen - r.bufpos ∧ window r2 = window r ∧ k ≤ r2.buflen - r2.bufpos := by
      unfold compactIfNeeded
      rw [sub_eq _ _ (by have := geo1.pos; have := geo1.dat; omega)]
      simp only [Res.ok_bind]
      by_cases hc : r1.buflen - r1.bufpos < k
      · rw [if_pos hc]
        obtain ⟨r2, e, m, hbl⟩ := compact_spec geo1
        refine ⟨r2, e, m.geo, ?_, by rw [m.win, win1], ?_⟩
        · rw [m.datalen, m.bufpos]; omega
        · rw [hbl, m.bufpos]; omega
      · rw [if_neg hc]
        exact ⟨r1, rfl, geo1, av1, win1, by omega⟩
    obtain ⟨r2, e2, geo2, av2, win2, room2⟩ := s2
    rw [e2]
    simp only [Res.ok_bind]
    have geo2' : Geo { r2 with waitlen := k } := ⟨geo2.len, geo2.pos, geo2.dat⟩
    have hpos := geo2.pos
    rw [doread_spec geo2' (by show r2.datalen < r2.buflen; omega)]
    refine ⟨_, rfl, ⟨⟨geo2.len, geo2.pos, geo2.dat⟩, ?_, ?_, h.cons⟩⟩
    · show window r2 = _
      rw [win2]; exact h.win
    · simp only [PendRel, Reader.visible] at *
      refine ⟨trivial, ?_, room2⟩
      omega


theorem consume_rel {r : R} {a : Reader} (h : Rel r a) (hw : a.waiting = none) (j : Nat)
    (hj : j ≤ a.visible.length) :
    ∃ r', consume r j = .ok r' ∧ Rel r' { a with consumed := a.consumed + j } := by
  have hp := pending_none_of h hw
  have hav := h.avail
  obtain ⟨g1, g2, g3⟩ := h.geo
  unfold consume
  rw [sub_eq _ _ g2]
  simp only [Res.ok_bind]
  rw [if_neg (by omega)]
  have hvl : a.visible.length = a.received.length - a.consumed := by simp [Reader.visible]
  have hc0 := h.cons
  refine ⟨_, rfl, ⟨⟨g1, ?_, g3⟩, ?_, ?_, by show a.consumed + j ≤ a.received.length; omega⟩⟩
  · show r.bufpos + j ≤ r.datalen
    omega
  · have hwin := h.win
    simp only [window, Reader.visible] at hwin ⊢
    show (r.buf.drop (r.bufpos + j)).take (r.datalen - (r.bufpos + j)) = a.received.drop (a.consumed + j)
    rw [← List.drop_drop, ← List.drop_drop, ← hwin, List.drop_take]
    congr 1
    omega
  · simp only [PendRel, hp, hw]

theorem cancel_rel {r : R} {a : Reader} (h : Rel r a) :
    Rel (cancel r) { a with waiting := none } := by
  refine ⟨⟨h.geo.len, h.geo.pos, h.geo.dat⟩, h.win, ?_, h.cons⟩
  simp [PendRel, cancel]

theorem fire_rel {r : R} {a : Reader} (h : Rel r a) (k : Nat) (hw : a.waiting = some k)
    (hk : k ≤ a.visible.length) :
    callbackSuccess r = .ok ({ r with pending := .none }, 0) ∧
      Rel { r with pending := .none } { a with waiting := none } := by
  have hp : r.pending = .immediate := by
    have := h.pend
    unfold PendRel at this
    rw [hw] at this
    cases hp : r.pending <;> simp_all
    omega
  refine ⟨by simp [callbackSuccess, hp], ⟨⟨h.geo.len, h.geo.pos, h.geo.dat⟩, h.win, ?_, h.cons⟩⟩
  simp [PendRel]

/-- facts about an outstanding transport read -/
theorem read_of {r : R} {a : Reader} (h : Rel r a) (k : Nat) (hw : a.waiting = some k)
    (hk : ¬ k ≤ a.visible.length) :
    r.pending = .read ∧ r.waitlen = k ∧ k ≤ r.buflen - r.bufpos := by
  have := h.pend
  unfold PendRel at this
  rw [hw] at this
  cases hp : r.pending <;> simp_all <;> omega

theorem net_end_rel {r : R} {a : Reader} (h : Rel r a) (k : Nat) (hw : a.waiting = some k)
    (hk : ¬ k ≤ a.visible.length) (ev : REv) (st : Int) (hev : (ev = .eof ∧ st = 1) ∨ (ev = .err ∧ st = -1)) :
    callbackRead r ev = .ok ({ r with pending := .none }, some st) ∧
      Rel { r with pending := .none } { a with waiting := none } := by
  obtain ⟨hp, _, _⟩ := read_of h k hw hk
  refine ⟨?_, ⟨⟨h.geo.len, h.geo.pos, h.geo.dat⟩, h.win, by simp [PendRel], h.cons⟩⟩
  rcases hev with ⟨rfl, rfl⟩ | ⟨rfl, rfl⟩ <;> simp [callbackRead, hp]

theorem net_data_rel {r : R} {a : Reader} (h : Rel r a) (k : Nat) (hw : a.waiting = some k)
    (hk : ¬ k ≤ a.visible.length) (d : Bytes) (hd0 : d.length ≠ 0) (hfit : d.length ≤ r.buflen - r.datalen) :
    let a' : Reader := { a with received := a.received ++ d }
    ∃ r', callbackRead r (.data d) = .ok (r', if k ≤ a'.visible.length then some 0 else none) ∧
      Rel r' (if k ≤ a'.visible.length then { a' with waiting := none } else a') := by
  intro a'
  obtain ⟨hp, hwl, hroom⟩ := read_of h k hw hk
  have hav := h.avail
  obtain ⟨g1, g2, g3⟩ := h.geo
  -- the abstract stream grows by d; at most `consumed ≤ |received|` bytes were dropped before
  have hcons : a.consumed ≤ a.received.length := h.cons
  have hcons' : a'.consumed ≤ a'.received.length := by
    show a.consumed ≤ (a.received ++ d).length
    simp; omega
  have hvis' : a'.visible = a.visible ++ d := by
    simp only [Reader.visible, a']
    rw [List.drop_append_of_le_length hcons]
  -- the buffer after the transport stored d at &buf[datalen]
  have hwin' : ((r.buf.take r.datalen ++ (d ++ r.buf.drop (r.datalen + d.length))).drop r.bufpos).take
      (r.datalen + d.length - r.bufpos) = a'.visible := by
    rw [window_blit _ _ _ _ g2 (by omega), hvis', ← h.win]
    rfl
  have hlen' : (r.buf.take r.datalen ++ (d ++ r.buf.drop (r.datalen + d.length))).length = r.buflen := by
    simp [List.length_take, List.length_drop]; omega
  have hvl : a'.visible.length = r.datalen + d.length - r.bufpos := by
    rw [hvis']; simp; omega
  unfold callbackRead
  rw [if_neg (by simp [hp])]
  simp only []
  rw [if_neg hd0, blit_eq _ _ _ (by omega)]
  simp only [Res.ok_bind]
  rw [sub_eq _ _ (by show r.bufpos ≤ r.datalen + d.length; omega)]
  simp only [Res.ok_bind]
  by_cases hdone : k ≤ a'.visible.length
  · rw [if_pos hdone, if_pos hdone, if_neg (by show ¬ (r.datalen + d.length - r.bufpos < r.waitlen); omega)]
    refine ⟨_, rfl, ⟨⟨hlen', ?_, ?_⟩, hwin', by simp [PendRel], hcons'⟩⟩
    · show r.bufpos ≤ r.datalen + d.length
      omega
    · show r.datalen + d.length ≤ r.buflen
      omega
  · rw [if_neg hdone, if_neg hdone, if_pos (by show r.datalen + d.length - r.bufpos < r.waitlen; omega)]
    have geo' : Geo ⟨r.buf.take r.datalen ++ (d ++ r.buf.drop (r.datalen + d.length)), r.buflen, r.bufpos,
        r.datalen + d.length, r.waitlen, Pending.none⟩ :=
      ⟨hlen', by show r.bufpos ≤ r.datalen + d.length; omega, by show r.datalen + d.length ≤ r.buflen; omega⟩
    rw [doread_spec geo' (by show r.datalen + d.length < r.buflen; omega)]
    refine ⟨_, rfl, ⟨⟨hlen', geo'.pos, geo'.dat⟩, hwin', ?_, hcons'⟩⟩
    simp only [PendRel, hw, a']
    refine ⟨hwl, ?_, hroom⟩
    show a'.visible.length < k
    omega


/-- One step: whatever the abstract reader allows, the model does without leaving its buffer, with the
same observable answer, and the refinement relation is kept. -/
theorem step_refines {r : R} {a a' : Reader} {op : ROp} {o : ROut} (h : Rel r a)
    (hs : a.step op = some (a', o)) (hf : fits r op) :
    ∃ r', step r op = .ok (r', o) ∧ Rel r' a' := by
  cases op with
  | wait k =>
    simp only [Reader.step] at hs
    split at hs
    · simp at hs
    · rename_i hw
      simp only [Option.some.injEq, Prod.mk.injEq] at hs
      obtain ⟨rfl, rfl⟩ := hs
      obtain ⟨r', e, hr⟩ := wait_rel h (by simpa using hw) k
      exact ⟨r', by simp [step, e], hr⟩
  | peek =>
    simp only [Reader.step, Option.some.injEq, Prod.mk.injEq] at hs
    obtain ⟨rfl, rfl⟩ := hs
    exact ⟨r, by simp [step, peek_eq h.geo, h.win], h⟩
  | consume j =>
    simp only [Reader.step] at hs
    split at hs
    · simp at hs
    · rename_i hw
      split at hs
      · simp at hs
      · rename_i hj
        simp only [Option.some.injEq, Prod.mk.injEq] at hs
        obtain ⟨rfl, rfl⟩ := hs
        obtain ⟨r', e, hr⟩ := consume_rel h (by simpa using hw) j (by omega)
        exact ⟨r', by simp [step, e], hr⟩
  | cancel =>
    simp only [Reader.step, Option.some.injEq, Prod.mk.injEq] at hs
    obtain ⟨rfl, rfl⟩ := hs
    exact ⟨cancel r, by simp [step], cancel_rel h⟩
  | fire =>
    simp only [Reader.step] at hs
    split at hs
    · rename_i k hw
      split at hs
      · rename_i hk
        simp only [Option.some.injEq, Prod.mk.injEq] at hs
        obtain ⟨rfl, rfl⟩ := hs
        obtain ⟨e, hr⟩ := fire_rel h k hw hk
        exact ⟨_, by simp [step, e], hr⟩
      · simp at hs
    · simp at hs
  | net ev =>
    simp only [Reader.step] at hs
    split at hs
    · simp at hs
    · rename_i k hw
      split at hs
      · simp at hs
      · rename_i hk
        cases ev with
        | err =>
          simp only [Option.some.injEq, Prod.mk.injEq] at hs
          obtain ⟨rfl, rfl⟩ := hs
          obtain ⟨e, hr⟩ := net_end_rel h k hw hk .err (-1) (Or.inr ⟨rfl, rfl⟩)
          exact ⟨_, by simp [step, e, outOfStatus], hr⟩
        | eof =>
          simp only [Option.some.injEq, Prod.mk.injEq] at hs
          obtain ⟨rfl, rfl⟩ := hs
          obtain ⟨e, hr⟩ := net_end_rel h k hw hk .eof 1 (Or.inl ⟨rfl, rfl⟩)
          exact ⟨_, by simp [step, e, outOfStatus], hr⟩
        | data d =>
          simp only at hs
          split at hs
          · simp at hs
          · rename_i hd0
            obtain ⟨hp, _, _⟩ := read_of h k hw hk
            have hfit : d.length ≤ r.buflen - r.datalen :=
              (hf r.datalen (r.buflen - r.datalen) Percival.Gen.Netbuf.readMin (by simp [request, hp])).2
            obtain ⟨r', e, hr⟩ := net_data_rel h k hw hk d hd0 hfit
            split at hs
            · rename_i hdone
              simp only [Option.some.injEq, Prod.mk.injEq] at hs
              obtain ⟨rfl, rfl⟩ := hs
              rw [if_pos hdone] at e hr
              exact ⟨r', by simp [step, e, outOfStatus], hr⟩
            · rename_i hdone
              simp only [Option.some.injEq, Prod.mk.injEq] at hs
              obtain ⟨rfl, rfl⟩ := hs
              rw [if_neg hdone] at e hr
              exact ⟨r', by simp [step, e, outOfStatus], hr⟩

/-- Whole sequences. -/
theorem run_refines (ops : List ROp) : ∀ {r : R} {a a' : Reader} {outs : List ROut}, Rel r a →
    a.run ops = some (a', outs) → transportOK r ops →
    ∃ r', run r ops = .ok (r', outs) ∧ Rel r' a' := by
  induction ops with
  | nil =>
    intro r a a' outs h hr _
    simp only [Reader.run, Option.some.injEq, Prod.mk.injEq] at hr
    obtain ⟨rfl, rfl⟩ := hr
    exact ⟨r, rfl, h⟩
  | cons op ops ih =>
    intro r a a' outs h hr ht
    simp only [Reader.run] at hr
    split at hr
    · simp at hr
    · rename_i a1 o hs
      split at hr
      · simp at hr
      · rename_i a2 os hr2
        simp only [Option.some.injEq, Prod.mk.injEq] at hr
        obtain ⟨rfl, rfl⟩ := hr
        obtain ⟨hf, hnext⟩ := ht
        obtain ⟨r1, e1, h1⟩ := step_refines h hs hf
        obtain ⟨r2, e2, h2⟩ := ih h1 hr2 (hnext r1 o e1)
        exact ⟨r2, by simp [run, e1, e2], h2⟩


/-- one abstract step adds exactly the delivered bytes and the consumed count of that op -/
theorem spec_step_history {a a' : Reader} {op : ROp} {o : ROut} (hs : a.step op = some (a', o)) :
    a'.received = a.received ++ delivered [op] ∧ a'.consumed = a.consumed + consumedBy [op] := by
  cases op with
  | wait k =>
    simp only [Reader.step] at hs
    split at hs <;> simp at hs
    obtain ⟨rfl, _⟩ := hs
    simp [delivered, consumedBy]
  | peek =>
    simp only [Reader.step, Option.some.injEq, Prod.mk.injEq] at hs
    obtain ⟨rfl, _⟩ := hs
    simp [delivered, consumedBy]
  | consume j =>
    simp only [Reader.step] at hs
    split at hs
    · simp at hs
    · split at hs
      · simp at hs
      · simp only [Option.some.injEq, Prod.mk.injEq] at hs
        obtain ⟨rfl, _⟩ := hs
        simp [delivered, consumedBy]
  | cancel =>
    simp only [Reader.step, Option.some.injEq, Prod.mk.injEq] at hs
    obtain ⟨rfl, _⟩ := hs
    simp [delivered, consumedBy]
  | fire =>
    simp only [Reader.step] at hs
    split at hs
    · split at hs
      · simp only [Option.some.injEq, Prod.mk.injEq] at hs
        obtain ⟨rfl, _⟩ := hs
        simp [delivered, consumedBy]
      · simp at hs
    · simp at hs
  | net ev =>
    simp only [Reader.step] at hs
    split at hs
    · simp at hs
    · split at hs
      · simp at hs
      · cases ev with
        | err =>
          simp only [Option.some.injEq, Prod.mk.injEq] at hs
          obtain ⟨rfl, _⟩ := hs
          simp [delivered, consumedBy]
        | eof =>
          simp only [Option.some.injEq, Prod.mk.injEq] at hs
          obtain ⟨rfl, _⟩ := hs
          simp [delivered, consumedBy]
        | data d =>
          simp only at hs
          split at hs
          · simp at hs
          · split at hs <;>
            · simp only [Option.some.injEq, Prod.mk.injEq] at hs
              obtain ⟨rfl, _⟩ := hs
              simp [delivered, consumedBy]

theorem delivered_cons (op : ROp) (ops : List ROp) : delivered (op :: ops) = delivered [op] ++ delivered ops := by
  cases op with
  | net ev => cases ev <;> simp [delivered]
  | _ => simp [delivered]

theorem consumedBy_cons (op : ROp) (ops : List ROp) : consumedBy (op :: ops) = consumedBy [op] + consumedBy ops := by
  cases op <;> simp [consumedBy]

/-- the abstract reader's `received`/`consumed` are the plain history of the op sequence -/
theorem spec_history (ops : List ROp) : ∀ {a a' : Reader} {outs : List ROut}, a.run ops = some (a', outs) →
    a'.received = a.received ++ delivered ops ∧ a'.consumed = a.consumed + consumedBy ops := by
  induction ops with
  | nil =>
    intro a a' outs h
    simp only [Reader.run, Option.some.injEq, Prod.mk.injEq] at h
    obtain ⟨rfl, _⟩ := h
    simp [delivered, consumedBy]
  | cons op ops ih =>
    intro a a' outs h
    simp only [Reader.run] at h
    split at h
    · simp at h
    · rename_i a1 o hs
      split at h
      · simp at h
      · rename_i a2 os hr
        simp only [Option.some.injEq, Prod.mk.injEq] at h
        obtain ⟨rfl, _⟩ := h
        obtain ⟨h1, h2⟩ := spec_step_history hs
        obtain ⟨h3, h4⟩ := ih hr
        rw [h3, h4, h1, h2, delivered_cons op ops, consumedBy_cons op ops]
        simp [List.append_assoc, Nat.add_assoc]

theorem transportOK_of_b (ops : List ROp) : ∀ (r : R), transportOKb r ops = true → transportOK r ops := by
  induction ops with
  | nil => intro _ _; trivial
  | cons op ops ih =>
    intro r h
    simp only [transportOKb, Bool.and_eq_true] at h
    obtain ⟨hf, hn⟩ := h
    refine ⟨?_, ?_⟩
    · cases op with
      | net ev =>
        cases ev with
        | data d =>
          intro off len min hreq
          simp only [fitsb, hreq, Bool.and_eq_true, decide_eq_true_eq] at hf
          exact hf
        | _ => trivial
      | _ => trivial
    · intro r' o e
      rw [e] at hn
      exact ih r' hn


/-- for concrete examples: the hypotheses of the property theorems from two evaluations -/
theorem hyps_of_eval {ops : List ROp} (h1 : (Reader.init.run ops).isSome = true)
    (h2 : transportOKb init ops = true) :
    (∃ a outs, Reader.init.run ops = some (a, outs)) ∧ transportOK init ops := by
  obtain ⟨⟨a, outs⟩, e⟩ := Option.isSome_iff_exists.1 h1
  exact ⟨⟨a, outs, e⟩, transportOK_of_b _ _ h2⟩

end Percival.Proofs.NetbufRead
