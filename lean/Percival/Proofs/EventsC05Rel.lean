import Percival.Proofs.EventsTmAbs
import Percival.Proofs.EventsNetKeep
/-!
# C05: the relation between the monitor's state and the model's state; immediate and socket steps (helper lemmas)
-/
set_option linter.unusedSimpArgs false
namespace Percival.Proofs.EventsC05
open Percival.Spec.Events Percival.Model.Events Percival.Model
open Percival.Proofs.EventsNet Percival.Proofs.EventsImm Percival.Proofs.EventsTQ
open Percival.Proofs.EventsC04 (TmOk TmView)

/-! ## the relation between the C05 monitor's state and the model's state -/

/-- some pollfd entry of `fd` reports direction `d`, or ERR/HUP -/
def Hot (n : Net) (fd : Nat) (d : Dir) : Prop :=
  ∃ (j : Nat) (e : PollFd), n.fds[j]? = some e ∧ e.fd = fd ∧ (e.rev.dir d = true ∨ e.rev.errhup = true)

structure RNet (nets : List C05.Net) (n : Net) : Prop where
  inv : Inv n
  ids : (nets.map (·.id)).Nodup
  iff : ∀ id fd d, (∃ rd, (⟨id, fd, d, rd⟩ : C05.Net) ∈ nets) ↔ slot n fd d = some id
  ready : ∀ x ∈ nets, x.ready = true → Hot n x.fd x.d

structure RTm (C : TQContract) (tms : List C05.Tm) (clock : Nat) (tq : TimerQueue.TQ)
    (timers : List (Nat × TimerRec)) (nextRec : Nat) : Prop where
  ok : TmOk C tq timers nextRec
  ids : (tms.map (·.id)).Nodup
  iff : ∀ id us dl, (⟨id, us, dl⟩ : C05.Tm) ∈ tms ↔ TmView tq timers id us dl
  dl : ∀ t ∈ tms, t.deadline ≤ clock + t.usec

structure Rel (C : TQContract) (m : C05.M) (s : State) : Prop where
  clock : m.clock = s.clock
  intr : m.intr = s.intr
  imm : RQ s.imm m.imms
  immIds : IdsNodup m.imms
  net : RNet m.nets s.net
  tm : RTm C m.tms m.clock s.tq s.timers s.nextRec
  disjIN : ∀ id, id ∈ m.imms.map (·.id) → id ∉ m.nets.map (·.id)
  disjIT : ∀ id, id ∈ m.imms.map (·.id) → id ∉ m.tms.map (·.id)
  disjNT : ∀ id, id ∈ m.nets.map (·.id) → id ∉ m.tms.map (·.id)
  done : m.done = s.done

/-- the part of the monitor's state that API calls do not touch -/
def Ctl (m m' : C05.M) : Prop :=
  m'.inRun = m.inRun ∧ m'.fired = m.fired ∧ m'.polled = m.polled ∧ m'.startRunnable = m.startRunnable ∧
  m'.startIntr = m.startIntr ∧ m'.mustFire = m.mustFire ∧ m'.stop = m.stop ∧ m'.looked = m.looked

theorem Ctl.refl (m : C05.M) : Ctl m m := ⟨rfl, rfl, rfl, rfl, rfl, rfl, rfl, rfl⟩

theorem dropId_of_fresh (m : C05.M) (id : Nat) (h1 : id ∉ m.imms.map (·.id)) (h2 : id ∉ m.nets.map (·.id))
    (h3 : id ∉ m.tms.map (·.id)) : C05.dropId m id = m := by
  unfold C05.dropId
  have e1 : m.imms.filter (fun x => x.id != id) = m.imms := by
    apply List.filter_eq_self.mpr
    intro x hx
    simp only [bne_iff_ne, ne_eq]
    intro hh; exact h1 (List.mem_map.mpr ⟨x, hx, hh⟩)
  have e2 : m.nets.filter (fun x => x.id != id) = m.nets := by
    apply List.filter_eq_self.mpr
    intro x hx
    simp only [bne_iff_ne, ne_eq]
    intro hh; exact h2 (List.mem_map.mpr ⟨x, hx, hh⟩)
  have e3 : m.tms.filter (fun x => x.id != id) = m.tms := by
    apply List.filter_eq_self.mpr
    intro x hx
    simp only [bne_iff_ne, ne_eq]
    intro hh; exact h3 (List.mem_map.mpr ⟨x, hx, hh⟩)
  rw [e1, e2, e3]

theorem filter_id_self {α : Type} (l : List α) (f : α → Nat) (id : Nat) (h : id ∉ l.map f) :
    l.filter (fun x => f x != id) = l := by
  apply List.filter_eq_self.mpr
  intro x hx
  simp only [bne_iff_ne, ne_eq]
  intro hh; exact h (List.mem_map.mpr ⟨x, hx, hh⟩)

/-- an id that is not registered in the model is in none of the monitor's lists -/
theorem fresh_of_not_live {C : TQContract} {m : C05.M} {s : State} (r : Rel C m s) (id : Nat)
    (h : isLive s id = false) :
    id ∉ m.imms.map (·.id) ∧ id ∉ m.nets.map (·.id) ∧ id ∉ m.tms.map (·.id) := by
  unfold isLive at h
  simp only [Bool.or_eq_false_iff, Option.isSome_eq_false_iff, Option.isNone_iff_eq_none] at h
  obtain ⟨⟨h1, h2⟩, h3⟩ := h
  refine ⟨?_, ?_, ?_⟩
  · intro hm
    obtain ⟨x, hx, hid⟩ := List.mem_map.mp hm
    have : (⟨id, x.prio⟩ : C05.Imm) ∈ m.imms := by rw [← hid]; exact hx
    exact immPrioOf_none s.imm m.imms id r.imm h1 x.prio this
  · intro hm
    obtain ⟨x, hx, hid⟩ := List.mem_map.mp hm
    have : slot s.net x.fd x.d = some id := (r.net.iff id x.fd x.d).mp ⟨x.ready, by rw [← hid]; exact hx⟩
    have hh : netHolds s.net id = true := (EventsC04.netHolds_iff s.net id).mpr ⟨x.fd, x.d, this⟩
    rw [h2] at hh; cases hh
  · intro hm
    obtain ⟨x, hx, hid⟩ := List.mem_map.mp hm
    have : TmView s.tq s.timers id x.usec x.deadline := (r.tm.iff id x.usec x.deadline).mp (by rw [← hid]; exact hx)
    obtain ⟨t, _, hmem, _⟩ := this
    exact EventsC04.timerOf_none s id h3 t hmem


theorem mem_ids_imm {l : List C05.Imm} {id : Nat} : id ∈ l.map (·.id) ↔ ∃ p, (⟨id, p⟩ : C05.Imm) ∈ l := by
  simp only [List.mem_map]
  constructor
  · rintro ⟨x, hx, rfl⟩; exact ⟨x.prio, hx⟩
  · rintro ⟨p, hp⟩; exact ⟨_, hp, rfl⟩

/-- registering an immediate -/
theorem rel_regImm {C : TQContract} {m : C05.M} {s : State} (r : Rel C m s) (id prio : Nat)
    (hl : isLive s id = false) (hp : prio < 32) :
    ∃ q' m', immRegister s.imm id prio = some q' ∧ C05.step m (.op (.regImm id prio) .ok) = .ok m' ∧
      Rel C m' { s with imm := q' } ∧ Ctl m m' := by
  obtain ⟨f1, f2, f3⟩ := fresh_of_not_live r id hl
  obtain ⟨q', heq, hq'⟩ := immRegister_rq s.imm m.imms id prio r.imm hp
  refine ⟨q', { m with imms := m.imms ++ [⟨id, prio⟩] }, heq, ?_, ?_, Ctl.refl _⟩
  · simp only [C05.step, dropId_of_fresh m id f1 f2 f3]; rfl
  · refine ⟨r.clock, r.intr, hq', ?_, r.net, r.tm, ?_, ?_, r.disjNT, r.done⟩
    · unfold IdsNodup
      rw [List.map_append, List.nodup_append]
      refine ⟨r.immIds, by simp, ?_⟩
      intro a ha b hb
      simp only [List.map_cons, List.map_nil, List.mem_singleton] at hb
      subst hb
      intro hab; subst hab; exact f1 ha
    · intro id' hid'
      show id' ∉ m.nets.map (·.id)
      have hid'' : id' ∈ (m.imms ++ [(⟨id, prio⟩ : C05.Imm)]).map (fun i : C05.Imm => i.id) := hid'
      simp only [List.map_append, List.mem_append, List.map_cons, List.map_nil, List.mem_singleton] at hid''
      rcases hid'' with h | rfl
      · exact r.disjIN id' h
      · exact f2
    · intro id' hid'
      show id' ∉ m.tms.map (·.id)
      have hid'' : id' ∈ (m.imms ++ [(⟨id, prio⟩ : C05.Imm)]).map (fun i : C05.Imm => i.id) := hid'
      simp only [List.map_append, List.mem_append, List.map_cons, List.map_nil, List.mem_singleton] at hid''
      rcases hid'' with h | rfl
      · exact r.disjIT id' h
      · exact f3

/-- removing registration `id` that is an immediate (cancelled, or taken by `events_immediate_get`) -/
theorem rel_remove_imm {C : TQContract} {m : C05.M} {s : State} (r : Rel C m s) (id p : Nat) (q' : Imm)
    (hm : (⟨id, p⟩ : C05.Imm) ∈ m.imms) (hq' : RQ q' (m.imms.filter (fun i => i.id != id))) :
    C05.dropId m id = { m with imms := m.imms.filter (fun i => i.id != id) } ∧
    Rel C { m with imms := m.imms.filter (fun i => i.id != id) } { s with imm := q' } := by
  have hin : id ∈ m.imms.map (·.id) := mem_ids_imm.mpr ⟨p, hm⟩
  have e2 := filter_id_self m.nets (·.id) id (r.disjIN id hin)
  have e3 := filter_id_self m.tms (·.id) id (r.disjIT id hin)
  refine ⟨by unfold C05.dropId; rw [e2, e3], ?_⟩
  refine ⟨r.clock, r.intr, hq', filter_idsNodup r.immIds id, r.net, r.tm, ?_, ?_, r.disjNT, r.done⟩
  · intro id' hid'
    apply r.disjIN id'
    obtain ⟨x, hx, rfl⟩ := List.mem_map.mp hid'
    exact List.mem_map.mpr ⟨x, (List.mem_filter.mp hx).1, rfl⟩
  · intro id' hid'
    apply r.disjIT id'
    obtain ⟨x, hx, rfl⟩ := List.mem_map.mp hid'
    exact List.mem_map.mpr ⟨x, (List.mem_filter.mp hx).1, rfl⟩

theorem rel_cancelImm {C : TQContract} {m : C05.M} {s : State} (r : Rel C m s) (id p : Nat)
    (hp : immPrioOf s.imm id = some p) :
    ∃ q' m', immCancel s.imm id p = some q' ∧ C05.step m (.op (.cancelImm id) .ok) = .ok m' ∧
      Rel C m' { s with imm := q' } ∧ Ctl m m' := by
  have hm := immPrioOf_some s.imm m.imms id p r.imm hp
  obtain ⟨q', heq, hq'⟩ := immCancel_rq s.imm m.imms id p r.imm r.immIds hm
  obtain ⟨hd, hr⟩ := rel_remove_imm r id p q' hm hq'
  refine ⟨q', _, heq, ?_, hr, Ctl.refl _⟩
  simp only [C05.step, hd]; rfl


/-! ### sockets -/

theorem netLive_iff {nets : List C05.Net} {n : Net} (r : RNet nets n) (m : C05.M) (hm : m.nets = nets) (fd : Nat) (d : Dir) :
    C05.netLive m fd d = true ↔ ∃ id, slot n fd d = some id := by
  unfold C05.netLive
  rw [hm, List.any_eq_true]
  constructor
  · rintro ⟨x, hx, hc⟩
    simp only [Bool.and_eq_true, beq_iff_eq] at hc
    refine ⟨x.id, (r.iff x.id fd d).mp ⟨x.ready, ?_⟩⟩
    obtain ⟨h1, h2⟩ := hc
    subst h1; subst h2; exact hx
  · rintro ⟨id, hs⟩
    obtain ⟨rd, hx⟩ := (r.iff id fd d).mpr hs
    exact ⟨_, hx, by simp⟩

theorem mem_ids_net {l : List C05.Net} {id : Nat} : id ∈ l.map (·.id) ↔ ∃ fd d rd, (⟨id, fd, d, rd⟩ : C05.Net) ∈ l := by
  simp only [List.mem_map]
  constructor
  · rintro ⟨x, hx, rfl⟩; exact ⟨x.fd, x.d, x.ready, hx⟩
  · rintro ⟨fd, d, rd, hp⟩; exact ⟨_, hp, rfl⟩

/-- an entry of a registered direction exists: needed to move `Hot` across array changes -/
theorem hot_of_kept {n n' : Net} {fd : Nat} {d : Dir}
    (hk : ∀ (j : Nat) (e : PollFd), n.fds[j]? = some e → ∃ e' : PollFd, n'.fds[j]? = some e' ∧ e'.fd = e.fd ∧ e'.rev = e.rev)
    (h : Hot n fd d) : Hot n' fd d := by
  obtain ⟨j, e, he, hfd, hh⟩ := h
  obtain ⟨e', he', hfd', hrev⟩ := hk j e he
  exact ⟨j, e', he', by rw [hfd', hfd], by rw [hrev]; exact hh⟩

theorem rel_regNet_ok {C : TQContract} {m : C05.M} {s : State} (r : Rel C m s) (id fd : Nat) (d : Dir) (n' : Net)
    (hl : isLive s id = false) (hfree : slot s.net fd d = none) (hinv : Inv n')
    (hslot : ∀ i d', slot n' i d' = if i = fd ∧ d' = d then some id else slot s.net i d')
    (hkeep : ∀ (j : Nat) (e : PollFd), s.net.fds[j]? = some e → ∃ e' : PollFd, n'.fds[j]? = some e' ∧ e'.fd = e.fd ∧ e'.rev = e.rev) :
    ∃ m', C05.step m (.op (.regNet id fd d) .ok) = .ok m' ∧ Rel C m' { s with net := n' } ∧ Ctl m m' := by
  obtain ⟨f1, f2, f3⟩ := fresh_of_not_live r id hl
  have hnl : C05.netLive m fd d = false := by
    cases h : C05.netLive m fd d with
    | false => rfl
    | true =>
      obtain ⟨id0, h0⟩ := (netLive_iff r.net m rfl fd d).mp h
      rw [hfree] at h0; cases h0
  refine ⟨{ m with nets := ⟨id, fd, d, false⟩ :: m.nets }, ?_, ?_, Ctl.refl _⟩
  · simp only [C05.step, hnl, Bool.false_eq_true, if_false, dropId_of_fresh m id f1 f2 f3]; rfl
  · refine ⟨r.clock, r.intr, r.imm, r.immIds, ⟨hinv, ?_, ?_, ?_⟩, r.tm, ?_, r.disjIT, ?_, r.done⟩
    · show (List.map (·.id) (⟨id, fd, d, false⟩ :: m.nets)).Nodup
      simp only [List.map_cons, List.nodup_cons]
      exact ⟨f2, r.net.ids⟩
    · intro id' fd' d'
      rw [hslot]
      show (∃ rd, (⟨id', fd', d', rd⟩ : C05.Net) ∈ (⟨id, fd, d, false⟩ : C05.Net) :: m.nets) ↔ _
      constructor
      · rintro ⟨rd, hx⟩
        rcases List.mem_cons.mp hx with heq | hx
        · cases heq; simp
        · have := (r.net.iff id' fd' d').mp ⟨rd, hx⟩
          have hne : ¬ (fd' = fd ∧ d' = d) := by
            rintro ⟨rfl, rfl⟩; rw [hfree] at this; cases this
          simp [hne, this]
      · intro h
        by_cases hc : fd' = fd ∧ d' = d
        · obtain ⟨rfl, rfl⟩ := hc
          simp only [and_self, if_true, Option.some.injEq] at h
          subst h
          exact ⟨false, List.mem_cons_self⟩
        · simp only [hc, if_false] at h
          obtain ⟨rd, hrd⟩ := (r.net.iff id' fd' d').mpr h
          exact ⟨rd, List.mem_cons_of_mem _ hrd⟩
    · intro x hx hrdy
      have hx' : x ∈ (⟨id, fd, d, false⟩ : C05.Net) :: m.nets := hx
      rcases List.mem_cons.mp hx' with rfl | hx'
      · cases hrdy
      · exact hot_of_kept hkeep (r.net.ready x hx' hrdy)
    · intro id' hid'
      show id' ∉ List.map (·.id) (⟨id, fd, d, false⟩ :: m.nets)
      simp only [List.map_cons, List.mem_cons, not_or]
      refine ⟨?_, r.disjIN id' hid'⟩
      intro hh; subst hh; exact f1 hid'
    · intro id' hid'
      have hid'' : id' ∈ List.map (·.id) ((⟨id, fd, d, false⟩ : C05.Net) :: m.nets) := hid'
      simp only [List.map_cons, List.mem_cons] at hid''
      rcases hid'' with rfl | h
      · exact f3
      · exact r.disjNT id' h

theorem rel_regNet_eexist {C : TQContract} {m : C05.M} {s : State} (r : Rel C m s) (id fd : Nat) (d : Dir) (id0 : Nat)
    (hs : slot s.net fd d = some id0) :
    C05.step m (.op (.regNet id fd d) .eexist) = .ok m := by
  have : C05.netLive m fd d = true := (netLive_iff r.net m rfl fd d).mpr ⟨id0, hs⟩
  simp only [C05.step, this, if_true]; rfl

theorem rel_cancelNet_enoent {C : TQContract} {m : C05.M} {s : State} (r : Rel C m s) (fd : Nat) (d : Dir)
    (hs : slot s.net fd d = none) :
    C05.step m (.op (.cancelNet fd d) .enoent) = .ok m := by
  have : C05.netLive m fd d = false := by
    cases h : C05.netLive m fd d with
    | false => rfl
    | true =>
      obtain ⟨id0, h0⟩ := (netLive_iff r.net m rfl fd d).mp h
      rw [hs] at h0; cases h0
  simp only [C05.step, this, Bool.false_eq_true, if_false]; rfl


theorem hot_dropDir (n n' : Net) (fd : Nat) (sk : Sock) (pp : Nat) (d : Dir) (h : Inv0 n)
    (hs : n.S[fd]? = some sk) (hpp : sk.pollpos = some pp) (heq : dropDir n fd sk pp d = some n')
    (fd' : Nat) (d' : Dir) (hne : ¬ (fd' = fd ∧ d' = d)) (hreg : ∃ id', slot n fd' d' = some id')
    (hh : Hot n fd' d') : Hot n' fd' d' := by
  obtain ⟨j, e, he, hfd, hhot⟩ := hh
  have hkeep : e.fd = fd → ¬ ((clearedEntry e d).ev.r = false ∧ (clearedEntry e d).ev.w = false) := by
    intro hef
    have hff : fd' = fd := by rw [← hfd, hef]
    have hdd : d' ≠ d := fun hd => hne ⟨hff, hd⟩
    obtain ⟨id', hsl⟩ := hreg
    unfold slot at hsl
    rw [hff, hs] at hsl
    simp only [Option.bind_some] at hsl
    have h4 := h.i4 j e sk he (by rw [hef]; exact hs)
    cases d <;> cases d' <;> simp_all [clearedEntry, setDir, Sock.get]
  obtain ⟨j', e', he', hfd', hee, hhh, hdir⟩ := dropDir_keeps n n' fd sk pp d h hs hpp heq j e he hkeep
  refine ⟨j', e', he', by rw [hfd', hfd], ?_⟩
  have hcond : e.fd ≠ fd ∨ d' ≠ d := by
    by_cases hef : e.fd = fd
    · right; intro hd; exact hne ⟨by rw [← hfd, hef], hd⟩
    · left; exact hef
  rcases hhot with h1 | h1
  · left; rw [hdir d' hcond]; exact h1
  · right; simp only [Bits.errhup] at *; rw [hee, hhh]; exact h1

/-- one socket registration leaves the monitor's list and its slot is dropped by `clearbit` -/
theorem rnet_drop {nets nets' : List C05.Net} {n n' : Net} (r : RNet nets n) (id fd : Nat) (d : Dir)
    (sk : Sock) (pp : Nat) (hs : n.S[fd]? = some sk) (hpp : sk.pollpos = some pp) (hget : sk.get d = some id)
    (heq : dropDir n fd sk pp d = some n') (hinv : Inv n')
    (hsub : ∀ x, x ∈ nets' ↔ x ∈ nets ∧ x.id ≠ id) (hnd : (nets'.map (·.id)).Nodup) : RNet nets' n' := by
  have hslot := dropDir_slot n n' fd sk pp d r.inv.inv0 hs hpp heq
  have hsl : slot n fd d = some id := by simp [slot, hs, hget]
  refine ⟨hinv, hnd, ?_, ?_⟩
  · intro id' fd' d'
    rw [hslot]
    constructor
    · rintro ⟨rd, hx⟩
      obtain ⟨hx1, hx2⟩ := (hsub _).mp hx
      have := (r.iff id' fd' d').mp ⟨rd, hx1⟩
      have hc : ¬ (fd' = fd ∧ d' = d) := by
        rintro ⟨rfl, rfl⟩; rw [hsl] at this; cases this; exact hx2 rfl
      simp [hc, this]
    · intro h
      by_cases hc : fd' = fd ∧ d' = d
      · simp [hc] at h
      · simp only [hc, if_false] at h
        obtain ⟨rd, hrd⟩ := (r.iff id' fd' d').mpr h
        refine ⟨rd, (hsub _).mpr ⟨hrd, ?_⟩⟩
        intro hid
        simp only at hid
        subst hid
        obtain ⟨rd0, h0⟩ := (r.iff id' fd d).mpr hsl
        have := inj_of_nodup_map (fun x : C05.Net => x.id) nets r.ids _ hrd _ h0 rfl
        simp only [C05.Net.mk.injEq, true_and] at this
        exact hc ⟨this.1, this.2.1⟩
  · intro x hx hrdy
    obtain ⟨hx1, hx2⟩ := (hsub _).mp hx
    have hreg : slot n x.fd x.d = some x.id := (r.iff x.id x.fd x.d).mp ⟨x.ready, hx1⟩
    have hne : ¬ (x.fd = fd ∧ x.d = d) := by
      rintro ⟨h1, h2⟩
      rw [h1, h2, hsl] at hreg; cases hreg; exact hx2 rfl
    exact hot_dropDir n n' fd sk pp d r.inv.inv0 hs hpp heq x.fd x.d hne ⟨_, hreg⟩ (r.ready x hx1 hrdy)

theorem netCancel_dropDir (n n' : Net) (fd : Nat) (d : Dir) (heq : netCancel n fd d = some (n', .ok)) :
    ∃ sk pp id, n.S[fd]? = some sk ∧ sk.pollpos = some pp ∧ sk.get d = some id ∧ dropDir n fd sk pp d = some n' := by
  unfold netCancel at heq
  cases hS : n.S[fd]? with
  | none => simp [hS] at heq
  | some sk =>
    simp only [hS] at heq
    cases hg : sk.get d with
    | none => simp [hg] at heq
    | some id =>
      simp only [hg, Option.isNone_some, Bool.false_eq_true, if_false] at heq
      cases hpp : sk.pollpos with
      | none => simp [hpp] at heq
      | some pp =>
        simp only [hpp, Option.map_eq_some_iff] at heq
        obtain ⟨n0, h0, h1⟩ := heq
        simp only [Prod.mk.injEq, and_true] at h1
        subst h1
        exact ⟨sk, pp, id, rfl, hpp, hg, h0⟩


theorem nodup_filter_ids {α : Type} (l : List α) (f : α → Nat) (p : α → Bool) (h : (l.map f).Nodup) :
    ((l.filter p).map f).Nodup :=
  List.Nodup.sublist (List.Sublist.map _ List.filter_sublist) h

/-- the holder of a slot is the only list element with that descriptor and direction -/
theorem holder_unique {nets : List C05.Net} {n : Net} (r : RNet nets n) (id fd : Nat) (d : Dir)
    (hs : slot n fd d = some id) (x : C05.Net) (hx : x ∈ nets) : (x.fd = fd ∧ x.d = d) ↔ x.id = id := by
  constructor
  · rintro ⟨h1, h2⟩
    have := (r.iff x.id x.fd x.d).mp ⟨x.ready, hx⟩
    rw [h1, h2, hs] at this; cases this; rfl
  · intro hid
    obtain ⟨rd0, h0⟩ := (r.iff id fd d).mpr hs
    have := inj_of_nodup_map (fun x : C05.Net => x.id) nets r.ids _ hx _ h0 hid
    rw [this]; exact ⟨rfl, rfl⟩

theorem rel_cancelNet_ok {C : TQContract} {m : C05.M} {s : State} (r : Rel C m s) (fd : Nat) (d : Dir) (n' : Net)
    (heq : netCancel s.net fd d = some (n', .ok)) (hinv : Inv n') :
    ∃ m', C05.step m (.op (.cancelNet fd d) .ok) = .ok m' ∧ Rel C m' { s with net := n' } ∧ Ctl m m' := by
  obtain ⟨sk, pp, id, hS, hpp, hget, hdrop⟩ := netCancel_dropDir s.net n' fd d heq
  have hsl : slot s.net fd d = some id := by simp [slot, hS, hget]
  have hnl : C05.netLive m fd d = true := (netLive_iff r.net m rfl fd d).mpr ⟨id, hsl⟩
  refine ⟨{ m with nets := m.nets.filter (fun n => !(n.fd == fd && n.d == d)) }, ?_, ?_, Ctl.refl _⟩
  · simp only [C05.step, hnl, if_true]; rfl
  · have hsub : ∀ x, x ∈ m.nets.filter (fun n => !(n.fd == fd && n.d == d)) ↔ x ∈ m.nets ∧ x.id ≠ id := by
      intro x
      rw [List.mem_filter]
      constructor
      · rintro ⟨hx, hc⟩
        refine ⟨hx, ?_⟩
        intro hid
        have := (holder_unique r.net id fd d hsl x hx).mpr hid
        simp [this.1, this.2] at hc
      · rintro ⟨hx, hne⟩
        refine ⟨hx, ?_⟩
        have : ¬ (x.fd = fd ∧ x.d = d) := fun hh => hne ((holder_unique r.net id fd d hsl x hx).mp hh)
        simp only [Bool.not_eq_true', Bool.and_eq_false_iff, beq_eq_false_iff_ne, ne_eq]
        by_cases h1 : x.fd = fd
        · right; exact fun h2 => this ⟨h1, h2⟩
        · left; exact h1
    refine ⟨r.clock, r.intr, r.imm, r.immIds,
      rnet_drop r.net id fd d sk pp hS hpp hget hdrop hinv hsub (nodup_filter_ids _ _ _ r.net.ids), r.tm, ?_, r.disjIT, ?_, r.done⟩
    · intro id' hid' hmem
      obtain ⟨x, hx, rfl⟩ := List.mem_map.mp hmem
      exact r.disjIN _ hid' (List.mem_map.mpr ⟨x, ((hsub x).mp hx).1, rfl⟩)
    · intro id' hmem
      obtain ⟨x, hx, rfl⟩ := List.mem_map.mp hmem
      exact r.disjNT _ (List.mem_map.mpr ⟨x, ((hsub x).mp hx).1, rfl⟩)

/-- ERR/HUP expansion during the scan keeps the relation -/
theorem hot_expanded {n n1 : Net} (hx : Expanded n n1) (h0 : Inv0 n) (fd : Nat) (d : Dir)
    (hreg : ∃ id, slot n fd d = some id) (hh : Hot n fd d) : Hot n1 fd d := by
  obtain ⟨j, e, he, hfd, hhot⟩ := hh
  obtain ⟨hjlt, _⟩ := Array.getElem?_eq_some_iff.mp he
  have hjlt1 : j < n1.fds.size := by rw [hx.size]; exact hjlt
  obtain ⟨e0, he0, hc⟩ := hx.ent j n1.fds[j] (by simp [hjlt1])
  rw [he] at he0; cases he0
  refine ⟨j, n1.fds[j], by simp [hjlt1], ?_, ?_⟩
  · rcases hc with hc | hc <;> rw [hc]
    · exact hfd
    · rw [(expand_fields e).1]; exact hfd
  · rcases hc with hc | hc <;> rw [hc]
    · exact hhot
    · -- expanded: an ERR/HUP report becomes the registered directions
      obtain ⟨id, hsl⟩ := hreg
      obtain ⟨sk, hsk, _⟩ := h0.i1b j e he
      have h4 := h0.i4 j e sk he hsk
      have hevd : e.ev.dir d = true := by
        unfold slot at hsl
        rw [← hfd, hsk] at hsl
        simp only [Option.bind_some] at hsl
        cases d <;> simp_all [Bits.dir, Sock.get]
      left
      unfold expandErrHup
      split
      · cases d <;> simp_all [Bits.dir]
      · rename_i hno
        rcases hhot with h1 | h1
        · exact h1
        · simp only [Bits.errhup] at h1; simp_all

theorem rel_net_expanded {C : TQContract} {m : C05.M} {s : State} (r : Rel C m s) (n1 : Net)
    (hx : Expanded s.net n1) (hinv : Inv n1) : Rel C m { s with net := n1 } := by
  have hslot : ∀ i d, slot n1 i d = slot s.net i d := by intro i d; unfold slot; rw [hx.S]
  refine ⟨r.clock, r.intr, r.imm, r.immIds, ⟨hinv, r.net.ids, ?_, ?_⟩, r.tm, r.disjIN, r.disjIT, r.disjNT, r.done⟩
  · intro id fd d; show _ ↔ slot n1 fd d = some id; rw [hslot]; exact r.net.iff id fd d
  · intro x hx' hrdy
    exact hot_expanded hx r.net.inv.inv0 x.fd x.d ⟨x.id, (r.net.iff x.id x.fd x.d).mp ⟨x.ready, hx'⟩⟩ (r.net.ready x hx' hrdy)

end Percival.Proofs.EventsC05
