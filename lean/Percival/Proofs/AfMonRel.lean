import Percival.Model.AfStep
import Percival.Proofs.EvRegNet
import Percival.Proofs.EvRegTimer
/-!
# C14: the relation between the state of `pmodel af` and the state of the monitor `pmodel afmon` (registry part)

`RegRel s ms`: the monitor's ideal registry `ms.reg` (`Spec.Reg`) is what is registered in the model's event layer
`s.ev` (`EvReg.registry`), the clocks agree, and the event layer satisfies the invariants its contract lemmas need
(`Proofs/EvRegNet.lean`, `Proofs/EvRegTimer.lean`).  `next s ms op` is the pair of states after the model has
answered `op` and the monitor has judged that answer; `Accepts s ms op`: the monitor accepts it.
-/
namespace Percival.Proofs.AfMonRel
open Percival.Model Percival.Model.EvReg Percival.Model.AfStep
open Percival.Spec.AfMon (Op Ans MState monStep MAXID)
open Percival.Proofs.EvRegNet (regNet NetInv)
open Percival.Proofs.EvRegTimer (regImm regTimers TmInv)

/-- the model's answer to `op`, as the monitor reads it -/
def ansOf (s : S) (op : Op) : Ans := (stepOp s op).2.ans

/-- the monitor accepts the model's answer -/
def Accepts (s : S) (ms : MState) (op : Op) : Prop := (monStep ms op (ansOf s op)).2 = none

/-- the states after the model answered and the monitor judged -/
def next (s : S) (ms : MState) (op : Op) : S × MState := ((stepOp s op).1, (monStep ms op (ansOf s op)).1)

structure RegRel (s : S) (ms : MState) : Prop where
  now : ms.now = s.now
  /-- immediate events: per priority, the ids in registration order -/
  imm : ms.reg.imm = regImm s.ev
  /-- timers: the same ids in the same order (the monitor also keeps each deadline) -/
  tm : ms.reg.timers.map (·.1) = regTimers s.ev
  /-- descriptor registrations: the same set -/
  net : ∀ fd w id, (fd, w, id) ∈ ms.reg.net ↔ (fd, w, id) ∈ regNet s.ev
  netInv : NetInv s.ev
  tmInv : TmInv s.ev s.m
  /-- an id is registered at most once: not twice as immediate event, not as immediate event and timer
  (`TmInv.nodup`: not twice as timer) -/
  immNd : (regImm s.ev).flatten.Nodup
  disj : ∀ i, i ∈ (regImm s.ev).flatten → i ∉ regTimers s.ev
  /-- ids the harness can name -/
  tmSmall : ∀ i ∈ regTimers s.ev, i < MAXID

end Percival.Proofs.AfMonRel
