import Percival.Proofs.HeapDelete
import Percival.Spec.PQ
/-!
# C13 helper lemmas, part 5: `ptrheap_create` (bottom-up heapify, then one notification each)
-/
namespace Percival.Proofs.Heap
open Percival.Model.Heap

variable (key : Nat → Int)

theorem buildLoop_size (N i : Nat) (h : Heap) : (buildLoop key N i h).a.size = h.a.size := by
  induction i generalizing h with
  | zero => rfl
  | succ i ih => simp only [buildLoop]; rw [ih, siftDown_size]

theorem buildLoop_log (N i : Nat) (h : Heap) : (buildLoop key N i h).log = h.log := by
  induction i generalizing h with
  | zero => rfl
  | succ i ih => simp only [buildLoop]; rw [ih, siftDown_log_false]

theorem buildLoop_perm (N i : Nat) (h : Heap) : (buildLoop key N i h).a.toList.Perm h.a.toList := by
  induction i generalizing h with
  | zero => exact List.Perm.refl _
  | succ i ih => simp only [buildLoop]; exact (ih _).trans (siftDown_perm key false _ _ _ _)

/-- the loop `for (i = N - 1; i < N; i--) heapify(i)` extends the ordered region downwards to 0 -/
theorem buildLoop_ordered (N i : Nat) (h : Heap) (hN : N ≤ h.a.size) (ho : OrderedFrom key h N i) :
    OrderedN key (buildLoop key N i h) N := by
  induction i generalizing h with
  | zero => exact (orderedFrom_zero key _ _).mp ho
  | succ i ih =>
    simp only [buildLoop]
    apply ih
    · rw [siftDown_size]; exact hN
    · apply siftDown_ordered key false N i N h i hN (by omega) (Nat.le_refl _)
      · intro j c q h0 hjN hl hne hc hq
        exact ho j c q h0 hjN (by omega) hc hq
      · intro c e q h0 hl; omega

theorem foldl_cons_eq (xs init : List (Nat × Nat)) :
    xs.foldl (fun l p => (p.1, p.2) :: l) init = xs.reverse ++ init := by
  induction xs generalizing init with
  | nil => rfl
  | cons p xs ih => simp [List.foldl_cons, ih]

theorem find?_unique (l : List (Nat × Nat)) (e i : Nat) (hm : (e, i) ∈ l)
    (hu : ∀ p ∈ l, p.1 = e → p = (e, i)) : l.find? (fun p => p.1 == e) = some (e, i) := by
  induction l with
  | nil => simp at hm
  | cons p l ih =>
    simp only [List.find?_cons]
    by_cases hp : p.1 = e
    · have := hu p (by simp) hp
      simp [this]
    · have hne : (p.1 == e) = false := by simpa using hp
      simp only [hne]
      apply ih
      · cases List.mem_cons.mp hm with
        | inl h => subst h; exact absurd rfl hp
        | inr h => exact h
      · intro q hq; exact hu q (List.mem_cons_of_mem _ hq)

theorem notifyAll_a (h : Heap) : (notifyAll h).a = h.a := rfl

theorem notifyAll_pos (h : Heap) (hd : ∀ i j x : Nat, h.a[i]? = some x → h.a[j]? = some x → i = j)
    (i x : Nat) (hx : h.a[i]? = some x) : posOf (notifyAll h) x = some i := by
  unfold posOf notifyAll
  simp only [foldl_cons_eq, List.find?_append]
  have hmem : (x, i) ∈ h.a.toList.zipIdx.reverse := by
    rw [List.mem_reverse, List.mem_zipIdx_iff_getElem?]
    simpa using hx
  have hu : ∀ p ∈ h.a.toList.zipIdx.reverse, p.1 = x → p = (x, i) := by
    intro p hp hpx
    rw [List.mem_reverse, List.mem_zipIdx_iff_getElem?] at hp
    have hp' : h.a[p.2]? = some x := by rw [← hpx]; simpa using hp
    have := hd p.2 i x hp' hx
    cases p; simp_all
  rw [find?_unique _ x i hmem hu]
  rfl

theorem create_eq (ptrs : List Nat) :
    create key ptrs = notifyAll (buildLoop key ptrs.length ptrs.length ⟨ptrs.toArray, []⟩) := rfl

theorem create_perm (ptrs : List Nat) : (create key ptrs).a.toList.Perm ptrs := by
  rw [create_eq, notifyAll_a]
  exact buildLoop_perm key _ _ _

/-- `ptrheap_create` on distinct pointers establishes the invariant from nothing. -/
theorem create_inv (ptrs : List Nat) (hnd : ptrs.Nodup) : Inv key (create key ptrs) := by
  have hperm := create_perm key ptrs
  have hdist : ∀ i j x : Nat, (create key ptrs).a[i]? = some x → (create key ptrs).a[j]? = some x → i = j :=
    (distinct_iff_nodup _).mpr (hperm.nodup_iff.mpr hnd)
  rw [create_eq] at hdist ⊢
  generalize hb : buildLoop key ptrs.length ptrs.length ⟨ptrs.toArray, []⟩ = hbuilt at *
  have hs : hbuilt.a.size = ptrs.length := by rw [← hb, buildLoop_size]; simp
  have ho : OrderedN key hbuilt ptrs.length := by
    rw [← hb]
    apply buildLoop_ordered key _ _ _ (by simp)
    intro i c q h0 hiN hl; omega
  constructor
  · exact hdist
  · intro i x hx
    exact notifyAll_pos hbuilt hdist i x hx
  · intro i c q h0 hc hq
    rw [notifyAll_a] at hc hq
    exact ho i c q h0 (by have := lt_of_get hc; omega) hc hq

/-! ## `getmin` -/

open Percival.Spec in
theorem getmin_isLeast (h : Heap) (e : Nat) (hi : Inv key h) (hg : getmin h = some e) :
    PQ.IsLeast key h.a.toList e := by
  unfold getmin at hg
  constructor
  · rw [Array.mem_toList_iff, Array.mem_iff_getElem?]; exact ⟨0, hg⟩
  · intro x hx
    rw [Array.mem_toList_iff, Array.mem_iff_getElem?] at hx
    obtain ⟨i, hx⟩ := hx
    exact root_le key h h.a.size (hi.orderedN key _) (Nat.le_refl _) i x e (lt_of_get hx) hx hg

theorem getmin_none_iff (h : Heap) : getmin h = none ↔ h.a.toList = [] := by
  unfold getmin
  rw [Array.getElem?_eq_none_iff]
  constructor
  · intro hs
    have : h.a.size = 0 := by omega
    have : h.a = #[] := Array.eq_empty_of_size_eq_zero this
    rw [this]
  · intro hs
    have : h.a.toList.length = 0 := by rw [hs]; rfl
    rw [Array.length_toList] at this
    omega

/-! ## The contract of `increase`/`decrease`/`increasemin`: the key of one element has changed -/

theorem inv_key_congr (key' : Nat → Int) (h : Heap) (hi : Inv key h)
    (hsame : ∀ i x : Nat, h.a[i]? = some x → key' x = key x) : Inv key' h where
  distinct := hi.distinct
  handles := hi.handles
  ordered := by
    intro i c q h0 hc hq
    rw [hsame _ _ hc, hsame _ _ hq]; exact hi.ordered i c q h0 hc hq

/-- after the key of the element in slot `rc` has grown, the heap is ordered except below `rc` -/
theorem increase_pre_of_key (key0 : Nat → Int) (h : Heap) (rc e : Nat) (hi : Inv key0 h)
    (he : h.a[rc]? = some e) (hsame : ∀ x, x ≠ e → key x = key0 x) (hge : key0 e ≤ key e) :
    OrderedBelowExcept key h h.a.size 0 rc ∧ ParentOK key h h.a.size 0 rc := by
  constructor
  · intro i c q h0 _ _ hpar hc hq
    have hqe : q ≠ e := fun heq => hpar (hi.distinct _ _ e (heq ▸ hq) he)
    have := hi.ordered i c q h0 hc hq
    rw [hsame q hqe]
    by_cases hce : c = e
    · subst hce; omega
    · rw [hsame c hce]; exact this
  · intro c e' q h0 _ _ hc0 hpar he' hq
    have hqe : q ≠ e := by
      intro heq; have := hi.distinct _ _ e (heq ▸ hq) he; omega
    have hee : e' ≠ e := by
      intro heq; have := hi.distinct _ _ e (heq ▸ he') he; omega
    rw [hsame q hqe, hsame e' hee]
    have e1 := hi.ordered c e' e hc0 he' (by rw [hpar]; exact he)
    have e2 := hi.ordered rc e q h0 he hq
    omega

/-- after the key of the element in slot `rc` has shrunk, the heap is ordered except at `rc` upward -/
theorem decrease_pre_of_key (key0 : Nat → Int) (h : Heap) (rc e : Nat) (hi : Inv key0 h)
    (he : h.a[rc]? = some e) (hsame : ∀ x, x ≠ e → key x = key0 x) (hle : key e ≤ key0 e) :
    OrderedExcept key h h.a.size rc ∧ GrandOK key h h.a.size rc := by
  constructor
  · intro i c q h0 _ hne hc hq
    have hce : c ≠ e := fun heq => hne (hi.distinct _ _ e (heq ▸ hc) he)
    have := hi.ordered i c q h0 hc hq
    rw [hsame c hce]
    by_cases hqe : q = e
    · subst hqe; omega
    · rw [hsame q hqe]; exact this
  · intro c e' q h0 hc0 _ hpar he' hq
    have hqe : q ≠ e := by
      intro heq; have := hi.distinct _ _ e (heq ▸ hq) he; omega
    have hee : e' ≠ e := by
      intro heq; have := hi.distinct _ _ e (heq ▸ he') he; omega
    rw [hsame q hqe, hsame e' hee]
    have e1 := hi.ordered c e' e hc0 he' (by rw [hpar]; exact he)
    have e2 := hi.ordered rc e q h0 he hq
    omega

theorem increase_inv_key (key0 : Nat → Int) (h h' : Heap) (rc e : Nat) (hi : Inv key0 h)
    (he : h.a[rc]? = some e) (hsame : ∀ x, x ≠ e → key x = key0 x) (hge : key0 e ≤ key e)
    (hr : increase key h rc = some h') : Inv key h' :=
  have hpre := increase_pre_of_key key key0 h rc e hi he hsame hge
  increase_inv key h h' rc hi.distinct hi.handles hpre.1 hpre.2 hr

theorem decrease_inv_key (key0 : Nat → Int) (h h' : Heap) (rc e : Nat) (hi : Inv key0 h)
    (he : h.a[rc]? = some e) (hsame : ∀ x, x ≠ e → key x = key0 x) (hle : key e ≤ key0 e)
    (hr : decrease key h rc = some h') : Inv key h' :=
  have hpre := decrease_pre_of_key key key0 h rc e hi he hsame hle
  decrease_inv key h h' rc hi.distinct hi.handles hpre.1 hpre.2 hr

theorem increasemin_inv_key (key0 : Nat → Int) (h : Heap) (e : Nat) (hi : Inv key0 h)
    (he : h.a[0]? = some e) (hsame : ∀ x, x ≠ e → key x = key0 x) (hge : key0 e ≤ key e) :
    Inv key (increasemin key h) :=
  increasemin_inv key h hi.distinct hi.handles (increase_pre_of_key key key0 h 0 e hi he hsame hge).1

/-- the position most recently reported for a live element identifies exactly that element -/
theorem handle_iff (h : Heap) (hi : Inv key h) (e rc : Nat) (he : e ∈ h.a.toList) :
    posOf h e = some rc ↔ h.a[rc]? = some e := by
  obtain ⟨i, hie⟩ := (Array.mem_iff_getElem?.mp (Array.mem_toList_iff.mp he))
  have hp := hi.handles i e hie
  constructor
  · intro h1; rw [hp] at h1; cases h1; exact hie
  · intro h1; exact hi.handles rc e h1

end Percival.Proofs.Heap
