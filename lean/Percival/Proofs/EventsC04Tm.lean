import Percival.Proofs.EventsC04Rel
/-!
# C04: timer steps keep the monitor/model relation (helper lemmas; uses the C13 timer-queue contract)
-/
set_option linter.unusedSimpArgs false
namespace Percival.Proofs.EventsC04
open Percival.Spec.Events Percival.Spec.Events.C04 Percival.Model.Events Percival.Model
open Percival.Proofs.EventsNet Percival.Proofs.EventsImm Percival.Proofs.EventsLive Percival.Proofs.EventsTQ

/-! ### timers -/

theorem tq_lookup_cons (recs : List (Nat × TimerQueue.Rec)) (r r' : Nat) (x : TimerQueue.Rec) :
    TimerQueue.lookup ((r, x) :: recs) r' = if r' = r then some x else TimerQueue.lookup recs r' := by
  unfold TimerQueue.lookup
  simp only [List.find?_cons]
  by_cases h : r' = r
  · subst h; simp
  · have : (r == r') = false := by simp; exact fun hh => h hh.symm
    simp [this, h]

theorem perm_filter_key {β : Type} : ∀ (l : List (Nat × β)) (k : Nat) (v : β), (l.map (·.1)).Nodup → (k, v) ∈ l →
    l.Perm ((k, v) :: l.filter (fun p => p.1 != k)) := by
  intro l
  induction l with
  | nil => intro k v _ h; simp at h
  | cons a as ih =>
    intro k v hnd hm
    simp only [List.map_cons, List.nodup_cons, List.mem_map, not_exists, not_and] at hnd
    rcases List.mem_cons.mp hm with h | h
    · subst h
      have : as.filter (fun p => p.1 != k) = as := by
        apply List.filter_eq_self.mpr
        intro x hx
        have := hnd.1 x hx
        simp only [bne_iff_ne, ne_eq]
        exact this
      simp [List.filter_cons, this]
    · have hak : a.1 ≠ k := fun hh => hnd.1 (k, v) h (by simp [hh])
      have hb : (a.1 != k) = true := by simp [hak]
      simp only [List.filter_cons, hb, if_true]
      exact (List.Perm.cons a (ih k v hnd.2 h)).trans (List.Perm.swap _ _ _)

theorem mem_filter_key {β : Type} (l : List (Nat × β)) (k : Nat) (p : Nat × β) :
    p ∈ l.filter (fun q => q.1 != k) ↔ p ∈ l ∧ p.1 ≠ k := by
  simp [List.mem_filter]

/-- removing timer `id` (by cancel or because it fired): the queue record is gone and the rest is intact -/
theorem tmOk_remove {C : TQContract} {tq tq' : TimerQueue.TQ} {timers : List (Nat × TimerRec)} {nextRec : Nat}
    (h : TmOk C tq timers nextRec) (id : Nat) (t : TimerRec) (hm : (id, t) ∈ timers)
    (hinv : C.TQInv tq') (hperm : tq.h.a.toList.Perm (t.qrec :: tq'.h.a.toList)) (hrecs : tq'.recs = tq.recs) :
    TmOk C tq' (timers.filter (fun p => p.1 != id)) nextRec := by
  have hp := perm_filter_key timers id t h.keys hm
  have hpq : (timers.map (·.2.qrec)).Perm (t.qrec :: (timers.filter (fun p => p.1 != id)).map (·.2.qrec)) := by
    have := hp.map (fun p : Nat × TimerRec => p.2.qrec)
    simpa using this
  refine ⟨hinv, ?_, ?_, ?_, ?_, ?_⟩
  · exact List.Nodup.sublist (List.Sublist.map _ List.filter_sublist) h.keys
  · exact List.Nodup.sublist (List.Sublist.map _ List.filter_sublist) h.recsNd
  · exact List.Perm.cons_inv ((hperm.symm.trans h.perm).trans hpq)
  · intro p hp'; exact h.fresh p ((mem_filter_key _ _ _).mp hp').1
  · intro p hp'; rw [hrecs]; exact h.bound p ((mem_filter_key _ _ _).mp hp').1

theorem tmView_remove {tq tq' : TimerQueue.TQ} {timers : List (Nat × TimerRec)}
    (hrecs : tq'.recs = tq.recs) (id id' us dl : Nat) :
    TmView tq' (timers.filter (fun p => p.1 != id)) id' us dl ↔ id' ≠ id ∧ TmView tq timers id' us dl := by
  unfold TmView
  rw [hrecs]
  constructor
  · rintro ⟨t, x, hm, rest⟩
    obtain ⟨hm1, hm2⟩ := (mem_filter_key _ _ _).mp hm
    exact ⟨hm2, t, x, hm1, rest⟩
  · rintro ⟨hne, t, x, hm, rest⟩
    exact ⟨t, x, (mem_filter_key _ _ _).mpr ⟨hm, hne⟩, rest⟩

theorem qrec_mem_heap {C : TQContract} {tq : TimerQueue.TQ} {timers : List (Nat × TimerRec)} {nextRec : Nat}
    (h : TmOk C tq timers nextRec) (id : Nat) (t : TimerRec) (hm : (id, t) ∈ timers) : t.qrec ∈ tq.h.a.toList := by
  rw [h.perm.mem_iff]
  exact List.mem_map.mpr ⟨(id, t), hm, rfl⟩

/-- the rest of the relation when registration `id` (a timer) leaves the table -/
theorem rel_remove_timer {C : TQContract} {m : M} {s : State} (r : Rel C m s) (id us dl : Nat) (t : TimerRec)
    (hl : lookup m.live id = some (.timer us dl)) (hm : (id, t) ∈ s.timers) (tq' : TimerQueue.TQ)
    (hinv : C.TQInv tq') (hperm : s.tq.h.a.toList.Perm (t.qrec :: tq'.h.a.toList)) (hrecs : tq'.recs = s.tq.recs) :
    Rel C { m with live := remove m.live id } { s with tq := tq', timers := s.timers.filter (fun p => p.1 != id) } := by
  refine ⟨keys_remove _ _ r.keys, r.clock, ?_, ?_, ?_⟩
  · apply RImm.congr _ r.imm
    intro id' p
    rw [lookup_remove_iff]
    constructor
    · exact fun h => h.2
    · intro h; refine ⟨?_, h⟩
      intro hid; subst hid; rw [hl] at h; cases h
  · apply RNet.congr _ r.net
    intro id' fd d rs
    rw [lookup_remove_iff]
    constructor
    · exact fun h => h.2
    · intro h; refine ⟨?_, h⟩
      intro hid; subst hid; rw [hl] at h; cases h
  · refine ⟨tmOk_remove r.tm.ok id t hm hinv hperm hrecs, ?_, ?_⟩
    · intro id' us' dl'
      rw [lookup_remove_iff, tmView_remove hrecs, r.tm.iff]
    · intro id' us' dl' h
      exact r.tm.dl id' us' dl' ((lookup_remove_iff _ _ _ _).mp h).2

theorem rel_cancelTimer {C : TQContract} {m : M} {s : State} (r : Rel C m s) (id : Nat) (t : TimerRec)
    (ht : timerOf s id = some t) :
    ∃ q', TimerQueue.delete s.tq t.qrec = some q' ∧
      Rel C { m with live := remove m.live id } { s with tq := q', timers := s.timers.filter (fun p => p.1 != id) } := by
  have hm := timerOf_some_mem s id t ht
  obtain ⟨x, hx, _, h1, h2, _, h4, h5, _⟩ := r.tm.ok.bound (id, t) hm
  simp only at hx h4 h5
  have hview : TmView s.tq s.timers id (t.osec * 1000000 + t.ousec).toNat (x.sec * 1000000 + x.usec).toNat := by
    refine ⟨t, x, hm, hx, ?_, ?_⟩ <;> omega
  have hl := (r.tm.iff id _ _).mpr hview
  obtain ⟨q', hd, hinv, hperm, hrecs⟩ := C.delete s.tq t.qrec r.tm.ok.inv (qrec_mem_heap r.tm.ok id t hm)
  exact ⟨q', hd, rel_remove_timer r id _ _ t hl hm q' hinv hperm hrecs⟩

/-- `events_timer_get` released timer `id`: it is due, and the monitor accepts `cb id` -/
theorem rel_timerGet_some {C : TQContract} {m : M} {s : State} (r : Rel C m s) (q' : TimerQueue.TQ) (rr id : Nat)
    (hg : TimerQueue.getptr s.tq ((s.clock / 1000000 : Nat) : Int) ((s.clock % 1000000 : Nat) : Int) = (q', some (rr, id))) :
    ∃ m', C04.step m (.cb id) = .ok m' ∧
      Rel C m' { s with tq := q', timers := s.timers.filter (fun p => p.1 != id) } := by
  have hc := C.getptr s.tq ((s.clock / 1000000 : Nat) : Int) ((s.clock % 1000000 : Nat) : Int) r.tm.ok.inv
  rw [hg] at hc
  obtain ⟨hleast, hkey, ⟨x, hx, hp⟩, hinv, hperm, hrecs⟩ := hc
  -- the record belongs to a registration
  have hrm : rr ∈ s.timers.map (·.2.qrec) := (r.tm.ok.perm.mem_iff).mp hleast.1
  obtain ⟨⟨id0, t⟩, hm, hq⟩ := List.mem_map.mp hrm
  simp only at hq
  obtain ⟨x', hx', hptr, h1, h2, h3, h4, h5, h6⟩ := r.tm.ok.bound (id0, t) hm
  simp only at hx' hptr h4 h5 h6
  rw [hq, hx] at hx'; cases hx'
  have hid : id = id0 := by rw [hp, hptr]
  subst hid
  have hview : TmView s.tq s.timers id (t.osec * 1000000 + t.ousec).toNat (x.sec * 1000000 + x.usec).toNat :=
    ⟨t, x, hm, by rw [hq]; exact hx, by omega, by omega⟩
  have hl := (r.tm.iff id _ _).mpr hview
  have hdue : m.clock ≥ (x.sec * 1000000 + x.usec).toNat := by
    have hk : TimerQueue.key s.tq.recs rr = TimerQueue.tvKey x.sec x.usec := by
      unfold TimerQueue.key; rw [hx]
    rw [hk, tvKey_le _ _ _ _ h2 h3 (by omega) (by omega)] at hkey
    rw [r.clock]
    omega
  refine ⟨{ m with live := remove m.live id }, ?_, ?_⟩
  · simp only [C04.step, hl]
    have : (decide (m.clock ≥ (x.sec * 1000000 + x.usec).toNat)) = true := by simpa using hdue
    simp only [ge_iff_le] at this ⊢
    simp [hdue]
    rfl
  · exact rel_remove_timer r id _ _ t hl hm q' hinv (by rw [hq]; exact hperm) hrecs


theorem lookup_replace (live : List (Nat × Reg)) (id : Nat) (r : Reg) (id' : Nat) (reg : Reg) :
    lookup ((id, r) :: remove live id) id' = some reg ↔ (id' = id ∧ reg = r) ∨ (id' ≠ id ∧ lookup live id' = some reg) := by
  rw [lookup_cons]
  by_cases hi : id' = id
  · subst hi; simp; exact eq_comm
  · simp [hi, lookup_remove]

/-- registering a timer -/
theorem rel_regTimer {C : TQContract} {m : M} {s : State} (r : Rel C m s) (id usec : Nat) (sec us : Int)
    (hl : isLive s id = false)
    (hgt : gettimeout s.clock ((usec / 1000000 : Nat) : Int) ((usec % 1000000 : Nat) : Int) = (sec, us)) :
    Rel C { m with live := (id, .timer usec (m.clock + usec)) :: remove m.live id }
      { s with tq := TimerQueue.add s.tq s.nextRec sec us id,
               timers := (id, { qrec := s.nextRec, osec := ((usec / 1000000 : Nat) : Int), ousec := ((usec % 1000000 : Nat) : Int) }) :: s.timers,
               nextRec := s.nextRec + 1 } := by
  have hnone := lookup_none_of_not_live r id hl
  have hsp := gettimeout_spec s.clock ((usec / 1000000 : Nat) : Int) ((usec % 1000000 : Nat) : Int) (by omega) (by omega) (by omega)
  rw [hgt] at hsp
  simp only at hsp
  obtain ⟨hsum, hs0, hu0, hu1⟩ := hsp
  have hfreshHeap : s.nextRec ∉ s.tq.h.a.toList := by
    intro hmem
    rw [r.tm.ok.perm.mem_iff] at hmem
    obtain ⟨p, hp, hpe⟩ := List.mem_map.mp hmem
    have := r.tm.ok.fresh p hp
    omega
  obtain ⟨hinv, hperm, hrecs⟩ := C.add s.tq s.nextRec sec us id r.tm.ok.inv hfreshHeap
  have hnotimer : ∀ t, (id, t) ∉ s.timers := by
    unfold isLive at hl
    simp only [Bool.or_eq_false_iff, Option.isSome_eq_false_iff, Option.isNone_iff_eq_none] at hl
    exact timerOf_none s id hl.2
  refine ⟨keys_cons_remove _ _ _ r.keys, r.clock, ?_, ?_, ?_⟩
  · apply RImm.congr _ r.imm
    intro id' p
    rw [lookup_insert_fresh _ _ _ hnone]
    constructor
    · rintro (⟨_, h2⟩ | h)
      · cases h2
      · exact h
    · exact Or.inr
  · apply RNet.congr _ r.net
    intro id' fd d rs
    rw [lookup_insert_fresh _ _ _ hnone]
    constructor
    · rintro (⟨_, h2⟩ | h)
      · cases h2
      · exact h
    · exact Or.inr
  · refine ⟨⟨hinv, ?_, ?_, ?_, ?_, ?_⟩, ?_, ?_⟩
    · simp only [List.map_cons, List.nodup_cons]
      refine ⟨?_, r.tm.ok.keys⟩
      intro hmem
      obtain ⟨p, hp, hpe⟩ := List.mem_map.mp hmem
      exact hnotimer p.2 (by rw [← hpe]; exact hp)
    · simp only [List.map_cons, List.nodup_cons]
      refine ⟨?_, r.tm.ok.recsNd⟩
      intro hmem
      obtain ⟨p, hp, hpe⟩ := List.mem_map.mp hmem
      have := r.tm.ok.fresh p hp
      omega
    · simp only [List.map_cons]
      exact hperm.trans (List.Perm.cons _ r.tm.ok.perm)
    · intro p hp
      rcases List.mem_cons.mp hp with rfl | hp
      · show s.nextRec < s.nextRec + 1; omega
      · have := r.tm.ok.fresh p hp
        show p.2.qrec < s.nextRec + 1; omega
    · intro p hp
      rw [hrecs]
      rcases List.mem_cons.mp hp with rfl | hp
      · refine ⟨⟨sec, us, id⟩, by simp [tq_lookup_cons], rfl, hs0, hu0, hu1, by simp only; omega, by simp only; omega, by simp only; omega⟩
      · obtain ⟨x, hx, rest⟩ := r.tm.ok.bound p hp
        refine ⟨x, ?_, rest⟩
        rw [tq_lookup_cons]
        have := r.tm.ok.fresh p hp
        have hne : ¬ p.2.qrec = s.nextRec := by omega
        simp [hne, hx]
    · intro id' us' dl'
      rw [lookup_insert_fresh _ _ _ hnone, r.tm.iff]
      unfold TmView
      rw [hrecs]
      constructor
      · rintro (⟨rfl, h2⟩ | ⟨t, x, hm, hx, h1, h2⟩)
        · cases h2
          refine ⟨_, ⟨sec, us, id'⟩, List.mem_cons_self, by simp [tq_lookup_cons], ?_, ?_⟩
          · simp only; rw [hsum, r.clock]; omega
          · simp only; omega
        · refine ⟨t, x, List.mem_cons_of_mem _ hm, ?_, h1, h2⟩
          rw [tq_lookup_cons]
          have := r.tm.ok.fresh _ hm
          have hne : ¬ t.qrec = s.nextRec := by simp only at this; omega
          simp [hne, hx]
      · rintro ⟨t, x, hm, hx, h1, h2⟩
        rcases List.mem_cons.mp hm with heq | hm
        · left
          simp only [Prod.mk.injEq] at heq
          obtain ⟨rfl, rfl⟩ := heq
          simp only [tq_lookup_cons, if_true, Option.some.injEq] at hx
          subst hx
          simp only at h1 h2
          refine ⟨rfl, ?_⟩
          have e1 : us' = usec := by omega
          have e2 : dl' = m.clock + usec := by rw [r.clock]; omega
          rw [e1, e2]
        · right
          refine ⟨t, x, hm, ?_, h1, h2⟩
          rw [tq_lookup_cons] at hx
          have := r.tm.ok.fresh _ hm
          have hne : ¬ t.qrec = s.nextRec := by simp only at this; omega
          simpa [hne] using hx
    · intro id' us' dl' h
      rw [lookup_insert_fresh _ _ _ hnone] at h
      rcases h with ⟨_, h2⟩ | h
      · cases h2; exact Nat.le_refl _
      · exact r.tm.dl id' us' dl' h


/-- resetting a timer: the deadline moves to now + the original timeout (never backwards) -/
theorem rel_resetTimer {C : TQContract} {m : M} {s : State} (r : Rel C m s) (id : Nat) (t : TimerRec) (sec us : Int)
    (ht : timerOf s id = some t) (hgt : gettimeout s.clock t.osec t.ousec = (sec, us)) :
    ∃ q' us0 dl0, TimerQueue.increase s.tq t.qrec sec us = some q' ∧ lookup m.live id = some (.timer us0 dl0) ∧
      Rel C { m with live := (id, .timer us0 (m.clock + us0)) :: remove m.live id } { s with tq := q' } := by
  have hm := timerOf_some_mem s id t ht
  obtain ⟨x, hx, hptr, h1, h2, h3, h4, h5, h6⟩ := r.tm.ok.bound (id, t) hm
  simp only at hx hptr h4 h5 h6
  have hview : TmView s.tq s.timers id (t.osec * 1000000 + t.ousec).toNat (x.sec * 1000000 + x.usec).toNat := by
    refine ⟨t, x, hm, hx, ?_, ?_⟩ <;> omega
  have hl := (r.tm.iff id _ _).mpr hview
  have hdl := r.tm.dl id _ _ hl
  have hsp := gettimeout_spec s.clock t.osec t.ousec h4 h5 h6
  rw [hgt] at hsp
  simp only at hsp
  obtain ⟨hsum, hs0, hu0, hu1⟩ := hsp
  have hge : TimerQueue.tvKey x.sec x.usec ≤ TimerQueue.tvKey sec us := by
    rw [tvKey_le _ _ _ _ h2 h3 hu0 hu1, hsum]
    rw [r.clock] at hdl
    omega
  obtain ⟨q', hinc, hinv, hperm, hrecs⟩ :=
    C.increase s.tq t.qrec sec us x r.tm.ok.inv (qrec_mem_heap r.tm.ok id t hm) hx hge
  refine ⟨q', _, _, hinc, hl, ?_⟩
  refine ⟨keys_cons_remove _ _ _ r.keys, r.clock, ?_, ?_, ?_⟩
  · apply RImm.congr _ r.imm
    intro id' p
    rw [lookup_replace]
    constructor
    · rintro (⟨_, h2⟩ | h)
      · cases h2
      · exact h.2
    · intro h; right; refine ⟨?_, h⟩
      intro hid; subst hid; rw [hl] at h; cases h
  · apply RNet.congr _ r.net
    intro id' fd d rs
    rw [lookup_replace]
    constructor
    · rintro (⟨_, h2⟩ | h)
      · cases h2
      · exact h.2
    · intro h; right; refine ⟨?_, h⟩
      intro hid; subst hid; rw [hl] at h; cases h
  · -- every other timer's record is untouched; this one keeps its pointer and gets the new time
    have hother : ∀ p ∈ s.timers, p.2.qrec = t.qrec → p = (id, t) := by
      intro p hp hq
      exact inj_of_nodup_map (fun p : Nat × TimerRec => p.2.qrec) s.timers r.tm.ok.recsNd p hp (id, t) hm hq
    refine ⟨⟨hinv, r.tm.ok.keys, r.tm.ok.recsNd, hperm.trans r.tm.ok.perm, r.tm.ok.fresh, ?_⟩, ?_, ?_⟩
    · intro p hp
      rw [hrecs, tq_lookup_cons]
      by_cases hq : p.2.qrec = t.qrec
      · have := hother p hp hq; subst this
        simp only [if_true]
        exact ⟨_, rfl, hptr, hs0, hu0, hu1, h4, h5, h6⟩
      · simp only [hq, if_false]; exact r.tm.ok.bound p hp
    · intro id' us' dl'
      rw [lookup_replace, r.tm.iff]
      unfold TmView
      rw [hrecs]
      constructor
      · rintro (⟨rfl, h2⟩ | ⟨hne, t', x', hm', hx', e1, e2⟩)
        · cases h2
          refine ⟨t, { x with sec := sec, usec := us }, hm, by simp [tq_lookup_cons], ?_, ?_⟩
          · simp only; rw [hsum, r.clock]; omega
          · omega
        · refine ⟨t', x', hm', ?_, e1, e2⟩
          rw [tq_lookup_cons]
          have hq : ¬ t'.qrec = t.qrec := by
            intro hq
            have := hother _ hm' hq
            simp only [Prod.mk.injEq] at this
            exact hne this.1
          simp [hq, hx']
      · rintro ⟨t', x', hm', hx', e1, e2⟩
        by_cases hid : id' = id
        · left
          subst hid
          have htt : t' = t := by
            have := inj_of_nodup_map (fun p : Nat × TimerRec => p.1) s.timers r.tm.ok.keys _ hm' _ hm rfl
            simp only [Prod.mk.injEq, true_and] at this; exact this
          subst htt
          simp only [tq_lookup_cons, if_true, Option.some.injEq] at hx'
          subst hx'
          simp only at e1
          refine ⟨rfl, ?_⟩
          have a1 : us' = (t'.osec * 1000000 + t'.ousec).toNat := by omega
          have a2 : dl' = m.clock + (t'.osec * 1000000 + t'.ousec).toNat := by rw [r.clock]; omega
          rw [a1, a2]
        · right
          refine ⟨hid, t', x', hm', ?_, e1, e2⟩
          rw [tq_lookup_cons] at hx'
          have hq : ¬ t'.qrec = t.qrec := by
            intro hq
            have := hother _ hm' hq
            simp only [Prod.mk.injEq] at this
            exact hid this.1
          simpa [hq] using hx'
    · intro id' us' dl' h
      rw [lookup_replace] at h
      rcases h with ⟨_, h2⟩ | h
      · cases h2; exact Nat.le_refl _
      · exact r.tm.dl id' us' dl' h.2

end Percival.Proofs.EventsC04
