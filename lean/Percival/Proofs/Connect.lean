import Percival.Model.Connect
/-! Helper lemmas for C06 (connect): the stepwise model equals a one-pass reference, which is
    then characterised by the specification `firstSuccess`. -/
namespace Percival.Proofs.Connect
open Percival.Model.Connect

/-- one-pass reference: everything the attempt does, start to end -/
def runAll (timeo : Bool) : List AddrOutcome → (idx fd : Nat) → List Ev
  | [], _, _ => [.cb (-1)]
  | .failNow :: rest, idx, fd => .sock fd idx :: .close fd :: runAll timeo rest (idx + 1) (fd + 1)
  | .success :: _, idx, fd => [.sock fd idx, .cb fd]
  | .asyncFail :: rest, idx, fd => .sock fd idx :: .close fd :: runAll timeo rest (idx + 1) (fd + 1)
  | .hang :: rest, idx, fd =>
      if timeo then .sock fd idx :: .close fd :: runAll timeo rest (idx + 1) (fd + 1)
      else [.sock fd idx]

theorem stepwise_eq_runAll (timeo : Bool) (addrs : List AddrOutcome) (idx fd fuel : Nat)
    (hf : addrs.length + 1 ≤ fuel) :
    (tryconnect addrs idx fd).1 ++ (spin timeo fuel (tryconnect addrs idx fd).2.1 (tryconnect addrs idx fd).2.2).1
      = runAll timeo addrs idx fd := by
  induction addrs generalizing idx fd fuel with
  | nil =>
    cases fuel with
    | zero => simp at hf
    | succ f => simp [tryconnect, spin, runAll]
  | cons a rest ih =>
    cases fuel with
    | zero => simp at hf
    | succ f =>
      have hf' : rest.length + 1 ≤ f := by simp at hf; omega
      cases a with
      | failNow =>
        simp only [tryconnect, runAll, List.cons_append]
        rw [ih (idx + 1) (fd + 1) (f + 1) (by omega)]
      | success => simp [tryconnect, spin, runAll]
      | asyncFail =>
        simp only [tryconnect, spin, runAll, List.cons_append, List.nil_append]
        rw [ih (idx + 1) (fd + 1) f hf']
      | hang =>
        cases timeo with
        | true =>
          simp only [tryconnect, spin, runAll, if_true, List.cons_append, List.nil_append]
          rw [ih (idx + 1) (fd + 1) f hf']
        | false => simp [tryconnect, spin, runAll]

theorem run_eq_runAll (timeo : Bool) (addrs : List AddrOutcome) (fd : Nat) :
    (run timeo addrs fd).1 = runAll timeo addrs 0 fd := by
  unfold run
  exact stepwise_eq_runAll timeo addrs 0 fd (addrs.length + 1) (Nat.le_refl _)

/-- callback values in a trace -/
def cbs : List Ev → List Int
  | [] => []
  | .cb v :: r => v :: cbs r
  | _ :: r => cbs r

/-- descriptors still open after a trace (opened and not closed), oldest first -/
def stillOpen : List Ev → List Nat → List Nat
  | [], acc => acc
  | .sock fd _ :: r, acc => stillOpen r (acc ++ [fd])
  | .close fd :: r, acc => stillOpen r (acc.erase fd)
  | .cb _ :: r, acc => stillOpen r acc

/-- the (descriptor, address index) pairs in the order the sockets were created -/
def socks : List Ev → List (Nat × Nat)
  | [] => []
  | .sock fd idx :: r => (fd, idx) :: socks r
  | _ :: r => socks r

theorem cbs_runAll (timeo : Bool) (addrs : List AddrOutcome) (idx fd : Nat) :
    cbs (runAll timeo addrs idx fd) =
      match firstSuccess timeo addrs idx with
      | some (some i) => [((fd + (i - idx) : Nat) : Int)]
      | some none => [-1]
      | none => [] := by
  induction addrs generalizing idx fd with
  | nil => simp [runAll, cbs, firstSuccess]
  | cons a rest ih =>
    have hshift : ∀ r : Option (Option Nat), firstSuccess timeo rest (idx + 1) = r →
        (match r with
          | some (some i) => [((fd + 1 + (i - (idx + 1)) : Nat) : Int)]
          | some none => [-1]
          | none => []) =
        (match r with
          | some (some i) => [((fd + (i - idx) : Nat) : Int)]
          | some none => [-1]
          | none => ([] : List Int)) ∨ ∃ i, r = some (some i) ∧ i ≤ idx := by
      intro r _
      cases r with
      | none => exact Or.inl rfl
      | some o => cases o with
        | none => exact Or.inl rfl
        | some i =>
          by_cases h : i ≤ idx
          · exact Or.inr ⟨i, rfl, h⟩
          · refine Or.inl ?_
            simp only
            have : fd + 1 + (i - (idx + 1)) = fd + (i - idx) := by omega
            rw [this]
    -- indices reported by firstSuccess are ≥ the starting index
    have hge : ∀ (l : List AddrOutcome) (j i : Nat), firstSuccess timeo l j = some (some i) → j ≤ i := by
      intro l
      induction l with
      | nil => intro j i h; simp [firstSuccess] at h
      | cons b l ihl =>
        intro j i h
        cases b with
        | success => simp [firstSuccess] at h; omega
        | failNow => have := ihl (j + 1) i (by simpa [firstSuccess] using h); omega
        | asyncFail => have := ihl (j + 1) i (by simpa [firstSuccess] using h); omega
        | hang =>
          cases timeo with
          | true => have := ihl (j + 1) i (by simpa [firstSuccess] using h); omega
          | false => simp [firstSuccess] at h
    have hrec : cbs (runAll timeo rest (idx + 1) (fd + 1)) =
        match firstSuccess timeo rest (idx + 1) with
        | some (some i) => [((fd + (i - idx) : Nat) : Int)]
        | some none => [-1]
        | none => [] := by
      rw [ih (idx + 1) (fd + 1)]
      rcases hshift _ rfl with h | ⟨i, hi, hle⟩
      · exact h
      · have := hge rest (idx + 1) i hi; omega
    cases a with
    | failNow => simp only [runAll, cbs, firstSuccess]; exact hrec
    | success => simp [runAll, cbs, firstSuccess]
    | asyncFail => simp only [runAll, cbs, firstSuccess]; exact hrec
    | hang =>
      cases timeo with
      | true => simp only [runAll, cbs, firstSuccess, if_true]; exact hrec
      | false => simp [runAll, cbs, firstSuccess]

/-- sockets are created for consecutive addresses, with consecutive descriptor numbers -/
theorem socks_runAll (timeo : Bool) (addrs : List AddrOutcome) (idx fd : Nat) :
    ∃ n, n ≤ addrs.length ∧ socks (runAll timeo addrs idx fd) = (List.range n).map (fun j => (fd + j, idx + j)) := by
  induction addrs generalizing idx fd with
  | nil => exact ⟨0, by simp, by simp [runAll, socks]⟩
  | cons a rest ih =>
    obtain ⟨n, hn, hs⟩ := ih (idx + 1) (fd + 1)
    have hcons : (fd, idx) :: (List.range n).map (fun j => (fd + 1 + j, idx + 1 + j)) =
        (List.range (n + 1)).map (fun j => (fd + j, idx + j)) := by
      rw [List.range_succ_eq_map, List.map_cons, List.map_map]
      simp only [Nat.add_zero, List.cons.injEq, true_and]
      apply List.map_congr_left
      intro j _
      simp only [Function.comp, Prod.mk.injEq]
      omega
    cases a with
    | failNow => exact ⟨n + 1, by simp; omega, by simp only [runAll, socks]; rw [hs, hcons]⟩
    | asyncFail => exact ⟨n + 1, by simp; omega, by simp only [runAll, socks]; rw [hs, hcons]⟩
    | success => exact ⟨1, by simp, by simp [runAll, socks]⟩
    | hang =>
      cases timeo with
      | true => exact ⟨n + 1, by simp; omega, by simp only [runAll, socks, if_true]; rw [hs, hcons]⟩
      | false => exact ⟨1, by simp, by simp [runAll, socks]⟩

/-- every socket of a failed attempt is closed before the next is opened; what stays open at
    the end is exactly the socket handed to the callback (or the one still being waited on) -/
theorem stillOpen_runAll (timeo : Bool) (addrs : List AddrOutcome) (idx fd : Nat) (acc : List Nat)
    (hacc : ∀ x ∈ acc, x < fd) :
    stillOpen (runAll timeo addrs idx fd) acc =
      match firstSuccess timeo addrs idx with
      | some (some i) => acc ++ [fd + (i - idx)]
      | some none => acc
      | none => acc ++ [fd + ((addrs.takeWhile (· ≠ .hang)).length)] := by
  induction addrs generalizing idx fd with
  | nil => simp [runAll, stillOpen, firstSuccess]
  | cons a rest ih =>
    have herase : (acc ++ [fd]).erase fd = acc := by
      have : fd ∉ acc := fun h => Nat.lt_irrefl _ (hacc fd h)
      rw [List.erase_append_right _ this]; simp
    have hacc' : ∀ x ∈ acc, x < fd + 1 := fun x hx => Nat.lt_succ_of_lt (hacc x hx)
    have hge : ∀ (l : List AddrOutcome) (j i : Nat), firstSuccess timeo l j = some (some i) → j ≤ i := by
      intro l
      induction l with
      | nil => intro j i h; simp [firstSuccess] at h
      | cons b l ihl =>
        intro j i h
        cases b with
        | success => simp [firstSuccess] at h; omega
        | failNow => have := ihl (j + 1) i (by simpa [firstSuccess] using h); omega
        | asyncFail => have := ihl (j + 1) i (by simpa [firstSuccess] using h); omega
        | hang =>
          cases timeo with
          | true => have := ihl (j + 1) i (by simpa [firstSuccess] using h); omega
          | false => simp [firstSuccess] at h
    have hrec : stillOpen (runAll timeo rest (idx + 1) (fd + 1)) acc =
        match firstSuccess timeo rest (idx + 1) with
        | some (some i) => acc ++ [fd + (i - idx)]
        | some none => acc
        | none => acc ++ [fd + (rest.takeWhile (· ≠ .hang)).length + 1] := by
      rw [ih (idx + 1) (fd + 1) hacc']
      cases hfs : firstSuccess timeo rest (idx + 1) with
      | none => simp only; congr 2; omega
      | some o =>
        cases o with
        | none => rfl
        | some i =>
          have := hge rest (idx + 1) i hfs
          simp only
          congr 2; omega
    cases a with
    | failNow =>
      simp only [runAll, stillOpen, firstSuccess, herase]
      rw [hrec]
      cases firstSuccess timeo rest (idx + 1) with
      | none => simp [List.takeWhile]; omega
      | some o => rfl
    | asyncFail =>
      simp only [runAll, stillOpen, firstSuccess, herase]
      rw [hrec]
      cases firstSuccess timeo rest (idx + 1) with
      | none => simp [List.takeWhile]; omega
      | some o => rfl
    | success => simp [runAll, stillOpen, firstSuccess]
    | hang =>
      cases timeo with
      | true =>
        simp only [runAll, stillOpen, firstSuccess, if_true, herase]
        rw [hrec]
        cases hfs : firstSuccess true rest (idx + 1) with
        | none =>
          -- with a timeout configured nothing ever hangs for good
          exfalso
          clear hrec ih
          have : ∀ (l : List AddrOutcome) (j : Nat), firstSuccess true l j ≠ none := by
            intro l
            induction l with
            | nil => intro j; simp [firstSuccess]
            | cons b l ihl => intro j; cases b <;> simp [firstSuccess, ihl]
          exact this rest (idx + 1) hfs
        | some o => cases o <;> rfl
      | false => simp [runAll, stillOpen, firstSuccess, List.takeWhile]

end Percival.Proofs.Connect
