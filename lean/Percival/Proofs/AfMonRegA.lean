import Percival.Proofs.AfMonRel
import Percival.Proofs.HeapCreateAlloc
/-!
# C14 monitor soundness, registry piece (part A): list facts, skip conditions, frame lemma

Helper facts for `Proofs/AfMonReg.lean`: how the monitor's skip conditions (`Reg.hasId`, `imm.any`, `timers.any`,
`Reg.netSlot`) read on the model's event layer under `RegRel`, what `Reg.remove [i]` does, the pigeonhole bound on the
number of timers, the missing half of the `netCancel` contract (cancel of nothing), and the general frame lemma:
`RegRel` only reads `s.ev`, `s.now`, `s.m.n` (monotonically), `ms.reg`, `ms.now`.
-/
namespace Percival.Proofs.AfMonReg
open Percival.Model Percival.Model.EvReg Percival.Model.AfStep
open Percival.Spec.AfMon (Op Ans MState monStep MAXID MAXFD)
open Percival.Spec.Reg (Reg)
open Percival.Proofs.EvRegNet (regNet NetInv netRegistered)
open Percival.Proofs.EvRegTimer (regImm regTimers TmInv Step)
open Percival.Proofs.AfMonRel

/-! ### lists -/

theorem any_contains_iff (l : List (List Nat)) (i : Nat) : l.any (·.contains i) = true ↔ i ∈ l.flatten := by
  simp [List.mem_flatten]

theorem registeredImm_iff (e : Ev) (i : Nat) : registeredImm e i = true ↔ i ∈ (regImm e).flatten := by
  simp only [registeredImm, regImm, registry, List.mem_flatten, List.any_eq_true, List.mem_map]
  constructor
  · rintro ⟨l, hl, x, hx, hid⟩
    exact ⟨l.map (·.id), ⟨l, hl, rfl⟩, List.mem_map.mpr ⟨x, hx, by simpa using hid⟩⟩
  · rintro ⟨_, ⟨l, hl, rfl⟩, hi⟩
    obtain ⟨x, hx, hid⟩ := List.mem_map.mp hi
    exact ⟨l, hl, x, hx, by simpa using hid⟩

theorem registeredTm_iff (e : Ev) (i : Nat) : registeredTm e i = true ↔ i ∈ regTimers e := by
  simp only [registeredTm, regTimers, registry, List.any_eq_true, List.mem_map]
  constructor
  · rintro ⟨x, hx, hid⟩; exact ⟨x, hx, by simpa using hid⟩
  · rintro ⟨x, hx, hid⟩; exact ⟨x, hx, by simpa using hid⟩

theorem timersAny_iff (t : List (Nat × Int)) (i : Nat) : t.any (·.1 == i) = true ↔ i ∈ t.map (·.1) := by
  simp only [List.any_eq_true, List.mem_map]
  constructor
  · rintro ⟨x, hx, hid⟩; exact ⟨x, hx, by simpa using hid⟩
  · rintro ⟨x, hx, hid⟩; exact ⟨x, hx, by simpa using hid⟩

/-- the flattened queues after an append to one of them (`modify` out of range changes nothing) -/
theorem flatten_modify_append (i : Nat) : ∀ (l : List (List Nat)) (p : Nat),
    (l.modify p (· ++ [i])).flatten.Perm l.flatten ∨ (l.modify p (· ++ [i])).flatten.Perm (i :: l.flatten)
  | [], p => by simp
  | x :: l, 0 => by
    right
    have : ((x :: l).modify 0 (· ++ [i])).flatten = x ++ i :: l.flatten := by simp
    rw [this, List.flatten_cons]
    exact List.perm_middle
  | x :: l, p+1 => by
    simp only [List.modify_succ_cons, List.flatten_cons]
    rcases flatten_modify_append i l p with h | h
    · left; exact h.append_left x
    · right; exact (h.append_left x).trans List.perm_middle

theorem removeOne_pred (i x : Nat) : (![i].contains x) = (x != i) := by
  by_cases h : x = i <;> simp [h]

theorem filter_ne_self {α : Type} (l : List α) (f : α → Nat) (i : Nat) (h : i ∉ l.map f) :
    l.filter (fun x => ![i].contains (f x)) = l := by
  apply List.filter_eq_self.mpr
  intro a ha
  have : f a ≠ i := fun hh => h (List.mem_map.mpr ⟨a, ha, hh⟩)
  simpa [List.contains_cons] using this

theorem map_filter_ne_self (l : List (List Nat)) (i : Nat) (h : i ∉ l.flatten) :
    l.map (·.filter (![i].contains ·)) = l := by
  have : ∀ x ∈ l, x.filter (![i].contains ·) = x := by
    intro x hx
    have := filter_ne_self x id i (by simpa using fun hi => h (List.mem_flatten.mpr ⟨x, hx, hi⟩))
    simpa using this
  calc l.map (·.filter (![i].contains ·)) = l.map id := List.map_congr_left this
    _ = l := List.map_id l

/-- pigeonhole: a duplicate-free list of numbers below `n` has at most `n` elements -/
theorem nodup_bound : ∀ (n : Nat) (l : List Nat), l.Nodup → (∀ x ∈ l, x < n) → l.length ≤ n
  | 0, l, _, hlt => by
    cases l with
    | nil => simp
    | cons a l => exact absurd (hlt a (by simp)) (by omega)
  | n+1, l, hnd, hlt => by
    have ih := nodup_bound n (l.erase n) (hnd.erase n) (by
      intro x hx
      have hx' := (hnd.mem_erase_iff).mp hx
      have := hlt x hx'.2
      omega)
    have := List.length_erase (a := n) (l := l)
    by_cases hm : n ∈ l
    · rw [List.length_erase_of_mem hm] at ih; omega
    · rw [List.erase_of_not_mem hm] at ih; omega

/-! ### the monitor's skip conditions, read on the model's event layer -/

theorem hasId_eq {s : S} {ms : MState} (h : RegRel s ms) (i : Nat) :
    ms.reg.hasId i = (registeredImm s.ev i || registeredTm s.ev i) := by
  rw [Bool.eq_iff_iff]
  simp only [Reg.hasId, Bool.or_eq_true, any_contains_iff, timersAny_iff, registeredImm_iff, registeredTm_iff,
    h.imm, h.tm]

theorem immAny_iff {s : S} {ms : MState} (h : RegRel s ms) (i : Nat) :
    ms.reg.imm.any (·.contains i) = true ↔ i ∈ (regImm s.ev).flatten := by
  rw [any_contains_iff, h.imm]

theorem tmAny_iff {s : S} {ms : MState} (h : RegRel s ms) (i : Nat) :
    ms.reg.timers.any (·.1 == i) = true ↔ i ∈ regTimers s.ev := by
  rw [timersAny_iff, h.tm]

theorem immCancel_none (e : Ev) (i : Nat) (m : Mem) (h : i ∉ (regImm e).flatten) : immCancel e i m = none := by
  cases hf : e.heads.flatten.find? (·.id == i) with
  | none => unfold immCancel; rw [hf]
  | some ent =>
    exfalso
    apply h
    have hm := List.mem_of_find?_eq_some hf
    have hid : ent.id = i := by simpa using List.find?_some hf
    simp only [regImm, registry, ← List.map_flatten, List.mem_map]
    exact ⟨ent, hm, hid⟩

theorem tmCancel_none (e : Ev) (i : Nat) (m : Mem) (h : i ∉ regTimers e) : tmCancel e i m = none := by
  cases hf : e.timers.find? (·.id == i) with
  | none => unfold tmCancel; rw [hf]
  | some ent =>
    exfalso
    apply h
    have hm := List.mem_of_find?_eq_some hf
    have hid : ent.id = i := by simpa using List.find?_some hf
    simp only [regTimers, registry, List.mem_map]
    exact ⟨ent, hm, hid⟩

theorem netSlot_cases {s : S} {ms : MState} (h : RegRel s ms) (fd : Nat) (w : Bool) :
    (ms.reg.netSlot fd w = none ∧ ¬ netRegistered s.ev fd w) ∨
    (∃ x, ms.reg.netSlot fd w = some x ∧ (fd, w, x) ∈ regNet s.ev) := by
  unfold Reg.netSlot
  cases hf : ms.reg.net.find? (fun e => e.1 == fd && e.2.1 == w) with
  | none =>
    left
    refine ⟨rfl, ?_⟩
    rintro ⟨id, hid⟩
    have := List.find?_eq_none.mp hf _ ((h.net fd w id).mpr hid)
    simp at this
  | some x =>
    right
    obtain ⟨a, b, c⟩ := x
    have hm := List.mem_of_find?_eq_some hf
    have hp := List.find?_some hf
    simp only [Bool.and_eq_true, beq_iff_eq] at hp
    obtain ⟨rfl, rfl⟩ := hp
    exact ⟨c, rfl, (h.net _ _ _).mp hm⟩

/-! ### `events_network_cancel` of something that is not registered -/

theorem netCancel_nothing (e : Ev) (s : Nat) (w : Bool) (m : Mem) (h : NetInv e) (hn : ¬ netRegistered e s w) :
    NetInv (netCancel e s w m).2.1 ∧ registry (netCancel e s w m).2.1 = registry e ∧
    ((netCancel e s w m).1 = .noent ∨
      ((netCancel e s w m).1 = .fail ∧ m.refusals < (netCancel e s w m).2.2.refusals)) := by
  have hi := EvRegNet.netInit_spec e m
  unfold netCancel
  rcases hni : netInit e m with ⟨ok0, e0, m0⟩
  rw [hni] at hi
  simp only at hi
  obtain ⟨hv0, hr0⟩ := hi.2.2.2.2.2.2 h
  cases ok0
  · exact ⟨hv0, hr0, Or.inr ⟨rfl, (hi.2.2.2.2.1 rfl).2⟩⟩
  · simp only
    cases hs : e0.socks[s]? with
    | none => exact ⟨hv0, hr0, Or.inl rfl⟩
    | some rec =>
      simp only
      cases hsl : slot rec w with
      | none => exact ⟨hv0, hr0, Or.inl rfl⟩
      | some p =>
        exfalso
        apply hn
        refine ⟨p.2, ?_⟩
        have : (s, w, p.2) ∈ regNet e0 := (EvRegNet.mem_regNet e0 s w p.2).mpr ⟨rec, p.1, hs, hsl⟩
        simpa only [regNet, hr0] using this

/-! ### frame: what `RegRel` reads -/

theorem regRel_frame {s s' : S} {ms ms' : MState} (h : RegRel s ms) (hev : s'.ev = s.ev) (hnow : s'.now = s.now)
    (hn : s.m.n ≤ s'.m.n) (hreg : ms'.reg = ms.reg) (hmnow : ms'.now = ms.now) : RegRel s' ms' := by
  obtain ⟨a, b, c, d, e, f, g, i, j⟩ := h
  constructor
  · rw [hmnow, hnow]; exact a
  · rw [hreg, hev]; exact b
  · rw [hreg, hev]; exact c
  · rw [hreg, hev]; exact d
  · rw [hev]; exact e
  · rw [hev]; exact EvRegTimer.tmInv_congr _ _ _ _ f rfl rfl hn
  · rw [hev]; exact g
  · rw [hev]; exact i
  · rw [hev]; exact j

theorem step_haFree (ha : HeapAlloc.HeapA) (m : Mem) : Step m (HeapAlloc.free ha m) := by
  unfold HeapAlloc.free EArray.free
  exact ((EvRegTimer.step_free _ _).trans (EvRegTimer.step_free _ _)).trans (EvRegTimer.step_free _ _)

theorem step_haAdd (key : Nat → Int) (ha : HeapAlloc.HeapA) (e : Nat) (m : Mem) :
    Step m (HeapAlloc.add key ha e m).2.2 := by
  unfold HeapAlloc.add
  have := EvRegTimer.step_append (HeapAlloc.shape ha.h.a.size ha.alloc) (SeqMap.encPtr e) 1 SeqMap.ptrLen m
  split <;> (rename_i heq; rw [heq] at this; exact this)

theorem step_haDelete (key : Nat → Int) (ha : HeapAlloc.HeapA) (rc : Nat) (m : Mem) (ha' : HeapAlloc.HeapA) (m' : Mem)
    (h : HeapAlloc.delete key ha rc m = some (ha', m')) : Step m m' := by
  unfold HeapAlloc.delete at h
  have := EvRegTimer.step_shrink (HeapAlloc.shape ha.h.a.size ha.alloc) 1 SeqMap.ptrLen m
  split at h
  · cases h
  · split at h
    rename_i heq
    rw [heq] at this
    cases h
    exact this

def isHeapOp : Op → Bool
  | .hInit | .hAdd _ _ | .hMin | .hDelmin | .hFree | .hCreate _ => true
  | _ => false

/-- the heap operations leave the event layer and the clock alone, and only advance the oracle -/
theorem stepOp_heap_frame (s : S) (op : Op) (hop : isHeapOp op = true) :
    (stepOp s op).1.ev = s.ev ∧ (stepOp s op).1.now = s.now ∧ s.m.n ≤ (stepOp s op).1.m.n := by
  cases op <;> simp only [isHeapOp] at hop <;> try (exact absurd hop (by decide))
  · -- hInit
    have key : ∀ m0 : Mem, s.m.n ≤ m0.n →
        (match HeapAlloc.init m0 with
          | (some ha, m') => (({ s with m := m', h := some ha, hlive := [] } : S),
              Out.heap true (DsStep.rf m0 m') none (hView (some ha) m0 m'))
          | (none, m') => ({ s with m := m', h := none, hlive := [] },
              Out.heap false (DsStep.rf m0 m') none (hView none m0 m'))).1.ev = s.ev ∧
        (match HeapAlloc.init m0 with
          | (some ha, m') => (({ s with m := m', h := some ha, hlive := [] } : S),
              Out.heap true (DsStep.rf m0 m') none (hView (some ha) m0 m'))
          | (none, m') => ({ s with m := m', h := none, hlive := [] },
              Out.heap false (DsStep.rf m0 m') none (hView none m0 m'))).1.now = s.now ∧
        s.m.n ≤ (match HeapAlloc.init m0 with
          | (some ha, m') => (({ s with m := m', h := some ha, hlive := [] } : S),
              Out.heap true (DsStep.rf m0 m') none (hView (some ha) m0 m'))
          | (none, m') => ({ s with m := m', h := none, hlive := [] },
              Out.heap false (DsStep.rf m0 m') none (hView none m0 m'))).1.m.n := by
      intro m0 h0
      have h1 := EvRegTimer.step_heapInit m0
      rcases hi : HeapAlloc.init m0 with ⟨o, m'⟩
      rw [hi] at h1
      cases o <;> exact ⟨rfl, rfl, Nat.le_trans h0 h1.n⟩
    have hm : s.m.n ≤ (initMem s).n := by
      unfold initMem
      cases hh : s.h with
      | none => exact Nat.le_refl _
      | some ha => exact (step_haFree _ _).n
    unfold stepOp
    exact key (initMem s) hm
  · -- hAdd
    rename_i e k
    rw [stepOp]
    split
    · exact ⟨rfl, rfl, Nat.le_refl _⟩
    · rename_i ha _
      simp only
      split
      · exact ⟨rfl, rfl, Nat.le_refl _⟩
      · have h1 := step_haAdd (Percival.Spec.AfMon.keyFn ((e, k) :: s.keys)) ha e s.m
        split <;> (rename_i heq; rw [heq] at h1; exact ⟨rfl, rfl, h1.n⟩)
  · -- hMin
    rw [stepOp]
    split <;> exact ⟨rfl, rfl, Nat.le_refl _⟩
  · -- hDelmin
    rw [stepOp]
    split
    · exact ⟨rfl, rfl, Nat.le_refl _⟩
    · rename_i ha _
      split
      · rename_i heq
        exact ⟨rfl, rfl, (step_haDelete _ _ _ _ _ _ heq).n⟩
      · exact ⟨rfl, rfl, Nat.le_refl _⟩
  · -- hFree
    rw [stepOp]
    split
    · exact ⟨rfl, rfl, Nat.le_refl _⟩
    · exact ⟨rfl, rfl, (step_haFree _ _).n⟩
  · -- hCreate
    rename_i els
    have hm : s.m.n ≤ (initMem s).n := by
      unfold initMem
      cases hh : s.h with
      | none => exact Nat.le_refl _
      | some ha => exact (step_haFree _ _).n
    rw [stepOp]
    split
    · exact ⟨rfl, rfl, Nat.le_refl _⟩
    · have h1 := Percival.Proofs.HeapCreateAlloc.step_create
        (Percival.Spec.AfMon.keyFn (els ++ s.keys)) (els.map (·.1)) (initMem s)
      simp only
      split <;> (rename_i heq; rw [heq] at h1; exact ⟨rfl, rfl, Nat.le_trans hm h1.n⟩)

/-- the monitor's registry and clock are not touched by the heap operations, whatever the answer -/
theorem monStep_heap_frame (ms : MState) (op : Op) (a : Ans) (hop : isHeapOp op = true) :
    (monStep ms op a).1.reg = ms.reg ∧ (monStep ms op a).1.now = ms.now := by
  cases op <;> simp only [isHeapOp] at hop <;> try (exact absurd hop (by decide))
  all_goals (unfold monStep; simp only)
  all_goals repeat' split
  all_goals exact ⟨rfl, rfl⟩

theorem heap_frame {s : S} {ms : MState} (op : Op) (hop : isHeapOp op = true) (h : RegRel s ms) :
    RegRel (next s ms op).1 (next s ms op).2 := by
  obtain ⟨h1, h2, h3⟩ := stepOp_heap_frame s op hop
  obtain ⟨h4, h5⟩ := monStep_heap_frame ms op (ansOf s op) hop
  exact regRel_frame h h1 h2 h3 h4 h5

end Percival.Proofs.AfMonReg
