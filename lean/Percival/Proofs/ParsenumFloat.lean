import Percival.Model.ParsenumFloat
/-! Helper lemmas for C16: `parsenum_float` and the macros for floating-point targets, over the `strtod` model. -/
namespace Percival.Proofs.ParsenumFloat
open Percival.Spec.Numeral Percival.Model.Strto Percival.Model.Strtod Percival.Model.ParsenumFloat
open Percival.Model.Parsenum (malformed)

/-- `((*x = 1, *x /= 2) > 0)` holds for `float` and `double` -/
theorem probeFloat_true (t : FTy) : probeFloat t = true := by
  cases t <;> decide +kernel

/-- the answer as a function of what `strtod` returned -/
def expectedF (t : FTy) (min max : Fl) (tr : Bool) (len : Nat) (r : Result Fl) : FAnswer :=
  if r.endOff = 0 ∨ (tr = false ∧ r.endOff ≠ len) then .einval
  else if Fl.lt r.val min = true ∨ Fl.lt max r.val = true then .erange
  else match r.errno with
    | .ok => .ok (fstore t r.val)
    | .einval => .einval
    | .erange => .erange

theorem malformed_iff (e len : Nat) (tr : Bool) :
    malformed e len tr = true ↔ (e = 0 ∨ (tr = false ∧ e ≠ len)) := by
  unfold malformed; cases tr <;> simp

theorem ex6_float (t : FTy) (s : List UInt8) (min max : Fl) (tr : Bool) :
    (parsenumEx6 t s min max 0 tr).answer = expectedF t min max tr s.length (strtod s) := by
  simp only [parsenumEx6, probeFloat_true, if_true, parsenumFloat, expectedF]
  by_cases hm : malformed (strtod s).endOff s.length tr = true
  · rw [if_pos hm, if_pos ((malformed_iff _ _ _).mp hm)]; rfl
  · rw [if_neg hm, if_neg (fun h => hm ((malformed_iff _ _ _).mpr h))]
    by_cases hr : Fl.lt (strtod s).val min = true ∨ Fl.lt max (strtod s).val = true
    · rw [if_pos hr, if_pos hr]; rfl
    · rw [if_neg hr, if_neg hr]
      cases (strtod s).errno <;> rfl

theorem ex6_float_abort (t : FTy) (s : List UInt8) (min max : Fl) (base : Nat) (tr : Bool) (hb : base ≠ 0) :
    parsenumEx6 t s min max base tr = .abort := by
  simp [parsenumEx6, probeFloat_true, hb]

section expected
variable (t : FTy) (min max : Fl) (tr : Bool) (len : Nat) (r : Result Fl)

theorem expectedF_ok_iff (v : Fl) :
    expectedF t min max tr len r = .ok v ↔
      r.endOff ≠ 0 ∧ (tr = true ∨ r.endOff = len) ∧ r.errno = .ok ∧
      Fl.lt r.val min = false ∧ Fl.lt max r.val = false ∧ v = fstore t r.val := by
  unfold expectedF
  by_cases hm : r.endOff = 0 ∨ (tr = false ∧ r.endOff ≠ len)
  · rw [if_pos hm]
    constructor
    · intro h; cases h
    · rintro ⟨h1, h2, _⟩
      rcases hm with h | ⟨h3, h4⟩
      · exact absurd h h1
      · rcases h2 with h | h
        · rw [h3] at h; cases h
        · exact absurd h h4
  · rw [if_neg hm]
    have h1 : r.endOff ≠ 0 := fun h => hm (Or.inl h)
    have h2 : tr = true ∨ r.endOff = len := by
      cases tr
      · right; exact Classical.byContradiction fun h => hm (Or.inr ⟨rfl, h⟩)
      · left; rfl
    by_cases hr : Fl.lt r.val min = true ∨ Fl.lt max r.val = true
    · rw [if_pos hr]
      constructor
      · intro h; cases h
      · rintro ⟨_, _, _, h4, h5, _⟩
        rcases hr with h | h
        · rw [h4] at h; cases h
        · rw [h5] at h; cases h
    · rw [if_neg hr]
      have h4 : Fl.lt r.val min = false := by
        cases h : Fl.lt r.val min
        · rfl
        · exact absurd (Or.inl h) hr
      have h5 : Fl.lt max r.val = false := by
        cases h : Fl.lt max r.val
        · rfl
        · exact absurd (Or.inr h) hr
      cases he : r.errno
      · constructor
        · intro h; injection h with h; exact ⟨h1, h2, rfl, h4, h5, h.symm⟩
        · rintro ⟨_, _, _, _, _, rfl⟩; rfl
      · constructor
        · intro h; cases h
        · rintro ⟨_, _, h, _⟩; cases h
      · constructor
        · intro h; cases h
        · rintro ⟨_, _, h, _⟩; cases h

end expected

/-- NaN is on neither side of any bound -/
theorem nan_not_lt (x : Fl) : Fl.lt .nan x = false ∧ Fl.lt x .nan = false := by
  cases x <;> simp [Fl.lt]

theorem strtod_errno (s : List UInt8) : (strtod s).errno ≠ .einval := by
  unfold strtod
  simp only
  split
  · simp
  · split
    · simp
    · simp
    · simp only
      split <;> simp

section expected
variable (t : FTy) (min max : Fl) (tr : Bool) (len : Nat) (r : Result Fl)

theorem expectedF_einval_iff (he : r.errno ≠ .einval) :
    expectedF t min max tr len r = .einval ↔ (r.endOff = 0 ∨ (tr = false ∧ r.endOff ≠ len)) := by
  unfold expectedF
  by_cases hm : r.endOff = 0 ∨ (tr = false ∧ r.endOff ≠ len)
  · rw [if_pos hm]; simp [hm]
  · rw [if_neg hm]
    simp only [hm, iff_false]
    split
    · intro h; cases h
    · cases h : r.errno
      · intro h; cases h
      · exact absurd h he
      · intro h; cases h

theorem expectedF_erange_iff :
    expectedF t min max tr len r = .erange ↔
      r.endOff ≠ 0 ∧ (tr = true ∨ r.endOff = len) ∧
      (Fl.lt r.val min = true ∨ Fl.lt max r.val = true ∨ r.errno = .erange) := by
  unfold expectedF
  by_cases hm : r.endOff = 0 ∨ (tr = false ∧ r.endOff ≠ len)
  · rw [if_pos hm]
    constructor
    · intro h; cases h
    · rintro ⟨h1, h2, _⟩
      rcases hm with h | ⟨h3, h4⟩
      · exact absurd h h1
      · rcases h2 with h | h
        · rw [h3] at h; cases h
        · exact absurd h h4
  · rw [if_neg hm]
    have h1 : r.endOff ≠ 0 := fun h => hm (Or.inl h)
    have h2 : tr = true ∨ r.endOff = len := by
      cases tr
      · right; exact Classical.byContradiction fun h => hm (Or.inr ⟨rfl, h⟩)
      · left; rfl
    by_cases hr : Fl.lt r.val min = true ∨ Fl.lt max r.val = true
    · rw [if_pos hr]
      exact ⟨fun _ => ⟨h1, h2, by rcases hr with h | h <;> simp [h]⟩, fun _ => rfl⟩
    · rw [if_neg hr]
      cases he : r.errno
      · constructor
        · intro h; cases h
        · rintro ⟨_, _, h | h | h⟩
          · exact absurd (Or.inl h) hr
          · exact absurd (Or.inr h) hr
          · cases h
      · constructor
        · intro h; cases h
        · rintro ⟨_, _, h | h | h⟩
          · exact absurd (Or.inl h) hr
          · exact absurd (Or.inr h) hr
          · cases h
      · exact ⟨fun _ => ⟨h1, h2, Or.inr (Or.inr rfl)⟩, fun _ => rfl⟩

end expected

end Percival.Proofs.ParsenumFloat
