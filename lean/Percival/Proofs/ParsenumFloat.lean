import Percival.Model.ParsenumFloat
import Percival.Proofs.FloatNumeral
/-! Helper lemmas for C16: `parsenum_float` and the macros for floating-point targets, over the `strtod` model. -/
namespace Percival.Proofs.ParsenumFloat
open Percival.Spec.Numeral Percival.Spec.FloatNumeral Percival.Model.Strto Percival.Model.Strtod Percival.Model.ParsenumFloat
open Percival.Proofs.FloatNumeral
open Percival.Model.Parsenum (malformed)
open Percival.Spec.Ieee (Fl)

/-- `((*x = 1, *x /= 2) > 0)` holds for `float` and `double` -/
theorem probeFloat_true (t : FTy) : probeFloat t = true := by
  cases t <;> decide +kernel

/-- the answer as a function of what `strtod` returned -/
def expectedF (t : FTy) (min max : Fl) (tr : Bool) (len : Nat) (r : Result Fl) : FAnswer :=
  if r.endOff = 0 ∨ (tr = false ∧ r.endOff ≠ len) then .einval
  else if Fl.lt r.val min = true ∨ Fl.lt max r.val = true then .erange
  else match r.errno with
    | .ok => .ok (fstore t r.val)
    | .einval => .einval
    | .erange => .erange

theorem malformed_iff (e len : Nat) (tr : Bool) :
    malformed e len tr = true ↔ (e = 0 ∨ (tr = false ∧ e ≠ len)) := by
  unfold malformed; cases tr <;> simp

theorem ex6_float (t : FTy) (s : List UInt8) (min max : Fl) (tr : Bool) :
    (parsenumEx6 t s min max 0 tr).answer = expectedF t min max tr s.length (strtod s) := by
  simp only [parsenumEx6, probeFloat_true, if_true, parsenumFloat, expectedF]
  by_cases hm : malformed (strtod s).endOff s.length tr = true
  · rw [if_pos hm, if_pos ((malformed_iff _ _ _).mp hm)]; rfl
  · rw [if_neg hm, if_neg (fun h => hm ((malformed_iff _ _ _).mpr h))]
    by_cases hr : Fl.lt (strtod s).val min = true ∨ Fl.lt max (strtod s).val = true
    · rw [if_pos hr, if_pos hr]; rfl
    · rw [if_neg hr, if_neg hr]
      cases (strtod s).errno <;> rfl

theorem ex6_float_abort (t : FTy) (s : List UInt8) (min max : Fl) (base : Nat) (tr : Bool) (hb : base ≠ 0) :
    parsenumEx6 t s min max base tr = .abort := by
  simp [parsenumEx6, probeFloat_true, hb]

section expected
variable (t : FTy) (min max : Fl) (tr : Bool) (len : Nat) (r : Result Fl)

theorem expectedF_ok_iff (v : Fl) :
    expectedF t min max tr len r = .ok v ↔
      r.endOff ≠ 0 ∧ (tr = true ∨ r.endOff = len) ∧ r.errno = .ok ∧
      Fl.lt r.val min = false ∧ Fl.lt max r.val = false ∧ v = fstore t r.val := by
  unfold expectedF
  by_cases hm : r.endOff = 0 ∨ (tr = false ∧ r.endOff ≠ len)
  · rw [if_pos hm]
    constructor
    · intro h; cases h
    · rintro ⟨h1, h2, _⟩
      rcases hm with h | ⟨h3, h4⟩
      · exact absurd h h1
      · rcases h2 with h | h
        · rw [h3] at h; cases h
        · exact absurd h h4
  · rw [if_neg hm]
    have h1 : r.endOff ≠ 0 := fun h => hm (Or.inl h)
    have h2 : tr = true ∨ r.endOff = len := by
      cases tr
      · right; exact Classical.byContradiction fun h => hm (Or.inr ⟨rfl, h⟩)
      · left; rfl
    by_cases hr : Fl.lt r.val min = true ∨ Fl.lt max r.val = true
    · rw [if_pos hr]
      constructor
      · intro h; cases h
      · rintro ⟨_, _, _, h4, h5, _⟩
        rcases hr with h | h
        · rw [h4] at h; cases h
        · rw [h5] at h; cases h
    · rw [if_neg hr]
      have h4 : Fl.lt r.val min = false := by
        cases h : Fl.lt r.val min
        · rfl
        · exact absurd (Or.inl h) hr
      have h5 : Fl.lt max r.val = false := by
        cases h : Fl.lt max r.val
        · rfl
        · exact absurd (Or.inr h) hr
      cases he : r.errno
      · constructor
        · intro h; injection h with h; exact ⟨h1, h2, rfl, h4, h5, h.symm⟩
        · rintro ⟨_, _, _, _, _, rfl⟩; rfl
      · constructor
        · intro h; cases h
        · rintro ⟨_, _, h, _⟩; cases h
      · constructor
        · intro h; cases h
        · rintro ⟨_, _, h, _⟩; cases h

end expected

/-- NaN is on neither side of any bound -/
theorem nan_not_lt (x : Fl) : Fl.lt .nan x = false ∧ Fl.lt x .nan = false := by
  cases x <;> simp [Fl.lt]

theorem toDouble_errno (neg : Bool) (sub : Subject) : (toDouble neg sub).2 ≠ .einval := by
  unfold toDouble
  split
  · simp
  · simp
  · simp only
    split <;> simp

theorem strtod_errno (s : List UInt8) : (strtod s).errno ≠ .einval := by
  unfold strtod
  split
  · simp
  · exact toDouble_errno _ _

section expected
variable (t : FTy) (min max : Fl) (tr : Bool) (len : Nat) (r : Result Fl)

theorem expectedF_einval_iff (he : r.errno ≠ .einval) :
    expectedF t min max tr len r = .einval ↔ (r.endOff = 0 ∨ (tr = false ∧ r.endOff ≠ len)) := by
  unfold expectedF
  by_cases hm : r.endOff = 0 ∨ (tr = false ∧ r.endOff ≠ len)
  · rw [if_pos hm]; simp [hm]
  · rw [if_neg hm]
    simp only [hm, iff_false]
    split
    · intro h; cases h
    · cases h : r.errno
      · intro h; cases h
      · exact absurd h he
      · intro h; cases h

theorem expectedF_erange_iff :
    expectedF t min max tr len r = .erange ↔
      r.endOff ≠ 0 ∧ (tr = true ∨ r.endOff = len) ∧
      (Fl.lt r.val min = true ∨ Fl.lt max r.val = true ∨ r.errno = .erange) := by
  unfold expectedF
  by_cases hm : r.endOff = 0 ∨ (tr = false ∧ r.endOff ≠ len)
  · rw [if_pos hm]
    constructor
    · intro h; cases h
    · rintro ⟨h1, h2, _⟩
      rcases hm with h | ⟨h3, h4⟩
      · exact absurd h h1
      · rcases h2 with h | h
        · rw [h3] at h; cases h
        · exact absurd h h4
  · rw [if_neg hm]
    have h1 : r.endOff ≠ 0 := fun h => hm (Or.inl h)
    have h2 : tr = true ∨ r.endOff = len := by
      cases tr
      · right; exact Classical.byContradiction fun h => hm (Or.inr ⟨rfl, h⟩)
      · left; rfl
    by_cases hr : Fl.lt r.val min = true ∨ Fl.lt max r.val = true
    · rw [if_pos hr]
      exact ⟨fun _ => ⟨h1, h2, by rcases hr with h | h <;> simp [h]⟩, fun _ => rfl⟩
    · rw [if_neg hr]
      cases he : r.errno
      · constructor
        · intro h; cases h
        · rintro ⟨_, _, h | h | h⟩
          · exact absurd (Or.inl h) hr
          · exact absurd (Or.inr h) hr
          · cases h
      · constructor
        · intro h; cases h
        · rintro ⟨_, _, h | h | h⟩
          · exact absurd (Or.inl h) hr
          · exact absurd (Or.inr h) hr
          · cases h
      · exact ⟨fun _ => ⟨h1, h2, Or.inr (Or.inr rfl)⟩, fun _ => rfl⟩

end expected

/-! ### in terms of the grammar -/

theorem strtod_of_scanF {s : List UInt8} {neg : Bool} {sub : Subject} {e : Nat} (h : scanF s = some (neg, sub, e)) :
    strtod s = { val := (toDouble neg sub).1, endOff := e, errno := (toDouble neg sub).2 } := by
  simp [strtod, h]

theorem strtod_of_none {s : List UInt8} (h : scanF s = none) :
    strtod s = { val := .fin false 0, endOff := 0, errno := .ok } := by
  simp [strtod, h]

/-- "strtod converted a non-empty prefix (everything unless trailing)" is "the string is in the language" -/
theorem consumed_iff (tr : Bool) (s : List UInt8) :
    ((strtod s).endOff ≠ 0 ∧ (tr = true ∨ (strtod s).endOff = s.length)) ↔
      ∃ neg sub, FAccepts tr s neg sub := by
  constructor
  · rintro ⟨h1, h2⟩
    cases hs : scanF s with
    | none => rw [strtod_of_none hs] at h1; exact absurd rfl h1
    | some r =>
      obtain ⟨neg, sub, e⟩ := r
      rw [strtod_of_scanF hs] at h2
      exact ⟨neg, sub, (faccepts_iff_scan tr s neg sub).mpr ⟨e, hs, h2⟩⟩
  · rintro ⟨neg, sub, h⟩
    obtain ⟨e, hs, htr⟩ := (faccepts_iff_scan tr s neg sub).mp h
    rw [strtod_of_scanF hs]
    exact ⟨by have := scanF_endOff_pos hs; simp only; omega, htr⟩

theorem faccepts_unique {tr : Bool} {s : List UInt8} {neg neg' : Bool} {sub sub' : Subject}
    (h1 : FAccepts tr s neg sub) (h2 : FAccepts tr s neg' sub') : neg = neg' ∧ sub = sub' := by
  obtain ⟨e, hs, _⟩ := (faccepts_iff_scan tr s neg sub).mp h1
  obtain ⟨e', hs', _⟩ := (faccepts_iff_scan tr s neg' sub').mp h2
  rw [hs] at hs'; injection hs' with h; simp only [Prod.mk.injEq] at h; exact ⟨h.1, h.2.1⟩

theorem strtod_of_accepts {tr : Bool} {s : List UInt8} {neg : Bool} {sub : Subject} (h : FAccepts tr s neg sub) :
    (strtod s).val = (toDouble neg sub).1 ∧ (strtod s).errno = (toDouble neg sub).2 := by
  obtain ⟨e, hs, _⟩ := (faccepts_iff_scan tr s neg sub).mp h
  rw [strtod_of_scanF hs]; exact ⟨rfl, rfl⟩

/-! ### the macro's answer in terms of the grammar and the model's `toDouble` -/

theorem parsenum_ok_iff_toDouble (t : FTy) (bs : List UInt8) (min max : Fl) (trailing : Bool) (v : Fl) :
    Model.ParsenumFloat.parsenum t bs min max 0 trailing = .ok v ↔
      ∃ neg sub, FAccepts trailing (cstr bs) neg sub ∧ (toDouble neg sub).2 = .ok ∧
        Fl.lt (toDouble neg sub).1 min = false ∧ Fl.lt max (toDouble neg sub).1 = false ∧
        v = fstore t (toDouble neg sub).1 := by
  unfold Model.ParsenumFloat.parsenum; rw [ex6_float, expectedF_ok_iff]
  constructor
  · rintro ⟨h1, h2, h3, h4, h5, h6⟩
    obtain ⟨neg, sub, hacc⟩ := (consumed_iff trailing (cstr bs)).mp ⟨h1, h2⟩
    obtain ⟨e1, e2⟩ := strtod_of_accepts hacc
    exact ⟨neg, sub, hacc, e2 ▸ h3, e1 ▸ h4, e1 ▸ h5, e1 ▸ h6⟩
  · rintro ⟨neg, sub, hacc, h3, h4, h5, h6⟩
    obtain ⟨h1, h2⟩ := (consumed_iff trailing (cstr bs)).mpr ⟨neg, sub, hacc⟩
    obtain ⟨e1, e2⟩ := strtod_of_accepts hacc
    exact ⟨h1, h2, e2 ▸ h3, e1 ▸ h4, e1 ▸ h5, e1 ▸ h6⟩

theorem parsenum_erange_iff_toDouble (t : FTy) (bs : List UInt8) (min max : Fl) (trailing : Bool) :
    Model.ParsenumFloat.parsenum t bs min max 0 trailing = .erange ↔
      ∃ neg sub, FAccepts trailing (cstr bs) neg sub ∧
        (Fl.lt (toDouble neg sub).1 min = true ∨ Fl.lt max (toDouble neg sub).1 = true ∨
          (toDouble neg sub).2 = .erange) := by
  unfold Model.ParsenumFloat.parsenum; rw [ex6_float, expectedF_erange_iff]
  constructor
  · rintro ⟨h1, h2, h3⟩
    obtain ⟨neg, sub, hacc⟩ := (consumed_iff trailing (cstr bs)).mp ⟨h1, h2⟩
    obtain ⟨e1, e2⟩ := strtod_of_accepts hacc
    exact ⟨neg, sub, hacc, e1 ▸ e2 ▸ h3⟩
  · rintro ⟨neg, sub, hacc, h3⟩
    obtain ⟨h1, h2⟩ := (consumed_iff trailing (cstr bs)).mpr ⟨neg, sub, hacc⟩
    obtain ⟨e1, e2⟩ := strtod_of_accepts hacc
    exact ⟨h1, h2, e1 ▸ e2 ▸ h3⟩

end Percival.Proofs.ParsenumFloat
