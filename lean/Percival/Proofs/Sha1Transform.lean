import Percival.Model.Sha1
import Percival.Spec.Sha1
import Percival.Proofs.Schedule
import Percival.Proofs.FoldFin
import Percival.Proofs.Sha256Transform
/-! `Model.Sha1.transform` (the C's macro-structured `SHA1_Transform`) is the FIPS 180-4 SHA-1
compression function `Spec.Sha1.compress` (helper lemmas for C01 / P2). -/
namespace Percival.Proofs.Sha1T
open Percival Percival.Model.Sha1
open Percival.Spec (Bytes wordsBE)
open Percival.Proofs.Sha256T (wordsBE_length)

theorem ch_eq (x y z : UInt32) : Model.Sha1.Ch x y z = Spec.Sha1.Ch x y z := Sha256T.ch_eq x y z
theorem maj_eq (x y z : UInt32) : Model.Sha1.Maj x y z = Spec.Sha1.Maj x y z := Sha256T.maj_eq x y z
theorem rotl_eq (x n : UInt32) : Model.Sha1.ROTL x n = Spec.Sha1.rotl x n := rfl

/-- the macro used by line `t` and its constant are `f_t`, `K_t` of FIPS 180-4 -/
theorem kind_eq (t : Fin 80) :
    roundKind[t] = if t.val < 20 then 0 else if t.val < 40 then 1 else if t.val < 60 then 2 else 3 := by
  revert t; decide

theorem rndF_eq (t : Fin 80) (b c d : UInt32) : rndF roundKind[t] b c d = Spec.Sha1.f t.val b c d := by
  rw [kind_eq]; unfold Spec.Sha1.f
  split
  · exact ch_eq b c d
  · split
    · rfl
    · split
      · exact maj_eq b c d
      · rfl

theorem rndK_eq (t : Fin 80) : rndK roundKind[t] = Spec.Sha1.K t.val := by
  rw [kind_eq]; unfold Spec.Sha1.K
  split
  · decide
  · split
    · decide
    · split <;> decide

/-- the working variables `a … e` as line `i` sees them -/
def regsAt (S : Vector UInt32 5) (i : Nat) : Spec.Sha1.Regs :=
  ⟨S[slot 80 i], S[slot 81 i], S[slot 82 i], S[slot 83 i], S[slot 84 i]⟩

theorem RND_spec (kind : Nat) (S : Vector UInt32 5) (a b c d e : Fin 5) (k : UInt32)
    (hab : a ≠ b) (hae : a ≠ e) (hbe : b ≠ e) (hcb : c ≠ b) (hce : c ≠ e) (hdb : d ≠ b) (hde : d ≠ e) :
    let S' := RND kind S a b c d e k
    S'[a] = S[a] ∧ S'[c] = S[c] ∧ S'[d] = S[d] ∧ S'[b] = ROTL S[b] 30 ∧
    S'[e] = ROTL S[a] 5 + rndF kind S[b] S[c] S[d] + S[e] + k + rndK kind := by
  simp only [RND]
  have := Fin.val_ne_of_ne hab
  have := Fin.val_ne_of_ne hab.symm
  have := Fin.val_ne_of_ne hae
  have := Fin.val_ne_of_ne hae.symm
  have := Fin.val_ne_of_ne hbe
  have := Fin.val_ne_of_ne hbe.symm
  have := Fin.val_ne_of_ne hcb
  have := Fin.val_ne_of_ne hcb.symm
  have := Fin.val_ne_of_ne hce
  have := Fin.val_ne_of_ne hce.symm
  have := Fin.val_ne_of_ne hdb
  have := Fin.val_ne_of_ne hdb.symm
  have := Fin.val_ne_of_ne hde
  have := Fin.val_ne_of_ne hde.symm
  simp [Fin.getElem_fin, *]

theorem slot_succ (n i : Nat) (hi : i < 80) (hn : 80 ≤ n) : slot (n + 1) (i + 1) = slot n i := by
  apply Fin.ext; simp only [slot]; omega

theorem slot_80_succ (i : Nat) (hi : i < 80) : slot 80 (i + 1) = slot 84 i := by
  apply Fin.ext; simp only [slot]; omega

theorem slot_ne (n m i : Nat) (hi : i ≤ 80) (hn : 80 ≤ n) (hm : 80 ≤ m) (hnm : n % 5 ≠ m % 5) :
    slot n i ≠ slot m i := by
  intro h; have := congrArg Fin.val h; simp only [slot] at this; omega

/-- line `i` performs step `t = i` of §6.1.2 step 3 -/
theorem RNDr_spec (S : Vector UInt32 5) (W : Vector UInt32 80) (i : Fin 80) :
    regsAt (RNDr S W i) (i.val + 1) = Spec.Sha1.round (regsAt S i.val) i.val W[i] := by
  have hi : i.val < 80 := i.isLt
  have hi' : i.val ≤ 80 := by omega
  obtain ⟨ha, hc, hd, hb, he⟩ := RND_spec roundKind[i] S (slot 80 i) (slot 81 i) (slot 82 i) (slot 83 i) (slot 84 i) W[i]
    (slot_ne _ _ _ hi' (by omega) (by omega) (by omega)) (slot_ne _ _ _ hi' (by omega) (by omega) (by omega))
    (slot_ne _ _ _ hi' (by omega) (by omega) (by omega)) (slot_ne _ _ _ hi' (by omega) (by omega) (by omega))
    (slot_ne _ _ _ hi' (by omega) (by omega) (by omega)) (slot_ne _ _ _ hi' (by omega) (by omega) (by omega))
    (slot_ne _ _ _ hi' (by omega) (by omega) (by omega))
  simp only [regsAt, Spec.Sha1.round, RNDr]
  simp only [slot_80_succ _ hi, slot_succ 80 _ hi (by omega), slot_succ 81 _ hi (by omega), slot_succ 82 _ hi (by omega),
    slot_succ 83 _ hi (by omega)]
  rw [ha, hc, hd, hb, he, rndF_eq, rndK_eq]
  simp only [rotl_eq]
  congr 1
  ac_rfl

/-! ### the eighty lines -/

def wf (W : Vector UInt32 80) (t : Nat) : UInt32 := if h : t < 80 then W[t] else 0

def rnd (r : Spec.Sha1.Regs) (wt : UInt32 × Nat) : Spec.Sha1.Regs := Spec.Sha1.round r wt.2 wt.1

def RNDr' (W : Vector UInt32 80) (S : Vector UInt32 5) (i : Nat) : Vector UInt32 5 :=
  if h : i < 80 then RNDr S W ⟨i, h⟩ else S

theorem fold_RNDr (W : Vector UInt32 80) (n j : Nat) (S : Vector UInt32 5) (h : j + n ≤ 80) :
    regsAt ((List.range' j n).foldl (RNDr' W) S) (j + n) =
      ((List.range' j n).map (fun t => (wf W t, t))).foldl rnd (regsAt S j) := by
  induction n generalizing j S with
  | zero => simp
  | succ n ih =>
    simp only [List.range'_succ, List.foldl_cons, List.map_cons]
    have hj : j < 80 := by omega
    have h1 := ih (j + 1) (RNDr' W S j) (by omega)
    rw [show j + 1 + n = j + (n + 1) by omega] at h1
    rw [h1]
    congr 1
    have := RNDr_spec S W ⟨j, hj⟩
    simp only [RNDr', hj, dite_true]
    rw [this]
    simp only [rnd, wf, hj, dite_true]
    rfl

theorem regsAt_80 (S : Vector UInt32 5) : regsAt S 80 = regsAt S 0 := rfl

theorem mix_spec (S : Vector UInt32 5) (W : Vector UInt32 80) :
    regsAt ((List.finRange 80).foldl (fun S i => RNDr S W i) S) 0 =
      ((List.range' 0 80).map (fun t => (wf W t, t))).foldl rnd (regsAt S 0) := by
  rw [FoldFin.foldl_finRange 80 (fun S i => RNDr S W i) (RNDr' W)
    (by intro s i; simp [RNDr', i.isLt]), ← regsAt_80]
  exact fold_RNDr W 80 0 S (by omega)

/-! ### the message schedule -/

def step' (W : Vector UInt32 80) (n : Nat) : Vector UInt32 80 :=
  if h : 16 ≤ n ∧ n < 80 then schedStep W ⟨n - 16, by omega⟩ else W

theorem wf_step'_ne (W : Vector UInt32 80) (n t : Nat) (hne : t ≠ n) : wf (step' W n) t = wf W t := by
  unfold wf step'
  by_cases ht : t < 80
  · simp only [ht, dite_true]
    split
    · rename_i h
      simp only [schedStep]
      rw [Vector.getElem_set_ne, Vector.getElem_set_ne] <;> omega
    · rfl
  · simp [ht]

theorem wf_step'_self (W : Vector UInt32 80) (n : Nat) (h : 16 ≤ n ∧ n < 80) :
    wf (step' W n) n = Spec.Sha1.rotl (wf W (n - 3) ^^^ wf W (n - 8) ^^^ wf W (n - 14) ^^^ wf W (n - 16)) 1 := by
  unfold wf step'
  simp only [h, and_self, dite_true, schedStep,
    show n - 3 < 80 by omega, show n - 8 < 80 by omega, show n - 14 < 80 by omega, show n - 16 < 80 by omega]
  simp only [show n - 16 + 16 = n by omega, show n - 16 + 13 = n - 3 by omega, show n - 16 + 8 = n - 8 by omega,
    show n - 16 + 2 = n - 14 by omega, Vector.getElem_set_self, rotl_eq]

theorem fold_step' (m s : Nat) (W : Vector UInt32 80) (hs : 16 ≤ s) (hm : s + m ≤ 80) :
    (∀ t, t < s → wf ((List.range' s m).foldl step' W) t = wf W t) ∧
    (∀ t, s ≤ t → t < s + m → wf ((List.range' s m).foldl step' W) t =
      Spec.Sha1.rotl (wf ((List.range' s m).foldl step' W) (t - 3) ^^^ wf ((List.range' s m).foldl step' W) (t - 8)
        ^^^ wf ((List.range' s m).foldl step' W) (t - 14) ^^^ wf ((List.range' s m).foldl step' W) (t - 16)) 1) := by
  induction m generalizing s W with
  | zero => exact ⟨fun _ _ => rfl, fun t h1 h2 => by omega⟩
  | succ m ih =>
    simp only [List.range'_succ, List.foldl_cons]
    obtain ⟨i1, i2⟩ := ih (s + 1) (step' W s) (by omega) (by omega)
    refine ⟨?_, ?_⟩
    · intro t ht
      rw [i1 t (by omega), wf_step'_ne _ _ _ (by omega)]
    · intro t h1 h2
      by_cases hts : t = s
      · subst hts
        rw [i1 t (by omega), i1 (t - 3) (by omega), i1 (t - 8) (by omega), i1 (t - 14) (by omega), i1 (t - 16) (by omega)]
        rw [wf_step'_self _ _ (by omega), wf_step'_ne _ _ (t - 3) (by omega), wf_step'_ne _ _ (t - 8) (by omega),
          wf_step'_ne _ _ (t - 14) (by omega), wf_step'_ne _ _ (t - 16) (by omega)]
      · exact i2 t (by omega) (by omega)

/-- the vector after the schedule loop -/
def Wf (W0 : Vector UInt32 80) : Vector UInt32 80 := (List.range' 16 64).foldl step' W0

theorem sched_loop (W0 : Vector UInt32 80) : (List.finRange 64).foldl schedStep W0 = Wf W0 := by
  rw [FoldFin.foldl_finRange 64 schedStep (fun W j => step' W (j + 16))
    (by intro s i; have := i.isLt; simp [step']; omega)]
  unfold Wf
  have : List.range' 16 64 = (List.range' 0 64).map (· + 16) := by decide
  rw [this, List.foldl_map]

theorem wf_decodeBlock (block : Bytes) (hb : block.length = 64) (t : Nat) (ht : t < 16) :
    wf (decodeBlock block) t = (wordsBE block).getD t 0 := by
  have hl : (wordsBE block).length = 16 := by rw [wordsBE_length, hb]
  unfold wf decodeBlock
  simp only [show t < 80 by omega, dite_true]
  simp only [Vector.getElem_mk, List.getElem_toArray, List.getElem_take]
  rw [List.getElem_append_left (by omega)]
  simp [List.getD_eq_getElem?_getD, List.getElem?_eq_getElem (show t < (wordsBE block).length by omega)]

theorem sched1 (block : Bytes) (hb : block.length = 64) :
    (Schedule.R Spec.Sha1.nextW (wordsBE block) 64).length = 16 + 64 ∧
    (∀ t, t < 16 → (Schedule.R Spec.Sha1.nextW (wordsBE block) 64).getD t 0 = (wordsBE block).getD t 0) ∧
    (∀ t, 16 ≤ t → t < 16 + 64 → (Schedule.R Spec.Sha1.nextW (wordsBE block) 64).getD t 0 =
      Spec.Sha1.rotl ((Schedule.R Spec.Sha1.nextW (wordsBE block) 64).getD (t - 1 - 2) 0 ^^^
        (Schedule.R Spec.Sha1.nextW (wordsBE block) 64).getD (t - 1 - 7) 0 ^^^
        (Schedule.R Spec.Sha1.nextW (wordsBE block) 64).getD (t - 1 - 13) 0 ^^^
        (Schedule.R Spec.Sha1.nextW (wordsBE block) 64).getD (t - 1 - 15) 0) 1) :=
  Schedule.sched_spec Spec.Sha1.nextW
    (fun w3 w8 w14 w16 => Spec.Sha1.rotl (w3 ^^^ w8 ^^^ w14 ^^^ w16) 1) 2 7 13 15
    (by omega) (by omega) (by omega) (by omega)
    (by
      intro l h
      match l, h with
      | _ :: _ :: w3 :: _ :: _ :: _ :: _ :: w8 :: _ :: _ :: _ :: _ :: _ :: w14 :: _ :: w16 :: _, _ => rfl)
    (wordsBE block) (by rw [wordsBE_length, hb]) 64

theorem Wf_eq_spec (block : Bytes) (hb : block.length = 64) (t : Nat) (ht : t < 80) :
    wf (Wf (decodeBlock block)) t = (Spec.Sha1.schedule block).getD t 0 := by
  obtain ⟨_, s16, srec⟩ := sched1 block hb
  obtain ⟨m16, mrec⟩ := fold_step' 64 16 (decodeBlock block) (by omega) (by omega)
  show wf (Wf (decodeBlock block)) t = (Schedule.R Spec.Sha1.nextW (wordsBE block) 64).getD t 0
  induction t using Nat.strongRecOn with
  | _ t ih =>
    by_cases h16 : t < 16
    · rw [s16 t h16]
      unfold Wf
      rw [m16 t h16, wf_decodeBlock block hb t h16]
    · rw [srec t (by omega) (by omega)]
      unfold Wf at ih ⊢
      rw [mrec t (by omega) (by omega)]
      rw [ih (t - 3) (by omega) (by omega), ih (t - 8) (by omega) (by omega), ih (t - 14) (by omega) (by omega),
        ih (t - 16) (by omega) (by omega)]
      rw [show t - 1 - 2 = t - 3 by omega, show t - 1 - 7 = t - 8 by omega, show t - 1 - 13 = t - 14 by omega,
        show t - 1 - 15 = t - 16 by omega]

theorem zipIdx_eq_map_range (ws : List UInt32) (n : Nat) (hw : ws.length = n) :
    ws.zipIdx = (List.range' 0 n).map (fun t => (ws.getD t 0, t)) := by
  apply List.ext_getElem
  · simp [hw]
  · intro i h1 h2
    simp only [List.length_zipIdx, hw] at h1
    simp [List.getD_eq_getElem?_getD, hw, h1]

theorem rounds_spec (H : Spec.Sha1.Regs) (block : Bytes) (hb : block.length = 64) :
    Spec.Sha1.rounds H (Spec.Sha1.schedule block) =
      ((List.range' 0 80).map (fun t => (wf (Wf (decodeBlock block)) t, t))).foldl rnd H := by
  have hz := zipIdx_eq_map_range (Spec.Sha1.schedule block) 80 (sched1 block hb).1
  unfold Spec.Sha1.rounds
  rw [hz]
  have : (List.range' 0 80).map (fun t => ((Spec.Sha1.schedule block).getD t 0, t))
      = (List.range' 0 80).map (fun t => (wf (Wf (decodeBlock block)) t, t)) := by
    apply List.map_congr_left
    intro t ht
    simp only [List.mem_range'_1] at ht
    rw [Wf_eq_spec block hb t (by omega)]
  rw [this]
  rfl

end Percival.Proofs.Sha1T
