import Percival.Model.NetbufStep
/-!
# C07 helper lemmas: the monitor's stream functions as functions of a token stream

The monitor (`Spec/NetbufMon.lean`) keeps the scripted stream as a list of items (`data d`, `eof`, `err`) with the
chunking of the script; the model (`Model/NetbufStep.lean`) keeps part of it in the reader's buffer and the rest
in the kernel queue, chunked by what `recv` could take.  Both denote the same *token stream* (bytes with
end-of-stream / error marks in between); `dataBefore`, `takeData`, `firstMark`, `dropMark`, `dropData` are
functions of that token stream.
-/
namespace Percival.Proofs.NetbufMonTok
open Percival.Spec.ByteStream Percival.Spec.NetbufMon Percival.Model.NetbufStep

inductive Tok where
  | byte (b : UInt8)
  | eof
  | err
  deriving DecidableEq

/-- the token stream of the monitor's items -/
def toks : List RItem → List Tok
  | [] => []
  | .data d :: rest => d.map .byte ++ toks rest
  | .eof :: rest => .eof :: toks rest
  | .err :: rest => .err :: toks rest

/-- the token stream of the scripted kernel answers (`EAGAIN` answers carry nothing) -/
def qtoks : List KAns → List Tok
  | [] => []
  | .data d :: rest => d.map .byte ++ qtoks rest
  | .eagain :: rest => qtoks rest
  | .eof :: rest => .eof :: qtoks rest
  | .err :: rest => .err :: qtoks rest

/-- the bytes before the first mark -/
def lead : List Tok → Bytes
  | .byte b :: t => b :: lead t
  | _ => []

def markOf : List Tok → Option Int
  | .byte _ :: t => markOf t
  | .eof :: _ => some 1
  | .err :: _ => some (-1)
  | [] => none

def dropMarkT : List Tok → List Tok
  | .byte b :: t => .byte b :: dropMarkT t
  | .eof :: t => t
  | .err :: t => t
  | [] => []

/-! ## bytes in front -/

theorem lead_bytes (v : Bytes) (t : List Tok) : lead (v.map .byte ++ t) = v ++ lead t := by
  induction v with
  | nil => rfl
  | cons b v ih => simp [lead, ih]

theorem markOf_bytes (v : Bytes) (t : List Tok) : markOf (v.map .byte ++ t) = markOf t := by
  induction v with
  | nil => rfl
  | cons b v ih => simp [markOf, ih]

theorem dropMarkT_bytes (v : Bytes) (t : List Tok) : dropMarkT (v.map .byte ++ t) = v.map .byte ++ dropMarkT t := by
  induction v with
  | nil => rfl
  | cons b v ih => simp [dropMarkT, ih]

theorem drop_bytes (v : Bytes) (t : List Tok) (n : Nat) (h : n ≤ v.length) :
    (v.map Tok.byte ++ t).drop n = (v.drop n).map .byte ++ t := by
  rw [List.drop_append_of_le_length (by simpa using h), List.map_drop]

/-! ## the monitor's functions -/

theorem toks_append (l1 l2 : List RItem) : toks (l1 ++ l2) = toks l1 ++ toks l2 := by
  induction l1 with
  | nil => rfl
  | cons x l ih => cases x <;> simp [toks, ih]

theorem qtoks_append (l1 l2 : List KAns) : qtoks (l1 ++ l2) = qtoks l1 ++ qtoks l2 := by
  induction l1 with
  | nil => rfl
  | cons x l ih => cases x <;> simp [qtoks, ih]

theorem dataBefore_eq (l : List RItem) : dataBefore l = (lead (toks l)).length := by
  induction l with
  | nil => rfl
  | cons x l ih =>
    cases x with
    | data d => simp [dataBefore, toks, lead_bytes, ih]
    | eof => simp [dataBefore, toks, lead]
    | err => simp [dataBefore, toks, lead]

theorem takeData_eq (l : List RItem) : ∀ n, takeData n l = (lead (toks l)).take n := by
  induction l with
  | nil => intro n; simp [takeData, toks, lead]
  | cons x l ih =>
    intro n
    cases x with
    | data d =>
      simp only [takeData, toks, lead_bytes]
      split
      · rename_i h
        rw [List.take_append_of_le_length h]
      · rename_i h
        rw [List.take_append, ih]
        have : List.take n d = d := List.take_of_length_le (by omega)
        rw [this]
    | eof => simp [takeData, toks, lead]
    | err => simp [takeData, toks, lead]

theorem firstMark_eq (l : List RItem) : firstMark l = markOf (toks l) := by
  induction l with
  | nil => rfl
  | cons x l ih =>
    cases x with
    | data d => simp [firstMark, toks, markOf_bytes, ih]
    | eof => simp [firstMark, toks, markOf]
    | err => simp [firstMark, toks, markOf]

theorem toks_dropMark (l : List RItem) : toks (dropMark l) = dropMarkT (toks l) := by
  induction l with
  | nil => rfl
  | cons x l ih =>
    cases x with
    | data d => simp [dropMark, toks, dropMarkT_bytes, ih]
    | eof => simp [dropMark, toks, dropMarkT]
    | err => simp [dropMark, toks, dropMarkT]

theorem toks_dropData (l : List RItem) : ∀ n, n ≤ dataBefore l → toks (dropData n l) = (toks l).drop n := by
  induction l with
  | nil => intro n h; simp [dataBefore] at h; subst h; simp [dropData, toks]
  | cons x l ih =>
    intro n h
    cases x with
    | data d =>
      simp only [dataBefore] at h
      simp only [dropData, toks]
      split
      · rename_i hn
        simp only [toks]
        rw [drop_bytes _ _ _ (by omega)]
      · rename_i hn
        rw [ih _ (by omega), List.drop_append]
        simp only [List.length_map]
        have : List.drop n (List.map Tok.byte d) = [] := List.drop_eq_nil_of_le (by simp; omega)
        rw [this, List.nil_append]
    | eof => simp [dataBefore] at h; subst h; simp [dropData]
    | err => simp [dataBefore] at h; subst h; simp [dropData]

end Percival.Proofs.NetbufMonTok
