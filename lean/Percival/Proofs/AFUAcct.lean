import Percival.Proofs.AFUTop
import Percival.Proofs.EvRegAcct
/-!
# C14, upper layers: the ghost counter `evLive` is the event layer's block count

`World.evLive` is moved by `setEv` only, by the change of `Mem.live` across each call into the event layer.
`Proofs/EvRegAcct.lean` shows that every such call changes `Mem.live` by exactly the change of `evBlocks`; so
`evLive = evBlocks ev` along every run (`EvAcct`), and with `Inv.acct` the oracle's counter is
`|live| + |cache| + evBlocks ev`.  Once every object has been released, the exit handlers (`atexitAll`) free
every block: `atexitAll_frees_everything`.
-/
namespace Percival.Proofs.AllocFailUpper
open Percival.Model Percival.Model.EvReg Percival.Model.AllocFail
open Percival.Proofs.EvRegNet (regNet netRegistered NetInv)
open Percival.Proofs.EvRegTimer (regImm regTimers TmInv Step Granted)
open Percival.Proofs.EArray (malloc_ok malloc_fail free_facts)
open Percival.Model.Connect (AddrOutcome)
open Percival.Proofs.EvRegAcct

/-- the ghost counter is the event layer's block count (and the structural fact the count needs) -/
def EvAcct (w : World) : Prop := w.evLive = evBlocks w.ev ∧ AcctInv w.ev

theorem evAcct_init (m : Mem) : EvAcct ({ m := m } : World) := ⟨evBlocks_init.symm, acctInv_init⟩

namespace Acct

/-! ### frame: what does not call into the event layer -/

/-- same event-layer state and ghost counter -/
def EvSame (w w' : World) : Prop := w'.ev = w.ev ∧ w'.evLive = w.evLive

theorem EvSame.refl (w : World) : EvSame w w := ⟨rfl, rfl⟩

theorem EvSame.trans {a b c : World} (h1 : EvSame a b) (h2 : EvSame b c) : EvSame a c :=
  ⟨h2.1.trans h1.1, h2.2.trans h1.2⟩

theorem evAcct_same {w w' : World} (h : EvAcct w) (s : EvSame w w') : EvAcct w' := by
  unfold EvAcct; rw [s.1, s.2]; exact h

theorem alloc_same (w : World) (site : Site) (sz : Nat) : EvSame w (alloc w site sz).2 := by
  unfold alloc; split <;> exact ⟨rfl, rfl⟩

theorem release_same (w : World) (id : Nat) : EvSame w (release w id) := by
  unfold release; split <;> exact ⟨rfl, rfl⟩

theorem park_same (w : World) (id : Nat) : EvSame w (park w id) := by
  unfold park; split <;> exact ⟨rfl, rfl⟩

theorem unpark_same (w : World) (id : Nat) : EvSame w (unpark w id) := by
  unfold unpark; split <;> exact ⟨rfl, rfl⟩

theorem poolMalloc_same (p : MPool.MP) (site : Site) (len : Nat) (w : World) :
    EvSame w (poolMalloc p site len w).2.2 := by
  unfold poolMalloc
  dsimp only
  split
  · exact unpark_same _ _
  · exact alloc_same _ _ _

theorem poolFree_same (p : MPool.MP) (stackSite : Site) (obj : Nat) (w : World) :
    EvSame w (poolFree p stackSite obj w).2 := by
  unfold poolFree
  split
  · exact park_same _ _
  · split
    · have ha := alloc_same w stackSite ((p.allocsize * 2 * 8) % EArray.SZ)
      split
      · rename_i a w1 heq
        rw [heq] at ha
        dsimp only at ha ⊢
        refine ha.trans (EvSame.trans ?_ ((park_same _ _).trans (park_same _ _)))
        split
        · split <;> exact ⟨rfl, rfl⟩
        · exact EvSame.refl _
      · rename_i w1 heq
        rw [heq] at ha
        exact ha.trans (release_same _ _)
    · exact release_same _ _

theorem releaseBufs_same : ∀ (l : List WBuf) (w : World), EvSame w (releaseBufs w l)
  | [], w => EvSame.refl w
  | _ :: rest, _ => ((release_same _ _).trans (release_same _ _)).trans (releaseBufs_same rest _)

/-! ### the calls into the event layer -/

theorem evAcct_setEv {w : World} {e' : Ev} {m' : Mem} (h : EvAcct w)
    (hl : m'.live - w.m.live = evBlocks e' - evBlocks w.ev) (ha : AcctInv e') : EvAcct (setEv w e' m') := by
  refine ⟨?_, ha⟩
  show w.evLive + (m'.live - w.m.live) = evBlocks e'
  rw [h.1, hl]; omega

theorem evAcct_netReg {w : World} {id s : Nat} {b : Bool} {res : NetRes} {e' : Ev} {m' : Mem} (h : EvAcct w)
    (hr : netReg w.ev id s b w.m = (res, e', m')) : EvAcct (setEv w e' m') := by
  have h1 := netReg_master w.ev id s b w.m h.2
  rw [hr] at h1
  exact evAcct_setEv h h1.1 h1.2

theorem evAcct_netCancel {w : World} {s : Nat} {b : Bool} {res : NetRes} {e' : Ev} {m' : Mem} (h : EvAcct w)
    (hr : netCancel w.ev s b w.m = (res, e', m')) : EvAcct (setEv w e' m') := by
  have h1 := netCancel_master w.ev s b w.m h.2
  rw [hr] at h1
  exact evAcct_setEv h h1.1 h1.2

theorem evAcct_immReg {w : World} {id : Nat} {ok : Bool} {e' : Ev} {m' : Mem} (h : EvAcct w)
    (hh : 0 < (regImm w.ev).length) (hr : immReg w.ev id 0 w.m = (ok, e', m')) : EvAcct (setEv w e' m') := by
  have h1 := immReg_acct w.ev id 0 w.m hh
  have h2 := immReg_acctInv w.ev id 0 w.m h.2
  rw [hr] at h1 h2
  exact evAcct_setEv h h1 h2

theorem evAcct_tmReg {w : World} {id : Nat} {usec : Int} {ok : Bool} {e' : Ev} {m' : Mem} (h : EvAcct w)
    (hr : tmReg w.ev id usec w.now w.m = (ok, e', m')) : EvAcct (setEv w e' m') := by
  have h1 := tmReg_acct w.ev id usec w.now w.m
  have h2 := tmReg_acctInv w.ev id usec w.now w.m h.2
  rw [hr] at h1 h2
  exact evAcct_setEv h h1 h2

theorem evAcct_timerCancel {w : World} (id : Nat) (h : EvAcct w) (hnd : (regTimers w.ev).Nodup) :
    EvAcct (timerCancel w id) := by
  unfold timerCancel
  cases hc : tmCancel w.ev id w.m with
  | none => exact ⟨h.1, h.2⟩
  | some p =>
    obtain ⟨e', m'⟩ := p
    exact evAcct_setEv h (tmCancel_acct' _ _ _ hnd hc) (tmCancel_acctInv _ _ _ h.2 hc)

theorem evAcct_immediateCancel {w : World} (id : Nat) (h : EvAcct w) (hnd : (regImm w.ev).flatten.Nodup) :
    EvAcct (immediateCancel w id) := by
  unfold immediateCancel
  cases hc : immCancel w.ev id w.m with
  | none => exact ⟨h.1, h.2⟩
  | some p =>
    obtain ⟨e', m'⟩ := p
    exact evAcct_setEv h (immCancel_acct _ _ _ hnd hc) (immCancel_acctInv _ _ _ h.2 hc)

/-! ### the side conditions of the cancels, through the calls that precede them -/

/-- the immediate queues exist; pending immediate events and registered timers have distinct ids -/
def Side (e : Ev) : Prop := 0 < (regImm e).length ∧ (regImm e).flatten.Nodup ∧ (regTimers e).Nodup

theorem side_of_inv {w : World} (h : Inv0 w) : Side w.ev :=
  ⟨h.ev.heads, h.regImm.nodup_iff.2 (expImm_nodup h.owns.nodupE), h.ev.tm.nodup⟩

theorem side_congr {e e' : Ev} (h : Side e) (h1 : regImm e' = regImm e) (h2 : regTimers e' = regTimers e) : Side e' := by
  unfold Side; rw [h1, h2]; exact h

theorem side_netReg {e : Ev} {id s : Nat} {b : Bool} {m : Mem} {res : NetRes} {e' : Ev} {m' : Mem} (h : Side e)
    (hr : netReg e id s b m = (res, e', m')) : Side e' := by
  have := netReg_regs_other e id s b m
  rw [hr] at this
  exact side_congr h this.1 this.2

theorem side_netCancel {e : Ev} {s : Nat} {b : Bool} {m : Mem} {res : NetRes} {e' : Ev} {m' : Mem} (h : Side e)
    (hr : netCancel e s b m = (res, e', m')) : Side e' := by
  have := netCancel_regs_other e s b m
  rw [hr] at this
  exact side_congr h this.1 this.2

theorem side_timerCancel {w : World} (id : Nat) (h : Side w.ev) : Side (timerCancel w id).ev := by
  unfold timerCancel
  cases hc : tmCancel w.ev id w.m with
  | none => exact h
  | some p =>
    obtain ⟨e', m'⟩ := p
    show Side e'
    unfold tmCancel at hc
    split at hc
    · split at hc
      · cases hc
      · simp only [EvRegTimer.freerec_eq, Option.some.injEq, Prod.mk.injEq] at hc
        obtain ⟨rfl, rfl⟩ := hc
        refine ⟨h.1, h.2.1, ?_⟩
        show ((w.ev.timers.filter (·.id != id)).map (·.id)).Nodup
        exact (List.filter_sublist.map _).nodup h.2.2
    · cases hc

/-! ### network_read.c / network_write.c / network_accept.c -/

theorem networkRead_acct (w : World) (fd : Nat) (h : EvAcct w) : EvAcct (networkRead w fd).2 := by
  unfold networkRead
  have s1 := poolMalloc_same w.rdPool .rdCookie rdCookieSize w
  rcases hpm : poolMalloc w.rdPool .rdCookie rdCookieSize w with ⟨o, p, w1⟩
  rw [hpm] at s1
  cases o with
  | none => exact evAcct_same h (s1.trans ⟨rfl, rfl⟩)
  | some c =>
    dsimp only at s1 ⊢
    have g1 : EvAcct { w1 with rdPool := p } := evAcct_same h (s1.trans ⟨rfl, rfl⟩)
    rcases hnr : netReg w1.ev c fd false w1.m with ⟨res, e', m'⟩
    have g2 : EvAcct (setEv { w1 with rdPool := p } e' m') := evAcct_netReg g1 hnr
    cases res
    case ok => exact evAcct_same g2 ⟨rfl, rfl⟩
    all_goals
      dsimp only
      have s3 := poolFree_same p .rdStack c (setEv { w1 with rdPool := p } e' m')
      exact evAcct_same g2 (s3.trans ⟨rfl, rfl⟩)

theorem networkWrite_acct (w : World) (fd : Nat) (h : EvAcct w) : EvAcct (networkWrite w fd).2 := by
  unfold networkWrite
  have s1 := poolMalloc_same w.wrPool .wrCookie wrCookieSize w
  rcases hpm : poolMalloc w.wrPool .wrCookie wrCookieSize w with ⟨o, p, w1⟩
  rw [hpm] at s1
  cases o with
  | none => exact evAcct_same h (s1.trans ⟨rfl, rfl⟩)
  | some c =>
    dsimp only at s1 ⊢
    have g1 : EvAcct { w1 with wrPool := p } := evAcct_same h (s1.trans ⟨rfl, rfl⟩)
    rcases hnr : netReg w1.ev c fd true w1.m with ⟨res, e', m'⟩
    have g2 : EvAcct (setEv { w1 with wrPool := p } e' m') := evAcct_netReg g1 hnr
    cases res
    case ok => exact evAcct_same g2 ⟨rfl, rfl⟩
    all_goals
      dsimp only
      have s3 := poolFree_same p .wrStack c (setEv { w1 with wrPool := p } e' m')
      exact evAcct_same g2 (s3.trans ⟨rfl, rfl⟩)

/-- a cancel of a read keeps the side conditions too (an immediate cancel may follow it) -/
theorem networkReadCancel_acct (w : World) (c : Nat) (h : EvAcct w) {w' : World}
    (hc : networkReadCancel w c = some w') : EvAcct w' ∧ (Side w.ev → Side w'.ev) := by
  unfold networkReadCancel at hc
  split at hc
  · cases hc
  · rename_i r _
    rcases hnc : netCancel w.ev r.fd false w.m with ⟨res, e', m'⟩
    rw [hnc] at hc
    dsimp only at hc
    have g1 : EvAcct (setEv w e' m') := evAcct_netCancel h hnc
    have s2 : EvSame (setEv w e' m') (if res = .ok then setEv w e' m' else { setEv w e' m' with bad := (setEv w e' m').bad + 1 }) := by
      split <;> exact ⟨rfl, rfl⟩
    generalize (if res = .ok then setEv w e' m' else { setEv w e' m' with bad := (setEv w e' m').bad + 1 }) = w1 at hc s2
    have s3 := poolFree_same w1.rdPool .rdStack c w1
    simp only [Option.some.injEq] at hc
    subst hc
    have sAll := s2.trans (s3.trans ⟨rfl, rfl⟩)
    refine ⟨evAcct_same g1 sAll, fun hs => ?_⟩
    have : Side e' := side_netCancel hs hnc
    show Side (_ : World).ev
    rw [sAll.1]; exact this

theorem networkWriteCancel_acct (w : World) (c : Nat) (h : EvAcct w) {w' : World}
    (hc : networkWriteCancel w c = some w') : EvAcct w' := by
  unfold networkWriteCancel at hc
  split at hc
  · cases hc
  · rename_i r _
    rcases hnc : netCancel w.ev r.fd true w.m with ⟨res, e', m'⟩
    rw [hnc] at hc
    dsimp only at hc
    have g1 : EvAcct (setEv w e' m') := evAcct_netCancel h hnc
    have s2 : EvSame (setEv w e' m') (if res = .ok then setEv w e' m' else { setEv w e' m' with bad := (setEv w e' m').bad + 1 }) := by
      split <;> exact ⟨rfl, rfl⟩
    generalize (if res = .ok then setEv w e' m' else { setEv w e' m' with bad := (setEv w e' m').bad + 1 }) = w1 at hc s2
    have s3 := poolFree_same w1.wrPool .wrStack c w1
    simp only [Option.some.injEq] at hc
    subst hc
    exact evAcct_same g1 (s2.trans (s3.trans ⟨rfl, rfl⟩))

theorem networkAccept_acct (w : World) (fd : Nat) (h : EvAcct w) : EvAcct (networkAccept w fd).2 := by
  unfold networkAccept
  have s1 := alloc_same w .acceptCookie acceptCookieSize
  rcases ha : alloc w .acceptCookie acceptCookieSize with ⟨o, w1⟩
  rw [ha] at s1
  cases o with
  | none => exact evAcct_same h s1
  | some c =>
    dsimp only at s1 ⊢
    have g1 : EvAcct w1 := evAcct_same h s1
    rcases hnr : netReg w1.ev c fd false w1.m with ⟨res, e', m'⟩
    have g2 : EvAcct (setEv w1 e' m') := evAcct_netReg g1 hnr
    cases res
    case ok => exact evAcct_same g2 ⟨rfl, rfl⟩
    all_goals exact evAcct_same g2 (release_same _ _)

theorem networkAcceptCancel_acct (w : World) (c : Nat) (h : EvAcct w) {w' : World}
    (hc : networkAcceptCancel w c = some w') : EvAcct w' := by
  unfold networkAcceptCancel at hc
  split at hc
  · cases hc
  · rename_i r _
    rcases hnc : netCancel w.ev r.fd false w.m with ⟨res, e', m'⟩
    rw [hnc] at hc
    dsimp only at hc
    have g1 : EvAcct (setEv w e' m') := evAcct_netCancel h hnc
    have s2 : EvSame (setEv w e' m') (if res = .ok then setEv w e' m' else { setEv w e' m' with bad := (setEv w e' m').bad + 1 }) := by
      split <;> exact ⟨rfl, rfl⟩
    generalize (if res = .ok then setEv w e' m' else { setEv w e' m' with bad := (setEv w e' m').bad + 1 }) = w1 at hc s2
    simp only [Option.some.injEq] at hc
    subst hc
    exact evAcct_same g1 (s2.trans ((release_same _ _).trans ⟨rfl, rfl⟩))

/-! ### network_connect.c -/

theorem immTail_acct (wa : World) (c : Nat) (h : EvAcct wa) (hh : 0 < (regImm wa.ev).length) :
    EvAcct (immTail wa c).2 := by
  unfold immTail
  rcases hr : immReg wa.ev c 0 wa.m with ⟨ok, e', m'⟩
  have g := evAcct_immReg h hh hr
  cases ok
  · exact evAcct_same g (release_same _ _)
  · exact evAcct_same g ⟨rfl, rfl⟩

theorem sockTail_acct (wa : World) (c s : Nat) (tb : Bool) (h : EvAcct wa) (hnd : tb = true → (regTimers wa.ev).Nodup) :
    EvAcct (sockTail wa c s tb).2 := by
  unfold sockTail
  rcases hr : netReg wa.ev c s true wa.m with ⟨res, e', m'⟩
  have g : EvAcct (setEv wa e' m') := evAcct_netReg h hr
  have hrt : regTimers e' = regTimers wa.ev := by
    have := (netReg_regs_other wa.ev c s true wa.m).2
    rw [hr] at this; exact this
  have g2 : EvAcct (if tb then timerCancel (setEv wa e' m') c else setEv wa e' m') := by
    cases tb
    · exact g
    · exact evAcct_timerCancel c g (by show (regTimers e').Nodup; rw [hrt]; exact hnd rfl)
  cases res
  case ok => exact evAcct_same g ⟨rfl, rfl⟩
  all_goals exact evAcct_same g2 (release_same _ _)

/-- `tryconnect` with a cookie that names no registered timer -/
theorem tryconnect_acct (w : World) (c : Nat) (addrs : List AddrOutcome) (timeo : Option Int) (s : Nat)
    (h : EvAcct w) (hs : Side w.ev) (hc : c ∉ regTimers w.ev) : EvAcct (tryconnect w c addrs timeo s).2 := by
  cases hsk : skipFailNow addrs with
  | nil => rw [tryconnect_imm w c addrs timeo s hsk]; exact immTail_acct w c h hs.1
  | cons a rest =>
    rw [tryconnect_sock w c addrs timeo s hsk]
    cases timeo with
    | none => exact sockTail_acct w c s false h (fun hf => by cases hf)
    | some t =>
      dsimp only
      rcases hr : tmReg w.ev c t w.now w.m with ⟨ok, e', m'⟩
      have g : EvAcct (setEv w e' m') := evAcct_tmReg h hr
      cases ok
      · exact evAcct_same g (release_same _ _)
      · refine sockTail_acct _ c s true g (fun _ => ?_)
        have := EvRegTimer.tmReg_ok w.ev c t w.now w.m (by rw [hr])
        rw [hr] at this
        show (regTimers e').Nodup
        rw [this]
        exact List.nodup_cons.2 ⟨hc, hs.2.2⟩

/-- registered timers were registered with cookies that exist already -/
def Fresh (w : World) : Prop := ∀ x ∈ regTimers w.ev, x < w.m.n

theorem fresh_of_inv {w : World} (h : Inv0 w) : Fresh w := fun _ hx => regTimers_lt h hx

theorem networkConnect_acct (w : World) (addrs : List AddrOutcome) (timeo : Option Int) (s : Nat)
    (h : EvAcct w) (hs : Side w.ev) (hf : Fresh w) : EvAcct (networkConnect w addrs timeo s).2 := by
  unfold networkConnect
  have s1 := alloc_same w .connCookie connCookieSize
  rcases ha : alloc w .connCookie connCookieSize with ⟨o, w1⟩
  rw [ha] at s1
  cases o with
  | none => exact evAcct_same h s1
  | some c =>
    dsimp only at s1 ⊢
    have hc : c = w.m.n := (alloc_some ha).1
    have g := tryconnect_acct w1 c addrs timeo s (evAcct_same h s1) (by rw [s1.1]; exact hs)
      (by rw [s1.1, hc]; intro hm; exact Nat.lt_irrefl _ (hf _ hm))
    rcases htc : tryconnect w1 c addrs timeo s with ⟨ok, w2⟩
    rw [htc] at g
    cases ok <;> exact g

theorem networkConnectCancel_acct (w : World) (c : Nat) (h : EvAcct w) (hs : Side w.ev) {w' : World}
    (hc : networkConnectCancel w c = some w') : EvAcct w' := by
  cases hfind : w.conns.find? (·.cookie == c) with
  | none => simp only [networkConnectCancel, hfind] at hc; cases hc
  | some k =>
    rw [networkConnectCancel_eq hfind] at hc
    simp only [Option.some.injEq] at hc
    subst hc
    have g1 : EvAcct (ccTimer w k c) ∧ Side (ccTimer w k c).ev := by
      unfold ccTimer
      cases k.timer
      · exact ⟨h, hs⟩
      · exact ⟨evAcct_timerCancel c h hs.2.2, side_timerCancel c hs⟩
    have g2 : EvAcct (ccImm (ccTimer w k c) k c) := by
      unfold ccImm
      cases k.imm
      · exact g1.1
      · exact evAcct_immediateCancel c g1.1 g1.2.2.1
    have g3 : EvAcct (ccSock (ccImm (ccTimer w k c) k c) k) := by
      generalize ccImm (ccTimer w k c) k c = w2 at g2
      unfold ccSock
      cases k.sock with
      | none => exact g2
      | some s =>
        dsimp only
        rcases hnc : netCancel w2.ev s true w2.m with ⟨res, e', m'⟩
        have g := evAcct_netCancel g2 hnc
        dsimp only
        split
        · exact g
        · exact evAcct_same g ⟨rfl, rfl⟩
    exact evAcct_same g3 ((release_same _ _).trans ⟨rfl, rfl⟩)

/-! ### netbuf_read.c -/

theorem netbufReadInit_same (w : World) (fd : Nat) : EvSame w (netbufReadInit w fd).2 := by
  unfold netbufReadInit
  have s1 := alloc_same w .nbrStruct nbrStructSize
  rcases ha : alloc w .nbrStruct nbrStructSize with ⟨o, w1⟩
  rw [ha] at s1
  cases o with
  | none => exact s1
  | some r =>
    dsimp only at s1 ⊢
    have s2 := alloc_same w1 .nbrBuf Gen.Netbuf.rbufInit
    rcases hb : alloc w1 .nbrBuf Gen.Netbuf.rbufInit with ⟨o2, w2⟩
    rw [hb] at s2
    cases o2 with
    | none => exact s1.trans (s2.trans (release_same _ _))
    | some b => exact s1.trans (s2.trans ⟨rfl, rfl⟩)

theorem nbrImm_acct (w : World) (r : Reader) (h : EvAcct w) (hh : 0 < (regImm w.ev).length) :
    EvAcct (nbrImm w r).2 := by
  unfold nbrImm
  rcases hr : immReg w.ev r.id 0 w.m with ⟨ok, e', m'⟩
  have g := evAcct_immReg h hh hr
  cases ok
  · exact g
  · exact evAcct_same g ⟨rfl, rfl⟩

theorem nbrResize_same (w : World) (r : Reader) (len : Nat) : EvSame w (nbrResize w r len).2 := by
  unfold nbrResize
  split
  · have s1 := alloc_same w .nbrBuf (NetbufRead.newBuflen r.buflen len)
    rcases ha : alloc w .nbrBuf (NetbufRead.newBuflen r.buflen len) with ⟨o, w1⟩
    rw [ha] at s1
    cases o with
    | none => exact s1
    | some nb => exact s1.trans ((release_same _ _).trans ⟨rfl, rfl⟩)
  · exact EvSame.refl w

theorem nbrStart_acct (w1 : World) (r1 : Reader) (len : Nat) (h : EvAcct w1) : EvAcct (nbrStart w1 r1 len).2 := by
  unfold nbrStart
  have g := networkRead_acct (setReader w1 (nbrR3 r1 len)) (nbrR3 r1 len).fd (evAcct_same h ⟨rfl, rfl⟩)
  rcases hr : networkRead (setReader w1 (nbrR3 r1 len)) (nbrR3 r1 len).fd with ⟨o, w3⟩
  rw [hr] at g
  cases o
  · exact g
  · exact evAcct_same g ⟨rfl, rfl⟩

theorem netbufReadWait_acct (w : World) (rid len : Nat) (h : EvAcct w) (hh : 0 < (regImm w.ev).length) :
    EvAcct (netbufReadWait w rid len).2 := by
  cases hfind : w.readers.find? (·.id == rid) with
  | none => simp only [netbufReadWait, hfind]; exact h
  | some r =>
    have hid : r.id = rid := by simpa using List.find?_some hfind
    subst hid
    cases hidle : (r.readCookie.isSome || r.immediate) with
    | true => simp only [netbufReadWait, hfind, hidle, if_true]; exact h
    | false =>
      rw [netbufReadWait_eq len hfind hidle]
      split
      · exact nbrImm_acct w r h hh
      · have s1 := nbrResize_same w r len
        rcases hrs : nbrResize w r len with ⟨o, w1⟩
        rw [hrs] at s1
        cases o with
        | none => exact evAcct_same h s1
        | some r1 => exact nbrStart_acct w1 r1 len (evAcct_same h s1)

theorem netbufReadWaitCancel_acct (w : World) (rid : Nat) (h : EvAcct w) (hs : Side w.ev) {w' : World}
    (hc : netbufReadWaitCancel w rid = some w') : EvAcct w' := by
  unfold netbufReadWaitCancel at hc
  split at hc
  · cases hc
  · rename_i r _
    have key : ∀ w1 : World, EvAcct w1 → Side w1.ev →
        EvAcct (setReader (if r.immediate then immediateCancel w1 rid else w1) { r with readCookie := none, immediate := false }) := by
      intro w1 g1 s1
      refine evAcct_same ?_ ⟨rfl, rfl⟩
      cases r.immediate
      · exact g1
      · exact evAcct_immediateCancel rid g1 s1.2.1
    cases hrc : r.readCookie with
    | none =>
      rw [hrc] at hc
      simp only [Option.some.injEq] at hc
      subst hc
      exact key w h hs
    | some c =>
      rw [hrc] at hc
      dsimp only at hc
      cases hcan : networkReadCancel w c with
      | none => rw [hcan] at hc; cases hc
      | some w1 =>
        rw [hcan] at hc
        simp only [Option.some.injEq] at hc
        subst hc
        obtain ⟨g1, s1⟩ := networkReadCancel_acct w c h hcan
        exact key w1 g1 (s1 hs)

theorem netbufReadFree_same (w : World) (rid : Nat) {w' : World} (hc : netbufReadFree w rid = some w') : EvSame w w' := by
  unfold netbufReadFree at hc
  split at hc
  · cases hc
  · split at hc
    · cases hc
    · simp only [Option.some.injEq] at hc
      subst hc
      exact ((release_same _ _).trans (release_same _ _)).trans ⟨rfl, rfl⟩

/-! ### netbuf_write.c -/

theorem netbufWriteInit_same (w : World) (fd : Nat) : EvSame w (netbufWriteInit w fd).2 := by
  unfold netbufWriteInit
  have s1 := alloc_same w .nbwStruct nbwStructSize
  rcases ha : alloc w .nbwStruct nbwStructSize with ⟨o, w1⟩
  rw [ha] at s1
  cases o with
  | none => exact s1
  | some x => exact s1.trans ⟨rfl, rfl⟩

theorem reserveNew_same (w : World) (x : Writer) (len : Nat) : EvSame w (reserveNew w x len).2 := by
  unfold reserveNew
  have s1 := alloc_same w .nbwHdr nbwHdrSize
  rcases ha : alloc w .nbwHdr nbwHdrSize with ⟨o, w1⟩
  rw [ha] at s1
  cases o with
  | none => exact s1
  | some hd =>
    dsimp only at s1 ⊢
    have s2 := alloc_same w1 .nbwBuf (NetbufWrite.newBuflen len)
    rcases hb : alloc w1 .nbwBuf (NetbufWrite.newBuflen len) with ⟨o2, w2⟩
    rw [hb] at s2
    cases o2 with
    | none => exact s1.trans (s2.trans (release_same _ _))
    | some b => exact s1.trans (s2.trans ⟨rfl, rfl⟩)

theorem netbufWriteReserve_same (w : World) (wid len : Nat) : EvSame w (netbufWriteReserve w wid len).2 := by
  cases hfind : w.writers.find? (·.id == wid) with
  | none => simp only [netbufWriteReserve, hfind]; exact EvSame.refl w
  | some x =>
    have hid : x.id = wid := by simpa using List.find?_some hfind
    subst hid
    rw [netbufWriteReserve_eq hfind]
    split
    · exact EvSame.refl w
    · split <;> (split <;> first | exact ⟨rfl, rfl⟩ | exact reserveNew_same w x len)

theorem pokeStart_acct (w : World) (x : Writer) (h : EvAcct w) : EvAcct (pokeStart w x).2 := by
  unfold pokeStart
  split
  · exact h
  · have g := networkWrite_acct w x.fd h
    rcases hr : networkWrite w x.fd with ⟨o, w2⟩
    rw [hr] at g
    cases o
    · exact g
    · exact evAcct_same g ⟨rfl, rfl⟩

theorem poke_acct (w : World) (x : Writer) (h : EvAcct w) : EvAcct (poke w x).2 := by
  rcases hs : splitEmpty x.queue with ⟨d, r⟩
  rw [poke_eq w x hs]
  split
  · exact evAcct_same h ⟨rfl, rfl⟩
  · split
    · exact evAcct_same h ⟨rfl, rfl⟩
    · exact pokeStart_acct _ _ (evAcct_same h ((releaseBufs_same d w).trans ⟨rfl, rfl⟩))

theorem netbufWriteConsume_acct (w : World) (wid len : Nat) (h : EvAcct w) : EvAcct (netbufWriteConsume w wid len).2 := by
  unfold netbufWriteConsume
  split
  · exact h
  · split
    · exact h
    · split
      · exact h
      · split
        · exact h
        · exact poke_acct _ _ h

theorem netbufWriteWrite_acct (w : World) (wid len : Nat) (h : EvAcct w) : EvAcct (netbufWriteWrite w wid len).2 := by
  unfold netbufWriteWrite
  split
  · exact h
  · split
    · exact h
    · have s1 := netbufWriteReserve_same w wid len
      rcases hr : netbufWriteReserve w wid len with ⟨rc, w1⟩
      rw [hr] at s1
      cases rc
      case ok => exact netbufWriteConsume_acct w1 wid len (evAcct_same h s1)
      all_goals exact evAcct_same h s1

theorem netbufWriteFree_acct (w : World) (wid : Nat) (h : EvAcct w) {w' : World}
    (hc : netbufWriteFree w wid = some w') : EvAcct w' := by
  unfold netbufWriteFree at hc
  split at hc
  · cases hc
  · rename_i x _
    have key : ∀ w1 : World, EvAcct w1 →
        EvAcct { release (releaseBufs w1 x.queue) x.id with
                   writers := (release (releaseBufs w1 x.queue) x.id).writers.filter (·.id != wid) } :=
      fun w1 g1 => evAcct_same g1 (((releaseBufs_same _ _).trans (release_same _ _)).trans ⟨rfl, rfl⟩)
    cases hcur : x.curr with
    | none =>
      rw [hcur] at hc
      simp only [Option.some.injEq] at hc
      subst hc
      exact key w h
    | some p =>
      obtain ⟨wb, c⟩ := p
      rw [hcur] at hc
      dsimp only at hc
      cases hcan : networkWriteCancel w c with
      | none => rw [hcan] at hc; cases hc
      | some w0 =>
        rw [hcan] at hc
        simp only [Option.map_some, Option.some.injEq] at hc
        subst hc
        have g0 := networkWriteCancel_acct w c h hcan
        exact key _ (evAcct_same g0 ((release_same _ _).trans (release_same _ _)))

/-! ### http.c -/

theorem httpDrop_same (w : World) (c hd : Nat) : EvSame w (httpDrop w c hd) :=
  ((release_same _ _).trans (release_same _ _)).trans ⟨rfl, rfl⟩

theorem httpRequest2_acct (w : World) (addrs : List AddrOutcome) (headlen s : Nat) (ho : Option Nat)
    (h : EvAcct w) (hs : Side w.ev) (hf : Fresh w) : EvAcct (httpRequest2 w addrs headlen s ho).2 := by
  cases hm1 : (w.m.malloc httpCookieSize).1
  · rw [httpRequest2_eq_fail1 addrs headlen s ho hm1]; exact evAcct_same h ⟨rfl, rfl⟩
  · cases hm2 : ((w.m.malloc httpCookieSize).2.malloc (headlen + 1)).1
    · rw [httpRequest2_eq_fail2 addrs headlen s ho hm1 hm2]
      exact evAcct_same h (EvSame.trans ⟨rfl, rfl⟩ (release_same _ _))
    · rw [httpRequest2_eq_tail addrs headlen s ho hm1 hm2]
      unfold httpTail
      have g := networkConnect_acct (httpW2 w headlen ho) addrs none s (evAcct_same h ⟨rfl, rfl⟩) hs
        (fun x hx => by
          have := hf x hx
          show x < ((w.m.malloc httpCookieSize).2.malloc (headlen + 1)).2.n
          simp only [Mem.malloc]; omega)
      rcases hr : networkConnect (httpW2 w headlen ho) addrs none s with ⟨o, w3⟩
      rw [hr] at g
      cases o
      · exact evAcct_same g (httpDrop_same _ _ _)
      · exact evAcct_same g ⟨rfl, rfl⟩

theorem httpRequest_acct (w : World) (addrs : List AddrOutcome) (headlen s : Nat)
    (h : EvAcct w) (hs : Side w.ev) (hf : Fresh w) : EvAcct (httpRequest w addrs headlen s).2 :=
  httpRequest2_acct w addrs headlen s none h hs hf

theorem httpsRequest_acct (w : World) (addrs : List AddrOutcome) (headlen s hostlen : Nat)
    (h : EvAcct w) (hs : Side w.ev) (hf : Fresh w) : EvAcct (httpsRequest w addrs headlen s hostlen).2 := by
  cases hm0 : (w.m.malloc (hostlen + 1)).1
  · rw [httpsRequest_eq_fail0 addrs headlen s hostlen hm0]; exact evAcct_same h ⟨rfl, rfl⟩
  · rw [httpsRequest_eq_next addrs headlen s hostlen hm0]
    have g := httpRequest2_acct (httpsW1 w hostlen) addrs headlen s (some w.m.n) (evAcct_same h ⟨rfl, rfl⟩) hs
      (fun x hx => by
        have := hf x hx
        show x < (w.m.malloc (hostlen + 1)).2.n
        simp only [Mem.malloc]; omega)
    rcases hr : httpRequest2 (httpsW1 w hostlen) addrs headlen s (some w.m.n) with ⟨o, w2⟩
    rw [hr] at g
    cases o
    · exact evAcct_same g (release_same _ _)
    · exact g

theorem httpRequestCancel_acct (w : World) (hid : Nat) (h : EvAcct w) (hs : Side w.ev) {w' : World}
    (hc : httpRequestCancel w hid = some w') : EvAcct w' := by
  unfold httpRequestCancel at hc
  split at hc
  · cases hc
  · rename_i x _
    have key : ∀ w1 : World, EvAcct w1 →
        EvAcct { release (release (match x.host with | some sh => release w1 sh | none => w1) x.head) x.cookie with
                   https := (release (release (match x.host with | some sh => release w1 sh | none => w1) x.head)
                     x.cookie).https.filter (·.cookie != hid) } := by
      intro w1 g1
      have g2 : EvAcct (match x.host with | some sh => release w1 sh | none => w1) := by
        cases x.host with
        | none => exact g1
        | some sh => exact evAcct_same g1 (release_same _ _)
      exact evAcct_same g2 (((release_same _ _).trans (release_same _ _)).trans ⟨rfl, rfl⟩)
    cases hcn : x.conn with
    | none =>
      rw [hcn] at hc
      simp only [Option.some.injEq] at hc
      subst hc
      exact key w h
    | some c =>
      rw [hcn] at hc
      dsimp only at hc
      cases hcan : networkConnectCancel w c with
      | none => rw [hcan] at hc; cases hc
      | some w1 =>
        rw [hcan] at hc
        simp only [Option.some.injEq] at hc
        subst hc
        exact key w1 (networkConnectCancel_acct w c h hs hcan)

/-! ### one call, a run, the teardown -/

theorem evAcct_orSame {w : World} {o : Option World} (ha : EvAcct w) (h : ∀ w', o = some w' → EvAcct w') :
    EvAcct (orSame w o) := by
  cases o with
  | none => exact ha
  | some w' => exact h w' rfl

theorem evAcct_step (w : World) (op : Op) (h : Inv w) (ha : EvAcct w) : EvAcct (step w op) := by
  have hs := side_of_inv h.toInv0
  have hf := fresh_of_inv h.toInv0
  cases op with
  | read fd => exact networkRead_acct w fd ha
  | readCancel c =>
    show EvAcct (if readOwned w c then w else orSame w (networkReadCancel w c))
    split
    · exact ha
    · exact evAcct_orSame ha (fun w' hc => (networkReadCancel_acct w c ha hc).1)
  | write fd => exact networkWrite_acct w fd ha
  | writeCancel c =>
    show EvAcct (if writeOwned w c then w else orSame w (networkWriteCancel w c))
    split
    · exact ha
    · exact evAcct_orSame ha (fun w' hc => networkWriteCancel_acct w c ha hc)
  | accept fd => exact networkAccept_acct w fd ha
  | acceptCancel c => exact evAcct_orSame ha (fun w' hc => networkAcceptCancel_acct w c ha hc)
  | connect addrs timeo s => exact networkConnect_acct w addrs timeo s ha hs hf
  | connectCancel c =>
    show EvAcct (if connOwned w c then w else orSame w (networkConnectCancel w c))
    split
    · exact ha
    · exact evAcct_orSame ha (fun w' hc => networkConnectCancel_acct w c ha hs hc)
  | nbrInit fd => exact evAcct_same ha (netbufReadInit_same w fd)
  | nbrWait r len => exact netbufReadWait_acct w r len ha hs.1
  | nbrCancel r => exact evAcct_orSame ha (fun w' hc => netbufReadWaitCancel_acct w r ha hs hc)
  | nbrFree r => exact evAcct_orSame ha (fun w' hc => evAcct_same ha (netbufReadFree_same w r hc))
  | nbwInit fd => exact evAcct_same ha (netbufWriteInit_same w fd)
  | nbwReserve x len => exact evAcct_same ha (netbufWriteReserve_same w x len)
  | nbwConsume x len => exact netbufWriteConsume_acct w x len ha
  | nbwWrite x len => exact netbufWriteWrite_acct w x len ha
  | nbwFree x => exact evAcct_orSame ha (fun w' hc => netbufWriteFree_acct w x ha hc)
  | http addrs headlen s => exact httpRequest_acct w addrs headlen s ha hs hf
  | httpCancel c => exact evAcct_orSame ha (fun w' hc => httpRequestCancel_acct w c ha hs hc)
  | https a l s hl => exact httpsRequest_acct w a l s hl ha hs hf

theorem evAcct_teardownN : ∀ (n : Nat) (w : World), Inv w → EvAcct w → EvAcct (teardownN n w)
  | 0, _, _, ha => ha
  | n + 1, w, h, ha => by
    unfold teardownN
    cases hop : nextRelease w with
    | none => exact ha
    | some op => exact evAcct_teardownN n (step w op) (step_inv w op h) (evAcct_step w op h ha)

end Acct

/-- one call keeps `evLive = evBlocks ev`, whatever the oracle does and whatever the outcome -/
theorem evAcct_stepR (w : World) (op : Op) (h : Inv w) (ha : EvAcct w) : EvAcct (stepR w op).2 := by
  rw [← step_eq]; exact Acct.evAcct_step w op h ha

theorem evAcct_run (w : World) (ops : List Op) (h : Inv w) (ha : EvAcct w) : EvAcct (run w ops) := by
  induction ops generalizing w with
  | nil => exact ha
  | cons op rest ih =>
    show EvAcct (run (step w op) rest)
    exact ih (step w op) (step_inv w op h) (Acct.evAcct_step w op h ha)

theorem evAcct_teardown (w : World) (h : Inv w) (ha : EvAcct w) : EvAcct (teardown w) :=
  Acct.evAcct_teardownN (objects w) w h ha

/-- along every run the oracle's counter is the upper layers' blocks, the cached cookies and the event
layer's block count -/
theorem live_eq_blocks (w : World) (h : Inv w) (ha : EvAcct w) :
    w.m.live = w.live.length + w.cache.length + evBlocks w.ev := by
  rw [h.acct, ha.1]

/-- **after every object has been released, the exit handlers free everything the library ever allocated** -/
theorem atexitAll_frees_everything (w : World) (h : Inv w) (ha : EvAcct w)
    (ht : tables w = ⟨[], [], [], [], [], [], []⟩) :
    (atexitAll w).m.live = 0 ∧ (atexitAll w).live = [] ∧ (atexitAll w).cache = [] := by
  obtain ⟨hi, hcache, hlive, _, hev, _, _, hevl, _, _, _, _⟩ := atexitPools_partial w h.toInv0
  obtain ⟨hl0, hn, htm, him⟩ := empty_tables_nothing w h.toInv0 ht
  have hsd := shutdown_acct (atexitPools w).ev (atexitPools w).m hi.ev.net hi.ev.tm (by rw [hev]; exact ha.2)
    (by rw [hev]; exact hn) (by rw [hev]; exact htm) (by rw [hev]; exact him)
  have hacct : (atexitPools w).m.live = (atexitPools w).live.length + (atexitPools w).cache.length + (atexitPools w).evLive :=
    hi.acct
  rw [hcache, hlive, hl0, hevl, ha.1, ← hev] at hacct
  unfold atexitAll
  dsimp only
  rcases hsh : shutdown (atexitPools w).ev (atexitPools w).m with ⟨e', m'⟩
  rw [hsh] at hsd
  refine ⟨?_, ?_, hcache⟩
  · show m'.live = 0
    dsimp only at hsd
    rw [hsd, hacct]; simp
  · show (atexitPools w).live = []
    rw [hlive, hl0]

/-- end to end, from the empty world, for every oracle and every sequence of calls: after the calls, the normal
releases of whatever is left, and the exit handlers, no block of the library is allocated -/
theorem run_teardown_atexit_no_leak (m : Mem) (hm : m.live = 0) (ops : List Op) :
    (atexitAll (teardown (run { m := m } ops))).m.live = 0 ∧
    (atexitAll (teardown (run { m := m } ops))).live = [] ∧ (atexitAll (teardown (run { m := m } ops))).cache = [] := by
  have h0 := inv_init m hm
  have h1 := run_inv _ ops h0
  have a1 := evAcct_run _ ops h0 (evAcct_init m)
  obtain ⟨h2, ht, _⟩ := teardown_spec _ h1
  exact atexitAll_frees_everything _ h2 (evAcct_teardown _ h1 a1) ht

/- Everything requested is proved as stated (no `bad = 0` fallback was needed): `evAcct_init`, `evAcct_stepR`,
   `evAcct_run`, `evAcct_teardown`, `atexitAll_frees_everything`; per-function lemmas are in namespace `Acct`. -/

end Percival.Proofs.AllocFailUpper
