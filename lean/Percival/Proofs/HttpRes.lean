import Percival.Model.HttpRes
import Percival.Proofs.Http
/-! Helper lemmas for the resource part of C08 (`Model/HttpRes.lean`): what `http_request_cancel` leaves
    behind, which invariant every handler keeps, and the whole run with its environment. -/
namespace Percival.Proofs.HttpRes
open Percival.Model.Http Percival.Model.HttpRes Percival.Proofs.Http Percival.Gen.Http

set_option linter.unusedSimpArgs false
attribute [-simp] List.count_pos_iff List.one_le_count_iff

theorem or_none (e : Option String) (c : Bool) (w : String) :
    (e.or (if c then none else some w) = none) = (e = none ∧ c = true) := by
  simp only [Option.or_eq_none_iff]
  cases c <;> simp

/-- unfold the primitive operations down to counts, flags and `err = none` conditions -/
macro "res_simp" : tactic =>
  `(tactic| simp [RSt.check, RSt.malloc, RSt.free, RSt.freeIf, RSt.has, useH, or_none, List.count_cons,
      List.count_erase])
macro "res_simp" "at" h:ident : tactic =>
  `(tactic| simp [RSt.check, RSt.malloc, RSt.free, RSt.freeIf, RSt.has, useH, or_none, List.count_cons,
      List.count_erase] at $h:ident)

/-! ## the invariant: the heap is what the pointer fields say -/

/-- expected number of live blocks of each kind; `cc`: the `network_connect` cookie is live -/
def expect (r : RSt) (cc : Nat) : Kind → Nat
  | .cookie => 1
  | .reqHead => r.pReqHead.toNat
  | .connect => cc
  | .reader => r.pR.toNat
  | .readerBuf => r.pR.toNat
  | .writer => r.pW.toNat
  | .wbuf => r.wq + r.wcur.toNat
  | .wbufData => r.wq + r.wcur.toNat
  | .resHead => r.pResHead.toNat
  | .hdrArray => r.pHeaders.toNat
  | .body => r.pBody.toNat

structure Cons (r : RSt) (cc : Nat) : Prop where
  ok : r.err = none
  cnt : ∀ k, r.live.count k = expect r cc k
  conn : r.pConnect = true → r.connReg = true ∧ cc = 1
  connReg : r.connReg = true → r.pConnect = true
  noW : r.pW = false → r.wq = 0 ∧ r.wcur = false
  noR : r.pR = false → r.rdReg = .idle
  fds : r.fds = (r.sock || r.connReg).toNat
  oneSock : r.sock = true → r.connReg = false

/-! ## `netbuf_write_free`'s loop -/

theorem freeQueue_err (n : Nat) : ∀ r : RSt, ((freeQueue n r).err = none ↔
    r.err = none ∧ (n = 0 ∨ (n ≤ r.live.count .wbuf ∧ n ≤ r.live.count .wbufData))) := by
  induction n with
  | zero => intro r; simp [freeQueue]
  | succ n ih =>
    intro r
    simp only [freeQueue]
    rw [ih]
    res_simp
    by_cases he : r.err = none <;> simp [he] <;> omega

theorem freeQueue_cnt (n : Nat) : ∀ (r : RSt) (k : Kind), (freeQueue n r).live.count k =
    r.live.count k - if k = .wbuf ∨ k = .wbufData then n else 0 := by
  induction n with
  | zero => intro r k; simp [freeQueue]
  | succ n ih =>
    intro r k
    simp only [freeQueue]
    rw [ih]
    res_simp
    cases k <;> simp <;> omega

theorem freeQueue_wq (n : Nat) : ∀ r : RSt, (freeQueue n r).wq = r.wq - n := by
  induction n with
  | zero => intro r; simp [freeQueue]
  | succ n ih => intro r; simp only [freeQueue]; rw [ih]; simp; omega

/-- `freeQueue` touches nothing but `live`, `err`, `wq` -/
theorem freeQueue_fields (n : Nat) : ∀ r : RSt,
    (freeQueue n r).handedBody = r.handedBody ∧ (freeQueue n r).pConnect = r.pConnect ∧
    (freeQueue n r).pW = r.pW ∧ (freeQueue n r).pR = r.pR ∧ (freeQueue n r).pReqHead = r.pReqHead ∧
    (freeQueue n r).pResHead = r.pResHead ∧ (freeQueue n r).pHeaders = r.pHeaders ∧
    (freeQueue n r).pBody = r.pBody ∧ (freeQueue n r).sock = r.sock ∧ (freeQueue n r).connReg = r.connReg ∧
    (freeQueue n r).rdReg = r.rdReg ∧ (freeQueue n r).wcur = r.wcur ∧ (freeQueue n r).fds = r.fds ∧
    (freeQueue n r).ncb = r.ncb := by
  induction n with
  | zero => intro r; simp [freeQueue]
  | succ n ih =>
    intro r
    simp only [freeQueue]
    have := ih { ((r.free .wbufData).free .wbuf) with wq := r.wq - 1 }
    exact this


/-! ## `http_request_cancel`, in two halves -/

/-- first half: the asynchronous operations and the netbuf objects, the socket -/
def cancelA (r : RSt) : RSt :=
  let r := useH r
  let r := if r.pConnect then connectCancel r else r
  let r := if r.pR then readWaitCancel r else r
  let r := if r.pW then writeFree r else r
  let r := if r.pR then readFree r else r
  if r.sock then { r.check (decide (0 < r.fds)) "close of a descriptor that is not open" with fds := r.fds - 1 } else r

/-- second half: the buffers owned through `H`, and `H` -/
def cancelB (r : RSt) : RSt :=
  let r := r.freeIf r.pReqHead .reqHead
  let r := r.freeIf r.pResHead .resHead
  let r := r.freeIf r.pHeaders .hdrArray
  let r := r.freeIf r.pBody .body
  r.free .cookie

theorem cancelR_eq (r : RSt) : cancelR r = cancelB (cancelA r) := rfl

/-- what the second half frees -/
def freedB (r : RSt) : Kind → Nat
  | .cookie => 1
  | .reqHead => r.pReqHead.toNat
  | .resHead => r.pResHead.toNat
  | .hdrArray => r.pHeaders.toNat
  | .body => r.pBody.toNat
  | _ => 0

theorem cancelB_eta (r : RSt) : cancelB r = { r with live := (cancelB r).live, err := (cancelB r).err } := by
  simp only [cancelB, RSt.freeIf]
  split <;> split <;> split <;> split <;> rfl

theorem cancelB_cnt (r : RSt) (k : Kind) : (cancelB r).live.count k = r.live.count k - freedB r k := by
  simp only [cancelB, RSt.freeIf]
  cases h1 : r.pReqHead <;> cases h2 : r.pResHead <;> cases h3 : r.pHeaders <;> cases h4 : r.pBody <;>
    cases k <;> simp [freedB, h1, h2, h3, h4, RSt.free, RSt.check]

theorem cancelB_err (r : RSt) : (cancelB r).err = none ↔
    r.err = none ∧ ∀ k, freedB r k ≤ r.live.count k := by
  obtain ⟨live, hb, pc, pw, pr, p1, p2, p3, p4, sk, cr, rr, wq, wc, fd, nc, er⟩ := r
  constructor
  · intro h
    refine ⟨?_, ?_⟩
    · cases p1 <;> cases p2 <;> cases p3 <;> cases p4 <;>
        (simp [cancelB, RSt.freeIf, RSt.free, RSt.check, RSt.has, or_none, List.count_erase] at h; simp [h])
    · intro k
      cases p1 <;> cases p2 <;> cases p3 <;> cases p4 <;>
        (simp [cancelB, RSt.freeIf, RSt.free, RSt.check, RSt.has, or_none, List.count_erase] at h;
         cases k <;> simp [freedB] <;> omega)
  · intro ⟨he, hk⟩
    have c1 := hk .cookie
    have c2 := hk .reqHead
    have c3 := hk .resHead
    have c4 := hk .hdrArray
    have c5 := hk .body
    simp only at he
    subst he
    cases p1 <;> cases p2 <;> cases p3 <;> cases p4 <;>
      (simp [freedB] at c1 c2 c3 c4 c5;
       simp [cancelB, RSt.freeIf, RSt.free, RSt.check, RSt.has, or_none, List.count_erase];
       omega)


theorem fq_handedBody (n : Nat) (r : RSt) : (freeQueue n r).handedBody = r.handedBody := (freeQueue_fields n r).1
theorem fq_pConnect (n : Nat) (r : RSt) : (freeQueue n r).pConnect = r.pConnect := (freeQueue_fields n r).2.1
theorem fq_pW (n : Nat) (r : RSt) : (freeQueue n r).pW = r.pW := (freeQueue_fields n r).2.2.1
theorem fq_pR (n : Nat) (r : RSt) : (freeQueue n r).pR = r.pR := (freeQueue_fields n r).2.2.2.1
theorem fq_pReqHead (n : Nat) (r : RSt) : (freeQueue n r).pReqHead = r.pReqHead := (freeQueue_fields n r).2.2.2.2.1
theorem fq_pResHead (n : Nat) (r : RSt) : (freeQueue n r).pResHead = r.pResHead := (freeQueue_fields n r).2.2.2.2.2.1
theorem fq_pHeaders (n : Nat) (r : RSt) : (freeQueue n r).pHeaders = r.pHeaders := (freeQueue_fields n r).2.2.2.2.2.2.1
theorem fq_pBody (n : Nat) (r : RSt) : (freeQueue n r).pBody = r.pBody := (freeQueue_fields n r).2.2.2.2.2.2.2.1
theorem fq_sock (n : Nat) (r : RSt) : (freeQueue n r).sock = r.sock := (freeQueue_fields n r).2.2.2.2.2.2.2.2.1
theorem fq_connReg (n : Nat) (r : RSt) : (freeQueue n r).connReg = r.connReg := (freeQueue_fields n r).2.2.2.2.2.2.2.2.2.1
theorem fq_rdReg (n : Nat) (r : RSt) : (freeQueue n r).rdReg = r.rdReg := (freeQueue_fields n r).2.2.2.2.2.2.2.2.2.2.1
theorem fq_wcur (n : Nat) (r : RSt) : (freeQueue n r).wcur = r.wcur := (freeQueue_fields n r).2.2.2.2.2.2.2.2.2.2.2.1
theorem fq_fds (n : Nat) (r : RSt) : (freeQueue n r).fds = r.fds := (freeQueue_fields n r).2.2.2.2.2.2.2.2.2.2.2.2.1
theorem fq_ncb (n : Nat) (r : RSt) : (freeQueue n r).ncb = r.ncb := (freeQueue_fields n r).2.2.2.2.2.2.2.2.2.2.2.2.2

/-- everything about `freeQueue`, as rewrite rules -/
macro "fq_simp" : tactic =>
  `(tactic| simp [freeQueue_err, freeQueue_cnt, freeQueue_wq, fq_handedBody, fq_pConnect, fq_pW, fq_pR, fq_pReqHead,
      fq_pResHead, fq_pHeaders, fq_pBody, fq_sock, fq_connReg, fq_rdReg, fq_wcur, fq_fds, fq_ncb,
      RSt.check, RSt.malloc, RSt.free, RSt.freeIf, RSt.has, useH, or_none, List.count_cons, List.count_erase])

/-- what is live after the first half -/
def leftA (r : RSt) (cc : Nat) : Kind → Nat
  | .cookie => 1
  | .reqHead => r.pReqHead.toNat
  | .resHead => r.pResHead.toNat
  | .hdrArray => r.pHeaders.toNat
  | .body => r.pBody.toNat
  | .connect => if r.pConnect then 0 else cc
  | _ => 0

theorem cancelA_spec (r : RSt) (cc : Nat) (h : Cons r cc) :
    (cancelA r).err = none ∧ (∀ k, (cancelA r).live.count k = leftA r cc k) ∧
    (cancelA r).connReg = false ∧ (cancelA r).rdReg = .idle ∧ (cancelA r).wcur = false ∧ (cancelA r).fds = 0 ∧
    (cancelA r).ncb = r.ncb ∧ (cancelA r).handedBody = r.handedBody ∧
    (cancelA r).pReqHead = r.pReqHead ∧ (cancelA r).pResHead = r.pResHead ∧
    (cancelA r).pHeaders = r.pHeaders ∧ (cancelA r).pBody = r.pBody := by
  obtain ⟨hok, hcnt, hconn, hcr, hnw, hnr, hfds, hone⟩ := h
  have c1 := hcnt .cookie
  have c2 := hcnt .connect
  have c3 := hcnt .reader
  have c4 := hcnt .readerBuf
  have c5 := hcnt .writer
  have c6 := hcnt .wbuf
  have c7 := hcnt .wbufData
  have c8 := hcnt .reqHead
  have c9 := hcnt .resHead
  have c10 := hcnt .hdrArray
  have c11 := hcnt .body
  clear hcnt
  obtain ⟨live, hb, pc, pw, pr, p1, p2, p3, p4, sk, cr, rr, wq, wc, fd, nc, er⟩ := r
  simp only [expect] at c1 c2 c3 c4 c5 c6 c7 c8 c9 c10 c11
  simp only at hok hconn hcr hnw hnr hfds hone
  subst hok
  cases pc <;> cases pr <;> cases pw <;> cases wc <;> cases sk <;>
    simp [cancelA, connectCancel, readWaitCancel, writeFree, readFree,
      freeQueue_err, freeQueue_cnt, freeQueue_wq, fq_handedBody, fq_pConnect, fq_pW, fq_pR, fq_pReqHead,
      fq_pResHead, fq_pHeaders, fq_pBody, fq_sock, fq_connReg, fq_rdReg, fq_wcur, fq_fds, fq_ncb,
      RSt.check, RSt.malloc, RSt.free, RSt.freeIf, RSt.has, useH, or_none, List.count_cons, List.count_erase] <;>
    simp at hconn hcr hnw hnr hfds hone c3 c4 c5 c6 c7 <;>
    (try (cases cr <;> simp at hconn hcr hfds hone)) <;>
    (try subst_vars) <;>
    (repeat' apply And.intro) <;>
    (first
      | (intro k; cases k <;> simp [leftA] <;> omega)
      | omega
      | (simp; done)
      | (simp; omega))

/-- the request is over: nothing is live except possibly the `network_connect` cookie (`cc`, freed by
    `network_connect` itself when its callback returns), nothing is registered, no descriptor is open -/
structure Ended (r : RSt) (cc ncb handed : Nat) : Prop where
  ok : r.err = none
  cnt : ∀ k, r.live.count k = if k = .connect then cc else 0
  noConn : r.connReg = false
  noRd : r.rdReg = .idle
  noWr : r.wcur = false
  fds : r.fds = 0
  ncb : r.ncb = ncb
  handed : r.handedBody = handed

/-- **`http_request_cancel` on a consistent state frees everything and cancels everything.** -/
theorem cancel_spec (r : RSt) (cc : Nat) (h : Cons r cc) :
    Ended (cancelR r) (if r.pConnect then 0 else cc) r.ncb r.handedBody := by
  obtain ⟨a1, a2, a3, a4, a5, a6, a7, a8, f1, f2, f3, f4⟩ := cancelA_spec r cc h
  rw [cancelR_eq]
  have hfreed : ∀ k, freedB (cancelA r) k = if k = .connect then 0 else leftA r cc k := by
    intro k; cases k <;> simp [freedB, leftA, f1, f2, f3, f4]
  have eta := cancelB_eta (cancelA r)
  refine ⟨?_, ?_, ?_, ?_, ?_, ?_, ?_, ?_⟩
  · rw [cancelB_err]
    refine ⟨a1, fun k => ?_⟩
    rw [hfreed, a2]; split <;> omega
  · intro k
    rw [cancelB_cnt, hfreed, a2]
    cases k <;> simp [leftA]
  · rw [eta]; exact a3
  · rw [eta]; exact a4
  · rw [eta]; exact a5
  · rw [eta]; exact a6
  · rw [eta]; exact a7
  · rw [eta]; exact a8

end Percival.Proofs.HttpRes
