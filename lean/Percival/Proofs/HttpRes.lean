import Percival.Model.HttpRes
import Percival.Proofs.Http
/-! Helper lemmas for the resource part of C08 (`Model/HttpRes.lean`): what `http_request_cancel` leaves
    behind, which invariant every handler keeps, and the whole run with its environment. -/
namespace Percival.Proofs.HttpRes
open Percival.Model.Http Percival.Model.HttpRes Percival.Proofs.Http Percival.Gen.Http

set_option linter.unusedSimpArgs false
attribute [-simp] List.count_pos_iff List.one_le_count_iff

theorem or_none (e : Option String) (c : Bool) (w : String) :
    (e.or (if c then none else some w) = none) = (e = none ∧ c = true) := by
  simp only [Option.or_eq_none_iff]
  cases c <;> simp

/-- unfold the primitive operations down to counts, flags and `err = none` conditions -/
macro "res_simp" : tactic =>
  `(tactic| simp [RSt.check, RSt.malloc, RSt.free, RSt.freeIf, RSt.has, useH, or_none, List.count_cons,
      List.count_erase])
macro "res_simp" "at" h:ident : tactic =>
  `(tactic| simp [RSt.check, RSt.malloc, RSt.free, RSt.freeIf, RSt.has, useH, or_none, List.count_cons,
      List.count_erase] at $h:ident)

/-! ## the invariant: the heap is what the pointer fields say -/

/-- expected number of live blocks of each kind; `cc`: the `network_connect` cookie is live -/
def expect (r : RSt) (cc : Nat) : Kind → Nat
  | .cookie => 1
  | .reqHead => r.pReqHead.toNat
  | .connect => cc
  | .reader => r.pR.toNat
  | .readerBuf => r.pR.toNat
  | .writer => r.pW.toNat
  | .wbuf => r.wq + r.wcur.toNat
  | .wbufData => r.wq + r.wcur.toNat
  | .resHead => r.pResHead.toNat
  | .hdrArray => r.pHeaders.toNat
  | .body => r.pBody.toNat

structure Cons (r : RSt) (cc : Nat) : Prop where
  ok : r.err = none
  cnt : ∀ k, r.live.count k = expect r cc k
  conn : r.pConnect = true → r.connReg = true ∧ cc = 1
  connReg : r.connReg = true → r.pConnect = true
  noW : r.pW = false → r.wq = 0 ∧ r.wcur = false
  noR : r.pR = false → r.rdReg = .idle
  fds : r.fds = (r.sock || r.connReg).toNat
  oneSock : r.sock = true → r.connReg = false

/-! ## `netbuf_write_free`'s loop -/

theorem freeQueue_err (n : Nat) : ∀ r : RSt, ((freeQueue n r).err = none ↔
    r.err = none ∧ (n = 0 ∨ (n ≤ r.live.count .wbuf ∧ n ≤ r.live.count .wbufData))) := by
  induction n with
  | zero => intro r; simp [freeQueue]
  | succ n ih =>
    intro r
    simp only [freeQueue]
    rw [ih]
    res_simp
    by_cases he : r.err = none <;> simp [he] <;> omega

theorem freeQueue_cnt (n : Nat) : ∀ (r : RSt) (k : Kind), (freeQueue n r).live.count k =
    r.live.count k - if k = .wbuf ∨ k = .wbufData then n else 0 := by
  induction n with
  | zero => intro r k; simp [freeQueue]
  | succ n ih =>
    intro r k
    simp only [freeQueue]
    rw [ih]
    res_simp
    cases k <;> simp <;> omega

theorem freeQueue_wq (n : Nat) : ∀ r : RSt, (freeQueue n r).wq = r.wq - n := by
  induction n with
  | zero => intro r; simp [freeQueue]
  | succ n ih => intro r; simp only [freeQueue]; rw [ih]; simp; omega

/-- `freeQueue` touches nothing but `live`, `err`, `wq` -/
theorem freeQueue_fields (n : Nat) : ∀ r : RSt,
    (freeQueue n r).handedBody = r.handedBody ∧ (freeQueue n r).pConnect = r.pConnect ∧
    (freeQueue n r).pW = r.pW ∧ (freeQueue n r).pR = r.pR ∧ (freeQueue n r).pReqHead = r.pReqHead ∧
    (freeQueue n r).pResHead = r.pResHead ∧ (freeQueue n r).pHeaders = r.pHeaders ∧
    (freeQueue n r).pBody = r.pBody ∧ (freeQueue n r).sock = r.sock ∧ (freeQueue n r).connReg = r.connReg ∧
    (freeQueue n r).rdReg = r.rdReg ∧ (freeQueue n r).wcur = r.wcur ∧ (freeQueue n r).fds = r.fds ∧
    (freeQueue n r).ncb = r.ncb := by
  induction n with
  | zero => intro r; simp [freeQueue]
  | succ n ih =>
    intro r
    simp only [freeQueue]
    have := ih { ((r.free .wbufData).free .wbuf) with wq := r.wq - 1 }
    exact this


/-! ## `http_request_cancel`, in two halves -/

/-- first half: the asynchronous operations and the netbuf objects, the socket -/
def cancelA (r : RSt) : RSt :=
  let r := useH r
  let r := if r.pConnect then connectCancel r else r
  let r := if r.pR then readWaitCancel r else r
  let r := if r.pW then writeFree r else r
  let r := if r.pR then readFree r else r
  if r.sock then { r.check (decide (0 < r.fds)) "close of a descriptor that is not open" with fds := r.fds - 1 } else r

/-- second half: the buffers owned through `H`, and `H` -/
def cancelB (r : RSt) : RSt :=
  let r := r.freeIf r.pReqHead .reqHead
  let r := r.freeIf r.pResHead .resHead
  let r := r.freeIf r.pHeaders .hdrArray
  let r := r.freeIf r.pBody .body
  r.free .cookie

theorem cancelR_eq (r : RSt) : cancelR r = cancelB (cancelA r) := rfl

/-- what the second half frees -/
def freedB (r : RSt) : Kind → Nat
  | .cookie => 1
  | .reqHead => r.pReqHead.toNat
  | .resHead => r.pResHead.toNat
  | .hdrArray => r.pHeaders.toNat
  | .body => r.pBody.toNat
  | _ => 0

theorem cancelB_eta (r : RSt) : cancelB r = { r with live := (cancelB r).live, err := (cancelB r).err } := by
  simp only [cancelB, RSt.freeIf]
  split <;> split <;> split <;> split <;> rfl

theorem cancelB_cnt (r : RSt) (k : Kind) : (cancelB r).live.count k = r.live.count k - freedB r k := by
  simp only [cancelB, RSt.freeIf]
  cases h1 : r.pReqHead <;> cases h2 : r.pResHead <;> cases h3 : r.pHeaders <;> cases h4 : r.pBody <;>
    cases k <;> simp [freedB, h1, h2, h3, h4, RSt.free, RSt.check]

theorem cancelB_err (r : RSt) : (cancelB r).err = none ↔
    r.err = none ∧ ∀ k, freedB r k ≤ r.live.count k := by
  obtain ⟨live, hb, pc, pw, pr, p1, p2, p3, p4, sk, cr, rr, wq, wc, fd, nc, er⟩ := r
  constructor
  · intro h
    refine ⟨?_, ?_⟩
    · cases p1 <;> cases p2 <;> cases p3 <;> cases p4 <;>
        (simp [cancelB, RSt.freeIf, RSt.free, RSt.check, RSt.has, or_none, List.count_erase] at h; simp [h])
    · intro k
      cases p1 <;> cases p2 <;> cases p3 <;> cases p4 <;>
        (simp [cancelB, RSt.freeIf, RSt.free, RSt.check, RSt.has, or_none, List.count_erase] at h;
         cases k <;> simp [freedB] <;> omega)
  · intro ⟨he, hk⟩
    have c1 := hk .cookie
    have c2 := hk .reqHead
    have c3 := hk .resHead
    have c4 := hk .hdrArray
    have c5 := hk .body
    simp only at he
    subst he
    cases p1 <;> cases p2 <;> cases p3 <;> cases p4 <;>
      (simp [freedB] at c1 c2 c3 c4 c5;
       simp [cancelB, RSt.freeIf, RSt.free, RSt.check, RSt.has, or_none, List.count_erase];
       omega)


theorem fq_handedBody (n : Nat) (r : RSt) : (freeQueue n r).handedBody = r.handedBody := (freeQueue_fields n r).1
theorem fq_pConnect (n : Nat) (r : RSt) : (freeQueue n r).pConnect = r.pConnect := (freeQueue_fields n r).2.1
theorem fq_pW (n : Nat) (r : RSt) : (freeQueue n r).pW = r.pW := (freeQueue_fields n r).2.2.1
theorem fq_pR (n : Nat) (r : RSt) : (freeQueue n r).pR = r.pR := (freeQueue_fields n r).2.2.2.1
theorem fq_pReqHead (n : Nat) (r : RSt) : (freeQueue n r).pReqHead = r.pReqHead := (freeQueue_fields n r).2.2.2.2.1
theorem fq_pResHead (n : Nat) (r : RSt) : (freeQueue n r).pResHead = r.pResHead := (freeQueue_fields n r).2.2.2.2.2.1
theorem fq_pHeaders (n : Nat) (r : RSt) : (freeQueue n r).pHeaders = r.pHeaders := (freeQueue_fields n r).2.2.2.2.2.2.1
theorem fq_pBody (n : Nat) (r : RSt) : (freeQueue n r).pBody = r.pBody := (freeQueue_fields n r).2.2.2.2.2.2.2.1
theorem fq_sock (n : Nat) (r : RSt) : (freeQueue n r).sock = r.sock := (freeQueue_fields n r).2.2.2.2.2.2.2.2.1
theorem fq_connReg (n : Nat) (r : RSt) : (freeQueue n r).connReg = r.connReg := (freeQueue_fields n r).2.2.2.2.2.2.2.2.2.1
theorem fq_rdReg (n : Nat) (r : RSt) : (freeQueue n r).rdReg = r.rdReg := (freeQueue_fields n r).2.2.2.2.2.2.2.2.2.2.1
theorem fq_wcur (n : Nat) (r : RSt) : (freeQueue n r).wcur = r.wcur := (freeQueue_fields n r).2.2.2.2.2.2.2.2.2.2.2.1
theorem fq_fds (n : Nat) (r : RSt) : (freeQueue n r).fds = r.fds := (freeQueue_fields n r).2.2.2.2.2.2.2.2.2.2.2.2.1
theorem fq_ncb (n : Nat) (r : RSt) : (freeQueue n r).ncb = r.ncb := (freeQueue_fields n r).2.2.2.2.2.2.2.2.2.2.2.2.2

/-- everything about `freeQueue`, as rewrite rules -/
macro "fq_simp" : tactic =>
  `(tactic| simp [freeQueue_err, freeQueue_cnt, freeQueue_wq, fq_handedBody, fq_pConnect, fq_pW, fq_pR, fq_pReqHead,
      fq_pResHead, fq_pHeaders, fq_pBody, fq_sock, fq_connReg, fq_rdReg, fq_wcur, fq_fds, fq_ncb,
      RSt.check, RSt.malloc, RSt.free, RSt.freeIf, RSt.has, useH, or_none, List.count_cons, List.count_erase])

/-- what is live after the first half -/
def leftA (r : RSt) (cc : Nat) : Kind → Nat
  | .cookie => 1
  | .reqHead => r.pReqHead.toNat
  | .resHead => r.pResHead.toNat
  | .hdrArray => r.pHeaders.toNat
  | .body => r.pBody.toNat
  | .connect => if r.pConnect then 0 else cc
  | _ => 0

theorem cancelA_spec (r : RSt) (cc : Nat) (h : Cons r cc) :
    (cancelA r).err = none ∧ (∀ k, (cancelA r).live.count k = leftA r cc k) ∧
    (cancelA r).connReg = false ∧ (cancelA r).rdReg = .idle ∧ (cancelA r).wcur = false ∧ (cancelA r).fds = 0 ∧
    (cancelA r).ncb = r.ncb ∧ (cancelA r).handedBody = r.handedBody ∧
    (cancelA r).pReqHead = r.pReqHead ∧ (cancelA r).pResHead = r.pResHead ∧
    (cancelA r).pHeaders = r.pHeaders ∧ (cancelA r).pBody = r.pBody := by
  obtain ⟨hok, hcnt, hconn, hcr, hnw, hnr, hfds, hone⟩ := h
  have c1 := hcnt .cookie
  have c2 := hcnt .connect
  have c3 := hcnt .reader
  have c4 := hcnt .readerBuf
  have c5 := hcnt .writer
  have c6 := hcnt .wbuf
  have c7 := hcnt .wbufData
  have c8 := hcnt .reqHead
  have c9 := hcnt .resHead
  have c10 := hcnt .hdrArray
  have c11 := hcnt .body
  clear hcnt
  obtain ⟨live, hb, pc, pw, pr, p1, p2, p3, p4, sk, cr, rr, wq, wc, fd, nc, er⟩ := r
  simp only [expect] at c1 c2 c3 c4 c5 c6 c7 c8 c9 c10 c11
  simp only at hok hconn hcr hnw hnr hfds hone
  subst hok
  cases pc <;> cases pr <;> cases pw <;> cases wc <;> cases sk <;>
    simp [cancelA, connectCancel, readWaitCancel, writeFree, readFree,
      freeQueue_err, freeQueue_cnt, freeQueue_wq, fq_handedBody, fq_pConnect, fq_pW, fq_pR, fq_pReqHead,
      fq_pResHead, fq_pHeaders, fq_pBody, fq_sock, fq_connReg, fq_rdReg, fq_wcur, fq_fds, fq_ncb,
      RSt.check, RSt.malloc, RSt.free, RSt.freeIf, RSt.has, useH, or_none, List.count_cons, List.count_erase] <;>
    simp at hconn hcr hnw hnr hfds hone c3 c4 c5 c6 c7 <;>
    (try (cases cr <;> simp at hconn hcr hfds hone)) <;>
    (try subst_vars) <;>
    (repeat' apply And.intro) <;>
    (first
      | (intro k; cases k <;> simp [leftA] <;> omega)
      | omega
      | (simp; done)
      | (simp; omega))

/-- the request is over: nothing is live except possibly the `network_connect` cookie (`cc`, freed by
    `network_connect` itself when its callback returns), nothing is registered, no descriptor is open -/
structure Ended (r : RSt) (cc ncb handed : Nat) : Prop where
  ok : r.err = none
  cnt : ∀ k, r.live.count k = if k = .connect then cc else 0
  noConn : r.connReg = false
  noRd : r.rdReg = .idle
  noWr : r.wcur = false
  fds : r.fds = 0
  ncb : r.ncb = ncb
  handed : r.handedBody = handed

/-- **`http_request_cancel` on a consistent state frees everything and cancels everything.** -/
theorem cancel_spec (r : RSt) (cc : Nat) (h : Cons r cc) :
    Ended (cancelR r) (if r.pConnect then 0 else cc) r.ncb r.handedBody := by
  obtain ⟨a1, a2, a3, a4, a5, a6, a7, a8, f1, f2, f3, f4⟩ := cancelA_spec r cc h
  rw [cancelR_eq]
  have hfreed : ∀ k, freedB (cancelA r) k = if k = .connect then 0 else leftA r cc k := by
    intro k; cases k <;> simp [freedB, leftA, f1, f2, f3, f4]
  have eta := cancelB_eta (cancelA r)
  refine ⟨?_, ?_, ?_, ?_, ?_, ?_, ?_, ?_⟩
  · rw [cancelB_err]
    refine ⟨a1, fun k => ?_⟩
    rw [hfreed, a2]; split <;> omega
  · intro k
    rw [cancelB_cnt, hfreed, a2]
    cases k <;> simp [leftA]
  · rw [eta]; exact a3
  · rw [eta]; exact a4
  · rw [eta]; exact a5
  · rw [eta]; exact a6
  · rw [eta]; exact a7
  · rw [eta]; exact a8

/-! ## the state between the connection and the end of the request -/

/-- reader and writer exist, the socket is `H`'s, the connection attempt is over -/
structure Base (r : RSt) (cc : Nat) : Prop where
  cons : Cons r cc
  pR : r.pR = true
  pW : r.pW = true
  sock : r.sock = true
  noConn : r.pConnect = false
  reqHead : r.pReqHead = true

/-- what an operation which is not the end of the request leaves alone -/
def SameCb (r r' : RSt) : Prop := r'.ncb = r.ncb ∧ r'.handedBody = r.handedBody

theorem useH_id (r : RSt) (cc : Nat) (h : Cons r cc) : useH r = r := by
  have c := h.cnt .cookie
  have e := h.ok
  obtain ⟨live, hb, pc, pw, pr, p1, p2, p3, p4, sk, cr, rr, wq, wc, fd, nc, er⟩ := r
  simp only [expect] at c
  simp only at e
  subst e
  simp [useH, RSt.check, RSt.has, c]

theorem base_gotHeadersAlloc (r : RSt) (cc n : Nat) (hb : Base r cc) (h1 : r.pResHead = false) (h2 : r.pHeaders = false) :
    Base (gotHeadersAlloc r n) cc ∧ SameCb r (gotHeadersAlloc r n) ∧ (gotHeadersAlloc r n).rdReg = r.rdReg := by
  obtain ⟨⟨hok, hcnt, hconn, hcr, hnw, hnr, hfds, hone⟩, b1, b2, b3, b4, b5⟩ := hb
  simp only [gotHeadersAlloc]
  split
  · refine ⟨⟨⟨hok, ?_, hconn, hcr, hnw, hnr, hfds, hone⟩, b1, b2, b3, b4, b5⟩, ⟨rfl, rfl⟩, rfl⟩
    intro k
    have := hcnt k
    cases k <;> simp_all [expect, RSt.malloc, List.count_cons]
  · refine ⟨⟨⟨hok, ?_, hconn, hcr, hnw, hnr, hfds, hone⟩, b1, b2, b3, b4, b5⟩, ⟨rfl, rfl⟩, rfl⟩
    intro k
    have := hcnt k
    cases k <;> simp_all [expect, RSt.malloc, List.count_cons]

theorem base_dropInterim (r : RSt) (cc : Nat) (hb : Base r cc) :
    Base (dropInterim r) cc ∧ SameCb r (dropInterim r) ∧ (dropInterim r).rdReg = r.rdReg ∧
    (dropInterim r).pResHead = false ∧ (dropInterim r).pHeaders = false := by
  obtain ⟨⟨hok, hcnt, hconn, hcr, hnw, hnr, hfds, hone⟩, b1, b2, b3, b4, b5⟩ := hb
  have c1 := hcnt .resHead
  have c2 := hcnt .hdrArray
  simp only [expect] at c1 c2
  refine ⟨⟨⟨?_, ?_, ?_, ?_, ?_, ?_, ?_, ?_⟩, ?_, ?_, ?_, ?_, ?_⟩, ⟨?_, ?_⟩, ?_, ?_, ?_⟩
  · cases h1 : r.pResHead <;> cases h2 : r.pHeaders <;> simp_all [dropInterim, RSt.freeIf, RSt.free, RSt.check, RSt.has, or_none]
  · intro k
    have := hcnt k
    cases h1 : r.pResHead <;> cases h2 : r.pHeaders <;> cases k <;>
      simp_all [dropInterim, RSt.freeIf, RSt.free, RSt.check, expect, List.count_erase]
  all_goals (cases h1 : r.pResHead <;> cases h2 : r.pHeaders <;>
    simp_all [dropInterim, RSt.freeIf, RSt.free, RSt.check])

theorem base_addbody (st : St) (n : Nat) (r : RSt) (cc : Nat) (hb : Base r cc) :
    Base (addbodyR st n r) cc ∧ SameCb r (addbodyR st n r) ∧ (addbodyR st n r).rdReg = r.rdReg ∧
    (addbodyR st n r).pResHead = r.pResHead ∧ (addbodyR st n r).pHeaders = r.pHeaders := by
  obtain ⟨⟨hok, hcnt, hconn, hcr, hnw, hnr, hfds, hone⟩, b1, b2, b3, b4, b5⟩ := hb
  have c1 := hcnt .body
  simp only [expect] at c1
  simp only [addbodyR]
  split
  · cases hp : r.pBody
    · simp only [Bool.false_eq_true, if_false]
      refine ⟨⟨⟨hok, ?_, hconn, hcr, hnw, hnr, hfds, hone⟩, b1, b2, b3, b4, b5⟩, ⟨rfl, rfl⟩, rfl, rfl, rfl⟩
      intro k
      have := hcnt k
      cases k <;> simp_all [expect, RSt.malloc, List.count_cons]
    · simp only [if_true]
      rw [hp] at c1
      refine ⟨⟨⟨?_, hcnt, hconn, hcr, hnw, hnr, hfds, hone⟩, b1, b2, b3, b4, b5⟩, ⟨rfl, rfl⟩, rfl, rfl, rfl⟩
      simp [RSt.check, RSt.has, or_none, hok, c1]
  · exact ⟨⟨⟨hok, hcnt, hconn, hcr, hnw, hnr, hfds, hone⟩, b1, b2, b3, b4, b5⟩, ⟨rfl, rfl⟩, rfl, rfl, rfl⟩

theorem base_readWait (r : RSt) (cc : Nat) (i : Bool) (hb : Base r cc) (hidle : r.rdReg = .idle) :
    Base (readWait r i) cc ∧ SameCb r (readWait r i) ∧ (readWait r i).rdReg ≠ .idle ∧
    (readWait r i).pResHead = r.pResHead ∧ (readWait r i).pHeaders = r.pHeaders := by
  obtain ⟨⟨hok, hcnt, hconn, hcr, hnw, hnr, hfds, hone⟩, b1, b2, b3, b4, b5⟩ := hb
  refine ⟨⟨⟨?_, hcnt, hconn, hcr, hnw, ?_, hfds, hone⟩, b1, b2, b3, b4, b5⟩, ⟨rfl, rfl⟩, ?_, rfl, rfl⟩
  · simp [readWait, RSt.check, or_none, hok, hidle]
  · intro hc; simp [readWait, RSt.check] at hc; rw [b1] at hc; cases hc
  · simp only [readWait]; cases i <;> simp

/-! ## the three ways to reach the caller's callback -/

theorem fail_spec (r : RSt) (cc : Nat) (h : Cons r cc) :
    Ended (failR r) (if r.pConnect then 0 else cc) (r.ncb + 1) r.handedBody := by
  simp only [failR]
  rw [useH_id r cc h]
  obtain ⟨hok, hcnt, hconn, hcr, hnw, hnr, hfds, hone⟩ := h
  have hc : Cons { r with ncb := r.ncb + 1 } cc :=
    ⟨hok, fun k => by have := hcnt k; cases k <;> simpa [expect] using this, hconn, hcr, hnw, hnr, hfds, hone⟩
  exact cancel_spec _ cc hc

theorem docallback_spec (r : RSt) (cc : Nat) (h : Cons r cc) :
    Ended (docallbackR r) (if r.pConnect then 0 else cc) (r.ncb + 1) (r.handedBody + r.pBody.toNat) := by
  simp only [docallbackR]
  rw [useH_id r cc h]
  obtain ⟨hok, hcnt, hconn, hcr, hnw, hnr, hfds, hone⟩ := h
  have cb := hcnt .body
  simp only [expect] at cb
  cases hp : r.pBody
  · simp only [Bool.false_eq_true, if_false, Bool.toNat_false, Nat.add_zero]
    have hc : Cons { r with ncb := r.ncb + 1, pBody := false } cc :=
      ⟨hok, fun k => by have := hcnt k; cases k <;> simp_all [expect], hconn, hcr, hnw, hnr, hfds, hone⟩
    exact cancel_spec _ cc hc
  · simp only [if_true, Bool.toNat_true]
    rw [hp] at cb
    have hc : Cons { ({ r with ncb := r.ncb + 1 } : RSt).check (({ r with ncb := r.ncb + 1 } : RSt).has .body)
          "a dangling body pointer is handed to the caller" with
          live := r.live.erase .body, handedBody := r.handedBody + 1, pBody := false } cc :=
      ⟨by simp [RSt.check, RSt.has, or_none, hok, cb],
       fun k => by have := hcnt k; cases k <;> simp_all [expect, RSt.check, List.count_erase],
       hconn, hcr, hnw, hnr, hfds, hone⟩
    exact cancel_spec _ cc hc

theorem toobig_spec (r : RSt) (cc : Nat) (h : Cons r cc) :
    Ended (toobigR r) (if r.pConnect then 0 else cc) (r.ncb + 1) r.handedBody := by
  simp only [toobigR]
  rw [useH_id r cc h]
  obtain ⟨hok, hcnt, hconn, hcr, hnw, hnr, hfds, hone⟩ := h
  have cb := hcnt .body
  simp only [expect] at cb
  have hc : Cons { r.freeIf r.pBody .body with pBody := false } cc := by
    cases hp : r.pBody
    · exact ⟨hok, fun k => by have := hcnt k; cases k <;> simp_all [expect, RSt.freeIf], hconn, hcr, hnw, hnr, hfds, hone⟩
    · rw [hp] at cb
      exact ⟨by simp [RSt.freeIf, RSt.free, RSt.check, RSt.has, or_none, hok, cb],
        fun k => by have := hcnt k; cases k <;> simp_all [expect, RSt.freeIf, RSt.free, RSt.check, List.count_erase],
        hconn, hcr, hnw, hnr, hfds, hone⟩
  have := docallback_spec _ cc hc
  simpa [RSt.freeIf, apply_ite, RSt.free, RSt.check] using this

/-- the body buffers handed to the caller by `doneR resp` -/
def handedBy (resp : Option Resp) (r : RSt) : Nat :=
  match resp with
  | none => 0
  | some x =>
    match x.body with
    | none => 0
    | some _ => r.pBody.toNat

theorem done_spec (resp : Option Resp) (r : RSt) (cc : Nat) (h : Cons r cc) :
    Ended (doneR resp r) (if r.pConnect then 0 else cc) (r.ncb + 1) (r.handedBody + handedBy resp r) := by
  cases resp with
  | none => simpa [doneR, handedBy] using fail_spec r cc h
  | some x =>
    cases hb : x.body with
    | none => simpa [doneR, handedBy, hb] using toobig_spec r cc h
    | some b => simpa [doneR, handedBy, hb] using docallback_spec r cc h

/-! ## which handler follows which -/

theorem gotHeaders_ne_wait (ovf : Bool → Nat → Int) (st : St) (head : Bytes) (st' : St) (c k : Nat) (h' : Handler) :
    gotHeaders ovf st head ≠ .wait st' c k h' := by
  simp only [gotHeaders, afterParse, tooBig]
  repeat' split
  all_goals simp

/-- `callback_read_header` waits only when it has not called `gotheaders` -/
theorem readHeader_wait (ovf : Bool → Nat → Int) (st : St) (s : Status) (buf : Bytes) (st' : St) (c k : Nat) (h' : Handler)
    (hm : micro ovf st .readHeader s buf = .wait st' c k h') : entersGotHeaders st s buf = false := by
  simp only [micro, readHeader] at hm
  simp only [entersGotHeaders, hdrEnd]
  split at hm
  · cases hm
  · split at hm
    · exact absurd hm (gotHeaders_ne_wait ovf _ _ _ _ _ _)
    · rename_i h1 h2
      simp [h2]

/-- the handler a decision continues with -/
def target : Micro → Option Handler
  | .goto _ _ h' => some h'
  | .wait _ _ _ h' => some h'
  | _ => none

/-- only `gotheaders` goes back to reading headers -/
theorem next_ne_readHeader (ovf : Bool → Nat → Int) (st : St) (h : Handler) (s : Status) (buf : Bytes)
    (hh : h ≠ .readHeader) : target (micro ovf st h s buf) ≠ some .readHeader := by
  cases h with
  | readHeader => exact absurd rfl hh
  | chunkedHeader =>
    simp only [micro, chunkedHeader, tooBig]
    repeat' split
    all_goals simp [target]
  | readData =>
    simp only [micro, readData]
    repeat' split
    all_goals simp [target]
  | readToEof =>
    simp only [micro, readToEof, tooBig]
    repeat' split
    all_goals simp [target]

/-! ## one handler invocation -/

/-- between handlers: reader, writer and socket exist; while reading headers no header copy is held -/
structure Main (r : RSt) (cc : Nat) (h : Handler) : Prop where
  base : Base r cc
  hdr : h = .readHeader → r.pResHead = false ∧ r.pHeaders = false

/-- the verdict on the resource effects `r → r'` of one handler invocation which decided `m` -/
def MicroROK (r : RSt) (cc : Nat) (r' : RSt) : Micro → Prop
  | .goto _ _ h' => Main r' cc h' ∧ r'.rdReg = .idle ∧ SameCb r r'
  | .wait _ _ _ h' => Main r' cc h' ∧ r'.rdReg ≠ .idle ∧ SameCb r r'
  | .done resp => ∃ n, Ended r' cc (r.ncb + 1) (r.handedBody + n) ∧ n ≤ 1 ∧
      ((∀ x b, resp = some x → x.body = some b → False) → n = 0)
  | .abort _ => True

theorem handedBy_le (resp : Option Resp) (r : RSt) : handedBy resp r ≤ 1 ∧
    ((∀ x b, resp = some x → x.body = some b → False) → handedBy resp r = 0) := by
  cases resp with
  | none => simp [handedBy]
  | some x =>
    cases hb : x.body with
    | none => simp [handedBy, hb]
    | some b =>
      refine ⟨by simp only [handedBy, hb]; cases r.pBody <;> simp, fun hc => absurd hb (fun e => hc x b rfl e)⟩

theorem afterMicro_ok (m : Micro) (len : Nat) (r r1 : RSt) (cc : Nat) (hb : Base r1 cc) (hidle : r1.rdReg = .idle)
    (hs : SameCb r r1) (ht : target m = some .readHeader → r1.pResHead = false ∧ r1.pHeaders = false) :
    MicroROK r cc (afterMicro m len r1) m := by
  cases m with
  | goto st' c h' =>
    simp only [afterMicro, MicroROK]
    exact ⟨⟨hb, fun e => ht (by simp [target, e])⟩, hidle, hs⟩
  | wait st' c k h' =>
    simp only [afterMicro, MicroROK]
    obtain ⟨w1, w2, w3, w4, w5⟩ := base_readWait r1 cc (decide (k ≤ len - c)) hb hidle
    refine ⟨⟨w1, fun e => ?_⟩, w3, ⟨w2.1.trans hs.1, w2.2.trans hs.2⟩⟩
    rw [w4, w5]; exact ht (by simp [target, e])
  | done resp =>
    simp only [afterMicro, MicroROK]
    have := done_spec resp r1 cc hb.cons
    rw [hb.noConn, hs.1, hs.2] at this
    exact ⟨handedBy resp r1, by simpa using this, (handedBy_le resp r1).1, (handedBy_le resp r1).2⟩
  | abort w => simp [MicroROK]

theorem microR_ok (ovf : Bool → Nat → Int) (st : St) (h : Handler) (s : Status) (buf : Bytes) (r : RSt) (cc : Nat)
    (hm : Main r cc h) (hidle : r.rdReg = .idle) :
    MicroROK r cc (microR ovf st h s buf r) (micro ovf st h s buf) := by
  obtain ⟨hb, hhdr⟩ := hm
  have hu := useH_id r cc hb.cons
  have hsame : SameCb r r := ⟨rfl, rfl⟩
  cases h with
  | chunkedHeader =>
    simp only [microR, hu]
    exact afterMicro_ok _ _ r r cc hb hidle hsame
      (fun e => absurd e (next_ne_readHeader ovf st .chunkedHeader s buf (by decide)))
  | readData =>
    simp only [microR, hu]
    have ht := next_ne_readHeader ovf st .readData s buf (by decide)
    split
    · obtain ⟨a1, a2, a3, _, _⟩ := base_addbody st (dataPiece st buf) r cc hb
      exact afterMicro_ok _ _ r _ cc a1 (a3.trans hidle) a2 (fun e => absurd e ht)
    · exact afterMicro_ok _ _ r r cc hb hidle hsame (fun e => absurd e ht)
  | readToEof =>
    simp only [microR, hu]
    have ht := next_ne_readHeader ovf st .readToEof s buf (by decide)
    split
    · obtain ⟨a1, a2, a3, _, _⟩ := base_addbody st buf.length r cc hb
      exact afterMicro_ok _ _ r _ cc a1 (a3.trans hidle) a2 (fun e => absurd e ht)
    · exact afterMicro_ok _ _ r r cc hb hidle hsame (fun e => absurd e ht)
  | readHeader =>
    obtain ⟨f1, f2⟩ := hhdr rfl
    simp only [microR, hu]
    generalize hme : micro ovf st .readHeader s buf = m
    -- the state after the allocations at the start of `gotheaders`, if it is entered
    have hr1 : ∃ r1, (if entersGotHeaders st s buf = true then gotHeadersAlloc r (nheaders st buf) else r) = r1 ∧
        Base r1 cc ∧ SameCb r r1 ∧ r1.rdReg = .idle ∧
        (entersGotHeaders st s buf = false → r1.pResHead = false ∧ r1.pHeaders = false) := by
      by_cases he : entersGotHeaders st s buf = true
      · obtain ⟨g1, g2, g3⟩ := base_gotHeadersAlloc r cc (nheaders st buf) hb f1 f2
        exact ⟨_, rfl, by rw [if_pos he]; exact g1, by rw [if_pos he]; exact g2, by rw [if_pos he]; exact g3.trans hidle,
          fun hc => by rw [hc] at he; cases he⟩
      · exact ⟨_, rfl, by rw [if_neg he]; exact hb, by rw [if_neg he]; exact hsame, by rw [if_neg he]; exact hidle,
          fun _ => by rw [if_neg he]; exact ⟨f1, f2⟩⟩
    obtain ⟨r1, hr1e, b1, s1, i1, n1⟩ := hr1
    rw [hr1e]
    cases m with
    | goto st' c h' =>
      cases h' with
      | readHeader =>
        simp only [MicroROK]
        obtain ⟨d1, d2, d3, d4, d5⟩ := base_dropInterim r1 cc b1
        exact ⟨⟨d1, fun _ => ⟨d4, d5⟩⟩, d3.trans i1, ⟨d2.1.trans s1.1, d2.2.trans s1.2⟩⟩
      | chunkedHeader => exact afterMicro_ok _ _ r r1 cc b1 i1 s1 (fun e => by simp [target] at e)
      | readData => exact afterMicro_ok _ _ r r1 cc b1 i1 s1 (fun e => by simp [target] at e)
      | readToEof => exact afterMicro_ok _ _ r r1 cc b1 i1 s1 (fun e => by simp [target] at e)
    | wait st' c k h' =>
      exact afterMicro_ok _ _ r r1 cc b1 i1 s1 (fun _ => n1 (readHeader_wait ovf st s buf st' c k h' hme))
    | done resp => exact afterMicro_ok _ _ r r1 cc b1 i1 s1 (fun e => by simp [target] at e)
    | abort w => simp [MicroROK]

/-! ## one event-loop callback -/

def eraseR : StepResR → StepRes
  | .wait st c k h _ => .wait st c k h
  | .done resp _ => .done resp
  | .abort w => .abort w

/-- `stepR` decides exactly as `Model.Http.step` -/
theorem stepR_erase (ovf : Bool → Nat → Int) : ∀ (f : Nat) (st : St) (h : Handler) (s : Status) (buf : Bytes) (c0 : Nat) (r : RSt),
    eraseR (stepR ovf f st h s buf c0 r) = step ovf f st h s buf c0 := by
  intro f
  induction f with
  | zero => intro st h s buf c0 r; rfl
  | succ f ih =>
    intro st h s buf c0 r
    simp only [stepR, step]
    cases micro ovf st h s buf with
    | goto st' c h' => exact ih _ _ _ _ _ _
    | wait st' c k h' => rfl
    | done resp => rfl
    | abort w => rfl

def StepRRes (r : RSt) (cc : Nat) : StepResR → Prop
  | .wait _ _ _ h' r' => Main r' cc h' ∧ r'.rdReg ≠ .idle ∧ SameCb r r'
  | .done resp r' => ∃ n, Ended r' cc (r.ncb + 1) (r.handedBody + n) ∧ n ≤ 1 ∧
      ((∀ x b, resp = some x → x.body = some b → False) → n = 0)
  | .abort _ => True

theorem stepR_res (ovf : Bool → Nat → Int) (cc : Nat) : ∀ (f : Nat) (st : St) (h : Handler) (s : Status) (buf : Bytes) (c0 : Nat)
    (r : RSt), Main r cc h → r.rdReg = .idle → StepRRes r cc (stepR ovf f st h s buf c0 r) := by
  intro f
  induction f with
  | zero => intro st h s buf c0 r _ _; simp [stepR, StepRRes]
  | succ f ih =>
    intro st h s buf c0 r hm hidle
    have hk := microR_ok ovf st h s buf r cc hm hidle
    simp only [stepR]
    generalize micro ovf st h s buf = m at hk
    cases m with
    | goto st' c h' =>
      simp only [MicroROK] at hk
      obtain ⟨k1, k2, k3⟩ := hk
      have := ih st' h' .ok (buf.drop c) (c0 + c) _ k1 k2
      (try dsimp only)
      generalize stepR ovf f st' h' .ok (buf.drop c) (c0 + c) (microR ovf st h s buf r) = res at this
      cases res with
      | wait st'' c' k h'' r' =>
        simp only [StepRRes] at this ⊢
        exact ⟨this.1, this.2.1, this.2.2.1.trans k3.1, this.2.2.2.trans k3.2⟩
      | done resp r' =>
        simp only [StepRRes] at this ⊢
        rw [k3.1, k3.2] at this; exact this
      | abort w => simp [StepRRes]
    | wait st' c k h' => simpa [StepRRes, MicroROK] using hk
    | done resp => simpa [StepRRes, MicroROK] using hk
    | abort w => simp [StepRRes]

/-! ## the body pointer is `NULL` exactly when the body is empty -/

/-- the body pointer is non-`NULL` exactly when the body is non-empty (and then something is allocated) -/
def Link (st : St) (r : RSt) : Prop :=
  (r.pBody = true ↔ 0 < st.bodylen) ∧ (0 < st.alloc ↔ 0 < st.bodylen) ∧ st.bodylen = st.bodyRev.length

theorem link_addbody (st st1 : St) (piece : Bytes) (r : RSt) (hl : Link st r) (ha : addbody st piece = some st1) :
    Link st1 (addbodyR st piece.length r) := by
  obtain ⟨l1, l2, l3⟩ := hl
  simp only [addbody] at ha
  by_cases hmax : st.bodylen + piece.length ≤ st.max
  · rw [if_pos hmax] at ha
    by_cases hg : st.bodylen + piece.length > st.alloc
    · simp only [if_pos hg] at ha
      have hb := growAlloc_bounds st.alloc (st.bodylen + piece.length) st.max hmax
      rw [if_pos hb.1] at ha
      cases ha
      simp only [addbodyR, if_pos hg]
      have hpos : 0 < st.bodylen + piece.length := by omega
      refine ⟨?_, ?_, ?_⟩
      · cases hp : r.pBody
        · simp only [Bool.false_eq_true, if_false]; exact ⟨fun _ => hpos, fun _ => trivial⟩
        · simp only [if_true]; exact ⟨fun _ => hpos, fun _ => hp⟩
      · exact ⟨fun _ => hpos, fun _ => by show 0 < growAlloc _ _ _; omega⟩
      · show st.bodylen + piece.length = (piece.reverse ++ st.bodyRev).length
        simp; omega
    · simp only [if_neg hg] at ha
      rw [if_pos (by omega)] at ha
      cases ha
      simp only [addbodyR, if_neg hg]
      refine ⟨?_, ?_, ?_⟩
      · show r.pBody = true ↔ 0 < st.bodylen + piece.length
        rw [l1]; constructor <;> intro _ <;> omega
      · show 0 < st.alloc ↔ 0 < st.bodylen + piece.length
        constructor <;> intro _ <;> omega
      · show st.bodylen + piece.length = (piece.reverse ++ st.bodyRev).length
        simp; omega
  · rw [if_neg hmax] at ha; cases ha

/-- is a non-empty body handed to the callback? -/
def bodyNonEmpty : Option Resp → Bool
  | some x =>
    match x.body with
    | some b => decide (0 < b.length)
    | none => false
  | none => false

/-- the verdict of the link on one decision `m`, for the state `r1` on which `afterMicro` acts -/
def LinkOK (r1 : RSt) : Micro → Prop
  | .goto st' _ _ => Link st' r1
  | .wait st' _ _ _ => Link st' r1
  | .done resp => handedBy resp r1 = (bodyNonEmpty resp).toNat
  | .abort _ => True

theorem linkOK_mkResp (st : St) (r : RSt) (hl : Link st r) : LinkOK r (.done (some (mkResp st))) := by
  obtain ⟨l1, _, l3⟩ := hl
  simp only [LinkOK, handedBy, mkResp, bodyNonEmpty, List.length_reverse]
  rw [← l3]
  cases hp : r.pBody
  · have : ¬ 0 < st.bodylen := fun h => by have := l1.mpr h; rw [hp] at this; cases this
    simp [this]
  · have := l1.mp hp
    simp [this]

theorem linkOK_tooBig (st : St) (r : RSt) : LinkOK r (tooBig st) := by
  simp [LinkOK, tooBig, handedBy, bodyNonEmpty]

theorem linkOK_fail (r : RSt) : LinkOK r (.done none) := by
  simp [LinkOK, handedBy, bodyNonEmpty]

theorem chunkedHeader_link (st : St) (s : Status) (buf : Bytes) (r : RSt) (hl : Link st r) :
    LinkOK r (chunkedHeader st s buf) := by
  simp only [chunkedHeader]
  repeat' split
  all_goals first
    | exact linkOK_fail r
    | exact linkOK_tooBig st r
    | exact linkOK_mkResp st r hl
    | exact hl
    | simp [LinkOK]

theorem readToEof_link (st : St) (s : Status) (buf : Bytes) (r : RSt) (hl : Link st r) :
    LinkOK (if s == .ok && !decide (buf.length > st.max - st.bodylen) then addbodyR st buf.length r else r)
      (readToEof st s buf) := by
  cases s with
  | err => exact linkOK_fail r
  | eof => exact linkOK_mkResp st r hl
  | ok =>
    simp only [readToEof]
    by_cases h0 : st.bodylen > st.max
    · rw [if_pos h0]; simp [LinkOK]
    · rw [if_neg h0]
      by_cases h : buf.length > st.max - st.bodylen
      · rw [if_pos h]
        simp only [beq_self_eq_true, h, decide_true, Bool.not_true, Bool.and_false, Bool.false_eq_true, if_false]
        exact linkOK_tooBig st r
      · rw [if_neg h]
        simp only [beq_self_eq_true, h, decide_false, Bool.not_false, Bool.and_true, if_true]
        cases ha : addbody st buf with
        | none => simp [LinkOK]
        | some st1 => exact link_addbody st st1 buf r hl ha

theorem readData_link (st : St) (s : Status) (buf : Bytes) (r : RSt) (hl : Link st r) :
    LinkOK (if s == .ok then addbodyR st (dataPiece st buf) r else r) (readData st s buf) := by
  cases s with
  | err => exact linkOK_fail r
  | eof => exact linkOK_fail r
  | ok =>
    simp only [readData, bne_self_eq_false, Bool.false_eq_true, if_false, beq_self_eq_true, if_true]
    cases ha : addbody st (buf.take ((if buf.length > st.readlen then st.readlen else buf.length) -
        eolLen st.chunked st.readlen (if buf.length > st.readlen then st.readlen else buf.length))) with
    | none => simp [LinkOK]
    | some st1 =>
      have hl1 : Link st1 (addbodyR st (dataPiece st buf) r) := link_addbody st st1 _ r hl ha
      generalize addbodyR st (dataPiece st buf) r = r1 at hl1
      generalize (if buf.length > st.readlen then st.readlen else buf.length) = buflen
      (try dsimp only)
      by_cases hz : (st.readlen - buflen == 0) = true
      · rw [if_pos hz]
        by_cases hc : st.chunked = true
        · rw [if_pos hc]; exact hl1
        · rw [if_neg hc]; exact linkOK_mkResp _ _ hl1
      · rw [if_neg hz]; exact hl1

/-- a decision which leaves the body alone; a response it completes has no or an empty body -/
def BodyKept (st : St) : Micro → Prop
  | .goto st' _ _ => st'.bodylen = st.bodylen ∧ st'.alloc = st.alloc ∧ st'.bodyRev = st.bodyRev
  | .wait st' _ _ _ => st'.bodylen = st.bodylen ∧ st'.alloc = st.alloc ∧ st'.bodyRev = st.bodyRev
  | .done (some x) => x.body = none ∨ x.body = some []
  | _ => True

/-- `gotheaders` does not touch the body; a response it completes itself (HEAD/204/304) has an empty body -/
theorem gotHeaders_body (ovf : Bool → Nat → Int) (st : St) (head : Bytes) : BodyKept st (gotHeaders ovf st head) := by
  simp only [gotHeaders, afterParse, tooBig]
  repeat' split
  all_goals simp [BodyKept]

theorem readHeader_body (ovf : Bool → Nat → Int) (st : St) (s : Status) (buf : Bytes) :
    BodyKept st (readHeader ovf st s buf) := by
  simp only [readHeader]
  split
  · simp [BodyKept]
  · split
    · exact gotHeaders_body ovf { st with hepos := _ } _
    · split <;> simp [BodyKept]

/-- the link and, while reading headers, an empty body -/
def LinkH (st : St) (r : RSt) (h : Handler) : Prop := Link st r ∧ (h = .readHeader → st.bodylen = 0)

theorem readHeader_link (ovf : Bool → Nat → Int) (st : St) (s : Status) (buf : Bytes) (r r1 : RSt)
    (hl : LinkH st r .readHeader) (hp : r1.pBody = r.pBody) :
    LinkOK r1 (readHeader ovf st s buf) ∧
    (match readHeader ovf st s buf with
     | .goto st' _ _ => st'.bodylen = 0
     | .wait st' _ _ _ => st'.bodylen = 0
     | _ => True) := by
  obtain ⟨⟨l1, l2, l3⟩, l4⟩ := hl
  have hz := l4 rfl
  have hk := readHeader_body ovf st s buf
  have hpb : r1.pBody = false := by
    rw [hp]; cases hq : r.pBody
    · rfl
    · have := l1.mp hq; omega
  generalize readHeader ovf st s buf = m at hk
  cases m with
  | goto st' c h' =>
    obtain ⟨e1, e2, e3⟩ := hk
    refine ⟨?_, by simp only; rw [e1]; exact hz⟩
    simp only [LinkOK, Link]; rw [e1, e2, e3, hp]; exact ⟨l1, l2, l3⟩
  | wait st' c k h' =>
    obtain ⟨e1, e2, e3⟩ := hk
    refine ⟨?_, by simp only; rw [e1]; exact hz⟩
    simp only [LinkOK, Link]; rw [e1, e2, e3, hp]; exact ⟨l1, l2, l3⟩
  | done resp =>
    refine ⟨?_, trivial⟩
    cases resp with
    | none => exact linkOK_fail r1
    | some x =>
      simp only [BodyKept] at hk
      rcases hk with hb | hb
      · simp [LinkOK, handedBy, bodyNonEmpty, hb]
      · simp [LinkOK, handedBy, bodyNonEmpty, hb, hpb]
  | abort w => exact ⟨by simp [LinkOK], trivial⟩

/-- the verdict of the link on the effects `r → r'` of one handler invocation which decided `m` -/
def MicroLOK (r r' : RSt) : Micro → Prop
  | .goto st' _ h' => LinkH st' r' h'
  | .wait st' _ _ h' => LinkH st' r' h'
  | .done resp => r'.handedBody = r.handedBody + (bodyNonEmpty resp).toNat
  | .abort _ => True

/-- a decision which goes on reading headers does so with an empty body -/
def HdrEmpty : Micro → Prop
  | .goto st' _ h' => h' = .readHeader → st'.bodylen = 0
  | .wait st' _ _ h' => h' = .readHeader → st'.bodylen = 0
  | _ => True

theorem hdrEmpty_of_target (m : Micro) (h : target m ≠ some .readHeader) : HdrEmpty m := by
  cases m with
  | goto st' c h' => exact fun e => absurd (by simp [target, e]) h
  | wait st' c k h' => exact fun e => absurd (by simp [target, e]) h
  | done resp => trivial
  | abort w => trivial

theorem afterMicro_link (m : Micro) (len : Nat) (r r1 : RSt) (cc : Nat) (hb : Base r1 cc) (hs : SameCb r r1)
    (hl : LinkOK r1 m) (hz : HdrEmpty m) : MicroLOK r (afterMicro m len r1) m := by
  cases m with
  | goto st' c h' => exact ⟨hl, hz⟩
  | wait st' c k h' => exact ⟨hl, hz⟩
  | done resp =>
    simp only [afterMicro, MicroLOK]
    have := (done_spec resp r1 cc hb.cons).handed
    rw [this, hs.2]
    simp only [LinkOK] at hl
    rw [hl]
  | abort w => trivial

theorem dropInterim_pBody (r : RSt) : (dropInterim r).pBody = r.pBody := by
  simp only [dropInterim, RSt.freeIf]
  split <;> split <;> rfl

theorem gotHeadersAlloc_pBody (r : RSt) (n : Nat) : (gotHeadersAlloc r n).pBody = r.pBody := by
  simp only [gotHeadersAlloc]
  split <;> rfl

theorem microR_link (ovf : Bool → Nat → Int) (st : St) (h : Handler) (s : Status) (buf : Bytes) (r : RSt) (cc : Nat)
    (hm : Main r cc h) (hl : LinkH st r h) :
    MicroLOK r (microR ovf st h s buf r) (micro ovf st h s buf) := by
  obtain ⟨hb, hhdr⟩ := hm
  have hu := useH_id r cc hb.cons
  have hsame : SameCb r r := ⟨rfl, rfl⟩
  cases h with
  | chunkedHeader =>
    simp only [microR, hu]
    exact afterMicro_link _ _ r r cc hb hsame (chunkedHeader_link st s buf r hl.1)
      (hdrEmpty_of_target _ (next_ne_readHeader ovf st .chunkedHeader s buf (by decide)))
  | readData =>
    simp only [microR, hu]
    have ht := hdrEmpty_of_target _ (next_ne_readHeader ovf st .readData s buf (by decide))
    have hk := readData_link st s buf r hl.1
    split
    · rename_i hs
      rw [if_pos hs] at hk
      obtain ⟨a1, a2, _, _, _⟩ := base_addbody st (dataPiece st buf) r cc hb
      exact afterMicro_link _ _ r _ cc a1 a2 hk ht
    · rename_i hs
      rw [if_neg hs] at hk
      exact afterMicro_link _ _ r r cc hb hsame hk ht
  | readToEof =>
    simp only [microR, hu]
    have ht := hdrEmpty_of_target _ (next_ne_readHeader ovf st .readToEof s buf (by decide))
    have hk := readToEof_link st s buf r hl.1
    split
    · rename_i hs
      rw [if_pos hs] at hk
      obtain ⟨a1, a2, _, _, _⟩ := base_addbody st buf.length r cc hb
      exact afterMicro_link _ _ r _ cc a1 a2 hk ht
    · rename_i hs
      rw [if_neg hs] at hk
      exact afterMicro_link _ _ r r cc hb hsame hk ht
  | readHeader =>
    obtain ⟨f1, f2⟩ := hhdr rfl
    simp only [microR, hu]
    have hr1 : ∃ r1, (if entersGotHeaders st s buf = true then gotHeadersAlloc r (nheaders st buf) else r) = r1 ∧
        Base r1 cc ∧ SameCb r r1 ∧ r1.pBody = r.pBody := by
      by_cases he : entersGotHeaders st s buf = true
      · obtain ⟨g1, g2, _⟩ := base_gotHeadersAlloc r cc (nheaders st buf) hb f1 f2
        exact ⟨_, rfl, by rw [if_pos he]; exact g1, by rw [if_pos he]; exact g2,
          by rw [if_pos he]; exact gotHeadersAlloc_pBody _ _⟩
      · exact ⟨_, rfl, by rw [if_neg he]; exact hb, by rw [if_neg he]; exact hsame, by rw [if_neg he]⟩
    obtain ⟨r1, hr1e, b1, s1, p1⟩ := hr1
    rw [hr1e]
    obtain ⟨k1, k2⟩ := readHeader_link ovf st s buf r r1 hl p1
    have hmic : micro ovf st .readHeader s buf = readHeader ovf st s buf := rfl
    rw [hmic]
    generalize readHeader ovf st s buf = m at k1 k2
    cases m with
    | goto st' c h' =>
      cases h' with
      | readHeader =>
        simp only [MicroLOK]
        simp only [LinkOK] at k1
        obtain ⟨l1, l2, l3⟩ := k1
        exact ⟨⟨by rw [dropInterim_pBody]; exact l1, l2, l3⟩, fun _ => k2⟩
      | chunkedHeader => exact afterMicro_link _ _ r r1 cc b1 s1 k1 (fun e => by cases e)
      | readData => exact afterMicro_link _ _ r r1 cc b1 s1 k1 (fun e => by cases e)
      | readToEof => exact afterMicro_link _ _ r r1 cc b1 s1 k1 (fun e => by cases e)
    | wait st' c k h' => exact afterMicro_link _ _ r r1 cc b1 s1 k1 (fun _ => k2)
    | done resp => exact afterMicro_link _ _ r r1 cc b1 s1 k1 trivial
    | abort w => trivial

/-- one event-loop callback keeps the link; a response it completes hands over a buffer exactly when its
    body is not empty -/
def StepLRes (r : RSt) : StepResR → Prop
  | .wait st' _ _ h' r' => LinkH st' r' h'
  | .done resp r' => r'.handedBody = r.handedBody + (bodyNonEmpty resp).toNat
  | .abort _ => True

theorem stepR_link (ovf : Bool → Nat → Int) (cc : Nat) : ∀ (f : Nat) (st : St) (h : Handler) (s : Status) (buf : Bytes) (c0 : Nat)
    (r : RSt), Main r cc h → r.rdReg = .idle → LinkH st r h → StepLRes r (stepR ovf f st h s buf c0 r) := by
  intro f
  induction f with
  | zero => intro st h s buf c0 r _ _ _; simp [stepR, StepLRes]
  | succ f ih =>
    intro st h s buf c0 r hm hidle hl
    have hk := microR_ok ovf st h s buf r cc hm hidle
    have hk2 := microR_link ovf st h s buf r cc hm hl
    simp only [stepR]
    generalize micro ovf st h s buf = m at hk hk2
    cases m with
    | goto st' c h' =>
      simp only [MicroROK] at hk
      simp only [MicroLOK] at hk2
      obtain ⟨k1, k2, k3⟩ := hk
      have := ih st' h' .ok (buf.drop c) (c0 + c) _ k1 k2 hk2
      (try dsimp only)
      generalize stepR ovf f st' h' .ok (buf.drop c) (c0 + c) (microR ovf st h s buf r) = res at this
      cases res with
      | wait st'' c' k h'' r' => exact this
      | done resp r' => simp only [StepLRes] at this ⊢; rw [this, k3.2]
      | abort w => trivial
    | wait st' c k h' => exact hk2
    | done resp => exact hk2
    | abort w => trivial

/-! ## the writer's callback -/

/-- `writbuf` up to the point where it either pokes the queue or calls `fail` -/
def wmid (r : RSt) : RSt :=
  ({ r.check r.wcur "writbuf: assert(W->write_cookie != NULL)" with wcur := false }.free .wbufData).free .wbuf

theorem writbuf_eq (r : RSt) (ok : Bool) : writbuf r ok = if ok then poke (wmid r) else failR (wmid r) := rfl

theorem base_wmid (r : RSt) (cc : Nat) (hb : Base r cc) (hw : r.wcur = true) :
    Base (wmid r) cc ∧ SameCb r (wmid r) ∧ (wmid r).rdReg = r.rdReg ∧ (wmid r).pResHead = r.pResHead ∧
    (wmid r).pHeaders = r.pHeaders := by
  obtain ⟨⟨hok, hcnt, hconn, hcr, hnw, hnr, hfds, hone⟩, b1, b2, b3, b4, b5⟩ := hb
  have c1 := hcnt .wbuf
  have c2 := hcnt .wbufData
  simp only [expect, hw, Bool.toNat_true] at c1 c2
  refine ⟨⟨⟨?_, ?_, hconn, hcr, ?_, hnr, hfds, hone⟩, b1, b2, b3, b4, b5⟩, ⟨rfl, rfl⟩, rfl, rfl, rfl⟩
  · simp [wmid, RSt.free, RSt.check, RSt.has, or_none, hok, hw, c1, c2, List.count_erase]
  · intro k
    have := hcnt k
    cases k <;> simp_all [wmid, expect, RSt.free, RSt.check, List.count_erase]
  · intro hc; simp [wmid, RSt.free, RSt.check] at hc; rw [b2] at hc; cases hc

theorem base_poke (r : RSt) (cc : Nat) (hb : Base r cc) :
    Base (poke r) cc ∧ SameCb r (poke r) ∧ (poke r).rdReg = r.rdReg ∧ (poke r).pResHead = r.pResHead ∧
    (poke r).pHeaders = r.pHeaders := by
  obtain ⟨⟨hok, hcnt, hconn, hcr, hnw, hnr, hfds, hone⟩, b1, b2, b3, b4, b5⟩ := hb
  simp only [poke]
  split
  · exact ⟨⟨⟨hok, hcnt, hconn, hcr, hnw, hnr, hfds, hone⟩, b1, b2, b3, b4, b5⟩, ⟨rfl, rfl⟩, rfl, rfl, rfl⟩
  · rename_i hc
    simp only [Bool.or_eq_true, beq_iff_eq, not_or] at hc
    refine ⟨⟨⟨hok, ?_, hconn, hcr, ?_, hnr, hfds, hone⟩, b1, b2, b3, b4, b5⟩, ⟨rfl, rfl⟩, rfl, rfl, rfl⟩
    · intro k
      have := hcnt k
      have h1 : r.wcur = false := by simpa using hc.1
      cases k <;> simp_all [expect] <;> omega
    · intro hc'; simp only at hc'; rw [b2] at hc'; cases hc'

theorem main_writesR (cc : Nat) (h : Handler) : ∀ (n : Nat) (r : RSt), Main r cc h →
    Main (writesR n r) cc h ∧ SameCb r (writesR n r) ∧ (writesR n r).rdReg = r.rdReg := by
  intro n
  induction n with
  | zero => intro r hm; exact ⟨hm, ⟨rfl, rfl⟩, rfl⟩
  | succ n ih =>
    intro r hm
    simp only [writesR]
    split
    · rename_i hw
      obtain ⟨m1, m2, m3, m4, m5⟩ := base_wmid r cc hm.base hw
      obtain ⟨p1, p2, p3, p4, p5⟩ := base_poke _ cc m1
      have hm' : Main (writbuf r true) cc h := by
        rw [writbuf_eq]; simp only [if_true]
        exact ⟨p1, fun e => by rw [p4, p5, m4, m5]; exact hm.hdr e⟩
      obtain ⟨i1, i2, i3⟩ := ih _ hm'
      refine ⟨i1, ⟨i2.1.trans ?_, i2.2.trans ?_⟩, i3.trans ?_⟩
      · rw [writbuf_eq]; simp only [if_true]; exact p2.1.trans m2.1
      · rw [writbuf_eq]; simp only [if_true]; exact p2.2.trans m2.2
      · rw [writbuf_eq]; simp only [if_true]; exact p3.trans m3
    · exact ⟨hm, ⟨rfl, rfl⟩, rfl⟩

theorem writesR_pBody : ∀ (n : Nat) (r : RSt), (writesR n r).pBody = r.pBody := by
  intro n
  induction n with
  | zero => intro r; rfl
  | succ n ih =>
    intro r
    simp only [writesR]
    split
    · rw [ih, writbuf_eq]
      simp only [if_true, poke]
      split <;> rfl
    · rfl

theorem base_readFired (r : RSt) (cc : Nat) (hb : Base r cc) (hreg : r.rdReg ≠ .idle) :
    Base (readFired r) cc ∧ SameCb r (readFired r) ∧ (readFired r).rdReg = .idle ∧
    (readFired r).pResHead = r.pResHead ∧ (readFired r).pHeaders = r.pHeaders := by
  obtain ⟨⟨hok, hcnt, hconn, hcr, hnw, hnr, hfds, hone⟩, b1, b2, b3, b4, b5⟩ := hb
  refine ⟨⟨⟨?_, hcnt, hconn, hcr, hnw, fun _ => rfl, hfds, hone⟩, b1, b2, b3, b4, b5⟩, ⟨rfl, rfl⟩, rfl, rfl, rfl⟩
  simp [readFired, RSt.check, or_none, hok, hreg]

/-! ## the whole run -/

/-- the verdict on a finished request -/
def OutcomeOK (max : Nat) : OutcomeR → Prop
  | .ended cbs cancelled r _ =>
    r.err = none ∧ (∀ k, r.live.count k = 0) ∧ r.connReg = false ∧ r.rdReg = .idle ∧ r.wcur = false ∧ r.fds = 0 ∧
    r.ncb = cbs.length ∧
    (if cancelled then cbs = [] ∧ r.handedBody = 0
     else ∃ resp, cbs = [resp] ∧ RespOK max resp ∧ r.handedBody = (bodyNonEmpty resp).toNat)
  | .abort _ _ => False

theorem arrive_spec (a : Arrival) (k rlen b : Nat) (hb : b ≤ rlen) (hk : b < k) :
    b ≤ (arrive a k rlen b).2 ∧ (arrive a k rlen b).2 ≤ rlen ∧
    ((arrive a k rlen b).1 = .ok → k ≤ (arrive a k rlen b).2) := by
  simp only [arrive]
  rw [if_neg (by omega)]
  cases a with
  | more extra =>
    (try dsimp only)
    split
    · refine ⟨?_, ?_, fun _ => ?_⟩ <;> (try dsimp only) <;> split <;> omega
    · exact ⟨hb, Nat.le_refl _, fun hc => by cases hc⟩
  | eof => exact ⟨Nat.le_refl _, hb, fun hc => by cases hc⟩
  | err => exact ⟨Nat.le_refl _, hb, fun hc => by cases hc⟩

theorem ended_outcome (max : Nat) (r : RSt) (resp : Option Resp) (tr : List Snap) (n : Nat)
    (he : Ended r 0 1 n) (hr : RespOK max resp) (hh : r.handedBody = (bodyNonEmpty resp).toNat) :
    OutcomeOK max (.ended [resp] false r tr) := by
  obtain ⟨e1, e2, e3, e4, e5, e6, e7, e8⟩ := he
  refine ⟨e1, fun k => by rw [e2]; split <;> rfl, e3, e4, e5, e6, by simpa using e7, ?_⟩
  simp only [Bool.false_eq_true, if_false]
  exact ⟨resp, rfl, hr, hh⟩

theorem loopR_ok {σ : Type} (ovf : Bool → Nat → Int) (oracle : σ → Nat → Nat → σ × Turn) :
    ∀ (f : Nat) (o : σ) (st : St) (h : Handler) (rest : Bytes) (rlen b c k : Nat) (tr : List Snap) (r : RSt),
    rlen = rest.length → b ≤ rlen → b < k → InvBuf st h (rest.take b) → rlen - b + 1 ≤ f →
    Main r 0 h → r.rdReg ≠ .idle → r.ncb = 0 → r.handedBody = 0 → LinkH st r h →
    OutcomeOK st.max (loopR ovf oracle f o st h rest rlen b c k tr r) := by
  intro f
  induction f with
  | zero => intro o st h rest rlen b c k tr r _ _ _ _ hf; omega
  | succ f ih =>
    intro o st h rest rlen b c k tr r hrl hb hk hi hfuel hm hreg hncb hhb hlink
    simp only [loopR]
    generalize oracle o c k = ot
    obtain ⟨o', t⟩ := ot
    (try dsimp only)
    obtain ⟨w1, w2, w3⟩ := main_writesR 0 h t.wrote r hm
    have w4 := writesR_pBody t.wrote r
    generalize writesR t.wrote r = rw at w1 w2 w3 w4
    have hlink' : LinkH st (readFired rw) h := ⟨⟨by show rw.pBody = true ↔ _; rw [w4]; exact hlink.1.1, hlink.1.2⟩, hlink.2⟩
    have hncb' : rw.ncb = 0 := w2.1.trans hncb
    have hhb' : rw.handedBody = 0 := w2.2.trans hhb
    split
    · -- the write in progress fails: fail(H) from the writer
      rename_i hwf
      simp only [Bool.and_eq_true] at hwf
      obtain ⟨m1, m2, _, _, _⟩ := base_wmid rw 0 w1.base hwf.2
      have := fail_spec (wmid rw) 0 m1.cons
      rw [m1.noConn, m2.1, m2.2, hncb', hhb'] at this
      rw [writbuf_eq]; simp only [Bool.false_eq_true, if_false]
      have e8 := this.handed
      exact ended_outcome st.max _ none _ 0 (by simpa using this) (by simp [RespOK]) (by simpa [bodyNonEmpty] using e8)
    · split
      · -- the caller cancels
        have := cancel_spec rw 0 w1.base.cons
        rw [w1.base.noConn, hncb', hhb'] at this
        obtain ⟨e1, e2, e3, e4, e5, e6, e7, e8⟩ := this
        refine ⟨e1, fun k => by rw [e2]; simp, e3, e4, e5, e6, by simpa using e7, ?_⟩
        simpa using e8
      · -- the wait completes
        obtain ⟨f1, f2, f3, f4, f5⟩ := base_readFired rw 0 w1.base (by rw [w3]; exact hreg)
        have hmf : Main (readFired rw) 0 h := ⟨f1, fun e => by rw [f4, f5]; exact w1.hdr e⟩
        obtain ⟨a1, a2, a3⟩ := arrive_spec t.arrival k rlen b hb hk
        generalize arrive t.arrival k rlen b = sb at a1 a2 a3
        obtain ⟨s, b2⟩ := sb
        simp only at a1 a2 a3 ⊢
        have hsl : (rest.take b2).length = b2 := by rw [List.length_take]; omega
        have hi2 : InvBuf st h (rest.take b2) := invBuf_mono hi (by rw [hsl, List.length_take]; omega)
        have hso := step_ok ovf (b2 + 1) st h s (rest.take b2) 0 hi2 (by omega)
        have hsr := stepR_res ovf 0 (b2 + 1) st h s (rest.take b2) 0 (readFired rw) hmf f3
        have hsl2 := stepR_link ovf 0 (b2 + 1) st h s (rest.take b2) 0 (readFired rw) hmf f3 hlink'
        rw [← stepR_erase ovf (b2 + 1) st h s (rest.take b2) 0 (readFired rw)] at hso
        generalize hres : stepR ovf (b2 + 1) st h s (rest.take b2) 0 (readFired rw) = res at hso hsr hsl2
        cases res with
        | done resp r' =>
          simp only [eraseR, StepOK] at hso
          simp only [StepRRes] at hsr
          obtain ⟨n, hn1, hn2, hn3⟩ := hsr
          rw [f2.1, f2.2, hncb', hhb'] at hn1
          simp only [StepLRes] at hsl2
          rw [f2.2, hhb'] at hsl2
          exact ended_outcome st.max r' resp _ n (by simpa using hn1) hso (by simpa using hsl2)
        | abort w => simp [eraseR, StepOK] at hso
        | wait st' c' k' h' r' =>
          simp only [eraseR, StepOK] at hso
          simp only [StepRRes] at hsr
          obtain ⟨_, hc, hk', hmax, hinv⟩ := hso
          obtain ⟨hm', hreg', hsame'⟩ := hsr
          rw [hsl] at hc hk'
          simp only [Nat.sub_zero] at hc hk' hinv
          have hsok : s = .ok := by
            by_cases hs : s = .ok
            · exact hs
            · obtain ⟨rr, hr⟩ := step_not_ok ovf b2 st h s (rest.take b2) 0 hs
              have := congrArg eraseR hres
              rw [stepR_erase, hr] at this; cases this
          have hkb := a3 hsok
          have hrl' : rlen - c' = (rest.drop c').length := by rw [List.length_drop]; omega
          have hdl : ((rest.take b2).drop c').length = b2 - c' := by rw [List.length_drop, hsl]
          have hi3 : InvBuf st' h' ((rest.drop c').take (b2 - c')) :=
            invBuf_mono hinv (by rw [hdl, List.length_take]; omega)
          have := ih o' st' h' (rest.drop c') (rlen - c') (b2 - c') c' k' (snap k' r' :: tr) r' hrl' (by omega)
            (by omega) hi3 (by omega) hm' hreg' (hsame'.1.trans (f2.1.trans hncb')) (hsame'.2.trans (f2.2.trans hhb')) hsl2
          rw [hmax] at this; exact this

/-! ## from `http_request()` on -/

theorem cons_httpRequest : Cons httpRequest 1 := by
  refine ⟨rfl, fun k => (by cases k <;> rfl), fun _ => ⟨rfl, rfl⟩, fun _ => rfl, fun _ => ⟨rfl, rfl⟩, fun _ => rfl, rfl,
    fun h => (by cases h)⟩

theorem cons_refused : Cons { useH (connFired httpRequest false) with pConnect := false } 1 := by
  refine ⟨rfl, fun k => (by cases k <;> rfl), fun h => (by cases h), fun h => (by cases h), fun _ => ⟨rfl, rfl⟩,
    fun _ => rfl, rfl, fun h => (by cases h)⟩

theorem main_connected (hasBody : Bool) :
    Main (callbackConnected (connFired httpRequest true) true hasBody) 1 .readHeader ∧
    (callbackConnected (connFired httpRequest true) true hasBody).rdReg = .idle ∧
    (callbackConnected (connFired httpRequest true) true hasBody).ncb = 0 ∧
    (callbackConnected (connFired httpRequest true) true hasBody).handedBody = 0 := by
  cases hasBody <;>
  · refine ⟨⟨⟨⟨rfl, fun k => (by cases k <;> rfl), fun h => (by cases h), fun h => (by cases h), fun h => (by cases h),
      fun h => (by cases h), rfl, fun _ => rfl⟩, rfl, rfl, rfl, rfl, rfl⟩, fun _ => ⟨rfl, rfl⟩⟩, rfl, rfl, rfl⟩

/-- `network_connect` frees its cookie when `callback_connected` has returned -/
theorem ended_free_connect (r : RSt) (n hb : Nat) (he : Ended r 1 n hb) : Ended (r.free .connect) 0 n hb := by
  obtain ⟨e1, e2, e3, e4, e5, e6, e7, e8⟩ := he
  have c := e2 .connect
  simp only [if_true] at c
  refine ⟨by simp [RSt.free, RSt.check, RSt.has, or_none, e1, c], fun k => ?_, e3, e4, e5, e6, e7, e8⟩
  have := e2 k
  cases k <;> simp_all [RSt.free, RSt.check, List.count_erase]

theorem main_free_connect (r : RSt) (h : Handler) (hm : Main r 1 h) :
    Main (r.free .connect) 0 h ∧ SameCb r (r.free .connect) ∧ (r.free .connect).rdReg = r.rdReg := by
  obtain ⟨⟨⟨hok, hcnt, hconn, hcr, hnw, hnr, hfds, hone⟩, b1, b2, b3, b4, b5⟩, hh⟩ := hm
  have c := hcnt .connect
  simp only [expect] at c
  refine ⟨⟨⟨⟨?_, fun k => ?_, ?_, hcr, hnw, hnr, hfds, hone⟩, b1, b2, b3, b4, b5⟩, hh⟩, ⟨rfl, rfl⟩, rfl⟩
  · simp [RSt.free, RSt.check, RSt.has, or_none, hok, c]
  · have := hcnt k
    cases k <;> simp_all [RSt.free, RSt.check, List.count_erase, expect]
  · intro hc; simp only [RSt.free, RSt.check] at hc; rw [b4] at hc; cases hc

theorem runAllR_ok {σ : Type} (ovf : Bool → Nat → Int) (oracle : σ → Nat → Nat → σ × Turn) (o : σ)
    (ishead : Bool) (max : Nat) (data : Bytes) (hasBody : Bool) (pre : Pre) :
    OutcomeOK max (runAllR ovf oracle o ishead max data hasBody pre) := by
  cases pre with
  | cancel =>
    simp only [runAllR]
    obtain ⟨e1, e2, e3, e4, e5, e6, e7, e8⟩ := cancel_spec httpRequest 1 cons_httpRequest
    have h7 : (cancelR httpRequest).ncb = 0 := e7
    have h8 : (cancelR httpRequest).handedBody = 0 := e8
    have h2 : ∀ k, (cancelR httpRequest).live.count k = 0 := fun k => by
      rw [e2]; have : httpRequest.pConnect = true := rfl
      simp [this]
    refine ⟨e1, h2, e3, e4, e5, e6, h7, ?_⟩
    simpa using h8
  | refused =>
    simp only [runAllR]
    have h1 : callbackConnected (connFired httpRequest false) false hasBody =
        failR { useH (connFired httpRequest false) with pConnect := false } := rfl
    rw [h1]
    have := ended_free_connect _ _ _ (by simpa using fail_spec _ 1 cons_refused)
    exact ended_outcome max _ none [] 0 this (by simp [RespOK]) this.handed
  | connected =>
    simp only [runAllR]
    obtain ⟨m1, m2, m3, m4⟩ := main_connected hasBody
    have m5 : (callbackConnected (connFired httpRequest true) true hasBody).pBody = false := by cases hasBody <;> rfl
    generalize callbackConnected (connFired httpRequest true) true hasBody = r1 at m1 m2 m3 m4 m5
    have hl0 : LinkH (initSt ishead max) r1 .readHeader :=
      ⟨⟨by rw [m5]; simp [initSt], by simp [initSt], by simp [initSt]⟩, fun _ => by simp [initSt]⟩
    have hi0 := initSt_inv ishead max []
    have hso := step_ok ovf 1 (initSt ishead max) .readHeader .ok [] 0 hi0 (by simp)
    have hsr := stepR_res ovf 1 1 (initSt ishead max) .readHeader .ok [] 0 r1 m1 m2
    have hsl := stepR_link ovf 1 1 (initSt ishead max) .readHeader .ok [] 0 r1 m1 m2 hl0
    rw [← stepR_erase ovf 1 (initSt ishead max) .readHeader .ok [] 0 r1] at hso
    generalize stepR ovf 1 (initSt ishead max) .readHeader .ok [] 0 r1 = res at hso hsr hsl
    cases res with
    | done resp r' =>
      simp only [eraseR, StepOK] at hso
      simp only [StepRRes] at hsr
      obtain ⟨n, hn1, hn2, hn3⟩ := hsr
      rw [m3, m4] at hn1
      simp only [StepLRes] at hsl
      rw [m4] at hsl
      exact ended_outcome max _ resp [] n (ended_free_connect _ _ _ (by simpa using hn1)) hso (by simpa [RSt.free, RSt.check] using hsl)
    | abort w => simp [eraseR, StepOK] at hso
    | wait st' c k h' r' =>
      simp only [eraseR, StepOK] at hso
      simp only [StepRRes] at hsr
      obtain ⟨_, hc, hk, hmax, hinv⟩ := hso
      obtain ⟨hm', hreg', hsame'⟩ := hsr
      simp only [List.length_nil, Nat.sub_zero] at hc hk hinv
      have hc0 : c = 0 := by omega
      subst hc0
      obtain ⟨q1, q2, q3⟩ := main_free_connect r' h' hm'
      have := loopR_ok ovf oracle (data.length + 2) o st' h' (data.drop 0) (data.length - 0) 0 0 k [snap k r']
        (r'.free .connect) (by simp) (by omega) (by omega) (invBuf_mono hinv (by simp)) (by omega) q1
        (by rw [q3]; exact hreg') (q2.1.trans (hsame'.1.trans m3)) (q2.2.trans (hsame'.2.trans m4)) hsl
      rw [hmax] at this
      exact this

/-! ## the resource run decides exactly as `Model.Http.run` when nobody cancels and no write fails -/

/-- forget the resources -/
def eraseOut : OutcomeR → Option Outcome
  | .ended [resp] false _ tr => some (.callback resp (tr.map (·.k)))
  | .ended _ _ _ _ => none
  | .abort w tr => some (.abort w (tr.map (·.k)))

/-- the reader/network part of an environment -/
def arrivals {σ : Type} (oracle : σ → Nat → Nat → σ × Turn) : σ → Nat → Nat → σ × Arrival :=
  fun o c k => ((oracle o c k).1, (oracle o c k).2.arrival)

/-- the continuation of `Model.Http.run` after a wait, in terms of `arrive` -/
theorem run_wait {σ : Type} (ovf : Bool → Nat → Int) (oracle : σ → Nat → Nat → σ × Arrival) (f : Nat) (o' : σ) (a : Arrival)
    (st' : St) (h' : Handler) (rest' : Bytes) (rlen' b' k : Nat) (ws : List Nat) :
    (if k ≤ b' then run ovf oracle f o' st' h' .ok rest' rlen' b' (k :: ws) else
      match a with
      | .more extra =>
        if k ≤ rlen' then
          run ovf oracle f o' st' h' .ok rest' rlen' (if k + extra > rlen' then rlen' else k + extra) (k :: ws)
        else run ovf oracle f o' st' h' .eof rest' rlen' rlen' (k :: ws)
      | .eof => run ovf oracle f o' st' h' .eof rest' rlen' b' (k :: ws)
      | .err => run ovf oracle f o' st' h' .err rest' rlen' b' (k :: ws)) =
    run ovf oracle f o' st' h' (arrive a k rlen' b').1 rest' rlen' (arrive a k rlen' b').2 (k :: ws) := by
  simp only [arrive]
  split
  · rfl
  · cases a with
    | more extra => (try dsimp only); split <;> rfl
    | eof => rfl
    | err => rfl

theorem loopR_erase {σ : Type} (ovf : Bool → Nat → Int) (oracle : σ → Nat → Nat → σ × Turn)
    (hq : ∀ o c k, (oracle o c k).2.wfail = false ∧ (oracle o c k).2.cancel = false) :
    ∀ (f : Nat) (o : σ) (st : St) (h : Handler) (rest : Bytes) (rlen b c k : Nat) (tr : List Snap) (r : RSt),
    eraseOut (loopR ovf oracle f o st h rest rlen b c k tr r) =
      some (run ovf (arrivals oracle) f (oracle o c k).1 st h (arrive (oracle o c k).2.arrival k rlen b).1 rest rlen
        (arrive (oracle o c k).2.arrival k rlen b).2 (tr.map (·.k))) := by
  intro f
  induction f with
  | zero => intro o st h rest rlen b c k tr r; simp [loopR, run, eraseOut, List.map_reverse]
  | succ f ih =>
    intro o st h rest rlen b c k tr r
    obtain ⟨q1, q2⟩ := hq o c k
    simp only [loopR, run]
    generalize hot : oracle o c k = ot at q1 q2
    obtain ⟨o', t⟩ := ot
    simp only at q1 q2 ⊢
    rw [q1, q2]
    simp only [Bool.false_and, Bool.false_eq_true, if_false]
    generalize arrive t.arrival k rlen b = sb
    obtain ⟨s, b2⟩ := sb
    simp only
    rw [← stepR_erase ovf (b2 + 1) st h s (rest.take b2) 0 (readFired (writesR t.wrote r))]
    generalize stepR ovf (b2 + 1) st h s (rest.take b2) 0 (readFired (writesR t.wrote r)) = res
    cases res with
    | done resp r' => simp [eraseR, eraseOut, List.map_reverse]
    | abort w => simp [eraseR, eraseOut, List.map_reverse]
    | wait st' c' k' h' r' =>
      simp only [eraseR]
      rw [ih]
      simp only [arrivals, List.map_cons, snap]
      exact congrArg some (run_wait ovf _ f _ _ st' h' _ _ _ k' _).symm

/-- **Refinement.**  With an environment in which the caller never cancels and no write fails, a connected
    request of the resource model ends exactly as `Model.Http.runAll` on the same reader/network behaviour:
    same callback argument, same sequence of wait lengths. -/
theorem runAllR_erase {σ : Type} (ovf : Bool → Nat → Int) (oracle : σ → Nat → Nat → σ × Turn) (o : σ)
    (ishead : Bool) (max : Nat) (data : Bytes) (hasBody : Bool)
    (hq : ∀ o c k, (oracle o c k).2.wfail = false ∧ (oracle o c k).2.cancel = false) :
    eraseOut (runAllR ovf oracle o ishead max data hasBody .connected) =
      some (runAll ovf (arrivals oracle) o ishead max data) := by
  simp only [runAllR, runAll]
  rw [show data.length + 3 = (data.length + 2) + 1 from rfl, run]
  simp only [List.take_zero, Nat.zero_add]
  rw [← stepR_erase ovf 1 (initSt ishead max) .readHeader .ok [] 0
    (callbackConnected (connFired httpRequest true) true hasBody)]
  generalize stepR ovf 1 (initSt ishead max) .readHeader .ok [] 0
    (callbackConnected (connFired httpRequest true) true hasBody) = res
  cases res with
  | done resp r' => simp [eraseR, eraseOut]
  | abort w => simp [eraseR, eraseOut]
  | wait st' c k h' r' =>
    simp only [eraseR]
    rw [loopR_erase ovf oracle hq]
    simp only [arrivals, List.map_cons, List.map_nil, snap, List.reverse_nil, Nat.zero_sub]
    exact congrArg some (run_wait ovf _ _ _ _ st' h' _ _ _ k _).symm

/-! ## data for the non-vacuity examples of `Properties/C08.lean` -/

/-- an environment: one byte per wait; the first request-buffer write completes while the second wait is
    pending; the write in progress fails during wait number `failAt`, the caller cancels during wait number
    `cancelAt` (waits are counted from 0) -/
def exOracle (cancelAt failAt : Nat) (n : Nat) (_c _k : Nat) : Nat × Turn :=
  (n + 1, { wrote := if n == 1 then 1 else 0, wfail := n == failAt, cancel := n == cancelAt, arrival := .more 0 })

/-- everything a request can hold at once: header copy, header array, a body buffer, a read wait and a
    buffer write in progress -/
def exFull : RSt :=
  { live := [.cookie, .reqHead, .reader, .readerBuf, .writer, .wbuf, .wbufData, .resHead, .hdrArray, .body],
    pR := true, pW := true, pReqHead := true, pResHead := true, pHeaders := true, pBody := true, sock := true,
    rdReg := .net, wcur := true, fds := 1 }

theorem exFull_cons : Cons exFull 0 := by
  refine ⟨rfl, fun k => (by cases k <;> rfl), fun h => (by cases h), fun h => (by cases h), fun h => (by cases h),
    fun h => (by cases h), rfl, fun _ => rfl⟩

end Percival.Proofs.HttpRes
