import Percival.Proofs.TokText
import Percival.Driver.Events
import Percival.Driver.Eventsmon
/-!
# What `pmodel eventsmon` reads of a line `pmodel events` prints (C04/C05)

The typed output of `Model.Events.stepOp` is the list of events of the line, and that list itself is what
`C04.model_lines_accepted_C04` / `C05.model_lines_accepted_C05` / `model_lines_accepted_both` feed to the monitors
(no `Out.ans`-like projection: the typed answer is the typed output).  `Driver/Events.step` prints
`showEvs evs ++ " | " ++ l2 state`, `showEvs evs` being the tokens `evToks evs` (one per event, `ok` if there is none)
joined by single spaces; `Driver/Eventsmon.parseLine` reads a list of tokens.

`parseLine_evToks`: **for every list of events, `Eventsmon.parseLine (Events.evToks evs) = some evs`** — the `:`-separated
fields of an event token, the `,` / `/`-separated poll array, the `rweh` bit strings, numbers (`Nat.repr`, `Int.repr`,
`String.toNat?`, `String.toInt?`) and words included.  Not covered: the cut of the printed line at ` | ` and at the
spaces (`Driver/Loop.loopMon`, `tools/vlib.py`); no token contains a space (`evToks_no_space`).
-/
namespace Percival.Proofs.EventsAns
open Percival Percival.Driver Percival.Spec.Events Percival.Proofs.DsAns Percival.Proofs.TokText
open Percival.Driver.Events

theorem splitCh_eq : @Events.splitCh = @Dsmon.splitCh := rfl

/-! ## words and bit strings -/

theorem dir_rt (d : Dir) : parseDir (showDir d) = some d := by cases d <;> rfl
theorem out_rt (o : PollOutcome) : parseOut (showOut o) = some o := by cases o <;> rfl
theorem res_rt (r : Res) : parseRes (showRes r) = some r := by cases r <;> rfl

theorem bits_rt (b : Bits) : parseBits (showBits b) = some b := by
  obtain ⟨r, w, e, h⟩ := b
  cases r <;> cases w <;> cases e <;> cases h <;> decide +kernel

/-- the characters of a printed bit set -/
theorem bits_chars (b : Bits) : (showBits b).toList.all (fun c => c == 'r' || c == 'w' || c == 'e' || c == 'h' || c == '-') = true := by
  obtain ⟨r, w, e, h⟩ := b
  cases r <;> cases w <;> cases e <;> cases h <;> decide +kernel

/-- the separators of the protocol: none of them occurs in a number, a bit set or a word -/
def isSep (c : Char) : Prop := c = ':' ∨ c = ' ' ∨ c = '/' ∨ c = ','

theorem isSep_digit {c : Char} (hc : isSep c) : c.isDigit = false ∧ c ≠ '-' := by
  rcases hc with rfl | rfl | rfl | rfl <;> decide

theorem nat_nosep (n : Nat) (c : Char) (hc : isSep c) : c ∉ (toString n).toList := nat_no' n c (isSep_digit hc).1
theorem int_nosep (i : Int) (c : Char) (hc : isSep c) : c ∉ (toString i).toList :=
  int_no' i c (isSep_digit hc).1 (isSep_digit hc).2

theorem bits_nosep (b : Bits) (c : Char) (hc : isSep c) : c ∉ (showBits b).toList := by
  intro h
  have := List.all_eq_true.1 (bits_chars b) c h
  rcases hc with rfl | rfl | rfl | rfl <;> simp at this

theorem dir_nosep (d : Dir) (c : Char) (hc : isSep c) : c ∉ (showDir d).toList := by
  rcases hc with rfl | rfl | rfl | rfl <;> cases d <;> decide
theorem res_nosep (r : Res) (c : Char) (hc : isSep c) : c ∉ (showRes r).toList := by
  rcases hc with rfl | rfl | rfl | rfl <;> cases r <;> decide
theorem out_nosep (o : PollOutcome) (c : Char) (hc : isSep c) : c ∉ (showOut o).toList := by
  rcases hc with rfl | rfl | rfl | rfl <;> cases o <;> decide

/-! ## the poll array -/

theorem showEntry_eq (e : PollEntry) :
    showEntry e = (String.singleton '/').intercalate [toString e.fd, showBits e.ev, showBits e.rev] := rfl

theorem entryFields_nosep (e : PollEntry) (c : Char) (hc : isSep c) :
    ∀ s ∈ [toString e.fd, showBits e.ev, showBits e.rev], c ∉ s.toList := by
  intro s hs
  simp only [List.mem_cons, List.not_mem_nil, or_false] at hs
  rcases hs with rfl | rfl | rfl
  · exact nat_nosep _ c hc
  · exact bits_nosep _ c hc
  · exact bits_nosep _ c hc

theorem split_entry (e : PollEntry) :
    splitCh '/' (showEntry e) = [toString e.fd, showBits e.ev, showBits e.rev] := by
  rw [splitCh_eq, showEntry_eq]
  exact splitCh_intercalate '/' _ (entryFields_nosep e '/' (by simp [isSep])) (by simp)

theorem parseEntry_showEntry (e : PollEntry) : parseEntry (showEntry e) = some e := by
  simp only [parseEntry, split_entry, nat_rt, bits_rt]
  rfl

/-- an entry contains no `:`, ` `, `,` -/
theorem showEntry_no (e : PollEntry) (c : Char) (hc : c = ':' ∨ c = ' ' ∨ c = ',') : c ∉ (showEntry e).toList := by
  intro h
  have hs : isSep c := by rcases hc with rfl | rfl | rfl <;> simp [isSep]
  rcases mem_intercalate _ c _ h with h | ⟨x, hx, hcx⟩
  · rcases hc with rfl | rfl | rfl <;> revert h <;> decide
  · exact entryFields_nosep e c hs x hx hcx

theorem mapM_parseEntry (l : List PollEntry) : (l.map showEntry).mapM parseEntry = some l := by
  induction l with
  | nil => rfl
  | cons x xs ih => simp only [List.map_cons, List.mapM_cons, parseEntry_showEntry, ih]; rfl

theorem split_entries (l : List PollEntry) (hl : l ≠ []) :
    splitCh ',' (",".intercalate (l.map showEntry)) = l.map showEntry := by
  rw [splitCh_eq]
  exact splitCh_intercalate ',' _ (by
    intro s hs
    obtain ⟨e, _, rfl⟩ := List.mem_map.1 hs
    exact showEntry_no e ',' (by simp)) (by simpa using hl)

theorem entries_ne_dash (l : List PollEntry) (hl : l ≠ []) : ",".intercalate (l.map showEntry) ≠ "-" := by
  intro h
  have h1 := split_entries l hl
  rw [h, splitCh_eq, splitCh_none ',' "-" (by decide)] at h1
  cases l with
  | nil => exact hl rfl
  | cons e es =>
    cases es with
    | cons _ _ => simp at h1
    | nil =>
      simp only [List.map_cons, List.map_nil, List.cons.injEq, and_true] at h1
      have h2 := split_entry e
      rw [← h1, splitCh_eq, splitCh_none '/' "-" (by decide)] at h2
      simp at h2

theorem parseEntries_showEntries (l : List PollEntry) : parseEntries (showEntries l) = some l := by
  unfold parseEntries showEntries
  cases l with
  | nil => simp
  | cons e es =>
    have hne : (e :: es).isEmpty = false := rfl
    simp only [hne, Bool.false_eq_true, if_false]
    rw [if_neg (entries_ne_dash (e :: es) (by simp)), split_entries _ (by simp), mapM_parseEntry]

theorem showEntries_no (l : List PollEntry) (c : Char) (hc : c = ':' ∨ c = ' ') : c ∉ (showEntries l).toList := by
  unfold showEntries
  split
  · rcases hc with rfl | rfl <;> decide
  · intro h
    rcases mem_intercalate _ c _ h with h | ⟨x, hx, hcx⟩
    · rcases hc with rfl | rfl <;> revert h <;> decide
    · obtain ⟨e, _, rfl⟩ := List.mem_map.1 hx
      exact showEntry_no e c (by rcases hc with rfl | rfl <;> simp) hcx

/-! ## one event = one token -/

theorem sep_colon : isSep ':' := Or.inl rfl
theorem sep_space : isSep ' ' := Or.inr (Or.inl rfl)

theorem opFields_no (o : Op) (c : Char) (hc : c = ':' ∨ c = ' ') : ∀ f ∈ opFields o, c ∉ f.toList := by
  have n1 := fun n => nat_no'' n ':' (by decide)
  have n2 := fun n => nat_no'' n ' ' (by decide)
  have d1 := fun d => dir_nosep d ':' sep_colon
  have d2 := fun d => dir_nosep d ' ' sep_space
  rcases hc with rfl | rfl <;> cases o <;> simp [opFields, n1, n2, d1, d2]

theorem evFields_no (e : Ev) (c : Char) (hc : c = ':' ∨ c = ' ') : ∀ f ∈ evFields e, c ∉ f.toList := by
  have hs : isSep c := by rcases hc with rfl | rfl <;> simp [isSep]
  cases e with
  | op o r =>
    intro f hf
    rcases List.mem_append.1 hf with hf | hf
    · exact opFields_no o c hc f hf
    · rw [List.mem_singleton.1 hf]; exact res_nosep r c hs
  | poll t adv fds out =>
    simp only [evFields, List.mem_cons, List.not_mem_nil, or_false, forall_eq_or_imp, forall_eq]
    refine ⟨?_, int_nosep t c hs, nat_nosep adv c hs, showEntries_no fds c hc, out_nosep out c hs⟩
    rcases hc with rfl | rfl <;> decide
  | _ =>
    have n1 := fun n => nat_no'' n ':' (by decide)
    have n2 := fun n => nat_no'' n ' ' (by decide)
    have i1 := fun n => int_no'' n ':' (by decide) (by decide)
    have i2 := fun n => int_no'' n ' ' (by decide) (by decide)
    rcases hc with rfl | rfl <;> simp [evFields, n1, n2, i1, i2]

theorem evFields_ne_nil (e : Ev) : evFields e ≠ [] := by
  cases e <;> simp [evFields]

theorem showEv_eq (e : Ev) : showEv e = (String.singleton ':').intercalate (evFields e) := rfl

/-- the token splits back into its fields at the colons -/
theorem split_ev (e : Ev) : splitCh ':' (showEv e) = evFields e := by
  rw [splitCh_eq, showEv_eq]
  exact splitCh_intercalate ':' _ (evFields_no e ':' (by simp)) (evFields_ne_nil e)

theorem parseEvFields_op (o : Op) (r : Res) : parseEvFields (opFields o ++ [showRes r]) = some (.op o r) := by
  cases o <;> cases r <;> simp [opFields, parseEvFields, parseOpFields, showRes, parseRes, dir_rt]

theorem parseEvFields_evFields (e : Ev) : parseEvFields (evFields e) = some e := by
  cases e with
  | op o r => exact parseEvFields_op o r
  | poll t adv fds out => simp [evFields, parseEvFields, parseEntries_showEntries, out_rt]
  | _ => simp [evFields, parseEvFields]

/-- **an event is read back from its token** -/
theorem parseEv_showEv (e : Ev) : parseEv (showEv e) = some e := by
  rw [parseEv, split_ev, parseEvFields_evFields]

theorem showEv_no_space (e : Ev) : ' ' ∉ (showEv e).toList := by
  intro h
  rcases mem_intercalate _ ' ' _ h with h | ⟨x, hx, hcx⟩
  · revert h; decide
  · exact evFields_no e ' ' (by simp) x hx hcx

theorem showEv_ne_ok (e : Ev) : showEv e ≠ "ok" := by
  intro h
  have h1 := parseEv_showEv e
  rw [h, parseEv, splitCh_eq, splitCh_none ':' "ok" (by decide)] at h1
  simp [parseEvFields, parseOpFields] at h1

/-! ## one line -/

theorem mapM_parseEv (evs : List Ev) : (evs.map showEv).mapM parseEv = some evs := by
  induction evs with
  | nil => rfl
  | cons x xs ih => simp only [List.map_cons, List.mapM_cons, parseEv_showEv, ih]; rfl

/-- **what `pmodel eventsmon` reads of the L1 tokens `pmodel events` prints is the list of events itself** -/
theorem parseLine_evToks (evs : List Ev) : Eventsmon.parseLine (evToks evs) = some evs := by
  unfold Eventsmon.parseLine evToks
  cases evs with
  | nil => simp
  | cons e es =>
    have hne : (e :: es).isEmpty = false := rfl
    simp only [hne, Bool.false_eq_true, if_false]
    rw [if_neg, mapM_parseEv]
    intro h
    simp only [List.map_cons, List.cons.injEq] at h
    exact showEv_ne_ok e h.1

theorem evToks_no_space (evs : List Ev) : ∀ t ∈ evToks evs, ' ' ∉ t.toList := by
  unfold evToks
  split
  · intro t ht; rw [List.mem_singleton.1 ht]; decide
  · intro t ht
    obtain ⟨e, _, rfl⟩ := List.mem_map.1 ht
    exact showEv_no_space e

theorem evToks_ne_nil (evs : List Ev) : evToks evs ≠ [] := by
  unfold evToks
  cases evs <;> simp

/-- cutting the L1 part of the printed line at the spaces gives back the tokens -/
theorem split_l1 (evs : List Ev) : splitCh ' ' (showEvs evs) = evToks evs := by
  rw [splitCh_eq]
  exact splitCh_intercalate ' ' _ (evToks_no_space evs) (evToks_ne_nil evs)

/-! ## a whole case, on tokens -/

open Percival.Model.Events in
/-- the verdict lines `pmodel eventsmon` prints on a case: `Eventsmon.step` along the (operation line, answer line) pairs -/
def verdicts (use4 use5 : Bool) (m : MM) : List (List String × List String) → List String
  | [] => []
  | (op, ans) :: rest =>
    (Eventsmon.step use4 use5 m op ans).2 :: verdicts use4 use5 (Eventsmon.step use4 use5 m op ans).1 rest

open Percival.Model.Events in
/-- the lines `pmodel events` prints on a case: `Events.step` along the input lines -/
def printed (s : State) : List (List String) → List String
  | [] => []
  | l :: rest => (Events.step s l).2 :: printed (Events.step s l).1 rest

open Percival.Model.Events in
/-- the states after each line of a program -/
def statesAfter (s : State) : List Top → List State
  | [] => []
  | t :: ts => (stepOp s t).1 :: statesAfter (stepOp s t).1 ts

/-- one line: the monitor executable on the L1 tokens printed for a list of events (the operation line is not read) -/
theorem step_evToks (use4 use5 : Bool) (m : MM) (op : List String) (evs : List Ev) :
    Eventsmon.step use4 use5 m op (evToks evs) =
      ((monStep use4 use5 m evs).1, Eventsmon.render (monStep use4 use5 m evs).2) := by
  simp only [Eventsmon.step, parseLine_evToks]

theorem verdicts_ok (use4 use5 : Bool) : ∀ (lines : List (List String)) (evss : List (List Ev)) (m : MM),
    lines.length = evss.length → acceptsLines use4 use5 m evss = true →
    verdicts use4 use5 m (lines.zip (evss.map evToks)) = List.replicate lines.length "ok"
  | [], _, _, _, _ => rfl
  | _ :: _, [], _, h, _ => by cases h
  | line :: lines, evs :: evss, m, hl, hacc => by
    simp only [acceptsLines, Bool.and_eq_true] at hacc
    simp only [List.map_cons, List.zip_cons_cons, verdicts, step_evToks, List.length_cons, List.replicate_succ]
    rw [verdicts_ok use4 use5 lines evss _ (by simpa using hl) hacc.2]
    cases hv : (monStep use4 use5 m evs).2 with
    | ok => rfl
    | bad4 e => rw [hv] at hacc; cases hacc.1
    | bad5 e => rw [hv] at hacc; cases hacc.1

open Percival.Model.Events in
theorem runOps_length : ∀ (prog : List Top) (s : State), (runOps s prog).2.length = prog.length
  | [], _ => rfl
  | t :: ts, s => by simp only [runOps, List.length_cons, runOps_length ts]

theorem mapM_length {α β : Type} (f : α → Option β) : ∀ (l : List α) (r : List β), l.mapM f = some r → l.length = r.length
  | [], r, h => by cases h; rfl
  | a :: l, r, h => by
    rw [List.mapM_cons] at h
    cases h1 : f a with
    | none => rw [h1] at h; cases h
    | some b =>
      cases h2 : l.mapM f with
      | none => rw [h1, h2] at h; cases h
      | some bs =>
        rw [h1, h2] at h
        cases h
        simp only [List.length_cons, mapM_length f l bs h2]

open Percival.Model.Events in
/-- the printed lines are the L1 tokens of the events of `runOps`, joined by spaces, then ` | ` and the state's L2 text -/
theorem printed_eq : ∀ (lines : List (List String)) (prog : List Top) (s : State),
    lines.mapM Events.parseTop = some prog →
    printed s lines = List.zipWith (fun evs st => showEvs evs ++ " | " ++ l2 st) (runOps s prog).2 (statesAfter s prog)
  | [], _, _, hp => by cases hp; rfl
  | line :: lines, prog, s, hp => by
    rw [List.mapM_cons] at hp
    cases h1 : Events.parseTop line with
    | none => rw [h1] at hp; cases hp
    | some t =>
      cases h2 : lines.mapM Events.parseTop with
      | none => rw [h1, h2] at hp; cases hp
      | some ts =>
        rw [h1, h2] at hp
        cases hp
        simp only [printed, Events.step, h1, runOps, statesAfter, List.zipWith_cons_cons, printed_eq lines ts _ h2]

end Percival.Proofs.EventsAns
