import Percival.Proofs.TokText
import Percival.Proofs.HeapStep
import Percival.Driver.Heap
import Percival.Driver.Heapmon
/-!
# `XOut.l1` is read ∘ print (C13): what `pmodel heapmon` reads of a line `pmodel heap` prints

`Driver/Heap.render o` is the tokens `Heap.l1Toks o` joined by single spaces, followed by ` | ` and the L2 part;
`Driver/Heapmon.parseAns` reads a list of tokens as the answer to a heap / timer-queue operation.
`parseAns_l1Toks`: **for every typed output `o` and every operation of the same object (heap / timer queue),
`Heapmon.parseAns op (Heap.l1Toks o) = some o.l1`** — `XOut.l1` (`Model/HeapStep.lean`) being the typed answer
`C13.run_ops_accepted` feeds to the monitor.  Number printing / reading, the `,`-separated id lists
(`String.split` with a character pattern) and the words `none` / `-` included.  Not covered: the cut of the printed
line at ` | ` and at the spaces (`Driver/Loop.loopMon`, `tools/vlib.py`); no token contains a space (`l1Toks_no_space`).
Number / splitting lemmas from `Proofs/DsAns.lean`, `Proofs/TokText.lean`.
-/
namespace Percival.Proofs.HeapAns
open Percival Percival.Driver Percival.Spec.PQ Percival.Model.HeapStep Percival.Proofs.DsAns Percival.Proofs.TokText
open Percival.Driver.Heap Percival.Driver.Heapmon

theorem splitCh_eq : @Heapmon.splitCh = @Dsmon.splitCh := rfl

/-! ## `,`-separated lists of numbers -/

theorem intercalate_nats_ne_dash (ids : List Nat) : ",".intercalate (ids.map toString) ≠ "-" := by
  intro h
  have hm : '-' ∈ (",".intercalate (ids.map toString)).toList := by rw [h]; decide
  rcases mem_intercalate _ _ _ hm with h | ⟨x, hx, hc⟩
  · revert h; decide
  · obtain ⟨n, _, rfl⟩ := List.mem_map.1 hx
    exact nat_no' n '-' (by decide) hc

theorem parseIds_commaOr (ids : List Nat) : parseIds (commaOr (ids.map toString)) = some ids := by
  unfold parseIds commaOr
  cases ids with
  | nil => simp
  | cons x xs =>
    have hne : ((x :: xs).map toString).isEmpty = false := rfl
    simp only [hne, Bool.false_eq_true, if_false]
    rw [if_neg (intercalate_nats_ne_dash (x :: xs)), splitCh_eq]
    have : Dsmon.splitCh ',' (",".intercalate ((x :: xs).map toString)) = (x :: xs).map toString :=
      splitCh_intercalate ',' _ (by
        intro s hs
        obtain ⟨n, _, rfl⟩ := List.mem_map.1 hs
        exact nat_no' n ',' (by decide)) (by simp)
    rw [this, mapM_toNat]

theorem commaOr_nats_sp (ids : List Nat) : ' ' ∉ (commaOr (ids.map toString)).toList := by
  unfold commaOr
  split
  · decide
  · intro h
    rcases mem_intercalate _ _ _ h with h | ⟨x, hx, hc⟩
    · revert h; decide
    · obtain ⟨n, _, rfl⟩ := List.mem_map.1 hx
      exact nat_no' n ' ' (by decide) hc

/-! ## the reader on the shapes with overlapping patterns -/

theorem parseAnsH_min (x : String) (h : x ≠ "none") :
    parseAnsH ["min", x] = x.toNat?.bind fun e => some (.min (some e)) := by
  unfold parseAnsH
  split <;> simp_all

theorem parseAnsT_rel (x : String) (h : x ≠ "none") :
    parseAnsT ["rel", x] = x.toNat?.bind fun e => some (.rel (some e)) := by
  unfold parseAnsT
  split <;> simp_all

/-! ## the theorem -/

theorem parseAnsH_ansToks (a : Ans) : parseAnsH (ansToks a) = some a := by
  cases a with
  | ok => rfl
  | okId e => simp only [ansToks, parseAnsH, nat_rt]; rfl
  | min r =>
    cases r with
    | none => rfl
    | some e => simp only [ansToks, showOptNat, parseAnsH_min _ (nat_ne_none e), nat_rt]; rfl
  | skip => rfl
  | precondition => rfl
  | drained ids => simp only [ansToks, parseAnsH, parseIds_commaOr]; rfl

theorem parseAnsT_tansToks (a : TAns) : parseAnsT (tansToks a) = some (tl1 (.ans a)) := by
  cases a with
  | ok => rfl
  | skip => rfl
  | precondition => rfl
  | tmin r =>
    cases r with
    | none => rfl
    | some p => obtain ⟨s, u⟩ := p; simp only [tansToks, parseAnsT, int_rt, tl1]; rfl
  | rel r =>
    cases r with
    | none => rfl
    | some p => obtain ⟨r, p⟩ := p; simp only [tansToks, parseAnsT_rel _ (nat_ne_none p), nat_rt, tl1]; rfl

theorem parseAnsT_l1Toks (o : TOut) : parseAnsT (l1Toks (.t o)) = some (tl1 o.ans) := by
  obtain ⟨ans, l2⟩ := o
  cases ans with
  | ans a => exact parseAnsT_tansToks a
  | drained ps => simp only [l1Toks, parseAnsT, parseIds_commaOr, tl1]; rfl

/-- **what `pmodel heapmon` reads of the L1 tokens `pmodel heap` prints is `XOut.l1`**: for every typed output and
every operation of the same object -/
theorem parseAns_l1Toks_h (op : Op) (o : HOut) : parseAns (.h op) (l1Toks (.h o)) = some (XOut.l1 (.h o)) := by
  simp only [parseAns, l1Toks, parseAnsH_ansToks, Option.map_some, XOut.l1]

theorem parseAns_l1Toks_t (op : TOpI) (o : TOut) : parseAns (.t op) (l1Toks (.t o)) = some (XOut.l1 (.t o)) := by
  simp only [parseAns, parseAnsT_l1Toks, Option.map_some, XOut.l1]

/-- the output of an operation is of the operation's object -/
def sameKind : XOpI → XOut → Prop
  | .h _, .h _ => True
  | .t _, .t _ => True
  | _, _ => False

theorem parseAns_l1Toks (op : XOpI) (o : XOut) (h : sameKind op o) : parseAns op (l1Toks o) = some o.l1 := by
  cases op <;> cases o <;> first | exact parseAns_l1Toks_h _ _ | exact parseAns_l1Toks_t _ _ | cases h

theorem stepOp_sameKind (s : St) (op : XOp) : sameKind op.toI (stepOp s op).2 := by
  cases op with
  | h o => trivial
  | t o => cases o <;> trivial

/-! ## the tokens contain no space: the L1 part splits back into them -/

theorem nat_sp (n : Nat) : ' ' ∉ (toString n).toList := nat_no' n ' ' (by decide)
theorem int_sp (i : Int) : ' ' ∉ (toString i).toList := int_no' i ' ' (by decide) (by decide)
theorem nat_sp' (n : Nat) : ' ' ∉ Nat.toDigits 10 n := nat_no'' n ' ' (by decide)
theorem int_sp' (i : Int) : ' ' ∉ i.repr.toList := int_sp i

theorem ansToks_no_space (a : Ans) : ∀ t ∈ ansToks a, ' ' ∉ t.toList := by
  cases a with
  | min r => cases r <;> simp (disch := decide) [ansToks, showOptNat, nat_sp']
  | _ => simp (disch := decide) [ansToks, nat_sp', commaOr_nats_sp]

theorem tansToks_no_space (a : TAns) : ∀ t ∈ tansToks a, ' ' ∉ t.toList := by
  cases a with
  | tmin r => cases r <;> simp (disch := decide) [tansToks, int_sp']
  | rel r => cases r <;> simp (disch := decide) [tansToks, nat_sp']
  | _ => simp (disch := decide) [tansToks]

theorem l1Toks_no_space (o : XOut) : ∀ t ∈ l1Toks o, ' ' ∉ t.toList := by
  cases o with
  | h o => exact ansToks_no_space o.ans
  | t o =>
    obtain ⟨ans, l2⟩ := o
    cases ans with
    | ans a => exact tansToks_no_space a
    | drained ps => simp (disch := decide) [l1Toks, commaOr_nats_sp]

theorem l1Toks_ne_nil (o : XOut) : l1Toks o ≠ [] := by
  cases o with
  | h o => obtain ⟨ans, l2⟩ := o; cases ans <;> simp [l1Toks, ansToks]
  | t o =>
    obtain ⟨ans, l2⟩ := o
    cases ans with
    | ans a => cases a with
      | tmin r => cases r <;> simp [l1Toks, tansToks]
      | rel r => cases r <;> simp [l1Toks, tansToks]
      | _ => simp [l1Toks, tansToks]
    | drained ps => simp [l1Toks]

/-- cutting the L1 part of the printed line at the spaces gives back the tokens -/
theorem split_l1 (o : XOut) : Heapmon.splitCh ' ' (" ".intercalate (l1Toks o)) = l1Toks o := by
  rw [splitCh_eq]
  exact splitCh_intercalate ' ' _ (l1Toks_no_space o) (l1Toks_ne_nil o)

/-! ## the operation line: both executables read the same operation -/

theorem parsePairs_eq : @Heapmon.parsePairs = @Heap.parsePairs := rfl

/-- `pmodel heapmon` reads an operation line as `pmodel heap` does (the drain time is the protocol's constant) -/
theorem parseOp_eq (toks : List String) : Heapmon.parseOp toks = (Heap.parse toks).map XOp.toI := by
  unfold Heapmon.parseOp Heap.parse
  split <;> simp [parsePairs_eq, XOp.toI, Option.map_bind, Function.comp_def]

/-! ## a whole case, on tokens -/

/-- the verdict lines `pmodel heapmon` prints on a case: `Heapmon.step` along the (operation line, answer line) pairs -/
def verdicts (m : XMSt) : List (List String × List String) → List String
  | [] => []
  | (op, ans) :: rest => (Heapmon.step m op ans).2 :: verdicts (Heapmon.step m op ans).1 rest

/-- the lines `pmodel heap` prints on a case: `Heap.step` along the operation lines -/
def printed (s : St) : List (List String) → List String
  | [] => []
  | l :: rest => (Heap.step s l).2 :: printed (Heap.step s l).1 rest

/-- one line: the monitor executable on the operation line and the L1 tokens the model prints for it -/
theorem step_l1Toks (s : St) (m : XMSt) (line : List String) (op : XOp) (hp : Heap.parse line = some op) :
    Heapmon.step m line (l1Toks (stepOp s op).2) =
      ((monStepX m op.toI (stepOp s op).2.l1).1,
       if (monStepX m op.toI (stepOp s op).2.l1).2 then "ok" else "bad " ++ whyX m op.toI (stepOp s op).2.l1) := by
  simp only [Heapmon.step, parseOp_eq, hp, Option.map_some, parseAns_l1Toks _ _ (stepOp_sameKind s op)]

theorem verdicts_ok : ∀ (lines : List (List String)) (ops : List XOp) (s : St) (m : XMSt),
    lines.mapM Heap.parse = some ops →
    acceptsX m ((ops.map XOp.toI).zip ((runOps s ops).2.map XOut.l1)) = true →
    verdicts m (lines.zip ((runOps s ops).2.map l1Toks)) = List.replicate lines.length "ok"
  | [], _, _, _, _, _ => rfl
  | line :: lines, ops, s, m, hp, hacc => by
    rw [List.mapM_cons] at hp
    cases h1 : Heap.parse line with
    | none => rw [h1] at hp; cases hp
    | some op =>
      cases h2 : lines.mapM Heap.parse with
      | none => rw [h1, h2] at hp; cases hp
      | some ops' =>
        rw [h1, h2] at hp
        cases hp
        simp only [runOps, List.map_cons, List.zip_cons_cons, acceptsX, Bool.and_eq_true] at hacc
        simp only [runOps, List.map_cons, List.zip_cons_cons, verdicts, step_l1Toks s m line op h1, hacc.1, if_true,
          List.length_cons, List.replicate_succ]
        rw [verdicts_ok lines ops' _ _ h2 hacc.2]

/-- the printed lines are `render` of the typed outputs -/
theorem printed_eq : ∀ (lines : List (List String)) (ops : List XOp) (s : St),
    lines.mapM Heap.parse = some ops → printed s lines = (runOps s ops).2.map Heap.render
  | [], _, _, hp => by cases hp; rfl
  | line :: lines, ops, s, hp => by
    rw [List.mapM_cons] at hp
    cases h1 : Heap.parse line with
    | none => rw [h1] at hp; cases hp
    | some op =>
      cases h2 : lines.mapM Heap.parse with
      | none => rw [h1, h2] at hp; cases hp
      | some ops' =>
        rw [h1, h2] at hp
        cases hp
        simp only [printed, Heap.step, h1, runOps, List.map_cons, printed_eq lines ops' _ h2]

end Percival.Proofs.HeapAns
