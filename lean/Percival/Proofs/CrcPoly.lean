import Percival.Spec.Crc32c
/-! GF(2) polynomial lemmas for `Spec.Crc32c`: remainder is linear, long division is a shift
register, `crc32c` satisfies `Valid` (helper lemmas for C01). -/
set_option linter.unusedSimpArgs false
namespace Percival.Proofs.CrcPoly
open Percival.Spec Percival.Spec.Crc32c

/-- coefficientwise sum of two polynomials of the same degree bound -/
def zx (a b : Poly) : Poly := List.zipWith (· ^^ ·) a b

theorem addFront_length (a g : Poly) : (addFront a g).length = a.length := by
  fun_induction addFront a g <;> simp_all

theorem zx_length (a b : Poly) (h : a.length = b.length) : (zx a b).length = a.length := by
  simp [zx, h]

theorem addFront_zx_left (a b g : Poly) (h : a.length = b.length) :
    addFront (zx a b) g = zx (addFront a g) b := by
  induction a generalizing b g with
  | nil => cases b <;> cases g <;> simp [zx, addFront]
  | cons x xs ih =>
    cases b with
    | nil => simp at h
    | cons y ys =>
      cases g with
      | nil => simp [zx, addFront]
      | cons z zs =>
        simp only [zx, List.zipWith_cons_cons, addFront] at ih ⊢
        rw [ih ys zs (by simpa using h)]
        congr 1
        cases x <;> cases y <;> cases z <;> rfl

theorem zx_comm (a b : Poly) : zx a b = zx b a := by
  unfold zx
  rw [List.zipWith_comm]
  congr 1; funext x y; exact Bool.xor_comm _ _

theorem addFront_zx_right (a b g : Poly) (h : a.length = b.length) :
    addFront (zx a b) g = zx a (addFront b g) := by
  rw [zx_comm, addFront_zx_left _ _ _ h.symm, zx_comm]

theorem zx_addFront_both (a b g : Poly) (h : a.length = b.length) :
    zx (addFront a g) (addFront b g) = zx a b := by
  induction a generalizing b g with
  | nil => cases b <;> cases g <;> simp [zx, addFront]
  | cons x xs ih =>
    cases b with
    | nil => simp at h
    | cons y ys =>
      cases g with
      | nil => simp [addFront]
      | cons z zs =>
        simp only [zx, List.zipWith_cons_cons, addFront] at ih ⊢
        rw [ih ys zs (by simpa using h)]
        congr 1
        cases x <;> cases y <;> cases z <;> rfl

/-- **the remainder is linear** -/
theorem reduce_zx (gt : Poly) (n : Nat) (a b : Poly) (h : a.length = b.length) :
    reduce gt n (zx a b) = zx (reduce gt n a) (reduce gt n b) := by
  induction n generalizing a b with
  | zero => simp [reduce]
  | succ n ih =>
    cases a with
    | nil =>
      cases b with
      | nil => simp [zx, reduce]
      | cons _ _ => simp at h
    | cons x xs =>
      cases b with
      | nil => simp at h
      | cons y ys =>
        have hl : xs.length = ys.length := by simpa using h
        cases x <;> cases y <;> simp only [zx, List.zipWith_cons_cons, Bool.xor_false, Bool.xor_true,
          Bool.not_true, Bool.not_false, Bool.false_xor, Bool.true_xor, reduce]
        · exact ih xs ys hl
        · have := addFront_zx_right xs ys gt hl
          unfold zx at this
          rw [this]
          exact ih xs _ (by rw [addFront_length]; exact hl)
        · have := addFront_zx_left xs ys gt hl
          unfold zx at this
          rw [this]
          exact ih _ ys (by rw [addFront_length]; exact hl)
        · have h3 := ih (addFront xs gt) (addFront ys gt) (by simp [addFront_length, hl])
          have h4 := zx_addFront_both xs ys gt hl
          unfold zx at h3 h4
          rw [← h3, h4]

/-- leading zeros are simply dropped -/
theorem reduce_zeros (gt : Poly) (n : Nat) (c : Poly) : reduce gt n (List.replicate n false ++ c) = c := by
  induction n with
  | zero => simp [reduce]
  | succ n ih => simp only [List.replicate_succ, List.cons_append, reduce]; exact ih

theorem zx_self (c : Poly) : zx c c = List.replicate c.length false := by
  induction c with
  | nil => rfl
  | cons x xs ih => simp only [zx, List.zipWith_cons_cons, Bool.xor_self] at ih ⊢; rw [ih]; rfl

theorem zx_zeros_right (a : Poly) : zx a (List.replicate a.length false) = a := by
  induction a with
  | nil => rfl
  | cons x xs ih =>
    simp only [zx, List.length_cons, List.replicate_succ, List.zipWith_cons_cons, Bool.xor_false] at ih ⊢
    rw [ih]

theorem zx_zeros_left (a : Poly) : zx (List.replicate a.length false) a = a := by
  rw [zx_comm, zx_zeros_right]

theorem zx_append (a b c d : Poly) (h : a.length = c.length) : zx (a ++ b) (c ++ d) = zx a c ++ zx b d := by
  unfold zx
  exact List.zipWith_append h

theorem reduce_length (gt : Poly) (n : Nat) (a : Poly) (h : n ≤ a.length) :
    (reduce gt n a).length = a.length - n := by
  induction n generalizing a with
  | zero => simp [reduce]
  | succ n ih =>
    cases a with
    | nil => simp at h
    | cons x xs =>
      cases x <;> simp only [reduce]
      · rw [ih xs (by simpa using h)]; simp
      · rw [ih _ (by rw [addFront_length]; simpa using h), addFront_length]; simp

/-- appending the remainder of `m·x^k` (`k = gt.length`) to `m` gives a multiple of `g` -/
theorem reduce_append_rem (gt m : Poly) :
    reduce gt m.length (m ++ reduce gt m.length (m ++ List.replicate gt.length false))
      = List.replicate gt.length false := by
  have hcl : (reduce gt m.length (m ++ List.replicate gt.length false)).length = gt.length := by
    rw [reduce_length _ _ _ (by simp)]; simp
  generalize hc : reduce gt m.length (m ++ List.replicate gt.length false) = c at *
  have hsplit : m ++ c = zx (m ++ List.replicate gt.length false) (List.replicate m.length false ++ c) := by
    rw [zx_append _ _ _ _ (by simp), zx_zeros_right, ← hcl, zx_zeros_left]
  rw [hsplit, reduce_zx _ _ _ _ (by simp [hcl]), reduce_zeros, hc, zx_self, hcl]

/-! ### long division is a shift register -/

/-- one step of the (list) shift register of width `gt.length`: shift in a zero, feed back
    `head ⊕ input` -/
def lstep (gt : Poly) (st : Poly) (b : Bool) : Poly :=
  let sh := st.tail ++ [false]
  if (st.headD false ^^ b) then addFront sh gt else sh

theorem addFront_append (p z g : Poly) (h : g.length ≤ p.length) : addFront (p ++ z) g = addFront p g ++ z := by
  induction p generalizing g with
  | nil => cases g <;> simp_all [addFront]
  | cons x xs ih =>
    cases g with
    | nil => simp [addFront]
    | cons y ys => simp only [List.cons_append, addFront]; rw [ih ys (by simpa using h)]

theorem lstep_length (gt st : Poly) (b : Bool) (h : st.length = gt.length) (hpos : 0 < gt.length) :
    (lstep gt st b).length = gt.length := by
  unfold lstep
  simp only
  split <;> simp [addFront_length, h] <;> omega

/-- dividing `st·x^n + msg·x^k` is running the register from `st` over `msg` -/
theorem reduce_eq_fold (gt : Poly) (hpos : 0 < gt.length) (msg st : Poly) (hst : st.length = gt.length) :
    reduce gt msg.length (zx (st ++ List.replicate msg.length false) (msg ++ List.replicate gt.length false))
      = msg.foldl (lstep gt) st := by
  induction msg generalizing st with
  | nil => simp only [List.length_nil, List.replicate_zero, List.append_nil, List.nil_append, reduce, List.foldl_nil]; rw [← hst, zx_zeros_right]
  | cons b m ih =>
    cases st with
    | nil => simp at hst; omega
    | cons s0 st' =>
      have hst' : st'.length + 1 = gt.length := by simpa using hst
      have hsh : (st' ++ [false]).length = gt.length := by simp; omega
      -- the coefficients after the leading one
      have htail : zx (st' ++ List.replicate (m.length + 1) false) (m ++ List.replicate gt.length false)
          = zx ((st' ++ [false]) ++ List.replicate m.length false) (m ++ List.replicate gt.length false) := by
        rw [List.replicate_succ, List.append_assoc]; rfl
      simp only [List.length_cons, List.cons_append, zx, List.zipWith_cons_cons, List.foldl_cons]
      have hl : lstep gt (s0 :: st') b = if (s0 ^^ b) then addFront (st' ++ [false]) gt else st' ++ [false] := rfl
      rw [hl]
      unfold zx at htail ih
      cases hfb : (s0 ^^ b)
      · simp only [reduce, Bool.false_eq_true, if_false]
        rw [htail]
        exact ih _ hsh
      · simp only [reduce, if_true]
        rw [htail]
        have e1 := addFront_zx_left ((st' ++ [false]) ++ List.replicate m.length false)
          (m ++ List.replicate gt.length false) gt (by simp; omega)
        unfold zx at e1
        rw [e1, addFront_append _ _ _ (by omega)]
        exact ih _ (by rw [addFront_length]; exact hsh)

/-- the remainder of `msg·x^k` is the register run from zero -/
theorem reduce_eq_fold_zero (gt : Poly) (hpos : 0 < gt.length) (msg : Poly) :
    reduce gt msg.length (msg ++ List.replicate gt.length false)
      = msg.foldl (lstep gt) (List.replicate gt.length false) := by
  have := reduce_eq_fold gt hpos msg (List.replicate gt.length false) (by simp)
  rw [← this]
  congr 1
  rw [List.replicate_append_replicate]
  have : (msg ++ List.replicate gt.length false).length = gt.length + msg.length := by simp; omega
  rw [← this, zx_zeros_left]


/-! ### bits and bytes -/

theorem bits_byte8 (b0 b1 b2 b3 b4 b5 b6 b7 : Bool) :
    bitsOfByte (byteOfBits [b0, b1, b2, b3, b4, b5, b6, b7]) = [b0, b1, b2, b3, b4, b5, b6, b7] := by
  revert b0 b1 b2 b3 b4 b5 b6 b7; decide

theorem byteOfBits_take (c : List Bool) : byteOfBits c = byteOfBits (c.take 8) := by
  unfold byteOfBits; rw [List.take_take]; simp

theorem bits_byte (c : List Bool) (h : 8 ≤ c.length) : bitsOfByte (byteOfBits c) = c.take 8 := by
  rw [byteOfBits_take]
  match c, h with
  | b0 :: b1 :: b2 :: b3 :: b4 :: b5 :: b6 :: b7 :: rest, _ =>
    simp only [List.take_succ_cons, List.take_zero]
    exact bits_byte8 ..

theorem bits_bytes (n : Nat) (c : List Bool) (h : c.length = 8 * n) : bitsLSB (bytesOfBits n c) = c := by
  induction n generalizing c with
  | zero => simp at h; subst h; rfl
  | succ n ih =>
    cases c with
    | nil => simp at h
    | cons x xs =>
      simp only [bytesOfBits, bitsLSB, List.flatMap_cons]
      rw [bits_byte _ (by omega)]
      have := ih ((x :: xs).drop 8) (by simp [List.length_drop] at *; omega)
      unfold bitsLSB at this
      rw [this, List.take_append_drop]

theorem bytesOfBits_length (n : Nat) (c : List Bool) (h : c.length = 8 * n) : (bytesOfBits n c).length = n := by
  induction n generalizing c with
  | zero => rfl
  | succ n ih =>
    cases c with
    | nil => simp at h
    | cons x xs =>
      simp only [bytesOfBits, List.length_cons]
      rw [ih _ (by simp [List.length_drop] at *; omega)]

theorem bitsLSB_length (bs : Bytes) : (bitsLSB bs).length = 8 * bs.length := by
  induction bs with
  | nil => rfl
  | cons b bs ih => simp only [bitsLSB, List.flatMap_cons, List.length_append] at ih ⊢; rw [ih]; simp [bitsOfByte]; omega

theorem castagnoli_tail_length : castagnoli.tail.length = 32 := by decide

/-- the remainder the Spec function encodes -/
def rem (data : Bytes) : Poly :=
  reduce castagnoli.tail (true :: bitsLSB data).length (true :: bitsLSB data ++ List.replicate 32 false)

theorem rem_length (data : Bytes) : (rem data).length = 32 := by
  unfold rem; rw [reduce_length _ _ _ (by simp)]; simp

theorem crc32c_eq (data : Bytes) : crc32c data = bytesOfBits 4 (rem data) := by
  unfold crc32c rem mod
  congr 2
  simp [castagnoli, bitsMSB32]

/-- **the Spec function satisfies the documented sentence** -/
theorem spec_valid (data : Bytes) : Valid data (crc32c data) := by
  rw [crc32c_eq]
  refine ⟨bytesOfBits_length 4 _ (by rw [rem_length]), ?_⟩
  unfold IsMultiple codeword mod
  rw [bits_bytes 4 _ (by rw [rem_length])]
  have h := reduce_append_rem castagnoli.tail (true :: bitsLSB data)
  rw [castagnoli_tail_length] at h
  have hn : (true :: (bitsLSB data ++ rem data)).length + 1 - castagnoli.length = (true :: bitsLSB data).length := by
    simp [rem_length, castagnoli, bitsMSB32]
  rw [hn]
  have : true :: (bitsLSB data ++ rem data) = (true :: bitsLSB data) ++ rem data := rfl
  rw [this]
  unfold rem
  rw [h]
  intro b hb
  exact List.eq_of_mem_replicate hb

end Percival.Proofs.CrcPoly
