import Percival.Proofs.NetIO
import Percival.Proofs.Connect
import Percival.Model.NetIOStep
/-!
# C06 helper lemmas: the function `pmodel netio` runs (`Model.NetIOStep.stepOp`)

1. the request states kept per descriptor satisfy the invariants the request theorems need (`StOk`), for every
   operation sequence within the API contract (`OpOk`);
2. hence the fuel `stepOp` gives `runRead`/`runWrite` is sufficient, and every completion a `spin` reports is
   the one the request theorems describe; a reported request is gone from its descriptor;
3. a `connect` followed by `spin`s is `Connect.run`.
-/
namespace Percival.Proofs.NetIOStep
open Percival.Model Percival.Model.NetIO Percival.Model.NetIOStep Percival.Proofs.NetIO
open Percival.Model.Connect (AddrOutcome Ev tryconnect)

/-! ## write: enough fuel -/

theorem length_le_weight (q : List Ans) : q.length ≤ weight q := by
  induction q with
  | nil => simp [weight]
  | cons a q ih => cases a <;> simp [weight] <;> omega

theorem runWrite_fuel (f : Nat) (s : WriteSt) (q : List Ans) (hf : q.length < f) :
    runWrite f s q ≠ .fuel := by
  induction f generalizing s q with
  | zero => omega
  | succ f ih =>
    cases q with
    | nil => simp [runWrite]
    | cons a q =>
      have hq : q.length < f := by simp at hf; omega
      cases a with
      | room n =>
        simp only [runWrite]
        split
        · exact ih _ _ hq
        · simp
      | again => simp only [runWrite]; exact ih _ _ hq
      | err => simp [runWrite]
      | data b bs => simp only [runWrite]; exact ih _ _ hq
      | eof => simp only [runWrite]; exact ih _ _ hq

/-! ## the invariant of the executable's state -/

structure FdOk (f : Fd) : Prop where
  rd : ∀ r, f.rd = some r → ReadInv r
  wr : ∀ w, f.wr = some w → WriteInv w

def StOk (s : St) : Prop := ∀ f ∈ s.fds, FdOk f

/-- the API contract of a request (asserted by `network_read` / `network_write`) -/
def OpOk : Op → Prop
  | .read _ bl ml => 0 < bl ∧ ml ≤ bl
  | .write _ ml buf => 0 < buf.length ∧ ml ≤ buf.length
  | _ => True

theorem fdOk_default : FdOk {} := ⟨fun r h => (by cases h), fun w h => (by cases h)⟩

theorem stOk_init : StOk {} := by
  intro f hf
  have : f = {} := List.eq_of_mem_replicate hf
  rw [this]; exact fdOk_default

theorem onFd_ok (s : St) (i : Nat) (g : Fd → Fd × Out) (hs : StOk s) (hg : ∀ f, FdOk f → FdOk (g f).1) :
    StOk (onFd s i g).1 := by
  unfold onFd
  cases hi : s.fds[i]? with
  | none => exact hs
  | some f =>
    intro f' hf'
    have hf : f ∈ s.fds := List.mem_of_getElem? hi
    rcases List.mem_or_eq_of_mem_set hf' with h | h
    · exact hs f' h
    · rw [h]; exact hg f (hs f hf)
/-! ## one descriptor during a `spin` -/

/-- what `spinRead` does to a descriptor with an outstanding read `r`: either the callback runs — once,
the request is gone, and (for `n > 0`) the buffer handed over followed by what is still queued is what
had been received before followed by what was queued — or the whole queue is consumed, no callback
runs, and the request stays with everything received so far -/
theorem spinRead_spec (i : Nat) (f : Fd) (r : ReadSt) (hr : f.rd = some r) (hinv : ReadInv r) :
    (∃ n data, (spinRead i f).2.1 = [.read i n data] ∧ (spinRead i f).1.rd = none ∧
        (n = -1 ∨ n = 0 ∨ (n = data.length ∧ r.minlen ≤ data.length ∧ 1 ≤ data.length ∧ data.length ≤ r.buflen ∧
          data ++ streamOf (spinRead i f).1.rq = r.got ++ streamOf f.rq))) ∨
    ((spinRead i f).2.1 = [] ∧ (spinRead i f).1.rq = [] ∧
      ∃ r', (spinRead i f).1.rd = some r' ∧ ReadInv r' ∧ r'.buflen = r.buflen ∧ r'.minlen = r.minlen ∧
        r'.got = r.got ++ streamOf f.rq) := by
  have hspec := runRead_spec (weight f.rq + 2) r f.rq hinv
  have hfuel := runRead_fuel (weight f.rq + 2) r f.rq hinv (by omega)
  unfold spinRead
  rw [hr]
  simp only
  cases hrun : runRead (weight f.rq + 2) r f.rq with
  | fuel => exact absurd hrun hfuel
  | done n r' q =>
    rw [hrun] at hspec
    obtain ⟨_, _, h3⟩ := hspec
    left
    refine ⟨n, if n > 0 then r'.got else [], rfl, rfl, ?_⟩
    rcases h3 with h3 | h3 | ⟨e1, e2, e3, e4, e5⟩
    · exact Or.inl h3
    · exact Or.inr (Or.inl h3)
    · right; right
      have hpos : n > 0 := by omega
      simp only [hpos, if_true]
      exact ⟨e1, e2, e3, e4, e5⟩
  | pending r' q =>
    rw [hrun] at hspec
    obtain ⟨e0, e1, e2, e3, e4⟩ := hspec
    right
    refine ⟨rfl, e0, { r' with calls := [] }, rfl, ⟨e3.room, e3.need, e3.minle⟩, e1, e2, e4⟩

theorem spinRead_none (i : Nat) (f : Fd) (hr : f.rd = none) : spinRead i f = (f, [], []) := by
  unfold spinRead; rw [hr]

/-- `spinRead` touches nothing but the read request and its queue -/
theorem spinRead_frame (i : Nat) (f : Fd) :
    (spinRead i f).1.wr = f.wr ∧ (spinRead i f).1.sq = f.sq ∧ (spinRead i f).1.acc = f.acc ∧
    (spinRead i f).1.aq = f.aq := by
  unfold spinRead
  cases f.rd with
  | none => exact ⟨rfl, rfl, rfl, rfl⟩
  | some r =>
    simp only
    cases runRead (weight f.rq + 2) r f.rq <;> exact ⟨rfl, rfl, rfl, rfl⟩

/-- the same for a write request: the bytes handed to the kernel are a prefix of the buffer -/
theorem spinWrite_spec (i : Nat) (f : Fd) (w : WriteSt) (hw : f.wr = some w) (hinv : WriteInv w) :
    (∃ n sent pos, (spinWrite i f).2.1 = [.write i n sent] ∧ (spinWrite i f).1.wr = none ∧
        sent = w.buf.take pos ∧ pos ≤ w.buf.length ∧ (n = -1 ∨ (n = pos ∧ w.minlen ≤ pos ∧ 1 ≤ pos))) ∨
    ((spinWrite i f).2.1 = [] ∧ (spinWrite i f).1.sq = [] ∧
      ∃ w', (spinWrite i f).1.wr = some w' ∧ WriteInv w' ∧ w'.buf = w.buf ∧ w'.minlen = w.minlen) := by
  have hspec := runWrite_spec (weight f.sq + 2) w f.sq hinv
  have hfuel := runWrite_fuel (weight f.sq + 2) w f.sq (by have := length_le_weight f.sq; omega)
  unfold spinWrite
  rw [hw]
  simp only
  cases hrun : runWrite (weight f.sq + 2) w f.sq with
  | fuel => exact absurd hrun hfuel
  | done n w' q =>
    rw [hrun] at hspec
    obtain ⟨_, h2, h3, h4⟩ := hspec
    left
    exact ⟨n, w'.sent, w'.pos, rfl, rfl, h2, h3, h4⟩
  | pending w' q =>
    rw [hrun] at hspec
    obtain ⟨e0, e1, e2, e3⟩ := hspec
    right
    exact ⟨rfl, e0, { w' with calls := [] }, rfl, ⟨e3.pos, e3.sent, e3.need, e3.minle⟩, e1, e2⟩

theorem spinWrite_none (i : Nat) (f : Fd) (hw : f.wr = none) : spinWrite i f = (f, [], []) := by
  unfold spinWrite; rw [hw]

theorem spinWrite_frame (i : Nat) (f : Fd) :
    (spinWrite i f).1.rd = f.rd ∧ (spinWrite i f).1.rq = f.rq ∧ (spinWrite i f).1.acc = f.acc ∧
    (spinWrite i f).1.aq = f.aq := by
  unfold spinWrite
  cases f.wr with
  | none => exact ⟨rfl, rfl, rfl, rfl⟩
  | some w =>
    simp only
    cases runWrite (weight f.sq + 2) w f.sq <;> exact ⟨rfl, rfl, rfl, rfl⟩

theorem spinAccept_frame (i : Nat) (f : Fd) :
    (spinAccept i f).1.rd = f.rd ∧ (spinAccept i f).1.rq = f.rq ∧ (spinAccept i f).1.wr = f.wr ∧
    (spinAccept i f).1.sq = f.sq := by
  unfold spinAccept
  split
  · split <;> exact ⟨rfl, rfl, rfl, rfl⟩
  · exact ⟨rfl, rfl, rfl, rfl⟩

/-- an accept request: the callback runs once with what `runAccept` delivers, and the request is gone -/
theorem spinAccept_spec (i : Nat) (f : Fd) :
    (f.acc = false → spinAccept i f = (f, [])) ∧
    (f.acc = true → ∀ v q, runAccept f.aq = (some v, q) →
        (spinAccept i f).2 = [.accept i v] ∧ (spinAccept i f).1.acc = false ∧ (spinAccept i f).1.aq = q) ∧
    (f.acc = true → ∀ q, runAccept f.aq = (none, q) →
        (spinAccept i f).2 = [] ∧ (spinAccept i f).1.acc = true ∧ (spinAccept i f).1.aq = q) := by
  unfold spinAccept
  refine ⟨fun h => by simp [h], fun h v q hq => by simp [h, hq], fun h q hq => by simp [h, hq]⟩

theorem spinFd_ok (i : Nat) (f : Fd) (h : FdOk f) : FdOk (spinFd i f).1 := by
  unfold spinFd
  simp only
  have ha := spinAccept_frame i (spinWrite i (spinRead i f).1).1
  have hw := spinWrite_frame i (spinRead i f).1
  have hr := spinRead_frame i f
  constructor
  · intro r hr'
    rw [ha.1, hw.1] at hr'
    cases hrd : f.rd with
    | none => rw [spinRead_none i f hrd, hrd] at hr'; cases hr'
    | some r0 =>
      rcases spinRead_spec i f r0 hrd (h.rd r0 hrd) with ⟨_, _, _, h2, _⟩ | ⟨_, _, r', h3, h4, _⟩
      · rw [h2] at hr'; cases hr'
      · rw [h3] at hr'; cases hr'; exact h4
  · intro w hw'
    rw [ha.2.2.1] at hw'
    have hwr : (spinRead i f).1.wr = f.wr := hr.1
    cases hwd : (spinRead i f).1.wr with
    | none => rw [spinWrite_none _ _ hwd, hwd] at hw'; cases hw'
    | some w0 =>
      have hinv : WriteInv w0 := h.wr w0 (by rw [← hwr]; exact hwd)
      rcases spinWrite_spec i _ w0 hwd hinv with ⟨_, _, _, _, h2, _⟩ | ⟨_, _, w', h3, h4, _⟩
      · rw [h2] at hw'; cases hw'
      · rw [h3] at hw'; cases hw'; exact h4

/-! ## all descriptors -/

theorem spinAll_get (fs : List Fd) : ∀ (k j : Nat),
    (spinAll k fs).1[j]? = fs[j]?.map (fun f => (spinFd (k + j) f).1) := by
  induction fs with
  | nil => intro k j; simp [spinAll]
  | cons f fs ih =>
    intro k j
    simp only [spinAll]
    cases j with
    | zero => simp
    | succ j =>
      simp only [List.getElem?_cons_succ]
      rw [ih (k + 1) j]
      congr 2
      funext g; congr 2; omega

theorem spinAll_mem (fs : List Fd) : ∀ (k : Nat) (c : Completion),
    c ∈ (spinAll k fs).2.1 → ∃ j f, fs[j]? = some f ∧ c ∈ (spinFd (k + j) f).2.1 := by
  induction fs with
  | nil => intro k c h; simp [spinAll] at h
  | cons f fs ih =>
    intro k c h
    simp only [spinAll, List.mem_append] at h
    rcases h with h | h
    · exact ⟨0, f, rfl, h⟩
    · obtain ⟨j, g, hj, hc⟩ := ih (k + 1) c h
      refine ⟨j + 1, g, by simpa using hj, ?_⟩
      have : k + (j + 1) = k + 1 + j := by omega
      rw [this]; exact hc

theorem spinAll_ok (fs : List Fd) : ∀ (k : Nat), (∀ f ∈ fs, FdOk f) → ∀ f' ∈ (spinAll k fs).1, FdOk f' := by
  induction fs with
  | nil => intro k _ f' h; simp [spinAll] at h
  | cons f fs ih =>
    intro k hall f' h
    simp only [spinAll, List.mem_cons] at h
    rcases h with h | h
    · rw [h]; exact spinFd_ok k f (hall f List.mem_cons_self)
    · exact ih (k + 1) (fun g hg => hall g (List.mem_cons_of_mem _ hg)) f' h

/-- which completions a descriptor can contribute -/
theorem spinFd_compl (i : Nat) (f : Fd) (c : Completion) (h : c ∈ (spinFd i f).2.1) :
    c ∈ (spinRead i f).2.1 ∨ c ∈ (spinWrite i (spinRead i f).1).2.1 ∨
    c ∈ (spinAccept i (spinWrite i (spinRead i f).1).1).2 := by
  unfold spinFd at h
  simp only [List.mem_append] at h
  rcases h with (h | h) | h
  · exact Or.inl h
  · exact Or.inr (Or.inl h)
  · exact Or.inr (Or.inr h)

theorem spinAccept_compl (i : Nat) (f : Fd) (c : Completion) (h : c ∈ (spinAccept i f).2) :
    ∃ v, c = .accept i v := by
  unfold spinAccept at h
  split at h
  · split at h
    · rename_i v q _; exact ⟨v, by simpa using h⟩
    · simp at h
  · simp at h

theorem stepOp_ok (s : St) (op : Op) (hs : StOk s) (ho : OpOk op) : StOk (stepOp s op).1 := by
  cases op with
  | read fd bl ml =>
    apply onFd_ok s fd _ hs
    intro f hf
    split
    · exact hf
    · exact ⟨fun r hr => (by cases hr; exact readInit_inv bl ml ho.1 ho.2), hf.wr⟩
  | write fd ml buf =>
    apply onFd_ok s fd _ hs
    intro f hf
    split
    · exact hf
    · exact ⟨hf.rd, fun w hw => (by cases hw; exact writeInit_inv buf ml ho.1 ho.2)⟩
  | accept fd =>
    apply onFd_ok s fd _ hs
    intro f hf
    split
    · exact hf
    · exact ⟨hf.rd, hf.wr⟩
  | krecv fd items => exact onFd_ok s fd _ hs (fun f hf => ⟨hf.rd, hf.wr⟩)
  | ksend fd items => exact onFd_ok s fd _ hs (fun f hf => ⟨hf.rd, hf.wr⟩)
  | kacc fd items => exact onFd_ok s fd _ hs (fun f hf => ⟨hf.rd, hf.wr⟩)
  | cancel which fd =>
    cases which with
    | r =>
      apply onFd_ok s fd _ hs
      intro f hf
      split
      · exact ⟨fun r hr => (by cases hr), hf.wr⟩
      · exact hf
    | w =>
      apply onFd_ok s fd _ hs
      intro f hf
      split
      · exact ⟨hf.rd, fun w hw => (by cases hw)⟩
      · exact hf
    | a =>
      apply onFd_ok s fd _ hs
      intro f hf
      split
      · exact ⟨hf.rd, hf.wr⟩
      · exact hf
  | connect timeo addrs =>
    simp only [stepOp]
    split
    · exact hs
    · exact hs
  | cancelc =>
    simp only [stepOp]
    split
    · exact hs
    · exact hs
  | fdbase n => simp only [stepOp]; exact hs
  | spin =>
    simp only [stepOp]
    intro f hf
    have : f ∈ (spinAll 0 s.fds).1 := by
      split at hf <;> exact hf
    exact spinAll_ok s.fds 0 hs f this

/-! ## a whole `spin` -/

theorem cbsOf_mem (evs : List Connect.Ev) (c : Completion) (h : c ∈ cbsOf evs) : ∃ v, c = .connect v := by
  unfold cbsOf at h
  obtain ⟨e, _, he⟩ := List.mem_filterMap.mp h
  cases e with
  | cb v => exact ⟨v, by simpa using he.symm⟩
  | sock _ _ => simp at he
  | close _ => simp at he

/-- the outcome of a `spin`: the descriptors are those `spinAll` leaves, and every completion comes from a
descriptor or is the connect callback -/
theorem spin_out (s : St) : ∃ l1 l2, (stepOp s .spin).2 = .spin l1 l2 ∧
    (stepOp s .spin).1.fds = (spinAll 0 s.fds).1 ∧
    ∀ c ∈ l1, c ∈ (spinAll 0 s.fds).2.1 ∨ ∃ v, c = .connect v := by
  simp only [stepOp]
  cases hc : s.conn with
  | none =>
    refine ⟨_, _, rfl, rfl, ?_⟩
    intro c hcm
    simp only [List.append_nil] at hcm
    exact Or.inl hcm
  | some tc =>
    obtain ⟨timeo, cst⟩ := tc
    refine ⟨_, _, rfl, rfl, ?_⟩
    intro c hcm
    rcases List.mem_append.mp hcm with h | h
    · exact Or.inl h
    · exact Or.inr (cbsOf_mem _ c h)

theorem spinRead_compl (i : Nat) (f : Fd) (hf : FdOk f) (c : Completion) (h : c ∈ (spinRead i f).2.1) :
    ∃ n data, c = .read i n data := by
  cases hrd : f.rd with
  | none => rw [spinRead_none i f hrd] at h; simp at h
  | some r =>
    rcases spinRead_spec i f r hrd (hf.rd r hrd) with ⟨n, data, h1, _⟩ | ⟨h1, _⟩
    · rw [h1] at h; exact ⟨n, data, by simpa using h⟩
    · rw [h1] at h; simp at h

theorem spinWrite_compl (i : Nat) (f : Fd) (hf : FdOk f) (c : Completion) (h : c ∈ (spinWrite i f).2.1) :
    ∃ n sent, c = .write i n sent := by
  cases hwr : f.wr with
  | none => rw [spinWrite_none i f hwr] at h; simp at h
  | some w =>
    rcases spinWrite_spec i f w hwr (hf.wr w hwr) with ⟨n, sent, _, h1, _⟩ | ⟨h1, _⟩
    · rw [h1] at h; exact ⟨n, sent, by simpa using h⟩
    · rw [h1] at h; simp at h

theorem spinRead_ok (i : Nat) (f : Fd) (h : FdOk f) : FdOk (spinRead i f).1 := by
  have hr := spinRead_frame i f
  constructor
  · intro r hr'
    cases hrd : f.rd with
    | none => rw [spinRead_none i f hrd, hrd] at hr'; cases hr'
    | some r0 =>
      rcases spinRead_spec i f r0 hrd (h.rd r0 hrd) with ⟨_, _, _, h2, _⟩ | ⟨_, _, r', h3, h4, _⟩
      · rw [h2] at hr'; cases hr'
      · rw [h3] at hr'; cases hr'; exact h4
  · intro w hw; rw [hr.1] at hw; exact h.wr w hw

/-- **no `FUEL`**: within the API contract the fuel `stepOp` gives the request loops always suffices -/
theorem spin_no_fuel (s : St) (hs : StOk s) (l1 : List Completion) (l2 : List Trace)
    (h : (stepOp s .spin).2 = .spin l1 l2) (i : Nat) : Completion.readFuel i ∉ l1 ∧ Completion.writeFuel i ∉ l1 := by
  obtain ⟨l1', l2', h1, _, h3⟩ := spin_out s
  rw [h1] at h; cases h
  have key : ∀ c ∈ l1, (∃ j n d, c = .read j n d) ∨ (∃ j n d, c = .write j n d) ∨ (∃ j v, c = .accept j v) ∨
      ∃ v, c = .connect v := by
    intro c hc
    rcases h3 c hc with h | ⟨v, h⟩
    · obtain ⟨j, f, hj, hcf⟩ := spinAll_mem s.fds 0 c h
      have hf : FdOk f := hs f (List.mem_of_getElem? hj)
      rcases spinFd_compl _ f c hcf with h | h | h
      · obtain ⟨n, d, e⟩ := spinRead_compl _ f hf c h; exact Or.inl ⟨_, n, d, e⟩
      · obtain ⟨n, d, e⟩ := spinWrite_compl _ _ (spinRead_ok _ f hf) c h; exact Or.inr (Or.inl ⟨_, n, d, e⟩)
      · obtain ⟨v, e⟩ := spinAccept_compl _ _ c h; exact Or.inr (Or.inr (Or.inl ⟨_, v, e⟩))
    · exact Or.inr (Or.inr (Or.inr ⟨v, h⟩))
  constructor
  · intro hc
    rcases key _ hc with ⟨_, _, _, e⟩ | ⟨_, _, _, e⟩ | ⟨_, _, e⟩ | ⟨_, e⟩ <;> cases e
  · intro hc
    rcases key _ hc with ⟨_, _, _, e⟩ | ⟨_, _, _, e⟩ | ⟨_, _, e⟩ | ⟨_, e⟩ <;> cases e

/-- **read completions are exact and final**: a read callback reported by a `spin` belongs to a read request
that was outstanding on that descriptor; afterwards the descriptor has no read request (so the callback
cannot run again unless a new `read` is accepted); for `n > 0` the buffer handed over, followed by the
bytes still queued, is what had arrived for this request before, followed by what was queued. -/
theorem spin_read_exact (s : St) (hs : StOk s) (l1 : List Completion) (l2 : List Trace)
    (h : (stepOp s .spin).2 = .spin l1 l2) (i : Nat) (n : Int) (data : List UInt8)
    (hc : Completion.read i n data ∈ l1) :
    ∃ f r f', s.fds[i]? = some f ∧ f.rd = some r ∧ (stepOp s .spin).1.fds[i]? = some f' ∧ f'.rd = none ∧
      (n = -1 ∨ n = 0 ∨ (n = data.length ∧ r.minlen ≤ data.length ∧ 1 ≤ data.length ∧ data.length ≤ r.buflen ∧
        data ++ streamOf f'.rq = r.got ++ streamOf f.rq)) := by
  obtain ⟨l1', l2', h1, h2, h3⟩ := spin_out s
  rw [h1] at h; cases h
  rcases h3 _ hc with hm | ⟨v, e⟩
  · obtain ⟨j, f, hj, hcf⟩ := spinAll_mem s.fds 0 _ hm
    have hf : FdOk f := hs f (List.mem_of_getElem? hj)
    simp only [Nat.zero_add] at hcf
    have hfr : Completion.read i n data ∈ (spinRead j f).2.1 := by
      rcases spinFd_compl _ f _ hcf with h | h | h
      · exact h
      · obtain ⟨_, _, e⟩ := spinWrite_compl _ _ (spinRead_ok _ f hf) _ h; cases e
      · obtain ⟨_, e⟩ := spinAccept_compl _ _ _ h; cases e
    cases hrd : f.rd with
    | none => rw [spinRead_none j f hrd] at hfr; simp at hfr
    | some r =>
      rcases spinRead_spec j f r hrd (hf.rd r hrd) with ⟨n', d', e1, e2, e3⟩ | ⟨e1, _⟩
      · rw [e1] at hfr
        have hcd : Completion.read i n data = Completion.read j n' d' := by simpa using hfr
        cases hcd
        have hget := spinAll_get s.fds 0 i
        rw [hj] at hget
        simp only [Nat.zero_add, Option.map_some] at hget
        have ha := spinAccept_frame i (spinWrite i (spinRead i f).1).1
        have hw := spinWrite_frame i (spinRead i f).1
        have hfd : (spinFd i f).1 = (spinAccept i (spinWrite i (spinRead i f).1).1).1 := rfl
        refine ⟨f, r, (spinFd i f).1, hj, hrd, by rw [h2]; exact hget, ?_, ?_⟩
        · rw [hfd, ha.1, hw.1]; exact e2
        · rw [hfd, ha.2.1, hw.2.1]; exact e3
      · rw [e1] at hfr; simp at hfr
  · cases e

/-- **write completions are exact and final**: the bytes handed to the kernel are a prefix of the request's
buffer, in order; a successful completion reports their number, at least `minwrite`; afterwards the
descriptor has no write request. -/
theorem spin_write_exact (s : St) (hs : StOk s) (l1 : List Completion) (l2 : List Trace)
    (h : (stepOp s .spin).2 = .spin l1 l2) (i : Nat) (n : Int) (sent : List UInt8)
    (hc : Completion.write i n sent ∈ l1) :
    ∃ f w f' pos, s.fds[i]? = some f ∧ f.wr = some w ∧ (stepOp s .spin).1.fds[i]? = some f' ∧ f'.wr = none ∧
      sent = w.buf.take pos ∧ pos ≤ w.buf.length ∧ (n = -1 ∨ (n = pos ∧ w.minlen ≤ pos ∧ 1 ≤ pos)) := by
  obtain ⟨l1', l2', h1, h2, h3⟩ := spin_out s
  rw [h1] at h; cases h
  rcases h3 _ hc with hm | ⟨v, e⟩
  · obtain ⟨j, f, hj, hcf⟩ := spinAll_mem s.fds 0 _ hm
    have hf : FdOk f := hs f (List.mem_of_getElem? hj)
    simp only [Nat.zero_add] at hcf
    have hf1 := spinRead_ok j f hf
    have hfr : Completion.write i n sent ∈ (spinWrite j (spinRead j f).1).2.1 := by
      rcases spinFd_compl _ f _ hcf with h | h | h
      · obtain ⟨_, _, e⟩ := spinRead_compl _ _ hf _ h; cases e
      · exact h
      · obtain ⟨_, e⟩ := spinAccept_compl _ _ _ h; cases e
    have hwr0 : (spinRead j f).1.wr = f.wr := (spinRead_frame j f).1
    cases hwd : (spinRead j f).1.wr with
    | none => rw [spinWrite_none j _ hwd] at hfr; simp at hfr
    | some w =>
      rcases spinWrite_spec j _ w hwd (hf1.wr w hwd) with ⟨n', s', pos, e1, e2, e3, e4, e5⟩ | ⟨e1, _⟩
      · rw [e1] at hfr
        have hcd : Completion.write i n sent = Completion.write j n' s' := by simpa using hfr
        cases hcd
        have hget := spinAll_get s.fds 0 i
        rw [hj] at hget
        simp only [Nat.zero_add, Option.map_some] at hget
        have ha := spinAccept_frame i (spinWrite i (spinRead i f).1).1
        have hfd : (spinFd i f).1 = (spinAccept i (spinWrite i (spinRead i f).1).1).1 := rfl
        refine ⟨f, w, (spinFd i f).1, pos, hj, by rw [← hwr0]; exact hwd, by rw [h2]; exact hget, ?_, e3, e4, e5⟩
        rw [hfd, ha.2.2.1]; exact e2
      · rw [e1] at hfr; simp at hfr
  · cases e

/-! ## a request leaves its descriptor only through its callback or `cancel` -/

theorem onFd_get (s : St) (j : Nat) (g : Fd → Fd × Out) (i : Nat) (f : Fd) (hi : s.fds[i]? = some f) :
    (onFd s j g).1.fds[i]? = some (if j = i then (g f).1 else f) := by
  unfold onFd
  by_cases hji : j = i
  · subst hji
    rw [hi]
    simp only [if_true]
    rw [List.getElem?_set_self (List.getElem?_eq_some_iff.mp hi).1]
  · cases hj : s.fds[j]? with
    | none => simp [hji, hi]
    | some fj => simp only [hji, if_false]; rw [List.getElem?_set_ne hji]; exact hi

/-- **no request is lost**: an outstanding read stays on its descriptor through every operation except
`cancel r` on that descriptor and a `spin` that reports its callback -/
theorem read_request_kept (s : St) (hs : StOk s) (op : Op) (i : Nat) (f : Fd) (r : ReadSt)
    (hi : s.fds[i]? = some f) (hr : f.rd = some r) :
    (∃ f', (stepOp s op).1.fds[i]? = some f' ∧ f'.rd.isSome = true) ∨ op = .cancel .r i ∨
    (op = .spin ∧ ∃ l1 l2 n d, (stepOp s op).2 = .spin l1 l2 ∧ Completion.read i n d ∈ l1) := by
  have keep : ∀ (j : Nat) (g : Fd → Fd × Out), (∀ x, x.rd.isSome = true → (g x).1.rd.isSome = true) →
      ∃ f', (onFd s j g).1.fds[i]? = some f' ∧ f'.rd.isSome = true := by
    intro j g hg
    refine ⟨_, onFd_get s j g i f hi, ?_⟩
    have hfr : f.rd.isSome = true := by rw [hr]; rfl
    split
    · exact hg f hfr
    · exact hfr
  cases op with
  | read fd bl ml => exact Or.inl (keep fd _ (fun x hx => by split <;> simp_all))
  | write fd ml buf => exact Or.inl (keep fd _ (fun x hx => by split <;> simp_all))
  | accept fd => exact Or.inl (keep fd _ (fun x hx => by split <;> simp_all))
  | krecv fd items => exact Or.inl (keep fd _ (fun x hx => hx))
  | ksend fd items => exact Or.inl (keep fd _ (fun x hx => hx))
  | kacc fd items => exact Or.inl (keep fd _ (fun x hx => hx))
  | cancel which fd =>
    cases which with
    | r =>
      by_cases hfd : fd = i
      · right; left; rw [hfd]
      · left
        refine ⟨f, ?_, by rw [hr]; rfl⟩
        have := onFd_get s fd (fun f => if f.rd.isSome then ({ f with rd := none }, Out.ok) else (f, Out.none)) i f hi
        simp only [hfd, if_false] at this
        exact this
    | w => exact Or.inl (keep fd _ (fun x hx => by split <;> simp_all))
    | a => exact Or.inl (keep fd _ (fun x hx => by split <;> simp_all))
  | connect timeo addrs =>
    left
    refine ⟨f, ?_, by rw [hr]; rfl⟩
    simp only [stepOp]; split <;> exact hi
  | cancelc =>
    left
    refine ⟨f, ?_, by rw [hr]; rfl⟩
    simp only [stepOp]; split <;> exact hi
  | fdbase n =>
    left
    refine ⟨f, ?_, by rw [hr]; rfl⟩
    simp only [stepOp]; exact hi
  | spin =>
    obtain ⟨l1, l2, h1, h2, _⟩ := spin_out s
    have hget := spinAll_get s.fds 0 i
    rw [hi] at hget
    simp only [Nat.zero_add, Option.map_some] at hget
    have hf : FdOk f := hs f (List.mem_of_getElem? hi)
    have ha := spinAccept_frame i (spinWrite i (spinRead i f).1).1
    have hw := spinWrite_frame i (spinRead i f).1
    have hfd : (spinFd i f).1 = (spinAccept i (spinWrite i (spinRead i f).1).1).1 := rfl
    rcases spinRead_spec i f r hr (hf.rd r hr) with ⟨n, d, e1, _⟩ | ⟨_, _, r', e3, _⟩
    · right; right
      refine ⟨rfl, l1, l2, n, d, h1, ?_⟩
      -- the completion is in the list `spinAll` returns, which is a prefix of `l1`
      have hmem : Completion.read i n d ∈ (spinAll 0 s.fds).2.1 := by
        have : ∀ (fs : List Fd) (k j : Nat) (g : Fd) (c : Completion), fs[j]? = some g → c ∈ (spinFd (k + j) g).2.1 →
            c ∈ (spinAll k fs).2.1 := by
          intro fs
          induction fs with
          | nil => intro k j g c hj; simp at hj
          | cons x xs ih =>
            intro k j g c hj hc
            simp only [spinAll, List.mem_append]
            cases j with
            | zero => simp at hj; subst hj; exact Or.inl hc
            | succ j =>
              right
              apply ih (k + 1) j g c (by simpa using hj)
              have : k + 1 + j = k + (j + 1) := by omega
              rw [this]; exact hc
        apply this s.fds 0 i f _ hi
        simp only [Nat.zero_add]
        unfold spinFd
        simp only [List.mem_append]
        left; left; rw [e1]; simp
      simp only [stepOp] at h1
      split at h1
      · cases h1; exact List.mem_append_left _ hmem
      · cases h1; exact List.mem_append_left _ hmem
    · left
      refine ⟨(spinFd i f).1, by rw [h2]; exact hget, ?_⟩
      rw [hfd, ha.1, hw.1, e3]; rfl

/-! ## connect -/

/-- the values of the connect callbacks among the completions of a `spin` -/
def connectVals (l : List Completion) : List Int :=
  l.filterMap fun c => match c with | .connect v => some v | _ => none

theorem connectVals_append (a b : List Completion) : connectVals (a ++ b) = connectVals a ++ connectVals b := by
  simp [connectVals, List.filterMap_append]

theorem connectVals_cbsOf (evs : List Ev) : connectVals (cbsOf evs) = Percival.Proofs.Connect.cbs evs := by
  induction evs with
  | nil => rfl
  | cons e evs ih =>
    cases e with
    | cb v =>
      simp only [cbsOf, connectVals, List.filterMap_cons, Percival.Proofs.Connect.cbs] at ih ⊢
      rw [ih]
    | sock a b =>
      simp only [cbsOf, connectVals, List.filterMap_cons, Percival.Proofs.Connect.cbs] at ih ⊢
      exact ih
    | close a =>
      simp only [cbsOf, connectVals, List.filterMap_cons, Percival.Proofs.Connect.cbs] at ih ⊢
      exact ih

theorem spinAll_no_connect (fs : List Fd) : ∀ k, connectVals (spinAll k fs).2.1 = [] := by
  induction fs with
  | nil => intro k; rfl
  | cons f fs ih =>
    intro k
    simp only [spinAll, connectVals_append, ih (k + 1), List.append_nil]
    unfold spinFd
    simp only [connectVals_append]
    have h1 : connectVals (spinRead k f).2.1 = [] := by
      unfold spinRead
      cases f.rd with
      | none => rfl
      | some r => simp only; cases runRead (weight f.rq + 2) r f.rq <;> rfl
    have h2 : ∀ g : Fd, connectVals (spinWrite k g).2.1 = [] := by
      intro g
      unfold spinWrite
      cases g.wr with
      | none => rfl
      | some w => simp only; cases runWrite (weight g.sq + 2) w g.sq <;> rfl
    have h3 : ∀ g : Fd, connectVals (spinAccept k g).2 = [] := by
      intro g
      unfold spinAccept
      split
      · split <;> rfl
      · rfl
    rw [h1, h2, h3]; rfl

theorem cbs_tryconnect (addrs : List AddrOutcome) : ∀ idx fd, Percival.Proofs.Connect.cbs (tryconnect addrs idx fd).1 = [] := by
  induction addrs with
  | nil => intro idx fd; rfl
  | cons a rest ih =>
    intro idx fd
    cases a <;> simp [tryconnect, Percival.Proofs.Connect.cbs, ih]

theorem cbs_append (a b : List Ev) : Percival.Proofs.Connect.cbs (a ++ b) = Percival.Proofs.Connect.cbs a ++ Percival.Proofs.Connect.cbs b := by
  induction a with
  | nil => rfl
  | cons e a ih => cases e <;> simp [Percival.Proofs.Connect.cbs, ih]

/-- one run of the event loop over a connection attempt: at most one callback, and after a callback the
attempt is finished -/
theorem connect_spin_once (timeo : Bool) : ∀ (fuel : Nat) (st : Connect.St) (fd : Nat),
    Percival.Proofs.Connect.cbs (Connect.spin timeo fuel st fd).1 = [] ∨
    (∃ v, Percival.Proofs.Connect.cbs (Connect.spin timeo fuel st fd).1 = [v] ∧ (Connect.spin timeo fuel st fd).2.1 = .finished) := by
  intro fuel
  induction fuel with
  | zero => intro st fd; left; rfl
  | succ f ih =>
    intro st fd
    cases st with
    | finished => left; rfl
    | immediate => right; exact ⟨-1, rfl, rfl⟩
    | waiting s idx cur rest =>
      have step : ∀ e1 st1 fd1, tryconnect rest (idx + 1) fd = (e1, st1, fd1) →
          (Percival.Proofs.Connect.cbs (Ev.close s :: e1 ++ (Connect.spin timeo f st1 fd1).1) = [] ∨
           ∃ v, Percival.Proofs.Connect.cbs (Ev.close s :: e1 ++ (Connect.spin timeo f st1 fd1).1) = [v] ∧
             (Connect.spin timeo f st1 fd1).2.1 = .finished) := by
        intro e1 st1 fd1 ht
        have h0 : Percival.Proofs.Connect.cbs e1 = [] := by
          have := cbs_tryconnect rest (idx + 1) fd; rw [ht] at this; exact this
        have hc : Percival.Proofs.Connect.cbs (Ev.close s :: e1 ++ (Connect.spin timeo f st1 fd1).1) =
            Percival.Proofs.Connect.cbs (Connect.spin timeo f st1 fd1).1 := by
          show Percival.Proofs.Connect.cbs (e1 ++ _) = _
          rw [cbs_append, h0]; rfl
        rw [hc]; exact ih st1 fd1
      cases cur with
      | success => right; exact ⟨s, rfl, rfl⟩
      | hang =>
        cases timeo with
        | false => left; rfl
        | true =>
          simp only [Connect.spin, if_true]
          rcases htc : tryconnect rest (idx + 1) fd with ⟨e1, st1, fd1⟩
          exact step e1 st1 fd1 htc
      | failNow =>
        simp only [Connect.spin]
        rcases htc : tryconnect rest (idx + 1) fd with ⟨e1, st1, fd1⟩
        exact step e1 st1 fd1 htc
      | asyncFail =>
        simp only [Connect.spin]
        rcases htc : tryconnect rest (idx + 1) fd with ⟨e1, st1, fd1⟩
        exact step e1 st1 fd1 htc

/-- the connect callbacks of a `spin` are those of `Connect.spin` on the attempt outstanding -/
theorem spin_connectVals (s : St) : ∃ l1 l2, (stepOp s .spin).2 = .spin l1 l2 ∧
    (match s.conn with
     | none => connectVals l1 = [] ∧ (stepOp s .spin).1.conn = none
     | some (timeo, cst) =>
        connectVals l1 = Percival.Proofs.Connect.cbs (Connect.spin timeo connFuel cst s.nextfd).1 ∧
        (stepOp s .spin).1.conn =
          (if (Connect.spin timeo connFuel cst s.nextfd).2.1 == .finished then none
           else some (timeo, (Connect.spin timeo connFuel cst s.nextfd).2.1))) := by
  simp only [stepOp]
  cases hc : s.conn with
  | none =>
    refine ⟨_, _, rfl, ?_, rfl⟩
    simp only [List.append_nil]
    exact spinAll_no_connect s.fds 0
  | some tc =>
    obtain ⟨timeo, cst⟩ := tc
    refine ⟨_, _, rfl, ?_, rfl⟩
    rw [connectVals_append, spinAll_no_connect, List.nil_append, connectVals_cbsOf]

/-- **connect, once**: a `spin` runs the connect callback at most once, and only for an outstanding attempt;
after it ran the attempt is gone (`conn = none`), so it cannot run again -/
theorem spin_connect_once (s : St) : ∃ l1 l2, (stepOp s .spin).2 = .spin l1 l2 ∧
    (connectVals l1 = [] ∨ ∃ v, connectVals l1 = [v] ∧ s.conn.isSome = true ∧ (stepOp s .spin).1.conn = none) := by
  obtain ⟨l1, l2, h1, h2⟩ := spin_connectVals s
  refine ⟨l1, l2, h1, ?_⟩
  cases hc : s.conn with
  | none => rw [hc] at h2; exact Or.inl h2.1
  | some tc =>
    obtain ⟨timeo, cst⟩ := tc
    rw [hc] at h2
    obtain ⟨e1, e2⟩ := h2
    rcases connect_spin_once timeo connFuel cst s.nextfd with h | ⟨v, h, hf⟩
    · left; rw [e1, h]
    · right
      refine ⟨v, by rw [e1, h], rfl, ?_⟩
      rw [e2, hf]; rfl

/-- **connect = `Connect.run`**: an accepted `connect` followed by a `spin` runs exactly the callbacks of
`Connect.run` on the (at most `maxAddrs`) addresses — the object of `connect_callback_exact` -/
theorem connect_spin_is_run (s : St) (hc : s.conn = none) (timeo : Bool) (addrs : List AddrOutcome) :
    (stepOp s (.connect timeo addrs)).2 = .ok ∧
    ∃ l1 l2, (stepOp (stepOp s (.connect timeo addrs)).1 .spin).2 = .spin l1 l2 ∧
      connectVals l1 = Percival.Proofs.Connect.cbs (Connect.run timeo (addrs.take maxAddrs) s.nextfd).1 := by
  have hlen : (addrs.take maxAddrs).length + 1 ≤ connFuel := by
    have : (addrs.take maxAddrs).length ≤ maxAddrs := List.length_take_le _ _
    simp only [maxAddrs, connFuel] at *; omega
  have hrun := Percival.Proofs.Connect.stepwise_eq_runAll timeo (addrs.take maxAddrs) 0 s.nextfd connFuel hlen
  rw [← Percival.Proofs.Connect.run_eq_runAll] at hrun
  rcases htc : tryconnect (addrs.take maxAddrs) 0 s.nextfd with ⟨evs, st, fd'⟩
  rw [htc] at hrun
  simp only at hrun
  have hs1 : stepOp s (.connect timeo addrs) =
      ({ s with conn := some (timeo, st), connEvs := s.connEvs ++ evs, nextfd := fd' }, .ok) := by
    simp only [stepOp, hc, Option.isSome_none, Bool.false_eq_true, if_false, htc]
  rw [hs1]
  refine ⟨rfl, ?_⟩
  obtain ⟨l1, l2, h1, h2⟩ := spin_connectVals { s with conn := some (timeo, st), connEvs := s.connEvs ++ evs, nextfd := fd' }
  refine ⟨l1, l2, h1, ?_⟩
  simp only at h2
  rw [h2.1, ← hrun, cbs_append]
  have := cbs_tryconnect (addrs.take maxAddrs) 0 s.nextfd
  rw [htc] at this
  simp only at this
  rw [this, List.nil_append]

/-! ## whole runs -/

theorem runOps_ok (ops : List Op) : ∀ s : St, StOk s → (∀ op ∈ ops, OpOk op) → StOk (runOps s ops).1 := by
  induction ops with
  | nil => intro s hs _; exact hs
  | cons op ops ih =>
    intro s hs ho
    exact ih _ (stepOp_ok s op hs (ho op List.mem_cons_self)) (fun o h => ho o (List.mem_cons_of_mem _ h))

end Percival.Proofs.NetIOStep
