import Percival.Proofs.AFUNbRead
import Percival.Proofs.AFUNbWrite
import Percival.Proofs.AFUHttp
/-!
# C14, upper layers: sequences of calls keep the invariant; releasing every object leaves nothing

`stepR` is `step` together with the call's outcome.  From the per-call specifications: every call keeps
`Inv` (the references between objects included), moves the oracle forward (`Step`), and a call outside the
usage contract leaves the world as it was.  `teardown` (every object released with its normal call) ends
with all tables empty, hence no live block and no registration.
-/
namespace Percival.Proofs.AllocFailUpper
open Percival.Model Percival.Model.EvReg Percival.Model.AllocFail
open Percival.Proofs.EvRegNet (regNet netRegistered NetInv)
open Percival.Proofs.EvRegTimer (regImm regTimers TmInv Step Granted)
open Percival.Proofs.EArray (malloc_ok malloc_fail free_facts)
open Percival.Model.Connect (AddrOutcome)

theorem step_eq (w : World) (op : Op) : step w op = (stepR w op).2 := by
  cases op <;> simp only [step, stepR, orSame]
  case read fd => rcases networkRead w fd with ⟨_ | _, _⟩ <;> rfl
  case write fd => rcases networkWrite w fd with ⟨_ | _, _⟩ <;> rfl
  case accept fd => rcases networkAccept w fd with ⟨_ | _, _⟩ <;> rfl
  case connect a t s => rcases networkConnect w a t s with ⟨_ | _, _⟩ <;> rfl
  case nbrInit fd => rcases netbufReadInit w fd with ⟨_ | _, _⟩ <;> rfl
  case nbwInit fd => rcases netbufWriteInit w fd with ⟨_ | _, _⟩ <;> rfl
  case http a l s => rcases httpRequest w a l s with ⟨_ | _, _⟩ <;> rfl
  case https a l s hl => rcases httpsRequest w a l s hl with ⟨_ | _, _⟩ <;> rfl
  case readCancel c => cases readOwned w c <;> cases networkReadCancel w c <;> rfl
  case writeCancel c => cases writeOwned w c <;> cases networkWriteCancel w c <;> rfl
  case connectCancel c => cases connOwned w c <;> cases networkConnectCancel w c <;> rfl
  case acceptCancel c => cases networkAcceptCancel w c <;> rfl
  case nbrCancel c => cases netbufReadWaitCancel w c <;> rfl
  case nbrFree c => cases netbufReadFree w c <;> rfl
  case nbwFree c => cases netbufWriteFree w c <;> rfl
  case httpCancel c => cases httpRequestCancel w c <;> rfl

/-! ## the empty world; empty tables -/

/-- the world before any call -/
theorem inv_init (m : Mem) (hm : m.live = 0) : Inv ({ m := m } : World) := by
  refine ⟨⟨⟨EvRegNet.netInv_init, EvRegTimer.tmInv_init m, (by show 0 < (regImm ({} : Ev)).length; decide)⟩, rfl, by simp, by simp, ?_, by simp,
    poolOk_nil _ _ rfl rfl rfl, poolOk_nil _ _ rfl rfl rfl, ?_, ?_, ?_, by simp [hm]⟩, ?_⟩
  · exact ⟨by simp [expLive, tables], by simp, by simp [expLive, tables]⟩
  · exact List.Perm.refl _
  · exact List.Perm.refl _
  · exact List.Perm.refl _
  · exact ⟨by simp [tables], by simp [tables], by simp [tables], by simp [tables], by simp [tables], by simp [tables]⟩

/-- no object in any table: no live block, nothing registered -/
theorem empty_tables_nothing (w : World) (h : Inv0 w) (ht : tables w = ⟨[], [], [], [], [], [], []⟩) :
    w.live = [] ∧ regNet w.ev = [] ∧ regTimers w.ev = [] ∧ (regImm w.ev).flatten = [] := by
  have h1 := h.owns; have h2 := h.regNet; have h3 := h.regTm; have h4 := h.regImm
  rw [ht] at h1 h2 h3 h4
  exact ⟨Owns.nil_iff h1, List.Perm.eq_nil h2, List.Perm.eq_nil h3, List.Perm.eq_nil h4⟩

/-! ## references between two tables, generically

`A` is a table of owners (readers / writers / HTTP requests), `B` the table of the objects they refer to
(reads / writes / connection attempts); `own a` is the cookie `a` holds, `ok a c b` says that `b` is what
the cookie `c` held by `a` must resolve to. -/
namespace Run

structure Link {α β : Type} (own : α → Option Nat) (ok : α → Nat → β → Prop) (A : List α) (B : List β) : Prop where
  ref : ∀ a ∈ A, ∀ c, own a = some c → ∃ b ∈ B, ok a c b
  nodup : (A.filterMap own).Nodup

section
variable {α β : Type} {own : α → Option Nat} {ok : α → Nat → β → Prop} {A A' : List α} {B B' : List β}

theorem Link.perm (h : Link own ok A B) (hp : A.Perm A') : Link own ok A' B :=
  ⟨fun a ha => h.ref a (hp.mem_iff.2 ha), (hp.filterMap own).nodup_iff.1 h.nodup⟩

theorem Link.monoB (h : Link own ok A B) (hB : ∀ b ∈ B, b ∈ B') : Link own ok A B' :=
  ⟨fun a ha c hc => by obtain ⟨b, hb, hk⟩ := h.ref a ha c hc; exact ⟨b, hB b hb, hk⟩, h.nodup⟩

theorem Link.consNone {a : α} (h : Link own ok A B) (ha : own a = none) : Link own ok (a :: A) B := by
  refine ⟨fun x hx c hc => ?_, by rw [List.filterMap_cons, ha]; exact h.nodup⟩
  rcases List.mem_cons.1 hx with rfl | hx
  · rw [ha] at hc; cases hc
  · exact h.ref x hx c hc

theorem Link.tail {a : α} (h : Link own ok (a :: A) B) : Link own ok A B := by
  refine ⟨fun x hx => h.ref x (List.mem_cons_of_mem _ hx), ?_⟩
  have := h.nodup
  rw [List.filterMap_cons] at this
  cases ho : own a with
  | none => rw [ho] at this; exact this
  | some c => rw [ho] at this; exact (List.nodup_cons.1 this).2

/-- no other owner holds the head's cookie -/
theorem Link.head_unique {a : α} {c : Nat} (h : Link own ok (a :: A) B) (ha : own a = some c) :
    ∀ x ∈ A, own x ≠ some c := by
  intro x hx hc
  have := h.nodup
  rw [List.filterMap_cons, ha] at this
  exact (List.nodup_cons.1 this).1 (List.mem_filterMap.2 ⟨x, hx, hc⟩)

variable (kb : β → Nat) (hok : ∀ a c b, ok a c b → kb b = c)
include hok

theorem Link.consSome {a : α} {c : Nat} {b0 : β} (h : Link own ok A B) (ha : own a = some c)
    (hc : c ∉ B.map kb) (hb0 : ok a c b0) : Link own ok (a :: A) (b0 :: B) := by
  refine ⟨fun x hx c' hc' => ?_, ?_⟩
  · rcases List.mem_cons.1 hx with rfl | hx
    · rw [ha] at hc'; cases hc'; exact ⟨b0, List.mem_cons_self, hb0⟩
    · obtain ⟨b, hb, hk⟩ := h.ref x hx c' hc'
      exact ⟨b, List.mem_cons_of_mem _ hb, hk⟩
  · rw [List.filterMap_cons, ha]
    refine List.nodup_cons.2 ⟨fun hm => ?_, h.nodup⟩
    obtain ⟨x, hx, hxc⟩ := List.mem_filterMap.1 hm
    obtain ⟨b, hb, hk⟩ := h.ref x hx c hxc
    exact hc (List.mem_map.2 ⟨b, hb, hok _ _ _ hk⟩)

theorem Link.filterUnowned {c : Nat} (h : Link own ok A B) (hun : ∀ a ∈ A, own a ≠ some c) :
    Link own ok A (B.filter (fun b => kb b != c)) := by
  refine ⟨fun a ha c' hc' => ?_, h.nodup⟩
  obtain ⟨b, hb, hk⟩ := h.ref a ha c' hc'
  refine ⟨b, List.mem_filter.2 ⟨hb, ?_⟩, hk⟩
  have : kb b ≠ c := by
    rw [hok _ _ _ hk]; intro hcc; subst hcc; exact hun a ha hc'
  simpa using this

theorem Link.tailFilter {a : α} {c : Nat} (h : Link own ok (a :: A) B) (ha : own a = some c) :
    Link own ok A (B.filter (fun b => kb b != c)) :=
  Link.filterUnowned kb hok h.tail (h.head_unique ha)

end

/-- replacing the entry with a given key -/
def upd {α : Type} (ka : α → Nat) (A : List α) (a' : α) : List α := A.map (fun x => if ka x == ka a' then a' else x)

theorem upd_perm {α : Type} (ka : α → Nat) : ∀ (A : List α) (a a' : α), (A.map ka).Nodup → a ∈ A → ka a' = ka a →
    (upd ka A a').Perm (a' :: A.filter (fun x => ka x != ka a))
  | [], a, _, _, ha, _ => by simp at ha
  | x :: rest, a, a', hnd, ha, hid => by
    simp only [List.map_cons, List.nodup_cons] at hnd
    rcases List.mem_cons.1 ha with rfl | ha
    · have h1 : upd ka rest a' = rest := by
        unfold upd
        conv => rhs; rw [← List.map_id rest]
        apply List.map_congr_left
        intro y hy
        have : ka y ≠ ka a' := fun h => hnd.1 (by rw [← hid, ← h]; exact List.mem_map_of_mem hy)
        simp [this]
      have h2 : rest.filter (fun x => ka x != ka a) = rest := by
        apply List.filter_eq_self.2
        intro y hy
        have : ka y ≠ ka a := fun h => hnd.1 (h ▸ List.mem_map_of_mem hy)
        simpa using this
      have h3 : upd ka (a :: rest) a' = a' :: upd ka rest a' := by simp [upd, hid]
      rw [h3, h1]
      simp [h2]
    · have hne : ka x ≠ ka a := fun h => hnd.1 (h ▸ List.mem_map_of_mem ha)
      have hne' : ka x ≠ ka a' := by rw [hid]; exact hne
      have h3 : upd ka (x :: rest) a' = x :: upd ka rest a' := by simp [upd, hne']
      have hb : (ka x != ka a) = true := by simpa using hne
      rw [h3]
      simp only [List.filter_cons, hb, if_true]
      exact ((upd_perm ka rest a a' hnd.2 ha hid).cons x).trans (List.Perm.swap a' x _)

section
variable {α β : Type} {own : α → Option Nat} {ok : α → Nat → β → Prop} {A : List α} {B : List β}
variable (ka : α → Nat)

/-- the entry is replaced by one holding the same cookie -/
theorem Link.updSame {a a' : α} (h : Link own ok A B) (hnd : (A.map ka).Nodup) (ha : a ∈ A) (hid : ka a' = ka a)
    (ho : own a' = own a) (hk : ∀ c b, ok a c b → ok a' c b) : Link own ok (upd ka A a') B := by
  have h1 := h.perm (perm_filter_key ka A a ha hnd)
  refine Link.perm ?_ (upd_perm ka A a a' hnd ha hid).symm
  refine ⟨fun x hx c hc => ?_, ?_⟩
  · rcases List.mem_cons.1 hx with rfl | hx
    · obtain ⟨b, hb, hkb⟩ := h1.ref a List.mem_cons_self c (by rw [← ho]; exact hc)
      exact ⟨b, hb, hk c b hkb⟩
    · exact h1.ref x (List.mem_cons_of_mem _ hx) c hc
  · have := h1.nodup
    rw [List.filterMap_cons] at this ⊢
    rw [ho]; exact this

/-- the entry is removed -/
theorem Link.remove {a : α} (h : Link own ok A B) (hnd : (A.map ka).Nodup) (ha : a ∈ A) :
    Link own ok (A.filter (fun x => ka x != ka a)) B :=
  (h.perm (perm_filter_key ka A a ha hnd)).tail

variable (kb : β → Nat) (hok : ∀ a c b, ok a c b → kb b = c)
include hok

/-- the entry held nothing; its replacement holds a new cookie, resolved by a new `B` entry -/
theorem Link.updSome {a a' : α} {c : Nat} {b0 : β} (h : Link own ok A B) (hnd : (A.map ka).Nodup) (ha : a ∈ A)
    (hid : ka a' = ka a) (ho' : own a' = some c) (hc : c ∉ B.map kb) (hb0 : ok a' c b0) :
    Link own ok (upd ka A a') (b0 :: B) :=
  Link.perm (Link.consSome kb hok (h.remove ka hnd ha) ho' hc hb0) (upd_perm ka A a a' hnd ha hid).symm

/-- the entry held `c`; its replacement holds nothing and the `B` entry of `c` is removed -/
theorem Link.updNone {a a' : α} {c : Nat} (h : Link own ok A B) (hnd : (A.map ka).Nodup) (ha : a ∈ A)
    (hid : ka a' = ka a) (ho : own a = some c) (ho' : own a' = none) :
    Link own ok (upd ka A a') (B.filter (fun b => kb b != c)) :=
  Link.perm (Link.consNone (Link.tailFilter kb hok (h.perm (perm_filter_key ka A a ha hnd)) ho) ho')
    (upd_perm ka A a a' hnd ha hid).symm

/-- the entry, which held `c`, is removed together with the `B` entry of `c` -/
theorem Link.removeBoth {a : α} {c : Nat} (h : Link own ok A B) (hnd : (A.map ka).Nodup) (ha : a ∈ A)
    (ho : own a = some c) : Link own ok (A.filter (fun x => ka x != ka a)) (B.filter (fun b => kb b != c)) :=
  Link.tailFilter kb hok (h.perm (perm_filter_key ka A a ha hnd)) ho

end

end Run

/-! ## `Refs` as three links, and what each kind of table change does to it -/
namespace Run

def okR (r : Reader) (c : Nat) (b : NetReq) : Prop := b = ⟨c, r.fd⟩
def ownW (x : Writer) : Option Nat := x.curr.map (·.2)
def okW (x : Writer) (c : Nat) (b : NetReq) : Prop := b = ⟨c, x.fd⟩
def okH (_ : Http) (c : Nat) (k : Conn) : Prop := k.cookie = c

abbrev LinkR := Link (fun r : Reader => r.readCookie) okR
abbrev LinkW := Link ownW okW
abbrev LinkH := Link (fun h : Http => h.conn) okH

theorem okR_key : ∀ (a : Reader) (c : Nat) (b : NetReq), okR a c b → (fun b : NetReq => b.cookie) b = c := by
  intro a c b h; rw [h]
theorem okW_key : ∀ (a : Writer) (c : Nat) (b : NetReq), okW a c b → (fun b : NetReq => b.cookie) b = c := by
  intro a c b h; rw [h]
theorem okH_key : ∀ (a : Http) (c : Nat) (b : Conn), okH a c b → (fun b : Conn => b.cookie) b = c := by
  intro a c b h; exact h

theorem ownW_some {x : Writer} {c : Nat} : ownW x = some c ↔ ∃ wb, x.curr = some (wb, c) := by
  unfold ownW
  cases hx : x.curr with
  | none => simp
  | some p => obtain ⟨wb, c'⟩ := p; simp

theorem refs_iff {t : Tables} : Refs t ↔ LinkR t.readers t.reads ∧ LinkW t.writers t.writes ∧ LinkH t.https t.conns := by
  constructor
  · intro h
    refine ⟨⟨fun r hr c hc => ⟨_, h.rdRef r hr c hc, rfl⟩, h.rdOwn⟩, ⟨fun x hx c hc => ?_, h.wrOwn⟩,
      ⟨fun x hx c hc => h.htRef x hx c hc, h.htOwn⟩⟩
    obtain ⟨wb, hwb⟩ := ownW_some.1 hc
    exact ⟨_, h.wrRef x hx wb c hwb, rfl⟩
  · intro ⟨h1, h2, h3⟩
    refine ⟨fun r hr c hc => ?_, fun x hx wb c hc => ?_, fun x hx c hc => h3.ref x hx c hc, h1.nodup, h2.nodup, h3.nodup⟩
    · obtain ⟨b, hb, hk⟩ := h1.ref r hr c hc
      rw [← hk]; exact hb
    · obtain ⟨b, hb, hk⟩ := h2.ref x hx c (ownW_some.2 ⟨wb, hc⟩)
      rw [← hk]; exact hb

variable {t : Tables}

theorem refs_reads_cons (h : Refs t) (a : NetReq) : Refs { t with reads := a :: t.reads } := by
  obtain ⟨h1, h2, h3⟩ := refs_iff.1 h
  exact refs_iff.2 ⟨h1.monoB (fun b hb => List.mem_cons_of_mem _ hb), h2, h3⟩

theorem refs_writes_cons (h : Refs t) (a : NetReq) : Refs { t with writes := a :: t.writes } := by
  obtain ⟨h1, h2, h3⟩ := refs_iff.1 h
  exact refs_iff.2 ⟨h1, h2.monoB (fun b hb => List.mem_cons_of_mem _ hb), h3⟩

theorem refs_conns_cons (h : Refs t) (a : Conn) : Refs { t with conns := a :: t.conns } := by
  obtain ⟨h1, h2, h3⟩ := refs_iff.1 h
  exact refs_iff.2 ⟨h1, h2, h3.monoB (fun b hb => List.mem_cons_of_mem _ hb)⟩

theorem refs_accepts (h : Refs t) (X : List NetReq) : Refs { t with accepts := X } := by
  obtain ⟨h1, h2, h3⟩ := refs_iff.1 h
  exact refs_iff.2 ⟨h1, h2, h3⟩

theorem refs_reads_filter (h : Refs t) (c : Nat) (hun : ∀ r ∈ t.readers, r.readCookie ≠ some c) :
    Refs { t with reads := t.reads.filter (fun x => x.cookie != c) } := by
  obtain ⟨h1, h2, h3⟩ := refs_iff.1 h
  exact refs_iff.2 ⟨Link.filterUnowned _ okR_key h1 hun, h2, h3⟩

theorem refs_writes_filter (h : Refs t) (c : Nat) (hun : ∀ x ∈ t.writers, ownW x ≠ some c) :
    Refs { t with writes := t.writes.filter (fun x => x.cookie != c) } := by
  obtain ⟨h1, h2, h3⟩ := refs_iff.1 h
  exact refs_iff.2 ⟨h1, Link.filterUnowned _ okW_key h2 hun, h3⟩

theorem refs_conns_filter (h : Refs t) (c : Nat) (hun : ∀ x ∈ t.https, x.conn ≠ some c) :
    Refs { t with conns := t.conns.filter (fun x => x.cookie != c) } := by
  obtain ⟨h1, h2, h3⟩ := refs_iff.1 h
  exact refs_iff.2 ⟨h1, h2, Link.filterUnowned _ okH_key h3 hun⟩

theorem refs_reader_cons (h : Refs t) (r : Reader) (hr : r.readCookie = none) : Refs { t with readers := r :: t.readers } := by
  obtain ⟨h1, h2, h3⟩ := refs_iff.1 h
  exact refs_iff.2 ⟨h1.consNone hr, h2, h3⟩

theorem refs_writer_cons (h : Refs t) (x : Writer) (hx : x.curr = none) : Refs { t with writers := x :: t.writers } := by
  obtain ⟨h1, h2, h3⟩ := refs_iff.1 h
  exact refs_iff.2 ⟨h1, h2.consNone (by unfold ownW; rw [hx]; rfl), h3⟩

theorem refs_http_cons (h : Refs t) (x hd c : Nat) (ho : Option Nat) (k : Conn) (hk : k.cookie = c)
    (hc : c ∉ t.conns.map (·.cookie)) :
    Refs { t with https := ⟨x, hd, some c, ho⟩ :: t.https, conns := k :: t.conns } := by
  obtain ⟨h1, h2, h3⟩ := refs_iff.1 h
  exact refs_iff.2 ⟨h1, h2, Link.consSome _ okH_key h3 rfl hc hk⟩

theorem refs_updReader_same (h : Refs t) (hnd : ((expLive t).map (·.1)).Nodup) {r r' : Reader} (hr : r ∈ t.readers)
    (hid : r'.id = r.id) (hfd : r'.fd = r.fd) (hc : r'.readCookie = r.readCookie) :
    Refs { t with readers := updReader t.readers r' } := by
  obtain ⟨h1, h2, h3⟩ := refs_iff.1 h
  exact refs_iff.2 ⟨Link.updSame (fun r : Reader => r.id) h1 (tables_nodup hnd).2.2.2.2.1 hr hid hc
    (fun c b hb => by unfold okR at hb ⊢; rw [hfd]; exact hb), h2, h3⟩

theorem refs_updReader_some (h : Refs t) (hnd : ((expLive t).map (·.1)).Nodup) {r r' : Reader} {c : Nat} (hr : r ∈ t.readers)
    (hid : r'.id = r.id) (hfd : r'.fd = r.fd) (hc : r'.readCookie = some c) (hnew : c ∉ t.reads.map (·.cookie)) :
    Refs { t with readers := updReader t.readers r', reads := ⟨c, r.fd⟩ :: t.reads } := by
  obtain ⟨h1, h2, h3⟩ := refs_iff.1 h
  exact refs_iff.2 ⟨Link.updSome (fun r : Reader => r.id) _ okR_key h1 (tables_nodup hnd).2.2.2.2.1 hr hid hc hnew
    (by unfold okR; rw [hfd]), h2, h3⟩

theorem refs_updReader_none (h : Refs t) (hnd : ((expLive t).map (·.1)).Nodup) {r r' : Reader} {c : Nat} (hr : r ∈ t.readers)
    (hid : r'.id = r.id) (hc : r.readCookie = some c) (hc' : r'.readCookie = none) :
    Refs { t with readers := updReader t.readers r', reads := t.reads.filter (fun x => x.cookie != c) } := by
  obtain ⟨h1, h2, h3⟩ := refs_iff.1 h
  exact refs_iff.2 ⟨Link.updNone (fun r : Reader => r.id) _ okR_key h1 (tables_nodup hnd).2.2.2.2.1 hr hid hc hc', h2, h3⟩

theorem refs_reader_remove (h : Refs t) (hnd : ((expLive t).map (·.1)).Nodup) {r : Reader} (hr : r ∈ t.readers) :
    Refs { t with readers := t.readers.filter (fun x => x.id != r.id) } := by
  obtain ⟨h1, h2, h3⟩ := refs_iff.1 h
  exact refs_iff.2 ⟨Link.remove (fun r : Reader => r.id) h1 (tables_nodup hnd).2.2.2.2.1 hr, h2, h3⟩

theorem refs_updWriter_same (h : Refs t) (hnd : ((expLive t).map (·.1)).Nodup) {x x' : Writer} (hx : x ∈ t.writers)
    (hid : x'.id = x.id) (hfd : x'.fd = x.fd) (hc : x'.curr = x.curr) :
    Refs { t with writers := updWriter t.writers x' } := by
  obtain ⟨h1, h2, h3⟩ := refs_iff.1 h
  exact refs_iff.2 ⟨h1, Link.updSame (fun x : Writer => x.id) h2 (tables_nodup hnd).2.2.2.2.2.1 hx hid
    (by unfold ownW; rw [hc]) (fun c b hb => by unfold okW at hb ⊢; rw [hfd]; exact hb), h3⟩

theorem refs_updWriter_some (h : Refs t) (hnd : ((expLive t).map (·.1)).Nodup) {x x' : Writer} {wb : WBuf} {c : Nat}
    (hx : x ∈ t.writers) (hid : x'.id = x.id) (hfd : x'.fd = x.fd) (hc : x'.curr = some (wb, c))
    (hnew : c ∉ t.writes.map (·.cookie)) :
    Refs { t with writers := updWriter t.writers x', writes := ⟨c, x.fd⟩ :: t.writes } := by
  obtain ⟨h1, h2, h3⟩ := refs_iff.1 h
  exact refs_iff.2 ⟨h1, Link.updSome (fun x : Writer => x.id) _ okW_key h2 (tables_nodup hnd).2.2.2.2.2.1 hx hid
    (ownW_some.2 ⟨wb, hc⟩) hnew (by unfold okW; rw [hfd]), h3⟩

theorem refs_writer_remove (h : Refs t) (hnd : ((expLive t).map (·.1)).Nodup) {x : Writer} (hx : x ∈ t.writers) :
    Refs { t with writers := t.writers.filter (fun y => y.id != x.id),
                  writes := match x.curr with
                    | some (_, c) => t.writes.filter (fun y => y.cookie != c)
                    | none => t.writes } := by
  obtain ⟨h1, h2, h3⟩ := refs_iff.1 h
  cases hcur : x.curr with
  | none => exact refs_iff.2 ⟨h1, Link.remove (fun x : Writer => x.id) h2 (tables_nodup hnd).2.2.2.2.2.1 hx, h3⟩
  | some p =>
    obtain ⟨wb, c⟩ := p
    exact refs_iff.2 ⟨h1, Link.removeBoth (fun x : Writer => x.id) _ okW_key h2 (tables_nodup hnd).2.2.2.2.2.1 hx
      (ownW_some.2 ⟨wb, hcur⟩), h3⟩

theorem refs_http_remove (h : Refs t) (hnd : ((expLive t).map (·.1)).Nodup) {x : Http} (hx : x ∈ t.https) :
    Refs { t with https := t.https.filter (fun y => y.cookie != x.cookie),
                  conns := match x.conn with
                    | some c => t.conns.filter (fun y => y.cookie != c)
                    | none => t.conns } := by
  obtain ⟨h1, h2, h3⟩ := refs_iff.1 h
  cases hcur : x.conn with
  | none => exact refs_iff.2 ⟨h1, h2, Link.remove (fun x : Http => x.cookie) h3 (tables_nodup hnd).2.2.2.2.2.2 hx⟩
  | some c =>
    exact refs_iff.2 ⟨h1, h2, Link.removeBoth (fun x : Http => x.cookie) _ okH_key h3 (tables_nodup hnd).2.2.2.2.2.2 hx hcur⟩

/-- `netbuf_read_wait_cancel`'s change -/
theorem refs_reader_cancel (h : Refs t) (hnd : ((expLive t).map (·.1)).Nodup) {r : Reader} (hr : r ∈ t.readers) :
    Refs { t with readers := updReader t.readers { r with readCookie := none, immediate := false },
                  reads := match r.readCookie with
                    | some c => t.reads.filter (fun x => x.cookie != c)
                    | none => t.reads } := by
  cases hcur : r.readCookie with
  | none => exact refs_updReader_same h hnd hr rfl rfl hcur.symm
  | some c => exact refs_updReader_none h hnd hr rfl hcur rfl

end Run

/-! ## every call: the invariant, the oracle, the contract -/
namespace Run

/-- what every call does: keeps `Inv`, moves the oracle forward, and leaves the world alone if refused -/
def Good (w : World) (R : Rc × World) : Prop := Inv R.2 ∧ Step w.m R.2.m ∧ (R.1 = .contract → R.2 = w)

theorem good_same {w : World} (h : Inv w) (rc : Rc) : Good w (rc, w) := ⟨h, Step.refl _, fun _ => rfl⟩

/-- the outcome of a call that returns a new object or NULL -/
def ofOpt : Option Nat × World → Rc × World
  | (some _, w') => (.ok, w')
  | (none, w') => (.fail, w')

theorem good_alloc {w : World} (R : Option Nat × World) (hi : Inv0 R.2) (hr : Refs (tables R.2)) (hs : Step w.m R.2.m) :
    Good w (ofOpt R) := by
  rcases R with ⟨_ | c, w'⟩
  · exact ⟨⟨hi, hr⟩, hs, fun hc => by cases hc⟩
  · exact ⟨⟨hi, hr⟩, hs, fun hc => by cases hc⟩

theorem good_some {w w' : World} (hi : Inv0 w') (hr : Refs (tables w')) (hs : Step w.m w'.m) : Good w (.ok, w') :=
  ⟨⟨hi, hr⟩, hs, fun hc => by cases hc⟩

theorem connEntry_cookie (c : Nat) (addrs : List AddrOutcome) (timeo : Option Int) (s : Nat) :
    (connEntry c addrs timeo s).cookie = c := by
  unfold connEntry; split <;> rfl

theorem find_key {α : Type} (k : α → Nat) {l : List α} {c : Nat} {a : α} (h : l.find? (fun x => k x == c) = some a) :
    a ∈ l ∧ k a = c :=
  ⟨List.mem_of_find?_eq_some h, by simpa using List.find?_some h⟩

theorem good_read (w : World) (fd : Nat) (h : Inv w) : Good w (stepR w (.read fd)) := by
  obtain ⟨hi, hs, hn, hsome, _⟩ := networkRead_spec w fd h.toInv0
  show Good w (ofOpt (networkRead w fd))
  refine good_alloc (networkRead w fd) hi ?_ hs
  cases ho : (networkRead w fd).1 with
  | none => rw [(hn ho).tables]; exact h.refs
  | some c => rw [(hsome c ho).2.1]; exact refs_reads_cons h.refs _

theorem good_write (w : World) (fd : Nat) (h : Inv w) : Good w (stepR w (.write fd)) := by
  obtain ⟨hi, hs, hn, hsome, _⟩ := networkWrite_spec w fd h.toInv0
  show Good w (ofOpt (networkWrite w fd))
  refine good_alloc (networkWrite w fd) hi ?_ hs
  cases ho : (networkWrite w fd).1 with
  | none => rw [(hn ho).tables]; exact h.refs
  | some c => rw [(hsome c ho).2.1]; exact refs_writes_cons h.refs _

theorem good_accept (w : World) (fd : Nat) (h : Inv w) : Good w (stepR w (.accept fd)) := by
  obtain ⟨hi, hs, hn, hsome, _⟩ := networkAccept_spec w fd h.toInv0
  show Good w (ofOpt (networkAccept w fd))
  refine good_alloc (networkAccept w fd) hi ?_ hs
  cases ho : (networkAccept w fd).1 with
  | none => rw [(hn ho).tables]; exact h.refs
  | some c => rw [(hsome c ho).2.1]; exact refs_accepts h.refs _

theorem good_connect (w : World) (addrs : List AddrOutcome) (timeo : Option Int) (s : Nat) (h : Inv w) :
    Good w (stepR w (.connect addrs timeo s)) := by
  obtain ⟨hi, hs, hn, hsome, _⟩ := networkConnect_spec w addrs timeo s h.toInv0
  show Good w (ofOpt (networkConnect w addrs timeo s))
  refine good_alloc (networkConnect w addrs timeo s) hi ?_ hs
  cases ho : (networkConnect w addrs timeo s).1 with
  | none => rw [(hn ho).tables]; exact h.refs
  | some c => rw [(hsome c ho).2.1]; exact refs_conns_cons h.refs _

theorem good_nbrInit (w : World) (fd : Nat) (h : Inv w) : Good w (stepR w (.nbrInit fd)) := by
  obtain ⟨hi, hs, hn, hsome⟩ := netbufReadInit_spec w fd h.toInv0
  show Good w (ofOpt (netbufReadInit w fd))
  refine good_alloc (netbufReadInit w fd) hi ?_ hs
  cases ho : (netbufReadInit w fd).1 with
  | none => rw [(hn ho).1.tables]; exact h.refs
  | some c =>
    obtain ⟨b, _, ht, _⟩ := hsome c ho
    rw [ht]; exact refs_reader_cons h.refs _ rfl

theorem good_nbwInit (w : World) (fd : Nat) (h : Inv w) : Good w (stepR w (.nbwInit fd)) := by
  obtain ⟨hi, hs, hn, hsome⟩ := netbufWriteInit_spec w fd h.toInv0
  show Good w (ofOpt (netbufWriteInit w fd))
  refine good_alloc (netbufWriteInit w fd) hi ?_ hs
  cases ho : (netbufWriteInit w fd).1 with
  | none => rw [(hn ho).1.tables]; exact h.refs
  | some c => rw [(hsome c ho).2.1]; exact refs_writer_cons h.refs _ rfl

theorem good_http (w : World) (addrs : List AddrOutcome) (headlen s : Nat) (h : Inv w) :
    Good w (stepR w (.http addrs headlen s)) := by
  obtain ⟨hi, hs, hn, hsome, _⟩ := httpRequest_spec w addrs headlen s h.toInv0
  show Good w (ofOpt (httpRequest w addrs headlen s))
  refine good_alloc (httpRequest w addrs headlen s) hi ?_ hs
  cases ho : (httpRequest w addrs headlen s).1 with
  | none => rw [(hn ho).tables]; exact h.refs
  | some x =>
    obtain ⟨hd, c, _, ht, _⟩ := hsome x ho
    have hnd' := (tables_nodup hi.owns.nodupE).2.2.2.1
    rw [ht] at hnd'
    simp only [List.map_cons, List.nodup_cons, connEntry_cookie] at hnd'
    rw [ht]
    exact refs_http_cons h.refs x hd c none _ (connEntry_cookie _ _ _ _) hnd'.1

theorem good_https (w : World) (addrs : List AddrOutcome) (headlen s hostlen : Nat) (h : Inv w) :
    Good w (stepR w (.https addrs headlen s hostlen)) := by
  obtain ⟨hi, hs, hn, hsome, _⟩ := httpsRequest_spec w addrs headlen s hostlen h.toInv0
  show Good w (ofOpt (httpsRequest w addrs headlen s hostlen))
  refine good_alloc (httpsRequest w addrs headlen s hostlen) hi ?_ hs
  cases ho : (httpsRequest w addrs headlen s hostlen).1 with
  | none => rw [(hn ho).tables]; exact h.refs
  | some x =>
    obtain ⟨sh, hd, c, _, ht, _⟩ := hsome x ho
    have hnd' := (tables_nodup hi.owns.nodupE).2.2.2.1
    rw [ht] at hnd'
    simp only [List.map_cons, List.nodup_cons, connEntry_cookie] at hnd'
    rw [ht]
    exact refs_http_cons h.refs x hd c (some sh) _ (connEntry_cookie _ _ _ _) hnd'.1

theorem good_readCancel (w : World) (c : Nat) (h : Inv w) : Good w (stepR w (.readCancel c)) := by
  simp only [stepR]
  cases hro : readOwned w c with
  | true => exact good_same h _
  | false =>
    simp only [Bool.false_eq_true, if_false]
    cases hf : w.reads.find? (fun x => x.cookie == c) with
    | none =>
      have : networkReadCancel w c = none := by simp only [networkReadCancel, hf]
      rw [this]; exact good_same h _
    | some a =>
      obtain ⟨ha, hac⟩ := find_key (fun x : NetReq => x.cookie) hf
      subst hac
      obtain ⟨w', hcall, hi, hs, _, ht, _⟩ := networkReadCancel_spec w a h.toInv0 ha
      rw [hcall]
      refine good_some hi ?_ hs
      rw [ht]
      refine refs_reads_filter h.refs _ ?_
      intro r hr hc
      unfold readOwned at hro
      have := List.any_eq_false.1 hro r hr
      simp [hc] at this

theorem good_writeCancel (w : World) (c : Nat) (h : Inv w) : Good w (stepR w (.writeCancel c)) := by
  simp only [stepR]
  cases hro : writeOwned w c with
  | true => exact good_same h _
  | false =>
    simp only [Bool.false_eq_true, if_false]
    cases hf : w.writes.find? (fun x => x.cookie == c) with
    | none =>
      have : networkWriteCancel w c = none := by simp only [networkWriteCancel, hf]
      rw [this]; exact good_same h _
    | some a =>
      obtain ⟨ha, hac⟩ := find_key (fun x : NetReq => x.cookie) hf
      subst hac
      obtain ⟨w', hcall, hi, hs, _, ht, _⟩ := networkWriteCancel_spec w a h.toInv0 ha
      rw [hcall]
      refine good_some hi ?_ hs
      rw [ht]
      refine refs_writes_filter h.refs _ ?_
      intro r hr hc
      unfold writeOwned at hro
      have := List.any_eq_false.1 hro r hr
      unfold ownW at hc
      simp [hc] at this

theorem good_connectCancel (w : World) (c : Nat) (h : Inv w) : Good w (stepR w (.connectCancel c)) := by
  simp only [stepR]
  cases hro : connOwned w c with
  | true => exact good_same h _
  | false =>
    simp only [Bool.false_eq_true, if_false]
    cases hf : w.conns.find? (fun x => x.cookie == c) with
    | none =>
      have : networkConnectCancel w c = none := by simp only [networkConnectCancel, hf]
      rw [this]; exact good_same h _
    | some a =>
      obtain ⟨ha, hac⟩ := find_key (fun x : Conn => x.cookie) hf
      subst hac
      obtain ⟨w', hcall, hi, hs, _, _, ht⟩ := networkConnectCancel_spec w a h.toInv0 ha
      rw [hcall]
      refine good_some hi ?_ hs
      rw [ht]
      refine refs_conns_filter h.refs _ ?_
      intro r hr hc
      unfold connOwned at hro
      have := List.any_eq_false.1 hro r hr
      simp [hc] at this

theorem good_acceptCancel (w : World) (c : Nat) (h : Inv w) : Good w (stepR w (.acceptCancel c)) := by
  simp only [stepR]
  cases hf : w.accepts.find? (fun x => x.cookie == c) with
  | none =>
    have : networkAcceptCancel w c = none := by simp only [networkAcceptCancel, hf]
    rw [this]; exact good_same h _
  | some a =>
    obtain ⟨ha, hac⟩ := find_key (fun x : NetReq => x.cookie) hf
    subst hac
    obtain ⟨w', hcall, hi, hs, _, _, ht, _⟩ := networkAcceptCancel_spec w a h.toInv0 ha
    rw [hcall]
    refine good_some hi ?_ hs
    rw [ht]
    exact refs_accepts h.refs _

end Run

namespace Run

theorem step_of_eq {m m' : Mem} (hn : m'.n = m.n) (hr : m'.refusals = m.refusals) (hf : m'.f = m.f) : Step m m' :=
  ⟨hf, by rw [hn]; exact Nat.le_refl _, by rw [hr]; exact Nat.le_refl _, fun _ => hr⟩

theorem good_nbrWait (w : World) (rid len : Nat) (h : Inv w) : Good w (stepR w (.nbrWait rid len)) := by
  show Good w (netbufReadWait w rid len)
  cases hf : w.readers.find? (fun x => x.id == rid) with
  | none =>
    have : netbufReadWait w rid len = (.contract, w) := by simp only [netbufReadWait, hf]
    rw [this]; exact good_same h _
  | some r =>
    obtain ⟨hr, hid⟩ := find_key (fun x : Reader => x.id) hf
    subst hid
    obtain ⟨hi, hs, hciff, hcon, hfail, hok, _⟩ := netbufReadWait_spec w r len h.toInv0 hr
    refine ⟨⟨hi, ?_⟩, hs, hcon⟩
    cases hrc : (netbufReadWait w r.id len).1 with
    | contract => rw [hcon hrc]; exact h.refs
    | fail =>
      obtain ⟨_, r', hid, hfd, _, hc', _, ht⟩ := hfail hrc
      rw [ht]
      have hnone : r.readCookie = none := by
        have hnc : ¬ (r.readCookie.isSome = true ∨ r.immediate = true) := fun hh => by
          have := hciff.2 hh; rw [hrc] at this; cases this
        cases hq : r.readCookie with
        | none => rfl
        | some c => exact absurd (Or.inl (by rw [hq]; rfl)) hnc
      exact refs_updReader_same h.refs h.owns.nodupE hr hid hfd (by rw [hc', hnone])
    | ok =>
      obtain ⟨_, hcase⟩ := hok hrc
      rcases hcase with ⟨_, ht⟩ | ⟨_, r', c, hid, hfd, _, hc', _, _, ht⟩
      · rw [ht]; exact refs_updReader_same h.refs h.owns.nodupE hr rfl rfl rfl
      · have hnd' := (tables_nodup hi.owns.nodupE).1
        rw [ht] at hnd'
        simp only [List.map_cons, List.nodup_cons] at hnd'
        rw [ht]
        exact refs_updReader_some h.refs h.owns.nodupE hr hid hfd hc' hnd'.1

theorem good_nbrCancel (w : World) (rid : Nat) (h : Inv w) : Good w (stepR w (.nbrCancel rid)) := by
  simp only [stepR]
  cases hf : w.readers.find? (fun x => x.id == rid) with
  | none =>
    have : netbufReadWaitCancel w rid = none := by simp only [netbufReadWaitCancel, hf]
    rw [this]; exact good_same h _
  | some r =>
    obtain ⟨hr, hid⟩ := find_key (fun x : Reader => x.id) hf
    subst hid
    obtain ⟨w', hcall, hi, hs, ht⟩ := netbufReadWaitCancel_spec w r h.toInv0 hr (h.refs.rdRef r hr)
    rw [hcall]
    refine good_some hi ?_ hs
    rw [ht]
    exact refs_reader_cancel h.refs h.owns.nodupE hr

theorem good_nbrFree (w : World) (rid : Nat) (h : Inv w) : Good w (stepR w (.nbrFree rid)) := by
  simp only [stepR]
  cases hf : w.readers.find? (fun x => x.id == rid) with
  | none =>
    have : netbufReadFree w rid = none := by simp only [netbufReadFree, hf]
    rw [this]; exact good_same h _
  | some r =>
    obtain ⟨hr, hid⟩ := find_key (fun x : Reader => x.id) hf
    subst hid
    obtain ⟨hbusy, hidle⟩ := netbufReadFree_spec w r h.toInv0 hr
    by_cases hb : r.readCookie.isSome = true ∨ r.immediate = true
    · rw [hbusy hb]; exact good_same h _
    · have h1 : r.readCookie = none := by
        cases hq : r.readCookie with
        | none => rfl
        | some c => exact absurd (Or.inl (by rw [hq]; rfl)) hb
      have h2 : r.immediate = false := by
        cases hq : r.immediate with
        | false => rfl
        | true => exact absurd (Or.inr hq) hb
      obtain ⟨w', hcall, hi, hn, hrf, hff, ht⟩ := hidle h1 h2
      rw [hcall]
      refine good_some hi ?_ (step_of_eq hn hrf hff)
      rw [ht]
      exact refs_reader_remove h.refs h.owns.nodupE hr

theorem good_nbwReserve (w : World) (wid len : Nat) (h : Inv w) : Good w (stepR w (.nbwReserve wid len)) := by
  show Good w (netbufWriteReserve w wid len)
  cases hf : w.writers.find? (fun x => x.id == wid) with
  | none =>
    have : netbufWriteReserve w wid len = (.contract, w) := by simp only [netbufWriteReserve, hf]
    rw [this]; exact good_same h _
  | some x =>
    obtain ⟨hx, hid⟩ := find_key (fun x : Writer => x.id) hf
    subst hid
    obtain ⟨hi, hs, _, hcon, hfail, hok⟩ := netbufWriteReserve_spec w x len h.toInv0 hx
    refine ⟨⟨hi, ?_⟩, hs, hcon⟩
    cases hrc : (netbufWriteReserve w x.id len).1 with
    | contract => rw [hcon hrc]; exact h.refs
    | fail => rw [(hfail hrc).1.tables]; exact h.refs
    | ok =>
      obtain ⟨_, q, _, _, ht⟩ := hok hrc
      rw [ht]
      exact refs_updWriter_same h.refs h.owns.nodupE hx rfl rfl rfl

/-- the two ways `netbuf_write_consume` / `netbuf_write_write` leave the tables -/
theorem refs_poke {w w' : World} (h : Inv w) (hi : Inv0 w') {x : Writer} (hx : x ∈ w.writers)
    (hex : ∃ x' : Writer, x'.id = x.id ∧ x'.fd = x.fd ∧ x'.reserved = false ∧ x'.failed = x.failed ∧
        ((x'.curr = x.curr ∧ tables w' = { tables w with writers := updWriter w.writers x' } ∧
            registry w'.ev = registry w.ev) ∨
         (x.curr = none ∧ (∃ wb c, x'.curr = some (wb, c) ∧
            tables w' = { tables w with writers := updWriter w.writers x', writes := ⟨c, x.fd⟩ :: w.writes })))) :
    Refs (tables w') := by
  obtain ⟨x', hid, hfd, _, _, hcase⟩ := hex
  rcases hcase with ⟨hc, ht, _⟩ | ⟨_, wb, c, hc, ht⟩
  · rw [ht]; exact refs_updWriter_same h.refs h.owns.nodupE hx hid hfd hc
  · have hnd' := (tables_nodup hi.owns.nodupE).2.1
    rw [ht] at hnd'
    simp only [List.map_cons, List.nodup_cons] at hnd'
    rw [ht]
    exact refs_updWriter_some h.refs h.owns.nodupE hx hid hfd hc hnd'.1

theorem good_nbwConsume (w : World) (wid len : Nat) (h : Inv w) : Good w (stepR w (.nbwConsume wid len)) := by
  show Good w (netbufWriteConsume w wid len)
  cases hf : w.writers.find? (fun x => x.id == wid) with
  | none =>
    have : netbufWriteConsume w wid len = (.contract, w) := by simp only [netbufWriteConsume, hf]
    rw [this]; exact good_same h _
  | some x =>
    obtain ⟨hx, hid⟩ := find_key (fun x : Writer => x.id) hf
    subst hid
    obtain ⟨hi, hs, _, hcon, hrest, _⟩ := netbufWriteConsume_spec w x len h.toInv0 hx (h.refs.wrRef x hx)
    refine ⟨⟨hi, ?_⟩, hs, hcon⟩
    by_cases hrc : (netbufWriteConsume w x.id len).1 = .contract
    · rw [hcon hrc]; exact h.refs
    · obtain ⟨x', h1, h2, h3, h4, hcase⟩ := hrest hrc
      refine refs_poke h hi hx ⟨x', h1, h2, h3, h4, ?_⟩
      rcases hcase with hc | ⟨hc1, _, hc2⟩
      · exact Or.inl hc
      · exact Or.inr ⟨hc1, hc2⟩

theorem good_nbwWrite (w : World) (wid len : Nat) (h : Inv w) : Good w (stepR w (.nbwWrite wid len)) := by
  show Good w (netbufWriteWrite w wid len)
  cases hf : w.writers.find? (fun x => x.id == wid) with
  | none =>
    have : netbufWriteWrite w wid len = (.contract, w) := by simp only [netbufWriteWrite, hf]
    rw [this]; exact good_same h _
  | some x =>
    obtain ⟨hx, hid⟩ := find_key (fun x : Writer => x.id) hf
    subst hid
    obtain ⟨hi, hs, hfl, _, hcon, hrest, _⟩ := netbufWriteWrite_spec w x len h.toInv0 hx (h.refs.wrRef x hx)
    cases hfailed : x.failed with
    | true => rw [hfl hfailed]; exact good_same h _
    | false =>
      refine ⟨⟨hi, ?_⟩, hs, hcon⟩
      by_cases hrc : (netbufWriteWrite w x.id len).1 = .contract
      · rw [hcon hrc]; exact h.refs
      · obtain ⟨x', h1, h2, h3, h4, hcase⟩ := hrest hfailed hrc
        refine refs_poke h hi hx ⟨x', h1, h2, h3, by rw [h4, hfailed], ?_⟩
        rcases hcase with hc | ⟨hc1, _, hc2⟩
        · exact Or.inl hc
        · exact Or.inr ⟨hc1, hc2⟩

theorem good_nbwFree (w : World) (wid : Nat) (h : Inv w) : Good w (stepR w (.nbwFree wid)) := by
  simp only [stepR]
  cases hf : w.writers.find? (fun x => x.id == wid) with
  | none =>
    have : netbufWriteFree w wid = none := by simp only [netbufWriteFree, hf]
    rw [this]; exact good_same h _
  | some x =>
    obtain ⟨hx, hid⟩ := find_key (fun x : Writer => x.id) hf
    subst hid
    obtain ⟨w', hcall, hi, hs, ht⟩ := netbufWriteFree_spec w x h.toInv0 hx (h.refs.wrRef x hx)
    rw [hcall]
    refine good_some hi ?_ hs
    rw [ht]
    exact refs_writer_remove h.refs h.owns.nodupE hx

theorem good_httpCancel (w : World) (c : Nat) (h : Inv w) : Good w (stepR w (.httpCancel c)) := by
  simp only [stepR]
  cases hf : w.https.find? (fun x => x.cookie == c) with
  | none =>
    have : httpRequestCancel w c = none := by simp only [httpRequestCancel, hf]
    rw [this]; exact good_same h _
  | some x =>
    obtain ⟨hx, hid⟩ := find_key (fun x : Http => x.cookie) hf
    subst hid
    obtain ⟨w', hcall, hi, hs, ht⟩ := httpRequestCancel_spec w x h.toInv0 hx (h.refs.htRef x hx)
    rw [hcall]
    refine good_some hi ?_ hs
    rw [ht]
    exact refs_http_remove h.refs h.owns.nodupE hx

theorem good_stepR (w : World) (op : Op) (h : Inv w) : Good w (stepR w op) := by
  cases op with
  | read fd => exact good_read w fd h
  | readCancel c => exact good_readCancel w c h
  | write fd => exact good_write w fd h
  | writeCancel c => exact good_writeCancel w c h
  | accept fd => exact good_accept w fd h
  | acceptCancel c => exact good_acceptCancel w c h
  | connect a t s => exact good_connect w a t s h
  | connectCancel c => exact good_connectCancel w c h
  | nbrInit fd => exact good_nbrInit w fd h
  | nbrWait r len => exact good_nbrWait w r len h
  | nbrCancel r => exact good_nbrCancel w r h
  | nbrFree r => exact good_nbrFree w r h
  | nbwInit fd => exact good_nbwInit w fd h
  | nbwReserve x len => exact good_nbwReserve w x len h
  | nbwConsume x len => exact good_nbwConsume w x len h
  | nbwWrite x len => exact good_nbwWrite w x len h
  | nbwFree x => exact good_nbwFree w x h
  | http a l s => exact good_http w a l s h
  | httpCancel c => exact good_httpCancel w c h
  | https a l s hl => exact good_https w a l s hl h

end Run

/-- every call keeps the invariant, the references between objects included -/
theorem stepR_inv (w : World) (op : Op) (h : Inv w) : Inv (stepR w op).2 := (Run.good_stepR w op h).1

/-- every call moves the oracle forward only -/
theorem stepR_step (w : World) (op : Op) (h : Inv w) : Step w.m (stepR w op).2.m := (Run.good_stepR w op h).2.1

/-- a call outside the usage contract is not made: the world is as it was -/
theorem stepR_contract (w : World) (op : Op) (h : Inv w) (hc : (stepR w op).1 = .contract) : (stepR w op).2 = w :=
  (Run.good_stepR w op h).2.2 hc

theorem step_inv (w : World) (op : Op) (h : Inv w) : Inv (step w op) := by
  rw [step_eq]; exact stepR_inv w op h

theorem run_inv (w : World) (ops : List Op) (h : Inv w) : Inv (run w ops) := by
  induction ops generalizing w with
  | nil => exact h
  | cons op rest ih => exact ih (step w op) (step_inv w op h)

theorem run_step (w : World) (ops : List Op) (h : Inv w) : Step w.m (run w ops).m := by
  induction ops generalizing w with
  | nil => exact Step.refl _
  | cons op rest ih =>
    have h1 : Step w.m (step w op).m := by rw [step_eq]; exact stepR_step w op h
    exact h1.trans (ih (step w op) (step_inv w op h))

/-! ## teardown: every object released with its normal call -/
namespace Run

/-- release calls a reader still needs: cancel the wait if there is one, then free -/
def wt (r : Reader) : Nat := if r.readCookie.isSome || r.immediate then 2 else 1

/-- the number of release calls still needed -/
def mu (t : Tables) : Nat :=
  t.https.length + t.conns.length + t.accepts.length + (t.readers.map wt).sum + t.writers.length +
  t.reads.length + t.writes.length

def noTables : Tables := ⟨[], [], [], [], [], [], []⟩

theorem wt_bounds (l : List Reader) : l.length ≤ (l.map wt).sum ∧ (l.map wt).sum ≤ 2 * l.length := by
  induction l with
  | nil => simp
  | cons a rest ih =>
    have : 1 ≤ wt a ∧ wt a ≤ 2 := by unfold wt; split <;> omega
    simp only [List.map_cons, List.sum_cons, List.length_cons]
    omega

theorem mu_le_objects (w : World) : mu (tables w) ≤ objects w := by
  have := (wt_bounds w.readers).2
  simp only [mu, tables, objects]
  omega

theorem mu_zero {t : Tables} (h : mu t = 0) : t = noTables := by
  have := (wt_bounds t.readers).1
  obtain ⟨a, b, c, d, e, f, g⟩ := t
  simp only [mu] at h this
  have ha : a.length = 0 := by omega
  have hb : b.length = 0 := by omega
  have hc : c.length = 0 := by omega
  have hd : d.length = 0 := by omega
  have he : e.length = 0 := by omega
  have hf : f.length = 0 := by omega
  have hg : g.length = 0 := by omega
  rw [List.length_eq_zero_iff] at ha hb hc hd he hf hg
  subst ha hb hc hd he hf hg
  rfl

theorem nextRelease_none {w : World} (h : nextRelease w = none) : tables w = noTables := by
  unfold nextRelease at h
  split at h
  · cases h
  · split at h
    · cases h
    · split at h
      · cases h
      · split at h
        · cases h
        · split at h
          · cases h
          · split at h
            · cases h
            · split at h
              · cases h
              · simp only [tables, noTables, *]

theorem filter_length_lt {α : Type} (k : α → Nat) {l : List α} {a : α} (ha : a ∈ l) :
    (l.filter (fun y => k y != k a)).length < l.length :=
  List.length_filter_lt_length_iff_exists.2 ⟨a, ha, by simp⟩

theorem dec_http (w : World) (h : Inv w) (x : Http) (rest : List Http) (hw : w.https = x :: rest) :
    mu (tables (step w (.httpCancel x.cookie))) < mu (tables w) := by
  have hx : x ∈ w.https := by rw [hw]; exact List.mem_cons_self
  obtain ⟨w', hcall, _, _, ht⟩ := httpRequestCancel_spec w x h.toInv0 hx (h.refs.htRef x hx)
  have hst : step w (.httpCancel x.cookie) = w' := by simp only [step, hcall, orSame]
  have h1 := filter_length_lt (fun y : Http => y.cookie) hx
  cases hcn : x.conn with
  | none =>
    rw [hcn] at ht; simp only at ht
    rw [hst, ht]; simp only [mu, tables]; omega
  | some c =>
    rw [hcn] at ht; simp only at ht
    have h2 := List.length_filter_le (fun y : Conn => y.cookie != c) w.conns
    rw [hst, ht]; simp only [mu, tables]; omega

theorem dec_conn (w : World) (h : Inv w) (hh : w.https = []) (x : Conn) (rest : List Conn) (hw : w.conns = x :: rest) :
    mu (tables (step w (.connectCancel x.cookie))) < mu (tables w) := by
  have hx : x ∈ w.conns := by rw [hw]; exact List.mem_cons_self
  obtain ⟨w', hcall, _, _, _, _, ht⟩ := networkConnectCancel_spec w x h.toInv0 hx
  have hown : connOwned w x.cookie = false := by simp [connOwned, hh]
  have hst : step w (.connectCancel x.cookie) = w' := by simp [step, hcall, orSame, hown]
  rw [hst, ht]
  have h1 := filter_length_lt (fun y : Conn => y.cookie) hx
  simp only [mu, tables]
  omega

theorem dec_accept (w : World) (h : Inv w) (x : NetReq) (rest : List NetReq) (hw : w.accepts = x :: rest) :
    mu (tables (step w (.acceptCancel x.cookie))) < mu (tables w) := by
  have hx : x ∈ w.accepts := by rw [hw]; exact List.mem_cons_self
  obtain ⟨w', hcall, _, _, _, _, ht, _⟩ := networkAcceptCancel_spec w x h.toInv0 hx
  have hst : step w (.acceptCancel x.cookie) = w' := by simp only [step, hcall, orSame]
  rw [hst, ht]
  have h1 := filter_length_lt (fun y : NetReq => y.cookie) hx
  simp only [mu, tables]
  omega

theorem dec_read (w : World) (h : Inv w) (hh : w.readers = []) (x : NetReq) (rest : List NetReq) (hw : w.reads = x :: rest) :
    mu (tables (step w (.readCancel x.cookie))) < mu (tables w) := by
  have hx : x ∈ w.reads := by rw [hw]; exact List.mem_cons_self
  obtain ⟨w', hcall, _, _, _, ht, _⟩ := networkReadCancel_spec w x h.toInv0 hx
  have hown : readOwned w x.cookie = false := by simp [readOwned, hh]
  have hst : step w (.readCancel x.cookie) = w' := by simp [step, hcall, orSame, hown]
  rw [hst, ht]
  have h1 := filter_length_lt (fun y : NetReq => y.cookie) hx
  simp only [mu, tables]
  omega

theorem dec_write (w : World) (h : Inv w) (hh : w.writers = []) (x : NetReq) (rest : List NetReq) (hw : w.writes = x :: rest) :
    mu (tables (step w (.writeCancel x.cookie))) < mu (tables w) := by
  have hx : x ∈ w.writes := by rw [hw]; exact List.mem_cons_self
  obtain ⟨w', hcall, _, _, _, ht, _⟩ := networkWriteCancel_spec w x h.toInv0 hx
  have hown : writeOwned w x.cookie = false := by simp [writeOwned, hh]
  have hst : step w (.writeCancel x.cookie) = w' := by simp [step, hcall, orSame, hown]
  rw [hst, ht]
  have h1 := filter_length_lt (fun y : NetReq => y.cookie) hx
  simp only [mu, tables]
  omega

theorem dec_writer (w : World) (h : Inv w) (x : Writer) (rest : List Writer) (hw : w.writers = x :: rest) :
    mu (tables (step w (.nbwFree x.id))) < mu (tables w) := by
  have hx : x ∈ w.writers := by rw [hw]; exact List.mem_cons_self
  obtain ⟨w', hcall, _, _, ht⟩ := netbufWriteFree_spec w x h.toInv0 hx (h.refs.wrRef x hx)
  have hst : step w (.nbwFree x.id) = w' := by simp only [step, hcall, orSame]
  have h1 := filter_length_lt (fun y : Writer => y.id) hx
  cases hcn : x.curr with
  | none =>
    rw [hcn] at ht; simp only at ht
    rw [hst, ht]; simp only [mu, tables]; omega
  | some p =>
    obtain ⟨wb, c⟩ := p
    rw [hcn] at ht; simp only at ht
    have h2 := List.length_filter_le (fun y : NetReq => y.cookie != c) w.writes
    rw [hst, ht]; simp only [mu, tables]; omega

theorem dec_readerFree (w : World) (h : Inv w) (x : Reader) (rest : List Reader) (hw : w.readers = x :: rest)
    (hidle : (x.readCookie.isSome || x.immediate) = false) :
    mu (tables (step w (.nbrFree x.id))) < mu (tables w) := by
  have hx : x ∈ w.readers := by rw [hw]; exact List.mem_cons_self
  have h1 : x.readCookie = none := by
    cases hq : x.readCookie with
    | none => rfl
    | some c => rw [hq] at hidle; simp at hidle
  have h2 : x.immediate = false := by
    cases hq : x.immediate with
    | false => rfl
    | true => rw [hq] at hidle; simp at hidle
  obtain ⟨w', hcall, _, _, _, _, ht⟩ := (netbufReadFree_spec w x h.toInv0 hx).2 h1 h2
  have hst : step w (.nbrFree x.id) = w' := by simp only [step, hcall, orSame]
  rw [hst, ht]
  have hp := ((perm_filter_key (fun r : Reader => r.id) w.readers x hx
    (tables_nodup h.owns.nodupE).2.2.2.2.1).map wt).sum_nat
  have hwt : 1 ≤ wt x := by unfold wt; split <;> omega
  simp only [List.map_cons, List.sum_cons] at hp
  simp only [mu, tables]
  omega

theorem dec_readerCancel (w : World) (h : Inv w) (x : Reader) (rest : List Reader) (hw : w.readers = x :: rest)
    (hbusy : (x.readCookie.isSome || x.immediate) = true) :
    mu (tables (step w (.nbrCancel x.id))) < mu (tables w) := by
  have hx : x ∈ w.readers := by rw [hw]; exact List.mem_cons_self
  obtain ⟨w', hcall, _, _, ht⟩ := netbufReadWaitCancel_spec w x h.toInv0 hx (h.refs.rdRef x hx)
  have hst : step w (.nbrCancel x.id) = w' := by simp only [step, hcall, orSame]
  have hnd := (tables_nodup h.owns.nodupE).2.2.2.2.1
  have hp := ((perm_filter_key (fun r : Reader => r.id) w.readers x hx hnd).map wt).sum_nat
  have hp' := ((upd_perm (fun r : Reader => r.id) w.readers x { x with readCookie := none, immediate := false }
    hnd hx rfl).map wt).sum_nat
  have hwt : wt x = 2 := by unfold wt; rw [hbusy]; rfl
  have hwt' : wt { x with readCookie := none, immediate := false } = 1 := rfl
  simp only [List.map_cons, List.sum_cons, hwt, hwt'] at hp hp'
  have hupd : updReader w.readers { x with readCookie := none, immediate := false } =
      upd (fun r : Reader => r.id) w.readers { x with readCookie := none, immediate := false } := rfl
  cases hcn : x.readCookie with
  | none =>
    rw [hcn] at ht; simp only at ht
    rw [hst, ht]; simp only [mu, tables, hupd]; omega
  | some c =>
    rw [hcn] at ht; simp only at ht
    have h2 := List.length_filter_le (fun y : NetReq => y.cookie != c) w.reads
    rw [hst, ht]; simp only [mu, tables, hupd]; omega

/-- the release call `nextRelease` chooses is applicable and brings the end nearer -/
theorem rel_dec (w : World) (h : Inv w) (op : Op) (hop : nextRelease w = some op) :
    mu (tables (step w op)) < mu (tables w) := by
  unfold nextRelease at hop
  cases h1 : w.https with
  | cons x rest =>
    rw [h1] at hop; simp only [Option.some.injEq] at hop; subst hop
    exact dec_http w h x rest h1
  | nil =>
  rw [h1] at hop; simp only at hop
  cases h2 : w.conns with
  | cons x rest =>
    rw [h2] at hop; simp only [Option.some.injEq] at hop; subst hop
    exact dec_conn w h h1 x rest h2
  | nil =>
  rw [h2] at hop; simp only at hop
  cases h3 : w.accepts with
  | cons x rest =>
    rw [h3] at hop; simp only [Option.some.injEq] at hop; subst hop
    exact dec_accept w h x rest h3
  | nil =>
  rw [h3] at hop; simp only at hop
  cases h4 : w.readers with
  | cons x rest =>
    rw [h4] at hop; simp only [Option.some.injEq] at hop; subst hop
    cases hb : (x.readCookie.isSome || x.immediate) with
    | true => simp only [if_true]; exact dec_readerCancel w h x rest h4 hb
    | false => simp only [Bool.false_eq_true, if_false]; exact dec_readerFree w h x rest h4 hb
  | nil =>
  rw [h4] at hop; simp only at hop
  cases h5 : w.writers with
  | cons x rest =>
    rw [h5] at hop; simp only [Option.some.injEq] at hop; subst hop
    exact dec_writer w h x rest h5
  | nil =>
  rw [h5] at hop; simp only at hop
  cases h6 : w.reads with
  | cons x rest =>
    rw [h6] at hop; simp only [Option.some.injEq] at hop; subst hop
    exact dec_read w h h4 x rest h6
  | nil =>
  rw [h6] at hop; simp only at hop
  cases h7 : w.writes with
  | cons x rest =>
    rw [h7] at hop; simp only [Option.some.injEq] at hop; subst hop
    exact dec_write w h h5 x rest h7
  | nil => rw [h7] at hop; cases hop

theorem teardownN_spec : ∀ (n : Nat) (w : World), Inv w → mu (tables w) ≤ n →
    Inv (teardownN n w) ∧ tables (teardownN n w) = noTables ∧ Step w.m (teardownN n w).m
  | 0, w, h, hn => ⟨h, mu_zero (Nat.le_zero.1 hn), Step.refl _⟩
  | n + 1, w, h, hn => by
    unfold teardownN
    cases hop : nextRelease w with
    | none => exact ⟨h, nextRelease_none hop, Step.refl _⟩
    | some op =>
      simp only
      have hd := rel_dec w h op hop
      have hi := step_inv w op h
      have hs : Step w.m (step w op).m := by rw [step_eq]; exact stepR_step w op h
      obtain ⟨a, b, c⟩ := teardownN_spec n (step w op) hi (by omega)
      exact ⟨a, b, hs.trans c⟩

end Run

/-- every object released with its normal call: nothing is left -/
theorem teardown_spec (w : World) (h : Inv w) :
    Inv (teardown w) ∧ tables (teardown w) = ⟨[], [], [], [], [], [], []⟩ ∧ Step w.m (teardown w).m :=
  Run.teardownN_spec (objects w) w h (Run.mu_le_objects w)

end Percival.Proofs.AllocFailUpper
