import Percival.Model.Crc32c
import Percival.Proofs.CrcPoly
/-! The 32-bit reflected shift register of `alg/crc32c.c` and the list shift register of
`Proofs/CrcPoly.lean` (helper lemmas for C01). -/
namespace Percival.Proofs.CrcWord
open Percival.Spec Percival.Spec.Crc32c Percival.Proofs.CrcPoly

/-- the Castagnoli polynomial, bit-reversed (coefficient of `x^(31-i)` in bit `i`) -/
def polyR : UInt32 := 0x82F63B78

/-- one step of the reflected register with input bit 0 -/
def step0 (r : UInt32) : UInt32 := if r &&& 1 ≠ 0 then (r >>> 1) ^^^ polyR else r >>> 1

/-- one step with input bit `b` -/
def bitStep (r : UInt32) (b : Bool) : UInt32 := step0 (r ^^^ (if b then 1 else 0))

/-- register contents as polynomial coefficients, highest degree first = bit 0 first -/
def coeffs (r : UInt32) : Poly := (List.range 32).map fun i => r.toNat.testBit i

theorem coeffs_length (r : UInt32) : (coeffs r).length = 32 := by simp [coeffs]

theorem coeffs_getElem (r : UInt32) (i : Nat) (h : i < (coeffs r).length) : (coeffs r)[i] = r.toNat.testBit i := by
  simp [coeffs]

theorem coeffs_shr1 (r : UInt32) : coeffs (r >>> 1) = (coeffs r).tail ++ [false] := by
  apply List.ext_getElem
  · simp [coeffs]
  · intro i h1 h2
    rw [coeffs_getElem]
    have hi : i < 32 := by simpa [coeffs] using h1
    simp only [UInt32.toNat_shiftRight, UInt32.toNat_ofNat, Nat.reducePow, Nat.reduceMod, Nat.testBit_shiftRight]
    by_cases h31 : i < 31
    · rw [List.getElem_append_left (by simp [coeffs]; omega)]
      simp [coeffs, Nat.add_comm]
    · have : i = 31 := by omega
      subst this
      rw [List.getElem_append_right (by simp [coeffs])]
      simp [coeffs]
      exact Nat.testBit_lt_two_pow (by have := r.toNat_lt; omega)

theorem coeffs_xor (a b : UInt32) : coeffs (a ^^^ b) = zx (coeffs a) (coeffs b) := by
  apply List.ext_getElem
  · simp [coeffs, zx]
  · intro i h1 h2
    simp [coeffs, zx, Nat.testBit_xor]

theorem addFront_eq_zx (a g : Poly) (h : a.length = g.length) : addFront a g = zx a g := by
  induction a generalizing g with
  | nil => cases g <;> simp_all [addFront, zx]
  | cons x xs ih =>
    cases g with
    | nil => simp at h
    | cons y ys => simp only [addFront, zx, List.zipWith_cons_cons]; rw [ih ys (by simpa using h)]; rfl

theorem coeffs_polyR : coeffs polyR = castagnoli.tail := by decide

theorem coeffs_zero : coeffs 0 = List.replicate 32 false := by decide

theorem lsb_iff (r : UInt32) : (r &&& 1 ≠ 0) ↔ r.toNat.testBit 0 = true := by
  have e : (r &&& 1).toNat = r.toNat % 2 := by simp [UInt32.toNat_and, Nat.and_one_is_mod]
  rw [Nat.testBit_zero, decide_eq_true_iff]
  constructor
  · intro h
    have : (r &&& 1).toNat ≠ 0 := fun h0 => h (UInt32.toNat_inj.mp (by simpa using h0))
    omega
  · intro h h0
    rw [h0] at e; simp at e; omega

theorem coeffs_step0 (r : UInt32) : coeffs (step0 r) = lstep castagnoli.tail (coeffs r) false := by
  unfold step0 lstep
  have hh : (coeffs r).headD false = r.toNat.testBit 0 := by simp [coeffs, List.range_succ_eq_map]
  simp only [hh, Bool.xor_false]
  by_cases h : r &&& 1 ≠ 0
  · rw [if_pos h]
    simp only [(lsb_iff r).mp h, if_true]
    rw [coeffs_xor, coeffs_shr1, coeffs_polyR, addFront_eq_zx _ _ (by rw [castagnoli_tail_length]; simp [coeffs_length])]
  · have : r.toNat.testBit 0 = false := by
      cases hb : r.toNat.testBit 0
      · rfl
      · exact absurd ((lsb_iff r).mpr hb) h
    rw [if_neg h]
    simp only [this, Bool.false_eq_true, if_false]
    exact coeffs_shr1 r


theorem coeffs_one : coeffs 1 = true :: List.replicate 31 false := by decide

theorem coeffs_bitStep (r : UInt32) (b : Bool) :
    coeffs (bitStep r b) = lstep castagnoli.tail (coeffs r) b := by
  unfold bitStep
  rw [coeffs_step0]
  cases b
  · simp
  · simp only [if_true]
    rw [coeffs_xor, coeffs_one]
    have hl := coeffs_length r
    generalize coeffs r = c at *
    cases c with
    | nil => simp at hl
    | cons x xs =>
      have hx : xs.length = 31 := by simpa using hl
      simp only [zx, List.zipWith_cons_cons]
      have := zx_zeros_right xs
      rw [hx] at this
      unfold zx at this
      rw [this]
      simp [lstep]

/-- the word register run over a bit string is the list register run over it -/
theorem coeffs_fold (bits : List Bool) (r : UInt32) :
    coeffs (bits.foldl bitStep r) = bits.foldl (lstep castagnoli.tail) (coeffs r) := by
  induction bits generalizing r with
  | nil => rfl
  | cons b bs ih => simp only [List.foldl_cons]; rw [ih, coeffs_bitStep]

theorem init_eq : Model.Crc32c.init = bitStep 0 true := by decide

/-- the word register started at `CRC32C_Init`'s value and run over the data bits holds the
    remainder of `(1 ‖ data)·x³²` -/
theorem coeffs_run (data : Bytes) :
    coeffs ((bitsLSB data).foldl bitStep Model.Crc32c.init) = rem data := by
  rw [init_eq, coeffs_fold, coeffs_bitStep, coeffs_zero]
  unfold rem
  have h := reduce_eq_fold_zero castagnoli.tail (by rw [castagnoli_tail_length]; omega) (true :: bitsLSB data)
  rw [castagnoli_tail_length] at h
  rw [h]
  rfl


/-! ### linearity of the register; eight steps at once -/

theorem shr1_xor (a b : UInt32) : (a ^^^ b) >>> 1 = (a >>> 1) ^^^ (b >>> 1) := by
  apply UInt32.toBitVec_inj.mp
  simp only [UInt32.toBitVec_shiftRight, UInt32.toBitVec_xor]
  ext i hi
  simp

theorem step0_eq (r : UInt32) : step0 r = (r >>> 1) ^^^ (if r.toNat.testBit 0 then polyR else 0) := by
  unfold step0
  by_cases h : r &&& 1 ≠ 0
  · rw [if_pos h, (lsb_iff r).mp h]; rfl
  · rw [if_neg h]
    have : r.toNat.testBit 0 = false := by
      cases hb : r.toNat.testBit 0
      · rfl
      · exact absurd ((lsb_iff r).mpr hb) h
    rw [this]; simp

theorem step0_xor (a b : UInt32) : step0 (a ^^^ b) = step0 a ^^^ step0 b := by
  rw [step0_eq, step0_eq a, step0_eq b, shr1_xor]
  simp only [UInt32.toNat_xor, Nat.testBit_xor]
  cases a.toNat.testBit 0 <;> cases b.toNat.testBit 0 <;> simp
  · ac_rfl
  · ac_rfl
  · rw [show a >>> 1 ^^^ polyR ^^^ (b >>> 1 ^^^ polyR) = (polyR ^^^ polyR) ^^^ (a >>> 1 ^^^ b >>> 1) by ac_rfl]
    simp

def A (r : UInt32) : UInt32 := step0 (step0 (step0 (step0 (step0 (step0 (step0 (step0 r)))))))

theorem A_xor (a b : UInt32) : A (a ^^^ b) = A a ^^^ A b := by simp [A, step0_xor]

theorem step0_even (x : UInt32) (h : x.toNat % 2 = 0) : step0 x = x >>> 1 := by
  rw [step0_eq]
  have : x.toNat.testBit 0 = false := by rw [Nat.testBit_zero]; simp [h]
  rw [this]; simp

theorem shr1_toNat (x : UInt32) : (x >>> 1).toNat = x.toNat / 2 := by
  simp [UInt32.toNat_shiftRight, Nat.shiftRight_eq_div_pow]

theorem A_high (x : UInt32) (h : x.toNat % 256 = 0) : A x = x >>> 8 := by
  unfold A
  have n1 := shr1_toNat x
  have n2 := shr1_toNat (x >>> 1)
  have n3 := shr1_toNat (x >>> 1 >>> 1)
  have n4 := shr1_toNat (x >>> 1 >>> 1 >>> 1)
  have n5 := shr1_toNat (x >>> 1 >>> 1 >>> 1 >>> 1)
  have n6 := shr1_toNat (x >>> 1 >>> 1 >>> 1 >>> 1 >>> 1)
  have n7 := shr1_toNat (x >>> 1 >>> 1 >>> 1 >>> 1 >>> 1 >>> 1)
  have n8 := shr1_toNat (x >>> 1 >>> 1 >>> 1 >>> 1 >>> 1 >>> 1 >>> 1)
  rw [step0_even x (by omega), step0_even (x >>> 1) (by omega), step0_even (x >>> 1 >>> 1) (by omega),
    step0_even (x >>> 1 >>> 1 >>> 1) (by omega), step0_even (x >>> 1 >>> 1 >>> 1 >>> 1) (by omega),
    step0_even (x >>> 1 >>> 1 >>> 1 >>> 1 >>> 1) (by omega),
    step0_even (x >>> 1 >>> 1 >>> 1 >>> 1 >>> 1 >>> 1) (by omega),
    step0_even (x >>> 1 >>> 1 >>> 1 >>> 1 >>> 1 >>> 1 >>> 1) (by omega)]
  apply UInt32.toNat_inj.mp
  have n : (x >>> 8).toNat = x.toNat / 256 := by simp [UInt32.toNat_shiftRight, Nat.shiftRight_eq_div_pow]
  omega

theorem mask_split (x m : UInt32) : x = (x &&& m) ^^^ (x &&& ~~~m) := by
  apply UInt32.toBitVec_inj.mp
  simp only [UInt32.toBitVec_xor, UInt32.toBitVec_and, UInt32.toBitVec_not]
  ext i hi
  simp only [BitVec.getElem_xor, BitVec.getElem_and, BitVec.getElem_not]
  cases x.toBitVec[i] <;> cases m.toBitVec[i] <;> rfl

theorem hi_low (x : UInt32) : (x &&& ~~~0xff).toNat % 256 = 0 := by
  have hm : ∀ i, i < 8 → Nat.testBit 4294967040 i = false := by decide
  have e : (x &&& ~~~0xff).toNat = x.toNat &&& 4294967040 := by
    rw [UInt32.toNat_and]; rfl
  rw [e]
  apply Nat.eq_of_testBit_eq
  intro i
  rw [show 256 = 2^8 by rfl, Nat.testBit_mod_two_pow, Nat.testBit_and, Nat.zero_testBit]
  by_cases h : i < 8
  · simp [h, hm i h]
  · simp [h]

theorem hi_shr (x : UInt32) : (x &&& ~~~0xff) >>> 8 = x >>> 8 := by
  have hm : ∀ k, k < 24 → Nat.testBit 4294967040 (8 + k) = true := by decide
  apply UInt32.toNat_inj.mp
  have e : (x &&& ~~~0xff).toNat = x.toNat &&& 4294967040 := by
    rw [UInt32.toNat_and]; rfl
  simp only [UInt32.toNat_shiftRight, e]
  apply Nat.eq_of_testBit_eq
  intro i
  simp only [UInt32.toNat_ofNat, Nat.reducePow, Nat.reduceMod, Nat.testBit_shiftRight, Nat.testBit_and]
  by_cases h : i < 24
  · simp [hm i h]
  · have : x.toNat.testBit (8 + i) = false := Nat.testBit_lt_two_pow (by
      have := x.toNat_lt
      calc x.toNat < 2^32 := this
        _ ≤ 2^(8+i) := Nat.pow_le_pow_right (by omega) (by omega))
    simp [this]

theorem A_split (x : UInt32) : A x = A (x &&& 0xff) ^^^ (x >>> 8) := by
  conv => lhs; rw [mask_split x 0xff]
  rw [A_xor, A_high _ (hi_low x), hi_shr]


/-! ### the tables and the byte / 4-byte steps of `CRC32C_Update` -/

open Percival.Model.Crc32c

set_option maxRecDepth 100000 in
/-- `init()`'s four tables, all 256 entries: `T_k[n]` is `n` pushed through `8(k+1)` register steps -/
theorem tabsL : (List.range 256).map (fun n => entry n) =
    (List.range 256).map (fun n => (A (UInt32.ofNat n), A (A (UInt32.ofNat n)), A (A (A (UInt32.ofNat n))),
      A (A (A (A (UInt32.ofNat n)))))) := by
  decide +kernel

theorem tabs (n : Nat) (h : n < 256) :
    entry n = (A (UInt32.ofNat n), A (A (UInt32.ofNat n)), A (A (A (UInt32.ofNat n))), A (A (A (A (UInt32.ofNat n))))) :=
  List.map_inj_left.mp tabsL n (List.mem_range.mpr h)

set_option maxRecDepth 100000 in
theorem byteBitsL : (List.range 256).map (fun n => (bitsOfByte (UInt8.ofNat n)).foldl bitStep 0) =
    (List.range 256).map (fun n => A (UInt32.ofNat n)) := by
  decide +kernel

theorem byteBits (b : UInt8) : (bitsOfByte b).foldl bitStep 0 = A b.toUInt32 := by
  have := List.map_inj_left.mp byteBitsL b.toNat (List.mem_range.mpr b.toNat_lt)
  simpa using this

/-- a table index as a word -/
def idx (x : UInt32) (b : UInt8) : UInt32 := (x &&& 0xff) ^^^ b.toUInt32

theorem look_T0 (x : UInt32) (b : UInt8) : look T0 x b = A (idx x b) := by
  unfold look T0
  rw [Vector.getElem_ofFn, tabs _ (idx_lt x b)]
  simp [idx]

theorem look_T1 (x : UInt32) (b : UInt8) : look T1 x b = A (A (idx x b)) := by
  unfold look T1
  rw [Vector.getElem_ofFn, tabs _ (idx_lt x b)]
  simp [idx]

theorem look_T2 (x : UInt32) (b : UInt8) : look T2 x b = A (A (A (idx x b))) := by
  unfold look T2
  rw [Vector.getElem_ofFn, tabs _ (idx_lt x b)]
  simp [idx]

theorem look_T3 (x : UInt32) (b : UInt8) : look T3 x b = A (A (A (A (idx x b)))) := by
  unfold look T3
  rw [Vector.getElem_ofFn, tabs _ (idx_lt x b)]
  simp [idx]

/-- "Handle individual bytes": xor the byte into the low end, eight register steps -/
theorem step1_eq (s : UInt32) (b : UInt8) : step1 s b = A (s ^^^ b.toUInt32) := by
  unfold step1
  rw [look_T0, idx, A_xor, A_xor, A_split s]
  ac_rfl

theorem bitStep_lin (r r' : UInt32) (b : Bool) : bitStep (r ^^^ r') b = step0 r ^^^ bitStep r' b := by
  unfold bitStep
  rw [UInt32.xor_assoc, step0_xor]

theorem fold8_lin (r : UInt32) (b0 b1 b2 b3 b4 b5 b6 b7 : Bool) :
    [b0, b1, b2, b3, b4, b5, b6, b7].foldl bitStep r = A r ^^^ [b0, b1, b2, b3, b4, b5, b6, b7].foldl bitStep 0 := by
  have e : ∀ x : UInt32, x = x ^^^ 0 := fun x => by simp
  simp only [List.foldl_cons, List.foldl_nil, A]
  rw [e r, bitStep_lin, bitStep_lin, bitStep_lin, bitStep_lin, bitStep_lin, bitStep_lin, bitStep_lin, bitStep_lin]
  simp

/-- **byte step**: the table-driven byte step is eight bit steps on the byte's bits, LSB first -/
theorem step1_bits (s : UInt32) (b : UInt8) : step1 s b = (bitsOfByte b).foldl bitStep s := by
  rw [step1_eq, A_xor, ← byteBits]
  have : bitsOfByte b = [b.toNat.testBit 0, b.toNat.testBit 1, b.toNat.testBit 2, b.toNat.testBit 3,
      b.toNat.testBit 4, b.toNat.testBit 5, b.toNat.testBit 6, b.toNat.testBit 7] := rfl
  rw [this, fold8_lin s]

theorem shr_8_8 (s : UInt32) : (s >>> 8) >>> 8 = s >>> 16 := by
  apply UInt32.toNat_inj.mp
  simp [UInt32.toNat_shiftRight, Nat.shiftRight_eq_div_pow, Nat.div_div_eq_div_mul]

theorem shr_16_8 (s : UInt32) : (s >>> 16) >>> 8 = s >>> 24 := by
  apply UInt32.toNat_inj.mp
  simp [UInt32.toNat_shiftRight, Nat.shiftRight_eq_div_pow, Nat.div_div_eq_div_mul]

theorem shr_24_8 (s : UInt32) : (s >>> 24) >>> 8 = 0 := by
  apply UInt32.toNat_inj.mp
  simp [UInt32.toNat_shiftRight, Nat.shiftRight_eq_div_pow, Nat.div_div_eq_div_mul]
  have := s.toNat_lt
  omega

/-- **slice-by-4**: one iteration of the 4-byte loop is four byte steps -/
theorem step4_eq (s : UInt32) (b0 b1 b2 b3 : UInt8) :
    step4 s b0 b1 b2 b3 = step1 (step1 (step1 (step1 s b0) b1) b2) b3 := by
  have h1 : A s = A (s &&& 0xff) ^^^ (s >>> 8) := A_split s
  have h2 : A (s >>> 8) = A ((s >>> 8) &&& 0xff) ^^^ (s >>> 16) := by rw [A_split, shr_8_8]
  have h3 : A (s >>> 16) = A ((s >>> 16) &&& 0xff) ^^^ (s >>> 24) := by rw [A_split, shr_16_8]
  have h4 : A (s >>> 24) = A ((s >>> 24) &&& 0xff) := by rw [A_split, shr_24_8]; simp
  have hA4 : A (A (A (A s))) = A (A (A (A (s &&& 0xff)))) ^^^ A (A (A ((s >>> 8) &&& 0xff)))
      ^^^ A (A ((s >>> 16) &&& 0xff)) ^^^ A ((s >>> 24) &&& 0xff) := by
    rw [h1]; simp only [A_xor]; rw [h2]; simp only [A_xor]; rw [h3]; simp only [A_xor]; rw [h4]
    ac_rfl
  unfold step4
  rw [look_T0, look_T1, look_T2, look_T3, step1_eq, step1_eq, step1_eq, step1_eq]
  simp only [idx, A_xor]
  rw [hA4]
  ac_rfl

end Percival.Proofs.CrcWord
