import Percival.Proofs.EArray
import Percival.Model.MPool
/-!
# Helper lemmas for the object-pool model (C12, C14)
-/
namespace Percival.Proofs.MPool
open Percival.Model Percival.Model.MPool Percival.Spec.DS
open Percival.Proofs.EArray

/-- the simulation relation between a pool `p` (under oracle state `m`) and the set `u` of objects in use;
`base` is the number of live blocks that have nothing to do with the pool -/
structure R (p : MP) (m : Mem) (u : List Nat) (base : Int) : Prop where
  nodup : p.stack.Nodup
  unodup : u.Nodup
  disj : ∀ x ∈ p.stack, x ∉ u
  sfresh : ∀ x ∈ p.stack, x < m.n
  ufresh : ∀ x ∈ u, x < m.n
  slen : p.stacklen = p.stack.length
  live : m.live = base + u.length + p.stack.length + (if p.dyn then 1 else 0)

theorem malloc_ok' (p : MP) (sz : Nat) (m : Mem) (u : List Nat) (base : Int) (h : R p m u base) :
    ∃ u', mpAdmit u .malloc (step sz p .malloc m).1 = some u' ∧ R (step sz p .malloc m).2.1 (step sz p .malloc m).2.2 u' base := by
  obtain ⟨hnd, hund, hdisj, hsf, huf, hsl, hlive⟩ := h
  simp only [step, MPool.malloc]
  cases hst : p.stack with
  | cons x rest =>
    rw [hst] at hnd hdisj hsf hlive
    simp only
    have hx : x ∉ u := hdisj x List.mem_cons_self
    refine ⟨x :: u, by simp [mpAdmit, hx], ?_⟩
    have hnd' := List.nodup_cons.1 hnd
    refine ⟨hnd'.2, List.nodup_cons.2 ⟨hx, hund⟩, ?_, fun y hy => hsf y (List.mem_cons_of_mem _ hy), ?_, by simp [hsl, hst], ?_⟩
    · intro y hy hyu
      rcases List.mem_cons.1 hyu with h1 | h1
      · subst h1; exact hnd'.1 hy
      · exact hdisj y (List.mem_cons_of_mem _ hy) h1
    · intro y hy
      rcases List.mem_cons.1 hy with h1 | h1
      · subst h1; exact hsf _ List.mem_cons_self
      · exact huf y h1
    · simp only [List.length_cons] at hlive ⊢; simp only [hlive]; omega
  | nil =>
    rw [hst] at hlive
    simp only
    cases hr : (m.malloc sz).1
    · have hf := malloc_fail hr
      rw [pair_eta _ hr]
      simp only
      refine ⟨u, by simp [mpAdmit, hf.1], ?_⟩
      refine ⟨by simp, hund, by simp, by simp, fun y hy => by rw [hf.2.2.2]; have := huf y hy; omega, by simp [hsl, hst], ?_⟩
      simp only [hf.2.1, hlive]
    · have hf := malloc_ok hr
      rw [pair_eta _ hr]
      simp only
      have hfresh : m.n ∉ u := fun hm => Nat.lt_irrefl _ (huf _ hm)
      refine ⟨m.n :: u, by simp [mpAdmit, hfresh], ?_⟩
      refine ⟨by simp, List.nodup_cons.2 ⟨hfresh, hund⟩, by simp, by simp, ?_, by simp [hsl, hst], ?_⟩
      · intro y hy
        rw [hf.2.2.2]
        rcases List.mem_cons.1 hy with h1 | h1
        · omega
        · have := huf y h1; omega
      · simp only [hf.2.1, hlive, List.length_cons, List.length_nil]; omega

theorem push_R {p : MP} {m : Mem} {u : List Nat} {base : Int} (x : Nat) (h : R p m u base) (hx : x ∈ u)
    {p' : MP} {m' : Mem} (hs : p'.stack = x :: p.stack) (hl : p'.stacklen = p.stacklen + 1)
    (hn : m'.n ≥ m.n) (dy : Bool) (hdy : p'.dyn = dy) (sl : Nat) (hsl' : p'.stack.length = sl)
    (hlive : m'.live = base + (u.erase x).length + sl + (if dy then 1 else 0)) :
    R p' m' (u.erase x) base := by
  obtain ⟨hnd, hund, hdisj, hsf, huf, hsl, _⟩ := h
  subst hdy; subst hsl'
  refine ⟨?_, hund.erase x, ?_, ?_, ?_, by rw [hl, hs, hsl]; rfl, hlive⟩
  · rw [hs]; exact List.nodup_cons.2 ⟨fun hxs => hdisj x hxs hx, hnd⟩
  · intro y hy hyu
    rw [hs] at hy
    rcases List.mem_cons.1 hy with h1 | h1
    · subst h1; exact (List.Nodup.mem_erase_iff hund).1 hyu |>.1 rfl
    · exact hdisj y h1 (List.mem_of_mem_erase hyu)
  · intro y hy
    rw [hs] at hy
    rcases List.mem_cons.1 hy with h1 | h1
    · subst h1; have := huf _ hx; omega
    · have := hsf y h1; omega
  · intro y hy; have := huf y (List.mem_of_mem_erase hy); omega

theorem drop_R {p : MP} {m : Mem} {u : List Nat} {base : Int} (x : Nat) (h : R p m u base)
    {p' : MP} {m' : Mem} (hs : p'.stack = p.stack) (hl : p'.stacklen = p.stacklen)
    (hn : m'.n ≥ m.n) (dy : Bool) (hdy : p'.dyn = dy) (sl : Nat) (hsl' : p'.stack.length = sl)
    (hlive : m'.live = base + (u.erase x).length + sl + (if dy then 1 else 0)) :
    R p' m' (u.erase x) base := by
  obtain ⟨hnd, hund, hdisj, hsf, huf, hsl, _⟩ := h
  subst hdy; subst hsl'
  refine ⟨by rw [hs]; exact hnd, hund.erase x, ?_, ?_, ?_, by rw [hl, hs, hsl], hlive⟩
  · intro y hy hyu; rw [hs] at hy; exact hdisj y hy (List.mem_of_mem_erase hyu)
  · intro y hy; rw [hs] at hy; have := hsf y hy; omega
  · intro y hy; have := huf y (List.mem_of_mem_erase hy); omega

theorem free_ok' (p : MP) (sz : Nat) (x : Nat) (m : Mem) (u : List Nat) (base : Int) (h : R p m u base) (hx : x ∈ u) :
    ∃ u', mpAdmit u (.free x) (step sz p (.free x) m).1 = some u' ∧
      R (step sz p (.free x) m).2.1 (step sz p (.free x) m).2.2 u' base := by
  have hlen : (u.erase x).length = u.length - 1 := List.length_erase_of_mem hx
  have hpos : u.length ≥ 1 := List.length_pos_of_mem hx
  have hlive := h.live
  refine ⟨u.erase x, by simp [mpAdmit, step, hx], ?_⟩
  simp only [step, MPool.free]
  by_cases hroom : p.stacklen < p.allocsize
  · simp only [hroom, if_true]
    refine push_R x h hx rfl rfl (Nat.le_refl _) p.dyn rfl (p.stack.length + 1) rfl ?_
    rw [hlive, hlen]
    by_cases hdy : p.dyn = true
    · rw [if_pos hdy]; omega
    · rw [if_neg hdy]; omega
  · simp only [hroom, if_false]
    cases hd : wantsDouble p
    · simp only [Bool.false_eq_true, if_false]
      refine drop_R x h rfl rfl ?_ p.dyn rfl p.stack.length rfl ?_
      · rw [(free_facts _ _).2.2.2]; omega
      · have e1 := (free_facts m false).2.1
        simp only [Bool.false_eq_true, if_false] at e1
        rw [e1, hlive, hlen]
        by_cases hdy : p.dyn = true
        · rw [if_pos hdy]; omega
        · rw [if_neg hdy]; omega
    · simp only [if_true]
      cases hr : (m.malloc (p.allocsize * 2 * 8 % EArray.SZ)).1
      · have hf := malloc_fail hr
        rw [pair_eta _ hr]
        simp only
        refine drop_R x h rfl rfl ?_ p.dyn rfl p.stack.length rfl ?_
        · rw [(free_facts _ _).2.2.2, hf.2.2.2]; omega
        · have e1 := (free_facts (m.malloc (p.allocsize * 2 * 8 % EArray.SZ)).2 false).2.1
          simp only [Bool.false_eq_true, if_false] at e1
          rw [e1, hf.2.1, hlive, hlen]
          by_cases hdy : p.dyn = true
          · rw [if_pos hdy]; omega
          · rw [if_neg hdy]; omega
      · have hf := malloc_ok hr
        rw [pair_eta _ hr]
        simp only
        refine push_R x h hx rfl rfl ?_ true rfl (p.stack.length + 1) rfl ?_
        · by_cases hdy : p.dyn <;> simp [hdy, (free_facts _ _).2.2.2, hf.2.2.2]
        · have e1 := (free_facts (m.malloc (p.allocsize * 2 * 8 % EArray.SZ)).2 false).2.1
          simp only [Bool.false_eq_true, if_false] at e1
          by_cases hdy : p.dyn = true
          · rw [if_pos hdy] at hlive ⊢
            rw [e1, hf.2.1, hlive, hlen]; simp; omega
          · rw [if_neg hdy] at hlive ⊢
            rw [hf.2.1, hlive, hlen]; simp; omega

theorem foldl_free_live (l : List Nat) (m : Mem) :
    (l.foldl (fun m _ => m.free false) m).live = m.live - l.length ∧
    (l.foldl (fun m _ => m.free false) m).refusals = m.refusals := by
  induction l generalizing m with
  | nil => simp
  | cons x rest ih =>
    simp only [List.foldl_cons, List.length_cons]
    have := ih (m.free false)
    have hf := free_facts m false
    constructor
    · rw [this.1, hf.2.1]; simp; omega
    · rw [this.2, hf.1]

/-- **exit: every cached object (and an allocated stack) is released; only objects in use stay allocated** -/
theorem atexit_spec (p : MP) (m : Mem) (u : List Nat) (base : Int) (h : R p m u base) :
    (atexit p m).1.stack = [] ∧ (atexit p m).1.stacklen = 0 ∧ (atexit p m).2.live = base + u.length := by
  have hlive := h.live
  have hf := foldl_free_live p.stack m
  simp only [atexit]
  refine ⟨by triv, by triv, ?_⟩
  by_cases hd : p.dyn
  · simp only [hd, if_true] at hlive ⊢
    rw [(free_facts _ _).2.1, hf.1, hlive]; simp; omega
  · simp only [hd, Bool.false_eq_true, if_false] at hlive ⊢
    rw [hf.1, hlive]; omega

theorem init_R (size : Nat) (m : Mem) : R (MPool.init size) m [] m.live :=
  ⟨by simp [MPool.init], by simp, by simp [MPool.init], by simp [MPool.init], by simp, rfl, by simp [MPool.init]⟩

/-- the caller only frees objects it holds -/
def Contracts (sz : Nat) (p : MP) (u : List Nat) : List MpOp → Mem → Prop
  | [], _ => True
  | op :: rest, m =>
    (match op with | .free x => x ∈ u | .malloc => True) ∧
    ∀ u', mpAdmit u op (step sz p op m).1 = some u' → Contracts sz (step sz p op m).2.1 u' rest (step sz p op m).2.2

theorem step_ok (sz : Nat) (p : MP) (op : MpOp) (m : Mem) (u : List Nat) (base : Int) (h : R p m u base)
    (hc : match op with | .free x => x ∈ u | .malloc => True) :
    ∃ u', mpAdmit u op (step sz p op m).1 = some u' ∧ R (step sz p op m).2.1 (step sz p op m).2.2 u' base := by
  cases op with
  | malloc => exact malloc_ok' p sz m u base h
  | free x => exact free_ok' p sz x m u base h hc

theorem run_ok (sz : Nat) : ∀ (ops : List MpOp) (p : MP) (m : Mem) (u : List Nat) (base : Int), R p m u base →
    Contracts sz p u ops m →
    ∃ u', mpAdmitAll u (run sz p ops m).1 = some u' ∧ R (run sz p ops m).2.1 (run sz p ops m).2.2 u' base
  | [], p, m, u, base, h, _ => ⟨u, rfl, h⟩
  | op :: rest, p, m, u, base, h, hc => by
    obtain ⟨hc1, hc2⟩ := hc
    obtain ⟨u1, ha, hr⟩ := step_ok sz p op m u base h hc1
    obtain ⟨u2, ha2, hr2⟩ := run_ok sz rest _ _ u1 base hr (hc2 u1 ha)
    simp only [run]
    rcases hst : step sz p op m with ⟨an, p', m'⟩
    rw [hst] at ha ha2 hr2
    simp only at ha ha2 hr2 ⊢
    rcases hrun : run sz p' rest m' with ⟨tr, p'', m''⟩
    rw [hrun] at ha2 hr2
    simp only at ha2 hr2 ⊢
    exact ⟨u2, by simp only [mpAdmitAll, ha]; exact ha2, hr2⟩

end Percival.Proofs.MPool
