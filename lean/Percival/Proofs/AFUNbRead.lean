import Percival.Proofs.AFUNetIO
import Percival.Proofs.AFUConnect
import Percival.Proofs.AFUDefs
/-!
# C14, upper layers: `netbuf_read_init` / `netbuf_read_wait` / `netbuf_read_wait_cancel` / `netbuf_read_free`
-/
namespace Percival.Proofs.AllocFailUpper
open Percival.Model Percival.Model.EvReg Percival.Model.AllocFail
open Percival.Proofs.EvRegNet (regNet netRegistered NetInv)
open Percival.Proofs.EvRegTimer (regImm regTimers TmInv Step Granted)
open Percival.Proofs.EArray (malloc_ok malloc_fail free_facts)

/-! ## the reader table -/

theorem find_reader {l : List Reader} (hnd : (l.map (·.id)).Nodup) {r : Reader} (hr : r ∈ l) :
    l.find? (·.id == r.id) = some r := by
  cases hf : l.find? (·.id == r.id) with
  | none => exact absurd (List.find?_eq_none.1 hf r hr) (by simp)
  | some x =>
    have hx := List.mem_of_find?_eq_some hf
    have hxc : x.id = r.id := by simpa using List.find?_some hf
    exact congrArg some (eq_of_nodup_map (·.id) hnd hx hr hxc)

/-- no reader of the list has this id: nothing to replace, nothing to filter out -/
theorem updReader_absent {l : List Reader} {r' : Reader} (h : ∀ x ∈ l, x.id ≠ r'.id) : updReader l r' = l := by
  unfold updReader
  induction l with
  | nil => rfl
  | cons a rest ih =>
    have ha : (a.id == r'.id) = false := by simpa using h a List.mem_cons_self
    simp only [List.map_cons, ha, Bool.false_eq_true, if_false]
    rw [ih (fun x hx => h x (List.mem_cons_of_mem _ hx))]

theorem filter_reader_absent {l : List Reader} {id : Nat} (h : ∀ x ∈ l, x.id ≠ id) : l.filter (fun x => x.id != id) = l := by
  apply List.filter_eq_self.2
  intro x hx
  simpa using h x hx

theorem updReader_self {l : List Reader} (hnd : (l.map (·.id)).Nodup) {r : Reader} (hr : r ∈ l) : updReader l r = l := by
  unfold updReader
  conv => rhs; rw [← List.map_id l]
  apply List.map_congr_left
  intro x hx
  by_cases hq : x.id = r.id
  · have := eq_of_nodup_map (·.id) hnd hx hr hq
    subst this; simp
  · have : (x.id == r.id) = false := by simpa using hq
    simp [this]

theorem updReader_updReader (l : List Reader) {r1 r2 : Reader} (hid : r2.id = r1.id) :
    updReader (updReader l r1) r2 = updReader l r2 := by
  unfold updReader
  rw [List.map_map]
  apply List.map_congr_left
  intro x _
  simp only [Function.comp]
  by_cases hq : x.id = r1.id
  · simp [hq, hid]
  · have : (x.id == r1.id) = false := by simpa using hq
    simp [this, hid]

/-- replacing the reader `r` by `r'` (same id): the table is `r'` and the others -/
theorem updReader_perm : ∀ {l : List Reader}, (l.map (·.id)).Nodup → ∀ {r r' : Reader}, r ∈ l → r'.id = r.id →
    (updReader l r').Perm (r' :: l.filter (fun x => x.id != r.id))
  | [], _, _, _, hr, _ => by simp at hr
  | a :: rest, hnd, r, r', hr, hid => by
    simp only [List.map_cons, List.nodup_cons] at hnd
    rcases List.mem_cons.1 hr with rfl | hr'
    · have habs : ∀ x ∈ rest, x.id ≠ r.id := fun x hx he => hnd.1 (he ▸ List.mem_map_of_mem hx)
      have h1 : updReader (r :: rest) r' = r' :: rest := by
        have := updReader_absent (l := rest) (r' := r') (by rw [hid]; exact habs)
        unfold updReader at this ⊢
        rw [List.map_cons, this]
        simp only [hid, beq_self_eq_true, if_true]
      rw [h1]
      simp only [List.filter_cons, bne_self_eq_false, Bool.false_eq_true, if_false]
      rw [filter_reader_absent habs]
    · have hne : a.id ≠ r.id := fun he => hnd.1 (he ▸ List.mem_map_of_mem hr')
      have hb : (a.id == r'.id) = false := by rw [hid]; simpa using hne
      have hb2 : (a.id != r.id) = true := by simpa using hne
      have h1 : updReader (a :: rest) r' = a :: updReader rest r' := by
        unfold updReader
        simp only [List.map_cons, hb, Bool.false_eq_true, if_false]
      rw [h1]
      simp only [List.filter_cons, hb2, if_true]
      exact ((updReader_perm hnd.2 hr' hid).cons a).trans (List.Perm.swap r' a _)

/-- the tables without the reader `id` -/
def dropReader (t : Tables) (id : Nat) : Tables := { t with readers := t.readers.filter (fun x => x.id != id) }

theorem expLive_upd {t : Tables} (h : ((expLive t).map (·.1)).Nodup) {r r' : Reader} (hr : r ∈ t.readers) (hid : r'.id = r.id) :
    (expLive { t with readers := updReader t.readers r' }).Perm
      ((r.id, Site.nbrStruct) :: (r'.buf, Site.nbrBuf) :: expLive (dropReader t r.id)) := by
  have := (expLive_perm (t := { t with readers := updReader t.readers r' })
    (t' := { t with readers := r' :: t.readers.filter (fun x => x.id != r.id) })
    (.refl _) (.refl _) (.refl _) (.refl _) (updReader_perm (tables_nodup h).2.2.2.2.1 hr hid) (.refl _) (.refl _)).trans
    (expLive_cons_readers (dropReader t r.id) r')
  rw [hid] at this; exact this

theorem expImm_upd {t : Tables} (h : ((expLive t).map (·.1)).Nodup) {r r' : Reader} (hr : r ∈ t.readers) (hid : r'.id = r.id) :
    (expImm { t with readers := updReader t.readers r' }).Perm
      ((if r'.immediate then [r.id] else []) ++ expImm (dropReader t r.id)) := by
  have := (expImm_perm (t := { t with readers := updReader t.readers r' })
    (t' := { t with readers := r' :: t.readers.filter (fun x => x.id != r.id) })
    (.refl _) (updReader_perm (tables_nodup h).2.2.2.2.1 hr hid)).trans
    (expImm_cons_readers (dropReader t r.id) r')
  rw [hid] at this; exact this

theorem tables_setReader (w : World) (r' : Reader) :
    tables (setReader w r') = { tables w with readers := updReader w.readers r' } := rfl

/-- changing fields of a reader that neither the block accounting nor the registrations read -/
theorem inv0_setReader (w : World) (r r' : Reader) (h : Inv0 w) (hr : r ∈ w.readers) (hid : r'.id = r.id)
    (hbuf : r'.buf = r.buf) (himm : r'.immediate = r.immediate) : Inv0 (setReader w r') := by
  obtain ⟨a1, a2, a3, a4, a5, a6, a7, a8, a9, a10, a11, a12⟩ := h
  have hL : (expLive (tables w)).Perm (expLive (tables (setReader w r'))) := by
    rw [tables_setReader]
    have e1 := expLive_filter_readers (t := tables w) a5.nodupE hr
    have e2 := expLive_upd (t := tables w) a5.nodupE hr hid
    rw [hbuf] at e2
    exact e1.trans e2.symm
  have hI : (expImm (tables w)).Perm (expImm (tables (setReader w r'))) := by
    rw [tables_setReader]
    have e1 := expImm_filter_readers (t := tables w) a5.nodupE hr
    have e2 := expImm_upd (t := tables w) a5.nodupE hr hid
    rw [himm] at e2
    exact e1.trans e2.symm
  exact ⟨a1, a2, a3, a4, a5.perm hL, a6, a7, a8, a9, a10, a11.trans hI, a12⟩

theorem readers_setReader (w : World) (r' : Reader) : (setReader w r').readers = updReader w.readers r' := rfl

/-- the replaced reader is in the table -/
theorem mem_updReader {l : List Reader} {r r' : Reader} (hr : r ∈ l) (hid : r'.id = r.id) : r' ∈ updReader l r' := by
  unfold updReader
  exact List.mem_map.2 ⟨r, hr, by simp [hid]⟩

/-! ## `netbuf_read_init` -/

theorem netbufReadInit_spec (w : World) (fd : Nat) (h : Inv0 w) :
    Inv0 (netbufReadInit w fd).2 ∧ Step w.m (netbufReadInit w fd).2.m ∧
    ((netbufReadInit w fd).1 = none → Same w (netbufReadInit w fd).2 ∧ w.m.refusals < (netbufReadInit w fd).2.m.refusals) ∧
    (∀ x, (netbufReadInit w fd).1 = some x → ∃ b,
        (netbufReadInit w fd).2.live = ⟨b, .nbrBuf, Gen.Netbuf.rbufInit⟩ :: ⟨x, .nbrStruct, nbrStructSize⟩ :: w.live ∧
        tables (netbufReadInit w fd).2 =
          { tables w with readers := ⟨x, b, fd, Gen.Netbuf.rbufInit, 0, 0, 0, none, false⟩ :: w.readers } ∧
        (netbufReadInit w fd).2.m.refusals = w.m.refusals) := by
  unfold netbufReadInit
  rcases ha : alloc w .nbrStruct nbrStructSize with ⟨o, w1⟩
  cases o with
  | none =>
    obtain ⟨rfl, hm⟩ := alloc_none ha
    have hf := malloc_fail hm
    have hs := EvRegTimer.step_malloc w.m nbrStructSize
    simp only
    exact ⟨inv0_mem h _ hs.n hf.2.1, hs, fun _ => ⟨⟨rfl, rfl, rfl, rfl⟩, by rw [hf.1]; omega⟩, fun c hc => (by cases hc)⟩
  | some x =>
    obtain ⟨rfl, rfl, hm⟩ := alloc_some ha
    have hok := malloc_ok hm
    have hs1 := EvRegTimer.step_malloc w.m nbrStructSize
    simp only
    generalize hm1 : (w.m.malloc nbrStructSize).2 = m1 at *
    rcases ha2 : alloc { w with m := m1, live := ⟨w.m.n, .nbrStruct, nbrStructSize⟩ :: w.live } .nbrBuf Gen.Netbuf.rbufInit with ⟨o2, w2⟩
    have hs2 := EvRegTimer.step_malloc m1 Gen.Netbuf.rbufInit
    cases o2 with
    | none =>
      obtain ⟨rfl, hm2⟩ := alloc_none ha2
      have hf2 := malloc_fail hm2
      simp only at hm2 hf2 ⊢
      have hfind : findId (⟨w.m.n, .nbrStruct, nbrStructSize⟩ :: w.live) w.m.n =
          some ⟨w.m.n, .nbrStruct, nbrStructSize⟩ := by simp [findId]
      have hfr := free_facts (m1.malloc Gen.Netbuf.rbufInit).2 false
      simp only [release, hfind, eraseId, beq_self_eq_true, if_true]
      refine ⟨?_, (hs1.trans hs2).trans (EvRegTimer.step_free _ _), fun _ => ⟨⟨rfl, rfl, rfl, rfl⟩, ?_⟩, fun c hc => (by cases hc)⟩
      · refine inv0_frame h ?_ rfl ?_ rfl rfl rfl rfl rfl rfl ?_
        · exact evOk_step h.ev ((hs1.trans hs2).trans (EvRegTimer.step_free _ _)).n
        · exact ((hs1.trans hs2).trans (EvRegTimer.step_free _ _)).n
        · show ((m1.malloc Gen.Netbuf.rbufInit).2.free false).live = _
          rw [hfr.2.1, hf2.2.1, hok.2.1]
          have := h.acct
          simp only [Bool.false_eq_true, if_false]; omega
      · show w.m.refusals < ((m1.malloc Gen.Netbuf.rbufInit).2.free false).refusals
        rw [hfr.1, hf2.1, hok.1]; omega
    | some b =>
      obtain ⟨rfl, rfl, hm2⟩ := alloc_some ha2
      have hok2 := malloc_ok hm2
      simp only at hm2 hok2 ⊢
      refine ⟨?_, hs1.trans hs2, fun hc => (by cases hc), ?_⟩
      · obtain ⟨a1, a2, a3, a4, a5, a6, a7, a8, a9, a10, a11, a12⟩ := h
        have hn1 : m1.n = w.m.n + 1 := hok.2.2.2
        have hn2 : (m1.malloc Gen.Netbuf.rbufInit).2.n = w.m.n + 2 := by rw [hok2.2.2.2, hn1]
        refine ⟨evOk_step a1 (hs1.trans hs2).n, a2, ?_, ?_, ?_, a6, a7, a8, a9, a10, ?_, ?_⟩
        · intro b hb
          show b.id < (m1.malloc Gen.Netbuf.rbufInit).2.n
          rw [hn2]
          simp only [List.cons_append, List.mem_cons] at hb
          rcases hb with rfl | rfl | hb
          · show m1.n < _; omega
          · show w.m.n < _; omega
          · have := a3 b hb; omega
        · simp only [List.cons_append, List.map_cons, List.nodup_cons, List.mem_cons, not_or]
          refine ⟨⟨by omega, fun hmem => ?_⟩, fun hmem => ?_, a4⟩
          · obtain ⟨b, hb, hid⟩ := List.mem_map.1 hmem
            have := a3 b hb; omega
          · obtain ⟨b, hb, hid⟩ := List.mem_map.1 hmem
            have := a3 b hb; omega
        · have o1 := Owns.cons a5 ⟨w.m.n, .nbrStruct, nbrStructSize⟩ (by
            intro hmem
            obtain ⟨b, hb, hid⟩ := List.mem_map.1 hmem
            have := a3 b (List.mem_append_left _ hb)
            simp only at hid; omega)
          have o2 := Owns.cons o1 ⟨m1.n, .nbrBuf, Gen.Netbuf.rbufInit⟩ (by
            intro hmem
            simp only [List.map_cons, List.mem_cons] at hmem
            rcases hmem with hmem | hmem
            · omega
            · obtain ⟨b, hb, hid⟩ := List.mem_map.1 hmem
              have := a3 b (List.mem_append_left _ hb)
              omega)
          exact o2.perm ((List.Perm.swap _ _ _).trans
            (expLive_cons_readers (tables w) ⟨w.m.n, m1.n, fd, Gen.Netbuf.rbufInit, 0, 0, 0, none, false⟩).symm)
        · exact a11.trans (by
            have := (expImm_cons_readers (tables w) ⟨w.m.n, m1.n, fd, Gen.Netbuf.rbufInit, 0, 0, 0, none, false⟩).symm
            simp only [Bool.false_eq_true, if_false, List.nil_append] at this
            exact this)
        · show (m1.malloc Gen.Netbuf.rbufInit).2.live = _
          rw [hok2.2.1, hok.2.1]
          simp only [List.length_cons]; omega
      · intro x hx
        simp only [Option.some.injEq] at hx
        subst hx
        refine ⟨m1.n, rfl, rfl, ?_⟩
        show (m1.malloc Gen.Netbuf.rbufInit).2.refusals = _
        rw [hok2.1, hok.1]

/-! ## `netbuf_read_free` -/

theorem mem_expLive_reader {t : Tables} {r : Reader} (hr : r ∈ t.readers) :
    (r.id, Site.nbrStruct) ∈ expLive t ∧ (r.buf, Site.nbrBuf) ∈ expLive t := by
  simp only [expLive, List.mem_append, List.mem_flatMap]
  exact ⟨Or.inl (Or.inl (Or.inr ⟨r, hr, by simp⟩)), Or.inl (Or.inl (Or.inr ⟨r, hr, by simp⟩))⟩

/-- the two blocks of a reader are live and distinct -/
theorem reader_blocks {w : World} (h : Inv0 w) {r : Reader} (hr : r ∈ w.readers) :
    ∃ bs bb, bs ∈ w.live ∧ key bs = (r.id, Site.nbrStruct) ∧ bb ∈ w.live ∧ key bb = (r.buf, Site.nbrBuf) ∧ r.id ≠ r.buf := by
  obtain ⟨k1, k2⟩ := mem_expLive_reader (t := tables w) hr
  obtain ⟨bs, hbs, hks⟩ := List.mem_map.1 (h.owns.own1 _ k1)
  obtain ⟨bb, hbb, hkb⟩ := List.mem_map.1 (h.owns.own1 _ k2)
  refine ⟨bs, bb, hbs, hks, hbb, hkb, ?_⟩
  have := ((expLive_filter_readers (t := tables w) h.owns.nodupE hr).map (·.1)).nodup_iff.1 h.owns.nodupE
  simp only [List.map_cons, List.nodup_cons, List.mem_cons, not_or] at this
  exact this.1.1

theorem netbufReadFree_spec (w : World) (r : Reader) (h : Inv0 w) (hr : r ∈ w.readers) :
    (r.readCookie.isSome = true ∨ r.immediate = true → netbufReadFree w r.id = none) ∧
    (r.readCookie = none → r.immediate = false →
      ∃ w', netbufReadFree w r.id = some w' ∧ Inv0 w' ∧ w'.m.n = w.m.n ∧ w'.m.refusals = w.m.refusals ∧ w'.m.f = w.m.f ∧
        tables w' = { tables w with readers := w.readers.filter (fun x => x.id != r.id) }) := by
  have hnd : (w.readers.map (·.id)).Nodup := (tables_nodup h.owns.nodupE).2.2.2.2.1
  have hfind := find_reader hnd hr
  refine ⟨fun hb => ?_, fun h1 h2 => ?_⟩
  · have hbusy : (r.readCookie.isSome || r.immediate) = true := by rcases hb with hb | hb <;> simp [hb]
    simp only [netbufReadFree, hfind, hbusy, if_true]
  · have hidle : (r.readCookie.isSome || r.immediate) = false := by simp [h1, h2]
    obtain ⟨bs, bb, hbs, hks, hbb, hkb, hne⟩ := reader_blocks h hr
    have hbsid : bs.id = r.id := congrArg Prod.fst hks
    have hbbid : bb.id = r.buf := congrArg Prod.fst hkb
    have hrel1 : release w r.buf = { w with m := w.m.free false, live := eraseId w.live r.buf } := by
      rw [← hbbid]; exact release_live hbb
    have hbs' : bs ∈ eraseId w.live r.buf := mem_eraseId_of_ne hbs (by rw [hbsid]; exact hne)
    have hrel2 : release { w with m := w.m.free false, live := eraseId w.live r.buf } r.id =
        { w with m := (w.m.free false).free false, live := eraseId (eraseId w.live r.buf) r.id } := by
      rw [← hbsid]; exact release_live (w := { w with m := w.m.free false, live := eraseId w.live r.buf }) hbs'
    simp only [netbufReadFree, hfind, hidle, Bool.false_eq_true, if_false, hrel1, hrel2]
    have hfr1 := free_facts w.m false
    have hfr2 := free_facts (w.m.free false) false
    refine ⟨_, rfl, ?_, by rw [hfr2.2.2.2, hfr1.2.2.2], by rw [hfr2.1, hfr1.1], by rw [hfr2.2.2.1, hfr1.2.2.1], rfl⟩
    obtain ⟨a1, a2, a3, a4, a5, a6, a7, a8, a9, a10, a11, a12⟩ := h
    have hlnd : (w.live.map (·.id)).Nodup := by
      have := a4; rw [List.map_append] at this; exact (List.nodup_append.1 this).1
    have hsub : (eraseId (eraseId w.live r.buf) r.id).Sublist w.live :=
      (eraseId_sublist _ _).trans (eraseId_sublist _ _)
    refine ⟨evOk_step a1 (by rw [hfr2.2.2.2, hfr1.2.2.2]; exact Nat.le_refl _), a2, ?_, ?_, ?_, a6, a7, a8, a9, a10, ?_, ?_⟩
    · intro x hx
      show x.id < ((w.m.free false).free false).n
      rw [hfr2.2.2.2, hfr1.2.2.2]
      rcases List.mem_append.1 hx with hx | hx
      · exact a3 x (List.mem_append_left _ (hsub.subset hx))
      · exact a3 x (List.mem_append_right _ hx)
    · exact a4.sublist ((hsub.append_right _).map _)
    · have o1 := a5.perm ((expLive_filter_readers (t := tables w) a5.nodupE hr).trans (List.Perm.swap _ _ _))
      have o2 := o1.erase hlnd
      exact o2.erase (hlnd.sublist ((eraseId_sublist _ _).map _))
    · have := expImm_filter_readers (t := tables w) a5.nodupE hr
      rw [h2] at this
      simp only [Bool.false_eq_true, if_false, List.nil_append] at this
      exact a11.trans this
    · show ((w.m.free false).free false).live = _
      rw [hfr2.2.1, hfr1.2.1]
      have l1 : (eraseId w.live r.buf).length + 1 = w.live.length := by rw [← hbbid]; exact length_eraseId hbb
      have l2 : (eraseId (eraseId w.live r.buf) r.id).length + 1 = (eraseId w.live r.buf).length := by
        rw [← hbsid]; exact length_eraseId hbs'
      simp only [Bool.false_eq_true, if_false]
      omega

/-! ## `netbuf_read_wait_cancel` -/

theorem reader_imm_registered {w : World} (h : Inv0 w) {r : Reader} (hr : r ∈ w.readers) (hi : r.immediate = true) :
    r.id ∈ (regImm w.ev).flatten := by
  rw [h.regImm.mem_iff]
  simp only [tables, expImm, List.mem_append, List.mem_map, List.mem_filter]
  exact Or.inr ⟨r, ⟨hr, hi⟩, rfl⟩

/-- "If we have an immediate callback pending, cancel it", and the reader is idle again -/
theorem nbrCancelTail_spec (w : World) (r : Reader) (h : Inv0 w) (hr : r ∈ w.readers) :
    Inv0 (setReader (if r.immediate then immediateCancel w r.id else w) { r with readCookie := none, immediate := false }) ∧
    Step w.m (setReader (if r.immediate then immediateCancel w r.id else w) { r with readCookie := none, immediate := false }).m ∧
    tables (setReader (if r.immediate then immediateCancel w r.id else w) { r with readCookie := none, immediate := false }) =
      { tables w with readers := updReader w.readers { r with readCookie := none, immediate := false } } := by
  cases hi : r.immediate with
  | false =>
    simp only [Bool.false_eq_true, if_false]
    exact ⟨inv0_setReader w r _ h hr rfl rfl hi.symm, Step.refl _, rfl⟩
  | true =>
    simp only [if_true]
    obtain ⟨e2, m2, hcan, hri, o1, o2, o3, o4, o5, o6, _, _, _⟩ :=
      EvRegTimer.immCancel_ok w.ev r.id w.m (reader_imm_registered h hr hi)
    have hst := step_immCancel hcan
    have htc : immediateCancel w r.id = setEv w e2 m2 := by simp only [immediateCancel, hcan]
    rw [htc]
    refine ⟨?_, hst, rfl⟩
    obtain ⟨a1, a2, a3, a4, a5, a6, a7, a8, a9, a10, a11, a12⟩ := h
    have hev2 : EvOk e2 m2 := ⟨EvRegNet.netInv_congr _ _ a1.net o3 o4 o5 o6,
      EvRegTimer.tmInv_congr _ _ w.m _ a1.tm o1 o2 hst.n,
      by rw [hri, List.length_map]; exact a1.heads⟩
    have hndI : (regImm w.ev).flatten.Nodup := a11.nodup_iff.2 (expImm_nodup a5.nodupE)
    have hL : (expLive (tables w)).Perm
        (expLive { tables w with readers := updReader w.readers { r with readCookie := none, immediate := false } }) :=
      (expLive_filter_readers (t := tables w) a5.nodupE hr).trans
        (expLive_upd (t := tables w) (r' := { r with readCookie := none, immediate := false }) a5.nodupE hr rfl).symm
    refine ⟨hev2, a2, fun b hb => Nat.lt_of_lt_of_le (a3 b hb) hst.n, a4, a5.perm hL, a6, a7, a8, ?_, ?_, ?_, ?_⟩
    · show (regNet e2).Perm _
      rw [regNet_congr o4]; exact a9
    · show (regTimers e2).Perm _
      rw [regTimers_congr o2]; exact a10
    · show (regImm e2).flatten.Perm
        (expImm { tables w with readers := updReader w.readers { r with readCookie := none, immediate := false } })
      rw [hri, flatten_map_filter]
      have e1 := a11.trans (expImm_filter_readers (t := tables w) a5.nodupE hr)
      rw [hi] at e1
      simp only [if_true, List.cons_append, List.nil_append] at e1
      have e2 := expImm_upd (t := tables w) (r' := { r with readCookie := none, immediate := false }) a5.nodupE hr rfl
      simp only [Bool.false_eq_true, if_false, List.nil_append] at e2
      exact (perm_filter_ne hndI e1).trans e2.symm
    · show m2.live = (w.live.length : Int) + (w.cache.length : Int) + (w.evLive + (m2.live - w.m.live))
      omega

theorem netbufReadWaitCancel_spec (w : World) (r : Reader) (h : Inv0 w) (hr : r ∈ w.readers)
    (href : ∀ c, r.readCookie = some c → ⟨c, r.fd⟩ ∈ w.reads) :
    ∃ w', netbufReadWaitCancel w r.id = some w' ∧ Inv0 w' ∧ Step w.m w'.m ∧
      tables w' = { tables w with
        readers := updReader w.readers { r with readCookie := none, immediate := false },
        reads := match r.readCookie with
          | some c => w.reads.filter (fun x => x.cookie != c)
          | none => w.reads } := by
  have hnd : (w.readers.map (·.id)).Nodup := (tables_nodup h.owns.nodupE).2.2.2.2.1
  have hfind := find_reader hnd hr
  cases hc : r.readCookie with
  | none =>
    obtain ⟨t1, t2, t3⟩ := nbrCancelTail_spec w r h hr
    have heq : netbufReadWaitCancel w r.id =
        some (setReader (if r.immediate then immediateCancel w r.id else w) { r with readCookie := none, immediate := false }) := by
      simp only [netbufReadWaitCancel, hfind, hc]
    exact ⟨_, heq, t1, t2, t3⟩
  | some c =>
    obtain ⟨w1, hcan, hinv1, hst1, _, htab1, _⟩ := networkReadCancel_spec w ⟨c, r.fd⟩ h (href c hc)
    have hrd1 : w1.readers = w.readers := congrArg Tables.readers htab1
    obtain ⟨t1, t2, t3⟩ := nbrCancelTail_spec w1 r hinv1 (by rw [hrd1]; exact hr)
    have heq : netbufReadWaitCancel w r.id =
        some (setReader (if r.immediate then immediateCancel w1 r.id else w1) { r with readCookie := none, immediate := false }) := by
      simp only [netbufReadWaitCancel, hfind, hc, hcan]
    refine ⟨_, heq, t1, hst1.trans t2, ?_⟩
    rw [t3, htab1, hrd1]

/-! ## `netbuf_read_wait`, in three parts -/

/-- "If we have enough data already, schedule a callback." -/
def nbrImm (w : World) (r : Reader) : Rc × World :=
  match immReg w.ev r.id 0 w.m with
  | (true, e', m') => (.ok, setReader (setEv w e' m') { r with immediate := true })
  | (false, e', m') => (.fail, setEv w e' m')

/-- "Resize the buffer if needed." -/
def nbrResize (w : World) (r : Reader) (len : Nat) : Option Reader × World :=
  if r.buflen < len then
    match alloc w .nbrBuf (NetbufRead.newBuflen r.buflen len) with
    | (none, w1) => (none, w1)
    | (some nb, w1) =>
      (some { r with buf := nb, buflen := NetbufRead.newBuflen r.buflen len, datalen := r.datalen - r.bufpos, bufpos := 0 },
       setReader (release w1 r.buf)
         { r with buf := nb, buflen := NetbufRead.newBuflen r.buflen len, datalen := r.datalen - r.bufpos, bufpos := 0 })
  else (some r, w)

/-- the reader as `network_read` is started: data moved to the start of the buffer if needed, `waitlen` set -/
def nbrR3 (r1 : Reader) (len : Nat) : Reader :=
  { (if r1.buflen - r1.bufpos < len then { r1 with datalen := r1.datalen - r1.bufpos, bufpos := 0 } else r1) with waitlen := len }

/-- "Move data to start of buffer if needed.  Read data into the buffer." -/
def nbrStart (w1 : World) (r1 : Reader) (len : Nat) : Rc × World :=
  match networkRead (setReader w1 (nbrR3 r1 len)) (nbrR3 r1 len).fd with
  | (some c, w3) => (.ok, setReader w3 { nbrR3 r1 len with readCookie := some c })
  | (none, w3) => (.fail, w3)

theorem netbufReadWait_eq {w : World} {r : Reader} (len : Nat) (hfind : w.readers.find? (·.id == r.id) = some r)
    (hidle : (r.readCookie.isSome || r.immediate) = false) :
    netbufReadWait w r.id len =
      if r.datalen - r.bufpos ≥ len then nbrImm w r else
        match nbrResize w r len with
        | (none, w1) => (.fail, w1)
        | (some r1, w1) => nbrStart w1 r1 len := by
  simp only [netbufReadWait, hfind, hidle, Bool.false_eq_true, if_false]
  by_cases hl : r.datalen - r.bufpos ≥ len
  · simp only [hl, if_true]; rfl
  · simp only [hl, if_false]
    unfold nbrResize
    by_cases hq : r.buflen < len
    · simp only [hq, if_true]
      rcases alloc w .nbrBuf (NetbufRead.newBuflen r.buflen len) with ⟨o, w1⟩
      cases o <;> rfl
    · simp only [hq, if_false]; rfl

theorem nbrR3_facts (r1 : Reader) (len : Nat) :
    (nbrR3 r1 len).id = r1.id ∧ (nbrR3 r1 len).buf = r1.buf ∧ (nbrR3 r1 len).fd = r1.fd ∧
    (nbrR3 r1 len).readCookie = r1.readCookie ∧ (nbrR3 r1 len).immediate = r1.immediate ∧
    (nbrR3 r1 len).datalen - (nbrR3 r1 len).bufpos = r1.datalen - r1.bufpos ∧
    (len ≤ r1.buflen → len ≤ (nbrR3 r1 len).buflen - (nbrR3 r1 len).bufpos) := by
  unfold nbrR3
  by_cases hq : r1.buflen - r1.bufpos < len
  · rw [if_pos hq]
    exact ⟨rfl, rfl, rfl, rfl, rfl, Nat.sub_zero _, fun hl => hl⟩
  · rw [if_neg hq]
    exact ⟨rfl, rfl, rfl, rfl, rfl, rfl, fun _ => Nat.le_of_not_lt hq⟩

theorem nbr_newBuflen_ge (b len : Nat) : len ≤ NetbufRead.newBuflen b len := by
  unfold NetbufRead.newBuflen
  generalize b * Gen.Netbuf.growFactor = x
  split <;> omega

/-- the immediate path -/
theorem nbrImm_spec (w : World) (r : Reader) (h : Inv0 w) (hr : r ∈ w.readers) (hi : r.immediate = false) :
    Inv0 (nbrImm w r).2 ∧ Step w.m (nbrImm w r).2.m ∧ (nbrImm w r).1 ≠ .contract ∧
    ((nbrImm w r).1 = .fail → registry (nbrImm w r).2.ev = registry w.ev ∧ tables (nbrImm w r).2 = tables w ∧
        w.m.refusals < (nbrImm w r).2.m.refusals) ∧
    ((nbrImm w r).1 = .ok → (nbrImm w r).2.m.refusals = w.m.refusals ∧
        tables (nbrImm w r).2 = { tables w with readers := updReader w.readers { r with immediate := true } }) := by
  unfold nbrImm
  have hmas := EvRegTimer.immReg_master w.ev r.id 0 w.m
  have hev2 := evOk_immReg h.ev r.id
  have hoth := immReg_regs_other w.ev r.id 0 w.m
  have hfu := AllocFail.imm_fail_unchanged w.ev r.id 0 w.m
  have hokr := EvRegTimer.immReg_ok w.ev r.id 0 w.m
  rcases hir : immReg w.ev r.id 0 w.m with ⟨ok, e', m'⟩
  rw [hir] at hmas hev2 hoth hfu hokr
  simp only at hmas hev2 hoth hfu hokr
  obtain ⟨_, hst, hsucc, hfail⟩ := hmas
  cases ok with
  | false =>
    simp only
    exact ⟨inv0_ev h e' m' hev2 (hfu rfl) hst.n, hst, fun hc => (by cases hc), fun _ => ⟨hfu rfl, rfl, hfail rfl⟩,
      fun hc => (by cases hc)⟩
  | true =>
    simp only
    obtain ⟨_, href⟩ := hsucc rfl
    refine ⟨?_, hst, fun hc => (by cases hc), fun hc => (by cases hc), fun _ => ⟨href, rfl⟩⟩
    obtain ⟨a1, a2, a3, a4, a5, a6, a7, a8, a9, a10, a11, a12⟩ := h
    have hL : (expLive (tables w)).Perm
        (expLive { tables w with readers := updReader w.readers { r with immediate := true } }) :=
      (expLive_filter_readers (t := tables w) a5.nodupE hr).trans
        (expLive_upd (t := tables w) (r' := { r with immediate := true }) a5.nodupE hr rfl).symm
    refine ⟨hev2, a2, fun b hb => Nat.lt_of_lt_of_le (a3 b hb) hst.n, a4, a5.perm hL, a6, a7, a8, ?_, ?_, ?_, ?_⟩
    · show (regNet e').Perm _
      rw [hoth.2]; exact a9
    · show (regTimers e').Perm _
      rw [hoth.1]; exact a10
    · show (regImm e').flatten.Perm
        (expImm { tables w with readers := updReader w.readers { r with immediate := true } })
      rw [hokr rfl]
      have e1 := a11.trans (expImm_filter_readers (t := tables w) a5.nodupE hr)
      rw [hi] at e1
      simp only [Bool.false_eq_true, if_false, List.nil_append] at e1
      have e2 := expImm_upd (t := tables w) (r' := { r with immediate := true }) a5.nodupE hr rfl
      simp only [if_true, List.cons_append, List.nil_append] at e2
      exact ((flatten_modify_head _ _ a1.heads).trans (e1.cons _)).trans e2.symm
    · show m'.live = (w.live.length : Int) + (w.cache.length : Int) + (w.evLive + (m'.live - w.m.live))
      omega

/-- the resize step: a refused request changes nothing but the oracle; otherwise the old buffer block is
replaced by the new one -/
theorem nbrResize_spec (w : World) (r : Reader) (len : Nat) (h : Inv0 w) (hr : r ∈ w.readers) :
    Step w.m (nbrResize w r len).2.m ∧ (nbrResize w r len).2.ev = w.ev ∧
    ((nbrResize w r len).1 = none → Inv0 (nbrResize w r len).2 ∧ tables (nbrResize w r len).2 = tables w ∧
        w.m.refusals < (nbrResize w r len).2.m.refusals) ∧
    (∀ r1, (nbrResize w r len).1 = some r1 → Inv0 (nbrResize w r len).2 ∧ r1.id = r.id ∧ r1.fd = r.fd ∧
        r1.datalen - r1.bufpos = r.datalen - r.bufpos ∧ r1.readCookie = r.readCookie ∧ r1.immediate = r.immediate ∧
        len ≤ r1.buflen ∧
        tables (nbrResize w r len).2 = { tables w with readers := updReader w.readers r1 } ∧
        (nbrResize w r len).2.m.refusals = w.m.refusals) := by
  have hnd : (w.readers.map (·.id)).Nodup := (tables_nodup h.owns.nodupE).2.2.2.2.1
  unfold nbrResize
  by_cases hq : r.buflen < len
  · rw [if_pos hq]
    generalize hsz : NetbufRead.newBuflen r.buflen len = sz
    have hszge : len ≤ sz := by rw [← hsz]; exact nbr_newBuflen_ge _ _
    rcases ha : alloc w .nbrBuf sz with ⟨o, w1⟩
    have hs1 := EvRegTimer.step_malloc w.m sz
    cases o with
    | none =>
      obtain ⟨rfl, hm⟩ := alloc_none ha
      have hf := malloc_fail hm
      exact ⟨hs1, rfl, fun _ => ⟨inv0_mem h _ hs1.n hf.2.1, rfl, by show _ < (w.m.malloc sz).2.refusals; rw [hf.1]; omega⟩,
        fun r1 hc => (by cases hc)⟩
    | some nb =>
      obtain ⟨rfl, rfl, hm⟩ := alloc_some ha
      have hok := malloc_ok hm
      obtain ⟨bs, bb, hbs, hks, hbb, hkb, hne⟩ := reader_blocks h hr
      have hbbid : bb.id = r.buf := congrArg Prod.fst hkb
      have hlt : r.buf < w.m.n := by rw [← hbbid]; exact h.fresh bb (List.mem_append_left _ hbb)
      have hlnd := live_nodup h
      have hnq : (w.m.n == r.buf) = false := by simpa using (Nat.ne_of_gt hlt)
      have hfind : findId (⟨w.m.n, .nbrBuf, sz⟩ :: w.live) r.buf = some bb := by
        simp only [findId, List.find?_cons, hnq]
        rw [← hbbid]; exact findId_eq hlnd hbb
      have hers : eraseId (⟨w.m.n, .nbrBuf, sz⟩ :: w.live) r.buf = ⟨w.m.n, .nbrBuf, sz⟩ :: eraseId w.live r.buf := by
        simp only [eraseId, hnq, Bool.false_eq_true, if_false]
      have hfr := free_facts (w.m.malloc sz).2 false
      simp only [release, hfind, hers]
      refine ⟨hs1.trans (EvRegTimer.step_free (w.m.malloc sz).2 false), rfl, fun hc => (by cases hc), ?_⟩
      intro r1 h1
      simp only [Option.some.injEq] at h1
      subst h1
      refine ⟨?_, rfl, rfl, Nat.sub_zero _, rfl, rfl, hszge, rfl, ?_⟩
      · obtain ⟨a1, a2, a3, a4, a5, a6, a7, a8, a9, a10, a11, a12⟩ := h
        have hn2 : ((w.m.malloc sz).2.free false).n = w.m.n + 1 := by rw [hfr.2.2.2, hok.2.2.2]
        have hlen : (eraseId w.live r.buf).length + 1 = w.live.length := by rw [← hbbid]; exact length_eraseId hbb
        refine ⟨evOk_step a1 (by show w.m.n ≤ ((w.m.malloc sz).2.free false).n; rw [hn2]; omega), a2, ?_, ?_, ?_, a6, a7, a8,
          a9, a10, ?_, ?_⟩
        · intro x hx
          show x.id < ((w.m.malloc sz).2.free false).n
          rw [hn2]
          have hx' : x ∈ (⟨w.m.n, .nbrBuf, sz⟩ :: eraseId w.live r.buf) ++ w.cache := hx
          simp only [List.cons_append, List.mem_cons, List.mem_append] at hx'
          rcases hx' with rfl | hx' | hx'
          · show w.m.n < _; omega
          · have := a3 x (List.mem_append_left _ (mem_eraseId hx')); omega
          · have := a3 x (List.mem_append_right _ hx'); omega
        · show (((⟨w.m.n, .nbrBuf, sz⟩ :: eraseId w.live r.buf) ++ w.cache).map (·.id)).Nodup
          simp only [List.cons_append, List.map_cons, List.nodup_cons]
          refine ⟨fun hmem => ?_, a4.sublist (((eraseId_sublist _ _).append_right _).map _)⟩
          obtain ⟨b, hb, hid⟩ := List.mem_map.1 hmem
          have hb' : b ∈ w.live ++ w.cache := by
            rcases List.mem_append.1 hb with hb | hb
            · exact List.mem_append_left _ (mem_eraseId hb)
            · exact List.mem_append_right _ hb
          have := a3 b hb'
          omega
        · show Owns (⟨w.m.n, .nbrBuf, sz⟩ :: eraseId w.live r.buf) _
          have o1 := a5.perm ((expLive_filter_readers (t := tables w) a5.nodupE hr).trans (List.Perm.swap _ _ _))
          have o2 := o1.erase hlnd
          have o3 := Owns.cons o2 ⟨w.m.n, .nbrBuf, sz⟩ (by
            intro hmem
            obtain ⟨b, hb, hid⟩ := List.mem_map.1 hmem
            have := a3 b (List.mem_append_left _ (mem_eraseId hb))
            simp only at hid
            omega)
          exact o3.perm ((List.Perm.swap _ _ _).trans
            (expLive_upd (t := tables w)
              (r' := { r with buf := w.m.n, buflen := sz, datalen := r.datalen - r.bufpos, bufpos := 0 })
              a5.nodupE hr rfl).symm)
        · exact a11.trans ((expImm_filter_readers (t := tables w) a5.nodupE hr).trans
            (expImm_upd (t := tables w)
              (r' := { r with buf := w.m.n, buflen := sz, datalen := r.datalen - r.bufpos, bufpos := 0 })
              a5.nodupE hr rfl).symm)
        · show ((w.m.malloc sz).2.free false).live =
            (((⟨w.m.n, .nbrBuf, sz⟩ : Block) :: eraseId w.live r.buf).length : Int) + (w.cache.length : Int) + w.evLive
          rw [hfr.2.1, hok.2.1]
          simp only [List.length_cons, Bool.false_eq_true, if_false]
          omega
      · show ((w.m.malloc sz).2.free false).refusals = w.m.refusals
        rw [hfr.1, hok.1]
  · rw [if_neg hq]
    refine ⟨Step.refl _, rfl, fun hc => (by cases hc), ?_⟩
    intro r1 h1
    simp only [Option.some.injEq] at h1
    subst h1
    exact ⟨h, rfl, rfl, rfl, rfl, rfl, Nat.le_of_not_lt hq, by rw [updReader_self hnd hr]; rfl, rfl⟩

/-- the reader is updated and `network_read` started -/
theorem nbrStart_spec (w1 : World) (r1 : Reader) (len : Nat) (h1 : Inv0 w1) (hr1 : r1 ∈ w1.readers) :
    Inv0 (nbrStart w1 r1 len).2 ∧ Step w1.m (nbrStart w1 r1 len).2.m ∧ (nbrStart w1 r1 len).1 ≠ .contract ∧
    ((nbrStart w1 r1 len).1 = .fail → registry (nbrStart w1 r1 len).2.ev = registry w1.ev ∧
        tables (nbrStart w1 r1 len).2 = { tables w1 with readers := updReader w1.readers (nbrR3 r1 len) }) ∧
    ((nbrStart w1 r1 len).1 = .ok → (nbrStart w1 r1 len).2.m.refusals = w1.m.refusals ∧
        ∃ c, tables (nbrStart w1 r1 len).2 = { tables w1 with
            readers := updReader w1.readers { nbrR3 r1 len with readCookie := some c },
            reads := ⟨c, r1.fd⟩ :: w1.reads }) ∧
    ((nbrStart w1 r1 len).2.m.refusals ≠ w1.m.refusals → (nbrStart w1 r1 len).1 = .fail) ∧
    ((nbrStart w1 r1 len).1 = .fail → ¬ netRegistered w1.ev r1.fd false → 24 * (r1.fd + 1) ≤ EArray.SIZE_MAX →
        w1.m.refusals < (nbrStart w1 r1 len).2.m.refusals) := by
  obtain ⟨f1, f2, f3, f4, f5, f6, f7⟩ := nbrR3_facts r1 len
  have h2 : Inv0 (setReader w1 (nbrR3 r1 len)) := inv0_setReader w1 r1 _ h1 hr1 f1 f2 f5
  unfold nbrStart
  rw [f3]
  obtain ⟨n1, n2, n3, n4, n5, n6⟩ := networkRead_spec (setReader w1 (nbrR3 r1 len)) r1.fd h2
  rcases hnr : networkRead (setReader w1 (nbrR3 r1 len)) r1.fd with ⟨o, w3⟩
  rw [hnr] at n1 n2 n3 n4 n5 n6
  simp only at n1 n2 n3 n4 n5 n6
  cases o with
  | none =>
    obtain ⟨s1, s2, s3, s4⟩ := n3 rfl
    exact ⟨n1, n2, fun hc => (by cases hc), fun _ => ⟨s3, s2⟩, fun hc => (by cases hc), fun _ => rfl,
      fun _ hfree hsz => n6 rfl hfree hsz⟩
  | some c =>
    obtain ⟨_, t2, t3⟩ := n4 c rfl
    have hrd3 : w3.readers = updReader w1.readers (nbrR3 r1 len) := congrArg Tables.readers t2
    have hmem3 : nbrR3 r1 len ∈ w3.readers := by rw [hrd3]; exact mem_updReader hr1 f1
    refine ⟨inv0_setReader w3 (nbrR3 r1 len) _ n1 hmem3 rfl rfl rfl, n2, fun hc => (by cases hc), fun hc => (by cases hc),
      fun _ => ⟨t3, c, ?_⟩, fun hne => absurd t3 hne, fun hc => (by cases hc)⟩
    show tables (setReader w3 { nbrR3 r1 len with readCookie := some c }) = _
    rw [tables_setReader, t2, hrd3,
      updReader_updReader w1.readers (r1 := nbrR3 r1 len) (r2 := { nbrR3 r1 len with readCookie := some c }) rfl]
    rfl

/-! ## `netbuf_read_wait` -/

theorem netbufReadWait_spec (w : World) (r : Reader) (len : Nat) (h : Inv0 w) (hr : r ∈ w.readers) :
    Inv0 (netbufReadWait w r.id len).2 ∧ Step w.m (netbufReadWait w r.id len).2.m ∧
    ((netbufReadWait w r.id len).1 = .contract ↔ (r.readCookie.isSome = true ∨ r.immediate = true)) ∧
    ((netbufReadWait w r.id len).1 = .contract → (netbufReadWait w r.id len).2 = w) ∧
    -- failure: nothing registered, nothing lost; the buffer may have been replaced by a bigger one
    ((netbufReadWait w r.id len).1 = .fail →
        registry (netbufReadWait w r.id len).2.ev = registry w.ev ∧
        ∃ r', r'.id = r.id ∧ r'.fd = r.fd ∧ r'.datalen - r'.bufpos = r.datalen - r.bufpos ∧
          r'.readCookie = none ∧ r'.immediate = false ∧
          tables (netbufReadWait w r.id len).2 = { tables w with readers := updReader w.readers r' }) ∧
    -- success: either the data is there (an immediate event) or a network_read was started
    ((netbufReadWait w r.id len).1 = .ok →
        (netbufReadWait w r.id len).2.m.refusals = w.m.refusals ∧
        ((len ≤ r.datalen - r.bufpos ∧
            tables (netbufReadWait w r.id len).2 = { tables w with readers := updReader w.readers { r with immediate := true } }) ∨
         (r.datalen - r.bufpos < len ∧ ∃ r' c, r'.id = r.id ∧ r'.fd = r.fd ∧ r'.datalen - r'.bufpos = r.datalen - r.bufpos ∧
            r'.readCookie = some c ∧ r'.immediate = false ∧ len ≤ r'.buflen - r'.bufpos ∧
            tables (netbufReadWait w r.id len).2 =
              { tables w with readers := updReader w.readers r', reads := ⟨c, r.fd⟩ :: w.reads }))) ∧
    ((netbufReadWait w r.id len).2.m.refusals ≠ w.m.refusals → (netbufReadWait w r.id len).1 = .fail) ∧
    ((netbufReadWait w r.id len).1 = .fail → ¬ netRegistered w.ev r.fd false → 24 * (r.fd + 1) ≤ EArray.SIZE_MAX →
        w.m.refusals < (netbufReadWait w r.id len).2.m.refusals) := by
  have hnd : (w.readers.map (·.id)).Nodup := (tables_nodup h.owns.nodupE).2.2.2.2.1
  have hfind := find_reader hnd hr
  by_cases hbusy : (r.readCookie.isSome || r.immediate) = true
  · have heq : netbufReadWait w r.id len = (.contract, w) := by simp only [netbufReadWait, hfind, hbusy, if_true]
    rw [heq]
    have hb' : r.readCookie.isSome = true ∨ r.immediate = true := by simpa using hbusy
    exact ⟨h, Step.refl _, ⟨fun _ => hb', fun _ => rfl⟩, fun _ => rfl, fun hc => (by cases hc), fun hc => (by cases hc),
      fun hne => absurd rfl hne, fun hc => (by cases hc)⟩
  · have hidle : (r.readCookie.isSome || r.immediate) = false := by simpa using hbusy
    have hnb : ¬ (r.readCookie.isSome = true ∨ r.immediate = true) := fun hb => hbusy (by simpa using hb)
    have hi0 : r.immediate = false := by cases hx : r.immediate <;> simp [hx] at hidle ⊢
    have hc0 : r.readCookie = none := by cases hx : r.readCookie <;> simp [hx] at hidle ⊢
    rw [netbufReadWait_eq len hfind hidle]
    by_cases hlen : r.datalen - r.bufpos ≥ len
    · rw [if_pos hlen]
      obtain ⟨i1, i2, i3, i4, i5⟩ := nbrImm_spec w r h hr hi0
      refine ⟨i1, i2, ⟨fun hc => absurd hc i3, fun hb => absurd hb hnb⟩, fun hc => absurd hc i3, ?_, ?_, ?_, ?_⟩
      · intro hf
        obtain ⟨g1, g2, _⟩ := i4 hf
        exact ⟨g1, r, rfl, rfl, rfl, hc0, hi0, by rw [g2, updReader_self hnd hr]; rfl⟩
      · intro hok
        obtain ⟨k1, k2⟩ := i5 hok
        exact ⟨k1, Or.inl ⟨hlen, k2⟩⟩
      · intro hne
        cases hR : (nbrImm w r).1 with
        | fail => rfl
        | ok => exact absurd (i5 hR).1 hne
        | contract => exact absurd hR i3
      · intro hf _ _
        exact (i4 hf).2.2
    · rw [if_neg hlen]
      have hlt : r.datalen - r.bufpos < len := Nat.lt_of_not_ge hlen
      obtain ⟨z1, z2, z3, z4⟩ := nbrResize_spec w r len h hr
      rcases hrz : nbrResize w r len with ⟨o, w1⟩
      rw [hrz] at z1 z2 z3 z4
      simp only at z1 z2 z3 z4
      cases o with
      | none =>
        obtain ⟨y1, y2, y3⟩ := z3 rfl
        refine ⟨y1, z1, ⟨fun hc => (by cases hc), fun hb => absurd hb hnb⟩, fun hc => (by cases hc), ?_, fun hc => (by cases hc),
          fun _ => rfl, fun _ _ _ => y3⟩
        intro _
        exact ⟨by rw [z2], r, rfl, rfl, rfl, hc0, hi0, by rw [y2, updReader_self hnd hr]; rfl⟩
      | some r1 =>
        obtain ⟨y1, y2, y3, y4, y5, y6, y7, y8, y9⟩ := z4 r1 rfl
        have e1 : w1.readers = updReader w.readers r1 := congrArg Tables.readers y8
        have e2 : w1.reads = w.reads := congrArg Tables.reads y8
        have hr1 : r1 ∈ w1.readers := by rw [e1]; exact mem_updReader hr y2
        obtain ⟨f1, f2, f3, f4, f5, f6, f7⟩ := nbrR3_facts r1 len
        obtain ⟨s1, s2, s3, s4, s5, s6, s7⟩ := nbrStart_spec w1 r1 len y1 hr1
        refine ⟨s1, z1.trans s2, ⟨fun hc => absurd hc s3, fun hb => absurd hb hnb⟩, fun hc => absurd hc s3, ?_, ?_, ?_, ?_⟩
        · intro hf
          obtain ⟨g1, g2⟩ := s4 hf
          refine ⟨by rw [g1, z2], nbrR3 r1 len, f1.trans y2, f3.trans y3, f6.trans y4, by rw [f4, y5, hc0],
            by rw [f5, y6, hi0], ?_⟩
          rw [g2, y8, e1, updReader_updReader w.readers (r1 := r1) (r2 := nbrR3 r1 len) f1]
        · intro hok
          obtain ⟨k1, c, k2⟩ := s5 hok
          refine ⟨k1.trans y9, Or.inr ⟨hlt, { nbrR3 r1 len with readCookie := some c }, c, f1.trans y2, f3.trans y3,
            f6.trans y4, rfl, by show (nbrR3 r1 len).immediate = false; rw [f5, y6, hi0], f7 y7, ?_⟩⟩
          rw [k2, y8, e1, e2, y3,
            updReader_updReader w.readers (r1 := r1) (r2 := { nbrR3 r1 len with readCookie := some c }) f1]
        · intro hne
          exact s6 (by rw [y9]; exact hne)
        · intro hf hfree hsz
          have := s7 hf (by rw [z2, y3]; exact hfree) (by rw [y3]; exact hsz)
          rw [y9] at this; exact this

/- Unfinished: nothing.  The four theorems `netbufReadInit_spec`, `netbufReadWait_spec`, `netbufReadWaitCancel_spec`,
   `netbufReadFree_spec` are proved exactly as stated. -/

end Percival.Proofs.AllocFailUpper
