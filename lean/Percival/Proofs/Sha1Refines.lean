import Percival.Proofs.Sha1Transform
import Percival.Proofs.Counters
import Percival.Proofs.HmacStream
/-! `Model.Sha1.alg` refines `Spec.Sha1.params` (helper lemmas for C01). -/
namespace Percival.Proofs.Sha1T
open Percival Percival.Model.Sha1
open Percival.Spec (Bytes)

def R (s : State) : Spec.Sha1.Regs := regsAt s 0

theorem regsAt_ofFn (f : Fin 5 → UInt32) : regsAt (Vector.ofFn f) 0 = ⟨f 0, f 1, f 2, f 3, f 4⟩ := by
  simp [regsAt, slot, Fin.getElem_fin, Vector.getElem_ofFn]

/-- **P2**: the C's `SHA1_Transform` is the FIPS 180-4 SHA-1 compression function -/
theorem transform_eq (s : State) (b : Bytes) (hb : b.length = 64) :
    R (transform s b) = Spec.Sha1.compress (R s) b := by
  unfold transform Spec.Sha1.compress R
  simp only
  rw [regsAt_ofFn, rounds_spec _ b hb, sched_loop, ← mix_spec]
  generalize (List.finRange 80).foldl (fun S i => RNDr S (Wf (decodeBlock b)) i) s = S
  simp only [Spec.Sha1.addRegs, regsAt, slot, Fin.getElem_fin]
  simp only [Spec.Sha1.Regs.mk.injEq]
  refine ⟨?_, ?_, ?_, ?_, ?_⟩ <;> exact UInt32.add_comm _ _

theorem toList5 (v : Vector UInt32 5) : v.toList = [v[0], v[1], v[2], v[3], v[4]] := by
  obtain ⟨⟨l⟩, h⟩ := v
  match l, h with
  | [_, _, _, _, _], _ => rfl

theorem digest_eq (s : State) : digest s = Spec.Sha1.out (R s) := by
  unfold digest Spec.Sha1.out R regsAt
  rw [toList5]
  simp [List.flatMap_cons, slot, Fin.getElem_fin]
  rfl

theorem init_eq : R initialState = Spec.Sha1.H0 := by decide

def refines : MDStream.Refines alg Spec.Sha1.params where
  R := R
  init := init_eq
  transform := transform_eq
  digest := digest_eq
  PAD := by decide
  cnt := Counters.cntSha1OK

theorem hash_len (m : Bytes) : (Spec.Sha1.hash m).length = 20 := by
  unfold Spec.Sha1.hash Spec.MD.hash
  simp [Spec.Sha1.params, Spec.Sha1.out, Spec.be32enc]

def hashOK : HmacStream.HashOK Model.Hmac.sha1 Spec.Sha1.params where
  rf := refines
  final := fun c msg h => MDStream.finalUpd_eq_hash refines c msg h
  hlen := hash_len
  hlen_le := by decide

end Percival.Proofs.Sha1T
