import Percival.Model.CpuAesni
import Percival.Proofs.Aes
/-!
# The FIPS-197 transcription of `Model.CpuAesni` is `Spec.Aes` (C03)

`Model.CpuAesni.Fips` (S-box by inversion in GF(2⁸) + affine map, state as four lanes of four bytes, key schedule
kept newest first) and `Spec.Aes` (S-box as the table of Figure 7, state as 16 bytes, key schedule by a sliding
window) are two independent transcriptions of the standard.  Here they are proved to be the same function:
`encrypt_eq_spec`.  The view of a register as bytes is `R.bytes` (memory order).
-/
namespace Percival.Proofs.CpuAesSpec
open Percival Percival.Model.CpuAesni Percival.Spec

/-! ## bytes -/

theorem sbox_nat : ∀ n, n < 256 → Fips.sbox (UInt8.ofNat n) = Aes.sbox (UInt8.ofNat n) := by decide +kernel

/-- the S-box computed (inverse, affine map) is the S-box of Figure 7 -/
theorem sbox_eq (b : UInt8) : Fips.sbox b = Aes.sbox b := by
  have := sbox_nat b.toNat (UInt8.toNat_lt b)
  simpa using this

theorem xtime_eq (b : UInt8) : Fips.xtime b = Aes.xtime b := by
  unfold Fips.xtime Aes.xtime
  split <;> simp

theorem rconByte_eq : ∀ j, Fips.rconByte j = Aes.rconByte j
  | 0 => rfl
  | 1 => by decide
  | j+2 => by
    show Fips.xtime (Fips.rconByte (j + 1)) = Aes.xtime (Aes.rconByte (j + 1))
    rw [xtime_eq, rconByte_eq (j + 1)]

/-! ## words and registers as byte strings -/

theorem W4.bytes_length (a : W4) : a.bytes.length = 4 := rfl
theorem R.bytes_length (a : R) : a.bytes.length = 16 := rfl

theorem W4.bytes_xor (a b : W4) : (a ^^^ b).bytes = Aes.xorBytes a.bytes b.bytes := by
  cases a; cases b; rfl

theorem R.bytes_xor (a b : R) : (a ^^^ b).bytes = Aes.xorBytes a.bytes b.bytes := by
  obtain ⟨⟨_, _, _, _⟩, ⟨_, _, _, _⟩, ⟨_, _, _, _⟩, ⟨_, _, _, _⟩⟩ := a
  obtain ⟨⟨_, _, _, _⟩, ⟨_, _, _, _⟩, ⟨_, _, _, _⟩, ⟨_, _, _, _⟩⟩ := b
  rfl

theorem subWord_bytes (w : W4) : (Fips.subWord w).bytes = Aes.subWord w.bytes := by
  cases w; simp [Fips.subWord, W4.map, W4.bytes, Aes.subWord, sbox_eq]

theorem rotWord_bytes (w : W4) : (Fips.rotWord w).bytes = Aes.rotWord w.bytes := by
  cases w; rfl

theorem rcon_bytes (j : Nat) : (Fips.rcon j).bytes = Aes.rcon j := by
  simp [Fips.rcon, W4.bytes, Aes.rcon, rconByte_eq]

theorem subBytes_bytes (s : R) : (Fips.subBytes s).bytes = Aes.subBytes s.bytes := by
  obtain ⟨⟨_, _, _, _⟩, ⟨_, _, _, _⟩, ⟨_, _, _, _⟩, ⟨_, _, _, _⟩⟩ := s
  simp [Fips.subBytes, R.map, Fips.subWord, W4.map, R.bytes, W4.bytes, Aes.subBytes, sbox_eq]

theorem shiftRows_bytes (s : R) : (Fips.shiftRows s).bytes = Aes.shiftRows s.bytes := by
  obtain ⟨⟨_, _, _, _⟩, ⟨_, _, _, _⟩, ⟨_, _, _, _⟩, ⟨_, _, _, _⟩⟩ := s
  rfl

theorem mixColumns_bytes (s : R) : (Fips.mixColumns s).bytes = Aes.mixColumns s.bytes := by
  obtain ⟨⟨_, _, _, _⟩, ⟨_, _, _, _⟩, ⟨_, _, _, _⟩, ⟨_, _, _, _⟩⟩ := s
  simp [Fips.mixColumns, R.map, Fips.mixColumn, R.bytes, W4.bytes, Aes.mixColumns, Aes.mixColumn, Fips.mul2, Fips.mul3,
    Aes.mul2, Aes.mul3, xtime_eq]

theorem addRoundKey_bytes (s k : R) : (Fips.addRoundKey s k).bytes = Aes.addRoundKey s.bytes k.bytes :=
  R.bytes_xor s k

/-! ## §5.1 Cipher -/

theorem round_bytes (s k : R) :
    (Fips.addRoundKey (Fips.mixColumns (Fips.shiftRows (Fips.subBytes s))) k).bytes = Aes.round s.bytes k.bytes := by
  rw [addRoundKey_bytes, mixColumns_bytes, shiftRows_bytes, subBytes_bytes]; rfl

theorem finalRound_bytes (s k : R) :
    (Fips.addRoundKey (Fips.shiftRows (Fips.subBytes s)) k).bytes = Aes.finalRound s.bytes k.bytes := by
  rw [addRoundKey_bytes, shiftRows_bytes, subBytes_bytes]; rfl

theorem rounds_bytes : ∀ (rks : List R) (s : R), rks ≠ [] →
    (Fips.rounds s rks).bytes = Aes.rounds (rks.map R.bytes) s.bytes
  | [], _, h => absurd rfl h
  | [k], s, _ => by
    rw [Fips.rounds, finalRound_bytes]; rfl
  | k :: k' :: rest, s, _ => by
    rw [Fips.rounds, rounds_bytes (k' :: rest) _ (by simp), round_bytes]
    · rfl
    · intro h; cases h

/-- Figure 5 over the same `Nr + 1 ≥ 2` round keys -/
theorem cipher_bytes (rks : List R) (inp : R) (h : 2 ≤ rks.length) :
    (Fips.cipher rks inp).map R.bytes = some (Aes.cipher (rks.map R.bytes) inp.bytes) := by
  match rks, h with
  | k0 :: k1 :: rest, _ =>
    simp only [Fips.cipher, Option.map_some, List.map_cons, Aes.cipher, R.bytes_length, if_true]
    rw [rounds_bytes (k1 :: rest) _ (by simp), addRoundKey_bytes]; rfl

/-! ## §5.2 KeyExpansion -/

theorem keyWords_length : ∀ (key : List UInt8), (Fips.keyWords key).length = key.length / 4
  | a :: b :: c :: d :: rest => by
    simp only [Fips.keyWords, List.length_cons, keyWords_length rest]; omega
  | [] => rfl
  | [_] => by simp [Fips.keyWords]
  | [_, _] => by simp [Fips.keyWords]
  | [_, _, _] => by simp [Fips.keyWords]

/-- the cipher key cut into words -/
theorem keyWords_bytes : ∀ (key : List UInt8), (Fips.keyWords key).map W4.bytes = Aes.chunks 4 (key.length / 4) key
  | a :: b :: c :: d :: rest => by
    have : (a :: b :: c :: d :: rest).length / 4 = rest.length / 4 + 1 := by simp only [List.length_cons]; omega
    rw [this]
    simp only [Fips.keyWords, List.map_cons, Aes.chunks, keyWords_bytes rest]
    rfl
  | [] => rfl
  | [_] => by simp [Fips.keyWords, Aes.chunks]
  | [_, _] => by simp [Fips.keyWords, Aes.chunks]
  | [_, _, _] => by simp [Fips.keyWords, Aes.chunks]

/-- one step of Figure 11 -/
theorem nextWord_bytes (m i : Nat) (prev back : W4) (t : List W4) (hb : (prev :: t)[m]? = some back) :
    ∃ w, Fips.nextWord (m + 1) i (prev :: t) = some w ∧
      w.bytes = Aes.nextWord (m + 1) i prev.bytes back.bytes := by
  unfold Fips.nextWord
  rw [show m + 1 - 1 = m from rfl, hb]
  refine ⟨_, rfl, ?_⟩
  simp only [Aes.nextWord]
  rw [W4.bytes_xor]
  congr 1
  split
  · rw [W4.bytes_xor, subWord_bytes, rotWord_bytes, rcon_bytes]
  · split
    · rw [subWord_bytes]
    · rfl

theorem expandLoop_succ (nk n i : Nat) (back prev : List UInt8) (rest : List (List UInt8))
    (h : (back :: rest).getLast? = some prev) :
    Aes.expandLoop nk (n + 1) i (back :: rest) =
      Aes.nextWord nk i prev back :: Aes.expandLoop nk n (i + 1) (rest ++ [Aes.nextWord nk i prev back]) := by
  simp only [Aes.expandLoop, h]

/-- the schedule kept newest first (`Fips.extend`) and the sliding window (`Aes.expandLoop`) produce the same words -/
theorem extend_bytes (m : Nat) : ∀ (n i : Nat) (ws : List W4), m + 1 ≤ ws.length →
    ((Fips.extend (m + 1) n i ws).reverse).map W4.bytes =
      (ws.reverse).map W4.bytes ++ Aes.expandLoop (m + 1) n i (((ws.take (m + 1)).reverse).map W4.bytes)
  | 0, _, _, _ => by simp [Fips.extend, Aes.expandLoop]
  | n+1, i, ws, h => by
    match ws, h with
    | prev :: t, h =>
      have hm : m < (prev :: t).length := by omega
      have hb : (prev :: t)[m]? = some (prev :: t)[m] := List.getElem?_eq_getElem hm
      obtain ⟨w, hw, hwb⟩ := nextWord_bytes m i prev _ t hb
      have ih := extend_bytes m n (i + 1) (w :: prev :: t) (by simp only [List.length_cons] at h ⊢; omega)
      have htake : (((prev :: t).take (m + 1)).reverse).map W4.bytes =
          (prev :: t)[m].bytes :: (((prev :: t).take m).reverse).map W4.bytes := by
        rw [List.take_add_one, hb]
        simp only [Option.toList_some, List.reverse_append, List.reverse_cons, List.reverse_nil, List.nil_append,
          List.singleton_append, List.map_cons]
      have hlast : ((prev :: t)[m].bytes :: (((prev :: t).take m).reverse).map W4.bytes).getLast? = some prev.bytes := by
        rw [← htake, List.getLast?_map, List.getLast?_reverse]; rfl
      simp only [Fips.extend, hw]
      rw [ih, htake, expandLoop_succ _ _ _ _ _ _ hlast, ← hwb]
      simp

/-- **KeyExpansion**: the words `w[0 … 4(Nr+1) − 1]` -/
theorem keyExpansion_words (key : List UInt8) (h : 4 ≤ key.length) :
    (Fips.keyExpansion (Fips.keyWords key)).map W4.bytes = Aes.keyWords key := by
  have hl := keyWords_length key
  obtain ⟨m, hm⟩ : ∃ m, key.length / 4 = m + 1 := ⟨key.length / 4 - 1, by omega⟩
  unfold Fips.keyExpansion Aes.keyWords
  simp only [hl, hm]
  rw [extend_bytes m _ _ _ (by rw [List.length_reverse, hl, hm]; omega), List.reverse_reverse,
    List.take_of_length_le (by rw [List.length_reverse, hl, hm]; omega), List.reverse_reverse, keyWords_bytes, hm]

theorem roundKeys_bytes : ∀ (ws : List W4),
    (Fips.roundKeys ws).map R.bytes = Aes.chunks 16 (ws.length / 4) (ws.map W4.bytes).flatten
  | a :: b :: c :: d :: rest => by
    have : (a :: b :: c :: d :: rest).length / 4 = rest.length / 4 + 1 := by simp only [List.length_cons]; omega
    rw [this]
    simp only [Fips.roundKeys, List.map_cons, Aes.chunks, roundKeys_bytes rest]
    rfl
  | [] => rfl
  | [_] => by simp [Fips.roundKeys, Aes.chunks]
  | [_, _] => by simp [Fips.roundKeys, Aes.chunks]
  | [_, _, _] => by simp [Fips.roundKeys, Aes.chunks]

theorem roundKeys_length : ∀ (ws : List W4), (Fips.roundKeys ws).length = ws.length / 4
  | a :: b :: c :: d :: rest => by
    simp only [Fips.roundKeys, List.length_cons, roundKeys_length rest]; omega
  | [] => rfl
  | [_] => by simp [Fips.roundKeys]
  | [_, _] => by simp [Fips.roundKeys]
  | [_, _, _] => by simp [Fips.roundKeys]

theorem aes_keyWords_length (key : List UInt8) (h : key.length = 16 ∨ key.length = 32) :
    (Aes.keyWords key).length = 4 * (key.length / 4 + 7) := by
  have hw0 := Proofs.Aes.chunks_spec 4 (key.length / 4) key (by omega)
  have hne : Aes.chunks 4 (key.length / 4) key ≠ [] := by
    intro hc; have := hw0.1; rw [hc] at this; simp at this; omega
  have hex := Proofs.Aes.expandLoop_spec (key.length / 4) (4 * (key.length / 4 + 6 + 1) - key.length / 4)
    (key.length / 4) (Aes.chunks 4 (key.length / 4) key) hne hw0.2
  unfold Aes.keyWords
  simp only [List.length_append, hw0.1, hex.1]
  omega

/-- **the round keys** of the transcription are FIPS-197 KeyExpansion as `Spec.Aes` writes it -/
theorem roundKeys_eq_spec (key : List UInt8) (h : key.length = 16 ∨ key.length = 32) :
    (Fips.roundKeys (Fips.keyExpansion (Fips.keyWords key))).map R.bytes = Aes.keyExpansion key := by
  have hw := keyExpansion_words key (by omega)
  have hlen : (Fips.keyExpansion (Fips.keyWords key)).length = 4 * (key.length / 4 + 7) := by
    rw [← aes_keyWords_length key h, ← hw, List.length_map]
  rw [roundKeys_bytes, hw, hlen]
  unfold Aes.keyExpansion
  rw [if_pos h]
  simp only []
  congr 1
  omega

/-- **AES-128 / AES-256 of one block**: the transcription computes `Spec.Aes.encryptBlock` -/
theorem encrypt_eq_spec (key : List UInt8) (h : key.length = 16 ∨ key.length = 32) (inp : R) :
    (Fips.encrypt (Fips.keyWords key) inp).map R.bytes = some (Aes.encryptBlock key inp.bytes) := by
  have hw := keyExpansion_words key (by omega)
  have hlen : (Fips.keyExpansion (Fips.keyWords key)).length = 4 * (key.length / 4 + 7) := by
    rw [← aes_keyWords_length key h, ← hw, List.length_map]
  unfold Fips.encrypt
  rw [cipher_bytes _ _ (by rw [roundKeys_length, hlen]; omega), roundKeys_eq_spec key h]
  rfl

theorem ofBytes_bytes (blk : List UInt8) (h : blk.length = 16) : ∃ b, R.ofBytes blk = some b ∧ b.bytes = blk := by
  obtain ⟨a0, a1, a2, a3, a4, a5, a6, a7, a8, a9, a10, a11, a12, a13, a14, a15, rfl⟩ := Proofs.Aes.len16 blk h
  exact ⟨_, rfl, rfl⟩

theorem ofBytes_none (blk : List UInt8) (h : blk.length ≠ 16) : R.ofBytes blk = none := by
  unfold R.ofBytes
  split
  · simp at h
  · rfl

end Percival.Proofs.CpuAesSpec
