import Percival.Spec.AwsRequests
import Percival.Model.AwsSign
namespace Percival.Proofs.AwsSign
open Percival.Spec Percival.Spec.SigV4 Percival.Model.AwsSign

theorem lit_eq (s : String) : lit s = ascii s := rfl

theorem forall_uint8 (P : UInt8 → Prop) (h : ∀ n : Fin 256, P (UInt8.ofNat n.val)) : ∀ x, P x := fun x => by
  have := h ⟨x.toNat, x.toNat_lt⟩
  simpa using this

theorem hexifyByte_eq : ∀ x : UInt8, hexifyByte x = some [hexDigit (x / 16), hexDigit (x % 16)] := by
  apply forall_uint8; decide +kernel

theorem hexify_eq (b : Bytes) : hexify b = some (hex b) := by
  induction b with
  | nil => rfl
  | cons x r ih =>
    simp only [hexify, hexifyByte_eq, ih, hex, List.flatMap_cons]

/-! trimming and encoding are the identity on the unreserved alphabet -/

theorem not_space_of_unreserved (c : UInt8) : isUnreserved c = true → isSpace c = false := by
  revert c; apply forall_uint8; decide +kernel

theorem dropWhile_none {p : UInt8 → Bool} (v : Bytes) (h : ∀ c ∈ v, p c = false) : v.dropWhile p = v := by
  cases v with
  | nil => rfl
  | cons a r => simp [List.dropWhile, h a (by simp)]

theorem collapse_none (v : Bytes) (h : ∀ c ∈ v, isSpace c = false) : collapseSpaces v = v := by
  induction v with
  | nil => rfl
  | cons a r ih =>
    cases r with
    | nil => rfl
    | cons b r' =>
      have ha := h a (by simp)
      have := ih (fun c hc => h c (by simp [hc]))
      simp only [collapseSpaces, ha, Bool.false_and, this]
      simp

theorem trim_id (v : Bytes) (h : ∀ c ∈ v, isSpace c = false) : trim v = v := by
  unfold trim
  rw [dropWhile_none v h, dropWhile_none v.reverse (by simpa using h), List.reverse_reverse, collapse_none v h]

theorem uriEncode_id (es : Bool) (s : Bytes) (h : ∀ c ∈ s, isUnreserved c = true) : uriEncode es s = s := by
  induction s with
  | nil => rfl
  | cons a r ih =>
    have := ih (fun c hc => h c (by simp [hc]))
    simp only [uriEncode, List.flatMap_cons] at this ⊢
    rw [this]; simp [h a (by simp)]

theorem uriEncode_path_id (s : Bytes) (h : ∀ c ∈ s, (isUnreserved c || c == 47) = true) : uriEncode false s = s := by
  induction s with
  | nil => rfl
  | cons a r ih =>
    have := ih (fun c hc => h c (by simp [hc]))
    simp only [uriEncode, List.flatMap_cons] at this ⊢
    rw [this]
    have ha := h a (by simp)
    simp only [Bool.not_false, Bool.and_true]
    rw [if_pos ha]; rfl

theorem uriEncode_append (es : Bool) (a b : Bytes) : uriEncode es (a ++ b) = uriEncode es a ++ uriEncode es b := by
  simp [uriEncode, List.flatMap_append]

/-! the modelled clock -/

theorem unreserved_digit (n : Nat) : isUnreserved (digit n) = true := by
  unfold digit
  have : ∀ k : Fin 10, isUnreserved (UInt8.ofNat (48 + k.val)) = true := by decide
  exact this ⟨n % 10, Nat.mod_lt _ (by decide)⟩

theorem unreserved_pad2 (n : Nat) : ∀ c ∈ pad2 n, isUnreserved c = true := by
  simp [pad2, unreserved_digit]

theorem formatClock_some (tm : Tm) (date datetime : Bytes) (h : formatClock tm = some (date, datetime)) :
    ∃ y, year4 tm.year = some y ∧
      date = y ++ pad2 tm.mon ++ pad2 tm.mday ∧
      datetime = date ++ (lit "T" ++ pad2 tm.hour ++ pad2 tm.min ++ pad2 tm.sec ++ lit "Z") := by
  unfold formatClock strftimeDate strftimeDatetime at h
  cases hy : year4 tm.year with
  | none => simp [hy] at h
  | some y =>
    simp only [hy, Option.map_some, Option.some.injEq, Prod.mk.injEq] at h
    refine ⟨y, rfl, h.1.symm, ?_⟩
    rw [← h.2, ← h.1]; simp only [List.append_assoc]

theorem clock_some (now : Option Nat) (date datetime : Bytes) (h : clock now = some (date, datetime)) :
    ∃ (tm : Tm) (y : Bytes), year4 tm.year = some y ∧
      date = y ++ pad2 tm.mon ++ pad2 tm.mday ∧
      datetime = date ++ (lit "T" ++ pad2 tm.hour ++ pad2 tm.min ++ pad2 tm.sec ++ lit "Z") := by
  cases now with
  | none => cases h
  | some t =>
    obtain ⟨y, h1, h2, h3⟩ := formatClock_some (gmtime t) date datetime h
    exact ⟨gmtime t, y, h1, h2, h3⟩

theorem year4_props (n : Nat) (y : Bytes) (h : year4 n = some y) : y.length = 4 ∧ ∀ c ∈ y, isUnreserved c = true := by
  unfold year4 at h
  split at h
  · cases h; simp [unreserved_digit]
  · cases h

/-- the two `strftime` results agree: the date is the first eight characters of the timestamp -/
theorem clock_date (now : Option Nat) (date datetime : Bytes) (h : clock now = some (date, datetime)) :
    date = dateOf datetime ∧ date.length = 8 ∧ datetime.length = 16 ∧
    (∀ c ∈ date, isUnreserved c = true) ∧ (∀ c ∈ datetime, isUnreserved c = true) := by
  obtain ⟨tm, y, hy, hd, hdt⟩ := clock_some now date datetime h
  obtain ⟨hl, hu⟩ := year4_props _ _ hy
  have hlen : date.length = 8 := by rw [hd]; simp [pad2, hl]
  have hud : ∀ c ∈ date, isUnreserved c = true := by
    rw [hd]; intro c hc
    simp only [List.mem_append] at hc
    rcases hc with (hc | hc) | hc
    · exact hu c hc
    · exact unreserved_pad2 _ c hc
    · exact unreserved_pad2 _ c hc
  refine ⟨?_, hlen, ?_, hud, ?_⟩
  · rw [hdt]; unfold dateOf; rw [List.take_append_of_le_length (by omega)]; rw [← hlen, List.take_length]
  · rw [hdt]; simp [pad2, lit, hlen]
  · rw [hdt]; intro c hc
    simp only [List.mem_append] at hc
    rcases hc with hc | (((hc | hc) | hc) | hc) | hc
    · exact hud c hc
    · simp [lit] at hc; subst hc; decide
    · exact unreserved_pad2 _ c hc
    · exact unreserved_pad2 _ c hc
    · exact unreserved_pad2 _ c hc
    · simp [lit] at hc; subst hc; decide

theorem unreserved_decimalNat (n : Nat) : ∀ c ∈ decimalNat n, isUnreserved c = true := by
  induction n using decimalNat.induct with
  | case1 n h => unfold decimalNat; simp [h, unreserved_digit]
  | case2 n h ih =>
    unfold decimalNat; simp only [h, if_false]
    intro c hc
    simp only [List.mem_append, List.mem_singleton] at hc
    rcases hc with hc | hc
    · exact ih c hc
    · subst hc; exact unreserved_digit n

theorem unreserved_decimal (i : Int) : ∀ c ∈ decimal i, isUnreserved c = true := by
  unfold decimal
  split
  · intro c hc
    simp only [List.mem_append] at hc
    rcases hc with hc | hc
    · simp [lit] at hc; subst hc; decide
    · exact unreserved_decimalNat _ c hc
  · exact unreserved_decimalNat _

/-! the signing core and the canonical requests -/

/-- the static `aws_sign` is tasks 2 and 3 of SigV4 on the canonical request it is handed, when
    its `date` argument is the date part of its `datetime` argument -/
theorem awsSign_eq (secret date datetime region service creq : Bytes) (hd : date = dateOf datetime) :
    awsSign secret date datetime region service creq =
      some (hex (Hmac.hmacSha256 (signingKey secret datetime region service)
                  (stringToSign datetime region service creq))) := by
  subst hd
  unfold awsSign
  simp only [hexify_eq]
  congr 3
  simp [stringToSign, scope, lit, ascii, List.append_assoc]

theorem hexDigit_pair_unreserved : ∀ x : UInt8,
    isUnreserved (hexDigit (x / 16)) = true ∧ isUnreserved (hexDigit (x % 16)) = true := by
  apply forall_uint8; decide +kernel

theorem unreserved_hex (b : Bytes) : ∀ c ∈ hex b, isUnreserved c = true := by
  induction b with
  | nil => simp [hex]
  | cons x r ih =>
    intro c hc
    simp only [hex, List.flatMap_cons, List.mem_append, List.mem_cons, List.not_mem_nil, or_false] at hc ih
    rcases hc with (hc | hc) | hc
    · subst hc; exact (hexDigit_pair_unreserved x).1
    · subst hc; exact (hexDigit_pair_unreserved x).2
    · exact ih c hc

def Unres (s : Bytes) : Prop := ∀ c ∈ s, isUnreserved c = true

theorem Unres.append {a b : Bytes} (ha : Unres a) (hb : Unres b) : Unres (a ++ b) := by
  intro c hc; simp only [List.mem_append] at hc; rcases hc with hc | hc
  · exact ha c hc
  · exact hb c hc

theorem Unres.trim {a : Bytes} (ha : Unres a) : trim a = a :=
  trim_id a fun c hc => not_space_of_unreserved c (ha c hc)

theorem unres_of_all {s : Bytes} (h : s.all isUnreserved = true) : Unres s := by
  simpa [Unres] using h

theorem unres_ascii_s3host : Unres (ascii ".s3.amazonaws.com") := unres_of_all (by decide)

theorem canonicalQuery_nil : canonicalQuery [] = [] := rfl

theorem canonicalUri_s3 (path : Bytes) (hp : ∀ c ∈ path, (isUnreserved c || c == 47) = true) :
    canonicalUri (ascii "s3") path = s3CanonicalPath path := by
  cases path with
  | nil => rfl
  | cons a r =>
    unfold canonicalUri s3CanonicalPath
    rw [if_neg (by simp), if_pos rfl, uriEncode_path_id _ hp]

theorem s3HeadersCreq_eq (method bucket path ts clen sha : Bytes) (body : Option Bytes)
    (hb : Unres bucket) (hp : ∀ c ∈ path, (isUnreserved c || c == 47) = true) (hts : Unres ts)
    (hsha : sha = hex (Sha256.hash (body.getD []))) :
    s3HeadersCreq method bucket path sha ts =
      canonicalRequest (ascii "s3") (AwsRequests.s3 method bucket path body ts sha clen)
        AwsRequests.signedBasic ∧
    signedHeaders (AwsRequests.s3 method bucket path body ts sha clen).headers AwsRequests.signedBasic = ascii "host;x-amz-content-sha256;x-amz-date" := by
  have h1 : trim (bucket ++ ascii ".s3.amazonaws.com") = bucket ++ ascii ".s3.amazonaws.com" :=
    (hb.append unres_ascii_s3host).trim
  have h2 : trim ts = ts := hts.trim
  have h3 : trim sha = sha := by rw [hsha]; exact Unres.trim (unreserved_hex _)
  simp [ascii] at h1
  have hsp : signedPairs (AwsRequests.s3 method bucket path body ts sha clen).headers AwsRequests.signedBasic =
      [(ascii "host", bucket ++ ascii ".s3.amazonaws.com"), (ascii "x-amz-content-sha256", sha), (ascii "x-amz-date", ts)] := by
    cases body <;>
    simp [AwsRequests.s3, signedPairs, AwsRequests.signedBasic, ascii, lower, toLower, sortBy, insertBy, bytesLe, h1, h2, h3]
  have hpl : hashedPayload (AwsRequests.s3 method bucket path body ts sha clen).payload = sha := by
    rw [hsha]; rfl
  refine ⟨?_, by unfold signedHeaders; rw [hsp]; simp [joinWith, ascii]⟩
  unfold canonicalRequest canonicalHeaders signedHeaders
  rw [hsp, hpl]
  simp only [AwsRequests.s3, canonicalUri_s3 path hp, canonicalQuery_nil]
  simp [s3HeadersCreq, joinWith, lit, ascii, List.append_assoc]

theorem canonicalUri_root (service : Bytes) : canonicalUri service (ascii "/") = ascii "/" := by
  unfold canonicalUri
  rw [if_neg (by decide)]
  split
  · decide
  · decide

theorem svcHeadersCreq_eq (region svc ts clen sha : Bytes) (body : Option Bytes)
    (hr : Unres region) (hs : Unres svc) (hts : Unres ts)
    (hsha : sha = hex (Sha256.hash (body.getD []))) :
    svcHeadersCreq region svc sha ts =
      canonicalRequest svc (AwsRequests.svc region svc body ts sha clen) AwsRequests.signedBasic ∧
    signedHeaders (AwsRequests.svc region svc body ts sha clen).headers AwsRequests.signedBasic = ascii "host;x-amz-content-sha256;x-amz-date" := by
  have h1 : trim (svc ++ ascii "." ++ region ++ ascii ".amazonaws.com") = svc ++ ascii "." ++ region ++ ascii ".amazonaws.com" :=
    (((hs.append (unres_of_all (by decide))).append hr).append (unres_of_all (by decide))).trim
  have h2 : trim ts = ts := hts.trim
  have h3 : trim sha = sha := by rw [hsha]; exact Unres.trim (unreserved_hex _)
  simp [ascii] at h1
  have hsp : signedPairs (AwsRequests.svc region svc body ts sha clen).headers AwsRequests.signedBasic =
      [(ascii "host", svc ++ ascii "." ++ region ++ ascii ".amazonaws.com"), (ascii "x-amz-content-sha256", sha), (ascii "x-amz-date", ts)] := by
    simp [AwsRequests.svc, signedPairs, AwsRequests.signedBasic, ascii, lower, toLower, sortBy, insertBy, bytesLe, h1, h2, h3]
  have hpl : hashedPayload (AwsRequests.svc region svc body ts sha clen).payload = sha := by
    rw [hsha]; rfl
  refine ⟨?_, by unfold signedHeaders; rw [hsp]; simp [joinWith, ascii]⟩
  unfold canonicalRequest canonicalHeaders signedHeaders
  rw [hsp, hpl]
  simp only [AwsRequests.svc, canonicalUri_root, canonicalQuery_nil]
  simp [svcHeadersCreq, joinWith, lit, ascii, List.append_assoc]

theorem dynamodbHeadersCreq_eq (region op ts clen sha : Bytes) (body : Option Bytes)
    (hr : Unres region) (ho : Unres op) (hts : Unres ts)
    (hsha : sha = hex (Sha256.hash (body.getD []))) :
    dynamodbHeadersCreq region op sha ts =
      canonicalRequest (ascii "dynamodb") (AwsRequests.dynamodb region op body ts sha clen) AwsRequests.signedDynamodb ∧
    signedHeaders (AwsRequests.dynamodb region op body ts sha clen).headers AwsRequests.signedDynamodb = ascii "host;x-amz-content-sha256;x-amz-date;x-amz-target" := by
  have h1 : trim (ascii "dynamodb." ++ region ++ ascii ".amazonaws.com") = ascii "dynamodb." ++ region ++ ascii ".amazonaws.com" :=
    (((unres_of_all (by decide) : Unres (ascii "dynamodb.")).append hr).append (unres_of_all (by decide))).trim
  have h2 : trim ts = ts := hts.trim
  have h3 : trim sha = sha := by rw [hsha]; exact Unres.trim (unreserved_hex _)
  have h4 : trim (ascii "DynamoDB_20120810." ++ op) = ascii "DynamoDB_20120810." ++ op :=
    ((unres_of_all (by decide) : Unres (ascii "DynamoDB_20120810.")).append ho).trim
  simp [ascii] at h1 h4
  have hsp : signedPairs (AwsRequests.dynamodb region op body ts sha clen).headers AwsRequests.signedDynamodb =
      [(ascii "host", ascii "dynamodb." ++ region ++ ascii ".amazonaws.com"), (ascii "x-amz-content-sha256", sha),
       (ascii "x-amz-date", ts), (ascii "x-amz-target", ascii "DynamoDB_20120810." ++ op)] := by
    simp [AwsRequests.dynamodb, signedPairs, AwsRequests.signedDynamodb, AwsRequests.signedBasic, ascii, lower, toLower, sortBy, insertBy, bytesLe, h1, h2, h3, h4]
  have hpl : hashedPayload (AwsRequests.dynamodb region op body ts sha clen).payload = sha := by
    rw [hsha]; rfl
  refine ⟨?_, by unfold signedHeaders; rw [hsp]; simp [joinWith, ascii]⟩
  unfold canonicalRequest canonicalHeaders signedHeaders
  rw [hsp, hpl]
  simp only [AwsRequests.dynamodb, canonicalUri_root, canonicalQuery_nil]
  simp [dynamodbHeadersCreq, joinWith, lit, ascii, List.append_assoc]

theorem signedPairs_host (hv : Bytes) (h : trim hv = hv) :
    signedPairs [(ascii "Host", hv)] AwsRequests.signedHost = [(ascii "host", hv)] := by
  simp [signedPairs, AwsRequests.signedHost, ascii, lower, toLower, sortBy, insertBy, h]

theorem Unres.take {a : Bytes} (ha : Unres a) (n : Nat) : Unres (a.take n) :=
  fun c hc => ha c (List.mem_of_mem_take hc)

/-- the canonical query string of the presigned request is the parameter string both `asprintf`
    calls of `aws_sign_s3_querystr` print -/
theorem s3QuerystrParams_eq (keyId ts region : Bytes) (expiry : Int) (r : Request)
    (hk : Unres keyId) (hr : Unres region) (hts : Unres ts)
    (hq : r.query = []) (hsh : signedHeaders r.headers AwsRequests.signedHost = ascii "host") :
    canonicalQuery (presignedRequest keyId ts region (ascii "s3") (decimal expiry) r AwsRequests.signedHost).query =
      s3QuerystrParams keyId (dateOf ts) ts region expiry := by
  have hd : Unres (dateOf ts) := hts.take 8
  have e (s : Bytes) (h : Unres s) : uriEncode true s = s := uriEncode_id true s h
  have eslash : uriEncode true [47] = ascii "%2F" := by decide
  have ecred : uriEncode true (keyId ++ [47] ++ scope ts region (ascii "s3")) =
      keyId ++ ascii "%2F" ++ dateOf ts ++ ascii "%2F" ++ region ++ ascii "%2F" ++ ascii "s3" ++ ascii "%2Faws4_request" := by
    unfold scope
    simp only [uriEncode_append, e _ hk, e _ hd, e _ hr, eslash,
      e (ascii "s3") (unres_of_all (by decide)), e (ascii "aws4_request") (unres_of_all (by decide))]
    simp [ascii, List.append_assoc]
  unfold presignedRequest presignParams canonicalQuery
  simp only [hq, hsh, List.nil_append, List.map, ecred, e _ hts, e _ (unreserved_decimal expiry),
    e (ascii "X-Amz-Algorithm") (unres_of_all (by decide)), e (ascii "AWS4-HMAC-SHA256") (unres_of_all (by decide)),
    e (ascii "X-Amz-Credential") (unres_of_all (by decide)), e (ascii "X-Amz-Date") (unres_of_all (by decide)),
    e (ascii "X-Amz-Expires") (unres_of_all (by decide)), e (ascii "X-Amz-SignedHeaders") (unres_of_all (by decide)),
    e (ascii "host") (unres_of_all (by decide))]
  simp [sortBy, insertBy, paramLe, bytesLe, ascii, joinWith, s3QuerystrParams, lit, List.append_assoc]

theorem s3QuerystrCreq_eq (keyId method bucket path ts region : Bytes) (expiry : Int)
    (hk : Unres keyId) (hr : Unres region) (hb : Unres bucket)
    (hp : ∀ c ∈ path, (isUnreserved c || c == 47) = true) (hts : Unres ts) :
    s3QuerystrCreq method bucket path (s3QuerystrParams keyId (dateOf ts) ts region expiry) =
      canonicalRequest (ascii "s3")
        (presignedRequest keyId ts region (ascii "s3") (decimal expiry) (AwsRequests.s3Url method bucket path)
          AwsRequests.signedHost)
        AwsRequests.signedHost := by
  have h1 : trim (bucket ++ ascii ".s3.amazonaws.com") = bucket ++ ascii ".s3.amazonaws.com" :=
    (hb.append unres_ascii_s3host).trim
  have hsp := signedPairs_host _ h1
  have hsh : signedHeaders (AwsRequests.s3Url method bucket path).headers AwsRequests.signedHost = ascii "host" := by
    unfold signedHeaders; rw [show (AwsRequests.s3Url method bucket path).headers = [(ascii "Host", bucket ++ ascii ".s3.amazonaws.com")] from rfl, hsp]; rfl
  have hq := s3QuerystrParams_eq keyId ts region expiry (AwsRequests.s3Url method bucket path) hk hr hts rfl hsh
  unfold canonicalRequest
  rw [hq]
  unfold canonicalHeaders signedHeaders
  simp only [presignedRequest, AwsRequests.s3Url, hsp, canonicalUri_s3 path hp, hashedPayload]
  simp [s3QuerystrCreq, joinWith, lit, ascii, List.append_assoc]

/-! success: every instant up to 9999-12-31T23:59:59Z can be formatted -/

theorem gmtime_year_le (t : Nat) (h : t ≤ 253402300799) : (gmtime t).year ≤ 9999 := by
  unfold gmtime
  simp only
  generalize hz : t / 86400 + 719468 = z
  have hzb : z ≤ 3652364 := by omega
  generalize hdoe : z % 146097 = doe
  generalize hera : z / 146097 = era
  have h1 : doe < 146097 := by omega
  have h2 : era ≤ 24 := by omega
  have h3 : era = 24 → doe ≤ 146036 := by omega
  clear hz hzb hdoe hera h
  generalize hyoe : (doe - doe / 1460 + doe / 36524 - doe / 146096) / 365 = yoe
  have h4 : yoe ≤ 399 := by omega
  generalize hdoy : doe - (365 * yoe + yoe / 4 - yoe / 100) = doy
  have h5 : era = 24 → yoe = 399 → doy ≤ 305 := by omega
  generalize hmp : (5 * doy + 2) / 153 = mp
  have h6 : doy ≤ 305 → mp < 10 := by omega
  by_cases hm : mp < 10
  · simp only [hm, if_true]
    rw [if_neg (by omega)]
    omega
  · simp only [hm, if_false]
    rw [if_pos (by omega)]
    have : ¬ (era = 24 ∧ yoe = 399) := fun ⟨a, b⟩ => hm (h6 (h5 a b))
    omega

theorem formatClock_isSome (tm : Tm) (h : tm.year ≤ 9999) : (formatClock tm).isSome = true := by
  unfold formatClock strftimeDate strftimeDatetime year4
  simp [h]

/-! `%d` prints the decimal numeral -/

open Percival.Spec.AwsRequests (decimalValue)

theorem digit_toNat (n : Nat) : (digit n).toNat = 48 + n % 10 := by
  unfold digit
  rw [UInt8.toNat_ofNat']
  omega

theorem decimalValue_snoc (s : Bytes) (c : UInt8) : decimalValue (s ++ [c]) = 10 * decimalValue s + (c.toNat - 48) := by
  simp [decimalValue, List.foldl_append]

theorem decimalNat_value (n : Nat) : decimalValue (decimalNat n) = n := by
  induction n using decimalNat.induct with
  | case1 n h => unfold decimalNat; simp [h, decimalValue, digit_toNat]
  | case2 n h ih =>
    unfold decimalNat; simp only [h, if_false]
    rw [decimalValue_snoc, ih, digit_toNat]; omega

theorem decimalNat_digits (n : Nat) : ∀ c ∈ decimalNat n, 48 ≤ c.toNat ∧ c.toNat ≤ 57 := by
  induction n using decimalNat.induct with
  | case1 n h => unfold decimalNat; simp [h, digit_toNat]; omega
  | case2 n h ih =>
    unfold decimalNat; simp only [h, if_false]
    intro c hc
    simp only [List.mem_append, List.mem_singleton] at hc
    rcases hc with hc | hc
    · exact ih c hc
    · subst hc; rw [digit_toNat]; omega

/-- no leading zero, except for `0` itself -/
theorem decimalNat_head (n : Nat) : ∃ c r, decimalNat n = c :: r ∧ (c.toNat = 48 → n = 0) := by
  induction n using decimalNat.induct with
  | case1 n h => unfold decimalNat; simp [h, digit_toNat]; omega
  | case2 n h ih =>
    unfold decimalNat; simp only [h, if_false]
    obtain ⟨c, r, e, hz⟩ := ih
    refine ⟨c, r ++ [digit n], by rw [e]; rfl, ?_⟩
    intro hc; have := hz hc; omega

end Percival.Proofs.AwsSign
