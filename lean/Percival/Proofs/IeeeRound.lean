import Percival.Proofs.IeeeArith
/-! C16: what `Model.Strtod.roundPos` computes, in terms of "nearest multiple of `2^e`" (`NearestInt`). -/
namespace Percival.Proofs.Ieee
open Percival.Model.Strtod Percival.Proofs.IeeeArith Percival.Spec.Ieee

/-- `m·u` is the multiple of `u` nearest to `q`, `m` even on a tie -/
structure NearestInt (q u : Rat) (m : Nat) : Prop where
  hi : q ≤ m * u + u / 2
  lo : m * u - u / 2 ≤ q
  tie : (q = m * u + u / 2 ∨ q = m * u - u / 2) → m % 2 = 0

theorem roundAt_spec (n d : Nat) (hd : 0 < d) (e : Int) (q : Rat) (hq : q * d = n) :
    ∃ m ix, roundAt n d e = some (m, ix) ∧ NearestInt q (2 ^ e) m ∧ (ix = true ↔ q ≠ m * 2 ^ e) := by
  obtain ⟨h1, h2⟩ := scaled_spec n d hd e q hq
  unfold roundAt
  simp only [show (scaled n d e).2 ≠ 0 by omega, if_false]
  obtain ⟨a, b, c, d'⟩ := divRound_rat q (2 ^ e) (p2_pos e) _ _ h1 h2
  exact ⟨_, _, rfl, ⟨a, b, c⟩, d'⟩

theorem p2_pred (p : Nat) (hp : 1 ≤ p) : ((2 ^ (p - 1) : Nat) : Rat) = 2 ^ ((p : Int) - 1) := by
  rw [← p2_nat]; congr 1; omega

theorem normExp_spec (f : Format) (hp : 1 ≤ f.p) (n d : Nat) (hn : 0 < n) (hd : 0 < d) (q : Rat) (hq : q * d = n) :
    2 ^ ((f.p : Int) - 1) * 2 ^ (normExp f n d) ≤ q ∧ q < 2 ^ (f.p : Int) * 2 ^ (normExp f n d) := by
  unfold normExp
  simp only
  have hl1 := Nat.log2_self_le (Nat.pos_iff_ne_zero.mp hn)
  have hl2 := @Nat.lt_log2_self n
  have hl3 := Nat.log2_self_le (Nat.pos_iff_ne_zero.mp hd)
  have hl4 := @Nat.lt_log2_self d
  generalize Nat.log2 n = ln at *
  generalize Nat.log2 d = ld at *
  have c1 := natCast_le hl1
  have c2 := Rat.natCast_lt_natCast.mpr hl2
  have c3 := natCast_le hl3
  have c4 := Rat.natCast_lt_natCast.mpr hl4
  rw [← p2_nat] at c1 c2 c3 c4
  have hq0 : 0 < q := by
    have : (0 : Rat) < n := Rat.natCast_pos.mpr hn
    have hd' : (0 : Rat) < d := Rat.natCast_pos.mpr hd
    rw [← hq] at this
    exact (Rat.mul_pos_iff_of_pos_right hd').mp this
  -- q > 2^(ln - ld - 1), q < 2^(ln - ld + 1)
  have A : (2 : Rat) ^ ((ln : Int) - (ld : Int) - 1) < q := by
    apply Rat.lt_of_mul_lt_mul_right (c := 2 ^ ((ld + 1 : Nat) : Int)) _ (Rat.le_of_lt (p2_pos _))
    have e1 : (2 : Rat) ^ ((ln : Int) - (ld : Int) - 1) * 2 ^ ((ld + 1 : Nat) : Int) = 2 ^ (ln : Int) := by
      rw [← p2_add]; congr 1; omega
    rw [e1]
    have := Rat.mul_lt_mul_of_pos_left c4 hq0
    grind
  have B : q < (2 : Rat) ^ ((ln : Int) - (ld : Int) + 1) := by
    apply Rat.lt_of_mul_lt_mul_right (c := 2 ^ (ld : Int)) _ (Rat.le_of_lt (p2_pos _))
    have e1 : (2 : Rat) ^ ((ln : Int) - (ld : Int) + 1) * 2 ^ (ld : Int) = 2 ^ ((ln + 1 : Nat) : Int) := by
      rw [← p2_add]; congr 1; omega
    rw [e1]
    have := Rat.mul_le_mul_of_nonneg_left c3 (Rat.le_of_lt hq0)
    grind
  generalize hl : (ln : Int) - (ld : Int) - ((f.p : Int) - 1) = l
  obtain ⟨s2, s1⟩ := scaled_spec n d hd l q hq
  have eA : (2 : Rat) ^ ((ln : Int) - (ld : Int) - 1) = 2 ^ ((f.p : Int) - 1) * 2 ^ (l - 1) := by
    rw [← p2_add]; congr 1; omega
  have eB : (2 : Rat) ^ ((ln : Int) - (ld : Int) + 1) = 2 ^ (f.p : Int) * 2 ^ l := by
    rw [← p2_add]; congr 1; omega
  rw [eA] at A; rw [eB] at B
  have hs2 : (0 : Rat) < (scaled n d l).2 := Rat.natCast_pos.mpr s2
  have hl' : (2 : Rat) ^ l = 2 * 2 ^ (l - 1) := by rw [← p2_succ]; congr 1; omega
  have hp' : (2 : Rat) ^ (f.p : Int) = 2 * 2 ^ ((f.p : Int) - 1) := by rw [← p2_succ]; congr 1; omega
  split
  · next h =>
    have c := Rat.natCast_lt_natCast.mpr h
    rw [Rat.natCast_mul, p2_pred _ hp] at c
    refine ⟨Rat.le_of_lt A, ?_⟩
    -- N0 < D0 * 2^(p-1), N0 * 2^l = q * D0  ⇒  q < 2^(p-1) * 2^l
    have c' := Rat.mul_lt_mul_of_pos_right c (p2_pos l)
    rw [s1] at c'
    have : q < 2 ^ ((f.p : Int) - 1) * 2 ^ l := by
      apply Rat.lt_of_mul_lt_mul_right (c := ((scaled n d l).2 : Rat)) _ (Rat.le_of_lt hs2)
      grind
    rw [show (2 : Rat) ^ (f.p : Int) * 2 ^ (l - 1) = 2 ^ ((f.p : Int) - 1) * 2 ^ l by
      rw [← p2_add, ← p2_add]; congr 1; omega]
    exact this
  · next h =>
    have h' : (scaled n d l).2 * 2 ^ (f.p - 1) ≤ (scaled n d l).1 := by omega
    have c := natCast_le h'
    rw [Rat.natCast_mul, p2_pred _ hp] at c
    refine ⟨?_, B⟩
    have c' := Rat.mul_le_mul_of_nonneg_right c (Rat.le_of_lt (p2_pos l))
    rw [s1] at c'
    apply le_of_mul_le_mul_pos (c := ((scaled n d l).2 : Rat)) _ hs2
    grind


/-- the exponent actually used: not below `qmin` -/
def clampE (f : Format) (e0 : Int) : Int := if e0 < f.qmin then f.qmin else e0

/-- everything the rounding theorems need to know about `roundPos` -/
theorem roundPos_spec (f : Format) (hp : 1 ≤ f.p) (n d : Nat) (hn : 0 < n) (hd : 0 < d) (q : Rat) (hq : q * d = n) :
    ∃ (e0 : Int) (mu m : Nat) (ix : Bool),
      2 ^ ((f.p : Int) - 1) * 2 ^ e0 ≤ q ∧ q < 2 ^ (f.p : Int) * 2 ^ e0 ∧
      NearestInt q (2 ^ e0) mu ∧ NearestInt q (2 ^ clampE f e0) m ∧ (ix = true ↔ q ≠ m * 2 ^ clampE f e0) ∧
      roundPos f n d = some
        { m := if m = 2 ^ f.p then 2 ^ (f.p - 1) else m,
          e := if m = 2 ^ f.p then clampE f e0 + 1 else clampE f e0,
          inexact := ix,
          tiny := decide (e0 < f.qmin ∧ ¬ (e0 + 1 = f.qmin ∧ mu = 2 ^ f.p)) } := by
  obtain ⟨n1, n2⟩ := normExp_spec f hp n d hn hd q hq
  obtain ⟨mu, ixu, ru, hu, _⟩ := roundAt_spec n d hd (normExp f n d) q hq
  obtain ⟨m, ix, rm, hm, hix⟩ := roundAt_spec n d hd (clampE f (normExp f n d)) q hq
  refine ⟨normExp f n d, mu, m, ix, n1, n2, hu, hm, hix, ?_⟩
  unfold roundPos
  rw [if_neg (by omega)]
  simp only
  unfold clampE at rm
  rw [ru, rm]
  simp only [clampE]
  split <;> rfl

/-! ### nearest multiple of `u` -/

theorem natCast_succ_le {a b : Nat} (h : a < b) : (a : Rat) + 1 ≤ b := by
  have := natCast_le (show a + 1 ≤ b from h)
  simpa [Rat.natCast_add] using this

theorem mul_u_le {a b u : Rat} (h : a ≤ b) (hu : 0 < u) : a * u ≤ b * u :=
  Rat.mul_le_mul_of_nonneg_right h (Rat.le_of_lt hu)

/-- a different multiple of `u` is at least `u/2` away -/
theorem nearestInt_far {q u : Rat} {m : Nat} (h : NearestInt q u m) (hu : 0 < u) (j : Nat) (hj : j ≠ m) :
    u / 2 ≤ (q - j * u).abs := by
  have hc := abs_cases (q - j * u)
  have := h.hi; have := h.lo
  rcases Nat.lt_or_gt_of_ne hj with hlt | hgt
  · have := mul_u_le (natCast_succ_le hlt) hu
    grind
  · have := mul_u_le (natCast_succ_le hgt) hu
    grind

theorem nearestInt_near {q u : Rat} {m : Nat} (h : NearestInt q u m) : (q - m * u).abs ≤ u / 2 := by
  have hc := abs_cases (q - m * u)
  have := h.hi; have := h.lo
  grind

theorem nearestInt_le {q u : Rat} {m : Nat} (h : NearestInt q u m) (hu : 0 < u) (j : Nat) :
    (q - m * u).abs ≤ (q - j * u).abs := by
  by_cases hj : j = m
  · subst hj; exact Rat.le_refl
  · exact Rat.le_trans (nearestInt_near h) (nearestInt_far h hu j hj)

theorem nearestInt_tie {q u : Rat} {m : Nat} (h : NearestInt q u m) (hu : 0 < u) (j : Nat) (hj : j ≠ m)
    (heq : (q - j * u).abs = (q - m * u).abs) : m % 2 = 0 := by
  have h1 := nearestInt_near h
  have h2 := nearestInt_far h hu j hj
  apply h.tie
  have hc := abs_cases (q - m * u)
  grind
end Percival.Proofs.Ieee
