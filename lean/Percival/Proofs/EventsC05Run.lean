import Percival.Proofs.EventsC05Ops
/-!
# C05: monitor steps (poll, ret), API calls, callbacks, select and the three gets (helper lemmas)
-/
set_option linter.unusedSimpArgs false
namespace Percival.Proofs.EventsC05
open Percival.Spec.Events Percival.Model.Events Percival.Model
open Percival.Proofs.EventsNet Percival.Proofs.EventsImm Percival.Proofs.EventsTQ
open Percival.Proofs.EventsC04 (TmOk TmView)

/-! ## monitor-side facts -/

theorem minDeadline_spec : ∀ (l : List C05.Tm) (d : Nat), C05.minDeadline l = some d →
    (∃ t ∈ l, t.deadline = d) ∧ ∀ t ∈ l, d ≤ t.deadline := by
  intro l
  induction l with
  | nil => intro d h; simp [C05.minDeadline] at h
  | cons a as ih =>
    intro d h
    simp only [C05.minDeadline] at h
    cases hm : C05.minDeadline as with
    | none =>
      rw [hm] at h; simp only [Option.some.injEq] at h; subst h
      have has : as = [] := by
        cases as with
        | nil => rfl
        | cons b bs => simp only [C05.minDeadline] at hm; split at hm <;> cases hm
      subst has
      exact ⟨⟨a, by simp, rfl⟩, by simp⟩
    | some d' =>
      rw [hm] at h; simp only [Option.some.injEq] at h; subst h
      obtain ⟨⟨t, ht, htd⟩, hall⟩ := ih d' hm
      refine ⟨?_, ?_⟩
      · by_cases hle : a.deadline ≤ d'
        · exact ⟨a, by simp, by rw [Nat.min_eq_left hle]⟩
        · exact ⟨t, List.mem_cons_of_mem _ ht, by rw [htd, Nat.min_eq_right (by omega)]⟩
      · intro x hx
        rcases List.mem_cons.mp hx with rfl | hx
        · exact Nat.min_le_left _ _
        · exact Nat.le_trans (Nat.min_le_right _ _) (hall x hx)

theorem minDeadline_none (l : List C05.Tm) : C05.minDeadline l = none ↔ l = [] := by
  cases l with
  | nil => simp [C05.minDeadline]
  | cons a as => simp only [C05.minDeadline]; split <;> simp

theorem expired_iff (m : C05.M) : C05.expired m = true ↔ ∃ t ∈ m.tms, t.deadline ≤ m.clock := by
  unfold C05.expired
  rw [List.any_eq_true]
  constructor
  · rintro ⟨t, ht, h⟩; exact ⟨t, ht, by simpa using h⟩
  · rintro ⟨t, ht, h⟩; exact ⟨t, ht, by simpa using h⟩

theorem ceilMs_nonneg (us : Nat) : 0 ≤ C05.ceilMs us := by
  unfold C05.ceilMs; omega

theorem ceilMs_zero : C05.ceilMs 0 = 0 := by decide

theorem satMs_zero : satMs 0 = 0 := by decide

theorem checkPoll_ok (m : C05.M) (t : Int) (h1 : ¬ t < -1) (h2 : (decide (t ≠ 0) && C05.runnable m) = false)
    (h3 : ∀ d, C05.minDeadline m.tms = some d → ¬ t = -1 ∧ ¬ t > C05.ceilMs (d - m.clock)) :
    C05.checkPoll m t = .ok () := by
  unfold C05.checkPoll
  simp only [h1, if_false, h2, Bool.false_eq_true]
  cases hd : C05.minDeadline m.tms with
  | none => rfl
  | some d =>
    obtain ⟨h4, h5⟩ := h3 d hd
    simp only [h4, h5, if_false]
    rfl

/-- the timeout of the first (possibly blocking) poll passes the monitor's check -/
theorem checkPoll_first {C : TQContract} {m : C05.M} {s : State} (r : Rel C m s) (himm : m.imms = []) :
    C05.checkPoll m (selectTimeout (timerMin s)) = .ok () := by
  unfold timerMin
  rcases EventsC04.tm_getmin r.tm.ok with ⟨hg, hnil⟩ | ⟨id, us, dl, hg, hv, hmin⟩
  · -- no timers
    have htms : m.tms = [] := by
      cases htm : m.tms with
      | nil => rfl
      | cons t ts =>
        have : (⟨t.id, t.usec, t.deadline⟩ : C05.Tm) ∈ m.tms := by rw [htm]; exact List.mem_cons_self
        obtain ⟨t', _, hmem, _⟩ := (r.tm.iff _ _ _).mp this
        rw [hnil] at hmem; cases hmem
    rw [hg]
    apply checkPoll_ok
    · simp [selectTimeout]
    · simp [C05.runnable, C05.expired, himm, htms]
    · intro d hd; rw [htms] at hd; simp [C05.minDeadline] at hd
  · rw [hg]
    simp only [Option.map_some]
    rw [selectTimeout_timerDiff s.clock dl]
    have hmem : (⟨id, us, dl⟩ : C05.Tm) ∈ m.tms := (r.tm.iff id us dl).mpr hv
    have hall : ∀ t ∈ m.tms, dl ≤ t.deadline := fun t ht => hmin t.id t.usec t.deadline ((r.tm.iff _ _ _).mp ht)
    have hnn := satMs_nonneg (dl - s.clock)
    have hle := satMs_le (dl - s.clock)
    apply checkPoll_ok
    · omega
    · cases hrn : C05.runnable m with
      | false => simp
      | true =>
        simp only [C05.runnable, himm, List.isEmpty_nil, Bool.not_true, Bool.false_or] at hrn
        obtain ⟨t', ht', hexp⟩ := (expired_iff m).mp hrn
        have := hall t' ht'
        have hz : dl - s.clock = 0 := by rw [r.clock] at hexp; omega
        rw [hz, satMs_zero]; simp
    · intro d hd
      obtain ⟨⟨t, ht, htd⟩, hle⟩ := minDeadline_spec m.tms d hd
      have hdd : d = dl := by
        have a1 := hle _ hmem
        have a2 := hall t ht
        simp only at a1
        omega
      subst hdd
      rw [r.clock]
      constructor <;> omega

/-- a zero timeout always passes -/
theorem checkPoll_zero (m : C05.M) : C05.checkPoll m 0 = .ok () := by
  apply checkPoll_ok
  · omega
  · simp
  · intro d _
    have := ceilMs_nonneg (d - m.clock)
    constructor <;> omega


/-! ## single monitor steps -/

/-- when the monitor accepts the return value -/
theorem ret_ok (m : C05.M) (rc : Int)
    (h : match m.stop with
         | some c => rc = c
         | none => rc = 0 ∧ ((m.startIntr = false ∧ m.intr = false) →
             ¬ (m.startRunnable = true ∧ m.fired = 0) ∧ m.mustFire = false ∧
             ¬ (m.polled = true ∧ m.nets.any (·.ready) = true) ∧ ¬ (m.polled = true ∧ C05.expired m = true))) :
    C05.step m (.ret rc) = .ok { m with inRun := false, intr := false, stop := none, mustFire := false } := by
  cases hs : m.stop with
  | some c =>
    rw [hs] at h
    simp only at h
    subst h
    simp only [C05.step, hs, ne_eq, not_true_eq_false, if_false]
    rfl
  | none =>
    rw [hs] at h
    simp only at h
    obtain ⟨h0, hrest⟩ := h
    subst h0
    simp only [C05.step, hs, ne_eq, not_true_eq_false, if_false]
    by_cases hc : (!m.startIntr && !m.intr) = true
    · have hc' : m.startIntr = false ∧ m.intr = false := by
        simp only [Bool.and_eq_true, Bool.not_eq_true'] at hc; exact hc
      obtain ⟨a1, a2, a3, a4⟩ := hrest hc'
      have b1 : (m.startRunnable && m.fired == 0) = false := by
        cases h1 : m.startRunnable <;> cases h2 : (m.fired == 0) <;> simp_all
      have b3 : (m.polled && m.nets.any (·.ready)) = false := by
        cases h1 : m.polled <;> cases h2 : m.nets.any (·.ready) <;> simp_all
      have b4 : (m.polled && C05.expired m) = false := by
        cases h1 : m.polled <;> cases h2 : C05.expired m <;> simp_all
      simp only [hc, if_true, b1, a2, b3, b4, Bool.false_eq_true, if_false]
      rfl
    · have hc' : (!m.startIntr && !m.intr) = false := by simpa using hc
      simp only [hc', Bool.false_eq_true, if_false]
      rfl

/-- the monitor's state after an answered poll -/
def pollOkM (m : C05.M) (timeout : Int) (adv : Nat) (fds : List PollEntry) : C05.M :=
  let nets := m.nets.map (fun n => { n with ready := (revOf fds n.fd).dir n.d || (revOf fds n.fd).errhup })
  let m' : C05.M := { m with nets, clock := m.clock + adv, polled := true, looked := true }
  { m' with mustFire := m.mustFire || (timeout ≠ 0 && (nets.any (·.ready) || C05.expired m')) }

/-- the call in progress may wait in this poll: it is not an `events_spin` whose `done` is already set -/
def MayBlock (m : C05.M) (timeout : Int) : Prop := (m.spin && m.done && decide (timeout ≠ 0)) = false

theorem mayBlock_zero (m : C05.M) : MayBlock m 0 := by simp [MayBlock]

theorem mayBlock_of_ne {m m' : C05.M} {t t' : Int} (h : MayBlock m t) (h1 : m'.spin = m.spin) (h2 : m'.done = m.done)
    (h3 : t' ≠ 0 → t ≠ 0) : MayBlock m' t' := by
  unfold MayBlock at *
  rw [h1, h2]
  by_cases ht : t' = 0
  · simp [ht]
  · have := h3 ht
    simpa [this, ht] using h

theorem step_poll_ok (m : C05.M) (timeout : Int) (adv : Nat) (fds : List PollEntry)
    (hstop : m.stop = none) (hb : MayBlock m timeout) (hc : C05.checkPoll m timeout = .ok ()) :
    C05.step m (.poll timeout adv fds .ok) = .ok (pollOkM m timeout adv fds) := by
  have hno : m.stop.isSome = false := by rw [hstop]; rfl
  unfold MayBlock at hb
  simp only [C05.step, hno, hb, Bool.false_eq_true, if_false, hc]
  rfl

theorem step_poll_eintr (m : C05.M) (timeout : Int) (adv : Nat) (fds : List PollEntry)
    (hstop : m.stop = none) (hb : MayBlock m timeout) (hc : C05.checkPoll m timeout = .ok ()) :
    C05.step m (.poll timeout adv fds .eintr) = .ok { m with clock := m.clock + adv } := by
  have hno : m.stop.isSome = false := by rw [hstop]; rfl
  unfold MayBlock at hb
  simp only [C05.step, hno, hb, Bool.false_eq_true, if_false, hc]
  rfl

theorem step_poll_stuck (m : C05.M) (timeout : Int) (adv : Nat) (fds : List PollEntry)
    (hstop : m.stop = none) (hb : MayBlock m timeout) (hc : C05.checkPoll m timeout = .ok ()) :
    C05.step m (.poll timeout adv fds .stuck) = .ok (C05.pollIntr m timeout adv) := by
  have hno : m.stop.isSome = false := by rw [hstop]; rfl
  unfold MayBlock at hb
  simp only [C05.step, hno, hb, Bool.false_eq_true, if_false, hc]
  rfl

theorem step_poll_intr (m : C05.M) (timeout : Int) (adv : Nat) (fds : List PollEntry)
    (hstop : m.stop = none) (hb : MayBlock m timeout) (hc : C05.checkPoll m timeout = .ok ()) :
    C05.step m (.poll timeout adv fds .intr) = .ok (C05.pollIntr m timeout adv) := by
  have hno : m.stop.isSome = false := by rw [hstop]; rfl
  unfold MayBlock at hb
  simp only [C05.step, hno, hb, Bool.false_eq_true, if_false, hc]
  rfl

/-! ## the run -/

theorem run_append (m : C05.M) (t1 t2 : Trace) :
    C05.run m (t1 ++ t2) = (C05.run m t1).bind (fun m' => C05.run m' t2) := by
  induction t1 generalizing m with
  | nil => rfl
  | cons e es ih =>
    simp only [List.cons_append, C05.run]
    cases hs : C05.step m e with
    | error err => rfl
    | ok m' => simp only [bind, Except.bind]; exact ih m'

theorem run_snoc (m0 m : C05.M) (tr : List Ev) (e : Ev) (h : C05.run m0 tr.reverse = .ok m) :
    C05.run m0 (e :: tr).reverse = C05.step m e := by
  rw [List.reverse_cons, run_append, h]
  simp only [Except.bind, C05.run]
  cases C05.step m e <;> rfl

def Adm (s : State) : Prop := ∃ m, C05.run {} s.trace.reverse = .ok m

/-- accepted so far, monitor and model related, and the control predicate `P` holds -/
def Good (C : TQContract) (P : C05.M → State → Prop) (s : State) : Prop :=
  s.fault = false ∧ ∃ m, C05.run {} s.trace.reverse = .ok m ∧ Rel C m s ∧ P m s

def Weak (C : TQContract) (P : C05.M → State → Prop) (s : State) : Prop :=
  Good C P s ∨ (s.fault = true ∧ Adm s)

theorem Good.adm {C : TQContract} {P : C05.M → State → Prop} {s : State} (h : Good C P s) : Adm s := by
  obtain ⟨_, m, hm, _⟩ := h; exact ⟨m, hm⟩

theorem Weak.adm {C : TQContract} {P : C05.M → State → Prop} {s : State} (h : Weak C P s) : Adm s := by
  rcases h with h | h
  · exact h.adm
  · exact h.2

theorem Good.mono {C : TQContract} {P Q : C05.M → State → Prop} {s : State} (h : Good C P s)
    (hpq : ∀ m, Rel C m s → P m s → Q m s) : Good C Q s := by
  obtain ⟨hf, m, hm, hr, hp⟩ := h
  exact ⟨hf, m, hm, hr, hpq m hr hp⟩

theorem rel_of_eq {C : TQContract} {m : C05.M} {s s' : State} (r : Rel C m s)
    (h1 : s'.net = s.net) (h2 : s'.imm = s.imm) (h3 : s'.tq = s.tq) (h4 : s'.timers = s.timers)
    (h5 : s'.nextRec = s.nextRec) (h6 : s'.clock = s.clock) (h7 : s'.intr = s.intr)
    (h8 : s'.done = s.done) : Rel C m s' := by
  refine ⟨by rw [h6]; exact r.clock, by rw [h7]; exact r.intr, by rw [h2]; exact r.imm, r.immIds,
    by rw [h1]; exact r.net, ?_, r.disjIN, r.disjIT, r.disjNT, by rw [h8]; exact r.done⟩
  rw [h3, h4, h5]; exact r.tm

/-- events that only the order/progress clauses look at and that leave the monitor's state alone -/
theorem step_fault (m : C05.M) : C05.step m .fault = .ok m := rfl

theorem adm_fault {s : State} (h : Adm s) : Adm (faulted s) := by
  obtain ⟨m, hm⟩ := h
  exact ⟨m, by show C05.run {} (_ :: s.trace).reverse = _; rw [run_snoc _ m _ _ hm]; rfl⟩

theorem weak_faulted {s : State} (C : TQContract) (P : C05.M → State → Prop) (h : Adm s) : Weak C P (faulted s) :=
  Or.inr ⟨rfl, adm_fault h⟩


theorem step_skip (m : C05.M) (o : Op) (hc : ∀ us, o ≠ .clock us) (hi : o ≠ .interrupt) (hd : o ≠ .done) :
    C05.step m (.op o .skip) = .ok m := by
  cases o <;> first | rfl | (exact absurd rfl (hc _)) | (exact absurd rfl hi) | (exact absurd rfl hd)

/-- one API call keeps `Good` for every control predicate that API calls cannot change -/
theorem applyOp_good (C : TQContract) (P : C05.M → Prop) (hP : ∀ m m', Ctl m m' → P m → P m') (s : State) (o : Op)
    (hg : Good C (fun m _ => P m) s) : Good C (fun m _ => P m) (applyOp s o) := by
  obtain ⟨hf, m, hm, hr, hp⟩ := hg
  have hg : Good C (fun m _ => P m) s := ⟨hf, m, hm, hr, hp⟩
  -- the common way to finish: the monitor's step and the new relation
  have fin : ∀ (s' : State) (e : Ev) (m' : C05.M), s'.fault = false → s'.trace = e :: s.trace →
      C05.step m e = .ok m' → Rel C m' s' → Ctl m m' → Good C (fun m _ => P m) s' := by
    intro s' e m' h1 h3 h4 h5 h6
    exact ⟨h1, m', by rw [h3, run_snoc _ m _ _ hm, h4], h5, hP m m' h6 hp⟩
  unfold applyOp
  simp only [hf, Bool.false_eq_true, if_false]
  cases o with
  | regImm id prio =>
    simp only
    by_cases hc : (isLive s id || decide (prio ≥ 32)) = true
    · simp only [hc, if_true]
      exact fin _ _ m (by first | rfl | exact hf) rfl (step_skip m _ (by intro us h; cases h) (by intro h; cases h) (by intro h; cases h))
        (rel_of_eq hr rfl rfl rfl rfl rfl rfl rfl rfl) (Ctl.refl m)
    · have hc' : (isLive s id || decide (prio ≥ 32)) = false := by simpa using hc
      simp only [hc', Bool.false_eq_true, if_false]
      simp only [Bool.or_eq_true, decide_eq_true_eq, not_or, Bool.not_eq_true] at hc
      obtain ⟨q', m', heq, hs, hr', hctl⟩ := rel_regImm hr id prio hc.1 (by omega)
      simp only [heq]
      exact fin _ _ m' (by first | rfl | exact hf) rfl hs (rel_of_eq hr' rfl rfl rfl rfl rfl rfl rfl rfl) hctl
  | cancelImm id =>
    simp only
    cases hp' : immPrioOf s.imm id with
    | none =>
      exact fin _ _ m (by first | rfl | exact hf) rfl (step_skip m _ (by intro us h; cases h) (by intro h; cases h) (by intro h; cases h))
        (rel_of_eq hr rfl rfl rfl rfl rfl rfl rfl rfl) (Ctl.refl m)
    | some p =>
      obtain ⟨q', m', heq, hs, hr', hctl⟩ := rel_cancelImm hr id p hp'
      simp only [heq]
      exact fin _ _ m' (by first | rfl | exact hf) rfl hs (rel_of_eq hr' rfl rfl rfl rfl rfl rfl rfl rfl) hctl
  | regNet id fd d =>
    simp only
    by_cases hc : isLive s id = true
    · simp only [hc, if_true]
      exact fin _ _ m (by first | rfl | exact hf) rfl (by rfl)
        (rel_of_eq hr rfl rfl rfl rfl rfl rfl rfl rfl) (Ctl.refl m)
    · simp only [hc, Bool.false_eq_true, if_false]
      have hl : isLive s id = false := by simpa using hc
      rcases netRegister_spec s.net id fd d hr.net.inv with ⟨id0, hs0, heq⟩ | ⟨hfree, n', heq, hinv, _, hslot, _, _, hkeep⟩
      · simp only [heq]
        exact fin _ _ m (by first | rfl | exact hf) rfl (rel_regNet_eexist hr id fd d id0 hs0)
          (rel_of_eq hr rfl rfl rfl rfl rfl rfl rfl rfl) (Ctl.refl m)
      · simp only [heq]
        obtain ⟨m', hs, hr', hctl⟩ := rel_regNet_ok hr id fd d n' hl hfree hinv hslot hkeep
        exact fin _ _ m' (by first | rfl | exact hf) rfl hs (rel_of_eq hr' rfl rfl rfl rfl rfl rfl rfl rfl) hctl
  | cancelNet fd d =>
    simp only
    rcases netCancel_spec s.net fd d hr.net.inv with ⟨hs0, heq⟩ | ⟨id, n', _, heq, hinv, _⟩
    · simp only [heq]
      exact fin _ _ m (by first | rfl | exact hf) rfl (rel_cancelNet_enoent hr fd d hs0)
        (rel_of_eq hr rfl rfl rfl rfl rfl rfl rfl rfl) (Ctl.refl m)
    · simp only [heq]
      obtain ⟨m', hs, hr', hctl⟩ := rel_cancelNet_ok hr fd d n' heq hinv
      exact fin _ _ m' (by first | rfl | exact hf) rfl hs (rel_of_eq hr' rfl rfl rfl rfl rfl rfl rfl rfl) hctl
  | regTimer id usec =>
    simp only
    by_cases hc : isLive s id = true
    · simp only [hc, if_true]
      exact fin _ _ m (by first | rfl | exact hf) rfl (step_skip m _ (by intro us h; cases h) (by intro h; cases h) (by intro h; cases h))
        (rel_of_eq hr rfl rfl rfl rfl rfl rfl rfl rfl) (Ctl.refl m)
    · simp only [hc, Bool.false_eq_true, if_false]
      have hl : isLive s id = false := by simpa using hc
      cases hgt : gettimeout s.clock ((usec / 1000000 : Nat) : Int) ((usec % 1000000 : Nat) : Int) with
      | mk sec us =>
        simp only
        obtain ⟨m', hs, hr', hctl⟩ := rel_regTimer hr id usec sec us hl hgt
        exact fin _ _ m' (by first | rfl | exact hf) rfl hs (rel_of_eq hr' rfl rfl rfl rfl rfl rfl rfl rfl) hctl
  | cancelTimer id =>
    simp only
    cases ht : timerOf s id with
    | none =>
      exact fin _ _ m (by first | rfl | exact hf) rfl (step_skip m _ (by intro us h; cases h) (by intro h; cases h) (by intro h; cases h))
        (rel_of_eq hr rfl rfl rfl rfl rfl rfl rfl rfl) (Ctl.refl m)
    | some t =>
      obtain ⟨q', m', heq, hs, hr', hctl⟩ := rel_cancelTimer hr id t ht
      simp only [heq]
      exact fin _ _ m' (by first | rfl | exact hf) rfl hs (rel_of_eq hr' rfl rfl rfl rfl rfl rfl rfl rfl) hctl
  | resetTimer id =>
    simp only
    cases ht : timerOf s id with
    | none =>
      exact fin _ _ m (by first | rfl | exact hf) rfl (step_skip m _ (by intro us h; cases h) (by intro h; cases h) (by intro h; cases h))
        (rel_of_eq hr rfl rfl rfl rfl rfl rfl rfl rfl) (Ctl.refl m)
    | some t =>
      cases hgt : gettimeout s.clock t.osec t.ousec with
      | mk sec us =>
        obtain ⟨q', m', heq, hs, hr', hctl⟩ := rel_resetTimer hr id t sec us ht hgt
        simp only [hgt, heq]
        exact fin _ _ m' (by first | rfl | exact hf) rfl hs (rel_of_eq hr' rfl rfl rfl rfl rfl rfl rfl rfl) hctl
  | interrupt =>
    exact fin _ _ { m with intr := true } (by first | rfl | exact hf) rfl rfl
      (rel_of_eq (rel_intr hr) rfl rfl rfl rfl rfl rfl rfl rfl) ⟨rfl, rfl, rfl, rfl, rfl, rfl, rfl, rfl⟩
  | clock us =>
    exact fin _ _ { m with clock := m.clock + us } (by first | rfl | exact hf) rfl rfl
      (rel_of_eq (rel_clock hr us) rfl rfl rfl rfl rfl rfl rfl rfl) ⟨rfl, rfl, rfl, rfl, rfl, rfl, rfl, rfl⟩
  | done =>
    exact fin _ _ { m with done := true } (by first | rfl | exact hf) rfl rfl
      ⟨hr.clock, hr.intr, hr.imm, hr.immIds, hr.net, hr.tm, hr.disjIN, hr.disjIT, hr.disjNT, rfl⟩
      ⟨rfl, rfl, rfl, rfl, rfl, rfl, rfl, rfl⟩


theorem foldl_good (C : TQContract) (P : C05.M → Prop) (hP : ∀ m m', Ctl m m' → P m → P m') :
    ∀ (ops : List Op) (s : State), Good C (fun m _ => P m) s → Good C (fun m _ => P m) (ops.foldl applyOp s) := by
  intro ops
  induction ops with
  | nil => intro s h; exact h
  | cons o os ih => intro s h; exact ih _ (applyOp_good C P hP s o h)

/-- the record of `id` was just taken out of the model's state; the monitor accepts `cb id` and is
    then in a state with no stop pending, at least one callback fired, no wake-up owed, and `X` -/
def Fireable (C : TQContract) (X : C05.M → Prop) (s : State) (id : Nat) : Prop :=
  s.fault = false ∧ ∃ m m', C05.run {} s.trace.reverse = .ok m ∧ C05.step m (.cb id) = .ok m' ∧
    Rel C m' s ∧ m'.stop = none ∧ m'.fired ≥ 1 ∧ m'.mustFire = false ∧ X m'

theorem Fireable.adm {C : TQContract} {X : C05.M → Prop} {s : State} {id : Nat} (h : Fireable C X s id) : Adm s := by
  obtain ⟨_, m, _, hm, _⟩ := h; exact ⟨m, hm⟩

/-- the monitor's state after a callback returned `rc` -/
def AfterCb (X : C05.M → Prop) (rc : Int) (m : C05.M) : Prop :=
  m.fired ≥ 1 ∧ m.mustFire = false ∧ X m ∧
  (if rc ≠ 0 then m.stop = some rc else if m.intr = true then m.stop = some 0 else m.stop = none)

theorem doevent_good (C : TQContract) (X : C05.M → Prop) (hX1 : ∀ m m', Ctl m m' → X m → X m')
    (hX2 : ∀ m st, X m → X { m with stop := st }) (s : State) (id : Nat) (h : Fireable C X s id) :
    Good C (fun m _ => AfterCb X (doevent s id).2 m) (doevent s id).1 := by
  obtain ⟨hf, m, m', hm, hs, hr, h1, h2, h3, h4⟩ := h
  let P : C05.M → Prop := fun m => m.stop = none ∧ m.fired ≥ 1 ∧ m.mustFire = false ∧ X m
  have hP : ∀ a b, Ctl a b → P a → P b := by
    rintro a b hc ⟨p1, p2, p3, p4⟩
    have hc' := hc
    obtain ⟨_, c2, _, _, _, c6, c7, _⟩ := hc'
    exact ⟨by rw [c7]; exact p1, by rw [c2]; exact p2, by rw [c6]; exact p3, hX1 a b hc p4⟩
  have g1 : Good C (fun m _ => P m) (emit { s with cbcount := s.cbcount + 1 } (.cb id)) :=
    ⟨hf, m', by show C05.run {} (_ :: s.trace).reverse = _; rw [run_snoc _ m _ _ hm, hs],
      rel_of_eq hr rfl rfl rfl rfl rfl rfl rfl rfl, h1, h2, h3, h4⟩
  -- what `cbEnd rc` does
  have fin : ∀ (s1 : State) (rc : Int), Good C (fun m _ => P m) s1 →
      Good C (fun m _ => AfterCb X rc m) (emit s1 (.cbEnd rc)) := by
    intro s1 rc g
    obtain ⟨f1, m1, hm1, hr1, p1, p2, p3, p4⟩ := g
    by_cases hrc : rc ≠ 0
    · refine ⟨f1, { m1 with stop := some rc }, ?_, ⟨hr1.clock, hr1.intr, hr1.imm, hr1.immIds, hr1.net, hr1.tm, hr1.disjIN, hr1.disjIT, hr1.disjNT, hr1.done⟩, p2, p3, hX2 _ _ p4, ?_⟩
      · show C05.run {} (_ :: s1.trace).reverse = _
        rw [run_snoc _ m1 _ _ hm1]; simp only [C05.step]; rw [if_pos hrc]; rfl
      · show (if rc ≠ 0 then _ else _); rw [if_pos hrc]
    · have hrc0 : rc = 0 := by simpa using hrc
      subst hrc0
      by_cases hi : m1.intr = true
      · refine ⟨f1, { m1 with stop := some 0 }, ?_, ⟨hr1.clock, hr1.intr, hr1.imm, hr1.immIds, hr1.net, hr1.tm, hr1.disjIN, hr1.disjIT, hr1.disjNT, hr1.done⟩, p2, p3, hX2 _ _ p4, ?_⟩
        · show C05.run {} (_ :: s1.trace).reverse = _
          rw [run_snoc _ m1 _ _ hm1]; simp only [C05.step]; rw [if_neg (by simp), if_pos hi]; rfl
        · show (if (0 : Int) ≠ 0 then _ else if m1.intr = true then _ else _); rw [if_neg (by simp), if_pos hi]
      · refine ⟨f1, m1, ?_, ⟨hr1.clock, hr1.intr, hr1.imm, hr1.immIds, hr1.net, hr1.tm, hr1.disjIN, hr1.disjIT, hr1.disjNT, hr1.done⟩, p2, p3, p4, ?_⟩
        · show C05.run {} (_ :: s1.trace).reverse = _
          rw [run_snoc _ m1 _ _ hm1]; simp only [C05.step]; rw [if_neg (by simp), if_neg hi]; rfl
        · show (if (0 : Int) ≠ 0 then _ else if m1.intr = true then _ else _); rw [if_neg (by simp), if_neg hi]; exact p1
  unfold doevent
  simp only
  split
  · exact fin _ 98 g1
  · exact fin _ _ (foldl_good C P hP _ _ g1)


/-! ### poll and events_network_select -/

/-- the relation does not look at the monitor's control fields -/
theorem rel_ctl {C : TQContract} {m m' : C05.M} {s : State} (r : Rel C m s) (h1 : m'.clock = m.clock)
    (h2 : m'.intr = m.intr) (h3 : m'.imms = m.imms) (h4 : m'.nets = m.nets) (h5 : m'.tms = m.tms)
    (h6 : m'.done = m.done) : Rel C m' s := by
  refine ⟨by rw [h1]; exact r.clock, by rw [h2]; exact r.intr, by rw [h3]; exact r.imm, by rw [h3]; exact r.immIds,
    by rw [h4]; exact r.net, by rw [h5, h1]; exact r.tm, ?_, ?_, ?_, by rw [h6]; exact r.done⟩
  · rw [h3, h4]; exact r.disjIN
  · rw [h3, h5]; exact r.disjIT
  · rw [h4, h5]; exact r.disjNT

/-- the monitor's stop flag after an interrupt request made during a poll with timeout `timeout`: dispatching
    has to stop at once unless the poll was the non-blocking one -/
theorem pollIntr_stop (m : C05.M) (timeout : Int) (adv : Nat) (hstop : m.stop = none) :
    (C05.pollIntr m timeout adv).stop = none ∨
    (timeout ≠ 0 ∧ (C05.pollIntr m timeout adv).stop = some 0 ∧ (C05.pollIntr m timeout adv).intr = true) := by
  by_cases h : timeout ≠ 0
  · exact Or.inr ⟨h, by simp only [C05.pollIntr, if_pos h], rfl⟩
  · exact Or.inl (by simp only [C05.pollIntr, if_neg h]; exact hstop)

/-- a signal handler requested an interrupt during this poll (answers `intr`, `stuck`): the state after it -/
theorem rel_pollIntr {C : TQContract} {m : C05.M} {s : State} (hr : Rel C m s) (timeout : Int) (adv : Nat) :
    Rel C (C05.pollIntr m timeout adv)
      { s with clock := s.clock + adv, intr := true, net := { s.net with scan := topScan s.net } } :=
  rel_ctl (rel_of_eq (rel_intr (rel_rescan (rel_clock hr adv))) rfl rfl rfl rfl rfl rfl rfl rfl) rfl rfl rfl rfl rfl rfl


/-- what is known after `events_network_select` (before `fdscanpos` is reset, the relation is stated for
    the reset state); `timeout` is the timeout of the first poll of the call -/
structure SelPost (C : TQContract) (m0 : C05.M) (timeout : Int) (s0 s' : State) (m' : C05.M) : Prop where
  fault : s'.fault = false
  run : C05.run {} s'.trace.reverse = .ok m'
  rel : Rel C m' { s' with net := { s'.net with scan := topScan s'.net } }
  stop : m'.stop = none ∨ (timeout ≠ 0 ∧ m'.stop = some 0 ∧ m'.intr = true)
  fired : m'.fired = m0.fired
  sr : m'.startRunnable = m0.startRunnable
  si : m'.startIntr = m0.startIntr
  imms : m'.imms = m0.imms
  tms : m'.tms = m0.tms
  clock : m0.clock ≤ m'.clock
  mf : m'.mustFire = true → m0.mustFire = true ∨ (timeout ≠ 0 ∧ (m'.nets.any (·.ready) = true ∨ C05.expired m' = true))
  alt : s'.intr = true ∨ (m'.polled = true ∧ s'.intr = s0.intr)
  looked : m'.looked = true ∨ s0.intr = true

theorem ok_post (C : TQContract) (s : State) (m : C05.M) (timeout : Int) (adv' : Nat) (a : List (Nat × Bits))
    (rest : List PollAns) (hf : s.fault = false) (hm : C05.run {} s.trace.reverse = .ok m)
    (hr : Rel C m s) (hstop : m.stop = none) (hb : MayBlock m timeout) (hc : C05.checkPoll m timeout = .ok ()) :
    ∃ m', SelPost C m timeout s
      (emit { s with clock := s.clock + adv', pollq := rest,
                     net := { s.net with fds := s.net.fds.map (fun e => { e with rev := maskAns a e }) } }
        (.poll timeout adv' (pollEntries s.net.fds (maskAns a)) .ok)) m' := by
  refine ⟨pollOkM m timeout adv' (pollEntries s.net.fds (maskAns a)), hf, ?_, ?_, Or.inl hstop, rfl, rfl, rfl, rfl, rfl,
    Nat.le_add_right _ _, ?_, Or.inr ⟨rfl, rfl⟩, Or.inl rfl⟩
  · show C05.run {} (_ :: s.trace).reverse = _
    rw [run_snoc _ m _ _ hm]; exact step_poll_ok m timeout _ _ hstop hb hc
  · have r1 := rel_clock hr adv'
    refine ⟨r1.clock, r1.intr, r1.imm, r1.immIds, rnet_poll hr.net a, r1.tm,
      (by intro id hid hmem
          obtain ⟨x, hx, rfl⟩ := List.mem_map.mp hmem
          obtain ⟨y, hy, rfl⟩ := List.mem_map.mp hx
          exact hr.disjIN _ hid (List.mem_map.mpr ⟨y, hy, rfl⟩)),
      r1.disjIT,
      (by intro id hmem
          obtain ⟨x, hx, rfl⟩ := List.mem_map.mp hmem
          obtain ⟨y, hy, rfl⟩ := List.mem_map.mp hx
          exact hr.disjNT _ (List.mem_map.mpr ⟨y, hy, rfl⟩)), r1.done⟩
  · intro hmf
    have hmf' : (m.mustFire || (decide (timeout ≠ 0) && ((pollOkM m timeout adv' (pollEntries s.net.fds (maskAns a))).nets.any (·.ready) ||
        C05.expired (pollOkM m timeout adv' (pollEntries s.net.fds (maskAns a)))))) = true := hmf
    simp only [Bool.or_eq_true, Bool.and_eq_true, decide_eq_true_eq] at hmf'
    rcases hmf' with h | ⟨h1, h2⟩
    · exact Or.inl h
    · exact Or.inr ⟨h1, h2⟩

theorem answer_post (C : TQContract) (s : State) (m : C05.M) (timeout : Int) (adv : Nat) (a : List (Nat × Bits))
    (rest : List PollAns) (hf : s.fault = false) (hm : C05.run {} s.trace.reverse = .ok m)
    (hr : Rel C m s) (hstop : m.stop = none) (hb : MayBlock m timeout) (hc : C05.checkPoll m timeout = .ok ()) :
    ∃ m', SelPost C m timeout s (pollLoop.answer s timeout adv a rest) m' := by
  unfold pollLoop.answer
  simp only
  split
  · -- stuck: the signal handler requests an interrupt
    rename_i hst
    refine ⟨C05.pollIntr m timeout adv, hf, ?_, ?_, pollIntr_stop m timeout adv hstop, rfl, rfl, rfl, rfl, rfl,
      Nat.le_add_right _ _, fun h => Or.inl h, Or.inl rfl, Or.inl rfl⟩
    · show C05.run {} (_ :: s.trace).reverse = _
      rw [run_snoc _ m _ _ hm]; exact step_poll_stuck m timeout adv _ hstop hb hc
    · exact rel_of_eq (rel_pollIntr hr timeout adv) rfl rfl rfl rfl rfl rfl rfl rfl
  · exact ok_post C s m timeout _ a rest hf hm hr hstop hb hc

/-! #### the wait after EINTR

The repaired `events_network_select` restarts an interrupted finite wait with what is left of the
requested time by the clock.  `WaitOk` is what the loop knows about such a wait: the requested time
`tv` is a normalised `struct timeval`, nothing but timers can be runnable, and the wait ends — counted
from the clock reading `tstart` taken before the first poll — no later than any timer's deadline. -/

def WaitOk (m : C05.M) (timeout : Int) : Option ((Int × Int) × Nat) → Prop
  | none => timeout ≤ 0
  | some (tv, tstart) => 0 ≤ tv.1 ∧ 0 ≤ tv.2 ∧ tv.2 < 1000000 ∧ m.imms = [] ∧
      ∀ t ∈ m.tms, (tstart : Int) + (tv.1 * 1000000 + tv.2) ≤ t.deadline

theorem checkPoll_inv {m : C05.M} {t : Int} (h : C05.checkPoll m t = .ok ()) :
    ¬ t < -1 ∧ (t ≠ 0 → C05.runnable m = false) ∧
    ∀ d, C05.minDeadline m.tms = some d → ¬ t = -1 ∧ ¬ t > C05.ceilMs (d - m.clock) := by
  unfold C05.checkPoll at h
  by_cases h1 : t < -1
  · simp [h1, bind, Except.bind, throw, throwThe, MonadExceptOf.throw] at h
  · simp only [h1, if_false, bind, Except.bind, throw, throwThe, MonadExceptOf.throw, pure, Except.pure] at h
    split at h
    · cases h
    · rename_i hnr
      refine ⟨h1, ?_, ?_⟩
      · intro ht
        cases hr : C05.runnable m with
        | false => rfl
        | true => exact absurd (by simp [ht, hr]) hnr
      · intro d hd
        rw [hd] at h
        simp only at h
        split at h
        · cases h
        · rename_i h3
          split at h
          · cases h
          · rename_i h4
            exact ⟨h3, h4⟩

/-- after an EINTR during which `adv` µs passed, the timeout of the next poll passes the monitor's
    check again: an infinite wait and a zero timeout are repeated, a finite wait is cut down to what
    is left — 0 as soon as a timer has expired, never beyond `ceilMs` of the time to the earliest deadline
    (`timeLeft` = `satMs` of what is left of the wait ≤ `ceilMs` of it ≤ `ceilMs` of the time to any deadline) -/
theorem checkPoll_eintr {m : C05.M} {timeout : Int} {wait : Option ((Int × Int) × Nat)} (adv : Nat)
    (hc : C05.checkPoll m timeout = .ok ()) (hw : WaitOk m timeout wait) :
    C05.checkPoll { m with clock := m.clock + adv } (nextTimeout wait timeout (m.clock + adv)) = .ok () ∧
    WaitOk { m with clock := m.clock + adv } (nextTimeout wait timeout (m.clock + adv)) wait ∧
    (nextTimeout wait timeout (m.clock + adv) < 0 → timeout < 0) ∧
    (nextTimeout wait timeout (m.clock + adv) ≠ 0 → timeout ≠ 0) := by
  obtain ⟨i1, i2, i3⟩ := checkPoll_inv hc
  by_cases hpos : timeout > 0
  · -- a finite wait: what is left of it
    cases wait with
    | none => exact absurd hw (by simp only [WaitOk]; omega)
    | some w =>
      obtain ⟨tv, tstart⟩ := w
      obtain ⟨w1, w2, w3, w4, w5⟩ := hw
      have hnt : nextTimeout (some (tv, tstart)) timeout (m.clock + adv) = timeLeft tv tstart (m.clock + adv) := by
        simp only [nextTimeout, hpos, if_true]
      rw [hnt, timeLeft_eq tv tstart (m.clock + adv) (tv.1 * 1000000 + tv.2).toNat w2 w3 (by omega)]
      have hnn := satMs_nonneg (tstart + (tv.1 * 1000000 + tv.2).toNat - (m.clock + adv))
      have hle := satMs_le (tstart + (tv.1 * 1000000 + tv.2).toNat - (m.clock + adv))
      refine ⟨?_, ⟨w1, w2, w3, w4, w5⟩, by omega, by omega⟩
      apply checkPoll_ok
      · omega
      · cases hrn : C05.runnable { m with clock := m.clock + adv } with
        | false => simp
        | true =>
          simp only [C05.runnable, w4, List.isEmpty_nil, Bool.not_true, Bool.false_or] at hrn
          obtain ⟨t', ht', hexp⟩ := (expired_iff _).mp hrn
          have := w5 t' ht'
          have hexp' : t'.deadline ≤ m.clock + adv := hexp
          have hz : tstart + (tv.1 * 1000000 + tv.2).toNat - (m.clock + adv) = 0 := by omega
          rw [hz, satMs_zero]; simp
      · intro d hd
        obtain ⟨⟨t, ht, htd⟩, _⟩ := minDeadline_spec m.tms d hd
        have := w5 t ht
        have hmono : C05.ceilMs (tstart + (tv.1 * 1000000 + tv.2).toNat - (m.clock + adv)) ≤ C05.ceilMs (d - (m.clock + adv)) :=
          ceilMs_mono (by omega)
        show ¬ _ = -1 ∧ ¬ _ > C05.ceilMs (d - (m.clock + adv))
        constructor <;> omega
  · -- an infinite wait or a zero timeout: repeated as it is
    have hnt : nextTimeout wait timeout (m.clock + adv) = timeout := by
      unfold nextTimeout
      cases wait with
      | none => rfl
      | some w => obtain ⟨tv, tstart⟩ := w; simp only [hpos, if_false]
    rw [hnt]
    refine ⟨?_, ?_, fun h => h, fun h => h⟩
    · by_cases hz : timeout = 0
      · rw [hz]; exact checkPoll_zero _
      · have hm1 : timeout = -1 := by omega
        have htms : m.tms = [] := by
          cases hd : C05.minDeadline m.tms with
          | none => exact (minDeadline_none m.tms).mp hd
          | some d => exact absurd hm1 (i3 d hd).1
        have hrn := i2 hz
        apply checkPoll_ok
        · omega
        · have : C05.runnable { m with clock := m.clock + adv } = false := by
            simp only [C05.runnable, C05.expired, htms, List.any_nil, Bool.or_false] at hrn ⊢
            exact hrn
          simp [this]
        · intro d hd
          have hd' : C05.minDeadline m.tms = some d := hd
          rw [htms] at hd'; simp [C05.minDeadline] at hd'
    · cases wait with
      | none => exact hw
      | some w => obtain ⟨tv, tstart⟩ := w; exact hw

/-- the first (possibly blocking) poll of a call: `events_timer_min`'s answer is a wait that ends at
    the earliest deadline, and the clock is read at the same instant -/
theorem waitOk_first {C : TQContract} {m : C05.M} {s : State} (r : Rel C m s) (himm : m.imms = []) :
    WaitOk m (selectTimeout (timerMin s)) (waitStart s (timerMin s)) := by
  unfold waitStart
  by_cases hpos : selectTimeout (timerMin s) > 0
  · rw [if_pos hpos]
    unfold timerMin at hpos ⊢
    rcases EventsC04.tm_getmin r.tm.ok with ⟨hg, _⟩ | ⟨id, us, dl, hg, hv, hmin⟩
    · rw [hg] at hpos; simp [selectTimeout] at hpos
    · rw [hg] at hpos ⊢
      simp only [Option.map_some] at hpos ⊢
      rw [selectTimeout_timerDiff s.clock dl] at hpos
      obtain ⟨d1, d2, d3, d4⟩ := timerDiff_spec s.clock dl
      have hlt : s.clock < dl := by
        apply Classical.byContradiction
        intro hn
        have : dl - s.clock = 0 := by omega
        rw [this, satMs_zero] at hpos
        omega
      refine ⟨d2, d3, d4, himm, ?_⟩
      intro t ht
      have := hmin t.id t.usec t.deadline ((r.tm.iff _ _ _).mp ht)
      omega
  · rw [if_neg hpos]
    show selectTimeout (timerMin s) ≤ 0
    omega

theorem pollLoop_post (C : TQContract) (wait : Option ((Int × Int) × Nat)) : ∀ (q : List PollAns) (timeout : Int) (s : State) (m : C05.M),
    s.fault = false → C05.run {} s.trace.reverse = .ok m → Rel C m s → m.stop = none → MayBlock m timeout →
    C05.checkPoll m timeout = .ok () → WaitOk m timeout wait →
    ∃ m', SelPost C m timeout s (pollLoop s wait timeout q) m' := by
  intro q
  induction q with
  | nil =>
    intro timeout s m hf hm hr hstop hb hc _
    unfold pollLoop
    exact answer_post C s m timeout 0 [] [] hf hm hr hstop hb hc
  | cons x rest ih =>
    intro timeout s m hf hm hr hstop hb hc hw
    cases x with
    | ans adv a =>
      unfold pollLoop
      exact answer_post C s m timeout adv a rest hf hm hr hstop hb hc
    | eintr adv =>
      unfold pollLoop
      simp only
      -- the interrupted poll: only the clock moves
      have hm1 : C05.run {} ((Ev.poll timeout adv (pollEntries s.net.fds (fun _ => {})) .eintr) :: s.trace).reverse =
          .ok { m with clock := m.clock + adv } := by
        rw [run_snoc _ m _ _ hm]; exact step_poll_eintr m timeout adv _ hstop hb hc
      have hr1 : Rel C { m with clock := m.clock + adv } (emit { s with clock := s.clock + adv, pollq := rest }
          (.poll timeout adv (pollEntries s.net.fds (fun _ => {})) .eintr)) :=
        rel_of_eq (rel_clock hr adv) rfl rfl rfl rfl rfl rfl rfl rfl
      split
      · rename_i hi
        exact ⟨_, hf, hm1, rel_of_eq (rel_rescan hr1) rfl rfl rfl rfl rfl rfl rfl rfl, Or.inl hstop, rfl, rfl, rfl, rfl, rfl,
          Nat.le_add_right _ _, fun h => Or.inl h, Or.inl hi, Or.inr hi⟩
      · obtain ⟨c1, c2, c3, c4⟩ := checkPoll_eintr adv hc hw
        have hnt : nextTimeout wait timeout (s.clock + adv) = nextTimeout wait timeout (m.clock + adv) := by
          rw [hr.clock]
        show ∃ m', SelPost C m timeout s (pollLoop _ wait (nextTimeout wait timeout (s.clock + adv)) rest) m'
        rw [hnt]
        obtain ⟨m', hp⟩ := ih (nextTimeout wait timeout (m.clock + adv))
          (emit { s with clock := s.clock + adv, pollq := rest }
            (.poll timeout adv (pollEntries s.net.fds (fun _ => {})) .eintr)) { m with clock := m.clock + adv }
          hf hm1 hr1 hstop (mayBlock_of_ne hb rfl rfl c4) c1 c2
        refine ⟨m', hp.fault, hp.run, hp.rel, ?_, hp.fired, hp.sr, hp.si, hp.imms, hp.tms, ?_, ?_, hp.alt, hp.looked⟩
        · rcases hp.stop with h1 | ⟨h1, h2⟩
          · exact Or.inl h1
          · exact Or.inr ⟨c4 h1, h2⟩
        · exact Nat.le_trans (Nat.le_add_right _ _) hp.clock
        · intro h
          rcases hp.mf h with h1 | ⟨h1, h2⟩
          · exact Or.inl h1
          · exact Or.inr ⟨c4 h1, h2⟩
    | intr adv =>
      -- a signal handler calls events_interrupt() during this poll; the loop is left
      unfold pollLoop
      refine ⟨C05.pollIntr m timeout adv, hf, ?_, ?_, pollIntr_stop m timeout adv hstop, rfl, rfl, rfl, rfl, rfl,
        Nat.le_add_right _ _, fun h => Or.inl h, Or.inl rfl, Or.inl rfl⟩
      · show C05.run {} (_ :: s.trace).reverse = _
        rw [run_snoc _ m _ _ hm]; exact step_poll_intr m timeout adv _ hstop hb hc
      · exact rel_of_eq (rel_pollIntr hr timeout adv) rfl rfl rfl rfl rfl rfl rfl rfl


/-! ### the three `get`s -/

theorem expired_mono {m m' : C05.M} (ht : m'.tms = m.tms) (hc : m.clock ≤ m'.clock) (h : C05.expired m = true) :
    C05.expired m' = true := by
  obtain ⟨t, hm, hle⟩ := (expired_iff m).mp h
  exact (expired_iff m').mpr ⟨t, by rw [ht]; exact hm, by omega⟩

theorem runnable_mono {m m' : C05.M} (hi : m'.imms = m.imms) (ht : m'.tms = m.tms) (hc : m.clock ≤ m'.clock)
    (h : C05.runnable m = true) : C05.runnable m' = true := by
  unfold C05.runnable at *
  rw [hi]
  simp only [Bool.or_eq_true] at *
  rcases h with h | h
  · exact Or.inl h
  · exact Or.inr (expired_mono ht hc h)

/-- after a scan that covered the whole array found nothing, no registered socket is flagged ready -/
theorem no_ready_of_clear {C : TQContract} {m : C05.M} {s : State} (r : Rel C m s)
    (hall : ∀ (j : Nat) (e : PollFd), s.net.fds[j]? = some e → e.rev.any = false) : m.nets.any (·.ready) = false := by
  rw [List.any_eq_false]
  intro x hx hrdy
  obtain ⟨j, e, he, _, hh⟩ := r.net.ready x hx hrdy
  have := hall j e he
  cases hd : x.d <;> simp_all [Bits.any, Bits.dir, Bits.errhup]

theorem netGetS_cases {C : TQContract} {m : C05.M} {s : State} (r : Rel C m s) (hstop : m.stop = none)
    (himm : m.imms = []) :
    (∃ n', netGetS s = ({ s with net := n' }, none) ∧ Rel C m { s with net := n' } ∧
        (s.net.scan = topScan s.net → m.nets.any (·.ready) = false)) ∨
    (∃ n' id m', netGetS s = ({ s with net := n' }, some id) ∧ C05.step m (.cb id) = .ok m' ∧
        Rel C m' { s with net := n' } ∧ Fired m m') := by
  unfold netGetS
  obtain ⟨n', hres⟩ := netGet_spec s.net r.net.inv
  rcases hres with ⟨heq, hinv, hx, hclear⟩ | ⟨id, n1, p, heq, hfound, hinv⟩
  · left
    have hr' := rel_net_expanded r n' hx hinv
    refine ⟨n', by simp only [heq], hr', ?_⟩
    intro htop
    apply no_ready_of_clear hr'
    intro j e he
    by_cases hz : s.net.fds.size = 0
    · have h0 : n'.fds.size = 0 := by rw [hx.size]; exact hz
      have he' : n'.fds[j]? = some e := he
      have := (Array.getElem?_eq_some_iff.mp he').1
      omega
    · apply hclear (s.net.fds.size - 1) _ (by omega) j e he
      rw [htop]; unfold topScan; simp [hz]
  · right
    obtain ⟨m', hs, hr', hfired⟩ := rel_cb_net r n1 n' p id hfound hinv hstop himm
    exact ⟨n', id, m', by simp only [heq], hs, hr', hfired⟩

theorem immGetS_cases {C : TQContract} {m : C05.M} {s : State} (r : Rel C m s) (hstop : m.stop = none) :
    (∃ q', immGetS s = ({ s with imm := q' }, none) ∧ Rel C m { s with imm := q' } ∧ m.imms = []) ∨
    (∃ q' id m', immGetS s = ({ s with imm := q' }, some id) ∧ C05.step m (.cb id) = .ok m' ∧
        Rel C m' { s with imm := q' } ∧ Fired m m') := by
  unfold immGetS
  rcases immGet_rq s.imm m.imms r.imm with ⟨hl, hnone, hq'⟩ | ⟨j, hn, hsome, hq'⟩
  · left
    refine ⟨(immGet s.imm).1, ?_, ?_, hl⟩
    · cases hg : immGet s.imm with
      | mk q rr => rw [hg] at hnone; simp only at hnone; subst hnone; rfl
    · exact ⟨r.clock, r.intr, by rw [hl]; exact hq', r.immIds, r.net, r.tm, r.disjIN, r.disjIT, r.disjNT, r.done⟩
  · right
    obtain ⟨m', hs, hr', hfired⟩ := rel_cb_imm r j (immGet s.imm).1 hn hq' hstop
    refine ⟨(immGet s.imm).1, j.id, m', ?_, hs, hr', hfired⟩
    cases hg : immGet s.imm with
    | mk q rr => rw [hg] at hsome; simp only at hsome; subst hsome; rfl

theorem timerGet_cases {C : TQContract} {m : C05.M} {s : State} (r : Rel C m s) (hstop : m.stop = none)
    (himm : m.imms = []) (hnr : m.nets.any (·.ready) = false) (hlook : m.looked = true) :
    (timerGet s = (s, none) ∧ C05.expired m = false) ∨
    (∃ s' id m', timerGet s = (s', some id) ∧ C05.step m (.cb id) = .ok m' ∧ Rel C m' s' ∧ Fired m m' ∧
        s'.fault = s.fault ∧ s'.pollq = s.pollq ∧ s'.trace = s.trace) := by
  unfold timerGet
  cases hg : TimerQueue.getptr s.tq ((s.clock / 1000000 : Nat) : Int) ((s.clock % 1000000 : Nat) : Int) with
  | mk q' res =>
    cases res with
    | none =>
      left
      refine ⟨rfl, ?_⟩
      obtain ⟨_, hall⟩ := EventsC04.tm_getptr_none r.tm.ok s.clock q' hg
      cases he : C05.expired m with
      | false => rfl
      | true =>
        obtain ⟨t, ht, hle⟩ := (expired_iff m).mp he
        have := hall t.id t.usec t.deadline ((r.tm.iff _ _ _).mp ht)
        rw [r.clock] at hle; omega
    | some rp =>
      obtain ⟨rr, id⟩ := rp
      right
      obtain ⟨m', hs, hr', hfired⟩ := rel_cb_timer r q' rr id hg hstop himm hnr hlook
      exact ⟨_, id, m', rfl, hs, hr', hfired, rfl, rfl, rfl⟩

end Percival.Proofs.EventsC05
