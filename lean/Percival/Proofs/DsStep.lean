import Percival.Model.DsStep
import Percival.Proofs.EArrayStep
import Percival.Proofs.EQueue
import Percival.Proofs.SeqMap
import Percival.Proofs.MPool
/-!
# `Model.DsStep.stepOp` (the function `pmodel ds` runs) = the proved step functions (C12, C14)

For each family of protocol operations: the container operation a protocol line stands for (`eaOpOf`, `eqOpOf`,
`smOpOf`, `mpOpOf`), the typed output built from the container step's observable answer (`eaOutOf`, …) and the
equation `stepOp s op = (state with the component replaced by the step's, that output)`.  What `stepOp` adds to
the container step is visible in these definitions and nowhere else:

* the caller's data are `patBytes seed n` (for `ea_resize`: the bytes written into the grown part; for an
  `ea_append` no allocation can hold: a one-byte dummy buffer);
* `rf` / `req` / `live` are read off the allocation oracle before and after the step;
* after a successful `ea_dup` the harness frees the copy; `mp_malloc` / `mp_free` keep the harness' list of objects in use;
* an access the container step reports as out of contract (`oob`) on `ea_get` / `ea_set` / `eq_set` beyond the end
  is the protocol answer `skip`; on the other operations it is the answer `oob` (never reached from a state that
  satisfies the containers' invariants: `C12.ea_step_refines` …);
* a failed `assert` of `seqptrmap_add` is the answer `assert` and leaves the protocol state alone.
-/
namespace Percival.Proofs.DsStep
open Percival.Model Percival.Model.DsStep Percival.Spec.DS Percival.Spec.DSMon
open Percival.Proofs.EArray

/-! ## elastic array -/

/-- the array operation a protocol line stands for, on an array that holds `size` bytes; `none`: not one of the
eight operations of `EArray.step`, or record length 0 -/
def eaOpOf (size : Nat) : Op → Option EaOp
  | .eaResize n reclen seed => (mkRecLen reclen).map fun r => .resize n r (patBytes seed (n * r.val - size))
  | .eaAppend n reclen seed => (mkRecLen reclen).map fun r =>
      .append (if n ≤ dataMax / r.val then patBytes seed (n * r.val) else [0]) n r
  | .eaShrink n reclen => (mkRecLen reclen).map fun r => .shrink n r
  | .eaTrunc => some .truncate
  | .eaGet pos reclen => (mkRecLen reclen).map fun r => .get pos r
  | .eaSet pos reclen seed => (mkRecLen reclen).map fun r => .set pos r (patBytes seed r.val)
  | .eaGetsize reclen => (mkRecLen reclen).map fun r => .getsize r
  | .eaDup reclen => (mkRecLen reclen).map fun r => .exportdup r
  | _ => none

/-- the oracle after the harness' own frees: the copy made by a successful `exportdup` -/
def eaHarnessFree (e : EaOp) (an : EaAns) (m' : Mem) : Mem :=
  match e, an.st, an.out with
  | .exportdup _, .ok, some _ => m'.free false
  | _, _, _ => m'

/-- the printed line for an observed array answer (`m`: oracle before, `m'` after the step, `mEnd` after the
harness' frees) -/
def eaOutOf (an : EaAns) (m m' mEnd : Mem) : Out :=
  .ea an.st an.size an.alloc (rf m m') (an.out.map fun p => (p.2, p.1)) (l2c m mEnd)

theorem S_eta (s : DsStep.S) (a : EArray.EA) (hs : s.ea = some a) : { s with m := s.m, ea := some a } = s := by
  cases s; simp only at hs; subst hs; rfl

theorem resize_size (a : EArray.EA) (n : Nat) (m : Mem) (h : (EArray.resize a n m).1 = true) :
    (EArray.resize a n m).2.1.size = n := by
  unfold EArray.resize at h ⊢
  simp only at h ⊢
  by_cases h0 : EArray.wantAlloc a.alloc n = 0
  · simp [h0]
  · by_cases h1 : EArray.wantAlloc a.alloc n ≠ a.alloc
    · rw [if_neg h0, if_pos h1] at h ⊢
      cases hr : (m.realloc (a.alloc == 0) (EArray.wantAlloc a.alloc n)).1
      · rw [pair_eta _ hr] at h; simp at h
      · rw [pair_eta _ hr]
    · simp [h0, h1]

theorem resizeRec_size (a : EArray.EA) (n : Nat) (r : RecLen) (m : Mem) (h : (EArray.resizeRec a n r m).1 = true) :
    (EArray.resizeRec a n r m).2.1.size = n * r.val := by
  unfold EArray.resizeRec at h ⊢
  by_cases hg : n > EArray.SIZE_MAX / r.val
  · simp [hg] at h
  · simp only [hg, if_false] at h ⊢
    have hle : n * r.val ≤ EArray.SIZE_MAX := by
      have : ¬ n * r.val > EArray.SIZE_MAX := fun h' => hg ((guard_iff n r).2 h')
      omega
    have hmod : n * r.val % EArray.SZ = n * r.val := Nat.mod_eq_of_lt (by simp only [SZ_eq, SIZE_MAX_eq] at *; omega)
    rw [hmod] at h ⊢
    exact resize_size a _ m h

/-- **the eight array operations of the protocol are `EArray.step`** on the array component (when the step
does not report an access outside storage) -/
theorem ea_stepOp (s : DsStep.S) (a : EArray.EA) (hs : s.ea = some a) (op : Op) (e : EaOp)
    (he : eaOpOf a.size op = some e) (hno : (EArray.step a e s.m).1.st ≠ .oob) :
    stepOp s op =
      ({ s with m := eaHarnessFree e (EArray.step a e s.m).1 (EArray.step a e s.m).2.2,
                ea := some (EArray.step a e s.m).2.1 },
       eaOutOf (EArray.step a e s.m).1 s.m (EArray.step a e s.m).2.2
         (eaHarnessFree e (EArray.step a e s.m).1 (EArray.step a e s.m).2.2)) := by
  revert hno
  cases op <;> simp only [eaOpOf, Option.map_eq_some_iff, reduceCtorEq] at he
  case eaResize n reclen seed =>
    obtain ⟨r, hr, rfl⟩ := he
    simp only [stepOp, onEa, hs, hr, EArray.step]
    have hsz := resizeRec_size a n r s.m
    rcases hres : EArray.resizeRec a n r s.m with ⟨ok, a', m'⟩
    rw [hres] at hsz
    cases ok
    · simp [eaHarnessFree, eaOutOf, eaOut, EArray.ans]
    · simp only at hsz ⊢
      rw [hsz trivial]
      cases hf : EArray.fillFrom a' a.size (patBytes seed (n * r.val - a.size))
      · simp [EArray.ans]
      · simp [eaHarnessFree, eaOutOf, eaOut, EArray.ans]
  case eaAppend n reclen seed =>
    obtain ⟨r, hr, rfl⟩ := he
    simp only [stepOp, onEa, hs, hr, EArray.step]
    rcases hres : EArray.append a (if n ≤ dataMax / r.val then patBytes seed (n * r.val) else [0]) n r s.m with ⟨st, a', m'⟩
    simp [eaHarnessFree, eaOutOf, eaOut, EArray.ans]
  case eaShrink n reclen =>
    obtain ⟨r, hr, rfl⟩ := he
    simp only [stepOp, onEa, hs, hr, EArray.step]
    rcases hres : EArray.shrink a n r s.m with ⟨a', m'⟩
    simp [eaHarnessFree, eaOutOf, eaOut, EArray.ans]
  case eaTrunc =>
    cases he
    simp only [stepOp, onEa, hs, EArray.step]
    rcases hres : EArray.truncate a s.m with ⟨ok, a', m'⟩
    cases ok <;> simp [eaHarnessFree, eaOutOf, eaOut, EArray.ans]
  case eaGet pos reclen =>
    obtain ⟨r, hr, rfl⟩ := he
    simp only [stepOp, onEa, hs, hr, EArray.step]
    cases hg : EArray.getRec a pos r
    · simp [EArray.ans]
    · intro _
      simp [eaHarnessFree, eaOutOf, eaOut, EArray.ans, S_eta s a hs]
  case eaSet pos reclen seed =>
    obtain ⟨r, hr, rfl⟩ := he
    simp only [stepOp, onEa, hs, hr, EArray.step]
    cases hg : EArray.setRec a pos r (patBytes seed r.val)
    · simp [EArray.ans]
    · simp [eaHarnessFree, eaOutOf, eaOut, EArray.ans]
  case eaGetsize reclen =>
    obtain ⟨r, hr, rfl⟩ := he
    simp only [stepOp, onEa, hs, hr, EArray.step]
    simp [eaHarnessFree, eaOutOf, eaOut, EArray.ans, S_eta s a hs]
  case eaDup reclen =>
    obtain ⟨r, hr, rfl⟩ := he
    simp only [stepOp, onEa, hs, hr, EArray.step]
    intro _
    unfold EArray.exportdup
    cases hm : (s.m.malloc a.size).1
    · rw [pair_eta _ hm]; simp [eaHarnessFree, eaOutOf, eaOut, EArray.ans]
    · rw [pair_eta _ hm]
      cases hrd : EArray.readAt a.buf 0 a.size <;> simp [eaHarnessFree, eaOutOf, eaOut, EArray.ans]

/-- `ea_get` / `ea_set` of a record that is not inside the contents: the answer is `skip`, nothing changes -/
theorem ea_stepOp_skip (s : DsStep.S) (a : EArray.EA) (hs : s.ea = some a) (pos reclen seed : Nat) (r : RecLen)
    (hr : mkRecLen reclen = some r) :
    ((EArray.step a (.get pos r) s.m).1.st = .oob → stepOp s (.eaGet pos reclen) = (s, .word .skip)) ∧
    ((EArray.step a (.set pos r (patBytes seed r.val)) s.m).1.st = .oob →
      stepOp s (.eaSet pos reclen seed) = (s, .word .skip)) := by
  constructor
  · simp only [stepOp, onEa, hs, hr, EArray.step]
    cases hg : EArray.getRec a pos r <;> simp [EArray.ans]
  · simp only [stepOp, onEa, hs, hr, EArray.step]
    cases hg : EArray.setRec a pos r (patBytes seed r.val) <;> simp [EArray.ans]

/-! ## elastic queue -/

/-- the queue operation a protocol line stands for, on a queue of `reclen`-byte records -/
def eqOpOf (reclen : Nat) : Op → Option EqOp
  | .eqAdd seed => some (.add (patBytes seed reclen))
  | .eqDel => some .delete
  | .eqLen => some .getlen
  | .eqGet pos => some (.get pos)
  | .eqSet pos seed => some (.set pos (patBytes seed reclen))
  | _ => none

/-- what the line shows of the record seen through `elasticqueue_get` -/
def eqExtraOf (e : EqOp) (an : EqAns) : EqExtra :=
  match e, an.got with
  | .get _, none => .null
  | _, some b => .record b
  | _, none => .none

def eqOutOf (e : EqOp) (an : EqAns) (q' : EQueue.EQ) (m m' : Mem) : Out :=
  .eq an.st an.len (rf m m') (eqExtraOf e an) (eqL2 q' m m')

theorem rf_self (m : Mem) : rf m m = 0 := by simp [rf]

/-- **the five queue operations of the protocol are `EQueue.step`** on the queue component -/
theorem eq_stepOp (s : DsStep.S) (q : EQueue.EQ) (hs : s.eq = some q) (op : Op) (e : EqOp)
    (he : eqOpOf q.reclen.val op = some e) (hno : (EQueue.step q e s.m).1.st ≠ .oob) :
    stepOp s op =
      ({ s with m := (EQueue.step q e s.m).2.2, eq := some (EQueue.step q e s.m).2.1 },
       eqOutOf e (EQueue.step q e s.m).1 (EQueue.step q e s.m).2.1 s.m (EQueue.step q e s.m).2.2) := by
  have eta : { s with m := s.m, eq := some q } = s := by cases s; simp only at hs; subst hs; rfl
  revert hno
  cases op <;> simp only [eqOpOf, Option.some.injEq, reduceCtorEq] at he <;> subst he
  case eqAdd seed =>
    simp only [stepOp, hs, EQueue.step]
    rcases hres : EQueue.add q (patBytes seed q.reclen.val) s.m with ⟨st, q', m'⟩
    simp [eqOutOf, eqExtraOf, EQueue.ans]
  case eqDel =>
    simp only [stepOp, hs, EQueue.step]
    rcases hres : EQueue.delete q s.m with ⟨st, q', m'⟩
    simp [eqOutOf, eqExtraOf, EQueue.ans]
  case eqLen =>
    simp [stepOp, hs, EQueue.step, eqOutOf, eqExtraOf, EQueue.ans, rf_self, eta, EQueue.getlen]
  case eqGet pos =>
    simp only [stepOp, hs, EQueue.step]
    cases hg : EQueue.get q pos <;> simp [eqOutOf, eqExtraOf, EQueue.ans, rf_self, eta]
  case eqSet pos seed =>
    simp only [stepOp, hs, EQueue.step]
    by_cases hp : pos ≥ q.len
    · simp [EQueue.set, hp, EQueue.ans]
    · simp only [hp, if_false]
      cases hg : EQueue.set q pos (patBytes seed q.reclen.val) <;> simp [eqOutOf, eqExtraOf, EQueue.ans, rf_self]

/-- an access `EQueue.step` reports as outside storage: `eq_set` beyond the end is answered `skip`, anything else
`oob`; nothing changes -/
theorem eq_stepOp_oob (s : DsStep.S) (q : EQueue.EQ) (hs : s.eq = some q) (pos seed : Nat) :
    ((EQueue.step q (.get pos) s.m).1.st = .oob → stepOp s (.eqGet pos) = (s, .word .oob)) ∧
    ((EQueue.step q (.set pos (patBytes seed q.reclen.val)) s.m).1.st = .oob →
      stepOp s (.eqSet pos seed) = (s, .word (if pos ≥ q.len then .skip else .oob))) := by
  constructor
  · simp only [stepOp, hs, EQueue.step]
    cases hg : EQueue.get q pos <;> simp [EQueue.ans]
  · simp only [stepOp, hs, EQueue.step]
    by_cases hp : pos ≥ q.len
    · simp [hp]
    · simp only [hp, if_false]
      cases hg : EQueue.set q pos (patBytes seed q.reclen.val) <;> simp [EQueue.ans]

/-! ## sequential pointer map -/

def smOpOf : Op → Option SmOp
  | .smAdd p => some (.add p)
  | .smGet i => some (.get i)
  | .smDel i => some (.delete i)
  | .smMin => some .getmin
  | _ => none

/-- the line shows `num=` for `add` and `getmin`, `ptr=` for `get` -/
def smOutOf (e : SmOp) (an : SmAns) (x' : SeqMap.SM) (m m' : Mem) : Out :=
  .sm an.st (rf m m')
    (match e with | .add _ | .getmin => some an.num | _ => none)
    (match e with | .get _ => some an.ptr | _ => none)
    (smL2 x' m m')

/-- **the four map operations of the protocol are `SeqMap.step`** on the map component -/
theorem sm_stepOp (s : DsStep.S) (x : SeqMap.SM) (hs : s.sm = some x) (op : Op) (e : SmOp)
    (he : smOpOf op = some e) (hno : (SeqMap.step x e s.m).1.st ≠ .oob) :
    stepOp s op =
      ({ s with m := (SeqMap.step x e s.m).2.2, sm := some (SeqMap.step x e s.m).2.1 },
       smOutOf e (SeqMap.step x e s.m).1 (SeqMap.step x e s.m).2.1 s.m (SeqMap.step x e s.m).2.2) := by
  have eta : { s with m := s.m, sm := some x } = s := by cases s; simp only at hs; subst hs; rfl
  revert hno
  cases op <;> simp only [smOpOf, Option.some.injEq, reduceCtorEq] at he <;> subst he
  case smAdd p =>
    simp only [stepOp, hs, SeqMap.step]
    rcases hres : SeqMap.add x p s.m with ⟨r, x', m'⟩
    cases r <;> simp [smOutOf, SeqMap.ans]
  case smGet i =>
    simp only [stepOp, hs, SeqMap.step]
    cases hg : SeqMap.get x i <;> simp [smOutOf, SeqMap.ans, rf_self, eta]
  case smDel i =>
    simp only [stepOp, hs, SeqMap.step]
    rcases hres : SeqMap.delete x i s.m with ⟨st, x', m'⟩
    simp [smOutOf, SeqMap.ans]
  case smMin =>
    simp [stepOp, hs, SeqMap.step, smOutOf, SeqMap.ans, rf_self, eta]

/-- where `SeqMap.step` answers `oob` on `add` / `get` (an `assert` of `seqptrmap_add` fired, or an access outside
storage), the protocol answer is the word `assert` / `oob` and the protocol state is left alone -/
theorem sm_stepOp_oob (s : DsStep.S) (x : SeqMap.SM) (hs : s.sm = some x) (p : Nat) (i : Int) :
    ((SeqMap.step x (.add p) s.m).1.st = .oob →
      stepOp s (.smAdd p) = (s, .word (if (SeqMap.add x p s.m).1 = .assertFail then .assert else .oob))) ∧
    ((SeqMap.step x (.get i) s.m).1.st = .oob → stepOp s (.smGet i) = (s, .word .oob)) := by
  constructor
  · simp only [stepOp, hs, SeqMap.step]
    rcases hres : SeqMap.add x p s.m with ⟨r, x', m'⟩
    cases r <;> simp [SeqMap.ans]
  · simp only [stepOp, hs, SeqMap.step]
    cases hg : SeqMap.get x i <;> simp [SeqMap.ans]

/-! ## object pool -/

/-- the pool operation a protocol line stands for when `inUse` are the objects the harness holds: `mp_free` of an
object it does not hold and `mp_freenth` with nothing held are no pool operation (answer `skip`) -/
def mpOpOf (inUse : List Nat) : Op → Option MpOp
  | .mpMalloc => some .malloc
  | .mpFree x => if inUse.contains x then some (.free x) else none
  | .mpFreenth j => (inUse.mergeSort (· ≤ ·))[j % (inUse.mergeSort (· ≤ ·)).length]?.map .free
  | _ => none

/-- the harness' list of objects in use after the pool step -/
def mpInUse (inUse : List Nat) (e : MpOp) (an : MpAns) : List Nat :=
  match e, an.obj with
  | .malloc, some x => x :: inUse
  | .malloc, none => inUse
  | .free x, _ => inUse.erase x

/-- what the line shows of the object: the one handed out, `null`, the one `mp_freenth` chose -/
def mpObjOf (op : Op) (e : MpOp) (an : MpAns) : MpObj :=
  match op, e, an.obj with
  | .mpMalloc, _, some x => .obj x
  | .mpMalloc, _, none => .null
  | .mpFreenth _, .free x, _ => .obj x
  | _, _, _ => .none

/-- **`mp_malloc` / `mp_free` / `mp_freenth` are `MPool.step`** (objects of `objSize` bytes) on the pool component -/
theorem mp_stepOp (s : DsStep.S) (op : Op) (e : MpOp) (he : mpOpOf s.inUse op = some e) :
    stepOp s op =
      ({ s with m := (MPool.step objSize s.mp e s.m).2.2, mp := (MPool.step objSize s.mp e s.m).2.1,
                inUse := mpInUse s.inUse e (MPool.step objSize s.mp e s.m).1 },
       .mp (rf s.m (MPool.step objSize s.mp e s.m).2.2) (mpObjOf op e (MPool.step objSize s.mp e s.m).1)
          (mpL2 (MPool.step objSize s.mp e s.m).2.1 s.m (MPool.step objSize s.mp e s.m).2.2)) := by
  cases op <;> simp only [mpOpOf, Option.some.injEq, reduceCtorEq] at he
  case mpMalloc =>
    subst he
    simp only [stepOp, MPool.step]
    rcases hres : MPool.malloc s.mp objSize s.m with ⟨o, p', m'⟩
    cases o <;> simp [mpInUse, mpObjOf]
  case mpFree x =>
    split at he
    · rename_i hx
      cases he
      simp only [stepOp, MPool.step, hx]
      rcases hres : MPool.free s.mp x s.m with ⟨p', m'⟩
      simp [mpInUse, mpObjOf]
    · cases he
  case mpFreenth j =>
    simp only [Option.map_eq_some_iff] at he
    obtain ⟨x, hx, rfl⟩ := he
    simp only [stepOp, MPool.step, hx]
    rcases hres : MPool.free s.mp x s.m with ⟨p', m'⟩
    simp [mpInUse, mpObjOf]

/-- the pool lines that are no pool operation -/
theorem mp_stepOp_skip (s : DsStep.S) (op : Op) (hop : ∃ x, op = .mpFree x ∨ op = .mpFreenth x)
    (he : mpOpOf s.inUse op = none) : stepOp s op = (s, .word .skip) := by
  obtain ⟨x, rfl | rfl⟩ := hop
  · simp only [mpOpOf] at he
    split at he
    · cases he
    · rename_i hx; simp only [stepOp, hx]; simp
  · simp only [mpOpOf, Option.map_eq_none_iff] at he
    simp only [stepOp, he]

/-! ## what every container function leaves alone in the oracle -/

/-- same decision function, request counter and refusal counter not decreased -/
def Ext (m m' : Mem) : Prop := m'.f = m.f ∧ m.n ≤ m'.n ∧ m.refusals ≤ m'.refusals

/-- the harness' oracle: no request above `cap` is ever granted -/
def Capped (m : Mem) : Prop := ∀ i sz, m.f i sz = true → sz ≤ cap

theorem Ext.refl (m : Mem) : Ext m m := ⟨rfl, Nat.le_refl _, Nat.le_refl _⟩
theorem Ext.trans {a b c : Mem} (h1 : Ext a b) (h2 : Ext b c) : Ext a c :=
  ⟨h2.1.trans h1.1, Nat.le_trans h1.2.1 h2.2.1, Nat.le_trans h1.2.2 h2.2.2⟩
theorem Capped.ext {m m' : Mem} (h : Capped m) (e : Ext m m') : Capped m' := by
  intro i sz; rw [e.1]; exact h i sz

theorem ext_malloc (m : Mem) (sz : Nat) : Ext m (m.malloc sz).2 := by
  refine ⟨rfl, by simp [Mem.malloc], ?_⟩
  simp only [Mem.malloc]; split <;> omega
theorem ext_realloc (m : Mem) (w : Bool) (sz : Nat) : Ext m (m.realloc w sz).2 := by
  refine ⟨rfl, by simp [Mem.realloc], ?_⟩
  simp only [Mem.realloc]; split <;> omega
theorem ext_free (m : Mem) (b : Bool) : Ext m (m.free b) := by
  cases b <;> exact ⟨rfl, Nat.le_refl _, Nat.le_refl _⟩
theorem malloc_cap {m : Mem} {sz : Nat} (hc : Capped m) (h : (m.malloc sz).1 = true) : sz ≤ cap := hc _ _ h
theorem realloc_cap {m : Mem} {w : Bool} {sz : Nat} (hc : Capped m) (h : (m.realloc w sz).1 = true) : sz ≤ cap := hc _ _ h

/-- frame of a function that takes the array `a` under `m` to `a'` under `m'` -/
def FrameA (a : EArray.EA) (m : Mem) (a' : EArray.EA) (m' : Mem) : Prop :=
  Ext m m' ∧ (Capped m → a.alloc ≤ cap → a'.alloc ≤ cap)

theorem resize_frame (a : EArray.EA) (n : Nat) (m : Mem) :
    FrameA a m (EArray.resize a n m).2.1 (EArray.resize a n m).2.2 := by
  unfold EArray.resize
  simp only
  by_cases h0 : EArray.wantAlloc a.alloc n = 0
  · rw [if_pos h0]; exact ⟨ext_free _ _, fun _ _ => Nat.zero_le _⟩
  · by_cases h1 : EArray.wantAlloc a.alloc n ≠ a.alloc
    · rw [if_neg h0, if_pos h1]
      cases hr : (m.realloc (a.alloc == 0) (EArray.wantAlloc a.alloc n)).1
      · rw [pair_eta _ hr]; exact ⟨ext_realloc _ _ _, fun _ h => h⟩
      · rw [pair_eta _ hr]; exact ⟨ext_realloc _ _ _, fun hc _ => realloc_cap hc hr⟩
    · rw [if_neg h0, if_neg h1]; exact ⟨Ext.refl _, fun _ h => h⟩

theorem resizeRec_frame (a : EArray.EA) (n : Nat) (r : RecLen) (m : Mem) :
    FrameA a m (EArray.resizeRec a n r m).2.1 (EArray.resizeRec a n r m).2.2 := by
  unfold EArray.resizeRec
  split
  · exact ⟨Ext.refl _, fun _ h => h⟩
  · exact resize_frame _ _ _

theorem append_frame (a : EArray.EA) (data : List UInt8) (n : Nat) (r : RecLen) (m : Mem) :
    FrameA a m (EArray.append a data n r m).2.1 (EArray.append a data n r m).2.2 := by
  have hf := resize_frame a ((a.size + (n * r.val) % EArray.SZ) % EArray.SZ) m
  unfold EArray.append
  simp only
  split
  · exact ⟨Ext.refl _, fun _ h => h⟩
  · rcases hres : EArray.resize a ((a.size + (n * r.val) % EArray.SZ) % EArray.SZ) m with ⟨ok, a', m'⟩
    rw [hres] at hf
    cases ok
    · exact hf
    · simp only
      split
      · split
        · exact hf
        · split <;> exact hf
      · exact hf

theorem shrink_frame (a : EArray.EA) (n : Nat) (r : RecLen) (m : Mem) :
    FrameA a m (EArray.shrink a n r m).1 (EArray.shrink a n r m).2 := by
  unfold EArray.shrink
  simp only
  generalize (if n > EArray.SIZE_MAX / r.val ∨ (n * r.val) % EArray.SZ > a.size then 0
      else a.size - (n * r.val) % EArray.SZ) = ns
  have hf := resize_frame a ns m
  rcases hres : EArray.resize a ns m with ⟨ok, a', m'⟩
  rw [hres] at hf
  cases ok <;> exact hf

theorem truncate_frame (a : EArray.EA) (m : Mem) :
    FrameA a m (EArray.truncate a m).2.1 (EArray.truncate a m).2.2 := by
  unfold EArray.truncate
  split
  · exact ⟨ext_free _ _, fun _ _ => Nat.zero_le _⟩
  · split
    · cases hr : (m.realloc false a.size).1
      · rw [pair_eta _ hr]; exact ⟨ext_realloc _ _ _, fun _ h => h⟩
      · rw [pair_eta _ hr]; exact ⟨ext_realloc _ _ _, fun hc _ => realloc_cap hc hr⟩
    · exact ⟨Ext.refl _, fun _ h => h⟩

theorem exportdup_ext (a : EArray.EA) (r : RecLen) (m : Mem) : Ext m (EArray.exportdup a r m).2.2 := by
  unfold EArray.exportdup
  cases hr : (m.malloc a.size).1
  · rw [pair_eta _ hr]; exact ext_malloc _ _
  · rw [pair_eta _ hr]; simp only; split <;> exact ext_malloc _ _

theorem exportBuf_frame (a : EArray.EA) (r : RecLen) (m : Mem) :
    FrameA a m (EArray.exportBuf a r m).2.1 (EArray.exportBuf a r m).2.2 := by
  have hf := truncate_frame a m
  unfold EArray.exportBuf
  rcases hres : EArray.truncate a m with ⟨ok, a', m'⟩
  rw [hres] at hf
  cases ok
  · exact hf
  · exact ⟨hf.1.trans (ext_free _ _), hf.2⟩

theorem ea_free_ext (a : EArray.EA) (m : Mem) : Ext m (EArray.free a m) :=
  (ext_free _ _).trans (ext_free _ _)

theorem ea_init_frame (n : Nat) (r : RecLen) (m : Mem) :
    Ext m (EArray.init n r m).2 ∧ ∀ a, (EArray.init n r m).1 = some a → Capped m → a.alloc ≤ cap := by
  unfold EArray.init
  cases hr : (m.malloc EArray.structSize).1
  · rw [pair_eta _ hr]; exact ⟨ext_malloc _ _, fun a h => by cases h⟩
  · rw [pair_eta _ hr]
    simp only
    have hf := resizeRec_frame { size := 0, alloc := 0, buf := [] } n r (m.malloc EArray.structSize).2
    rcases hres : EArray.resizeRec { size := 0, alloc := 0, buf := [] } n r (m.malloc EArray.structSize).2 with ⟨ok, a', m'⟩
    rw [hres] at hf
    cases ok
    · exact ⟨(ext_malloc _ _).trans (hf.1.trans (ea_free_ext _ _)), fun a h => by cases h⟩
    · refine ⟨(ext_malloc _ _).trans hf.1, fun a h hc => ?_⟩
      cases h
      exact hf.2 (hc.ext (ext_malloc _ _)) (Nat.zero_le _)

theorem eq_init_frame (r : RecLen) (m : Mem) :
    Ext m (EQueue.init r m).2 ∧ ∀ q, (EQueue.init r m).1 = some q → Capped m → q.ea.alloc ≤ cap := by
  unfold EQueue.init
  cases hr : (m.malloc EQueue.structSize).1
  · rw [pair_eta _ hr]; exact ⟨ext_malloc _ _, fun a h => by cases h⟩
  · rw [pair_eta _ hr]
    simp only
    have hf := ea_init_frame 0 r (m.malloc EQueue.structSize).2
    rcases hres : EArray.init 0 r (m.malloc EQueue.structSize).2 with ⟨oa, m'⟩
    rw [hres] at hf
    cases oa
    · exact ⟨(ext_malloc _ _).trans (hf.1.trans (ext_free _ _)), fun a h => by cases h⟩
    · refine ⟨(ext_malloc _ _).trans hf.1, fun q h hc => ?_⟩
      cases h
      exact hf.2 _ rfl (hc.ext (ext_malloc _ _))

theorem eq_add_frame (q : EQueue.EQ) (rec : List UInt8) (m : Mem) :
    FrameA q.ea m (EQueue.add q rec m).2.1.ea (EQueue.add q rec m).2.2 := by
  have hf := append_frame q.ea rec 1 q.reclen m
  unfold EQueue.add
  rcases hres : EArray.append q.ea rec 1 q.reclen m with ⟨st, a', m'⟩
  rw [hres] at hf
  cases st <;> exact hf

theorem setRec_alloc {a a' : EArray.EA} {pos : Nat} {r : RecLen} {rec : List UInt8}
    (h : EArray.setRec a pos r rec = some a') : a'.alloc = a.alloc := by
  unfold EArray.setRec at h
  split at h
  · simp only [Option.map_eq_some_iff] at h
    obtain ⟨b, _, rfl⟩ := h; rfl
  · cases h

theorem moveLoop_alloc (r : RecLen) (off : Nat) : ∀ (n i : Nat) (a a' : EArray.EA),
    EQueue.moveLoop r off n i a = some a' → a'.alloc = a.alloc
  | 0, _, a, a', h => by simp only [EQueue.moveLoop] at h; cases h; rfl
  | n+1, i, a, a', h => by
    simp only [EQueue.moveLoop] at h
    split at h
    · cases h
    · split at h
      · cases h
      · rename_i a1 hset
        rw [moveLoop_alloc r off n (i+1) a1 a' h, setRec_alloc hset]

theorem eq_delete_frame (q : EQueue.EQ) (m : Mem) :
    FrameA q.ea m (EQueue.delete q m).2.1.ea (EQueue.delete q m).2.2 := by
  unfold EQueue.delete
  split
  · exact ⟨Ext.refl _, fun _ h => h⟩
  · simp only
    split
    · split
      · exact ⟨Ext.refl _, fun _ h => h⟩
      · rename_i a hmv
        have hf := shrink_frame a (q.offset + 1) q.reclen m
        exact ⟨hf.1, fun hc h => hf.2 hc (by rw [moveLoop_alloc _ _ _ _ _ _ hmv]; exact h)⟩
    · exact ⟨Ext.refl _, fun _ h => h⟩

theorem eq_set_alloc {q q' : EQueue.EQ} {pos : Nat} {rec : List UInt8} (h : EQueue.set q pos rec = some q') :
    q'.ea.alloc = q.ea.alloc := by
  unfold EQueue.set at h
  split at h
  · cases h
  · simp only [Option.map_eq_some_iff] at h
    obtain ⟨a, ha, rfl⟩ := h
    exact setRec_alloc ha

theorem eq_free_ext (q : EQueue.EQ) (m : Mem) : Ext m (EQueue.free q m) :=
  (ea_free_ext _ _).trans (ext_free _ _)

theorem eq_step_frame (q : EQueue.EQ) (e : EqOp) (m : Mem) :
    FrameA q.ea m (EQueue.step q e m).2.1.ea (EQueue.step q e m).2.2 := by
  cases e with
  | add rec => exact eq_add_frame q rec m
  | delete => exact eq_delete_frame q m
  | getlen => exact ⟨Ext.refl _, fun _ h => h⟩
  | get pos => simp only [EQueue.step]; split <;> exact ⟨Ext.refl _, fun _ h => h⟩
  | set pos rec =>
    simp only [EQueue.step]
    split
    · rename_i q' hq; exact ⟨Ext.refl _, fun _ h => by rw [eq_set_alloc hq]; exact h⟩
    · exact ⟨Ext.refl _, fun _ h => h⟩

/-! sequential pointer map -/

theorem sm_init_frame (m : Mem) :
    Ext m (SeqMap.init m).2 ∧ ∀ x, (SeqMap.init m).1 = some x → Capped m → x.q.ea.alloc ≤ cap := by
  unfold SeqMap.init
  cases hr : (m.malloc SeqMap.structSize).1
  · rw [pair_eta _ hr]; exact ⟨ext_malloc _ _, fun a h => by cases h⟩
  · rw [pair_eta _ hr]
    simp only
    have hf := eq_init_frame SeqMap.ptrLen (m.malloc SeqMap.structSize).2
    rcases hres : EQueue.init SeqMap.ptrLen (m.malloc SeqMap.structSize).2 with ⟨oa, m'⟩
    rw [hres] at hf
    cases oa
    · exact ⟨(ext_malloc _ _).trans (hf.1.trans (ext_free _ _)), fun a h => by cases h⟩
    · refine ⟨(ext_malloc _ _).trans hf.1, fun q h hc => ?_⟩
      cases h
      exact hf.2 _ rfl (hc.ext (ext_malloc _ _))

theorem sm_add_frame (x : SeqMap.SM) (p : Nat) (m : Mem) :
    FrameA x.q.ea m (SeqMap.add x p m).2.1.q.ea (SeqMap.add x p m).2.2 := by
  have hf := eq_add_frame x.q (SeqMap.encPtr p) m
  unfold SeqMap.add
  rcases hres : EQueue.add x.q (SeqMap.encPtr p) m with ⟨st, q', m'⟩
  rw [hres] at hf
  cases st
  · simp only; split <;> exact hf
  · exact hf
  · exact hf

theorem trimLoop_frame : ∀ (fuel : Nat) (x : SeqMap.SM) (m : Mem),
    FrameA x.q.ea m (SeqMap.trimLoop fuel x m).2.1.q.ea (SeqMap.trimLoop fuel x m).2.2 := by
  intro fuel
  induction fuel with
  | zero =>
    intro x m
    unfold SeqMap.trimLoop
    split
    · exact ⟨Ext.refl _, fun _ h => h⟩
    · split
      · exact ⟨Ext.refl _, fun _ h => h⟩
      · split <;> exact ⟨Ext.refl _, fun _ h => h⟩
  | succ fuel ih =>
    intro x m
    unfold SeqMap.trimLoop
    split
    · exact ⟨Ext.refl _, fun _ h => h⟩
    · split
      · exact ⟨Ext.refl _, fun _ h => h⟩
      · split
        · exact ⟨Ext.refl _, fun _ h => h⟩
        · simp only
          have hf := eq_delete_frame x.q m
          rcases hres : EQueue.delete x.q m with ⟨st, q', m'⟩
          rw [hres] at hf
          cases st
          · simp only
            have := ih { q := q', offset := x.offset + 1, len := x.len - 1 } m'
            exact ⟨hf.1.trans this.1, fun hc h => this.2 (hc.ext hf.1) (hf.2 hc h)⟩
          · exact hf
          · exact hf

theorem sm_delete_frame (x : SeqMap.SM) (i : Int) (m : Mem) :
    FrameA x.q.ea m (SeqMap.delete x i m).2.1.q.ea (SeqMap.delete x i m).2.2 := by
  unfold SeqMap.delete
  split
  · exact ⟨Ext.refl _, fun _ h => h⟩
  · split
    · exact ⟨Ext.refl _, fun _ h => h⟩
    · split
      · exact ⟨Ext.refl _, fun _ h => h⟩
      · rename_i q hq
        have := trimLoop_frame (x.len + 1) { x with q := q } m
        exact ⟨this.1, fun hc h => this.2 hc (by show q.ea.alloc ≤ cap; rw [eq_set_alloc hq]; exact h)⟩

theorem sm_free_ext (x : SeqMap.SM) (m : Mem) : Ext m (SeqMap.free x m) :=
  (eq_free_ext _ _).trans (ext_free _ _)

theorem sm_step_frame (x : SeqMap.SM) (e : SmOp) (m : Mem) :
    FrameA x.q.ea m (SeqMap.step x e m).2.1.q.ea (SeqMap.step x e m).2.2 := by
  cases e with
  | add p =>
    have hf := sm_add_frame x p m
    simp only [SeqMap.step]
    rcases hres : SeqMap.add x p m with ⟨r, x', m'⟩
    rw [hres] at hf
    cases r <;> exact hf
  | get i => simp only [SeqMap.step]; split <;> exact ⟨Ext.refl _, fun _ h => h⟩
  | delete i => exact sm_delete_frame x i m
  | getmin => exact ⟨Ext.refl _, fun _ h => h⟩

/-! object pool -/

theorem foldl_free_ext (l : List Nat) (m : Mem) : Ext m (l.foldl (fun m _ => m.free false) m) := by
  induction l generalizing m with
  | nil => exact Ext.refl _
  | cons x rest ih => exact (ext_free m false).trans (ih _)

theorem mp_atexit_ext (p : MPool.MP) (m : Mem) : Ext m (MPool.atexit p m).2 := by
  simp only [MPool.atexit]
  split
  · exact (foldl_free_ext _ _).trans (ext_free _ _)
  · exact foldl_free_ext _ _

theorem mp_step_ext (sz : Nat) (p : MPool.MP) (e : MpOp) (m : Mem) : Ext m (MPool.step sz p e m).2.2 := by
  cases e with
  | malloc =>
    simp only [MPool.step, MPool.malloc]
    split
    · exact Ext.refl _
    · cases hr : (m.malloc sz).1 <;> rw [pair_eta _ hr] <;> exact ext_malloc _ _
  | free x =>
    simp only [MPool.step, MPool.free]
    split
    · exact Ext.refl _
    · split
      · cases hr : (m.malloc ((p.allocsize * 2 * 8) % EArray.SZ)).1
        · rw [pair_eta _ hr]; exact (ext_malloc _ _).trans (ext_free _ _)
        · rw [pair_eta _ hr]; simp only; split
          · exact (ext_malloc _ _).trans (ext_free _ _)
          · exact ext_malloc _ _
      · exact ext_free _ _

theorem ea_step_frame (a : EArray.EA) (e : EaOp) (m : Mem) :
    FrameA a m (EArray.step a e m).2.1 (EArray.step a e m).2.2 := by
  cases e with
  | resize n r fill =>
    have hf := resizeRec_frame a n r m
    simp only [EArray.step]
    rcases hres : EArray.resizeRec a n r m with ⟨ok, a', m'⟩
    rw [hres] at hf
    cases ok
    · exact hf
    · simp only
      cases hfl : EArray.fillFrom a' a.size fill
      · exact hf
      · rename_i a''
        refine ⟨hf.1, fun hc h => ?_⟩
        have : a''.alloc = a'.alloc := by
          unfold EArray.fillFrom at hfl
          split at hfl
          · cases hfl; rfl
          · split at hfl
            · simp only [Option.map_eq_some_iff] at hfl
              obtain ⟨b, _, rfl⟩ := hfl; rfl
            · cases hfl
        rw [this]; exact hf.2 hc h
  | append data n r =>
    have hf := append_frame a data n r m
    simp only [EArray.step]
    rcases hres : EArray.append a data n r m with ⟨st, a', m'⟩
    rw [hres] at hf; exact hf
  | shrink n r =>
    have hf := shrink_frame a n r m
    simp only [EArray.step]
    rcases hres : EArray.shrink a n r m with ⟨a', m'⟩
    rw [hres] at hf; exact hf
  | truncate =>
    have hf := truncate_frame a m
    simp only [EArray.step]
    rcases hres : EArray.truncate a m with ⟨ok, a', m'⟩
    rw [hres] at hf
    cases ok <;> exact hf
  | get pos r => simp only [EArray.step]; split <;> exact ⟨Ext.refl _, fun _ h => h⟩
  | set pos r rec =>
    simp only [EArray.step]
    split
    · rename_i a' ha; exact ⟨Ext.refl _, fun _ h => by rw [setRec_alloc ha]; exact h⟩
    · exact ⟨Ext.refl _, fun _ h => h⟩
  | getsize r => exact ⟨Ext.refl _, fun _ h => h⟩
  | exportdup r =>
    have hf := exportdup_ext a r m
    simp only [EArray.step]
    rcases hres : EArray.exportdup a r m with ⟨st, out, m'⟩
    rw [hres] at hf
    exact ⟨hf, fun _ h => h⟩

end Percival.Proofs.DsStep
