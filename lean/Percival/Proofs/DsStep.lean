import Percival.Model.DsStep
import Percival.Proofs.EArrayStep
import Percival.Proofs.EQueue
import Percival.Proofs.SeqMap
import Percival.Proofs.MPool
/-!
# `Model.DsStep.stepOp` (the function `pmodel ds` runs) = the proved step functions (C12, C14)

For each family of protocol operations: the container operation a protocol line stands for (`eaOpOf`, `eqOpOf`,
`smOpOf`, `mpOpOf`), the typed output built from the container step's observable answer (`eaOutOf`, …) and the
equation `stepOp s op = (state with the component replaced by the step's, that output)`.  What `stepOp` adds to
the container step is visible in these definitions and nowhere else:

* the caller's data are `patBytes seed n` (for `ea_resize`: the bytes written into the grown part; for an
  `ea_append` no allocation can hold: a one-byte dummy buffer);
* `rf` / `req` / `live` are read off the allocation oracle before and after the step;
* after a successful `ea_dup` the harness frees the copy; `mp_malloc` / `mp_free` keep the harness' list of objects in use;
* an access the container step reports as out of contract (`oob`) on `ea_get` / `ea_set` / `eq_set` beyond the end
  is the protocol answer `skip`; on the other operations it is the answer `oob` (never reached from a state that
  satisfies the containers' invariants: `C12.ea_step_refines` …);
* a failed `assert` of `seqptrmap_add` is the answer `assert` and leaves the protocol state alone.
-/
namespace Percival.Model.DsStep
open Percival.Spec.DS Percival.Spec.DSMon

def headOfSt : St → Head
  | .ok => .ok | .fail => .fail | .oob => .other

def headOfWord : Word → Head
  | .ok => .ok | .skip => .skip | _ => .other

/-- how `recs=` is read back: `?` (a record that could not be read) makes the field unreadable; a single empty
record prints as `-`, which reads as "no records" (records are never empty: record lengths are positive) -/
def recsAns (l : List (Option (List UInt8))) : Option (List (List UInt8)) :=
  if l = [some []] then some [] else l.mapM id

/-- **What the monitor sees of a line of the model**: `Driver/Ds.render` prints the typed output, the part before
` | ` is cut into tokens and `Driver/Dsmon.parseAns` reads them into an `Ans`; `Out.ans` is that composition as a
typed function (`Proofs/DsAns.lean` proves `parseAns (l1Toks o) = o.ans` for every `o`, where `render o` is the tokens
`l1Toks o` joined by spaces and followed by the L2 part; `KAT/DsAns.lean` checks the whole printed line on an output
of every shape). -/
def Out.ans : Out → Ans
  | .word w => { head := headOfWord w, ntoks := 1 }
  | .ended live _ =>
      { head := .end_, ntoks := 3, live := if 0 ≤ live then some live.toNat else none, leaked := some 0 }
  | .initFail rf _ => { head := .fail, ntoks := 2, rf := some rf }
  | .ea st sz al rf none _ => { head := headOfSt st, ntoks := 4, sz := some sz, al := some al, rf := some rf }
  | .ea st sz al rf (some (n, b)) _ =>
      { head := headOfSt st, ntoks := 6, sz := some sz, al := some al, rf := some rf, n := some n, out := .val b }
  | .eaExport rf n b _ => { head := .ok, ntoks := 4, rf := some rf, n := some n, out := .val b }
  | .freed _ => { head := .ok, ntoks := 1 }
  | .eq st len rf .none _ => { head := headOfSt st, ntoks := 3, len := some len, rf := some rf }
  | .eq st len rf .null _ => { head := headOfSt st, ntoks := 4, len := some len, rf := some rf, null := true }
  | .eq st len rf (.record b) _ => { head := headOfSt st, ntoks := 4, len := some len, rf := some rf, recd := .val b }
  | .eq st len rf (.recs l) _ =>
      { head := headOfSt st, ntoks := 4, len := some len, rf := some rf, recs := some (recsAns l) }
  | .smInit rf _ => { head := .ok, ntoks := 2, rf := some rf }
  | .sm st rf num ptr _ =>
      { head := headOfSt st, ntoks := 2 + (if num.isSome then 1 else 0) + (if ptr.isSome then 1 else 0),
        rf := some rf, num := num, ptr := ptr }
  | .mp rf .none _ => { head := .ok, ntoks := 2, rf := some rf }
  | .mp rf .null _ => { head := .ok, ntoks := 3, rf := some rf, null := true }
  | .mp rf (.obj x) _ => { head := .ok, ntoks := 3, rf := some rf, obj := some x }
  | .mpExit _ => { head := .ok, ntoks := 2, leaked := some 0 }

/-- operations the generators produce (and the C harness can execute): record lengths are positive (the C asserts
it), a queue's record length fits `size_t` with room for the largest array the harness' allocator grants, stored
pointers are non-NULL 64-bit values -/
def OpOk : Op → Prop
  | .eaInit _ r _ | .eaResize _ r _ | .eaAppend _ r _ | .eaShrink _ r | .eaGetsize r | .eaDup r | .eaExport r => 0 < r
  | .eqInit r => 0 < r ∧ r + cap ≤ SIZE_MAX
  | .smAdd p => 0 < p ∧ p < 2^64
  | .mpInit k | .mpUse k => poolSizes.contains k = true
  | _ => True

instance : DecidablePred OpOk := fun op => by cases op <;> simp only [OpOk] <;> infer_instance

end Percival.Model.DsStep

namespace Percival.Proofs.DsStep
open Percival.Model Percival.Model.DsStep Percival.Spec.DS Percival.Spec.DSMon
open Percival.Proofs.EArray

/-! ## elastic array -/

/-- the array operation a protocol line stands for, on an array that holds `size` bytes; `none`: not one of the
eight operations of `EArray.step`, or record length 0 -/
def eaOpOf (size : Nat) : Op → Option EaOp
  | .eaResize n reclen seed => (mkRecLen reclen).map fun r => .resize n r (patBytes seed (n * r.val - size))
  | .eaAppend n reclen seed => (mkRecLen reclen).map fun r =>
      .append (if n ≤ dataMax / r.val then patBytes seed (n * r.val) else [0]) n r
  | .eaShrink n reclen => (mkRecLen reclen).map fun r => .shrink n r
  | .eaTrunc => some .truncate
  | .eaGet pos reclen => (mkRecLen reclen).map fun r => .get pos r
  | .eaSet pos reclen seed => (mkRecLen reclen).map fun r => .set pos r (patBytes seed r.val)
  | .eaGetsize reclen => (mkRecLen reclen).map fun r => .getsize r
  | .eaDup reclen => (mkRecLen reclen).map fun r => .exportdup r
  | _ => none

/-- the oracle after the harness' own frees: the copy made by a successful `exportdup` -/
def eaHarnessFree (e : EaOp) (an : EaAns) (m' : Mem) : Mem :=
  match e, an.st, an.out with
  | .exportdup _, .ok, some _ => m'.free false
  | _, _, _ => m'

/-- the printed line for an observed array answer (`m`: oracle before, `m'` after the step, `mEnd` after the
harness' frees) -/
def eaOutOf (an : EaAns) (m m' mEnd : Mem) : Out :=
  .ea an.st an.size an.alloc (rf m m') (an.out.map fun p => (p.2, p.1)) (l2c m mEnd)

theorem S_eta (s : DsStep.S) (a : EArray.EA) (hs : s.ea = some a) : { s with m := s.m, ea := some a } = s := by
  cases s; simp only at hs; subst hs; rfl

theorem resize_size (a : EArray.EA) (n : Nat) (m : Mem) (h : (EArray.resize a n m).1 = true) :
    (EArray.resize a n m).2.1.size = n := by
  unfold EArray.resize at h ⊢
  simp only at h ⊢
  by_cases h0 : EArray.wantAlloc a.alloc n = 0
  · simp [h0]
  · by_cases h1 : EArray.wantAlloc a.alloc n ≠ a.alloc
    · rw [if_neg h0, if_pos h1] at h ⊢
      cases hr : (m.realloc (a.alloc == 0) (EArray.wantAlloc a.alloc n)).1
      · rw [pair_eta _ hr] at h; simp at h
      · rw [pair_eta _ hr]
    · simp [h0, h1]

theorem resizeRec_size (a : EArray.EA) (n : Nat) (r : RecLen) (m : Mem) (h : (EArray.resizeRec a n r m).1 = true) :
    (EArray.resizeRec a n r m).2.1.size = n * r.val := by
  unfold EArray.resizeRec at h ⊢
  by_cases hg : n > EArray.SIZE_MAX / r.val
  · simp [hg] at h
  · simp only [hg, if_false] at h ⊢
    have hle : n * r.val ≤ EArray.SIZE_MAX := by
      have : ¬ n * r.val > EArray.SIZE_MAX := fun h' => hg ((guard_iff n r).2 h')
      omega
    have hmod : n * r.val % EArray.SZ = n * r.val := Nat.mod_eq_of_lt (by simp only [SZ_eq, SIZE_MAX_eq] at *; omega)
    rw [hmod] at h ⊢
    exact resize_size a _ m h

/-- **the eight array operations of the protocol are `EArray.step`** on the array component (when the step
does not report an access outside storage) -/
theorem ea_stepOp (s : DsStep.S) (a : EArray.EA) (hs : s.ea = some a) (op : Op) (e : EaOp)
    (he : eaOpOf a.size op = some e) (hno : (EArray.step a e s.m).1.st ≠ .oob) :
    stepOp s op =
      ({ s with m := eaHarnessFree e (EArray.step a e s.m).1 (EArray.step a e s.m).2.2,
                ea := some (EArray.step a e s.m).2.1 },
       eaOutOf (EArray.step a e s.m).1 s.m (EArray.step a e s.m).2.2
         (eaHarnessFree e (EArray.step a e s.m).1 (EArray.step a e s.m).2.2)) := by
  revert hno
  cases op <;> simp only [eaOpOf, Option.map_eq_some_iff, reduceCtorEq] at he
  case eaResize n reclen seed =>
    obtain ⟨r, hr, rfl⟩ := he
    simp only [stepOp, onEa, hs, hr, EArray.step]
    have hsz := resizeRec_size a n r s.m
    rcases hres : EArray.resizeRec a n r s.m with ⟨ok, a', m'⟩
    rw [hres] at hsz
    cases ok
    · simp [eaHarnessFree, eaOutOf, eaOut, EArray.ans]
    · simp only at hsz ⊢
      rw [hsz trivial]
      cases hf : EArray.fillFrom a' a.size (patBytes seed (n * r.val - a.size))
      · simp [EArray.ans]
      · simp [eaHarnessFree, eaOutOf, eaOut, EArray.ans]
  case eaAppend n reclen seed =>
    obtain ⟨r, hr, rfl⟩ := he
    simp only [stepOp, onEa, hs, hr, EArray.step]
    rcases hres : EArray.append a (if n ≤ dataMax / r.val then patBytes seed (n * r.val) else [0]) n r s.m with ⟨st, a', m'⟩
    simp [eaHarnessFree, eaOutOf, eaOut, EArray.ans]
  case eaShrink n reclen =>
    obtain ⟨r, hr, rfl⟩ := he
    simp only [stepOp, onEa, hs, hr, EArray.step]
    rcases hres : EArray.shrink a n r s.m with ⟨a', m'⟩
    simp [eaHarnessFree, eaOutOf, eaOut, EArray.ans]
  case eaTrunc =>
    cases he
    simp only [stepOp, onEa, hs, EArray.step]
    rcases hres : EArray.truncate a s.m with ⟨ok, a', m'⟩
    cases ok <;> simp [eaHarnessFree, eaOutOf, eaOut, EArray.ans]
  case eaGet pos reclen =>
    obtain ⟨r, hr, rfl⟩ := he
    simp only [stepOp, onEa, hs, hr, EArray.step]
    cases hg : EArray.getRec a pos r
    · simp [EArray.ans]
    · intro _
      simp [eaHarnessFree, eaOutOf, eaOut, EArray.ans, S_eta s a hs]
  case eaSet pos reclen seed =>
    obtain ⟨r, hr, rfl⟩ := he
    simp only [stepOp, onEa, hs, hr, EArray.step]
    cases hg : EArray.setRec a pos r (patBytes seed r.val)
    · simp [EArray.ans]
    · simp [eaHarnessFree, eaOutOf, eaOut, EArray.ans]
  case eaGetsize reclen =>
    obtain ⟨r, hr, rfl⟩ := he
    simp only [stepOp, onEa, hs, hr, EArray.step]
    simp [eaHarnessFree, eaOutOf, eaOut, EArray.ans, S_eta s a hs]
  case eaDup reclen =>
    obtain ⟨r, hr, rfl⟩ := he
    simp only [stepOp, onEa, hs, hr, EArray.step]
    intro _
    unfold EArray.exportdup
    cases hm : (s.m.malloc a.size).1
    · rw [pair_eta _ hm]; simp [eaHarnessFree, eaOutOf, eaOut, EArray.ans]
    · rw [pair_eta _ hm]
      cases hrd : EArray.readAt a.buf 0 a.size <;> simp [eaHarnessFree, eaOutOf, eaOut, EArray.ans]

/-- `ea_get` / `ea_set` of a record that is not inside the contents: the answer is `skip`, nothing changes -/
theorem ea_stepOp_skip (s : DsStep.S) (a : EArray.EA) (hs : s.ea = some a) (pos reclen seed : Nat) (r : RecLen)
    (hr : mkRecLen reclen = some r) :
    ((EArray.step a (.get pos r) s.m).1.st = .oob → stepOp s (.eaGet pos reclen) = (s, .word .skip)) ∧
    ((EArray.step a (.set pos r (patBytes seed r.val)) s.m).1.st = .oob →
      stepOp s (.eaSet pos reclen seed) = (s, .word .skip)) := by
  constructor
  · simp only [stepOp, onEa, hs, hr, EArray.step]
    cases hg : EArray.getRec a pos r <;> simp [EArray.ans]
  · simp only [stepOp, onEa, hs, hr, EArray.step]
    cases hg : EArray.setRec a pos r (patBytes seed r.val) <;> simp [EArray.ans]

/-! ## elastic queue -/

/-- the queue operation a protocol line stands for, on a queue of `reclen`-byte records -/
def eqOpOf (reclen : Nat) : Op → Option EqOp
  | .eqAdd seed => some (.add (patBytes seed reclen))
  | .eqDel => some .delete
  | .eqLen => some .getlen
  | .eqGet pos => some (.get pos)
  | .eqSet pos seed => some (.set pos (patBytes seed reclen))
  | _ => none

/-- what the line shows of the record seen through `elasticqueue_get` -/
def eqExtraOf (e : EqOp) (an : EqAns) : EqExtra :=
  match e, an.got with
  | .get _, none => .null
  | _, some b => .record b
  | _, none => .none

def eqOutOf (e : EqOp) (an : EqAns) (q' : EQueue.EQ) (m m' : Mem) : Out :=
  .eq an.st an.len (rf m m') (eqExtraOf e an) (eqL2 q' m m')

theorem rf_self (m : Mem) : rf m m = 0 := by simp [rf]

/-- **the five queue operations of the protocol are `EQueue.step`** on the queue component -/
theorem eq_stepOp (s : DsStep.S) (q : EQueue.EQ) (hs : s.eq = some q) (op : Op) (e : EqOp)
    (he : eqOpOf q.reclen.val op = some e) (hno : (EQueue.step q e s.m).1.st ≠ .oob) :
    stepOp s op =
      ({ s with m := (EQueue.step q e s.m).2.2, eq := some (EQueue.step q e s.m).2.1 },
       eqOutOf e (EQueue.step q e s.m).1 (EQueue.step q e s.m).2.1 s.m (EQueue.step q e s.m).2.2) := by
  have eta : { s with m := s.m, eq := some q } = s := by cases s; simp only at hs; subst hs; rfl
  revert hno
  cases op <;> simp only [eqOpOf, Option.some.injEq, reduceCtorEq] at he <;> subst he
  case eqAdd seed =>
    simp only [stepOp, hs, EQueue.step]
    rcases hres : EQueue.add q (patBytes seed q.reclen.val) s.m with ⟨st, q', m'⟩
    simp [eqOutOf, eqExtraOf, EQueue.ans]
  case eqDel =>
    simp only [stepOp, hs, EQueue.step]
    rcases hres : EQueue.delete q s.m with ⟨st, q', m'⟩
    simp [eqOutOf, eqExtraOf, EQueue.ans]
  case eqLen =>
    simp [stepOp, hs, EQueue.step, eqOutOf, eqExtraOf, EQueue.ans, rf_self, eta, EQueue.getlen]
  case eqGet pos =>
    simp only [stepOp, hs, EQueue.step]
    cases hg : EQueue.get q pos <;> simp [eqOutOf, eqExtraOf, EQueue.ans, rf_self, eta]
  case eqSet pos seed =>
    simp only [stepOp, hs, EQueue.step]
    by_cases hp : pos ≥ q.len
    · simp [EQueue.set, hp, EQueue.ans]
    · simp only [hp, if_false]
      cases hg : EQueue.set q pos (patBytes seed q.reclen.val) <;> simp [eqOutOf, eqExtraOf, EQueue.ans, rf_self]

/-- an access `EQueue.step` reports as outside storage: `eq_set` beyond the end is answered `skip`, anything else
`oob`; nothing changes -/
theorem eq_stepOp_oob (s : DsStep.S) (q : EQueue.EQ) (hs : s.eq = some q) (pos seed : Nat) :
    ((EQueue.step q (.get pos) s.m).1.st = .oob → stepOp s (.eqGet pos) = (s, .word .oob)) ∧
    ((EQueue.step q (.set pos (patBytes seed q.reclen.val)) s.m).1.st = .oob →
      stepOp s (.eqSet pos seed) = (s, .word (if pos ≥ q.len then .skip else .oob))) := by
  constructor
  · simp only [stepOp, hs, EQueue.step]
    cases hg : EQueue.get q pos <;> simp [EQueue.ans]
  · simp only [stepOp, hs, EQueue.step]
    by_cases hp : pos ≥ q.len
    · simp [hp]
    · simp only [hp, if_false]
      cases hg : EQueue.set q pos (patBytes seed q.reclen.val) <;> simp [EQueue.ans]

/-! ## sequential pointer map -/

def smOpOf : Op → Option SmOp
  | .smAdd p => some (.add p)
  | .smGet i => some (.get i)
  | .smDel i => some (.delete i)
  | .smMin => some .getmin
  | _ => none

/-- the line shows `num=` for `add` and `getmin`, `ptr=` for `get` -/
def smOutOf (e : SmOp) (an : SmAns) (x' : SeqMap.SM) (m m' : Mem) : Out :=
  .sm an.st (rf m m')
    (match e with | .add _ | .getmin => some an.num | _ => none)
    (match e with | .get _ => some an.ptr | _ => none)
    (smL2 x' m m')

/-- **the four map operations of the protocol are `SeqMap.step`** on the map component -/
theorem sm_stepOp (s : DsStep.S) (x : SeqMap.SM) (hs : s.sm = some x) (op : Op) (e : SmOp)
    (he : smOpOf op = some e) (hno : (SeqMap.step x e s.m).1.st ≠ .oob) :
    stepOp s op =
      ({ s with m := (SeqMap.step x e s.m).2.2, sm := some (SeqMap.step x e s.m).2.1 },
       smOutOf e (SeqMap.step x e s.m).1 (SeqMap.step x e s.m).2.1 s.m (SeqMap.step x e s.m).2.2) := by
  have eta : { s with m := s.m, sm := some x } = s := by cases s; simp only at hs; subst hs; rfl
  revert hno
  cases op <;> simp only [smOpOf, Option.some.injEq, reduceCtorEq] at he <;> subst he
  case smAdd p =>
    simp only [stepOp, hs, SeqMap.step]
    rcases hres : SeqMap.add x p s.m with ⟨r, x', m'⟩
    cases r <;> simp [smOutOf, SeqMap.ans]
  case smGet i =>
    simp only [stepOp, hs, SeqMap.step]
    cases hg : SeqMap.get x i <;> simp [smOutOf, SeqMap.ans, rf_self, eta]
  case smDel i =>
    simp only [stepOp, hs, SeqMap.step]
    rcases hres : SeqMap.delete x i s.m with ⟨st, x', m'⟩
    simp [smOutOf, SeqMap.ans]
  case smMin =>
    simp [stepOp, hs, SeqMap.step, smOutOf, SeqMap.ans, rf_self, eta]

/-- where `SeqMap.step` answers `oob` on `add` / `get` (an `assert` of `seqptrmap_add` fired, or an access outside
storage), the protocol answer is the word `assert` / `oob` and the protocol state is left alone -/
theorem sm_stepOp_oob (s : DsStep.S) (x : SeqMap.SM) (hs : s.sm = some x) (p : Nat) (i : Int) :
    ((SeqMap.step x (.add p) s.m).1.st = .oob →
      stepOp s (.smAdd p) = (s, .word (if (SeqMap.add x p s.m).1 = .assertFail then .assert else .oob))) ∧
    ((SeqMap.step x (.get i) s.m).1.st = .oob → stepOp s (.smGet i) = (s, .word .oob)) := by
  constructor
  · simp only [stepOp, hs, SeqMap.step]
    rcases hres : SeqMap.add x p s.m with ⟨r, x', m'⟩
    cases r <;> simp [SeqMap.ans]
  · simp only [stepOp, hs, SeqMap.step]
    cases hg : SeqMap.get x i <;> simp [SeqMap.ans]

/-! ## object pool -/

/-- the pool operation a protocol line stands for when `inUse` are the objects the harness holds: `mp_free` of an
object it does not hold and `mp_freenth` with nothing held are no pool operation (answer `skip`) -/
def mpOpOf (inUse : List Nat) : Op → Option MpOp
  | .mpMalloc => some .malloc
  | .mpFree x => if inUse.contains x then some (.free x) else none
  | .mpFreenth j => (inUse.mergeSort (· ≤ ·))[j % (inUse.mergeSort (· ≤ ·)).length]?.map .free
  | _ => none

/-- the harness' list of objects in use after the pool step -/
def mpInUse (inUse : List Nat) (e : MpOp) (an : MpAns) : List Nat :=
  match e, an.obj with
  | .malloc, some x => x :: inUse
  | .malloc, none => inUse
  | .free x, _ => inUse.erase x

/-- what the line shows of the object: the one handed out, `null`, the one `mp_freenth` chose -/
def mpObjOf (op : Op) (e : MpOp) (an : MpAns) : MpObj :=
  match op, e, an.obj with
  | .mpMalloc, _, some x => .obj x
  | .mpMalloc, _, none => .null
  | .mpFreenth _, .free x, _ => .obj x
  | _, _, _ => .none

/-- **`mp_malloc` / `mp_free` / `mp_freenth` are `MPool.step`** (objects of `objSize` bytes) on the pool component -/
theorem mp_stepOp (s : DsStep.S) (op : Op) (e : MpOp) (he : mpOpOf s.inUse op = some e) :
    stepOp s op =
      ({ s with m := (MPool.step objSize s.mp e s.m).2.2, mp := (MPool.step objSize s.mp e s.m).2.1,
                inUse := mpInUse s.inUse e (MPool.step objSize s.mp e s.m).1 },
       .mp (rf s.m (MPool.step objSize s.mp e s.m).2.2) (mpObjOf op e (MPool.step objSize s.mp e s.m).1)
          (mpL2 (MPool.step objSize s.mp e s.m).2.1 s.m (MPool.step objSize s.mp e s.m).2.2)) := by
  cases op <;> simp only [mpOpOf, Option.some.injEq, reduceCtorEq] at he
  case mpMalloc =>
    subst he
    simp only [stepOp, MPool.step]
    rcases hres : MPool.malloc s.mp objSize s.m with ⟨o, p', m'⟩
    cases o <;> simp [mpInUse, mpObjOf]
  case mpFree x =>
    split at he
    · rename_i hx
      cases he
      simp only [stepOp, MPool.step, hx]
      rcases hres : MPool.free s.mp x s.m with ⟨p', m'⟩
      simp [mpInUse, mpObjOf]
    · cases he
  case mpFreenth j =>
    simp only [Option.map_eq_some_iff] at he
    obtain ⟨x, hx, rfl⟩ := he
    simp only [stepOp, MPool.step, hx]
    rcases hres : MPool.free s.mp x s.m with ⟨p', m'⟩
    simp [mpInUse, mpObjOf]

/-- the pool lines that are no pool operation -/
theorem mp_stepOp_skip (s : DsStep.S) (op : Op) (hop : ∃ x, op = .mpFree x ∨ op = .mpFreenth x)
    (he : mpOpOf s.inUse op = none) : stepOp s op = (s, .word .skip) := by
  obtain ⟨x, rfl | rfl⟩ := hop
  · simp only [mpOpOf] at he
    split at he
    · cases he
    · rename_i hx; simp only [stepOp, hx]; simp
  · simp only [mpOpOf, Option.map_eq_none_iff] at he
    simp only [stepOp, he]

/-! ## what every container function leaves alone in the oracle -/

/-- same decision function, request counter and refusal counter not decreased -/
def Ext (m m' : Mem) : Prop := m'.f = m.f ∧ m.n ≤ m'.n ∧ m.refusals ≤ m'.refusals

/-- the harness' oracle: no request above `cap` is ever granted -/
def Capped (m : Mem) : Prop := ∀ i sz, m.f i sz = true → sz ≤ cap

theorem Ext.refl (m : Mem) : Ext m m := ⟨rfl, Nat.le_refl _, Nat.le_refl _⟩
theorem Ext.trans {a b c : Mem} (h1 : Ext a b) (h2 : Ext b c) : Ext a c :=
  ⟨h2.1.trans h1.1, Nat.le_trans h1.2.1 h2.2.1, Nat.le_trans h1.2.2 h2.2.2⟩
theorem Capped.ext {m m' : Mem} (h : Capped m) (e : Ext m m') : Capped m' := by
  intro i sz; rw [e.1]; exact h i sz

theorem ext_malloc (m : Mem) (sz : Nat) : Ext m (m.malloc sz).2 := by
  refine ⟨rfl, by simp [Mem.malloc], ?_⟩
  simp only [Mem.malloc]; split <;> omega
theorem ext_realloc (m : Mem) (w : Bool) (sz : Nat) : Ext m (m.realloc w sz).2 := by
  refine ⟨rfl, by simp [Mem.realloc], ?_⟩
  simp only [Mem.realloc]; split <;> omega
theorem ext_free (m : Mem) (b : Bool) : Ext m (m.free b) := by
  cases b <;> exact ⟨rfl, Nat.le_refl _, Nat.le_refl _⟩
theorem malloc_cap {m : Mem} {sz : Nat} (hc : Capped m) (h : (m.malloc sz).1 = true) : sz ≤ cap := hc _ _ h
theorem realloc_cap {m : Mem} {w : Bool} {sz : Nat} (hc : Capped m) (h : (m.realloc w sz).1 = true) : sz ≤ cap := hc _ _ h

/-- frame of a function that takes the array `a` under `m` to `a'` under `m'` -/
def FrameA (a : EArray.EA) (m : Mem) (a' : EArray.EA) (m' : Mem) : Prop :=
  Ext m m' ∧ (Capped m → a.alloc ≤ cap → a'.alloc ≤ cap)

theorem resize_frame (a : EArray.EA) (n : Nat) (m : Mem) :
    FrameA a m (EArray.resize a n m).2.1 (EArray.resize a n m).2.2 := by
  unfold EArray.resize
  simp only
  by_cases h0 : EArray.wantAlloc a.alloc n = 0
  · rw [if_pos h0]; exact ⟨ext_free _ _, fun _ _ => Nat.zero_le _⟩
  · by_cases h1 : EArray.wantAlloc a.alloc n ≠ a.alloc
    · rw [if_neg h0, if_pos h1]
      cases hr : (m.realloc (a.alloc == 0) (EArray.wantAlloc a.alloc n)).1
      · rw [pair_eta _ hr]; exact ⟨ext_realloc _ _ _, fun _ h => h⟩
      · rw [pair_eta _ hr]; exact ⟨ext_realloc _ _ _, fun hc _ => realloc_cap hc hr⟩
    · rw [if_neg h0, if_neg h1]; exact ⟨Ext.refl _, fun _ h => h⟩

theorem resizeRec_frame (a : EArray.EA) (n : Nat) (r : RecLen) (m : Mem) :
    FrameA a m (EArray.resizeRec a n r m).2.1 (EArray.resizeRec a n r m).2.2 := by
  unfold EArray.resizeRec
  split
  · exact ⟨Ext.refl _, fun _ h => h⟩
  · exact resize_frame _ _ _

theorem append_frame (a : EArray.EA) (data : List UInt8) (n : Nat) (r : RecLen) (m : Mem) :
    FrameA a m (EArray.append a data n r m).2.1 (EArray.append a data n r m).2.2 := by
  have hf := resize_frame a ((a.size + (n * r.val) % EArray.SZ) % EArray.SZ) m
  unfold EArray.append
  simp only
  split
  · exact ⟨Ext.refl _, fun _ h => h⟩
  · rcases hres : EArray.resize a ((a.size + (n * r.val) % EArray.SZ) % EArray.SZ) m with ⟨ok, a', m'⟩
    rw [hres] at hf
    cases ok
    · exact hf
    · simp only
      split
      · split
        · exact hf
        · split <;> exact hf
      · exact hf

theorem shrink_frame (a : EArray.EA) (n : Nat) (r : RecLen) (m : Mem) :
    FrameA a m (EArray.shrink a n r m).1 (EArray.shrink a n r m).2 := by
  unfold EArray.shrink
  simp only
  generalize (if n > EArray.SIZE_MAX / r.val ∨ (n * r.val) % EArray.SZ > a.size then 0
      else a.size - (n * r.val) % EArray.SZ) = ns
  have hf := resize_frame a ns m
  rcases hres : EArray.resize a ns m with ⟨ok, a', m'⟩
  rw [hres] at hf
  cases ok <;> exact hf

theorem truncate_frame (a : EArray.EA) (m : Mem) :
    FrameA a m (EArray.truncate a m).2.1 (EArray.truncate a m).2.2 := by
  unfold EArray.truncate
  split
  · exact ⟨ext_free _ _, fun _ _ => Nat.zero_le _⟩
  · split
    · cases hr : (m.realloc false a.size).1
      · rw [pair_eta _ hr]; exact ⟨ext_realloc _ _ _, fun _ h => h⟩
      · rw [pair_eta _ hr]; exact ⟨ext_realloc _ _ _, fun hc _ => realloc_cap hc hr⟩
    · exact ⟨Ext.refl _, fun _ h => h⟩

theorem exportdup_ext (a : EArray.EA) (r : RecLen) (m : Mem) : Ext m (EArray.exportdup a r m).2.2 := by
  unfold EArray.exportdup
  cases hr : (m.malloc a.size).1
  · rw [pair_eta _ hr]; exact ext_malloc _ _
  · rw [pair_eta _ hr]; simp only; split <;> exact ext_malloc _ _

theorem exportBuf_frame (a : EArray.EA) (r : RecLen) (m : Mem) :
    FrameA a m (EArray.exportBuf a r m).2.1 (EArray.exportBuf a r m).2.2 := by
  have hf := truncate_frame a m
  unfold EArray.exportBuf
  rcases hres : EArray.truncate a m with ⟨ok, a', m'⟩
  rw [hres] at hf
  cases ok
  · exact hf
  · exact ⟨hf.1.trans (ext_free _ _), hf.2⟩

theorem ea_free_ext (a : EArray.EA) (m : Mem) : Ext m (EArray.free a m) :=
  (ext_free _ _).trans (ext_free _ _)

theorem ea_init_frame (n : Nat) (r : RecLen) (m : Mem) :
    Ext m (EArray.init n r m).2 ∧ ∀ a, (EArray.init n r m).1 = some a → Capped m → a.alloc ≤ cap := by
  unfold EArray.init
  cases hr : (m.malloc EArray.structSize).1
  · rw [pair_eta _ hr]; exact ⟨ext_malloc _ _, fun a h => by cases h⟩
  · rw [pair_eta _ hr]
    simp only
    have hf := resizeRec_frame { size := 0, alloc := 0, buf := [] } n r (m.malloc EArray.structSize).2
    rcases hres : EArray.resizeRec { size := 0, alloc := 0, buf := [] } n r (m.malloc EArray.structSize).2 with ⟨ok, a', m'⟩
    rw [hres] at hf
    cases ok
    · exact ⟨(ext_malloc _ _).trans (hf.1.trans (ea_free_ext _ _)), fun a h => by cases h⟩
    · refine ⟨(ext_malloc _ _).trans hf.1, fun a h hc => ?_⟩
      cases h
      exact hf.2 (hc.ext (ext_malloc _ _)) (Nat.zero_le _)

theorem eq_init_frame (r : RecLen) (m : Mem) :
    Ext m (EQueue.init r m).2 ∧ ∀ q, (EQueue.init r m).1 = some q → Capped m → q.ea.alloc ≤ cap := by
  unfold EQueue.init
  cases hr : (m.malloc EQueue.structSize).1
  · rw [pair_eta _ hr]; exact ⟨ext_malloc _ _, fun a h => by cases h⟩
  · rw [pair_eta _ hr]
    simp only
    have hf := ea_init_frame 0 r (m.malloc EQueue.structSize).2
    rcases hres : EArray.init 0 r (m.malloc EQueue.structSize).2 with ⟨oa, m'⟩
    rw [hres] at hf
    cases oa
    · exact ⟨(ext_malloc _ _).trans (hf.1.trans (ext_free _ _)), fun a h => by cases h⟩
    · refine ⟨(ext_malloc _ _).trans hf.1, fun q h hc => ?_⟩
      cases h
      exact hf.2 _ rfl (hc.ext (ext_malloc _ _))

theorem eq_add_frame (q : EQueue.EQ) (rec : List UInt8) (m : Mem) :
    FrameA q.ea m (EQueue.add q rec m).2.1.ea (EQueue.add q rec m).2.2 := by
  have hf := append_frame q.ea rec 1 q.reclen m
  unfold EQueue.add
  rcases hres : EArray.append q.ea rec 1 q.reclen m with ⟨st, a', m'⟩
  rw [hres] at hf
  cases st <;> exact hf

theorem setRec_alloc {a a' : EArray.EA} {pos : Nat} {r : RecLen} {rec : List UInt8}
    (h : EArray.setRec a pos r rec = some a') : a'.alloc = a.alloc := by
  unfold EArray.setRec at h
  split at h
  · simp only [Option.map_eq_some_iff] at h
    obtain ⟨b, _, rfl⟩ := h; rfl
  · cases h

theorem moveLoop_alloc (r : RecLen) (off : Nat) : ∀ (n i : Nat) (a a' : EArray.EA),
    EQueue.moveLoop r off n i a = some a' → a'.alloc = a.alloc
  | 0, _, a, a', h => by simp only [EQueue.moveLoop] at h; cases h; rfl
  | n+1, i, a, a', h => by
    simp only [EQueue.moveLoop] at h
    split at h
    · cases h
    · split at h
      · cases h
      · rename_i a1 hset
        rw [moveLoop_alloc r off n (i+1) a1 a' h, setRec_alloc hset]

theorem eq_delete_frame (q : EQueue.EQ) (m : Mem) :
    FrameA q.ea m (EQueue.delete q m).2.1.ea (EQueue.delete q m).2.2 := by
  unfold EQueue.delete
  split
  · exact ⟨Ext.refl _, fun _ h => h⟩
  · simp only
    split
    · split
      · exact ⟨Ext.refl _, fun _ h => h⟩
      · rename_i a hmv
        have hf := shrink_frame a (q.offset + 1) q.reclen m
        exact ⟨hf.1, fun hc h => hf.2 hc (by rw [moveLoop_alloc _ _ _ _ _ _ hmv]; exact h)⟩
    · exact ⟨Ext.refl _, fun _ h => h⟩

theorem eq_set_alloc {q q' : EQueue.EQ} {pos : Nat} {rec : List UInt8} (h : EQueue.set q pos rec = some q') :
    q'.ea.alloc = q.ea.alloc := by
  unfold EQueue.set at h
  split at h
  · cases h
  · simp only [Option.map_eq_some_iff] at h
    obtain ⟨a, ha, rfl⟩ := h
    exact setRec_alloc ha

theorem eq_free_ext (q : EQueue.EQ) (m : Mem) : Ext m (EQueue.free q m) :=
  (ea_free_ext _ _).trans (ext_free _ _)

theorem eq_step_frame (q : EQueue.EQ) (e : EqOp) (m : Mem) :
    FrameA q.ea m (EQueue.step q e m).2.1.ea (EQueue.step q e m).2.2 := by
  cases e with
  | add rec => exact eq_add_frame q rec m
  | delete => exact eq_delete_frame q m
  | getlen => exact ⟨Ext.refl _, fun _ h => h⟩
  | get pos => simp only [EQueue.step]; split <;> exact ⟨Ext.refl _, fun _ h => h⟩
  | set pos rec =>
    simp only [EQueue.step]
    split
    · rename_i q' hq; exact ⟨Ext.refl _, fun _ h => by rw [eq_set_alloc hq]; exact h⟩
    · exact ⟨Ext.refl _, fun _ h => h⟩

/-! sequential pointer map -/

theorem sm_init_frame (m : Mem) :
    Ext m (SeqMap.init m).2 ∧ ∀ x, (SeqMap.init m).1 = some x → Capped m → x.q.ea.alloc ≤ cap := by
  unfold SeqMap.init
  cases hr : (m.malloc SeqMap.structSize).1
  · rw [pair_eta _ hr]; exact ⟨ext_malloc _ _, fun a h => by cases h⟩
  · rw [pair_eta _ hr]
    simp only
    have hf := eq_init_frame SeqMap.ptrLen (m.malloc SeqMap.structSize).2
    rcases hres : EQueue.init SeqMap.ptrLen (m.malloc SeqMap.structSize).2 with ⟨oa, m'⟩
    rw [hres] at hf
    cases oa
    · exact ⟨(ext_malloc _ _).trans (hf.1.trans (ext_free _ _)), fun a h => by cases h⟩
    · refine ⟨(ext_malloc _ _).trans hf.1, fun q h hc => ?_⟩
      cases h
      exact hf.2 _ rfl (hc.ext (ext_malloc _ _))

theorem sm_add_frame (x : SeqMap.SM) (p : Nat) (m : Mem) :
    FrameA x.q.ea m (SeqMap.add x p m).2.1.q.ea (SeqMap.add x p m).2.2 := by
  have hf := eq_add_frame x.q (SeqMap.encPtr p) m
  unfold SeqMap.add
  rcases hres : EQueue.add x.q (SeqMap.encPtr p) m with ⟨st, q', m'⟩
  rw [hres] at hf
  cases st
  · simp only; split <;> exact hf
  · exact hf
  · exact hf

theorem trimLoop_frame : ∀ (fuel : Nat) (x : SeqMap.SM) (m : Mem),
    FrameA x.q.ea m (SeqMap.trimLoop fuel x m).2.1.q.ea (SeqMap.trimLoop fuel x m).2.2 := by
  intro fuel
  induction fuel with
  | zero =>
    intro x m
    unfold SeqMap.trimLoop
    split
    · exact ⟨Ext.refl _, fun _ h => h⟩
    · split
      · exact ⟨Ext.refl _, fun _ h => h⟩
      · split <;> exact ⟨Ext.refl _, fun _ h => h⟩
  | succ fuel ih =>
    intro x m
    unfold SeqMap.trimLoop
    split
    · exact ⟨Ext.refl _, fun _ h => h⟩
    · split
      · exact ⟨Ext.refl _, fun _ h => h⟩
      · split
        · exact ⟨Ext.refl _, fun _ h => h⟩
        · simp only
          have hf := eq_delete_frame x.q m
          rcases hres : EQueue.delete x.q m with ⟨st, q', m'⟩
          rw [hres] at hf
          cases st
          · simp only
            have := ih { q := q', offset := x.offset + 1, len := x.len - 1 } m'
            exact ⟨hf.1.trans this.1, fun hc h => this.2 (hc.ext hf.1) (hf.2 hc h)⟩
          · exact hf
          · exact hf

theorem sm_delete_frame (x : SeqMap.SM) (i : Int) (m : Mem) :
    FrameA x.q.ea m (SeqMap.delete x i m).2.1.q.ea (SeqMap.delete x i m).2.2 := by
  unfold SeqMap.delete
  split
  · exact ⟨Ext.refl _, fun _ h => h⟩
  · split
    · exact ⟨Ext.refl _, fun _ h => h⟩
    · split
      · exact ⟨Ext.refl _, fun _ h => h⟩
      · rename_i q hq
        have := trimLoop_frame (x.len + 1) { x with q := q } m
        exact ⟨this.1, fun hc h => this.2 hc (by show q.ea.alloc ≤ cap; rw [eq_set_alloc hq]; exact h)⟩

theorem sm_free_ext (x : SeqMap.SM) (m : Mem) : Ext m (SeqMap.free x m) :=
  (eq_free_ext _ _).trans (ext_free _ _)

theorem sm_step_frame (x : SeqMap.SM) (e : SmOp) (m : Mem) :
    FrameA x.q.ea m (SeqMap.step x e m).2.1.q.ea (SeqMap.step x e m).2.2 := by
  cases e with
  | add p =>
    have hf := sm_add_frame x p m
    simp only [SeqMap.step]
    rcases hres : SeqMap.add x p m with ⟨r, x', m'⟩
    rw [hres] at hf
    cases r <;> exact hf
  | get i => simp only [SeqMap.step]; split <;> exact ⟨Ext.refl _, fun _ h => h⟩
  | delete i => exact sm_delete_frame x i m
  | getmin => exact ⟨Ext.refl _, fun _ h => h⟩

/-! object pool -/

theorem foldl_free_ext (l : List Nat) (m : Mem) : Ext m (l.foldl (fun m _ => m.free false) m) := by
  induction l generalizing m with
  | nil => exact Ext.refl _
  | cons x rest ih => exact (ext_free m false).trans (ih _)

theorem mp_atexit_ext (p : MPool.MP) (m : Mem) : Ext m (MPool.atexit p m).2 := by
  simp only [MPool.atexit]
  split
  · exact (foldl_free_ext _ _).trans (ext_free _ _)
  · exact foldl_free_ext _ _

theorem mp_step_ext (sz : Nat) (p : MPool.MP) (e : MpOp) (m : Mem) : Ext m (MPool.step sz p e m).2.2 := by
  cases e with
  | malloc =>
    simp only [MPool.step, MPool.malloc]
    split
    · exact Ext.refl _
    · cases hr : (m.malloc sz).1 <;> rw [pair_eta _ hr] <;> exact ext_malloc _ _
  | free x =>
    simp only [MPool.step, MPool.free]
    split
    · exact Ext.refl _
    · split
      · cases hr : (m.malloc ((p.allocsize * 2 * 8) % EArray.SZ)).1
        · rw [pair_eta _ hr]; exact (ext_malloc _ _).trans (ext_free _ _)
        · rw [pair_eta _ hr]; simp only; split
          · exact (ext_malloc _ _).trans (ext_free _ _)
          · exact ext_malloc _ _
      · exact ext_free _ _

theorem ea_step_frame (a : EArray.EA) (e : EaOp) (m : Mem) :
    FrameA a m (EArray.step a e m).2.1 (EArray.step a e m).2.2 := by
  cases e with
  | resize n r fill =>
    have hf := resizeRec_frame a n r m
    simp only [EArray.step]
    rcases hres : EArray.resizeRec a n r m with ⟨ok, a', m'⟩
    rw [hres] at hf
    cases ok
    · exact hf
    · simp only
      cases hfl : EArray.fillFrom a' a.size fill
      · exact hf
      · rename_i a''
        refine ⟨hf.1, fun hc h => ?_⟩
        have : a''.alloc = a'.alloc := by
          unfold EArray.fillFrom at hfl
          split at hfl
          · cases hfl; rfl
          · split at hfl
            · simp only [Option.map_eq_some_iff] at hfl
              obtain ⟨b, _, rfl⟩ := hfl; rfl
            · cases hfl
        rw [this]; exact hf.2 hc h
  | append data n r =>
    have hf := append_frame a data n r m
    simp only [EArray.step]
    rcases hres : EArray.append a data n r m with ⟨st, a', m'⟩
    rw [hres] at hf; exact hf
  | shrink n r =>
    have hf := shrink_frame a n r m
    simp only [EArray.step]
    rcases hres : EArray.shrink a n r m with ⟨a', m'⟩
    rw [hres] at hf; exact hf
  | truncate =>
    have hf := truncate_frame a m
    simp only [EArray.step]
    rcases hres : EArray.truncate a m with ⟨ok, a', m'⟩
    rw [hres] at hf
    cases ok <;> exact hf
  | get pos r => simp only [EArray.step]; split <;> exact ⟨Ext.refl _, fun _ h => h⟩
  | set pos r rec =>
    simp only [EArray.step]
    split
    · rename_i a' ha; exact ⟨Ext.refl _, fun _ h => by rw [setRec_alloc ha]; exact h⟩
    · exact ⟨Ext.refl _, fun _ h => h⟩
  | getsize r => exact ⟨Ext.refl _, fun _ h => h⟩
  | exportdup r =>
    have hf := exportdup_ext a r m
    simp only [EArray.step]
    rcases hres : EArray.exportdup a r m with ⟨st, out, m'⟩
    rw [hres] at hf
    exact ⟨hf, fun _ h => h⟩

/-! ## the relation between the model's state and the monitor's state -/

def eaBlk : Option EArray.EA → Int
  | some a => 1 + bufBlocks a | none => 0
def eqBlk : Option EQueue.EQ → Int
  | some q => 2 + bufBlocks q.ea | none => 0
def smBlk : Option SeqMap.SM → Int
  | some x => 3 + bufBlocks x.q.ea | none => 0

def EaRel : Option EArray.EA → Option EaIdeal → Prop
  | some a, i => Inv a ∧ a.alloc ≤ cap ∧ i = some (EArray.abs a)
  | none, i => i = none

def EqRel : Option EQueue.EQ → Option (List (List UInt8)) → Nat → Prop
  | some q, i, eqr => EQueue.QInv q ∧ q.ea.alloc ≤ cap ∧ q.reclen.val + cap ≤ SIZE_MAX ∧ i = some (EQueue.abs q) ∧
      eqr = q.reclen.val
  | none, i, _ => i = none

/-- `n`: an upper bound for the numbers the map has issued (the number of protocol operations so far) -/
def SmRel (n : Nat) : Option SeqMap.SM → Option SmIdeal → Prop
  | some x, i => SeqMap.MInv x ∧ x.q.ea.alloc ≤ cap ∧ x.offset + x.len ≤ n ∧ i = some (SeqMap.abs x)
  | none, i => i = none

/-- the library blocks a pool accounts for: its objects in use, its cache, its stack array once allocated -/
def poolBlk (pu : MPool.MP × List Nat) : Int := pu.2.length + pu.1.stack.length + (if pu.1.dyn then 1 else 0)

/-- the blocks of the pools that are not in use -/
def parkedBlk (cur : Nat) (parked : Nat → MPool.MP × List Nat) : Int :=
  ((otherSizes cur).map fun k => poolBlk (parked k)).sum

/-- **the pools of the process**: the pool in use satisfies the single-pool simulation relation `MPool.R`, the blocks
of the other pools being part of "what has nothing to do with this pool"; every parked entry satisfies it too (for
it everything else is its base) -/
structure PR (p : MPool.MP) (m : Mem) (u : List Nat) (cur : Nat) (parked : Nat → MPool.MP × List Nat) (base : Int) :
    Prop where
  here : MPool.R p m u (base + parkedBlk cur parked)
  size : poolSizes.contains cur = true
  parked : ∀ k, MPool.R (parked k).1 m (parked k).2 (m.live - poolBlk (parked k))

/-- **reachable pairs (model state, monitor state)** after `n` operations: the oracle never grants more than `cap`
bytes; each container that exists satisfies its invariant and the monitor holds exactly its abstraction; the
harness' and the monitor's lists of objects in use are the same list; and the number of live blocks is accounted
for: structure + buffer of each container, pool objects in use, cached objects, the pools' stacks (every pool of the process:
`PR`); the monitor's sets of objects in use are the harness', pool by pool. -/
structure Rel (n : Nat) (s : DsStep.S) (ms : Spec.DSMon.S) : Prop where
  capped : Capped s.m
  ea : EaRel s.ea ms.ea
  eq : EqRel s.eq ms.eq ms.eqr
  sm : SmRel n s.sm ms.sm
  mp : PR s.mp s.m s.inUse s.mpSize s.parked (eaBlk s.ea + eqBlk s.eq + smBlk s.sm)
  inUse : ms.inUse = s.inUse ∧ ms.mpSize = s.mpSize ∧ ∀ k, ms.parkedU k = (s.parked k).2

theorem SmRel.mono {n n' : Nat} (h : n ≤ n') {o : Option SeqMap.SM} {i : Option SmIdeal} (hr : SmRel n o i) :
    SmRel n' o i := by
  cases o with
  | none => exact hr
  | some x => exact ⟨hr.1, hr.2.1, by have := hr.2.2.1; omega, hr.2.2.2⟩

theorem R_transport {p : MPool.MP} {m m' : Mem} {u : List Nat} {base base' : Int} (h : MPool.R p m u base)
    (e : Ext m m') (hl : m'.live + base = m.live + base') : MPool.R p m' u base' :=
  ⟨h.nodup, h.unodup, h.disj, fun x hx => Nat.lt_of_lt_of_le (h.sfresh x hx) e.2.1,
   fun x hx => Nat.lt_of_lt_of_le (h.ufresh x hx) e.2.1, h.slen, by have := h.live; omega⟩

theorem R_self {p : MPool.MP} {m : Mem} {u : List Nat} {base : Int} (h : MPool.R p m u base) :
    MPool.R p m u (m.live - poolBlk (p, u)) :=
  ⟨h.nodup, h.unodup, h.disj, h.sfresh, h.ufresh, h.slen, by simp only [poolBlk]; omega⟩

theorem PR_transport {p : MPool.MP} {m m' : Mem} {u : List Nat} {cur : Nat} {pk : Nat → MPool.MP × List Nat}
    {base base' : Int} (h : PR p m u cur pk base) (e : Ext m m') (hl : m'.live + base = m.live + base') :
    PR p m' u cur pk base' :=
  ⟨R_transport h.here e (by omega), h.size, fun k => R_transport (h.parked k) e (by omega)⟩

/-- a step of the pool in use: the parked pools are not touched -/
theorem PR_step {p p' : MPool.MP} {m m' : Mem} {u u' : List Nat} {cur : Nat} {pk : Nat → MPool.MP × List Nat}
    {base : Int} (h : PR p m u cur pk base) (e : Ext m m') (hR : MPool.R p' m' u' (base + parkedBlk cur pk)) :
    PR p' m' u' cur pk base :=
  ⟨hR, h.size, fun k => R_transport (h.parked k) e (by omega)⟩

theorem init_parked_R (m : Mem) (k : Nat) :
    MPool.R (MPool.init k, ([] : List Nat)).1 m (MPool.init k, ([] : List Nat)).2
      (m.live - poolBlk (MPool.init k, [])) := by
  have := MPool.init_R k m
  exact R_self this

theorem parkedBlk_init (cur : Nat) : parkedBlk cur (fun k => (MPool.init k, [])) = 0 := by
  simp only [parkedBlk, poolBlk, MPool.init]
  induction otherSizes cur with
  | nil => rfl
  | cons a l ih => simpa using ih

theorem rel_init : Rel 0 {} {} :=
  ⟨by intro i sz h; simp [sched] at h; exact h, rfl, rfl, rfl,
   ⟨by rw [parkedBlk_init]; exact MPool.init_R 4 _, by decide, fun k => init_parked_R _ k⟩, rfl, rfl, fun _ => rfl⟩

/-! ## elastic array: the monitor accepts the model's answers -/

theorem rf_pos {m m' : Mem} (e : Ext m m') : decide (rf m m' > 0) = (m'.refusals != m.refusals) := by
  have := e.2.2
  simp only [rf]
  by_cases h : m'.refusals = m.refusals
  · simp [h]
  · have : m'.refusals - m.refusals > 0 := by omega
    simp [h, this]

/-- reading the printed array line back gives the observed answer -/
theorem eaAns_out (an : EaAns) (m m' mEnd : Mem) (hst : an.st ≠ .oob) (hrf : an.refused = decide (rf m m' > 0)) :
    eaAns (eaOutOf an m m' mEnd).ans = some an := by
  obtain ⟨st, size, alloc, refused, out⟩ := an
  simp only at hst hrf
  subst hrf
  cases out with
  | none => cases st <;> simp_all [eaOutOf, Out.ans, eaAns, stOf, headOfSt]
  | some p => obtain ⟨b, n⟩ := p; cases st <;> simp_all [eaOutOf, Out.ans, eaAns, stOf, headOfSt]

theorem eaOutOf_not_skip (an : EaAns) (m m' mEnd : Mem) : (eaOutOf an m m' mEnd).ans.isJust .skip = false := by
  obtain ⟨st, size, alloc, refused, out⟩ := an
  cases out with
  | none => cases st <;> simp [eaOutOf, Out.ans, Ans.isJust, headOfSt]
  | some p => obtain ⟨b, n⟩ := p; cases st <;> simp [eaOutOf, Out.ans, Ans.isJust, headOfSt]

/-- the array operation the *monitor* judges (differs from `eaOpOf` only in the fill of a resize no allocation can
hold) -/
def monEaOpOf (len : Nat) : Op → Option EaOp
  | .eaResize n reclen seed => (mkRecLen reclen).map fun r =>
      .resize n r (if n * r.val ≤ dataMax then patBytes seed (n * r.val - len) else [])
  | op => eaOpOf len op

theorem mon_ea (ms : Spec.DSMon.S) (i : EaIdeal) (hms : ms.ea = some i) (op : Op) (e : EaOp)
    (he : monEaOpOf i.bytes.length op = some e) (A : Ans) (hskip : A.isJust .skip = false) :
    ∃ why, monStep ms op A = eaJudge ms i e A why := by
  cases op <;> simp only [monEaOpOf, eaOpOf, Option.map_eq_some_iff, reduceCtorEq, Option.some.injEq] at he
  case eaResize n reclen seed => obtain ⟨r, hr, rfl⟩ := he; exact ⟨_, by simp only [monStep, hms, hr]; rfl⟩
  case eaAppend n reclen seed => obtain ⟨r, hr, rfl⟩ := he; exact ⟨_, by simp only [monStep, hms, hr]; rfl⟩
  case eaShrink n reclen => obtain ⟨r, hr, rfl⟩ := he; exact ⟨_, by simp only [monStep, hms, hr]; rfl⟩
  case eaTrunc => subst he; exact ⟨_, by simp only [monStep, hms]; rfl⟩
  case eaGet pos reclen =>
    obtain ⟨r, hr, rfl⟩ := he; exact ⟨_, by simp only [monStep, hms, hr, hskip]; simp only [Bool.false_eq_true, if_false]; rfl⟩
  case eaSet pos reclen seed =>
    obtain ⟨r, hr, rfl⟩ := he; exact ⟨_, by simp only [monStep, hms, hr, hskip]; simp only [Bool.false_eq_true, if_false]; rfl⟩
  case eaGetsize reclen => obtain ⟨r, hr, rfl⟩ := he; exact ⟨_, by simp only [monStep, hms, hr]; rfl⟩
  case eaDup reclen => obtain ⟨r, hr, rfl⟩ := he; exact ⟨_, by simp only [monStep, hms, hr]; rfl⟩

theorem eaJudge_accept (ms : Spec.DSMon.S) (i i' : EaIdeal) (e : EaOp) (A : Ans) (why : String) (an : EaAns)
    (h1 : eaAns A = some an) (h2 : eaAdmit i e an = some i') :
    eaJudge ms i e A why = ({ ms with ea := some i' }, none) := by
  simp [eaJudge, h1, h2]

theorem bufBlocks_congr {a a' : EArray.EA} (h : a'.alloc = a.alloc) : bufBlocks a' = bufBlocks a := by
  simp [bufBlocks, h]

theorem fillFrom_alloc {a a' : EArray.EA} {old : Nat} {fill : List UInt8} (h : EArray.fillFrom a old fill = some a') :
    a'.alloc = a.alloc := by
  unfold EArray.fillFrom at h
  split at h
  · cases h; rfl
  · split at h
    · simp only [Option.map_eq_some_iff] at h
      obtain ⟨b, _, rfl⟩ := h; rfl
    · cases h

/-- live blocks across one array step (after the harness freed the copy of a successful `exportdup`) -/
theorem ea_step_live (a : EArray.EA) (e : EaOp) (m : Mem) (h : Inv a) (hc : eaContract (EArray.abs a) e) :
    (eaHarnessFree e (EArray.step a e m).1 (EArray.step a e m).2.2).live + bufBlocks a =
      m.live + bufBlocks (EArray.step a e m).2.1 := by
  cases e with
  | resize n r fill =>
    have hs := (resizeRec_spec a n r m h).2.2.2
    simp only [EArray.step]
    rcases hres : EArray.resizeRec a n r m with ⟨ok, a', m'⟩
    rw [hres] at hs
    cases ok
    · exact hs
    · simp only
      cases hfl : EArray.fillFrom a' a.size fill
      · exact hs
      · simp only [eaHarnessFree]; rw [bufBlocks_congr (fillFrom_alloc hfl)]; exact hs
  | append data n r =>
    have hs := (append_spec a data n r m h (by
      intro hle; simp only [eaContract] at hc; rw [hc (by rw [← SIZE_MAX_same]; exact hle)]; exact Nat.le_refl _)).2.2.2.2
    simp only [EArray.step]
    rcases hres : EArray.append a data n r m with ⟨st, a', m'⟩
    rw [hres] at hs; exact hs
  | shrink n r =>
    have hs := (shrink_spec a n r m h).2.2.2.2
    simp only [EArray.step]
    rcases hres : EArray.shrink a n r m with ⟨a', m'⟩
    rw [hres] at hs; exact hs
  | truncate =>
    have hs := (truncate_spec a m h).2.2.2
    simp only [EArray.step]
    rcases hres : EArray.truncate a m with ⟨ok, a', m'⟩
    rw [hres] at hs
    cases ok <;> exact hs
  | get pos r => simp only [EArray.step]; split <;> rfl
  | set pos r rec =>
    simp only [EArray.step]
    split
    · rename_i a' ha; simp only [eaHarnessFree]; rw [bufBlocks_congr (setRec_alloc ha)]
    · rfl
  | getsize r => rfl
  | exportdup r =>
    have hs := exportdup_spec a r m h
    simp only [EArray.step]
    rcases hres : EArray.exportdup a r m with ⟨st, out, m'⟩
    rw [hres] at hs
    simp only at hs
    rcases hs with ⟨rfl, rfl, _, hl⟩ | ⟨rfl, rfl, _, hl⟩
    · simp only [eaHarnessFree, EArray.ans]
      rw [(free_facts m' false).2.1, hl]; simp
    · simp only [eaHarnessFree, EArray.ans]; rw [hl]

theorem ea_step_refused (a : EArray.EA) (e : EaOp) (m : Mem) :
    (EArray.step a e m).1.refused = ((EArray.step a e m).2.2.refusals != m.refusals) := by
  cases e <;> simp only [EArray.step] <;> (repeat' split) <;> simp_all [EArray.ans]

theorem eaHarnessFree_ext (e : EaOp) (an : EaAns) (m' : Mem) : Ext m' (eaHarnessFree e an m') := by
  unfold eaHarnessFree; split
  · exact ext_free _ _
  · exact Ext.refl _

/-- what one accepted protocol step has to establish -/
def StepGoal (n : Nat) (s : DsStep.S) (ms : Spec.DSMon.S) (op : Op) : Prop :=
  (monStep ms op (stepOp s op).2.ans).2 = none ∧
  Rel (n + 1) (stepOp s op).1 (monStep ms op (stepOp s op).2.ans).1

theorem ea_accept_core {n : Nat} {s : DsStep.S} {ms : Spec.DSMon.S} (h : Rel n s ms) {a : EArray.EA}
    (hs : s.ea = some a) {op : Op} {e emon : EaOp} (he : eaOpOf a.size op = some e)
    (hem : monEaOpOf a.size op = some emon)
    (hInv' : Inv (EArray.step a e s.m).2.1)
    (hadm : eaAdmit (EArray.abs a) emon (EArray.step a e s.m).1 = some (EArray.abs (EArray.step a e s.m).2.1))
    (hlive : (eaHarnessFree e (EArray.step a e s.m).1 (EArray.step a e s.m).2.2).live + bufBlocks a =
      s.m.live + bufBlocks (EArray.step a e s.m).2.1) : StepGoal n s ms op := by
  have hea := h.ea
  have hmp := h.mp
  rw [hs] at hea hmp
  obtain ⟨hinv, hcap, hms⟩ := hea
  have hno := eaAdmit_not_oob hadm
  have frame := ea_step_frame a e s.m
  have hext := frame.1.trans (eaHarnessFree_ext e (EArray.step a e s.m).1 (EArray.step a e s.m).2.2)
  unfold StepGoal
  rw [ea_stepOp s a hs op e he hno]
  simp only
  obtain ⟨why, hmon⟩ := mon_ea ms (EArray.abs a) hms op emon (by rw [abs_length hinv]; exact hem)
    (eaOutOf (EArray.step a e s.m).1 s.m (EArray.step a e s.m).2.2
      (eaHarnessFree e (EArray.step a e s.m).1 (EArray.step a e s.m).2.2)).ans (eaOutOf_not_skip _ _ _ _)
  rw [hmon, eaJudge_accept ms _ _ emon _ why _
    (eaAns_out _ _ _ _ hno (by rw [ea_step_refused, rf_pos frame.1])) hadm]
  refine ⟨rfl, ⟨h.capped.ext hext, ⟨hInv', frame.2 h.capped hcap, rfl⟩, h.eq, h.sm.mono (Nat.le_succ _), ?_, h.inUse⟩⟩
  refine PR_transport hmp hext ?_
  simp only [eaBlk]
  omega

theorem cap_eq : cap = 4194304 := by decide
theorem dataMax_eq : dataMax = 4194304 := by decide

theorem patBytes_length (seed n : Nat) : (patBytes seed n).length = n := by simp [patBytes]

theorem fillFrom_size {a a' : EArray.EA} {old : Nat} {fill : List UInt8} (h : EArray.fillFrom a old fill = some a') :
    a'.size = a.size := by
  unfold EArray.fillFrom at h
  split at h
  · cases h; rfl
  · split at h
    · simp only [Option.map_eq_some_iff] at h
      obtain ⟨b, _, rfl⟩ := h; rfl
    · cases h

/-- an append that fails never looked at the caller's buffer -/
theorem append_fail_irrel (a : EArray.EA) (data data' : List UInt8) (n : Nat) (r : RecLen) (m : Mem)
    (h : (EArray.append a data n r m).1 = .fail) : EArray.append a data' n r m = EArray.append a data n r m := by
  unfold EArray.append at h ⊢
  simp only at h ⊢
  split
  · rfl
  · rename_i hg
    rw [if_neg hg] at h
    rcases hres : EArray.resize a ((a.size + (n * r.val) % EArray.SZ) % EArray.SZ) m with ⟨ok, a', m'⟩
    rw [hres] at h
    cases ok
    · rfl
    · exfalso
      simp only at h
      split at h
      · split at h
        · cases h
        · split at h <;> cases h
      · cases h

/-- a successful resize under the harness' oracle stays below `cap` bytes -/
theorem resize_ok_small (a : EArray.EA) (n : Nat) (r : RecLen) (fill : List UInt8) (m : Mem)
    (hcap : a.alloc ≤ cap) (hc : Capped m) (hinv' : Inv (EArray.step a (.resize n r fill) m).2.1)
    (hok : (EArray.step a (.resize n r fill) m).1.st = .ok) : n * r.val ≤ cap := by
  have frame := (ea_step_frame a (.resize n r fill) m).2 hc hcap
  have hsz := resizeRec_size a n r m
  revert hinv' hok frame
  simp only [EArray.step]
  rcases hres : EArray.resizeRec a n r m with ⟨ok, a', m'⟩
  rw [hres] at hsz
  cases ok
  · simp [EArray.ans]
  · simp only
    cases hfl : EArray.fillFrom a' a.size fill
    · simp [EArray.ans]
    · intro hinv' _ frame
      have := fillFrom_size hfl
      have := hinv'.le
      have := hsz rfl
      simp only at *
      omega

theorem ea_resize_accept {n : Nat} {s : DsStep.S} {ms : Spec.DSMon.S} (h : Rel n s ms) {a : EArray.EA}
    (hs : s.ea = some a) (k reclen seed : Nat) (hr : 0 < reclen) : StepGoal n s ms (.eaResize k reclen seed) := by
  have hea := h.ea
  rw [hs] at hea
  obtain ⟨hinv, hcap, hms⟩ := hea
  have hmk : mkRecLen reclen = some ⟨reclen, hr⟩ := by simp [mkRecLen, hr]
  have hc : eaContract (EArray.abs a) (.resize k ⟨reclen, hr⟩ (patBytes seed (k * reclen - a.size))) := by
    intro _; rw [abs_length hinv, patBytes_length]
  have hst := EArray.step_ok a _ s.m hinv hc
  refine ea_accept_core h hs (e := .resize k ⟨reclen, hr⟩ (patBytes seed (k * reclen - a.size)))
    (emon := .resize k ⟨reclen, hr⟩ (if k * reclen ≤ dataMax then patBytes seed (k * reclen - a.size) else []))
    (by simp [eaOpOf, hmk]) (by simp only [monEaOpOf, hmk, Option.map_some]) hst.1 ?_ (ea_step_live a _ s.m hinv hc)
  rw [← hst.2]
  by_cases hle : k * reclen ≤ dataMax
  · simp only [hle, if_true]
  · simp only [hle, if_false]
    have hno := eaAdmit_not_oob hst.2
    have hsmall := resize_ok_small a k ⟨reclen, hr⟩ _ s.m hcap h.capped hst.1
    generalize (EArray.step a (.resize k ⟨reclen, hr⟩ (patBytes seed (k * reclen - a.size))) s.m).1 = an at *
    obtain ⟨st, size, alloc, refused, out⟩ := an
    cases st
    · exfalso; have := hsmall rfl; simp only [cap_eq, dataMax_eq] at *; omega
    · simp [eaAdmit]
    · exact absurd rfl hno

theorem ea_simple_accept {n : Nat} {s : DsStep.S} {ms : Spec.DSMon.S} (h : Rel n s ms) {a : EArray.EA}
    (hs : s.ea = some a) {op : Op} {e : EaOp} (he : eaOpOf a.size op = some e)
    (hem : monEaOpOf a.size op = some e) (hc : eaContract (EArray.abs a) e) : StepGoal n s ms op := by
  have hea := h.ea
  rw [hs] at hea
  have hst := EArray.step_ok a e s.m hea.1 hc
  exact ea_accept_core h hs he hem hst.1 hst.2 (ea_step_live a e s.m hea.1 hc)

theorem mk_some {reclen : Nat} (hr : 0 < reclen) : mkRecLen reclen = some ⟨reclen, hr⟩ := by simp [mkRecLen, hr]

theorem ea_append_accept {n : Nat} {s : DsStep.S} {ms : Spec.DSMon.S} (h : Rel n s ms) {a : EArray.EA}
    (hs : s.ea = some a) (k reclen seed : Nat) (hr : 0 < reclen) : StepGoal n s ms (.eaAppend k reclen seed) := by
  have hea := h.ea
  rw [hs] at hea
  obtain ⟨hinv, hcap, hms⟩ := hea
  have hmk := mk_some hr
  by_cases hle : k ≤ dataMax / reclen
  · refine ea_simple_accept h hs (e := .append (patBytes seed (k * reclen)) k ⟨reclen, hr⟩)
      (by simp [eaOpOf, hmk, hle]) (by simp [monEaOpOf, eaOpOf, hmk, hle]) ?_
    intro _; exact patBytes_length _ _
  · -- no allocation can hold the result: the dummy buffer is never read
    have hc : eaContract (EArray.abs a) (.append (patBytes seed (k * reclen)) k ⟨reclen, hr⟩) := by
      intro _; exact patBytes_length _ _
    have hst := EArray.step_ok a _ s.m hinv hc
    have hlive := ea_step_live a _ s.m hinv hc
    have hsp := append_spec a (patBytes seed (k * reclen)) k ⟨reclen, hr⟩ s.m hinv
      (by intro _; rw [patBytes_length]; exact Nat.le_refl _)
    have hfr := (append_frame a (patBytes seed (k * reclen)) k ⟨reclen, hr⟩ s.m).2 h.capped hcap
    have hfail : (EArray.append a (patBytes seed (k * reclen)) k ⟨reclen, hr⟩ s.m).1 = .fail := by
      cases hst' : (EArray.append a (patBytes seed (k * reclen)) k ⟨reclen, hr⟩ s.m).1
      · exfalso
        have h1 := (hsp.2.2.1 hst').2.1
        have h2 := hsp.1.le
        have : k * reclen ≤ dataMax := by simp only [cap_eq, dataMax_eq] at *; omega
        exact hle ((Nat.le_div_iff_mul_le hr).2 this)
      · rfl
      · exact absurd hst' hsp.2.1
    have hirr := append_fail_irrel a (patBytes seed (k * reclen)) [0] k ⟨reclen, hr⟩ s.m hfail
    have hstep : EArray.step a (.append [0] k ⟨reclen, hr⟩) s.m =
        EArray.step a (.append (patBytes seed (k * reclen)) k ⟨reclen, hr⟩) s.m := by
      simp only [EArray.step, hirr]
    refine ea_accept_core h hs (e := .append [0] k ⟨reclen, hr⟩) (emon := .append [0] k ⟨reclen, hr⟩)
      (by simp [eaOpOf, hmk, hle]) (by simp [monEaOpOf, eaOpOf, hmk, hle]) (by rw [hstep]; exact hst.1) ?_
      (by rw [hstep]; exact hlive)
    rw [hstep, ← hst.2]
    have hstf : (EArray.step a (.append (patBytes seed (k * reclen)) k ⟨reclen, hr⟩) s.m).1.st = .fail := by
      simp only [EArray.step]
      rcases hres : EArray.append a (patBytes seed (k * reclen)) k ⟨reclen, hr⟩ s.m with ⟨st, a', m'⟩
      rw [hres] at hfail
      simp only at hfail
      subst hfail; rfl
    simp only [eaAdmit, hstf]

theorem Rel.mono {n : Nat} {s : DsStep.S} {ms : Spec.DSMon.S} (h : Rel n s ms) : Rel (n + 1) s ms :=
  ⟨h.capped, h.ea, h.eq, h.sm.mono (Nat.le_succ _), h.mp, h.inUse⟩

/-- a line the model answers with a bare word, leaving its state alone, and the monitor accepts, leaving its
state alone -/
theorem word_accept {n : Nat} {s : DsStep.S} {ms : Spec.DSMon.S} (h : Rel n s ms) {op : Op} (w : Word)
    (h1 : stepOp s op = (s, .word w))
    (h2 : monStep ms op { head := headOfWord w, ntoks := 1 } = (ms, none)) : StepGoal n s ms op := by
  unfold StepGoal
  rw [h1]
  simp only [Out.ans]
  rw [h2]
  exact ⟨rfl, h.mono⟩

theorem isJust_skip : ({ head := .skip, ntoks := 1 } : Ans).isJust .skip = true := by decide

/-- the eleven operations on an array when there is none: `skip` -/
theorem ea_absent_accept {n : Nat} {s : DsStep.S} {ms : Spec.DSMon.S} (h : Rel n s ms) (hs : s.ea = none) (op : Op)
    (hop : match op with
      | .eaResize .. | .eaAppend .. | .eaShrink .. | .eaTrunc | .eaGet .. | .eaSet .. | .eaGetsize .. | .eaDump
      | .eaDup .. | .eaExport .. | .eaFree => True
      | _ => False) : StepGoal n s ms op := by
  have hms : ms.ea = none := by have := h.ea; rw [hs] at this; exact this
  cases op <;> simp only at hop <;>
    exact word_accept h .skip (by simp [stepOp, onEa, hs]) (by simp [monStep, hms, okOr, isJust_skip, headOfWord])

theorem ea_get_accept {n : Nat} {s : DsStep.S} {ms : Spec.DSMon.S} (h : Rel n s ms) {a : EArray.EA}
    (hs : s.ea = some a) (pos reclen : Nat) : StepGoal n s ms (.eaGet pos reclen) := by
  have hea := h.ea
  rw [hs] at hea
  obtain ⟨hinv, hcap, hms⟩ := hea
  have hlen := abs_length hinv
  by_cases hin : 0 < reclen ∧ pos * reclen + reclen ≤ a.size
  · have hmk := mk_some hin.1
    exact ea_simple_accept h hs (e := .get pos ⟨reclen, hin.1⟩) (by simp [eaOpOf, hmk]) (by simp [monEaOpOf, eaOpOf, hmk])
      (by simp only [eaContract, hlen]; exact hin.2)
  · refine word_accept h .skip ?_ ?_
    · by_cases hr : 0 < reclen
      · have hmk := mk_some hr
        have : EArray.getRec a pos ⟨reclen, hr⟩ = none := by
          simp only [EArray.getRec]; rw [if_neg]; intro hh; exact hin ⟨hr, hh⟩
        simp [stepOp, onEa, hs, hmk, this]
      · have : mkRecLen reclen = none := by simp [mkRecLen, hr]
        simp [stepOp, onEa, hs, this]
    · simp only [monStep, hms, headOfWord, isJust_skip, if_true, hlen]
      simp only [gt_iff_lt, hin, if_false]

theorem ea_set_accept {n : Nat} {s : DsStep.S} {ms : Spec.DSMon.S} (h : Rel n s ms) {a : EArray.EA}
    (hs : s.ea = some a) (pos reclen seed : Nat) : StepGoal n s ms (.eaSet pos reclen seed) := by
  have hea := h.ea
  rw [hs] at hea
  obtain ⟨hinv, hcap, hms⟩ := hea
  have hlen := abs_length hinv
  by_cases hin : 0 < reclen ∧ pos * reclen + reclen ≤ a.size
  · have hmk := mk_some hin.1
    exact ea_simple_accept h hs (e := .set pos ⟨reclen, hin.1⟩ (patBytes seed reclen)) (by simp [eaOpOf, hmk])
      (by simp [monEaOpOf, eaOpOf, hmk])
      (by simp only [eaContract, hlen]; exact ⟨hin.2, patBytes_length _ _⟩)
  · refine word_accept h .skip ?_ ?_
    · by_cases hr : 0 < reclen
      · have hmk := mk_some hr
        have : EArray.setRec a pos ⟨reclen, hr⟩ (patBytes seed reclen) = none := by
          simp only [EArray.setRec]; rw [if_neg]; intro hh; exact hin ⟨hr, hh.1⟩
        simp [stepOp, onEa, hs, hmk, this]
      · have : mkRecLen reclen = none := by simp [mkRecLen, hr]
        simp [stepOp, onEa, hs, this]
    · simp only [monStep, hms, headOfWord, isJust_skip, if_true, hlen]
      simp only [gt_iff_lt, hin, if_false]

theorem ea_free_accept {n : Nat} {s : DsStep.S} {ms : Spec.DSMon.S} (h : Rel n s ms) {a : EArray.EA}
    (hs : s.ea = some a) : StepGoal n s ms .eaFree := by
  have hea := h.ea
  have hmp := h.mp
  rw [hs] at hea hmp
  obtain ⟨hinv, hcap, hms⟩ := hea
  unfold StepGoal
  simp only [stepOp, onEa, hs, monStep, hms, Out.ans]
  refine ⟨by decide, ⟨h.capped.ext (ea_free_ext _ _), rfl, h.eq, h.sm.mono (Nat.le_succ _), ?_, h.inUse⟩⟩
  refine PR_transport hmp (ea_free_ext _ _) ?_
  simp only [eaBlk]
  rw [EArray.free_live]; omega

theorem ea_dump_accept {n : Nat} {s : DsStep.S} {ms : Spec.DSMon.S} (h : Rel n s ms) {a : EArray.EA}
    (hs : s.ea = some a) : StepGoal n s ms .eaDump := by
  have hea := h.ea
  rw [hs] at hea
  obtain ⟨hinv, hcap, hms⟩ := hea
  have hsh := (eaCheck_some (shape_abs hinv .ok s.m s.m (some (a.buf.take a.size, a.size)))).2
  have hlen := abs_length hinv
  have e : eaOut .ok a s.m s.m (some (a.size, a.buf.take a.size)) s.m =
      eaOutOf (EArray.ans .ok a s.m s.m (some (a.buf.take a.size, a.size))) s.m s.m s.m := rfl
  have hA := eaAns_out (EArray.ans .ok a s.m s.m (some (a.buf.take a.size, a.size))) s.m s.m s.m (by simp [EArray.ans])
    (by simp [EArray.ans, rf_self])
  unfold StepGoal
  simp only [stepOp, onEa, hs, monStep, hms, e, hA, hsh]
  rw [if_pos ⟨rfl, by rw [hlen]; rfl, trivial⟩]
  exact ⟨rfl, h.mono⟩

theorem ea_export_accept {n : Nat} {s : DsStep.S} {ms : Spec.DSMon.S} (h : Rel n s ms) {a : EArray.EA}
    (hs : s.ea = some a) (reclen : Nat) (hr : 0 < reclen) : StepGoal n s ms (.eaExport reclen) := by
  have hea := h.ea
  have hmp := h.mp
  rw [hs] at hea hmp
  obtain ⟨hinv, hcap, hms⟩ := hea
  have hmk := mk_some hr
  have hlen := abs_length hinv
  have hts := truncate_spec a s.m hinv
  have htf := truncate_frame a s.m
  unfold StepGoal
  simp only [stepOp, onEa, hs, hmk, monStep, hms, EArray.exportBuf]
  rcases hres : EArray.truncate a s.m with ⟨ok, a', m'⟩
  rw [hres] at hts htf
  obtain ⟨hinv', hok, hfail, hlive⟩ := hts
  simp only at hinv' hok hfail hlive htf
  cases ok
  · -- refused: array unchanged
    obtain ⟨rfl, hrf⟩ := hfail rfl
    have e : eaOut .fail a' s.m m' none m' = eaOutOf (EArray.ans .fail a' s.m m' none) s.m m' m' := rfl
    have hA := eaAns_out (EArray.ans .fail a' s.m m' none) s.m m' m' (by simp [EArray.ans])
      (by rw [rf_pos htf.1]; rfl)
    have hsh := (eaCheck_some (shape_abs hinv .fail s.m m' none)).2
    have hhead : (eaOutOf (EArray.ans St.fail a' s.m m' none) s.m m' m').ans.head = .fail := rfl
    simp only [e, hA, hhead, hsh]
    rw [if_pos ⟨rfl, by simp [EArray.ans, hrf], trivial⟩]
    refine ⟨rfl, ⟨h.capped.ext htf.1, ⟨hinv, hcap, hms⟩, h.eq, h.sm.mono (Nat.le_succ _), ?_, h.inUse⟩⟩
    refine PR_transport hmp htf.1 ?_
    simp only [eaBlk]; omega
  · obtain ⟨hsz, hal, hbuf⟩ := hok rfl
    simp only [Out.ans]
    have hb : a'.buf.take a'.size = (EArray.abs a).bytes := by
      rw [hbuf, hsz, List.take_take, Nat.min_self]; rfl
    rw [if_pos ⟨hb, by rw [hlen]; simp [EArray.getsize, hsz]⟩]
    have hext := (htf.1.trans (ext_free m' false)).trans (ext_free (m'.free false) (a'.alloc == 0))
    refine ⟨rfl, ⟨h.capped.ext hext, rfl, h.eq, h.sm.mono (Nat.le_succ _), ?_, h.inUse⟩⟩
    refine PR_transport hmp hext ?_
    have f1 := (free_facts m' false).2.1
    have f2 := (free_facts (m'.free false) (a'.alloc == 0)).2.1
    simp only [eaBlk]
    rw [f2, f1]
    simp only [bufBlocks] at hlive ⊢
    by_cases h0 : a'.alloc = 0 <;> simp [h0] at hlive ⊢ <;> omega

/-- the oracle after the old array, if any, has been released (what a re-initialisation starts from) -/
def eaFreed (s : DsStep.S) : Mem := match s.ea with | some a => EArray.free a s.m | none => s.m

theorem ea_release {n : Nat} {s : DsStep.S} {ms : Spec.DSMon.S} (h : Rel n s ms) :
    Ext s.m (eaFreed s) ∧ PR s.mp (eaFreed s) s.inUse s.mpSize s.parked (eqBlk s.eq + smBlk s.sm) := by
  have hmp := h.mp
  unfold eaFreed
  cases hs : s.ea with
  | none => rw [hs] at hmp; simp only [eaBlk, Int.zero_add] at hmp; exact ⟨Ext.refl _, hmp⟩
  | some a =>
    rw [hs] at hmp
    refine ⟨ea_free_ext _ _, PR_transport hmp (ea_free_ext _ _) ?_⟩
    simp only [eaBlk]; rw [EArray.free_live]; omega

theorem stepOp_eaInit (s : DsStep.S) (k reclen seed : Nat) (r : RecLen) (hmk : mkRecLen reclen = some r) :
    stepOp s (.eaInit k reclen seed) =
      match EArray.init k r (eaFreed s) with
      | (none, m') => ({ s with m := m', ea := none }, .initFail (rf (eaFreed s) m') (l2c (eaFreed s) m'))
      | (some a, m') =>
        let a := match EArray.fillFrom a 0 (patBytes seed a.size) with | some a' => a' | none => a
        ({ s with m := m', ea := some a }, eaOut .ok a (eaFreed s) m' none m') := by
  simp only [stepOp, hmk]; rfl

theorem ea_init_accept {n : Nat} {s : DsStep.S} {ms : Spec.DSMon.S} (h : Rel n s ms) (k reclen seed : Nat)
    (hr : 0 < reclen) : StepGoal n s ms (.eaInit k reclen seed) := by
  obtain ⟨hext0, hmp0⟩ := ea_release h
  have hmk := mk_some hr
  unfold StepGoal
  rw [stepOp_eaInit s k reclen seed _ hmk]
  generalize eaFreed s = m0 at *
  have hc0 := h.capped.ext hext0
  have hsp := EArray.init_spec k ⟨reclen, hr⟩ m0
  have hfr := ea_init_frame k ⟨reclen, hr⟩ m0
  rcases hres : EArray.init k ⟨reclen, hr⟩ m0 with ⟨oa, m'⟩
  rw [hres] at hsp hfr
  simp only at hsp hfr
  have hext := hext0.trans hfr.1
  cases oa with
  | none =>
    dsimp only
    simp only [Out.ans]
    simp only [monStep]
    have : (some (rf m0 m')).getD 0 > 0 ∨ k * reclen > Percival.Spec.DS.SIZE_MAX := by
      rcases hsp.2 with h1 | h1
      · left; simp only [Option.getD_some, rf]; omega
      · right; rw [← SIZE_MAX_same]; exact h1
    split
    · refine ⟨rfl, ⟨h.capped.ext hext, rfl, h.eq, h.sm.mono (Nat.le_succ _), ?_, h.inUse⟩⟩
      refine PR_transport hmp0 hfr.1 ?_
      simp only [eaBlk]; omega
    · rename_i hcond; exact absurd this hcond
  | some a =>
    obtain ⟨hinv, htight, hsz, _, hlive, hrf⟩ := hsp
    have hcap := hfr.2 a rfl hc0
    obtain ⟨a'', hfl, hsz'', hal'', hinv'', hbytes⟩ :=
      fillFrom_spec (a' := a) (old := 0) (fill := patBytes seed a.size) hinv (by rw [patBytes_length]; rfl)
    dsimp only
    simp only [hfl]
    have habs : ({ bytes := patBytes seed (k * reclen), loose := false } : EaIdeal) = EArray.abs a'' := by
      apply abs_eq
      · rw [hbytes]; simp [hsz]
      · simp only [Tight, hsz'', hal'']; exact htight
    have e : eaOut .ok a'' m0 m' none m' = eaOutOf (EArray.ans .ok a'' m0 m' none) m0 m' m' := rfl
    have hA := eaAns_out (EArray.ans .ok a'' m0 m' none) m0 m' m' (by simp [EArray.ans]) (by rw [rf_pos hfr.1]; rfl)
    have hsh := (eaCheck_some (shape_abs hinv'' .ok m0 m' none)).2
    have hhead : (eaOutOf (EArray.ans St.ok a'' m0 m' none) m0 m' m').ans.head = .ok := rfl
    have hsmall : ¬ k * reclen > dataMax := by
      have := hinv.le; simp only [cap_eq, dataMax_eq] at *; omega
    simp only [monStep, e, hhead, hA, hsmall, if_false, habs, hsh]
    rw [if_pos ⟨rfl, trivial⟩]
    refine ⟨rfl, ⟨h.capped.ext hext, ⟨hinv'', by rw [hal'']; exact hcap, rfl⟩, h.eq, h.sm.mono (Nat.le_succ _), ?_, h.inUse⟩⟩
    refine PR_transport hmp0 hfr.1 ?_
    simp only [eaBlk, bufBlocks_congr hal'']; omega

/-! ## elastic queue: the monitor accepts the model's answers -/

theorem eqAns_out (e : EqOp) (an : EqAns) (q' : EQueue.EQ) (m m' : Mem) (hst : an.st ≠ .oob)
    (hrf : an.refused = decide (rf m m' > 0)) : eqAns (eqOutOf e an q' m m').ans = some an := by
  obtain ⟨st, refused, len, got⟩ := an
  simp only at hst hrf
  subst hrf
  cases got with
  | none => cases e <;> cases st <;> simp_all [eqOutOf, eqExtraOf, Out.ans, eqAns, stOf, headOfSt]
  | some b => cases e <;> cases st <;> simp_all [eqOutOf, eqExtraOf, Out.ans, eqAns, stOf, headOfSt]

theorem eqOutOf_not_skip (e : EqOp) (an : EqAns) (q' : EQueue.EQ) (m m' : Mem) :
    (eqOutOf e an q' m m').ans.isJust .skip = false := by
  obtain ⟨st, refused, len, got⟩ := an
  cases got <;> cases e <;> cases st <;> simp [eqOutOf, eqExtraOf, Out.ans, Ans.isJust, headOfSt]

theorem mon_eq (ms : Spec.DSMon.S) (i : List (List UInt8)) (hms : ms.eq = some i) (op : Op) (e : EqOp)
    (he : eqOpOf ms.eqr op = some e) (A : Ans) (hskip : A.isJust .skip = false) :
    ∃ why, monStep ms op A = eqJudge ms i e A why := by
  cases op <;> simp only [eqOpOf, reduceCtorEq, Option.some.injEq] at he <;> subst he
  case eqAdd seed => exact ⟨_, by simp only [monStep, hms]; rfl⟩
  case eqDel => exact ⟨_, by simp only [monStep, hms]; rfl⟩
  case eqLen => exact ⟨_, by simp only [monStep, hms]; rfl⟩
  case eqGet pos => exact ⟨_, by simp only [monStep, hms]; rfl⟩
  case eqSet pos seed => exact ⟨_, by simp only [monStep, hms, hskip]; simp only [Bool.false_eq_true, if_false]; rfl⟩

theorem eqJudge_accept (ms : Spec.DSMon.S) (i i' : List (List UInt8)) (e : EqOp) (A : Ans) (why : String) (an : EqAns)
    (h1 : eqAns A = some an) (h2 : eqAdmit i e an = some i') :
    eqJudge ms i e A why = ({ ms with eq := some i' }, none) := by
  simp [eqJudge, h1, h2]

theorem eq_step_refused (q : EQueue.EQ) (e : EqOp) (m : Mem) :
    (EQueue.step q e m).1.refused = ((EQueue.step q e m).2.2.refusals != m.refusals) := by
  cases e <;> simp only [EQueue.step] <;> (repeat' split) <;> simp_all [EQueue.ans]

theorem eqAdmit_not_oob {i i' : List (List UInt8)} {op : EqOp} {a : EqAns} (h : eqAdmit i op a = some i') : a.st ≠ .oob := by
  intro hst
  cases op <;> simp [eqAdmit, hst] at h

theorem eq_small {q : EQueue.EQ} (h : EQueue.QInv q) (hcap : q.ea.alloc ≤ cap) (hr : q.reclen.val + cap ≤ SIZE_MAX) :
    (q.offset + q.len + 1) * q.reclen.val ≤ EArray.SIZE_MAX := by
  have := h.sz; have := h.ea.le
  rw [Nat.succ_mul, ← SIZE_MAX_same] at *
  omega

theorem eq_step_live (q : EQueue.EQ) (e : EqOp) (m : Mem) (h : EQueue.QInv q)
    (hc : eqContract q.reclen.val (EQueue.abs q) e)
    (hsmall : (q.offset + q.len + 1) * q.reclen.val ≤ EArray.SIZE_MAX) :
    (EQueue.step q e m).2.2.live + bufBlocks q.ea = m.live + bufBlocks (EQueue.step q e m).2.1.ea := by
  cases e with
  | add rec =>
    have hs := (EQueue.add_spec q rec m h hc (by rw [h.sz]; rw [Nat.succ_mul] at hsmall; exact hsmall)).2.2.2.2.2
    simp only [EQueue.step]
    rcases hres : EQueue.add q rec m with ⟨st, q', m'⟩
    rw [hres] at hs; exact hs
  | delete =>
    have hs := (EQueue.delete_spec q m h).2.2.2.2.2.2
    simp only [EQueue.step]
    rcases hres : EQueue.delete q m with ⟨st, q', m'⟩
    rw [hres] at hs; exact hs
  | getlen => rfl
  | get pos => simp only [EQueue.step]; split <;> rfl
  | set pos rec =>
    simp only [EQueue.step]
    split
    · rename_i q' hq; simp only; rw [bufBlocks_congr (eq_set_alloc hq)]
    · rfl

theorem eq_accept_core {n : Nat} {s : DsStep.S} {ms : Spec.DSMon.S} (h : Rel n s ms) {q : EQueue.EQ}
    (hs : s.eq = some q) {op : Op} {e : EqOp} (he : eqOpOf q.reclen.val op = some e)
    (hc : eqContract q.reclen.val (EQueue.abs q) e) : StepGoal n s ms op := by
  have heq := h.eq
  have hmp := h.mp
  rw [hs] at heq hmp
  obtain ⟨hinv, hcap, hrl, hms, heqr⟩ := heq
  have hsmall := eq_small hinv hcap hrl
  have hst := EQueue.qstep_ok q e s.m hinv hc hsmall
  obtain ⟨hinv', hrl', hadm, _⟩ := hst
  have hlive := eq_step_live q e s.m hinv hc hsmall
  have hno := eqAdmit_not_oob hadm
  have frame := eq_step_frame q e s.m
  unfold StepGoal
  rw [eq_stepOp s q hs op e he hno]
  simp only
  obtain ⟨why, hmon⟩ := mon_eq ms (EQueue.abs q) hms op e (by rw [heqr]; exact he)
    (eqOutOf e (EQueue.step q e s.m).1 (EQueue.step q e s.m).2.1 s.m (EQueue.step q e s.m).2.2).ans
    (eqOutOf_not_skip _ _ _ _ _)
  rw [hmon, eqJudge_accept ms _ _ e _ why _
    (eqAns_out _ _ _ _ _ hno (by rw [eq_step_refused, rf_pos frame.1])) hadm]
  refine ⟨rfl, ⟨h.capped.ext frame.1, h.ea, ⟨hinv', frame.2 h.capped hcap, by rw [hrl']; exact hrl, rfl, by rw [hrl']; exact heqr⟩,
    h.sm.mono (Nat.le_succ _), ?_, h.inUse⟩⟩
  refine PR_transport hmp frame.1 ?_
  simp only [eqBlk]
  omega

theorem eq_absent_accept {n : Nat} {s : DsStep.S} {ms : Spec.DSMon.S} (h : Rel n s ms) (hs : s.eq = none) (op : Op)
    (hop : match op with
      | .eqAdd .. | .eqDel | .eqLen | .eqGet .. | .eqSet .. | .eqDump | .eqFree => True
      | _ => False) : StepGoal n s ms op := by
  have hms : ms.eq = none := by have := h.eq; rw [hs] at this; exact this
  cases op <;> simp only at hop <;>
    exact word_accept h .skip (by simp [stepOp, hs]) (by simp [monStep, hms, okOr, isJust_skip, headOfWord])

theorem eq_set_accept {n : Nat} {s : DsStep.S} {ms : Spec.DSMon.S} (h : Rel n s ms) {q : EQueue.EQ}
    (hs : s.eq = some q) (pos seed : Nat) : StepGoal n s ms (.eqSet pos seed) := by
  have heq := h.eq
  rw [hs] at heq
  obtain ⟨hinv, hcap, hrl, hms, heqr⟩ := heq
  by_cases hp : pos < q.len
  · exact eq_accept_core h hs (e := .set pos (patBytes seed q.reclen.val)) rfl
      ⟨by rw [EQueue.abs_length]; exact hp, patBytes_length _ _⟩
  · refine word_accept h .skip (by simp [stepOp, hs]; omega) ?_
    simp only [monStep, hms, headOfWord, isJust_skip, if_true, EQueue.abs_length, hp, if_false]

theorem eq_free_accept {n : Nat} {s : DsStep.S} {ms : Spec.DSMon.S} (h : Rel n s ms) {q : EQueue.EQ}
    (hs : s.eq = some q) : StepGoal n s ms .eqFree := by
  have heq := h.eq
  have hmp := h.mp
  rw [hs] at heq hmp
  obtain ⟨hinv, hcap, hrl, hms, heqr⟩ := heq
  unfold StepGoal
  simp only [stepOp, hs, monStep, hms, Out.ans]
  refine ⟨by decide, ⟨h.capped.ext (eq_free_ext _ _), h.ea, rfl, h.sm.mono (Nat.le_succ _), ?_, h.inUse⟩⟩
  refine PR_transport hmp (eq_free_ext _ _) ?_
  simp only [eqBlk]
  rw [EQueue.free_live]; omega

theorem map_getElem_range {α : Type} (l : List α) : (List.range l.length).map (fun i => l[i]?) = l.map some := by
  apply List.ext_getElem?
  intro i
  by_cases hi : i < l.length
  · simp [hi]
  · simp [hi]

theorem mapM_id_some {α : Type} (l : List α) : (l.map some).mapM id = some l := by
  induction l with
  | nil => rfl
  | cons x rest ih => simp [List.mapM_cons, ih]

theorem eq_dump_accept {n : Nat} {s : DsStep.S} {ms : Spec.DSMon.S} (h : Rel n s ms) {q : EQueue.EQ}
    (hs : s.eq = some q) : StepGoal n s ms .eqDump := by
  have heq := h.eq
  rw [hs] at heq
  obtain ⟨hinv, hcap, hrl, hms, heqr⟩ := heq
  have hne : (EQueue.abs q).map some ≠ [some []] := by
    intro hh
    have hm : ([] : List UInt8) ∈ EQueue.abs q := by
      have : some ([] : List UInt8) ∈ (EQueue.abs q).map some := by rw [hh]; simp
      simpa using this
    have := Percival.Proofs.SeqMap.abs_mem_length q hinv _ hm
    have := q.reclen.property
    simp at *; omega
  unfold StepGoal
  simp only [stepOp, hs]
  generalize hl : List.map _ (List.range q.len) = l
  have hrecs : l = (EQueue.abs q).map some := by
    rw [← hl, ← map_getElem_range, EQueue.abs_length]
    apply List.map_congr_left
    intro i _
    exact (EQueue.get_abs q i hinv).symm
  subst hrecs
  simp only [Out.ans, recsAns, hne, if_false, mapM_id_some]
  simp only [monStep, hms, headOfSt, EQueue.abs_length]
  simp only [beq_self_eq_true, and_self, if_true]
  exact ⟨trivial, h.mono⟩

def eqFreed (s : DsStep.S) : Mem := match s.eq with | some q => EQueue.free q s.m | none => s.m

theorem eq_release {n : Nat} {s : DsStep.S} {ms : Spec.DSMon.S} (h : Rel n s ms) :
    Ext s.m (eqFreed s) ∧ PR s.mp (eqFreed s) s.inUse s.mpSize s.parked (eaBlk s.ea + smBlk s.sm) := by
  have hmp := h.mp
  unfold eqFreed
  cases hs : s.eq with
  | none => rw [hs] at hmp; simp only [eqBlk, Int.add_zero] at hmp; exact ⟨Ext.refl _, hmp⟩
  | some a =>
    rw [hs] at hmp
    refine ⟨eq_free_ext _ _, PR_transport hmp (eq_free_ext _ _) ?_⟩
    simp only [eqBlk]; rw [EQueue.free_live]; omega

theorem stepOp_eqInit (s : DsStep.S) (reclen : Nat) (r : RecLen) (hmk : mkRecLen reclen = some r) :
    stepOp s (.eqInit reclen) =
      match EQueue.init r (eqFreed s) with
      | (none, m') => ({ s with m := m', eq := none }, .initFail (rf (eqFreed s) m') (l2c (eqFreed s) m'))
      | (some q, m') => ({ s with m := m', eq := some q }, .eq .ok q.len (rf (eqFreed s) m') .none (eqL2 q (eqFreed s) m')) := by
  simp only [stepOp, hmk]; rfl

theorem eq_init_accept {n : Nat} {s : DsStep.S} {ms : Spec.DSMon.S} (h : Rel n s ms) (reclen : Nat)
    (hr : 0 < reclen) (hrl : reclen + cap ≤ SIZE_MAX) : StepGoal n s ms (.eqInit reclen) := by
  obtain ⟨hext0, hmp0⟩ := eq_release h
  have hmk := mk_some hr
  unfold StepGoal
  rw [stepOp_eqInit s reclen _ hmk]
  generalize eqFreed s = m0 at *
  have hc0 := h.capped.ext hext0
  have hsp := EQueue.init_spec ⟨reclen, hr⟩ m0
  have hfr := eq_init_frame ⟨reclen, hr⟩ m0
  rcases hres : EQueue.init ⟨reclen, hr⟩ m0 with ⟨oq, m'⟩
  rw [hres] at hsp hfr
  simp only at hsp hfr
  have hext := hext0.trans hfr.1
  cases oq with
  | none =>
    dsimp only
    simp only [Out.ans]
    simp only [monStep]
    have : (some (rf m0 m')).getD 0 > 0 := by simp only [Option.getD_some, rf]; omega
    rw [if_pos this]
    refine ⟨rfl, ⟨h.capped.ext hext, h.ea, rfl, h.sm.mono (Nat.le_succ _), ?_, h.inUse⟩⟩
    refine PR_transport hmp0 hfr.1 ?_
    simp only [eqBlk]; omega
  | some q =>
    obtain ⟨hinv, hrl', habs, hoff, hlen, hlive, hrf⟩ := hsp
    have hcap := hfr.2 q rfl hc0
    dsimp only
    simp only [Out.ans, headOfSt, hlen]
    simp only [monStep, if_true]
    refine ⟨trivial, ⟨h.capped.ext hext, h.ea, ⟨hinv, hcap, by rw [hrl']; exact hrl, by rw [habs], by rw [hrl']⟩,
      h.sm.mono (Nat.le_succ _), ?_, h.inUse⟩⟩
    refine PR_transport hmp0 hfr.1 ?_
    simp only [eqBlk]; omega

theorem eq_family_accept {n : Nat} {s : DsStep.S} {ms : Spec.DSMon.S} (h : Rel n s ms) (op : Op) (hok : OpOk op)
    (hop : match op with
      | .eqInit .. | .eqAdd .. | .eqDel | .eqLen | .eqGet .. | .eqSet .. | .eqDump | .eqFree => True
      | _ => False) : StepGoal n s ms op := by
  cases hs : s.eq with
  | none =>
    cases op <;> simp only at hop
    case eqInit reclen => exact eq_init_accept h reclen hok.1 hok.2
    all_goals exact eq_absent_accept h hs _ trivial
  | some q =>
    cases op <;> simp only at hop
    case eqInit reclen => exact eq_init_accept h reclen hok.1 hok.2
    case eqAdd seed => exact eq_accept_core h hs (e := .add (patBytes seed q.reclen.val)) rfl (patBytes_length _ _)
    case eqDel => exact eq_accept_core h hs (e := .delete) rfl trivial
    case eqLen => exact eq_accept_core h hs (e := .getlen) rfl trivial
    case eqGet pos => exact eq_accept_core h hs (e := .get pos) rfl trivial
    case eqSet pos seed => exact eq_set_accept h hs pos seed
    case eqDump => exact eq_dump_accept h hs
    case eqFree => exact eq_free_accept h hs

theorem ea_family_accept {n : Nat} {s : DsStep.S} {ms : Spec.DSMon.S} (h : Rel n s ms) (op : Op) (hok : OpOk op)
    (hop : match op with
      | .eaInit .. | .eaResize .. | .eaAppend .. | .eaShrink .. | .eaTrunc | .eaGet .. | .eaSet .. | .eaGetsize ..
      | .eaDump | .eaDup .. | .eaExport .. | .eaFree => True
      | _ => False) : StepGoal n s ms op := by
  cases hs : s.ea with
  | none =>
    cases op <;> simp only at hop
    case eaInit k reclen seed => exact ea_init_accept h k reclen seed hok
    all_goals exact ea_absent_accept h hs _ trivial
  | some a =>
    cases op <;> simp only at hop
    case eaInit k reclen seed => exact ea_init_accept h k reclen seed hok
    case eaResize k reclen seed => exact ea_resize_accept h hs k reclen seed hok
    case eaAppend k reclen seed => exact ea_append_accept h hs k reclen seed hok
    case eaShrink k reclen =>
      exact ea_simple_accept h hs (e := .shrink k ⟨reclen, hok⟩) (by simp [eaOpOf, mk_some hok])
        (by simp [monEaOpOf, eaOpOf, mk_some hok]) trivial
    case eaTrunc => exact ea_simple_accept h hs (e := .truncate) rfl rfl trivial
    case eaGet pos reclen => exact ea_get_accept h hs pos reclen
    case eaSet pos reclen seed => exact ea_set_accept h hs pos reclen seed
    case eaGetsize reclen =>
      exact ea_simple_accept h hs (e := .getsize ⟨reclen, hok⟩) (by simp [eaOpOf, mk_some hok])
        (by simp [monEaOpOf, eaOpOf, mk_some hok]) trivial
    case eaDump => exact ea_dump_accept h hs
    case eaDup reclen =>
      exact ea_simple_accept h hs (e := .exportdup ⟨reclen, hok⟩) (by simp [eaOpOf, mk_some hok])
        (by simp [monEaOpOf, eaOpOf, mk_some hok]) trivial
    case eaExport reclen => exact ea_export_accept h hs reclen hok
    case eaFree => exact ea_free_accept h hs

/-! ## sequential pointer map: the monitor accepts the model's answers -/

theorem smAdmit_not_oob {i i' : SmIdeal} {op : SmOp} {a : SmAns} (h : smAdmit i op a = some i') : a.st ≠ .oob := by
  intro hst
  cases op <;> simp [smAdmit, hst] at h

theorem sm_step_refused (x : SeqMap.SM) (e : SmOp) (m : Mem) :
    (SeqMap.step x e m).1.refused = ((SeqMap.step x e m).2.2.refusals != m.refusals) := by
  cases e <;> simp only [SeqMap.step] <;> (repeat' split) <;> simp_all [SeqMap.ans]

def numShown : SmOp → Bool
  | .add _ | .getmin => true | _ => false
def ptrShown : SmOp → Bool
  | .get _ => true | _ => false

/-- fields of a map answer the line does not show are 0 -/
theorem sm_step_zero (x : SeqMap.SM) (e : SmOp) (m : Mem) :
    (numShown e = false → (SeqMap.step x e m).1.num = 0) ∧
    (ptrShown e = false → (SeqMap.step x e m).1.ptr = 0) := by
  cases e <;> simp only [SeqMap.step, numShown, ptrShown] <;> (repeat' split) <;> simp_all [SeqMap.ans]

theorem smJudge_out (ms : Spec.DSMon.S) (i i' : SmIdeal) (e : SmOp) (an : SmAns) (x' : SeqMap.SM) (m m' : Mem)
    (why : String) (hst : an.st ≠ .oob) (hrf : an.refused = decide (rf m m' > 0))
    (hz1 : numShown e = false → an.num = 0) (hz2 : ptrShown e = false → an.ptr = 0)
    (hadm : smAdmit i e an = some i') :
    smJudge ms i e (smOutOf e an x' m m').ans why = ({ ms with sm := some i' }, none) := by
  obtain ⟨st, refused, num, ptr⟩ := an
  simp only at hst hrf hz1 hz2
  subst hrf
  cases e <;> cases st <;> simp_all [smOutOf, Out.ans, smJudge, stOf, headOfSt, numShown, ptrShown]

theorem smOutOf_not_skip (e : SmOp) (an : SmAns) (x' : SeqMap.SM) (m m' : Mem) :
    (smOutOf e an x' m m').ans.isJust .skip = false := by
  obtain ⟨st, refused, num, ptr⟩ := an
  cases e <;> cases st <;> simp [smOutOf, Out.ans, Ans.isJust, headOfSt]

theorem mon_sm (ms : Spec.DSMon.S) (i : SmIdeal) (hms : ms.sm = some i) (op : Op) (e : SmOp)
    (he : smOpOf op = some e) (A : Ans) : ∃ why, monStep ms op A = smJudge ms i e A why := by
  cases op <;> simp only [smOpOf, reduceCtorEq, Option.some.injEq] at he <;> subst he
  case smAdd p => exact ⟨_, by simp only [monStep, hms]; rfl⟩
  case smGet j => exact ⟨_, by simp only [monStep, hms]; rfl⟩
  case smDel j => exact ⟨_, by simp only [monStep, hms]; rfl⟩
  case smMin => exact ⟨_, by simp only [monStep, hms]; rfl⟩

theorem sm_step_live (x : SeqMap.SM) (e : SmOp) (m : Mem) (h : SeqMap.MInv x) (hc : smContract e)
    (hq : (x.q.offset + x.q.len + 1) * 8 ≤ EArray.SIZE_MAX) (hn : x.offset + x.len + 1 ≤ SeqMap.INT64_MAX) :
    (SeqMap.step x e m).2.2.live + bufBlocks x.q.ea = m.live + bufBlocks (SeqMap.step x e m).2.1.q.ea := by
  cases e with
  | add p =>
    have hs := (SeqMap.add_spec x p m h hc.1 hc.2 hq hn).2.2
    simp only [SeqMap.step]
    rcases hres : SeqMap.add x p m with ⟨r, x', m'⟩
    rw [hres] at hs
    cases r <;> exact hs
  | get i => simp only [SeqMap.step]; split <;> rfl
  | delete i =>
    have hs := (SeqMap.delete_spec x i m h).2.2.2.2.2
    simp only [SeqMap.step]
    rcases hres : SeqMap.delete x i m with ⟨st, x', m'⟩
    rw [hres] at hs; exact hs
  | getmin => rfl

theorem sm_accept_core {n : Nat} {s : DsStep.S} {ms : Spec.DSMon.S} (h : Rel n s ms)
    (hn : (n : Int) < SeqMap.INT64_MAX) {x : SeqMap.SM}
    (hs : s.sm = some x) {op : Op} {e : SmOp} (he : smOpOf op = some e) (hc : smContract e) : StepGoal n s ms op := by
  have hsm := h.sm
  have hmp := h.mp
  rw [hs] at hsm hmp
  obtain ⟨hinv, hcap, hnum, hms⟩ := hsm
  have hq : (x.q.offset + x.q.len + 1) * 8 ≤ EArray.SIZE_MAX := by
    have := eq_small hinv.1.q hcap (by rw [hinv.1.rl]; decide)
    rw [hinv.1.rl] at this; exact this
  have hn' : x.offset + x.len + 1 ≤ SeqMap.INT64_MAX := by omega
  obtain ⟨hinv', hadm, _, hnum'⟩ := SeqMap.mstep_ok x e s.m hinv hc hq hn'
  have hlive := sm_step_live x e s.m hinv hc hq hn'
  have hno := smAdmit_not_oob hadm
  have frame := sm_step_frame x e s.m
  have hz := sm_step_zero x e s.m
  unfold StepGoal
  rw [sm_stepOp s x hs op e he hno]
  simp only
  obtain ⟨why, hmon⟩ := mon_sm ms (SeqMap.abs x) hms op e he
    (smOutOf e (SeqMap.step x e s.m).1 (SeqMap.step x e s.m).2.1 s.m (SeqMap.step x e s.m).2.2).ans
  rw [hmon, smJudge_out ms _ _ e _ _ _ _ why hno (by rw [sm_step_refused, rf_pos frame.1]) hz.1 hz.2 hadm]
  refine ⟨rfl, ⟨h.capped.ext frame.1, h.ea, h.eq, ⟨hinv', frame.2 h.capped hcap, by omega, rfl⟩, ?_, h.inUse⟩⟩
  refine PR_transport hmp frame.1 ?_
  simp only [smBlk]
  omega

theorem sm_absent_accept {n : Nat} {s : DsStep.S} {ms : Spec.DSMon.S} (h : Rel n s ms) (hs : s.sm = none) (op : Op)
    (hop : match op with
      | .smAdd .. | .smGet .. | .smDel .. | .smMin | .smFree => True
      | _ => False) : StepGoal n s ms op := by
  have hms : ms.sm = none := by have := h.sm; rw [hs] at this; exact this
  cases op <;> simp only at hop <;>
    exact word_accept h .skip (by simp [stepOp, hs]) (by simp [monStep, hms, okOr, isJust_skip, headOfWord])

theorem sm_free_accept {n : Nat} {s : DsStep.S} {ms : Spec.DSMon.S} (h : Rel n s ms) {x : SeqMap.SM}
    (hs : s.sm = some x) : StepGoal n s ms .smFree := by
  have hsm := h.sm
  have hmp := h.mp
  rw [hs] at hsm hmp
  obtain ⟨hinv, hcap, hnum, hms⟩ := hsm
  unfold StepGoal
  simp only [stepOp, hs, monStep, hms, Out.ans]
  refine ⟨by decide, ⟨h.capped.ext (sm_free_ext _ _), h.ea, h.eq, rfl, ?_, h.inUse⟩⟩
  refine PR_transport hmp (sm_free_ext _ _) ?_
  simp only [smBlk]
  rw [SeqMap.free_live]; omega

def smFreed (s : DsStep.S) : Mem := match s.sm with | some x => SeqMap.free x s.m | none => s.m

theorem sm_release {n : Nat} {s : DsStep.S} {ms : Spec.DSMon.S} (h : Rel n s ms) :
    Ext s.m (smFreed s) ∧ PR s.mp (smFreed s) s.inUse s.mpSize s.parked (eaBlk s.ea + eqBlk s.eq) := by
  have hmp := h.mp
  unfold smFreed
  cases hs : s.sm with
  | none => rw [hs] at hmp; simp only [smBlk, Int.add_zero] at hmp; exact ⟨Ext.refl _, hmp⟩
  | some a =>
    rw [hs] at hmp
    refine ⟨sm_free_ext _ _, PR_transport hmp (sm_free_ext _ _) ?_⟩
    simp only [smBlk]; rw [SeqMap.free_live]; omega

theorem stepOp_smInit (s : DsStep.S) :
    stepOp s .smInit =
      match SeqMap.init (smFreed s) with
      | (none, m') => ({ s with m := m', sm := none }, .initFail (rf (smFreed s) m') (l2c (smFreed s) m'))
      | (some x, m') => ({ s with m := m', sm := some x }, .smInit (rf (smFreed s) m') (smL2 x (smFreed s) m')) := by
  simp only [stepOp]; rfl

theorem sm_init_accept {n : Nat} {s : DsStep.S} {ms : Spec.DSMon.S} (h : Rel n s ms) : StepGoal n s ms .smInit := by
  obtain ⟨hext0, hmp0⟩ := sm_release h
  unfold StepGoal
  rw [stepOp_smInit s]
  generalize smFreed s = m0 at *
  have hc0 := h.capped.ext hext0
  have hsp := SeqMap.init_spec m0
  have hfr := sm_init_frame m0
  rcases hres : SeqMap.init m0 with ⟨ox, m'⟩
  rw [hres] at hsp hfr
  simp only at hsp hfr
  have hext := hext0.trans hfr.1
  cases ox with
  | none =>
    dsimp only
    simp only [Out.ans]
    simp only [monStep]
    have : (some (rf m0 m')).getD 0 > 0 := by simp only [Option.getD_some, rf]; omega
    rw [if_pos this]
    refine ⟨rfl, ⟨h.capped.ext hext, h.ea, h.eq, rfl, ?_, h.inUse⟩⟩
    refine PR_transport hmp0 hfr.1 ?_
    simp only [smBlk]; omega
  | some x =>
    obtain ⟨hinv, habs, hoff, hlen, _, _, hlive, hrf⟩ := hsp
    have hcap := hfr.2 x rfl hc0
    dsimp only
    simp only [Out.ans]
    simp only [monStep]
    refine ⟨trivial, ⟨h.capped.ext hext, h.ea, h.eq, ⟨hinv, hcap, by rw [hoff, hlen]; simp; omega, by rw [habs]⟩, ?_, h.inUse⟩⟩
    refine PR_transport hmp0 hfr.1 ?_
    simp only [smBlk]; omega

theorem sm_family_accept {n : Nat} {s : DsStep.S} {ms : Spec.DSMon.S} (h : Rel n s ms)
    (hn : (n : Int) < SeqMap.INT64_MAX) (op : Op) (hok : OpOk op)
    (hop : match op with
      | .smInit | .smAdd .. | .smGet .. | .smDel .. | .smMin | .smFree => True
      | _ => False) : StepGoal n s ms op := by
  cases hs : s.sm with
  | none =>
    cases op <;> simp only at hop
    case smInit => exact sm_init_accept h
    all_goals exact sm_absent_accept h hs _ trivial
  | some x =>
    cases op <;> simp only at hop
    case smInit => exact sm_init_accept h
    case smAdd p => exact sm_accept_core h hn hs (e := .add p) rfl hok
    case smGet i => exact sm_accept_core h hn hs (e := .get i) rfl trivial
    case smDel i => exact sm_accept_core h hn hs (e := .delete i) rfl trivial
    case smMin => exact sm_accept_core h hn hs (e := .getmin) rfl trivial
    case smFree => exact sm_free_accept h hs

/-! ## object pool, allocation schedule, `end` -/

theorem mpAdmit_inUse {u u' : List Nat} {e : MpOp} {an : MpAns} (h : mpAdmit u e an = some u') :
    u' = mpInUse u e an := by
  obtain ⟨obj, refused⟩ := an
  cases e with
  | malloc =>
    cases obj with
    | none => simp only [mpAdmit] at h; split at h <;> simp_all [mpInUse]
    | some x => simp only [mpAdmit] at h; split at h <;> simp_all [mpInUse]
  | free x => simp only [mpAdmit] at h; split at h <;> simp_all [mpInUse]

theorem mp_step_refused (p : MPool.MP) (e : MpOp) (m : Mem) :
    (MPool.step objSize p e m).1.refused = ((MPool.step objSize p e m).2.2.refusals != m.refusals) := by
  cases e <;> rfl

theorem mp_malloc_accept {n : Nat} {s : DsStep.S} {ms : Spec.DSMon.S} (h : Rel n s ms) : StepGoal n s ms .mpMalloc := by
  obtain ⟨u', hadm, hR⟩ := MPool.step_ok objSize s.mp .malloc s.m s.inUse _ h.mp.here trivial
  have hu := mpAdmit_inUse hadm
  have hext := mp_step_ext objSize s.mp .malloc s.m
  have hrfd := mp_step_refused s.mp .malloc s.m
  rw [← rf_pos hext] at hrfd
  have hin := h.inUse.1
  unfold StepGoal
  rw [mp_stepOp s .mpMalloc .malloc rfl]
  simp only
  rw [← hu]
  generalize MPool.step objSize s.mp .malloc s.m = r at *
  obtain ⟨⟨obj, refused⟩, p', m'⟩ := r
  simp only at hadm hR hext hrfd ⊢
  rw [hrfd] at hadm
  cases obj with
  | none =>
    simp only [mpObjOf, Out.ans, monStep, hin]
    simp only [Bool.false_eq_true, if_false, Option.isNone_none, Bool.not_true, and_false, hadm]
    exact ⟨trivial, ⟨h.capped.ext hext, h.ea, h.eq, h.sm.mono (Nat.le_succ _), PR_step h.mp hext hR, rfl, h.inUse.2⟩⟩
  | some x =>
    simp only [mpObjOf, Out.ans, monStep, hin]
    simp only [Bool.false_eq_true, if_false, Option.isNone_some, false_and, hadm]
    exact ⟨trivial, ⟨h.capped.ext hext, h.ea, h.eq, h.sm.mono (Nat.le_succ _), PR_step h.mp hext hR, rfl, h.inUse.2⟩⟩

/-- `mp_free x` / `mp_freenth` once the object is known -/
theorem mp_free_core {n : Nat} {s : DsStep.S} {ms : Spec.DSMon.S} (h : Rel n s ms) {op : Op} {x : Nat}
    (he : mpOpOf s.inUse op = some (.free x)) (hx : x ∈ s.inUse)
    (hmon : ∀ rfn l2, monStep ms op (Out.mp rfn (mpObjOf op (.free x) { obj := none, refused := false }) l2).ans =
      match mpAdmit ms.inUse (.free x) { obj := none, refused := false } with
      | some u => ({ ms with inUse := u }, none)
      | none => (ms, some "free of an object not in use")) : StepGoal n s ms op := by
  obtain ⟨u', hadm, hR⟩ := MPool.step_ok objSize s.mp (.free x) s.m s.inUse _ h.mp.here hx
  have hu := mpAdmit_inUse hadm
  have hext := mp_step_ext objSize s.mp (.free x) s.m
  have hin := h.inUse.1
  unfold StepGoal
  rw [mp_stepOp s op (.free x) he]
  simp only
  rw [← hu]
  have hobj : mpObjOf op (.free x) (MPool.step objSize s.mp (.free x) s.m).1 =
      mpObjOf op (.free x) { obj := none, refused := false } := by
    cases op <;> rfl
  rw [hobj, hmon, hin]
  have : mpAdmit s.inUse (.free x) { obj := none, refused := false } = some (s.inUse.erase x) := by
    simp [mpAdmit, hx]
  have hu' : u' = s.inUse.erase x := by rw [hu]; rfl
  rw [this]
  exact ⟨rfl, ⟨h.capped.ext hext, h.ea, h.eq, h.sm.mono (Nat.le_succ _), PR_step h.mp hext hR, by rw [hu'], h.inUse.2⟩⟩

theorem mp_free_accept {n : Nat} {s : DsStep.S} {ms : Spec.DSMon.S} (h : Rel n s ms) (x : Nat) :
    StepGoal n s ms (.mpFree x) := by
  have hin := h.inUse.1
  by_cases hx : x ∈ s.inUse
  · have hc : s.inUse.contains x = true := by simpa using hx
    refine mp_free_core h (x := x) (by simp [mpOpOf, hx]) hx ?_
    intro rfn l2
    simp only [mpObjOf, Out.ans, monStep, Ans.isJust]
    simp [hin, mpAdmit, hx]
  · have hc : s.inUse.contains x = false := by simpa using hx
    refine word_accept h .skip (by simp [stepOp, hx]) ?_
    simp only [monStep, headOfWord, isJust_skip, if_true, hin, hc]
    rfl

theorem mp_freenth_accept {n : Nat} {s : DsStep.S} {ms : Spec.DSMon.S} (h : Rel n s ms) (j : Nat) :
    StepGoal n s ms (.mpFreenth j) := by
  have hin := h.inUse.1
  cases hsel : (s.inUse.mergeSort (· ≤ ·))[j % (s.inUse.mergeSort (· ≤ ·)).length]? with
  | none =>
    have hemp : s.inUse = [] := by
      cases hl : s.inUse with
      | nil => rfl
      | cons y rest =>
        exfalso
        have hlen : (s.inUse.mergeSort (· ≤ ·)).length = rest.length + 1 := by rw [List.length_mergeSort, hl]; rfl
        rw [List.getElem?_eq_none_iff, hlen] at hsel
        have := Nat.mod_lt j (Nat.succ_pos rest.length)
        simp only [Nat.succ_eq_add_one] at this
        omega
    refine word_accept h .skip (by simp only [stepOp, hsel]) ?_
    simp only [monStep, headOfWord, isJust_skip, if_true, hin, hemp]
    rfl
  | some x =>
    have hx : x ∈ s.inUse := by
      have := List.mem_of_getElem? hsel
      exact List.mem_mergeSort.1 this
    refine mp_free_core h (x := x) (by simp only [mpOpOf, hsel, Option.map_some]) hx ?_
    intro rfn l2
    simp only [mpObjOf, Out.ans, monStep, Ans.isJust]
    simp [hin, mpAdmit, hx]

theorem exitOne_spec {pu : MPool.MP × List Nat} {m : Mem} {b : Int} (hR : MPool.R pu.1 m pu.2 b) :
    Ext m (exitOne m pu) ∧ (exitOne m pu).live = b := by
  constructor
  · simp only [exitOne]; exact (mp_atexit_ext _ _).trans (foldl_free_ext _ _)
  · simp only [exitOne]
    rw [(MPool.foldl_free_live _ _).1, (MPool.atexit_spec pu.1 m pu.2 b hR).2.2]; omega

theorem exitParked_spec (pk : Nat → MPool.MP × List Nat) : ∀ (l : List Nat) (m : Mem),
    (∀ k, MPool.R (pk k).1 m (pk k).2 (m.live - poolBlk (pk k))) →
    Ext m (l.foldl (fun m k => exitOne m (pk k)) m) ∧
    (l.foldl (fun m k => exitOne m (pk k)) m).live = m.live - (l.map fun k => poolBlk (pk k)).sum
  | [], m, _ => ⟨Ext.refl _, by simp⟩
  | a :: l, m, hP => by
    obtain ⟨e1, l1⟩ := exitOne_spec (hP a)
    have hP' : ∀ k, MPool.R (pk k).1 (exitOne m (pk a)) (pk k).2 ((exitOne m (pk a)).live - poolBlk (pk k)) :=
      fun k => R_transport (hP k) e1 (by omega)
    obtain ⟨e2, l2⟩ := exitParked_spec pk l _ hP'
    simp only [List.foldl_cons, List.map_cons, List.sum_cons]
    exact ⟨e1.trans e2, by rw [l2, l1]; omega⟩

/-- `mp_exit` (and the pool part of `end`): **every** pool — the one in use and the parked ones — frees its cache and
its stack, the harness the objects still in use; fresh pools; exactly `base` blocks stay allocated -/
theorem poolExit_spec {s : DsStep.S} {base : Int} (hR : PR s.mp s.m s.inUse s.mpSize s.parked base) :
    Ext s.m (poolExit s).m ∧ (poolExit s).m.live = base ∧
    PR (poolExit s).mp (poolExit s).m (poolExit s).inUse (poolExit s).mpSize (poolExit s).parked base ∧
    (poolExit s).ea = s.ea ∧ (poolExit s).eq = s.eq ∧ (poolExit s).sm = s.sm := by
  obtain ⟨e1, l1⟩ := exitOne_spec (pu := (s.mp, s.inUse)) hR.here
  have hP : ∀ k, MPool.R (s.parked k).1 (exitOne s.m (s.mp, s.inUse)) (s.parked k).2
      ((exitOne s.m (s.mp, s.inUse)).live - poolBlk (s.parked k)) :=
    fun k => R_transport (hR.parked k) e1 (by omega)
  obtain ⟨e2, l2⟩ := exitParked_spec s.parked (otherSizes s.mpSize) _ hP
  have hlive : (poolExit s).m.live = base := by
    simp only [poolExit]
    rw [l2, l1]; simp only [parkedBlk]; omega
  refine ⟨?_, hlive, ⟨?_, hR.size, fun k => init_parked_R _ k⟩, rfl, rfl, rfl⟩
  · simp only [poolExit]; exact e1.trans e2
  · have := MPool.init_R s.mpSize (poolExit s).m
    rw [hlive] at this
    show MPool.R (MPool.init s.mpSize) (poolExit s).m [] (base + parkedBlk s.mpSize fun k => (MPool.init k, []))
    rw [parkedBlk_init, Int.add_zero]
    exact this

theorem mp_exit_accept {n : Nat} {s : DsStep.S} {ms : Spec.DSMon.S} (h : Rel n s ms) : StepGoal n s ms .mpExit := by
  obtain ⟨hext, _, hR, h1, h2, h3⟩ := poolExit_spec h.mp
  unfold StepGoal
  simp only [stepOp, Out.ans]
  simp only [monStep]
  refine ⟨rfl, ⟨h.capped.ext hext, by rw [h1]; exact h.ea, by rw [h2]; exact h.eq,
    by rw [h3]; exact h.sm.mono (Nat.le_succ _), by rw [h1, h2, h3]; exact hR, rfl, h.inUse.2.1, fun _ => rfl⟩⟩

/-- `mp_init size` (one of the harness' pool sizes): the pools end like at `mp_exit`, a fresh pool of cache size
`size` is taken -/
theorem mp_init_accept {n : Nat} {s : DsStep.S} {ms : Spec.DSMon.S} (h : Rel n s ms) (size : Nat)
    (hok : poolSizes.contains size = true) : StepGoal n s ms (.mpInit size) := by
  obtain ⟨hext, hlive, _, h1, h2, h3⟩ := poolExit_spec h.mp
  have hR := MPool.init_R size (poolExit s).m
  rw [hlive] at hR
  unfold StepGoal
  simp only [stepOp, hok, Bool.not_true, Bool.false_eq_true, if_false, Out.ans]
  simp only [monStep]
  refine ⟨rfl, ⟨h.capped.ext hext, by rw [h1]; exact h.ea, by rw [h2]; exact h.eq,
    by rw [h3]; exact h.sm.mono (Nat.le_succ _), ⟨?_, hok, fun k => init_parked_R _ k⟩, rfl, rfl, fun _ => rfl⟩⟩
  show MPool.R (MPool.init size) (poolExit s).m []
    (eaBlk (poolExit s).ea + eqBlk (poolExit s).eq + smBlk (poolExit s).sm + parkedBlk size fun k => (MPool.init k, []))
  rw [parkedBlk_init, Int.add_zero, h1, h2, h3]
  exact hR

theorem mem_poolSizes {k : Nat} (h : poolSizes.contains k = true) : k = 1 ∨ k = 2 ∨ k = 3 ∨ k = 4 := by
  simpa [poolSizes] using h

/-- the accounting of a switch: the pool left joins the parked ones, the pool taken leaves them -/
theorem parkedBlk_swap {cur k : Nat} (hc : poolSizes.contains cur = true) (hk : poolSizes.contains k = true)
    (pk : Nat → MPool.MP × List Nat) (c : MPool.MP × List Nat) :
    parkedBlk k (fun j => if j = cur then c else pk j) + poolBlk ((fun j => if j = cur then c else pk j) k) =
      parkedBlk cur pk + poolBlk c := by
  rcases mem_poolSizes hc with rfl | rfl | rfl | rfl <;> rcases mem_poolSizes hk with rfl | rfl | rfl | rfl <;>
    simp [parkedBlk, otherSizes, poolSizes] <;> omega

/-- `mp_use size`: nothing is allocated or released; the pool taken satisfies the single-pool relation with the pool
left now among "the rest" -/
theorem mp_use_accept {n : Nat} {s : DsStep.S} {ms : Spec.DSMon.S} (h : Rel n s ms) (size : Nat)
    (hok : poolSizes.contains size = true) : StepGoal n s ms (.mpUse size) := by
  have hsw := parkedBlk_swap h.mp.size hok s.parked (s.mp, s.inUse)
  have hl := h.mp.here.live
  have hpk : ∀ j, MPool.R ((fun j => if j = s.mpSize then (s.mp, s.inUse) else s.parked j) j).1 s.m
      ((fun j => if j = s.mpSize then (s.mp, s.inUse) else s.parked j) j).2
      (s.m.live - poolBlk ((fun j => if j = s.mpSize then (s.mp, s.inUse) else s.parked j) j)) := by
    intro j
    by_cases hj : j = s.mpSize
    · simp only [hj, if_true]; exact R_self h.mp.here
    · simp only [hj, if_false]; exact h.mp.parked j
  obtain ⟨i1, i2, i3⟩ := h.inUse
  unfold StepGoal
  simp only [stepOp, hok, Bool.not_true, Bool.false_eq_true, if_false, Out.ans]
  simp only [monStep]
  refine ⟨rfl, ⟨h.capped, h.ea, h.eq, h.sm.mono (Nat.le_succ _), ⟨?_, hok, hpk⟩, ?_, rfl, ?_⟩⟩
  · refine R_transport (hpk size) (Ext.refl _) ?_
    simp only [poolBlk] at hsw hl ⊢
    omega
  · show (if size = ms.mpSize then ms.inUse else ms.parkedU size) =
      (if size = s.mpSize then (s.mp, s.inUse) else s.parked size).2
    rw [i2]; split
    · exact i1
    · exact i3 size
  · intro j
    show (if j = ms.mpSize then ms.inUse else ms.parkedU j) = (if j = s.mpSize then (s.mp, s.inUse) else s.parked j).2
    rw [i2]; split
    · exact i1
    · exact i3 j

def eaF (o : Option EArray.EA) (m : Mem) : Mem := match o with | some a => EArray.free a m | none => m
def eqF (o : Option EQueue.EQ) (m : Mem) : Mem := match o with | some q => EQueue.free q m | none => m
def smF (o : Option SeqMap.SM) (m : Mem) : Mem := match o with | some x => SeqMap.free x m | none => m

theorem eaF_spec (o : Option EArray.EA) (m : Mem) : Ext m (eaF o m) ∧ (eaF o m).live = m.live - eaBlk o := by
  cases o with
  | none => exact ⟨Ext.refl _, by simp [eaF, eaBlk]⟩
  | some a => exact ⟨ea_free_ext _ _, by simp only [eaF, eaBlk]; rw [EArray.free_live]; omega⟩
theorem eqF_spec (o : Option EQueue.EQ) (m : Mem) : Ext m (eqF o m) ∧ (eqF o m).live = m.live - eqBlk o := by
  cases o with
  | none => exact ⟨Ext.refl _, by simp [eqF, eqBlk]⟩
  | some a => exact ⟨eq_free_ext _ _, by simp only [eqF, eqBlk]; rw [EQueue.free_live]; omega⟩
theorem smF_spec (o : Option SeqMap.SM) (m : Mem) : Ext m (smF o m) ∧ (smF o m).live = m.live - smBlk o := by
  cases o with
  | none => exact ⟨Ext.refl _, by simp [smF, smBlk]⟩
  | some a => exact ⟨sm_free_ext _ _, by simp only [smF, smBlk]; rw [SeqMap.free_live]; omega⟩

theorem freeAll_eq (s : DsStep.S) :
    freeAll s = { s with m := smF s.sm (eqF s.eq (eaF s.ea s.m)), ea := none, eq := none, sm := none } := rfl

theorem freeAll_spec {n : Nat} {s : DsStep.S} {ms : Spec.DSMon.S} (h : Rel n s ms) :
    Ext s.m (freeAll s).m ∧ PR (freeAll s).mp (freeAll s).m (freeAll s).inUse (freeAll s).mpSize (freeAll s).parked 0 ∧
    (freeAll s).ea = none ∧ (freeAll s).eq = none ∧ (freeAll s).sm = none := by
  rw [freeAll_eq]
  have h1 := eaF_spec s.ea s.m
  have h2 := eqF_spec s.eq (eaF s.ea s.m)
  have h3 := smF_spec s.sm (eqF s.eq (eaF s.ea s.m))
  have hext := (h1.1.trans h2.1).trans h3.1
  refine ⟨hext, PR_transport h.mp hext ?_, rfl, rfl, rfl⟩
  simp only
  rw [h3.2, h2.2, h1.2]; omega

theorem end_accept {n : Nat} {s : DsStep.S} {ms : Spec.DSMon.S} (h : Rel n s ms) : StepGoal n s ms .end_ := by
  obtain ⟨hext1, hR1, e1, e2, e3⟩ := freeAll_spec h
  obtain ⟨hext2, hlive, hR2, f1, f2, f3⟩ := poolExit_spec hR1
  unfold StepGoal
  simp only [stepOp, Out.ans, hlive]
  simp only [monStep]
  refine ⟨rfl, ⟨h.capped.ext (hext1.trans hext2), by rw [f1, e1]; rfl, by rw [f2, e2]; rfl, by rw [f3, e3]; rfl, ?_, rfl, h.inUse.2.1, fun _ => rfl⟩⟩
  rw [f1, f2, f3, e1, e2, e3]
  exact hR2

theorem sched_capped (mode k base : Nat) (m : Mem) : Capped { m with f := sched mode k base } := by
  intro i sz hh
  simp only [sched, Bool.and_eq_true, decide_eq_true_eq] at hh
  exact hh.1.1

theorem fail_accept {n : Nat} {s : DsStep.S} {ms : Spec.DSMon.S} (h : Rel n s ms) (op : Op)
    (hop : match op with | .failat _ | .failfrom _ | .failoff => True | _ => False) : StepGoal n s ms op := by
  have hmp := h.mp
  cases op <;> simp only at hop <;> unfold StepGoal <;> simp only [stepOp, Out.ans, headOfWord] <;>
    simp only [monStep, okOr] <;>
    exact ⟨rfl, ⟨sched_capped _ _ _ _, h.ea, h.eq, h.sm.mono (Nat.le_succ _),
      ⟨⟨hmp.here.nodup, hmp.here.unodup, hmp.here.disj, hmp.here.sfresh, hmp.here.ufresh, hmp.here.slen, hmp.here.live⟩, hmp.size,
       fun k => ⟨(hmp.parked k).nodup, (hmp.parked k).unodup, (hmp.parked k).disj, (hmp.parked k).sfresh,
         (hmp.parked k).ufresh, (hmp.parked k).slen, (hmp.parked k).live⟩⟩, h.inUse⟩⟩

/-- **one protocol step**: from related states, for an operation the generators produce, after fewer than 2^63
operations: the monitor accepts the model's answer and the states are related again -/
theorem mon_step {n : Nat} {s : DsStep.S} {ms : Spec.DSMon.S} (h : Rel n s ms) (op : Op) (hok : OpOk op)
    (hn : (n : Int) < SeqMap.INT64_MAX) : StepGoal n s ms op := by
  cases op
  case failat k => exact fail_accept h _ trivial
  case failfrom k => exact fail_accept h _ trivial
  case failoff => exact fail_accept h _ trivial
  case end_ => exact end_accept h
  case mpMalloc => exact mp_malloc_accept h
  case mpFree x => exact mp_free_accept h x
  case mpFreenth j => exact mp_freenth_accept h j
  case mpExit => exact mp_exit_accept h
  case mpInit size => exact mp_init_accept h size hok
  case mpUse size => exact mp_use_accept h size hok
  case eqInit r => exact eq_family_accept h _ hok trivial
  case eqAdd seed => exact eq_family_accept h _ hok trivial
  case eqDel => exact eq_family_accept h _ hok trivial
  case eqLen => exact eq_family_accept h _ hok trivial
  case eqGet pos => exact eq_family_accept h _ hok trivial
  case eqSet pos seed => exact eq_family_accept h _ hok trivial
  case eqDump => exact eq_family_accept h _ hok trivial
  case eqFree => exact eq_family_accept h _ hok trivial
  case smInit => exact sm_family_accept h hn _ hok trivial
  case smAdd p => exact sm_family_accept h hn _ hok trivial
  case smGet i => exact sm_family_accept h hn _ hok trivial
  case smDel i => exact sm_family_accept h hn _ hok trivial
  case smMin => exact sm_family_accept h hn _ hok trivial
  case smFree => exact sm_family_accept h hn _ hok trivial
  all_goals exact ea_family_accept h _ hok trivial

/-! ## whole cases -/

/-- the monitor over a whole case: one verdict per (operation, answer) pair, as `pmodel dsmon` prints them -/
def monRun (ms : Spec.DSMon.S) : List (Op × Ans) → List Verdict
  | [] => []
  | (op, a) :: rest => (monStep ms op a).2 :: monRun (monStep ms op a).1 rest

/-- the monitor's state after a whole case -/
def monFinal (ms : Spec.DSMon.S) : List (Op × Ans) → Spec.DSMon.S
  | [] => ms
  | (op, a) :: rest => monFinal (monStep ms op a).1 rest

theorem mon_run (ops : List Op) : ∀ (n : Nat) (s : DsStep.S) (ms : Spec.DSMon.S), Rel n s ms →
    (∀ op ∈ ops, OpOk op) → ((n + ops.length : Nat) : Int) ≤ SeqMap.INT64_MAX →
    monRun ms (ops.zip ((runOps s ops).2.map Out.ans)) = List.replicate ops.length none ∧
    Rel (n + ops.length) (runOps s ops).1 (monFinal ms (ops.zip ((runOps s ops).2.map Out.ans))) := by
  induction ops with
  | nil => intro n s ms h _ _; exact ⟨rfl, h⟩
  | cons op ops ih =>
    intro n s ms h hok hn
    simp only [List.length_cons] at hn
    obtain ⟨hv, hr⟩ := mon_step h op (hok op List.mem_cons_self) (by omega)
    have ih' := ih (n + 1) (stepOp s op).1 _ hr (fun o ho => hok o (List.mem_cons_of_mem _ ho)) (by omega)
    simp only [runOps, List.map_cons, List.zip_cons_cons, monRun, monFinal, List.length_cons, List.replicate_succ, hv]
    refine ⟨by rw [ih'.1], ?_⟩
    have : n + (ops.length + 1) = n + 1 + ops.length := by omega
    rw [this]; exact ih'.2

/-- a case through every family: failures scheduled, re-initialisation, skips, export, pool exit, `end` -/
def demoOps : List Op :=
  [.eaInit 3 4 9, .eaAppend 2 3 5, .eaGet 1 4, .eaGet 99 4, .eaResize 1 2 3, .eaDump, .eaDup 1, .eaShrink 1 1,
   .eaTrunc, .eaSet 0 1 7, .eaGetsize 2, .eaExport 1, .eaFree,
   .eqInit 3, .eqAdd 1, .eqAdd 2, .eqGet 1, .eqGet 5, .eqSet 0 9, .eqSet 7 9, .eqDel, .eqLen, .eqDump, .eqFree,
   .smInit, .smAdd 5, .smAdd 6, .smDel 0, .smMin, .smGet 1, .smGet 0, .failfrom 1, .smAdd 7, .failoff, .smFree,
   .mpMalloc, .mpMalloc, .mpFree 0, .mpFree 99, .mpMalloc, .eaInit 2 2 1, .failat 1, .eqInit 2, .mpExit, .end_]

/-! ## whole runs of one family: the component follows `EQueue.run` / `SeqMap.run` -/

theorem eq_step_reclen (q : EQueue.EQ) (e : EqOp) (m : Mem) : (EQueue.step q e m).2.1.reclen = q.reclen := by
  cases e with
  | add rec =>
    simp only [EQueue.step, EQueue.add]
    rcases EArray.append q.ea rec 1 q.reclen m with ⟨st, a, m'⟩
    cases st <;> rfl
  | delete =>
    simp only [EQueue.step, EQueue.delete]
    split
    · rfl
    · split
      · split <;> rfl
      · rfl
  | getlen => rfl
  | get pos => simp only [EQueue.step]; split <;> rfl
  | set pos rec =>
    simp only [EQueue.step]
    split
    · rename_i q' hq
      unfold EQueue.set at hq
      split at hq
      · cases hq
      · simp only [Option.map_eq_some_iff] at hq
        obtain ⟨a, _, rfl⟩ := hq; rfl
    · rfl

/-- a sequence of `eq_add` / `eq_del` / `eq_len` / `eq_get` / `eq_set` lines on an existing queue: the queue and the
oracle of the executable's state are those of `EQueue.run` over the projected operations (as long as no step reports
an access outside storage, which `eq_run_refines` excludes) -/
theorem eq_runOps (ops : List Op) : ∀ (s : DsStep.S) (q : EQueue.EQ), s.eq = some q →
    (∀ op ∈ ops, (eqOpOf q.reclen.val op).isSome) →
    (∀ x ∈ (EQueue.run q (ops.filterMap (eqOpOf q.reclen.val)) s.m).1, x.2.st ≠ .oob) →
    (runOps s ops).1.eq = some (EQueue.run q (ops.filterMap (eqOpOf q.reclen.val)) s.m).2.1 ∧
    (runOps s ops).1.m = (EQueue.run q (ops.filterMap (eqOpOf q.reclen.val)) s.m).2.2 := by
  induction ops with
  | nil => intro s q hs _ _; exact ⟨hs, rfl⟩
  | cons op rest ih =>
    intro s q hs hall hno
    have hsome := hall op List.mem_cons_self
    obtain ⟨e, he⟩ := Option.isSome_iff_exists.1 hsome
    simp only [List.filterMap_cons, he, EQueue.run] at hno ⊢
    have hrl := eq_step_reclen q e s.m
    have hstep := eq_stepOp s q hs op e he
    rcases hst : EQueue.step q e s.m with ⟨an, q', m'⟩
    rw [hst] at hno hrl hstep
    simp only at hno hrl hstep ⊢
    have hstep' := hstep (by
      apply hno (e, an)
      rcases EQueue.run q' (List.filterMap (eqOpOf q.reclen.val) rest) m' with ⟨tr, q'', m''⟩
      exact List.mem_cons_self)
    simp only [runOps, hstep']
    have := ih { s with m := m', eq := some q' } q' rfl
      (by rw [hrl]; exact fun o ho => hall o (List.mem_cons_of_mem _ ho))
      (by
        rw [hrl]
        intro x hx
        apply hno x
        have hx' : x ∈ (EQueue.run q' (List.filterMap (eqOpOf q.reclen.val) rest) m').1 := hx
        revert hx'
        rcases EQueue.run q' (List.filterMap (eqOpOf q.reclen.val) rest) m' with ⟨tr, q'', m''⟩
        exact fun hx' => List.mem_cons_of_mem _ hx')
    rw [hrl] at this
    rcases hr : EQueue.run q' (List.filterMap (eqOpOf q.reclen.val) rest) m' with ⟨tr, q'', m''⟩
    rw [hr] at this
    exact this

end Percival.Proofs.DsStep
