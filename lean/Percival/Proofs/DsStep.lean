import Percival.Model.DsStep
import Percival.Proofs.EArrayStep
import Percival.Proofs.EQueue
import Percival.Proofs.SeqMap
import Percival.Proofs.MPool
/-!
# `Model.DsStep.stepOp` (the function `pmodel ds` runs) = the proved step functions (C12, C14)

For each family of protocol operations: the container operation a protocol line stands for (`eaOpOf`, `eqOpOf`,
`smOpOf`, `mpOpOf`), the typed output built from the container step's observable answer (`eaOutOf`, …) and the
equation `stepOp s op = (state with the component replaced by the step's, that output)`.  What `stepOp` adds to
the container step is visible in these definitions and nowhere else:

* the caller's data are `patBytes seed n` (for `ea_resize`: the bytes written into the grown part; for an
  `ea_append` no allocation can hold: a one-byte dummy buffer);
* `rf` / `req` / `live` are read off the allocation oracle before and after the step;
* after a successful `ea_dup` the harness frees the copy; `mp_malloc` / `mp_free` keep the harness' list of objects in use;
* an access the container step reports as out of contract (`oob`) on `ea_get` / `ea_set` / `eq_set` beyond the end
  is the protocol answer `skip`; on the other operations it is the answer `oob` (never reached from a state that
  satisfies the containers' invariants: `C12.ea_step_refines` …);
* a failed `assert` of `seqptrmap_add` is the answer `assert` and leaves the protocol state alone.
-/
namespace Percival.Proofs.DsStep
open Percival.Model Percival.Model.DsStep Percival.Spec.DS Percival.Spec.DSMon
open Percival.Proofs.EArray

/-! ## elastic array -/

/-- the array operation a protocol line stands for, on an array that holds `size` bytes; `none`: not one of the
eight operations of `EArray.step`, or record length 0 -/
def eaOpOf (size : Nat) : Op → Option EaOp
  | .eaResize n reclen seed => (mkRecLen reclen).map fun r => .resize n r (patBytes seed (n * r.val - size))
  | .eaAppend n reclen seed => (mkRecLen reclen).map fun r =>
      .append (if n ≤ dataMax / r.val then patBytes seed (n * r.val) else [0]) n r
  | .eaShrink n reclen => (mkRecLen reclen).map fun r => .shrink n r
  | .eaTrunc => some .truncate
  | .eaGet pos reclen => (mkRecLen reclen).map fun r => .get pos r
  | .eaSet pos reclen seed => (mkRecLen reclen).map fun r => .set pos r (patBytes seed r.val)
  | .eaGetsize reclen => (mkRecLen reclen).map fun r => .getsize r
  | .eaDup reclen => (mkRecLen reclen).map fun r => .exportdup r
  | _ => none

/-- the oracle after the harness' own frees: the copy made by a successful `exportdup` -/
def eaHarnessFree (e : EaOp) (an : EaAns) (m' : Mem) : Mem :=
  match e, an.st, an.out with
  | .exportdup _, .ok, some _ => m'.free false
  | _, _, _ => m'

/-- the printed line for an observed array answer (`m`: oracle before, `m'` after the step, `mEnd` after the
harness' frees) -/
def eaOutOf (an : EaAns) (m m' mEnd : Mem) : Out :=
  .ea an.st an.size an.alloc (rf m m') (an.out.map fun p => (p.2, p.1)) (l2c m mEnd)

theorem S_eta (s : DsStep.S) (a : EArray.EA) (hs : s.ea = some a) : { s with m := s.m, ea := some a } = s := by
  cases s; simp only at hs; subst hs; rfl

theorem resize_size (a : EArray.EA) (n : Nat) (m : Mem) (h : (EArray.resize a n m).1 = true) :
    (EArray.resize a n m).2.1.size = n := by
  unfold EArray.resize at h ⊢
  simp only at h ⊢
  by_cases h0 : EArray.wantAlloc a.alloc n = 0
  · simp [h0]
  · by_cases h1 : EArray.wantAlloc a.alloc n ≠ a.alloc
    · rw [if_neg h0, if_pos h1] at h ⊢
      cases hr : (m.realloc (a.alloc == 0) (EArray.wantAlloc a.alloc n)).1
      · rw [pair_eta _ hr] at h; simp at h
      · rw [pair_eta _ hr]
    · simp [h0, h1]

theorem resizeRec_size (a : EArray.EA) (n : Nat) (r : RecLen) (m : Mem) (h : (EArray.resizeRec a n r m).1 = true) :
    (EArray.resizeRec a n r m).2.1.size = n * r.val := by
  unfold EArray.resizeRec at h ⊢
  by_cases hg : n > EArray.SIZE_MAX / r.val
  · simp [hg] at h
  · simp only [hg, if_false] at h ⊢
    have hle : n * r.val ≤ EArray.SIZE_MAX := by
      have : ¬ n * r.val > EArray.SIZE_MAX := fun h' => hg ((guard_iff n r).2 h')
      omega
    have hmod : n * r.val % EArray.SZ = n * r.val := Nat.mod_eq_of_lt (by simp only [SZ_eq, SIZE_MAX_eq] at *; omega)
    rw [hmod] at h ⊢
    exact resize_size a _ m h

/-- **the eight array operations of the protocol are `EArray.step`** on the array component (when the step
does not report an access outside storage) -/
theorem ea_stepOp (s : DsStep.S) (a : EArray.EA) (hs : s.ea = some a) (op : Op) (e : EaOp)
    (he : eaOpOf a.size op = some e) (hno : (EArray.step a e s.m).1.st ≠ .oob) :
    stepOp s op =
      ({ s with m := eaHarnessFree e (EArray.step a e s.m).1 (EArray.step a e s.m).2.2,
                ea := some (EArray.step a e s.m).2.1 },
       eaOutOf (EArray.step a e s.m).1 s.m (EArray.step a e s.m).2.2
         (eaHarnessFree e (EArray.step a e s.m).1 (EArray.step a e s.m).2.2)) := by
  revert hno
  cases op <;> simp only [eaOpOf, Option.map_eq_some_iff, reduceCtorEq] at he
  case eaResize n reclen seed =>
    obtain ⟨r, hr, rfl⟩ := he
    simp only [stepOp, onEa, hs, hr, EArray.step]
    have hsz := resizeRec_size a n r s.m
    rcases hres : EArray.resizeRec a n r s.m with ⟨ok, a', m'⟩
    rw [hres] at hsz
    cases ok
    · simp [eaHarnessFree, eaOutOf, eaOut, EArray.ans]
    · simp only at hsz ⊢
      rw [hsz trivial]
      cases hf : EArray.fillFrom a' a.size (patBytes seed (n * r.val - a.size))
      · simp [EArray.ans]
      · simp [eaHarnessFree, eaOutOf, eaOut, EArray.ans]
  case eaAppend n reclen seed =>
    obtain ⟨r, hr, rfl⟩ := he
    simp only [stepOp, onEa, hs, hr, EArray.step]
    rcases hres : EArray.append a (if n ≤ dataMax / r.val then patBytes seed (n * r.val) else [0]) n r s.m with ⟨st, a', m'⟩
    simp [eaHarnessFree, eaOutOf, eaOut, EArray.ans]
  case eaShrink n reclen =>
    obtain ⟨r, hr, rfl⟩ := he
    simp only [stepOp, onEa, hs, hr, EArray.step]
    rcases hres : EArray.shrink a n r s.m with ⟨a', m'⟩
    simp [eaHarnessFree, eaOutOf, eaOut, EArray.ans]
  case eaTrunc =>
    cases he
    simp only [stepOp, onEa, hs, EArray.step]
    rcases hres : EArray.truncate a s.m with ⟨ok, a', m'⟩
    cases ok <;> simp [eaHarnessFree, eaOutOf, eaOut, EArray.ans]
  case eaGet pos reclen =>
    obtain ⟨r, hr, rfl⟩ := he
    simp only [stepOp, onEa, hs, hr, EArray.step]
    cases hg : EArray.getRec a pos r
    · simp [EArray.ans]
    · intro _
      simp [eaHarnessFree, eaOutOf, eaOut, EArray.ans, S_eta s a hs]
  case eaSet pos reclen seed =>
    obtain ⟨r, hr, rfl⟩ := he
    simp only [stepOp, onEa, hs, hr, EArray.step]
    cases hg : EArray.setRec a pos r (patBytes seed r.val)
    · simp [EArray.ans]
    · simp [eaHarnessFree, eaOutOf, eaOut, EArray.ans]
  case eaGetsize reclen =>
    obtain ⟨r, hr, rfl⟩ := he
    simp only [stepOp, onEa, hs, hr, EArray.step]
    simp [eaHarnessFree, eaOutOf, eaOut, EArray.ans, S_eta s a hs]
  case eaDup reclen =>
    obtain ⟨r, hr, rfl⟩ := he
    simp only [stepOp, onEa, hs, hr, EArray.step]
    intro _
    unfold EArray.exportdup
    cases hm : (s.m.malloc a.size).1
    · rw [pair_eta _ hm]; simp [eaHarnessFree, eaOutOf, eaOut, EArray.ans]
    · rw [pair_eta _ hm]
      cases hrd : EArray.readAt a.buf 0 a.size <;> simp [eaHarnessFree, eaOutOf, eaOut, EArray.ans]

/-- `ea_get` / `ea_set` of a record that is not inside the contents: the answer is `skip`, nothing changes -/
theorem ea_stepOp_skip (s : DsStep.S) (a : EArray.EA) (hs : s.ea = some a) (pos reclen seed : Nat) (r : RecLen)
    (hr : mkRecLen reclen = some r) :
    ((EArray.step a (.get pos r) s.m).1.st = .oob → stepOp s (.eaGet pos reclen) = (s, .word .skip)) ∧
    ((EArray.step a (.set pos r (patBytes seed r.val)) s.m).1.st = .oob →
      stepOp s (.eaSet pos reclen seed) = (s, .word .skip)) := by
  constructor
  · simp only [stepOp, onEa, hs, hr, EArray.step]
    cases hg : EArray.getRec a pos r <;> simp [EArray.ans]
  · simp only [stepOp, onEa, hs, hr, EArray.step]
    cases hg : EArray.setRec a pos r (patBytes seed r.val) <;> simp [EArray.ans]

/-! ## elastic queue -/

/-- the queue operation a protocol line stands for, on a queue of `reclen`-byte records -/
def eqOpOf (reclen : Nat) : Op → Option EqOp
  | .eqAdd seed => some (.add (patBytes seed reclen))
  | .eqDel => some .delete
  | .eqLen => some .getlen
  | .eqGet pos => some (.get pos)
  | .eqSet pos seed => some (.set pos (patBytes seed reclen))
  | _ => none

/-- what the line shows of the record seen through `elasticqueue_get` -/
def eqExtraOf (e : EqOp) (an : EqAns) : EqExtra :=
  match e, an.got with
  | .get _, none => .null
  | _, some b => .record b
  | _, none => .none

def eqOutOf (e : EqOp) (an : EqAns) (q' : EQueue.EQ) (m m' : Mem) : Out :=
  .eq an.st an.len (rf m m') (eqExtraOf e an) (eqL2 q' m m')

theorem rf_self (m : Mem) : rf m m = 0 := by simp [rf]

/-- **the five queue operations of the protocol are `EQueue.step`** on the queue component -/
theorem eq_stepOp (s : DsStep.S) (q : EQueue.EQ) (hs : s.eq = some q) (op : Op) (e : EqOp)
    (he : eqOpOf q.reclen.val op = some e) (hno : (EQueue.step q e s.m).1.st ≠ .oob) :
    stepOp s op =
      ({ s with m := (EQueue.step q e s.m).2.2, eq := some (EQueue.step q e s.m).2.1 },
       eqOutOf e (EQueue.step q e s.m).1 (EQueue.step q e s.m).2.1 s.m (EQueue.step q e s.m).2.2) := by
  have eta : { s with m := s.m, eq := some q } = s := by cases s; simp only at hs; subst hs; rfl
  revert hno
  cases op <;> simp only [eqOpOf, Option.some.injEq, reduceCtorEq] at he <;> subst he
  case eqAdd seed =>
    simp only [stepOp, hs, EQueue.step]
    rcases hres : EQueue.add q (patBytes seed q.reclen.val) s.m with ⟨st, q', m'⟩
    simp [eqOutOf, eqExtraOf, EQueue.ans]
  case eqDel =>
    simp only [stepOp, hs, EQueue.step]
    rcases hres : EQueue.delete q s.m with ⟨st, q', m'⟩
    simp [eqOutOf, eqExtraOf, EQueue.ans]
  case eqLen =>
    simp [stepOp, hs, EQueue.step, eqOutOf, eqExtraOf, EQueue.ans, rf_self, eta, EQueue.getlen]
  case eqGet pos =>
    simp only [stepOp, hs, EQueue.step]
    cases hg : EQueue.get q pos <;> simp [eqOutOf, eqExtraOf, EQueue.ans, rf_self, eta]
  case eqSet pos seed =>
    simp only [stepOp, hs, EQueue.step]
    by_cases hp : pos ≥ q.len
    · simp [EQueue.set, hp, EQueue.ans]
    · simp only [hp, if_false]
      cases hg : EQueue.set q pos (patBytes seed q.reclen.val) <;> simp [eqOutOf, eqExtraOf, EQueue.ans, rf_self]

/-- an access `EQueue.step` reports as outside storage: `eq_set` beyond the end is answered `skip`, anything else
`oob`; nothing changes -/
theorem eq_stepOp_oob (s : DsStep.S) (q : EQueue.EQ) (hs : s.eq = some q) (pos seed : Nat) :
    ((EQueue.step q (.get pos) s.m).1.st = .oob → stepOp s (.eqGet pos) = (s, .word .oob)) ∧
    ((EQueue.step q (.set pos (patBytes seed q.reclen.val)) s.m).1.st = .oob →
      stepOp s (.eqSet pos seed) = (s, .word (if pos ≥ q.len then .skip else .oob))) := by
  constructor
  · simp only [stepOp, hs, EQueue.step]
    cases hg : EQueue.get q pos <;> simp [EQueue.ans]
  · simp only [stepOp, hs, EQueue.step]
    by_cases hp : pos ≥ q.len
    · simp [hp]
    · simp only [hp, if_false]
      cases hg : EQueue.set q pos (patBytes seed q.reclen.val) <;> simp [EQueue.ans]

/-! ## sequential pointer map -/

def smOpOf : Op → Option SmOp
  | .smAdd p => some (.add p)
  | .smGet i => some (.get i)
  | .smDel i => some (.delete i)
  | .smMin => some .getmin
  | _ => none

/-- the line shows `num=` for `add` and `getmin`, `ptr=` for `get` -/
def smOutOf (e : SmOp) (an : SmAns) (x' : SeqMap.SM) (m m' : Mem) : Out :=
  .sm an.st (rf m m')
    (match e with | .add _ | .getmin => some an.num | _ => none)
    (match e with | .get _ => some an.ptr | _ => none)
    (smL2 x' m m')

/-- **the four map operations of the protocol are `SeqMap.step`** on the map component -/
theorem sm_stepOp (s : DsStep.S) (x : SeqMap.SM) (hs : s.sm = some x) (op : Op) (e : SmOp)
    (he : smOpOf op = some e) (hno : (SeqMap.step x e s.m).1.st ≠ .oob) :
    stepOp s op =
      ({ s with m := (SeqMap.step x e s.m).2.2, sm := some (SeqMap.step x e s.m).2.1 },
       smOutOf e (SeqMap.step x e s.m).1 (SeqMap.step x e s.m).2.1 s.m (SeqMap.step x e s.m).2.2) := by
  have eta : { s with m := s.m, sm := some x } = s := by cases s; simp only at hs; subst hs; rfl
  revert hno
  cases op <;> simp only [smOpOf, Option.some.injEq, reduceCtorEq] at he <;> subst he
  case smAdd p =>
    simp only [stepOp, hs, SeqMap.step]
    rcases hres : SeqMap.add x p s.m with ⟨r, x', m'⟩
    cases r <;> simp [smOutOf, SeqMap.ans]
  case smGet i =>
    simp only [stepOp, hs, SeqMap.step]
    cases hg : SeqMap.get x i <;> simp [smOutOf, SeqMap.ans, rf_self, eta]
  case smDel i =>
    simp only [stepOp, hs, SeqMap.step]
    rcases hres : SeqMap.delete x i s.m with ⟨st, x', m'⟩
    simp [smOutOf, SeqMap.ans]
  case smMin =>
    simp [stepOp, hs, SeqMap.step, smOutOf, SeqMap.ans, rf_self, eta]

/-- where `SeqMap.step` answers `oob` on `add` / `get` (an `assert` of `seqptrmap_add` fired, or an access outside
storage), the protocol answer is the word `assert` / `oob` and the protocol state is left alone -/
theorem sm_stepOp_oob (s : DsStep.S) (x : SeqMap.SM) (hs : s.sm = some x) (p : Nat) (i : Int) :
    ((SeqMap.step x (.add p) s.m).1.st = .oob →
      stepOp s (.smAdd p) = (s, .word (if (SeqMap.add x p s.m).1 = .assertFail then .assert else .oob))) ∧
    ((SeqMap.step x (.get i) s.m).1.st = .oob → stepOp s (.smGet i) = (s, .word .oob)) := by
  constructor
  · simp only [stepOp, hs, SeqMap.step]
    rcases hres : SeqMap.add x p s.m with ⟨r, x', m'⟩
    cases r <;> simp [SeqMap.ans]
  · simp only [stepOp, hs, SeqMap.step]
    cases hg : SeqMap.get x i <;> simp [SeqMap.ans]

/-! ## object pool -/

/-- the pool operation a protocol line stands for when `inUse` are the objects the harness holds: `mp_free` of an
object it does not hold and `mp_freenth` with nothing held are no pool operation (answer `skip`) -/
def mpOpOf (inUse : List Nat) : Op → Option MpOp
  | .mpMalloc => some .malloc
  | .mpFree x => if inUse.contains x then some (.free x) else none
  | .mpFreenth j => (inUse.mergeSort (· ≤ ·))[j % (inUse.mergeSort (· ≤ ·)).length]?.map .free
  | _ => none

/-- the harness' list of objects in use after the pool step -/
def mpInUse (inUse : List Nat) (e : MpOp) (an : MpAns) : List Nat :=
  match e, an.obj with
  | .malloc, some x => x :: inUse
  | .malloc, none => inUse
  | .free x, _ => inUse.erase x

/-- what the line shows of the object: the one handed out, `null`, the one `mp_freenth` chose -/
def mpObjOf (op : Op) (e : MpOp) (an : MpAns) : MpObj :=
  match op, e, an.obj with
  | .mpMalloc, _, some x => .obj x
  | .mpMalloc, _, none => .null
  | .mpFreenth _, .free x, _ => .obj x
  | _, _, _ => .none

/-- **`mp_malloc` / `mp_free` / `mp_freenth` are `MPool.step`** (objects of `objSize` bytes) on the pool component -/
theorem mp_stepOp (s : DsStep.S) (op : Op) (e : MpOp) (he : mpOpOf s.inUse op = some e) :
    stepOp s op =
      ({ s with m := (MPool.step objSize s.mp e s.m).2.2, mp := (MPool.step objSize s.mp e s.m).2.1,
                inUse := mpInUse s.inUse e (MPool.step objSize s.mp e s.m).1 },
       .mp (rf s.m (MPool.step objSize s.mp e s.m).2.2) (mpObjOf op e (MPool.step objSize s.mp e s.m).1)
          (mpL2 (MPool.step objSize s.mp e s.m).2.1 s.m (MPool.step objSize s.mp e s.m).2.2)) := by
  cases op <;> simp only [mpOpOf, Option.some.injEq, reduceCtorEq] at he
  case mpMalloc =>
    subst he
    simp only [stepOp, MPool.step]
    rcases hres : MPool.malloc s.mp objSize s.m with ⟨o, p', m'⟩
    cases o <;> simp [mpInUse, mpObjOf]
  case mpFree x =>
    split at he
    · rename_i hx
      cases he
      simp only [stepOp, MPool.step, hx]
      rcases hres : MPool.free s.mp x s.m with ⟨p', m'⟩
      simp [mpInUse, mpObjOf]
    · cases he
  case mpFreenth j =>
    simp only [Option.map_eq_some_iff] at he
    obtain ⟨x, hx, rfl⟩ := he
    simp only [stepOp, MPool.step, hx]
    rcases hres : MPool.free s.mp x s.m with ⟨p', m'⟩
    simp [mpInUse, mpObjOf]

/-- the pool lines that are no pool operation -/
theorem mp_stepOp_skip (s : DsStep.S) (op : Op) (hop : ∃ x, op = .mpFree x ∨ op = .mpFreenth x)
    (he : mpOpOf s.inUse op = none) : stepOp s op = (s, .word .skip) := by
  obtain ⟨x, rfl | rfl⟩ := hop
  · simp only [mpOpOf] at he
    split at he
    · cases he
    · rename_i hx; simp only [stepOp, hx]; simp
  · simp only [mpOpOf, Option.map_eq_none_iff] at he
    simp only [stepOp, he]

end Percival.Proofs.DsStep
