import Percival.Proofs.EArrayStep
import Percival.Model.EQueue
/-!
# Helper lemmas for the elastic-queue model (C12, C14)
-/
namespace Percival.Proofs.EQueue
open Percival.Model Percival.Model.EArray Percival.Model.EQueue Percival.Spec.DS
open Percival.Proofs.EArray

/-! ### `chunks` -/

theorem chunks_length (r : Nat) : ∀ (n : Nat) (l : List UInt8), (chunks r n l).length = n
  | 0, _ => rfl
  | n+1, l => by simp [chunks, chunks_length r n]

theorem chunks_append (r : Nat) (rec : List UInt8) (hr : rec.length = r) :
    ∀ (n : Nat) (l : List UInt8), l.length = n * r → chunks r (n+1) (l ++ rec) = chunks r n l ++ [rec]
  | 0, l, hl => by
    have : l = [] := List.eq_nil_of_length_eq_zero (by simpa using hl)
    subst this
    simp [chunks, ← hr]
  | n+1, l, hl => by
    have hl' : l.length = n * r + r := by rw [hl, Nat.succ_mul]
    have ih := chunks_append r rec hr n (l.drop r) (by rw [List.length_drop]; omega)
    show (l ++ rec).take r :: chunks r (n+1) ((l ++ rec).drop r) = (l.take r :: chunks r n (l.drop r)) ++ [rec]
    rw [List.take_append_of_le_length (by omega), List.drop_append_of_le_length (by omega), ih]
    rfl

/-- only the first `n * r` bytes matter -/
theorem chunks_take (r : Nat) : ∀ (n : Nat) (l : List UInt8) (k : Nat), n * r ≤ k → chunks r n (l.take k) = chunks r n l
  | 0, _, _, _ => rfl
  | n+1, l, k, hk => by
    have hk' : n * r + r ≤ k := by rw [← Nat.succ_mul]; exact hk
    show (l.take k).take r :: chunks r n ((l.take k).drop r) = l.take r :: chunks r n (l.drop r)
    rw [List.take_take, Nat.min_eq_left (by omega), List.drop_take, chunks_take r n (l.drop r) (k - r) (by omega)]

theorem chunks_getElem? (r : Nat) : ∀ (n : Nat) (l : List UInt8) (pos : Nat),
    (chunks r n l)[pos]? = if pos < n then some ((l.drop (pos * r)).take r) else none
  | 0, _, pos => by simp [chunks]
  | n+1, l, 0 => by simp [chunks]
  | n+1, l, pos+1 => by
    show (chunks r n (l.drop r))[pos]? = _
    rw [chunks_getElem? r n (l.drop r) pos, List.drop_drop, Nat.succ_mul]
    by_cases h : pos < n <;> simp [h, Nat.add_comm]

theorem chunks_set (r : Nat) (rec : List UInt8) (hr : rec.length = r) : ∀ (n : Nat) (l : List UInt8) (pos : Nat),
    pos < n → n * r ≤ l.length →
    (chunks r n l).set pos rec = chunks r n (l.take (pos * r) ++ rec ++ l.drop (pos * r + r))
  | 0, _, _, h, _ => by omega
  | n+1, l, 0, _, hl => by
    have hl' : n * r + r ≤ l.length := by rw [← Nat.succ_mul]; exact hl
    simp only [chunks, List.set_cons_zero, Nat.zero_mul, List.take_zero, List.nil_append, Nat.zero_add]
    rw [List.take_append_of_le_length (by omega), List.drop_append_of_le_length (by omega)]
    simp [← hr]
  | n+1, l, pos+1, hp, hl => by
    have hl' : n * r + r ≤ l.length := by rw [← Nat.succ_mul]; exact hl
    have hp' : pos * r + r ≤ n * r := by rw [← Nat.succ_mul]; exact Nat.mul_le_mul_right r (by omega)
    have ih := chunks_set r rec hr n (l.drop r) pos (by omega) (by rw [List.length_drop]; omega)
    simp only [chunks, List.set_cons_succ, ih]
    have e : (pos + 1) * r = r + pos * r := by rw [Nat.succ_mul, Nat.add_comm]
    rw [e]
    have h1 : (l.take (r + pos * r) ++ rec ++ l.drop (r + pos * r + r)).take r = l.take r := by
      rw [List.append_assoc, List.take_append_of_le_length (by rw [List.length_take]; omega), List.take_take]
      congr 1; omega
    have h2 : (l.take (r + pos * r) ++ rec ++ l.drop (r + pos * r + r)).drop r
        = (l.drop r).take (pos * r) ++ rec ++ (l.drop r).drop (pos * r + r) := by
      rw [List.append_assoc, List.drop_append_of_le_length (by rw [List.length_take]; omega), List.drop_take,
        List.drop_drop, List.append_assoc]
      congr 2
      · congr 1; omega
      · congr 1; omega
    rw [h1, h2]

/-! ### reading and writing records, in byte offsets -/

theorem getRec_eq (a : EA) (pos : Nat) (r : RecLen) (h : Inv a) (hc : pos * r.val + r.val ≤ a.size) :
    getRec a pos r = some ((a.buf.drop (pos * r.val)).take r.val) := by
  have := h.le; have := h.len
  unfold getRec
  rw [if_pos hc, readAt_some (by omega)]

theorem setRec_eq (a : EA) (pos : Nat) (r : RecLen) (rec : List UInt8) (h : Inv a)
    (hc : pos * r.val + r.val ≤ a.size) (hr : rec.length = r.val) :
    setRec a pos r rec = some { a with buf := a.buf.take (pos * r.val) ++ rec ++ a.buf.drop (pos * r.val + r.val) } := by
  have := h.le; have := h.len
  unfold setRec
  rw [if_pos ⟨hc, hr⟩, writeAt_some (by omega), hr]; rfl

/-- the copy loop of `elasticqueue_delete`: `n` records starting at record `i + off` end up at record `i`;
nothing else moves, no access leaves the contents -/
theorem moveLoop_spec (r : RecLen) (off : Nat) : ∀ (n i : Nat) (a : EA), Inv a → i + n < off →
    (off + i + n) * r.val ≤ a.size →
    ∃ a', moveLoop r off n i a = some a' ∧ a'.size = a.size ∧ a'.alloc = a.alloc ∧ Inv a' ∧
      a'.buf = a.buf.take (i * r.val) ++ (a.buf.drop ((i + off) * r.val)).take (n * r.val) ++ a.buf.drop ((i + n) * r.val)
  | 0, i, a, h, _, _ => ⟨a, rfl, rfl, rfl, h, by simp⟩
  | n+1, i, a, h, hlt, hsz => by
    have hle := h.le; have hlen := h.len
    have hr := r.property
    -- all offsets as linear expressions in I = i*r, O = off*r, N = n*r
    have e1 : (off + i + (n + 1)) * r.val = off * r.val + i * r.val + n * r.val + r.val := by
      simp only [Nat.add_mul, Nat.one_mul]; omega
    have e2 : (i + off) * r.val = i * r.val + off * r.val := Nat.add_mul _ _ _
    have e3 : (i + (n + 1)) * r.val = i * r.val + n * r.val + r.val := by simp only [Nat.add_mul, Nat.one_mul]; omega
    have e4 : (n + 1) * r.val = r.val + n * r.val := by rw [Nat.succ_mul, Nat.add_comm]
    have e5 : (i + 1) * r.val = i * r.val + r.val := Nat.succ_mul _ _
    have e6 : (i + 1 + off) * r.val = i * r.val + r.val + off * r.val := by simp only [Nat.add_mul, Nat.one_mul]
    have e7 : (i + 1 + n) * r.val = i * r.val + n * r.val + r.val := by simp only [Nat.add_mul, Nat.one_mul]; omega
    have e8 : (off + (i + 1) + n) * r.val = off * r.val + i * r.val + n * r.val + r.val := by
      simp only [Nat.add_mul, Nat.one_mul]; omega
    have hIO : i * r.val + n * r.val + r.val ≤ off * r.val := by
      have : (i + n + 1) * r.val ≤ off * r.val := Nat.mul_le_mul_right _ (by omega)
      simp only [Nat.add_mul, Nat.one_mul] at this; exact this
    have hget := getRec_eq a (i + off) r h (by rw [e2]; rw [e1] at hsz; omega)
    have hreclen : ((a.buf.drop ((i + off) * r.val)).take r.val).length = r.val := by
      rw [List.length_take, List.length_drop, e2]; rw [e1] at hsz; omega
    have hset := setRec_eq a i r _ h (by rw [e1] at hsz; omega) hreclen
    let a1 : EA := { a with buf := a.buf.take (i * r.val) ++ (a.buf.drop ((i + off) * r.val)).take r.val
                              ++ a.buf.drop (i * r.val + r.val) }
    have hinv1 : Inv a1 := ⟨hle, by
      show (a.buf.take (i * r.val) ++ (a.buf.drop ((i + off) * r.val)).take r.val ++ a.buf.drop (i * r.val + r.val)).length = a.alloc
      rw [List.length_append, List.length_append, hreclen, List.length_take, List.length_drop]
      rw [e1] at hsz; omega, h.lt⟩
    obtain ⟨a', hml, hs1, hs2, hinv', hbuf⟩ := moveLoop_spec r off n (i + 1) a1 hinv1 (by omega) (by rw [e8]; rw [e1] at hsz; exact hsz)
    refine ⟨a', ?_, hs1, hs2, hinv', ?_⟩
    · show (match getRec a (i + off) r with
        | none => none
        | some rec => match setRec a i r rec with
          | none => none
          | some a' => moveLoop r off n (i + 1) a') = some a'
      rw [hget]; simp only; rw [hset]; exact hml
    · rw [hbuf]
      show (a.buf.take (i * r.val) ++ (a.buf.drop ((i + off) * r.val)).take r.val ++ a.buf.drop (i * r.val + r.val)).take ((i + 1) * r.val)
          ++ ((a.buf.take (i * r.val) ++ (a.buf.drop ((i + off) * r.val)).take r.val ++ a.buf.drop (i * r.val + r.val)).drop ((i + 1 + off) * r.val)).take (n * r.val)
          ++ (a.buf.take (i * r.val) ++ (a.buf.drop ((i + off) * r.val)).take r.val ++ a.buf.drop (i * r.val + r.val)).drop ((i + 1 + n) * r.val) = _
      rw [e2, e3, e4, e5, e6, e7]
      rw [e1] at hsz
      rw [e2] at hreclen
      generalize i * r.val = I at *
      generalize off * r.val = O at *
      generalize n * r.val = N at *
      generalize hR : r.val = R at *
      have hX : (a.buf.take I).length = I := by rw [List.length_take]; omega
      have hXR : (a.buf.take I ++ (a.buf.drop (I + O)).take R).length = I + R := by
        rw [List.length_append, hX, hreclen]
      -- take (I+R) of the written block
      have t1 : (a.buf.take I ++ (a.buf.drop (I + O)).take R ++ a.buf.drop (I + R)).take (I + R)
          = a.buf.take I ++ (a.buf.drop (I + O)).take R := by
        rw [List.take_append_of_le_length (by omega), List.take_of_length_le (by omega)]
      -- drops beyond I+R see only the untouched tail
      have t2 : ∀ k, (a.buf.take I ++ (a.buf.drop (I + O)).take R ++ a.buf.drop (I + R)).drop (I + R + k)
          = a.buf.drop (I + R + k) := by
        intro k
        rw [List.drop_append, List.drop_of_length_le (by omega), hXR, List.drop_drop]
        simp only [List.nil_append]; congr 1; omega
      rw [t1, show I + R + O = I + R + O from rfl, t2 O, show I + N + R = I + R + N from by omega, t2 N]
      rw [List.take_add, List.drop_drop]
      simp only [List.append_assoc]
      rw [show I + R + O = I + O + R from by omega]

end Percival.Proofs.EQueue
