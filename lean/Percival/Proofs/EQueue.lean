import Percival.Proofs.EArrayStep
import Percival.Model.EQueue
/-!
# Helper lemmas for the elastic-queue model (C12, C14)
-/
namespace Percival.Proofs.EQueue
open Percival.Model Percival.Model.EArray Percival.Model.EQueue Percival.Spec.DS
open Percival.Proofs.EArray

/-! ### `chunks` -/

theorem chunks_length (r : Nat) : ∀ (n : Nat) (l : List UInt8), (chunks r n l).length = n
  | 0, _ => rfl
  | n+1, l => by simp [chunks, chunks_length r n]

theorem chunks_append (r : Nat) (rec : List UInt8) (hr : rec.length = r) :
    ∀ (n : Nat) (l : List UInt8), l.length = n * r → chunks r (n+1) (l ++ rec) = chunks r n l ++ [rec]
  | 0, l, hl => by
    have : l = [] := List.eq_nil_of_length_eq_zero (by simpa using hl)
    subst this
    simp [chunks, ← hr]
  | n+1, l, hl => by
    have hl' : l.length = n * r + r := by rw [hl, Nat.succ_mul]
    have ih := chunks_append r rec hr n (l.drop r) (by rw [List.length_drop]; omega)
    show (l ++ rec).take r :: chunks r (n+1) ((l ++ rec).drop r) = (l.take r :: chunks r n (l.drop r)) ++ [rec]
    rw [List.take_append_of_le_length (by omega), List.drop_append_of_le_length (by omega), ih]
    rfl

/-- only the first `n * r` bytes matter -/
theorem chunks_take (r : Nat) : ∀ (n : Nat) (l : List UInt8) (k : Nat), n * r ≤ k → chunks r n (l.take k) = chunks r n l
  | 0, _, _, _ => rfl
  | n+1, l, k, hk => by
    have hk' : n * r + r ≤ k := by rw [← Nat.succ_mul]; exact hk
    show (l.take k).take r :: chunks r n ((l.take k).drop r) = l.take r :: chunks r n (l.drop r)
    rw [List.take_take, Nat.min_eq_left (by omega), List.drop_take, chunks_take r n (l.drop r) (k - r) (by omega)]

theorem chunks_getElem? (r : Nat) : ∀ (n : Nat) (l : List UInt8) (pos : Nat),
    (chunks r n l)[pos]? = if pos < n then some ((l.drop (pos * r)).take r) else none
  | 0, _, pos => by simp [chunks]
  | n+1, l, 0 => by simp [chunks]
  | n+1, l, pos+1 => by
    show (chunks r n (l.drop r))[pos]? = _
    rw [chunks_getElem? r n (l.drop r) pos, List.drop_drop, Nat.succ_mul]
    by_cases h : pos < n <;> simp [h, Nat.add_comm]

theorem chunks_set (r : Nat) (rec : List UInt8) (hr : rec.length = r) : ∀ (n : Nat) (l : List UInt8) (pos : Nat),
    pos < n → n * r ≤ l.length →
    (chunks r n l).set pos rec = chunks r n (l.take (pos * r) ++ rec ++ l.drop (pos * r + r))
  | 0, _, _, h, _ => by omega
  | n+1, l, 0, _, hl => by
    have hl' : n * r + r ≤ l.length := by rw [← Nat.succ_mul]; exact hl
    simp only [chunks, List.set_cons_zero, Nat.zero_mul, List.take_zero, List.nil_append, Nat.zero_add]
    rw [List.take_append_of_le_length (by omega), List.drop_append_of_le_length (by omega)]
    simp [← hr]
  | n+1, l, pos+1, hp, hl => by
    have hl' : n * r + r ≤ l.length := by rw [← Nat.succ_mul]; exact hl
    have hp' : pos * r + r ≤ n * r := by rw [← Nat.succ_mul]; exact Nat.mul_le_mul_right r (by omega)
    have ih := chunks_set r rec hr n (l.drop r) pos (by omega) (by rw [List.length_drop]; omega)
    simp only [chunks, List.set_cons_succ, ih]
    have e : (pos + 1) * r = r + pos * r := by rw [Nat.succ_mul, Nat.add_comm]
    rw [e]
    have h1 : (l.take (r + pos * r) ++ rec ++ l.drop (r + pos * r + r)).take r = l.take r := by
      rw [List.append_assoc, List.take_append_of_le_length (by rw [List.length_take]; omega), List.take_take]
      congr 1; omega
    have h2 : (l.take (r + pos * r) ++ rec ++ l.drop (r + pos * r + r)).drop r
        = (l.drop r).take (pos * r) ++ rec ++ (l.drop r).drop (pos * r + r) := by
      rw [List.append_assoc, List.drop_append_of_le_length (by rw [List.length_take]; omega), List.drop_take,
        List.drop_drop, List.append_assoc]
      congr 2
      · congr 1; omega
      · congr 1; omega
    rw [h1, h2]

/-! ### reading and writing records, in byte offsets -/

theorem getRec_eq (a : EA) (pos : Nat) (r : RecLen) (h : Inv a) (hc : pos * r.val + r.val ≤ a.size) :
    getRec a pos r = some ((a.buf.drop (pos * r.val)).take r.val) := by
  have := h.le; have := h.len
  unfold getRec
  rw [if_pos hc, readAt_some (by omega)]

theorem setRec_eq (a : EA) (pos : Nat) (r : RecLen) (rec : List UInt8) (h : Inv a)
    (hc : pos * r.val + r.val ≤ a.size) (hr : rec.length = r.val) :
    setRec a pos r rec = some { a with buf := a.buf.take (pos * r.val) ++ rec ++ a.buf.drop (pos * r.val + r.val) } := by
  have := h.le; have := h.len
  unfold setRec
  rw [if_pos ⟨hc, hr⟩, writeAt_some (by omega), hr]; rfl

/-- the copy loop of `elasticqueue_delete`: `n` records starting at record `i + off` end up at record `i`;
nothing else moves, no access leaves the contents -/
theorem moveLoop_spec (r : RecLen) (off : Nat) : ∀ (n i : Nat) (a : EA), Inv a → i + n < off →
    (off + i + n) * r.val ≤ a.size →
    ∃ a', moveLoop r off n i a = some a' ∧ a'.size = a.size ∧ a'.alloc = a.alloc ∧ Inv a' ∧
      a'.buf = a.buf.take (i * r.val) ++ (a.buf.drop ((i + off) * r.val)).take (n * r.val) ++ a.buf.drop ((i + n) * r.val)
  | 0, i, a, h, _, _ => ⟨a, rfl, rfl, rfl, h, by simp⟩
  | n+1, i, a, h, hlt, hsz => by
    have hle := h.le; have hlen := h.len
    have hr := r.property
    -- all offsets as linear expressions in I = i*r, O = off*r, N = n*r
    have e1 : (off + i + (n + 1)) * r.val = off * r.val + i * r.val + n * r.val + r.val := by
      simp only [Nat.add_mul, Nat.one_mul]; omega
    have e2 : (i + off) * r.val = i * r.val + off * r.val := Nat.add_mul _ _ _
    have e3 : (i + (n + 1)) * r.val = i * r.val + n * r.val + r.val := by simp only [Nat.add_mul, Nat.one_mul]; omega
    have e4 : (n + 1) * r.val = r.val + n * r.val := by rw [Nat.succ_mul, Nat.add_comm]
    have e5 : (i + 1) * r.val = i * r.val + r.val := Nat.succ_mul _ _
    have e6 : (i + 1 + off) * r.val = i * r.val + r.val + off * r.val := by simp only [Nat.add_mul, Nat.one_mul]
    have e7 : (i + 1 + n) * r.val = i * r.val + n * r.val + r.val := by simp only [Nat.add_mul, Nat.one_mul]; omega
    have e8 : (off + (i + 1) + n) * r.val = off * r.val + i * r.val + n * r.val + r.val := by
      simp only [Nat.add_mul, Nat.one_mul]; omega
    have hIO : i * r.val + n * r.val + r.val ≤ off * r.val := by
      have : (i + n + 1) * r.val ≤ off * r.val := Nat.mul_le_mul_right _ (by omega)
      simp only [Nat.add_mul, Nat.one_mul] at this; exact this
    have hget := getRec_eq a (i + off) r h (by rw [e2]; rw [e1] at hsz; omega)
    have hreclen : ((a.buf.drop ((i + off) * r.val)).take r.val).length = r.val := by
      rw [List.length_take, List.length_drop, e2]; rw [e1] at hsz; omega
    have hset := setRec_eq a i r _ h (by rw [e1] at hsz; omega) hreclen
    let a1 : EA := { a with buf := a.buf.take (i * r.val) ++ (a.buf.drop ((i + off) * r.val)).take r.val
                              ++ a.buf.drop (i * r.val + r.val) }
    have hinv1 : Inv a1 := ⟨hle, by
      show (a.buf.take (i * r.val) ++ (a.buf.drop ((i + off) * r.val)).take r.val ++ a.buf.drop (i * r.val + r.val)).length = a.alloc
      rw [List.length_append, List.length_append, hreclen, List.length_take, List.length_drop]
      rw [e1] at hsz; omega, h.lt⟩
    obtain ⟨a', hml, hs1, hs2, hinv', hbuf⟩ := moveLoop_spec r off n (i + 1) a1 hinv1 (by omega) (by rw [e8]; rw [e1] at hsz; exact hsz)
    refine ⟨a', ?_, hs1, hs2, hinv', ?_⟩
    · show (match getRec a (i + off) r with
        | none => none
        | some rec => match setRec a i r rec with
          | none => none
          | some a' => moveLoop r off n (i + 1) a') = some a'
      rw [hget]; simp only; rw [hset]; exact hml
    · rw [hbuf]
      show (a.buf.take (i * r.val) ++ (a.buf.drop ((i + off) * r.val)).take r.val ++ a.buf.drop (i * r.val + r.val)).take ((i + 1) * r.val)
          ++ ((a.buf.take (i * r.val) ++ (a.buf.drop ((i + off) * r.val)).take r.val ++ a.buf.drop (i * r.val + r.val)).drop ((i + 1 + off) * r.val)).take (n * r.val)
          ++ (a.buf.take (i * r.val) ++ (a.buf.drop ((i + off) * r.val)).take r.val ++ a.buf.drop (i * r.val + r.val)).drop ((i + 1 + n) * r.val) = _
      rw [e2, e3, e4, e5, e6, e7]
      rw [e1] at hsz
      rw [e2] at hreclen
      generalize i * r.val = I at *
      generalize off * r.val = O at *
      generalize n * r.val = N at *
      generalize hR : r.val = R at *
      have hX : (a.buf.take I).length = I := by rw [List.length_take]; omega
      have hXR : (a.buf.take I ++ (a.buf.drop (I + O)).take R).length = I + R := by
        rw [List.length_append, hX, hreclen]
      -- take (I+R) of the written block
      have t1 : (a.buf.take I ++ (a.buf.drop (I + O)).take R ++ a.buf.drop (I + R)).take (I + R)
          = a.buf.take I ++ (a.buf.drop (I + O)).take R := by
        rw [List.take_append_of_le_length (by omega), List.take_of_length_le (by omega)]
      -- drops beyond I+R see only the untouched tail
      have t2 : ∀ k, (a.buf.take I ++ (a.buf.drop (I + O)).take R ++ a.buf.drop (I + R)).drop (I + R + k)
          = a.buf.drop (I + R + k) := by
        intro k
        rw [List.drop_append, List.drop_of_length_le (by omega), hXR, List.drop_drop]
        simp only [List.nil_append]; congr 1; omega
      rw [t1, show I + R + O = I + R + O from rfl, t2 O, show I + N + R = I + R + N from by omega, t2 N]
      rw [List.take_add, List.drop_drop]
      simp only [List.append_assoc]
      rw [show I + R + O = I + O + R from by omega]

/-! ### the queue operations -/

/-- representation invariant of `struct elasticqueue` -/
structure QInv (q : EQ) : Prop where
  ea : Inv q.ea
  sz : q.ea.size = (q.offset + q.len) * q.reclen.val

theorem abs_length (q : EQ) : (EQueue.abs q).length = q.len := chunks_length _ _ _

theorem add_spec (q : EQ) (rec : List UInt8) (m : Mem) (h : QInv q) (hr : rec.length = q.reclen.val)
    (hsmall : q.ea.size + q.reclen.val ≤ EArray.SIZE_MAX) :
    QInv (add q rec m).2.1 ∧ (add q rec m).1 ≠ .oob ∧
    ((add q rec m).2.1.reclen = q.reclen ∧ (add q rec m).2.1.offset = q.offset) ∧
    ((add q rec m).1 = .ok →
      EQueue.abs (add q rec m).2.1 = EQueue.abs q ++ [rec] ∧ (add q rec m).2.1.len = q.len + 1 ∧
      (add q rec m).2.2.refusals = m.refusals) ∧
    ((add q rec m).1 = .fail → (add q rec m).2.1 = q ∧ (add q rec m).2.2.refusals = m.refusals + 1) ∧
    (add q rec m).2.2.live + bufBlocks q.ea = m.live + bufBlocks (add q rec m).2.1.ea := by
  obtain ⟨hea, hsz⟩ := h
  have hs := append_spec q.ea rec 1 q.reclen m hea (by simp [hr])
  simp only [Nat.one_mul] at hs
  unfold add
  rcases hres : append q.ea rec 1 q.reclen m with ⟨st, a', m'⟩
  rw [hres] at hs
  obtain ⟨hinv', hno, hok, hfail, hlive⟩ := hs
  simp only at hinv' hno hok hfail hlive
  cases st
  · obtain ⟨_, hsz', _, hrf, hbytes⟩ := hok rfl
    simp only
    refine ⟨⟨hinv', ?_⟩, by simp, ⟨by triv, by triv⟩, fun _ => ⟨?_, by triv, hrf⟩, by simp, hlive⟩
    · show a'.size = (q.offset + (q.len + 1)) * q.reclen.val
      rw [hsz', hsz]; simp only [Nat.add_mul, Nat.one_mul]; omega
    · show chunks q.reclen.val (q.len + 1) ((a'.buf.take a'.size).drop (q.offset * q.reclen.val)) = _
      rw [hbytes, List.take_of_length_le (l := rec) (by omega)]
      have hC : (q.ea.buf.take q.ea.size).length = q.ea.size := by
        rw [List.length_take, hea.len]; exact Nat.min_eq_left hea.le
      have hoff : q.offset * q.reclen.val ≤ q.ea.size := by rw [hsz, Nat.add_mul]; omega
      rw [List.drop_append_of_le_length (by omega)]
      exact chunks_append _ rec hr q.len _ (by rw [List.length_drop, hC, hsz, Nat.add_mul]; omega)
  · obtain ⟨ha', hrf⟩ := hfail rfl
    subst ha'
    simp only
    have hrf' : m'.refusals = m.refusals + 1 := by
      rcases hrf with h1 | ⟨_, h2⟩
      · exact h1
      · omega
    exact ⟨⟨hea, hsz⟩, by simp, ⟨by triv, by triv⟩, by simp, fun _ => ⟨by triv, hrf'⟩, hlive⟩
  · exact absurd rfl hno

theorem contents_length {a : EA} (h : Inv a) : (a.buf.take a.size).length = a.size := by
  rw [List.length_take, h.len]; exact Nat.min_eq_left h.le

theorem delete_spec (q : EQ) (m : Mem) (h : QInv q) :
    (delete q m).1 = .ok ∧ QInv (delete q m).2.1 ∧ (delete q m).2.1.reclen = q.reclen ∧
    EQueue.abs (delete q m).2.1 = (EQueue.abs q).tail ∧ (delete q m).2.1.len = q.len - 1 ∧
    (delete q m).2.1.offset + (delete q m).2.1.len ≤ q.offset + q.len ∧
    (delete q m).2.2.live + bufBlocks q.ea = m.live + bufBlocks (delete q m).2.1.ea := by
  obtain ⟨hea, hsz⟩ := h
  unfold delete
  by_cases h0 : q.len = 0
  · simp only [h0, if_true]
    refine ⟨by triv, ⟨hea, hsz⟩, by triv, ?_, ?_, ?_, by triv⟩
    · simp [EQueue.abs, h0, chunks]
    · trivial
    · exact Nat.le_refl _
  · simp only [h0, if_false]
    obtain ⟨n, hn⟩ : ∃ n, q.len = n + 1 := ⟨q.len - 1, by omega⟩
    have hn' : q.len - 1 = n := by omega
    simp only [hn']
    have hC := contents_length hea
    have e1 : (q.offset + 1) * q.reclen.val = q.offset * q.reclen.val + q.reclen.val := Nat.succ_mul _ _
    have hsz' : q.ea.size = q.offset * q.reclen.val + q.reclen.val + n * q.reclen.val := by
      rw [hsz, hn]; simp only [Nat.add_mul, Nat.one_mul]; omega
    -- the ideal queue loses its head
    have htail : (EQueue.abs q).tail
        = chunks q.reclen.val n ((q.ea.buf.take q.ea.size).drop ((q.offset + 1) * q.reclen.val)) := by
      simp only [EQueue.abs, hn, chunks, List.tail_cons, List.drop_drop, e1]
    by_cases hmove : q.offset + 1 > n
    · simp only [hmove, if_true]
      obtain ⟨a1, hml, hs1, hs2, hinv1, hbuf1⟩ := moveLoop_spec q.reclen (q.offset + 1) n 0 q.ea hea (by omega)
        (by rw [hsz, hn]; apply Nat.le_of_eq; congr 1; omega)
      simp only [hml]
      have hsh := shrink_spec a1 (q.offset + 1) q.reclen m hinv1
      rcases hres : shrink a1 (q.offset + 1) q.reclen m with ⟨a2, m2⟩
      rw [hres] at hsh
      obtain ⟨hinv2, hsz2, hbytes2, _, hlive2⟩ := hsh
      simp only at hinv2 hsz2 hbytes2 hlive2 ⊢
      have hsz2' : a2.size = n * q.reclen.val := by rw [hsz2, hs1, hsz', e1]; omega
      refine ⟨by triv, ⟨hinv2, by simp [hsz2']⟩, by triv, ?_, by triv, by (try simp); omega, ?_⟩
      · rw [htail]
        show chunks q.reclen.val n ((a2.buf.take a2.size).drop (0 * q.reclen.val)) = _
        rw [Nat.zero_mul, List.drop_zero, hbytes2, hs1, hsz', e1]
        rw [show q.offset * q.reclen.val + q.reclen.val + n * q.reclen.val - (q.offset * q.reclen.val + q.reclen.val)
              = n * q.reclen.val from by omega]
        rw [hbuf1]
        simp only [Nat.zero_mul, List.take_zero, List.nil_append, Nat.zero_add]
        rw [List.take_append_of_le_length (by rw [List.length_take, List.length_drop, hea.len]; have := hea.le; rw [e1]; omega)]
        rw [List.take_take, Nat.min_self, chunks_take _ _ _ _ (Nat.le_refl _), List.drop_take,
          chunks_take _ _ _ _ (by omega), e1]
      · have : bufBlocks a1 = bufBlocks q.ea := by simp [bufBlocks, hs2]
        rw [← this]; exact hlive2
    · simp only [hmove, if_false]
      refine ⟨by triv, ⟨hea, ?_⟩, by triv, ?_, by triv, by (try simp); omega, by triv⟩
      · show q.ea.size = (q.offset + 1 + n) * q.reclen.val
        rw [hsz, hn]; congr 1; omega
      · rw [htail]; rfl

theorem get_spec (q : EQ) (pos : Nat) (h : QInv q) :
    (pos < q.len → EQueue.get q pos = .record (((q.ea.buf.take q.ea.size).drop (q.offset * q.reclen.val)).drop (pos * q.reclen.val) |>.take q.reclen.val)) ∧
    (q.len ≤ pos → EQueue.get q pos = .null) := by
  obtain ⟨hea, hsz⟩ := h
  unfold EQueue.get
  constructor
  · intro hp
    have e : (pos + q.offset) * q.reclen.val = q.offset * q.reclen.val + pos * q.reclen.val := by
      rw [Nat.add_mul]; omega
    have hb : (pos + q.offset) * q.reclen.val + q.reclen.val ≤ q.ea.size := by
      have : (pos + q.offset + 1) * q.reclen.val ≤ (q.offset + q.len) * q.reclen.val :=
        Nat.mul_le_mul_right _ (by omega)
      rw [Nat.succ_mul] at this; omega
    rw [if_neg (by omega), getRec_eq q.ea _ q.reclen hea hb]
    simp only [List.drop_drop, e, List.drop_take]
    rw [List.take_take, Nat.min_eq_left (by omega)]
  · intro hp; rw [if_pos hp]

theorem get_abs (q : EQ) (pos : Nat) (h : QInv q) :
    (EQueue.abs q)[pos]? = match EQueue.get q pos with
      | .record b => some b
      | _ => none := by
  have hg := get_spec q pos h
  rw [EQueue.abs, chunks_getElem?]
  by_cases hp : pos < q.len
  · rw [hg.1 hp, if_pos hp]
  · rw [hg.2 (by omega), if_neg hp]

theorem set_spec (q : EQ) (pos : Nat) (rec : List UInt8) (h : QInv q) (hp : pos < q.len) (hr : rec.length = q.reclen.val) :
    ∃ q', EQueue.set q pos rec = some q' ∧ QInv q' ∧ q'.reclen = q.reclen ∧ q'.len = q.len ∧ q'.offset = q.offset ∧
      q'.ea.size = q.ea.size ∧ q'.ea.alloc = q.ea.alloc ∧
      EQueue.abs q' = (EQueue.abs q).set pos rec := by
  obtain ⟨hea, hsz⟩ := h
  have e : (pos + q.offset) * q.reclen.val = q.offset * q.reclen.val + pos * q.reclen.val := by
    rw [Nat.add_mul]; omega
  have hlen : q.len * q.reclen.val + q.offset * q.reclen.val = q.ea.size := by rw [hsz, Nat.add_mul]; omega
  have hpl : pos * q.reclen.val + q.reclen.val ≤ q.len * q.reclen.val := by
    rw [← Nat.succ_mul]; exact Nat.mul_le_mul_right _ (by omega)
  have hb : (pos + q.offset) * q.reclen.val + q.reclen.val ≤ q.ea.size := by rw [e]; omega
  obtain ⟨a', hset, hs1, hs2, hinv', hbytes⟩ := setRec_spec q.ea (pos + q.offset) q.reclen rec hea hb hr
  unfold EQueue.set
  rw [if_neg (by omega), hset]
  refine ⟨_, rfl, ⟨hinv', by simp [hs1, hsz]⟩, rfl, rfl, rfl, hs1, hs2, ?_⟩
  show chunks q.reclen.val q.len ((a'.buf.take a'.size).drop (q.offset * q.reclen.val)) = _
  have hC := contents_length hea
  rw [hbytes, EQueue.abs, chunks_set _ rec hr _ _ _ hp (by rw [List.length_drop, hC]; omega)]
  congr 1
  simp only [setBytes, e]
  generalize q.ea.buf.take q.ea.size = C at *
  generalize q.offset * q.reclen.val = O at *
  generalize pos * q.reclen.val = P at *
  rw [List.append_assoc, List.drop_append_of_le_length (by rw [List.length_take]; omega), List.drop_take,
    List.append_assoc, List.drop_drop]
  rw [show O + P - O = P from by omega, show O + P + q.reclen.val = O + (P + q.reclen.val) from by omega]

/-- what has to be shown about one queue step -/
def QStepOk (q : EQ) (op : EqOp) (m : Mem) : Prop :=
  QInv (EQueue.step q op m).2.1 ∧ (EQueue.step q op m).2.1.reclen = q.reclen ∧
  eqAdmit (EQueue.abs q) op (EQueue.step q op m).1 = some (EQueue.abs (EQueue.step q op m).2.1) ∧
  (EQueue.step q op m).2.1.offset + (EQueue.step q op m).2.1.len ≤ q.offset + q.len + 1

theorem check_abs (q : EQ) (st : St) (m m' : Mem) (got : Option (List UInt8)) :
    eqCheck (EQueue.abs q) (EQueue.ans st q m m' got) = some (EQueue.abs q) := by
  simp [eqCheck, EQueue.ans, abs_length]

/-- **every queue step is admitted by the ideal FIFO and `abs` commutes** -/
theorem qstep_ok (q : EQ) (op : EqOp) (m : Mem) (h : QInv q)
    (hc : eqContract q.reclen.val (EQueue.abs q) op)
    (hsmall : (q.offset + q.len + 1) * q.reclen.val ≤ EArray.SIZE_MAX) : QStepOk q op m := by
  unfold QStepOk
  cases op with
  | add rec =>
    simp only [eqContract] at hc
    have hs := add_spec q rec m h hc (by rw [h.sz]; rw [Nat.succ_mul] at hsmall; exact hsmall)
    simp only [EQueue.step]
    rcases hres : add q rec m with ⟨st, q', m'⟩
    rw [hres] at hs
    obtain ⟨hinv', hno, ⟨hrl, hoff⟩, hok, hfail, _⟩ := hs
    simp only at hinv' hno hrl hoff hok hfail ⊢
    refine ⟨hinv', hrl, ?_, ?_⟩
    · simp only [eqAdmit]
      cases st
      · obtain ⟨habs, _, _⟩ := hok rfl
        have : (EQueue.ans St.ok q' m m' none).st = St.ok := rfl
        simp only [this]
        rw [if_pos (by simp [EQueue.ans]), ← habs]
        exact check_abs q' _ _ _ _
      · obtain ⟨hq', hrf⟩ := hfail rfl
        subst hq'
        have : (EQueue.ans St.fail q' m m' none).st = St.fail := rfl
        simp only [this]
        rw [if_pos ⟨by simp [EQueue.ans, hrf], rfl⟩]
        exact check_abs q' _ _ _ _
      · exact absurd rfl hno
    · cases st
      · obtain ⟨_, hlen, _⟩ := hok rfl
        omega
      · obtain ⟨hq', _⟩ := hfail rfl
        subst hq'; omega
      · exact absurd rfl hno
  | delete =>
    have hs := delete_spec q m h
    simp only [EQueue.step]
    rcases hres : delete q m with ⟨st, q', m'⟩
    rw [hres] at hs
    obtain ⟨hst, hinv', hrl, habs, _, hle, _⟩ := hs
    simp only at hst hinv' hrl habs hle ⊢
    subst hst
    refine ⟨hinv', hrl, ?_, by omega⟩
    simp only [eqAdmit]
    rw [if_pos ⟨rfl, rfl⟩, ← habs]
    exact check_abs q' _ _ _ _
  | getlen =>
    simp only [EQueue.step]
    refine ⟨h, by triv, ?_, by omega⟩
    simp only [eqAdmit]
    rw [if_pos ⟨by triv, by triv⟩]
    exact check_abs q _ _ _ _
  | get pos =>
    have hg := get_abs q pos h
    cases hget : EQueue.get q pos with
    | null =>
      rw [hget] at hg
      simp only [EQueue.step, hget]
      refine ⟨h, by triv, ?_, by omega⟩
      simp only [eqAdmit]
      rw [if_pos ⟨by triv, by simp [EQueue.ans, hg]⟩]
      exact check_abs q _ _ _ _
    | record b =>
      rw [hget] at hg
      simp only [EQueue.step, hget]
      refine ⟨h, by triv, ?_, by omega⟩
      simp only [eqAdmit]
      rw [if_pos ⟨by triv, by simp [EQueue.ans, hg]⟩]
      exact check_abs q _ _ _ _
    | oob =>
      exfalso
      have hs := get_spec q pos h
      by_cases hp : pos < q.len
      · rw [hs.1 hp] at hget; cases hget
      · rw [hs.2 (by omega)] at hget; cases hget
  | set pos rec =>
    simp only [eqContract, abs_length] at hc
    obtain ⟨q', hset, hinv', hrl, hlen, hoff, _, _, habs⟩ := set_spec q pos rec h hc.1 hc.2
    simp only [EQueue.step, hset]
    refine ⟨hinv', hrl, ?_, by omega⟩
    simp only [eqAdmit]
    rw [if_pos ⟨rfl, by rw [abs_length]; exact hc.1, rfl⟩, ← habs]
    exact check_abs q' _ _ _ _

/-! ### creation, release, whole runs -/

theorem init_spec (r : RecLen) (m : Mem) :
    match EQueue.init r m with
    | (some q, m') => QInv q ∧ q.reclen = r ∧ EQueue.abs q = [] ∧ q.offset = 0 ∧ q.len = 0 ∧
        m'.live = m.live + 2 + bufBlocks q.ea ∧ m'.refusals = m.refusals
    | (none, m') => m'.live = m.live ∧ m'.refusals > m.refusals := by
  unfold EQueue.init
  cases hr : (m.malloc EQueue.structSize).1
  · have hf := malloc_fail hr
    rw [pair_eta _ hr]
    simp only
    exact ⟨hf.2.1, by omega⟩
  · have hf := malloc_ok hr
    rw [pair_eta _ hr]
    simp only
    have hs := EArray.init_spec 0 r (m.malloc EQueue.structSize).2
    rcases hres : EArray.init 0 r (m.malloc EQueue.structSize).2 with ⟨oa, m2⟩
    rw [hres] at hs
    cases oa with
    | none =>
      simp only at hs ⊢
      have f := free_facts m2 false
      refine ⟨by rw [f.2.1]; simp; omega, ?_⟩
      rw [f.1]
      rcases hs.2 with h1 | h1
      · omega
      · simp [SIZE_MAX_eq] at h1
    | some a =>
      simp only at hs ⊢
      obtain ⟨hinv, _, hsz, _, hlive, hrf⟩ := hs
      exact ⟨⟨hinv, by simp [hsz]⟩, by triv, by first | trivial | rfl | simp [EQueue.abs, chunks], by triv, by triv, by omega, by omega⟩

theorem free_live (q : EQ) (m : Mem) : (EQueue.free q m).live = m.live - 2 - bufBlocks q.ea := by
  simp only [EQueue.free]
  rw [(free_facts _ false).2.1, EArray.free_live]; simp; omega

/-- the caller keeps its side of the contract at every operation of the run -/
def Contracts (q : EQ) : List EqOp → Mem → Prop
  | [], _ => True
  | op :: rest, m => eqContract q.reclen.val (EQueue.abs q) op ∧
      Contracts (EQueue.step q op m).2.1 rest (EQueue.step q op m).2.2

theorem run_ok : ∀ (ops : List EqOp) (q : EQ) (m : Mem), QInv q → Contracts q ops m →
    (q.offset + q.len + ops.length) * q.reclen.val ≤ EArray.SIZE_MAX →
    QInv (EQueue.run q ops m).2.1 ∧
    eqAdmitAll (EQueue.abs q) (EQueue.run q ops m).1 = some (EQueue.abs (EQueue.run q ops m).2.1)
  | [], q, m, h, _, _ => ⟨h, rfl⟩
  | op :: rest, q, m, h, hc, hsm => by
    obtain ⟨hc1, hc2⟩ := hc
    have hsm1 : (q.offset + q.len + 1) * q.reclen.val ≤ EArray.SIZE_MAX :=
      Nat.le_trans (Nat.mul_le_mul_right _ (by simp only [List.length_cons]; omega)) hsm
    have hs := qstep_ok q op m h hc1 hsm1
    unfold QStepOk at hs
    obtain ⟨s1, s2, s3, s4⟩ := hs
    have ih := run_ok rest (EQueue.step q op m).2.1 (EQueue.step q op m).2.2 s1 hc2
      (by rw [s2]; exact Nat.le_trans (Nat.mul_le_mul_right _ (by simp only [List.length_cons]; omega)) hsm)
    simp only [EQueue.run]
    rcases hst : EQueue.step q op m with ⟨an, q', m'⟩
    rw [hst] at s3 ih
    simp only at s3 ih ⊢
    rcases hrun : EQueue.run q' rest m' with ⟨tr, q'', m''⟩
    rw [hrun] at ih
    simp only at ih ⊢
    exact ⟨ih.1, by simp only [eqAdmitAll, s3]; exact ih.2⟩

end Percival.Proofs.EQueue
