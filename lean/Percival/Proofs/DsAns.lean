import Std.Data.String.ToNat
import Std.Data.String.ToInt
import Percival.Proofs.DsStep
import Percival.Driver.Ds
import Percival.Driver.Dsmon
/-!
# `Out.ans` is read ∘ print (C12): what `pmodel dsmon` reads of a line `pmodel ds` prints

`Driver/Ds.render o` is the tokens `Ds.l1Toks o` joined by single spaces, followed by ` | ` and the L2 part;
`Driver/Dsmon.parseAns` reads a list of tokens.  `parseAns_l1Toks`: **for every typed output `o`,
`Dsmon.parseAns (Ds.l1Toks o) = o.ans`** — number printing / reading (`Nat.repr`, `Int.repr`, `String.toNat?`,
`String.toInt?`: `Std.Data.String.ToNat` / `ToInt`), hex printing / reading (`hexOfBytes`, `bytesOfHex` of
`Driver/Loop.lean`), the `key=value` and `;` splitting (`String.split` with a character pattern) included.
Not covered: the cut of the printed line at ` | ` and at the spaces (`Driver/Loop.loopMon`, `tools/vlib.py`); no token
contains a space (`l1Toks_no_space`).
-/
namespace Percival.Proofs.DsAns
open Percival.Model Percival.Model.DsStep Percival.Spec.DS Percival.Spec.DSMon Percival.Driver
open Percival.Driver.Ds Percival.Driver.Dsmon

/-! ## splitting at a character -/

theorem splitCh_kv (c : Char) (k v : String) (hk : c ∉ k.toList) (hv : c ∉ v.toList) :
    splitCh c (k ++ String.singleton c ++ v) = [k, v] := by
  have := String.toList_split_intercalate (c := c) (l := [k, v]) (by simp; exact ⟨hk, hv⟩)
  have e : (String.singleton c).intercalate [k, v] = k ++ String.singleton c ++ v := by
    rw [String.intercalate_cons_cons, String.intercalate_singleton]
  rw [e] at this
  simpa [splitCh] using this

theorem splitCh_none (c : Char) (t : String) (ht : c ∉ t.toList) : splitCh c t = [t] := by
  have := String.toList_split_intercalate (c := c) (l := [t]) (by simpa using ht)
  rw [String.intercalate_singleton] at this
  simpa [splitCh] using this

theorem splitCh_intercalate (c : Char) (l : List String) (hl : ∀ s ∈ l, c ∉ s.toList) (hne : l ≠ []) :
    splitCh c ((String.singleton c).intercalate l) = l := by
  have := String.toList_split_intercalate (c := c) (l := l) hl
  simpa [splitCh, hne] using this

/-! ## characters of printed values -/

/-- the characters values are made of: digits, lower-case hex digits, `-`, `?`, `;` -/
def valChar (c : Char) : Bool := c.isDigit || ('a' ≤ c && c ≤ 'f') || c = '-' || c = '?' || c = ';'

theorem nat_chars (n : Nat) : ∀ c ∈ (toString n).toList, c.isDigit = true := by
  intro c h
  have h' : c ∈ (Nat.repr n).toList := h
  rw [Nat.toList_repr] at h'
  exact Nat.isDigit_of_mem_toDigits (b := 10) (by omega) (by omega) h'

theorem int_toString (i : Int) : toString i = match i with | .ofNat m => m.repr | .negSucc m => "-" ++ m.succ.repr := by
  cases i <;> rfl

theorem int_chars (i : Int) : ∀ c ∈ (toString i).toList, c.isDigit = true ∨ c = '-' := by
  intro c h
  rw [int_toString] at h
  cases i with
  | ofNat m => exact Or.inl (nat_chars m c h)
  | negSucc m =>
    simp only [String.toList_append, List.mem_append] at h
    rcases h with h | h
    · right; simpa using h
    · exact Or.inl (nat_chars _ c h)

/-! ## numbers -/

theorem nat_rt (n : Nat) : (toString n).toNat? = some n := Nat.toNat?_repr n

theorem int_rt (i : Int) : (toString i).toInt? = some i := Int.toInt?_repr i

/-- `live=` is printed as an integer and read as a natural number: a negative count is unreadable -/
theorem int_toNat (i : Int) : (toString i).toNat? = if 0 ≤ i then some i.toNat else none := by
  rw [int_toString]
  cases i with
  | ofNat m => simp
  | negSucc m =>
    have hneg : ¬ (0 : Int) ≤ Int.negSucc m := by omega
    rw [if_neg hneg]
    apply String.toNat?_eq_none
    cases h : ("-" ++ m.succ.repr).isNat with
    | false => rfl
    | true =>
      rw [String.isNat_iff] at h
      have := h.2.1 '-' (by simp)
      simp at this

/-! ## hex -/

theorem hexDigit_val : ∀ n, n < 16 → hexVal (hexDigit n) = some n ∧
    ((hexDigit n).isDigit = true ∨ ('a' ≤ hexDigit n ∧ hexDigit n ≤ 'f')) := by decide

def hexChars (bs : List UInt8) : List Char :=
  bs.foldr (fun b acc => hexDigit (b.toNat / 16) :: hexDigit (b.toNat % 16) :: acc) []

theorem hexChars_cons (b : UInt8) (bs : List UInt8) :
    hexChars (b :: bs) = hexDigit (b.toNat / 16) :: hexDigit (b.toNat % 16) :: hexChars bs := rfl

theorem byte_lt (b : UInt8) : b.toNat / 16 < 16 ∧ b.toNat % 16 < 16 := by
  have := b.toNat_lt; omega

theorem bytesOfHexChars_hexChars (bs : List UInt8) : bytesOfHexChars (hexChars bs) = some bs := by
  induction bs with
  | nil => rfl
  | cons b bs ih =>
    obtain ⟨h1, h2⟩ := byte_lt b
    rw [hexChars_cons, bytesOfHexChars, (hexDigit_val _ h1).1, (hexDigit_val _ h2).1, ih]
    simp only [Option.pure_def, Option.bind_eq_bind, Option.bind_some, Option.some.injEq, List.cons.injEq, and_true]
    have : b.toNat / 16 * 16 + b.toNat % 16 = b.toNat := by omega
    rw [this]; simp

def hexCh (c : Char) : Prop := c.isDigit = true ∨ ('a' ≤ c ∧ c ≤ 'f')

theorem hexChars_chars (bs : List UInt8) : ∀ c ∈ hexChars bs, hexCh c := by
  induction bs with
  | nil => simp [hexChars]
  | cons b bs ih =>
    obtain ⟨h1, h2⟩ := byte_lt b
    intro c hc
    rw [hexChars_cons] at hc
    simp only [List.mem_cons] at hc
    rcases hc with rfl | rfl | hc
    · exact (hexDigit_val _ h1).2
    · exact (hexDigit_val _ h2).2
    · exact ih c hc

theorem hexOfBytes_nil : hexOfBytes [] = "-" := rfl
theorem hexOfBytes_cons (b : UInt8) (bs : List UInt8) : hexOfBytes (b :: bs) = String.ofList (hexChars (b :: bs)) := rfl

theorem hexOfBytes_ne_dash (b : UInt8) (bs : List UInt8) : hexOfBytes (b :: bs) ≠ "-" := by
  rw [hexOfBytes_cons]
  intro h
  have := congrArg String.toList h
  rw [String.toList_ofList, hexChars_cons] at this
  simp at this

theorem hex_rt (bs : List UInt8) : bytesOfHex (hexOfBytes bs) = some bs := by
  cases bs with
  | nil => simp [hexOfBytes_nil, bytesOfHex]
  | cons b bs =>
    rw [bytesOfHex, if_neg (hexOfBytes_ne_dash b bs), hexOfBytes_cons, String.toList_ofList, bytesOfHexChars_hexChars]

/-- the characters of a printed byte string: hex digits, or the single `-` -/
theorem hex_chars (bs : List UInt8) : ∀ c ∈ (hexOfBytes bs).toList, hexCh c ∨ c = '-' := by
  cases bs with
  | nil => intro c hc; right; simpa [hexOfBytes_nil] using hc
  | cons b bs =>
    intro c hc
    rw [hexOfBytes_cons, String.toList_ofList] at hc
    exact Or.inl (hexChars_chars _ c hc)

/-! ## tokens -/

theorem kv_eq (k v : String) : kv k v = k ++ String.singleton '=' ++ v := rfl

theorem addTok_kv (a : Ans) (k v : String) (hk : '=' ∉ k.toList) (hv : '=' ∉ v.toList) :
    addTok a (kv k v) = addField a k v := by
  simp only [addTok, kv_eq, splitCh_kv '=' k v hk hv]

theorem addTok_null (a : Ans) : addTok a "null" = { a with null := true } := by
  simp only [addTok, splitCh_none '=' "null" (by decide)]
  simp

theorem digit_ne {c : Char} (h : c.isDigit = true) : c ≠ '=' ∧ c ≠ ';' ∧ c ≠ ' ' ∧ c ≠ '-' := by
  refine ⟨?_, ?_, ?_, ?_⟩ <;> (rintro rfl; simp at h)

theorem hexCh_ne {c : Char} (h : hexCh c) : c ≠ '=' ∧ c ≠ ';' ∧ c ≠ ' ' ∧ c ≠ '-' := by
  rcases h with h | h
  · exact digit_ne h
  · refine ⟨?_, ?_, ?_, ?_⟩ <;> (rintro rfl; revert h; decide)

theorem nat_no (n : Nat) (c : Char) (hc : c = '=' ∨ c = ';' ∨ c = ' ') : c ∉ (toString n).toList := by
  intro h
  have := digit_ne (nat_chars n c h)
  rcases hc with rfl | rfl | rfl <;> simp at this

theorem int_no (i : Int) (c : Char) (hc : c = '=' ∨ c = ';' ∨ c = ' ') : c ∉ (toString i).toList := by
  intro h
  rcases int_chars i c h with h | rfl
  · have := digit_ne h
    rcases hc with rfl | rfl | rfl <;> simp at this
  · rcases hc with h | h | h <;> simp at h

theorem hex_no (b : List UInt8) (c : Char) (hc : c = '=' ∨ c = ';' ∨ c = ' ') : c ∉ (hexOfBytes b).toList := by
  intro h
  rcases hex_chars b c h with h | rfl
  · have := hexCh_ne h
    rcases hc with rfl | rfl | rfl <;> simp at this
  · rcases hc with h | h | h <;> simp at h

/-! ## `recs=` -/

def recStr : Option (List UInt8) → String
  | some b => hexOfBytes b
  | none => "?"

theorem recStr_no (r : Option (List UInt8)) (c : Char) (hc : c = '=' ∨ c = ';' ∨ c = ' ') : c ∉ (recStr r).toList := by
  cases r with
  | some b => exact hex_no b c hc
  | none => rcases hc with rfl | rfl | rfl <;> simp [recStr]

theorem recStr_rt (r : Option (List UInt8)) : bytesOfHex (recStr r) = r := by
  cases r with
  | some b => exact hex_rt b
  | none => simp [recStr, bytesOfHex, bytesOfHexChars]

theorem mapM_recStr (l : List (Option (List UInt8))) : (l.map recStr).mapM bytesOfHex = l.mapM id := by
  induction l with
  | nil => rfl
  | cons r l ih => simp only [List.map_cons, List.mapM_cons, recStr_rt, ih, id]

/-- the printed value of `recs=` -/
def recsStr (l : List (Option (List UInt8))) : String :=
  if (l.map recStr).isEmpty then "-" else ";".intercalate (l.map recStr)

theorem mem_intercalate (sep : String) (c : Char) : ∀ (l : List String), c ∈ (sep.intercalate l).toList →
    c ∈ sep.toList ∨ ∃ x ∈ l, c ∈ x.toList
  | [], h => by simp at h
  | [x], h => by rw [String.intercalate_singleton] at h; exact Or.inr ⟨x, by simp, h⟩
  | x :: y :: l, h => by
    rw [String.intercalate_cons_cons] at h
    simp only [String.toList_append, List.mem_append] at h
    rcases h with (h | h) | h
    · exact Or.inr ⟨x, by simp, h⟩
    · exact Or.inl h
    · rcases mem_intercalate sep c (y :: l) h with h | ⟨z, hz, hc⟩
      · exact Or.inl h
      · exact Or.inr ⟨z, List.mem_cons_of_mem _ hz, hc⟩

theorem recsStr_no (l : List (Option (List UInt8))) (c : Char) (hc : c = '=' ∨ c = ' ') : c ∉ (recsStr l).toList := by
  unfold recsStr
  split
  · rcases hc with rfl | rfl <;> simp
  · intro h
    rcases mem_intercalate _ c _ h with h | ⟨x, hx, hcx⟩
    · rcases hc with rfl | rfl <;> simp at h
    · obtain ⟨r, _, rfl⟩ := List.mem_map.1 hx
      exact recStr_no r c (by rcases hc with rfl | rfl <;> simp) hcx

theorem recsStr_eq_dash : ∀ (l : List (Option (List UInt8))), l ≠ [] →
    ((";".intercalate (l.map recStr) = "-") ↔ l = [some []])
  | [], h => absurd rfl h
  | [r], _ => by
    simp only [List.map_cons, List.map_nil, String.intercalate_singleton, List.cons.injEq, and_true]
    cases r with
    | none => simp [recStr]
    | some b =>
      cases b with
      | nil => simp [recStr, hexOfBytes_nil]
      | cons x xs => simp [recStr, hexOfBytes_ne_dash]
  | r :: r' :: l, _ => by
    simp only [List.map_cons, String.intercalate_cons_cons, List.cons.injEq, reduceCtorEq, and_false, iff_false]
    intro h
    have := congrArg String.toList h
    simp only [String.toList_append] at this
    have hm : ';' ∈ ['-'] := by
      have e : ("-" : String).toList = ['-'] := by decide
      rw [← e, ← this]; simp
    simp at hm

theorem parseRecs_recsStr (l : List (Option (List UInt8))) : parseRecs (recsStr l) = recsAns l := by
  unfold recsStr recsAns parseRecs
  by_cases hl : l = []
  · subst hl; simp
  · have hne : (l.map recStr).isEmpty = false := by cases l <;> simp_all
    simp only [hne, Bool.false_eq_true, if_false]
    by_cases hd : l = [some []]
    · rw [if_pos ((recsStr_eq_dash l hl).2 hd), if_pos hd]
    · rw [if_neg (fun h => hd ((recsStr_eq_dash l hl).1 h)), if_neg hd]
      have : splitCh ';' (";".intercalate (l.map recStr)) = l.map recStr :=
        splitCh_intercalate ';' _ (by
          intro s hs
          obtain ⟨r, _, rfl⟩ := List.mem_map.1 hs
          exact recStr_no r ';' (by simp)) (by cases l <;> simp_all)
      rw [this, mapM_recStr]

/-! ## the theorem -/

theorem addTok_nat (a : Ans) (k : String) (n : Nat) (hk : '=' ∉ k.toList) :
    addTok a (kv k (toString n)) = addField a k (toString n) := addTok_kv a k _ hk (nat_no n '=' (by simp))
theorem addTok_int (a : Ans) (k : String) (i : Int) (hk : '=' ∉ k.toList) :
    addTok a (kv k (toString i)) = addField a k (toString i) := addTok_kv a k _ hk (int_no i '=' (by simp))
theorem addTok_hex (a : Ans) (k : String) (b : List UInt8) (hk : '=' ∉ k.toList) :
    addTok a (kv k (hexOfBytes b)) = addField a k (hexOfBytes b) := addTok_kv a k _ hk (hex_no b '=' (by simp))
theorem addTok_recs (a : Ans) (k : String) (l : List (Option (List UInt8))) (hk : '=' ∉ k.toList) :
    addTok a (kv k (recsStr l)) = addField a k (recsStr l) := addTok_kv a k _ hk (recsStr_no l '=' (by simp))
theorem addTok_zero (a : Ans) (k : String) (hk : '=' ∉ k.toList) :
    addTok a (kv k "0") = addField a k "0" := addTok_kv a k _ hk (by decide)

theorem parseHead_stStr (st : St) : parseHead (stStr st) = headOfSt st := by
  cases st <;> simp [stStr, parseHead, headOfSt]

theorem parseHead_showWord (w : Word) : parseHead (showWord w) = headOfWord w := by
  cases w <;> simp [showWord, parseHead, headOfWord]

theorem bytesFld_hex (b : List UInt8) : bytesFld (hexOfBytes b) = .val b := by simp [bytesFld, hex_rt]

theorem zero_rt : ("0" : String).toNat? = some 0 := nat_rt 0

theorem eqExtraToks_recs (l : List (Option (List UInt8))) : eqExtraToks (.recs l) = [kv "recs" (recsStr l)] := by
  simp only [eqExtraToks, recsStr]
  congr

theorem int_toNat_repr (i : Int) : i.repr.toNat? = if 0 ≤ i then some i.toNat else none := int_toNat i

/-- **what `pmodel dsmon` reads of the L1 tokens `pmodel ds` prints is `Out.ans`**, for every typed output -/
theorem parseAns_l1Toks (o : Out) : parseAns (l1Toks o) = o.ans := by
  cases o with
  | word w => simp [l1Toks, parseAns, parseHead_showWord, Out.ans]
  | ended live n =>
    simp (disch := decide) only [l1Toks, parseAns, List.foldl, addTok_int, addTok_zero, List.length]
    simp [addField, parseHead, int_toNat_repr, zero_rt, Out.ans]
  | initFail rf c =>
    simp (disch := decide) only [l1Toks, parseAns, List.foldl, addTok_nat, List.length]
    simp [addField, parseHead, Out.ans]
  | ea st sz al rf out c =>
    cases out with
    | none =>
      simp (disch := decide) only [l1Toks, parseAns, List.foldl, addTok_nat, List.length]
      simp [addField, parseHead_stStr, Out.ans]
    | some p =>
      obtain ⟨n, b⟩ := p
      simp (disch := decide) only [l1Toks, parseAns, List.foldl, addTok_nat, addTok_hex, List.length]
      simp [addField, parseHead_stStr, bytesFld_hex, Out.ans]
  | eaExport rf n b c =>
    simp (disch := decide) only [l1Toks, parseAns, List.foldl, addTok_nat, addTok_hex, List.length]
    simp [addField, parseHead, bytesFld_hex, Out.ans]
  | freed c => simp [l1Toks, parseAns, parseHead, Out.ans]
  | eq st len rf x l2 =>
    cases x with
    | none =>
      simp (disch := decide) only [l1Toks, eqExtraToks, List.append_nil, parseAns, List.foldl, addTok_nat, List.length]
      simp [addField, parseHead_stStr, Out.ans]
    | null =>
      simp (disch := decide) only [l1Toks, eqExtraToks, List.cons_append, List.nil_append, parseAns, List.foldl,
        addTok_nat, addTok_null, List.length]
      simp [addField, parseHead_stStr, Out.ans]
    | record b =>
      simp (disch := decide) only [l1Toks, eqExtraToks, List.cons_append, List.nil_append, parseAns, List.foldl,
        addTok_nat, addTok_hex, List.length]
      simp [addField, parseHead_stStr, bytesFld_hex, Out.ans]
    | recs l =>
      simp (disch := decide) only [l1Toks, eqExtraToks_recs, List.cons_append, List.nil_append, parseAns, List.foldl,
        addTok_nat, addTok_recs, List.length]
      simp [addField, parseHead_stStr, parseRecs_recsStr, Out.ans]
  | smInit rf l2 =>
    simp (disch := decide) only [l1Toks, parseAns, List.foldl, addTok_nat, List.length]
    simp [addField, parseHead, Out.ans]
  | sm st rf num ptr l2 =>
    cases num <;> cases ptr <;>
      simp (disch := decide) only [l1Toks, List.cons_append, List.nil_append, List.append_nil, parseAns, List.foldl,
        addTok_nat, addTok_int, List.length] <;>
      simp [addField, parseHead_stStr, Out.ans]
  | mp rf o l2 =>
    cases o <;>
      simp (disch := decide) only [l1Toks, List.cons_append, List.nil_append, List.append_nil, parseAns, List.foldl,
        addTok_nat, addTok_null, List.length] <;>
      simp [addField, parseHead, Out.ans]
  | mpExit c =>
    simp (disch := decide) only [l1Toks, parseAns, List.foldl, addTok_zero, List.length]
    simp [addField, parseHead, zero_rt, Out.ans]

/-! ## the tokens contain no space: the L1 part splits back into them -/

theorem kv_no_space (k v : String) (hk : ' ' ∉ k.toList) (hv : ' ' ∉ v.toList) : ' ' ∉ (kv k v).toList := by
  simp only [kv_eq, String.toList_append, String.toList_singleton, List.mem_append, List.mem_singleton]
  rintro ((h | h) | h)
  · exact hk h
  · simp at h
  · exact hv h

theorem kv_nat_sp (k : String) (n : Nat) (hk : ' ' ∉ k.toList) : ' ' ∉ (kv k (toString n)).toList :=
  kv_no_space k _ hk (nat_no n ' ' (by simp))
theorem kv_int_sp (k : String) (i : Int) (hk : ' ' ∉ k.toList) : ' ' ∉ (kv k (toString i)).toList :=
  kv_no_space k _ hk (int_no i ' ' (by simp))
theorem kv_hex_sp (k : String) (b : List UInt8) (hk : ' ' ∉ k.toList) : ' ' ∉ (kv k (hexOfBytes b)).toList :=
  kv_no_space k _ hk (hex_no b ' ' (by simp))
theorem kv_recs_sp (k : String) (l : List (Option (List UInt8))) (hk : ' ' ∉ k.toList) :
    ' ' ∉ (kv k (recsStr l)).toList :=
  kv_no_space k _ hk (recsStr_no l ' ' (by simp))
theorem kv_nat_sp' (k : String) (n : Nat) (hk : ' ' ∉ k.toList) : ' ' ∉ (kv k n.repr).toList := kv_nat_sp k n hk
theorem kv_int_sp' (k : String) (i : Int) (hk : ' ' ∉ k.toList) : ' ' ∉ (kv k i.repr).toList := kv_int_sp k i hk
theorem stStr_sp (st : St) : ' ' ∉ (stStr st).toList := by cases st <;> decide
theorem showWord_sp (w : Word) : ' ' ∉ (showWord w).toList := by cases w <;> decide

theorem l1Toks_no_space (o : Out) : ∀ t ∈ l1Toks o, ' ' ∉ t.toList := by
  cases o with
  | eq st len rf x l2 =>
    cases x with
    | recs l => simp (disch := decide) [l1Toks, eqExtraToks_recs, kv_nat_sp', kv_recs_sp, stStr_sp]
    | _ => simp (disch := decide) [l1Toks, eqExtraToks, kv_nat_sp', kv_hex_sp, stStr_sp]
  | ea st sz al rf out c =>
    cases out <;> simp (disch := decide) [l1Toks, kv_nat_sp', kv_hex_sp, stStr_sp]
  | sm st rf num ptr l2 =>
    cases num <;> cases ptr <;> simp (disch := decide) [l1Toks, kv_nat_sp', kv_int_sp', stStr_sp]
  | mp rf o l2 => cases o <;> simp (disch := decide) [l1Toks, kv_nat_sp']
  | _ => simp (disch := decide) [l1Toks, kv_nat_sp', kv_int_sp', kv_hex_sp, showWord_sp, kv_no_space]

theorem l1Toks_ne_nil (o : Out) : l1Toks o ≠ [] := by
  cases o with
  | ea st sz al rf out c => cases out <;> simp [l1Toks]
  | _ => simp [l1Toks]

/-- cutting the L1 part of the printed line at the spaces gives back the tokens -/
theorem split_l1 (o : Out) : splitCh ' ' (" ".intercalate (l1Toks o)) = l1Toks o :=
  splitCh_intercalate ' ' _ (l1Toks_no_space o) (l1Toks_ne_nil o)

/-- the printed line is these tokens joined by single spaces, then the L2 part (by definition of `render`) -/
theorem render_eq (o : Out) :
    render o = " ".intercalate (l1Toks o) ++ (match l2Str o with | some s => " | " ++ s | none => "") := rfl

end Percival.Proofs.DsAns
