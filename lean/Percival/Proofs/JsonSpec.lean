import Percival.Model.Json
import Percival.Spec.JVal
import Percival.Proofs.ByteDecide
import Percival.Proofs.JsonSafe
/-! C17 for json.c: on the text of a `JDoc` the skipping functions consume exactly that text, and `json_find`
returns what `Spec.JVal.expectedFind` says. -/
set_option linter.unusedSimpArgs false
namespace Percival.Proofs.JsonSpec
open Percival.Model Percival.Model.Json Percival.Spec.JVal Percival.Proofs
open Percival.Proofs.JsonSafe (rdR_lt)

/-- from offset `i` on, the buffer reads `t` (and `i` is a pointer into the buffer or one past its end) -/
def Rest (b : Buf) (i : Nat) (t : List UInt8) : Prop := i ≤ b.size ∧ b.toList.drop i = t

theorem Rest.size {b : Buf} {i : Nat} {t : List UInt8} (h : Rest b i t) : b.size = i + t.length := by
  obtain ⟨h1, h2⟩ := h
  have := congrArg List.length h2
  simp at this
  omega

theorem Rest.nil {b : Buf} {i : Nat} (h : Rest b i []) : i = b.size := by
  have := h.size; simp at this; omega

theorem Rest.cons {b : Buf} {i : Nat} {x : UInt8} {t : List UInt8} (h : Rest b i (x :: t)) :
    i < b.size ∧ rdR b i = .ok x ∧ Rest b (i+1) t := by
  have hs := h.size
  simp at hs
  have hlt : i < b.size := by omega
  obtain ⟨h1, h2⟩ := h
  have hx : b.toList[i]? = some x := by
    have := congrArg (fun l => l[0]?) h2
    simpa using this
  refine ⟨hlt, ?_, by omega, ?_⟩
  · have : b[i] = x := by
      have h3 : b.toList[i]? = some b[i] := by simp [hlt]
      rw [h3] at hx; exact Option.some.inj hx
    rw [rdR_lt hlt, this]
  · have := congrArg List.tail h2
    simpa using this

theorem Rest.append {b : Buf} {i : Nat} {l t : List UInt8} (h : Rest b i (l ++ t)) : Rest b (i + l.length) t := by
  have hs := h.size
  simp at hs
  obtain ⟨h1, h2⟩ := h
  refine ⟨by omega, ?_⟩
  have := congrArg (List.drop l.length) h2
  simpa [List.drop_drop, Nat.add_comm] using this

theorem Rest.ne_end {b : Buf} {i : Nat} {x : UInt8} {t : List UInt8} (h : Rest b i (x :: t)) : (i == b.size) = false := by
  have := h.cons.1
  simp; omega

/-! ### whitespace and numbers -/

theorem isWs_eq : ∀ c : UInt8, isWs c = isWsCh c := by decide +kernel

/-- the next character, if any, is not whitespace -/
def NoWsHead (t : List UInt8) : Prop := ∀ c, t.head? = some c → isWsCh c = false

theorem skipWsF_spec (b : Buf) (w : List UInt8) (f i : Nat) (t : List UInt8) (h : Rest b i (w ++ t))
    (hw : WsWF w) (ht : NoWsHead t) (hf : w.length < f) : skipWsF b f i = .ok (i + w.length) := by
  induction w generalizing f i with
  | nil =>
    obtain ⟨f', rfl⟩ : ∃ f', f = f' + 1 := ⟨f - 1, by omega⟩
    simp only [List.nil_append] at h
    simp only [skipWsF, List.length_nil, Nat.add_zero]
    cases t with
    | nil => have := h.nil; simp [this]
    | cons c t' =>
      obtain ⟨hlt, hrd, _⟩ := h.cons
      have hc : isWs c = false := by rw [isWs_eq]; exact ht c rfl
      have hrd' : rd b i = some c := by
        simp only [rdR] at hrd
        split at hrd <;> simp_all
      simp [hlt, hrd', hc]
  | cons x w' ih =>
    obtain ⟨f', rfl⟩ : ∃ f', f = f' + 1 := ⟨f - 1, by omega⟩
    simp only [List.cons_append] at h
    obtain ⟨hlt, hrd, hrest⟩ := h.cons
    have hx : isWs x = true := by rw [isWs_eq]; exact hw x (by simp)
    have hrd' : rd b i = some x := by
      simp only [rdR] at hrd
      split at hrd <;> simp_all
    simp only [skipWsF, hlt, if_true, hrd', hx]
    rw [ih f' (i+1) hrest (fun c hc => hw c (by simp [hc])) (by simp at hf; omega)]
    simp; omega

theorem skipWs_spec (b : Buf) (w : List UInt8) (i : Nat) (t : List UInt8) (h : Rest b i (w ++ t))
    (hw : WsWF w) (ht : NoWsHead t) : skipWs b i = .ok (i + w.length) := by
  have hs := h.size
  simp at hs
  exact skipWsF_spec b w _ i t h hw ht (by omega)


theorem rd_of_rdR {b : Buf} {i : Nat} {x : UInt8} (h : rdR b i = .ok x) : rd b i = some x := by
  simp only [rdR] at h
  split at h <;> simp_all

theorem Rest.rd {b : Buf} {i : Nat} {x : UInt8} {t : List UInt8} (h : Rest b i (x :: t)) : rd b i = some x :=
  rd_of_rdR h.cons.2.1

/-- the next character, if any, cannot continue a number -/
def NoNumHead (t : List UInt8) : Prop := ∀ c, t.head? = some c → isNumCh c = false

theorem numTok_isNumCh : ∀ c : UInt8, isNumTokCh c = true → isNumCh c = true := by decide +kernel

theorem skipNumberF_spec (b : Buf) (w : List UInt8) (f i : Nat) (t : List UInt8) (h : Rest b i (w ++ t))
    (hw : ∀ c ∈ w, isNumTokCh c = true) (ht : NoNumHead t) (hf : w.length < f) :
    skipNumberF b f i = .ok (i + w.length) := by
  induction w generalizing f i with
  | nil =>
    obtain ⟨f', rfl⟩ : ∃ f', f = f' + 1 := ⟨f - 1, by omega⟩
    simp only [List.nil_append] at h
    simp only [skipNumberF, List.length_nil, Nat.add_zero]
    cases t with
    | nil => have := h.nil; simp [this]
    | cons c t' =>
      have hc : isNumCh c = false := ht c rfl
      simp [h.cons.1, h.rd, hc]
  | cons x w' ih =>
    obtain ⟨f', rfl⟩ : ∃ f', f = f' + 1 := ⟨f - 1, by omega⟩
    simp only [List.cons_append] at h
    have hx : isNumCh x = true := numTok_isNumCh x (hw x (by simp))
    simp only [skipNumberF, h.cons.1, if_true, h.rd, hx]
    rw [ih f' (i+1) h.cons.2.2 (fun c hc => hw c (by simp [hc])) (by simp at hf; omega)]
    simp; omega

theorem skipNumber_spec (b : Buf) (w : List UInt8) (i : Nat) (t : List UInt8) (h : Rest b i (w ++ t))
    (hw : ∀ c ∈ w, isNumTokCh c = true) (ht : NoNumHead t) : skipNumber b i = .ok (i + w.length) := by
  have hs := h.size
  simp at hs
  exact skipNumberF_spec b w _ i t h hw ht (by omega)

/-! ### literals -/

theorem memEq_true (b : Buf) (lit : List UInt8) (i : Nat) (t : List UInt8) (h : Rest b i (lit ++ t)) :
    memEq b i lit = .ok true := by
  induction lit generalizing i with
  | nil => rfl
  | cons x xs ih =>
    simp only [List.cons_append] at h
    simp [memEq, h.rd, ih (i+1) h.cons.2.2]

theorem memEq_first_ne (b : Buf) (x : UInt8) (xs : List UInt8) (i : Nat) (c : UInt8) (t : List UInt8)
    (h : Rest b i (c :: t)) (hne : c ≠ x) (hlen : i + (x :: xs).length ≤ b.size) : memEq b i (x :: xs) = .ok false := by
  simp only [List.length_cons] at hlen
  obtain ⟨r, hr⟩ := JsonSafe.memEq_ok b (i+1) xs (by omega)
  simp [memEq, h.rd, hr, hne]

theorem litAt_true (b : Buf) (lit : List UInt8) (i : Nat) (t : List UInt8) (h : Rest b i (lit ++ t)) :
    litAt b i lit = .ok true := by
  have hs := h.size
  simp at hs
  simp only [litAt]
  rw [if_pos (by omega)]
  exact memEq_true b lit i t h

theorem litAt_first_ne (b : Buf) (x : UInt8) (xs : List UInt8) (i : Nat) (c : UInt8) (t : List UInt8)
    (h : Rest b i (c :: t)) (hne : c ≠ x) : litAt b i (x :: xs) = .ok false := by
  simp only [litAt]
  split
  · rename_i hge
    exact memEq_first_ne b x xs i c t h hne (by have := h.cons.1; omega)
  · rfl

theorem skipLiteral_null (b : Buf) (i : Nat) (t : List UInt8) (h : Rest b i (Spec.JVal.litNull ++ t)) :
    skipLiteral b i = .ok (i + 4) := by
  have h1 : litAt b i Json.litFalse = .ok false :=
    litAt_first_ne b _ _ i 0x6e _ (by simpa [Spec.JVal.litNull] using h) (by decide)
  have h2 : litAt b i Json.litNull = .ok true := litAt_true b _ i t (by simpa [Spec.JVal.litNull, Json.litNull] using h)
  simp [skipLiteral, h1, h2]

theorem skipLiteral_true (b : Buf) (i : Nat) (t : List UInt8) (h : Rest b i (Spec.JVal.litTrue ++ t)) :
    skipLiteral b i = .ok (i + 4) := by
  have h1 : litAt b i Json.litFalse = .ok false :=
    litAt_first_ne b _ _ i 0x74 _ (by simpa [Spec.JVal.litTrue] using h) (by decide)
  have h2 : litAt b i Json.litNull = .ok false :=
    litAt_first_ne b _ _ i 0x74 _ (by simpa [Spec.JVal.litTrue] using h) (by decide)
  have h3 : litAt b i Json.litTrue = .ok true := litAt_true b _ i t (by simpa [Spec.JVal.litTrue, Json.litTrue] using h)
  simp [skipLiteral, h1, h2, h3]

theorem skipLiteral_false (b : Buf) (i : Nat) (t : List UInt8) (h : Rest b i (Spec.JVal.litFalse ++ t)) :
    skipLiteral b i = .ok (i + 5) := by
  have h1 : litAt b i Json.litFalse = .ok true := litAt_true b _ i t (by simpa [Spec.JVal.litFalse, Json.litFalse] using h)
  simp [skipLiteral, h1]

/-! ### strings -/

/-- what `skip_string` needs of an item: an unescaped character is neither `"` nor `\`; an escape is not `\u` -/
def ItemOK : SItem → Prop
  | .raw c => c ≠ 0x22 ∧ c ≠ 0x5c
  | .esc e => e ≠ 0x75
  | .uni _ _ _ _ => True

theorem escDecode_ne_u : ∀ e : UInt8, (escDecode e).isSome = true → e ≠ 0x75 := by decide +kernel

theorem ItemOK_of_WF (x : SItem) (h : x.WF) : ItemOK x := by
  cases x with
  | raw c => exact ⟨h.1, h.2.1⟩
  | esc e => exact escDecode_ne_u e h
  | uni a b c d => trivial

theorem serItems_length_pos (x : SItem) : 1 ≤ x.ser.length := by
  cases x <;> simp [SItem.ser]

theorem skipStringF_spec (b : Buf) (s : JStr) (f i : Nat) (t : List UInt8)
    (h : Rest b i (serItems s ++ 0x22 :: t)) (hs : ∀ x ∈ s, ItemOK x) (hf : (serItems s).length < f) :
    skipStringF b f i = .ok (i + (serItems s).length + 1) := by
  induction s generalizing f i with
  | nil =>
    obtain ⟨f', rfl⟩ : ∃ f', f = f' + 1 := ⟨f - 1, by omega⟩
    simp only [serItems, List.nil_append] at h
    simp [skipStringF, h.cons.1, h.rd, serItems]
  | cons x xs ih =>
    obtain ⟨f', rfl⟩ : ∃ f', f = f' + 1 := ⟨f - 1, by omega⟩
    have hxs : ∀ y ∈ xs, ItemOK y := fun y hy => hs y (by simp [hy])
    have hx := hs x (by simp)
    cases x with
    | raw c =>
      simp only [serItems, SItem.ser, List.cons_append, List.nil_append] at h hf ⊢
      obtain ⟨h1, h2⟩ := hx
      have e1 : (c == 0x22) = false := by simpa using h1
      have e2 : (c == 0x5c) = false := by simpa using h2
      simp only [skipStringF, h.cons.1, if_true, h.rd, e1, e2]
      rw [ih f' (i+1) h.cons.2.2 hxs (by simp at hf; omega)]
      simp; omega
    | esc e =>
      simp only [serItems, SItem.ser, List.cons_append, List.nil_append] at h hf ⊢
      have e3 : (e == 0x75) = false := by simpa [ItemOK] using hx
      have h' := h.cons.2.2
      have hne : (i + 1 == b.size) = false := h'.ne_end
      simp only [skipStringF, h.cons.1, if_true, h.rd, h'.rd, hne, e3]
      rw [ih f' (i+2) h'.cons.2.2 hxs (by simp at hf; omega)]
      simp; omega
    | uni a b' c d =>
      simp only [serItems, SItem.ser, List.cons_append, List.nil_append] at h hf ⊢
      have h' := h.cons.2.2
      have hne : (i + 1 == b.size) = false := h'.ne_end
      have h6 : Rest b (i+6) (serItems xs ++ 0x22 :: t) := h'.cons.2.2.cons.2.2.cons.2.2.cons.2.2.cons.2.2
      have hsz := h6.size
      have h4 : ¬ (b.size - (i + 2) < 4) := by omega
      simp only [skipStringF, h.cons.1, if_true, h.rd, h'.rd, hne, h4, if_false]
      rw [ih f' (i+6) h6 hxs (by simp at hf; omega)]
      simp; omega

theorem skipString_spec (b : Buf) (s : JStr) (i : Nat) (t : List UInt8) (h : Rest b i (s.ser ++ t)) (hs : s.WF) :
    skipString b i = .ok (i + s.ser.length) := by
  simp only [JStr.ser, List.cons_append, List.append_assoc] at h
  have h1 := h.cons.2.2
  have hsz := h1.size
  simp at hsz
  simp only [skipString]
  rw [skipStringF_spec b s _ (i+1) t (by simpa using h1) (fun x hx => ItemOK_of_WF x (hs x hx)) (by omega)]
  simp [JStr.ser]; omega


/-! ### values -/

def elemsWb : JElems → Ws
  | .one wb _ _ => wb
  | .more wb _ _ _ => wb

/-- the text of a list of elements after its first whitespace -/
def elemsBody : JElems → Bytes
  | .one _ v wa => v.ser ++ wa
  | .more _ v wa rest => v.ser ++ (wa ++ 0x2c :: rest.ser)

theorem elems_ser (es : JElems) : es.ser = elemsWb es ++ elemsBody es := by
  cases es <;> simp [JElems.ser, elemsWb, elemsBody]

def membersWb : JMembers → Ws
  | .one wb _ _ _ _ _ => wb
  | .more wb _ _ _ _ _ _ => wb

def membersBody : JMembers → Bytes
  | .one _ k wk wv v wa => k.ser ++ (wk ++ 0x3a :: (wv ++ (v.ser ++ wa)))
  | .more _ k wk wv v wa rest => k.ser ++ (wk ++ 0x3a :: (wv ++ (v.ser ++ (wa ++ 0x2c :: rest.ser))))

theorem members_ser (ms : JMembers) : ms.ser = membersWb ms ++ membersBody ms := by
  cases ms <;> simp [JMembers.ser, membersWb, membersBody]

/-- what may follow a value: after a number token, not another number character -/
def Follow : JDoc → List UInt8 → Prop
  | .num _, t => NoNumHead t
  | _, _ => True

theorem numTok_props : ∀ c : UInt8, isNumTokCh c = true →
    isWsCh c = false ∧ c ≠ 0x5d ∧ c ≠ 0x7d ∧ (c == 0x66 || c == 0x6e || c == 0x74) = false ∧ (c == 0x22) = false ∧
    (c == 0x5b) = false ∧ (c == 0x7b) = false := by decide +kernel

theorem ws_not_num : ∀ c : UInt8, isWsCh c = true → isNumCh c = false := by decide +kernel

/-- the first character of a value is not whitespace and not a closing bracket -/
theorem ser_head (d : JDoc) (h : d.WF) : ∃ c r, d.ser = c :: r ∧ isWsCh c = false ∧ c ≠ 0x5d ∧ c ≠ 0x7d := by
  cases d with
  | null => exact ⟨0x6e, _, rfl, by decide, by decide, by decide⟩
  | bool v => cases v
              · exact ⟨0x66, _, rfl, by decide, by decide, by decide⟩
              · exact ⟨0x74, _, rfl, by decide, by decide, by decide⟩
  | num tok =>
    obtain ⟨hne, hall⟩ := h
    cases tok with
    | nil => exact absurd rfl hne
    | cons c r =>
      have := numTok_props c (hall c (by simp))
      exact ⟨c, r, rfl, this.1, this.2.1, this.2.2.1⟩
  | str s => exact ⟨0x22, _, rfl, by decide, by decide, by decide⟩
  | arr0 w => exact ⟨0x5b, _, rfl, by decide, by decide, by decide⟩
  | arr es => exact ⟨0x5b, _, rfl, by decide, by decide, by decide⟩
  | obj0 w => exact ⟨0x7b, _, rfl, by decide, by decide, by decide⟩
  | obj ms => exact ⟨0x7b, _, rfl, by decide, by decide, by decide⟩

theorem noWsHead_cons {c : UInt8} {t : List UInt8} (h : isWsCh c = false) : NoWsHead (c :: t) := by
  intro c' hc; simp at hc; subst hc; exact h

theorem noWsHead_ser (d : JDoc) (h : d.WF) (t : List UInt8) : NoWsHead (d.ser ++ t) := by
  obtain ⟨c, r, hc, h1, _, _⟩ := ser_head d h
  rw [hc]; exact noWsHead_cons h1

/-- whitespace followed by a structural character cannot continue a number -/
theorem noNumHead_ws_cons {w : List UInt8} {x : UInt8} {t : List UInt8} (hw : WsWF w) (hx : isNumCh x = false) :
    NoNumHead (w ++ x :: t) := by
  intro c hc
  cases w with
  | nil => simp at hc; subst hc; exact hx
  | cons y w' => simp at hc; subst hc; exact ws_not_num _ (hw _ (by simp))

theorem follow_ws_cons (d : JDoc) {w : List UInt8} {x : UInt8} {t : List UInt8} (hw : WsWF w) (hx : isNumCh x = false) :
    Follow d (w ++ x :: t) := by
  cases d <;> simp only [Follow] <;> first | trivial | exact noNumHead_ws_cons hw hx

theorem JStr.ser_cons (s : JStr) : s.ser = 0x22 :: (serItems s ++ [0x22]) := rfl


/-- after a value inside an array: whitespace, then `]` -/
theorem arr_close (b : Buf) (f j2 : Nat) (wa t : List UInt8) (h : Rest b j2 (wa ++ 0x5d :: t)) (hwa : WsWF wa) :
    (skipWs b j2 >>= fun j =>
      if j == b.size then Res.ok b.size else
      rdR b j >>= fun c =>
        if c == 0x5d then Res.ok (j+1)
        else if c != 0x2c then Res.ok b.size
        else arrLoopF b f (j+1)) = .ok (j2 + wa.length + 1) := by
  rw [skipWs_spec b wa j2 _ h hwa (noWsHead_cons (by decide)), Res.ok_bind]
  have h' := h.append
  simp [h'.ne_end, h'.cons.2.1]

/-- after a value inside an array: whitespace, then `,` -/
theorem arr_comma (b : Buf) (f j2 : Nat) (wa t : List UInt8) (h : Rest b j2 (wa ++ 0x2c :: t)) (hwa : WsWF wa) :
    (skipWs b j2 >>= fun j =>
      if j == b.size then Res.ok b.size else
      rdR b j >>= fun c =>
        if c == 0x5d then Res.ok (j+1)
        else if c != 0x2c then Res.ok b.size
        else arrLoopF b f (j+1)) = arrLoopF b f (j2 + wa.length + 1) := by
  rw [skipWs_spec b wa j2 _ h hwa (noWsHead_cons (by decide)), Res.ok_bind]
  have h' := h.append
  simp [h'.ne_end, h'.cons.2.1]

theorem obj_close (b : Buf) (f j2 : Nat) (wa t : List UInt8) (h : Rest b j2 (wa ++ 0x7d :: t)) (hwa : WsWF wa) :
    (skipWs b j2 >>= fun j =>
      if j == b.size then Res.ok b.size else
      rdR b j >>= fun c =>
        if c == 0x7d then Res.ok (j+1)
        else if c != 0x2c then Res.ok b.size
        else objLoopF b f (j+1)) = .ok (j2 + wa.length + 1) := by
  rw [skipWs_spec b wa j2 _ h hwa (noWsHead_cons (by decide)), Res.ok_bind]
  have h' := h.append
  simp [h'.ne_end, h'.cons.2.1]

theorem obj_comma (b : Buf) (f j2 : Nat) (wa t : List UInt8) (h : Rest b j2 (wa ++ 0x2c :: t)) (hwa : WsWF wa) :
    (skipWs b j2 >>= fun j =>
      if j == b.size then Res.ok b.size else
      rdR b j >>= fun c =>
        if c == 0x7d then Res.ok (j+1)
        else if c != 0x2c then Res.ok b.size
        else objLoopF b f (j+1)) = objLoopF b f (j2 + wa.length + 1) := by
  rw [skipWs_spec b wa j2 _ h hwa (noWsHead_cons (by decide)), Res.ok_bind]
  have h' := h.append
  simp [h'.ne_end, h'.cons.2.1]

/-- the part of one round of `skip_object`'s loop before the value: name, whitespace, `:`, whitespace -/
theorem obj_member_head (b : Buf) (i : Nat) (w' : Ws) (k : JStr) (wk wv t : List UInt8) (g : Nat → Res Nat)
    (h : Rest b i (w' ++ (k.ser ++ (wk ++ 0x3a :: (wv ++ t))))) (hw' : WsWF w') (hk : k.WF) (hwk : WsWF wk)
    (hwv : WsWF wv) (ht : NoWsHead t) :
    (skipWs b i >>= fun j0 =>
      if j0 == b.size then Res.ok b.size else
      skipString b j0 >>= fun j1 =>
      skipWs b j1 >>= fun j2 =>
        if j2 == b.size then Res.ok b.size else
        rdR b j2 >>= fun c =>
          if c != 0x3a then Res.ok b.size
          else skipWs b (j2+1) >>= g) = g (i + w'.length + k.ser.length + wk.length + 1 + wv.length) := by
  rw [skipWs_spec b w' i _ h hw' (by rw [JStr.ser_cons]; exact noWsHead_cons (by decide)), Res.ok_bind]
  have h0 := h.append
  have hne0 : (i + w'.length == b.size) = false := by rw [JStr.ser_cons] at h0; exact h0.ne_end
  rw [hne0]
  simp only [Bool.false_eq_true, if_false]
  rw [skipString_spec b k _ _ h0 hk, Res.ok_bind]
  have h1 := h0.append
  rw [skipWs_spec b wk _ _ h1 hwk (noWsHead_cons (by decide)), Res.ok_bind]
  have h2 := h1.append
  rw [h2.ne_end]
  simp only [Bool.false_eq_true, if_false, h2.cons.2.1, Res.ok_bind, bne_self_eq_false]
  rw [skipWs_spec b wv _ _ h2.cons.2.2 hwv ht, Res.ok_bind]


theorem elemsBody_one (wb : Ws) (v : JDoc) (wa : Ws) : elemsBody (.one wb v wa) = v.ser ++ wa := rfl
theorem elemsBody_more (wb : Ws) (v : JDoc) (wa : Ws) (rest : JElems) :
    elemsBody (.more wb v wa rest) = v.ser ++ (wa ++ 0x2c :: rest.ser) := rfl
theorem membersBody_one (wb : Ws) (k : JStr) (wk wv : Ws) (v : JDoc) (wa : Ws) :
    membersBody (.one wb k wk wv v wa) = k.ser ++ (wk ++ 0x3a :: (wv ++ (v.ser ++ wa))) := rfl
theorem membersBody_more (wb : Ws) (k : JStr) (wk wv : Ws) (v : JDoc) (wa : Ws) (rest : JMembers) :
    membersBody (.more wb k wk wv v wa rest) =
      k.ser ++ (wk ++ 0x3a :: (wv ++ (v.ser ++ (wa ++ 0x2c :: rest.ser)))) := rfl

theorem elems_ser_length (es : JElems) : es.ser.length = (elemsWb es).length + (elemsBody es).length := by
  rw [elems_ser]; simp

theorem members_ser_length (ms : JMembers) : ms.ser.length = (membersWb ms).length + (membersBody ms).length := by
  rw [members_ser]; simp

theorem not_num_5d : isNumCh 0x5d = false := by decide
theorem not_num_7d : isNumCh 0x7d = false := by decide
theorem not_num_2c : isNumCh 0x2c = false := by decide

mutual
/-- `skip_value` consumes exactly the text of one value -/
theorem value_spec (b : Buf) : ∀ (d : JDoc) (f i : Nat) (t : List UInt8), d.WF → Rest b i (d.ser ++ t) → Follow d t →
    3 * d.ser.length + 1 ≤ f → skipValueF b f i = .ok (i + d.ser.length)
  | .null, f, i, t, _, hr, _, hf => by
    obtain ⟨f', rfl⟩ : ∃ f', f = f' + 1 := ⟨f - 1, by omega⟩
    have hr' : Rest b i (0x6e :: ([0x75, 0x6c, 0x6c] ++ t)) := hr
    simp only [skipValueF, hr'.ne_end, hr'.cons.2.1, Res.ok_bind]
    simpa [JDoc.ser, Spec.JVal.litNull] using skipLiteral_null b i t hr
  | .bool true, f, i, t, _, hr, _, hf => by
    obtain ⟨f', rfl⟩ : ∃ f', f = f' + 1 := ⟨f - 1, by omega⟩
    have hr' : Rest b i (0x74 :: ([0x72, 0x75, 0x65] ++ t)) := hr
    simp only [skipValueF, hr'.ne_end, hr'.cons.2.1, Res.ok_bind]
    simpa [JDoc.ser, Spec.JVal.litTrue] using skipLiteral_true b i t hr
  | .bool false, f, i, t, _, hr, _, hf => by
    obtain ⟨f', rfl⟩ : ∃ f', f = f' + 1 := ⟨f - 1, by omega⟩
    have hr' : Rest b i (0x66 :: ([0x61, 0x6c, 0x73, 0x65] ++ t)) := hr
    simp only [skipValueF, hr'.ne_end, hr'.cons.2.1, Res.ok_bind]
    simpa [JDoc.ser, Spec.JVal.litFalse] using skipLiteral_false b i t hr
  | .num tok, f, i, t, hwf, hr, hfo, hf => by
    obtain ⟨f', rfl⟩ : ∃ f', f = f' + 1 := ⟨f - 1, by omega⟩
    obtain ⟨hne, hall⟩ := hwf
    cases tok with
    | nil => exact absurd rfl hne
    | cons c r =>
      have hp := numTok_props c (hall c (by simp))
      have hn := numTok_isNumCh c (hall c (by simp))
      have hr' : Rest b i (c :: (r ++ t)) := hr
      simp only [skipValueF, hr'.ne_end, hr'.cons.2.1, Res.ok_bind, hp.2.2.2.1, hp.2.2.2.2.1, hp.2.2.2.2.2.1,
        hp.2.2.2.2.2.2, hn, Bool.false_eq_true, if_false, if_true]
      exact skipNumber_spec b (c :: r) i t hr hall hfo
  | .str s, f, i, t, hwf, hr, _, hf => by
    obtain ⟨f', rfl⟩ : ∃ f', f = f' + 1 := ⟨f - 1, by omega⟩
    have hr' : Rest b i (0x22 :: ((serItems s ++ [0x22]) ++ t)) := hr
    simp only [skipValueF, hr'.ne_end, hr'.cons.2.1, Res.ok_bind]
    simpa [JDoc.ser] using skipString_spec b s i t hr hwf
  | .arr0 w, f, i, t, hwf, hr, _, hf => by
    obtain ⟨f', rfl⟩ : ∃ f', f = f' + 2 := ⟨f - 2, by simp [JDoc.ser] at hf; omega⟩
    have hr' : Rest b i (0x5b :: (w ++ 0x5d :: t)) := by simpa [JDoc.ser] using hr
    simp only [skipValueF, hr'.ne_end, hr'.cons.2.1, Res.ok_bind]
    simp only [skipArrayF]
    have h1 := hr'.cons.2.2
    rw [skipWs_spec b w (i+1) _ h1 hwf (noWsHead_cons (by decide)), Res.ok_bind]
    have h2 := h1.append
    simp [h2.ne_end, h2.cons.2.1, JDoc.ser]; omega
  | .arr es, f, i, t, hwf, hr, _, hf => by
    obtain ⟨f', rfl⟩ : ∃ f', f = f' + 2 := ⟨f - 2, by simp [JDoc.ser] at hf; omega⟩
    have hl := elems_ser_length es
    have hr' : Rest b i (0x5b :: (elemsWb es ++ (elemsBody es ++ 0x5d :: t))) := by
      simp only [JDoc.ser] at hr
      rw [elems_ser es] at hr
      simpa using hr
    simp only [skipValueF, hr'.ne_end, hr'.cons.2.1, Res.ok_bind]
    simp only [skipArrayF]
    have h1 := hr'.cons.2.2
    have hwb : WsWF (elemsWb es) := by cases es <;> exact hwf.1
    -- the first character of the first element
    have hv : ∃ c r, elemsBody es = c :: r ∧ isWsCh c = false ∧ c ≠ 0x5d := by
      cases es with
      | one wb v wa =>
        obtain ⟨c, r, hc, p1, p2, _⟩ := ser_head v hwf.2.1
        exact ⟨c, r ++ wa, by simp [elemsBody_one, elemsBody_more, hc], p1, p2⟩
      | more wb v wa rest =>
        obtain ⟨c, r, hc, p1, p2, _⟩ := ser_head v hwf.2.1
        exact ⟨c, r ++ (wa ++ 0x2c :: rest.ser), by simp [elemsBody_one, elemsBody_more, hc], p1, p2⟩
    obtain ⟨c, r, hc, p1, p2⟩ := hv
    rw [skipWs_spec b (elemsWb es) (i+1) _ h1 hwb (by rw [hc]; exact noWsHead_cons p1), Res.ok_bind]
    have h2 := h1.append
    have h2' : Rest b (i + 1 + (elemsWb es).length) (c :: (r ++ 0x5d :: t)) := by simpa [hc] using h2
    have e1 : (c == 0x5d) = false := by simpa using p2
    simp only [h2'.ne_end, Bool.false_eq_true, if_false, h2'.cons.2.1, Res.ok_bind, e1]
    have := elems_spec b es f' (i + 1 + (elemsWb es).length) [] t hwf (by intro c hc; cases hc)
      (by simpa using h2) (by simp [JDoc.ser] at hf ⊢; omega)
    rw [this]
    simp [JDoc.ser]; omega
  | .obj0 w, f, i, t, hwf, hr, _, hf => by
    obtain ⟨f', rfl⟩ : ∃ f', f = f' + 2 := ⟨f - 2, by simp [JDoc.ser] at hf; omega⟩
    have hr' : Rest b i (0x7b :: (w ++ 0x7d :: t)) := by simpa [JDoc.ser] using hr
    simp only [skipValueF, hr'.ne_end, hr'.cons.2.1, Res.ok_bind]
    simp only [skipObjectF]
    have h1 := hr'.cons.2.2
    rw [skipWs_spec b w (i+1) _ h1 hwf (noWsHead_cons (by decide)), Res.ok_bind]
    have h2 := h1.append
    simp [h2.ne_end, h2.cons.2.1, JDoc.ser]; omega
  | .obj ms, f, i, t, hwf, hr, _, hf => by
    obtain ⟨f', rfl⟩ : ∃ f', f = f' + 2 := ⟨f - 2, by simp [JDoc.ser] at hf; omega⟩
    have hl := members_ser_length ms
    have hr' : Rest b i (0x7b :: (membersWb ms ++ (membersBody ms ++ 0x7d :: t))) := by
      simp only [JDoc.ser] at hr
      rw [members_ser ms] at hr
      simpa using hr
    simp only [skipValueF, hr'.ne_end, hr'.cons.2.1, Res.ok_bind]
    simp only [skipObjectF]
    have h1 := hr'.cons.2.2
    have hwb : WsWF (membersWb ms) := by cases ms <;> exact hwf.1
    have hv : ∃ r, membersBody ms = 0x22 :: r := by
      cases ms <;> exact ⟨_, rfl⟩
    obtain ⟨r, hc⟩ := hv
    rw [skipWs_spec b (membersWb ms) (i+1) _ h1 hwb (by rw [hc]; exact noWsHead_cons (by decide)), Res.ok_bind]
    have h2 := h1.append
    have h2' : Rest b (i + 1 + (membersWb ms).length) (0x22 :: (r ++ 0x7d :: t)) := by simpa [hc] using h2
    simp only [h2'.ne_end, Bool.false_eq_true, if_false, h2'.cons.2.1, Res.ok_bind]
    have := members_spec b ms f' (i + 1 + (membersWb ms).length) [] t hwf (by intro c hc; cases hc)
      (by simpa using h2) (by simp [JDoc.ser] at hf ⊢; omega)
    simp only [show ((0x22 : UInt8) == 0x7d) = false by decide, Bool.false_eq_true, if_false]
    rw [this]
    simp [JDoc.ser]; omega
/-- the loop of `skip_array`, entered before (some whitespace and) an element -/
theorem elems_spec (b : Buf) : ∀ (es : JElems) (f i : Nat) (w' t : List UInt8), es.WF → WsWF w' →
    Rest b i (w' ++ (elemsBody es ++ 0x5d :: t)) → 3 * (w' ++ elemsBody es).length + 2 ≤ f →
    arrLoopF b f i = .ok (i + (w' ++ elemsBody es).length + 1)
  | .one wb v wa, f, i, w', t, hwf, hw', hr, hf => by
    obtain ⟨f', rfl⟩ : ∃ f', f = f' + 1 := ⟨f - 1, by omega⟩
    obtain ⟨_, hv, hwa⟩ := hwf
    have hr' : Rest b i (w' ++ (v.ser ++ (wa ++ 0x5d :: t))) := by simpa [elemsBody_one] using hr
    simp only [arrLoopF]
    rw [skipWs_spec b w' i _ hr' hw' (noWsHead_ser v hv _), Res.ok_bind]
    have h1 := hr'.append
    rw [value_spec b v f' _ _ hv h1 (follow_ws_cons v hwa not_num_5d)
      (by simp [elemsBody_one, elemsBody_more] at hf; omega), Res.ok_bind]
    rw [arr_close b f' _ wa t h1.append hwa]
    simp [elemsBody_one, elemsBody_more]; omega
  | .more wb v wa rest, f, i, w', t, hwf, hw', hr, hf => by
    obtain ⟨f', rfl⟩ : ∃ f', f = f' + 1 := ⟨f - 1, by omega⟩
    obtain ⟨_, hv, hwa, hrest⟩ := hwf
    have hl := elems_ser_length rest
    have hr' : Rest b i (w' ++ (v.ser ++ (wa ++ 0x2c :: (elemsWb rest ++ (elemsBody rest ++ 0x5d :: t))))) := by
      simp only [elemsBody_one, elemsBody_more] at hr
      rw [elems_ser rest] at hr
      simpa using hr
    simp only [arrLoopF]
    rw [skipWs_spec b w' i _ hr' hw' (noWsHead_ser v hv _), Res.ok_bind]
    have h1 := hr'.append
    rw [value_spec b v f' _ _ hv h1 (follow_ws_cons v hwa not_num_2c)
      (by simp [elemsBody_one, elemsBody_more] at hf; omega), Res.ok_bind]
    have h2 := h1.append
    rw [arr_comma b f' _ wa _ h2 hwa]
    have hwb : WsWF (elemsWb rest) := by cases rest <;> exact hrest.1
    rw [elems_spec b rest f' _ (elemsWb rest) t hrest hwb h2.append.cons.2.2
      (by simp [elemsBody_one, elemsBody_more] at hf ⊢; omega)]
    simp [elemsBody_one, elemsBody_more]; omega
/-- the loop of `skip_object`, entered before (some whitespace and) a member -/
theorem members_spec (b : Buf) : ∀ (ms : JMembers) (f i : Nat) (w' t : List UInt8), ms.WF → WsWF w' →
    Rest b i (w' ++ (membersBody ms ++ 0x7d :: t)) → 3 * (w' ++ membersBody ms).length + 2 ≤ f →
    objLoopF b f i = .ok (i + (w' ++ membersBody ms).length + 1)
  | .one wb k wk wv v wa, f, i, w', t, hwf, hw', hr, hf => by
    obtain ⟨f', rfl⟩ : ∃ f', f = f' + 1 := ⟨f - 1, by omega⟩
    obtain ⟨_, hk, hwk, hwv, hv, hwa⟩ := hwf
    have hr' : Rest b i (w' ++ (k.ser ++ (wk ++ 0x3a :: (wv ++ (v.ser ++ (wa ++ 0x7d :: t)))))) := by
      simpa [membersBody_one] using hr
    simp only [objLoopF]
    rw [obj_member_head b i w' k wk wv _ _ hr' hw' hk hwk hwv (noWsHead_ser v hv _)]
    have h1 : Rest b (i + w'.length + k.ser.length + wk.length + 1 + wv.length) (v.ser ++ (wa ++ 0x7d :: t)) := by
      have := hr'.append.append.append.cons.2.2.append
      simpa [Nat.add_assoc] using this
    rw [value_spec b v f' _ _ hv h1 (follow_ws_cons v hwa not_num_7d)
      (by simp [membersBody_one, membersBody_more] at hf; omega), Res.ok_bind]
    rw [obj_close b f' _ wa t h1.append hwa]
    simp [membersBody_one, membersBody_more]; omega
  | .more wb k wk wv v wa rest, f, i, w', t, hwf, hw', hr, hf => by
    obtain ⟨f', rfl⟩ : ∃ f', f = f' + 1 := ⟨f - 1, by omega⟩
    obtain ⟨_, hk, hwk, hwv, hv, hwa, hrest⟩ := hwf
    have hl := members_ser_length rest
    have hr' : Rest b i (w' ++ (k.ser ++ (wk ++ 0x3a :: (wv ++ (v.ser ++ (wa ++ 0x2c ::
        (membersWb rest ++ (membersBody rest ++ 0x7d :: t)))))))) := by
      simp only [membersBody_one, membersBody_more] at hr
      rw [members_ser rest] at hr
      simpa using hr
    simp only [objLoopF]
    rw [obj_member_head b i w' k wk wv _ _ hr' hw' hk hwk hwv (noWsHead_ser v hv _)]
    have h1 : Rest b (i + w'.length + k.ser.length + wk.length + 1 + wv.length)
        (v.ser ++ (wa ++ 0x2c :: (membersWb rest ++ (membersBody rest ++ 0x7d :: t)))) := by
      have := hr'.append.append.append.cons.2.2.append
      simpa [Nat.add_assoc] using this
    rw [value_spec b v f' _ _ hv h1 (follow_ws_cons v hwa not_num_2c)
      (by simp [membersBody_one, membersBody_more] at hf; omega), Res.ok_bind]
    have h2 := h1.append
    rw [obj_comma b f' _ wa _ h2 hwa]
    have hwb : WsWF (membersWb rest) := by cases rest <;> exact hrest.1
    rw [members_spec b rest f' _ (membersWb rest) t hrest hwb h2.append.cons.2.2
      (by simp [membersBody_one, membersBody_more] at hf ⊢; omega)]
    simp [membersBody_one, membersBody_more]; omega
end


/-- `skip_value` (with the fuel the model gives it) consumes exactly the text of one value -/
theorem skipValue_spec (b : Buf) (d : JDoc) (i : Nat) (t : List UInt8) (hwf : d.WF) (hr : Rest b i (d.ser ++ t))
    (hfo : Follow d t) : skipValue b i = .ok (i + d.ser.length) := by
  have hs := hr.size
  simp at hs
  exact value_spec b d _ i t hwf hr hfo (by simp only [valueFuel]; omega)


/-! ### `match_str` -/

theorem escChar_eq : ∀ e : UInt8, escChar e = escDecode e := by decide +kernel
theorem escDecode_ne_some_zero : ∀ e : UInt8, escDecode e ≠ some 0 := by decide +kernel
theorem escDecode_ne_zero (e c : UInt8) (h : escDecode e = some c) : c ≠ 0 := by
  intro h0
  subst h0
  exact escDecode_ne_some_zero e h

/-- reading the key string at the split point `kp | kr` -/
theorem key_at (kp kr : List UInt8) :
    rdR (cstr (kp ++ kr)) kp.length = .ok (match kr with | [] => 0 | k0 :: _ => k0) := by
  have hlt : kp.length < (cstr (kp ++ kr)).size := by simp [cstr] <;> omega
  rw [rdR_lt hlt]
  cases kr <;> simp [cstr]

theorem matchStep_nil (kp : List UInt8) (ch : UInt8) (found : Bool) :
    matchStep (cstr (kp ++ [])) kp.length ch found = .ok (kp.length, found && ch == 0) := by
  simp only [matchStep, key_at, Res.ok_bind]
  simp

theorem matchStep_cons (kp : List UInt8) (k0 : UInt8) (kr : List UInt8) (h0 : k0 ≠ 0) (ch : UInt8) (found : Bool) :
    matchStep (cstr (kp ++ k0 :: kr)) kp.length ch found = .ok (kp.length + 1, found && ch == k0) := by
  simp only [matchStep, key_at, Res.ok_bind]
  simp [h0]

theorem decide_map_cons (c k0 : UInt8) (o : Option (List UInt8)) (kr : List UInt8) :
    decide (o.map (c :: ·) = some (k0 :: kr)) = (c == k0 && decide (o = some kr)) := by
  cases o with
  | none => simp
  | some r =>
    by_cases h1 : c = k0 <;> by_cases h2 : r = kr <;> simp [h1, h2]

theorem decide_map_nil (c : UInt8) (o : Option (List UInt8)) : decide (o.map (c :: ·) = some []) = false := by
  cases o <;> simp

theorem matchStrF_spec (b : Buf) (s : JStr) : ∀ (f i : Nat) (found : Bool) (kp kr : List UInt8) (t : List UInt8),
    (∀ c ∈ kp ++ kr, c ≠ 0) → Rest b i (serItems s ++ 0x22 :: t) → s.WF → (serItems s).length < f →
    matchStrF b (cstr (kp ++ kr)) f i kp.length found =
      .ok (i + (serItems s).length + 1, found && decide (JStr.decode s = some kr)) := by
  induction s with
  | nil =>
    intro f i found kp kr t hk h _ hf
    obtain ⟨f', rfl⟩ : ∃ f', f = f' + 1 := ⟨f - 1, by omega⟩
    simp only [serItems, List.nil_append] at h
    simp only [matchStrF, h.ne_end, Bool.false_eq_true, if_false, h.cons.2.1, Res.ok_bind, key_at]
    cases kr with
    | nil => simp [serItems, JStr.decode]
    | cons k0 kr' =>
      have : k0 ≠ 0 := hk k0 (by simp)
      simp [serItems, JStr.decode, this]
  | cons x xs ih =>
    intro f i found kp kr t hk h hwf hf
    obtain ⟨f', rfl⟩ : ∃ f', f = f' + 1 := ⟨f - 1, by omega⟩
    have hxs : JStr.WF xs := fun y hy => hwf y (by simp [hy])
    have hx := hwf x (by simp)
    cases x with
    | raw c =>
      obtain ⟨h1, h2, h3⟩ := hx
      simp only [serItems, SItem.ser, List.cons_append, List.nil_append] at h hf ⊢
      have e1 : (c == 0x22) = false := by simpa using h1
      have e2 : (c == 0x5c) = false := by simpa using h2
      simp only [matchStrF, h.ne_end, Bool.false_eq_true, if_false, h.cons.2.1, Res.ok_bind, e1, e2]
      cases kr with
      | nil =>
        rw [matchStep_nil, Res.ok_bind]
        have := ih f' (i+1) (found && c == 0) kp [] t hk h.cons.2.2 hxs (by simp at hf; omega)
        simp only [List.append_nil] at this ⊢
        rw [this]
        have e3 : (c == 0) = false := by simpa using h3
        simp [JStr.decode, decide_map_nil, e3]; omega
      | cons k0 kr' =>
        have hk0 : k0 ≠ 0 := hk k0 (by simp)
        rw [matchStep_cons kp k0 kr' hk0, Res.ok_bind]
        have := ih f' (i+1) (found && c == k0) (kp ++ [k0]) kr' t (by simpa using hk) h.cons.2.2 hxs
          (by simp at hf; omega)
        simp only [List.append_assoc, List.singleton_append, List.length_append, List.length_singleton] at this
        rw [this]
        simp only [JStr.decode, decide_map_cons, List.length_cons]
        simp only [Res.ok.injEq, Prod.mk.injEq]
        refine ⟨by omega, ?_⟩
        by_cases q : c = k0 <;> simp [q]
    | esc e =>
      simp only [serItems, SItem.ser, List.cons_append, List.nil_append] at h hf ⊢
      have hx' : (escDecode e).isSome = true := hx
      have e3 : (e == 0x75) = false := by simpa using escDecode_ne_u e hx'
      obtain ⟨ch', hch⟩ := Option.isSome_iff_exists.mp hx'
      have hch0 : ch' ≠ 0 := escDecode_ne_zero e ch' hch
      have h' := h.cons.2.2
      simp only [matchStrF, h.ne_end, Bool.false_eq_true, if_false, h.cons.2.1, Res.ok_bind,
        show ((0x5c : UInt8) == 0x22) = false by decide, show ((0x5c : UInt8) == 0x5c) = true by decide, if_true,
        h'.ne_end, h'.cons.2.1, e3, escChar_eq, hch]
      cases kr with
      | nil =>
        rw [matchStep_nil, Res.ok_bind]
        have := ih f' (i+2) (found && ch' == 0) kp [] t hk h'.cons.2.2 hxs (by simp at hf; omega)
        simp only [List.append_nil] at this ⊢
        rw [this]
        have e4 : (ch' == 0) = false := by simpa using hch0
        simp only [JStr.decode, hch, e4, Bool.and_false, Bool.false_and, List.length_cons]
        cases JStr.decode xs <;> simp <;> omega
      | cons k0 kr' =>
        have hk0 : k0 ≠ 0 := hk k0 (by simp)
        rw [matchStep_cons kp k0 kr' hk0, Res.ok_bind]
        have := ih f' (i+2) (found && ch' == k0) (kp ++ [k0]) kr' t (by simpa using hk) h'.cons.2.2 hxs
          (by simp at hf; omega)
        simp only [List.append_assoc, List.singleton_append, List.length_append, List.length_singleton] at this
        rw [this]
        simp only [JStr.decode, hch, List.length_cons]
        cases hd : JStr.decode xs with
        | none => simp; omega
        | some r =>
          by_cases q1 : ch' = k0 <;> by_cases q2 : r = kr' <;> simp [q1, q2] <;> omega
    | uni a b' c d =>
      simp only [serItems, SItem.ser, List.cons_append, List.nil_append] at h hf ⊢
      have h' := h.cons.2.2
      have h6 : Rest b (i+6) (serItems xs ++ 0x22 :: t) := h'.cons.2.2.cons.2.2.cons.2.2.cons.2.2.cons.2.2
      have hsz := h6.size
      have h4 : ¬ (b.size - (i + 2) < 4) := by omega
      simp only [matchStrF, h.ne_end, Bool.false_eq_true, if_false, h.cons.2.1, Res.ok_bind,
        show ((0x5c : UInt8) == 0x22) = false by decide, show ((0x5c : UInt8) == 0x5c) = true by decide, if_true,
        h'.ne_end, h'.cons.2.1, show ((0x75 : UInt8) == 0x75) = true by decide, h4]
      cases kr with
      | nil =>
        rw [matchStep_nil, Res.ok_bind]
        have := ih f' (i+6) (false && (0x5c : UInt8) == 0) kp [] t hk h6 hxs (by simp at hf; omega)
        simp only [List.append_nil] at this ⊢
        rw [this]
        simp [JStr.decode]; omega
      | cons k0 kr' =>
        have hk0 : k0 ≠ 0 := hk k0 (by simp)
        rw [matchStep_cons kp k0 kr' hk0, Res.ok_bind]
        have := ih f' (i+6) (false && (0x5c : UInt8) == k0) (kp ++ [k0]) kr' t (by simpa using hk) h6 hxs
          (by simp at hf; omega)
        simp only [List.append_assoc, List.singleton_append, List.length_append, List.length_singleton] at this
        rw [this]
        simp [JStr.decode]; omega

/-- `match_str` on the name of a member (entered after the opening quote): it stops after the closing quote and
    reports whether the decoded name equals the key -/
theorem matchStr_spec (b : Buf) (s : JStr) (i : Nat) (key t : List UInt8) (hk : ∀ c ∈ key, c ≠ 0)
    (h : Rest b i (serItems s ++ 0x22 :: t)) (hwf : s.WF) :
    matchStr b (cstr key) i = .ok (i + (serItems s).length + 1, decide (JStr.decode s = some key)) := by
  have hs := h.size
  simp at hs
  have := matchStrF_spec b s (b.size - i + 1) i true [] key t (by simpa using hk) h hwf (by omega)
  simpa [matchStr] using this


/-! ### `SCAN` and `json_find` -/

theorem scan_hit (b : Buf) (i : Nat) (w : List UInt8) (ch : UInt8) (t : List UInt8) (h : Rest b i (w ++ ch :: t))
    (hw : WsWF w) (hch : isWsCh ch = false) : scan b i ch = .ok (some (i + w.length + 1)) := by
  simp only [scan]
  rw [skipWs_spec b w i _ h hw (noWsHead_cons hch), Res.ok_bind]
  have h' := h.append
  simp [h'.ne_end, h'.cons.2.1]

theorem scan_miss (b : Buf) (i : Nat) (w : List UInt8) (c ch : UInt8) (t : List UInt8) (h : Rest b i (w ++ c :: t))
    (hw : WsWF w) (hc : isWsCh c = false) (hne : c ≠ ch) : scan b i ch = .ok none := by
  simp only [scan]
  rw [skipWs_spec b w i _ h hw (noWsHead_cons hc), Res.ok_bind]
  have h' := h.append
  simp [h'.ne_end, h'.cons.2.1, hne]

def membersCount : JMembers → Nat
  | .one .. => 1
  | .more _ _ _ _ _ _ rest => membersCount rest + 1

theorem membersCount_le : ∀ ms : JMembers, membersCount ms ≤ ms.ser.length
  | .one wb k wk wv v wa => by simp [membersCount, JMembers.ser, JStr.ser]; omega
  | .more wb k wk wv v wa rest => by
    have := membersCount_le rest
    simp [membersCount, JMembers.ser, JStr.ser]; omega

/-- the answer of the loop of `json_find` started at the beginning of a member list -/
def findAnswer (b : Buf) (key : List UInt8) (ms : JMembers) (i : Nat) : Nat :=
  match findMember key ms.erase with
  | some m => (match ms.valuePos m with | some p => i + p | none => b.size)
  | none => b.size

/-- one round of the loop up to the value: `"` name `"` ws `:` ws -/
theorem find_member_head (b : Buf) (key : List UInt8) (hk : ∀ c ∈ key, c ≠ 0) (f i : Nat) (wb : Ws) (k : JStr)
    (wk wv t : List UInt8) (h : Rest b i (wb ++ (k.ser ++ (wk ++ 0x3a :: (wv ++ t))))) (hwb : WsWF wb) (hkw : k.WF)
    (hwk : WsWF wk) (hwv : WsWF wv) (ht : NoWsHead t) :
    findLoopF b (cstr key) (f + 1) i =
      (let j4 := i + (wb.length + k.ser.length + wk.length + 1 + wv.length)
       if decide (JStr.decode k = some key) then Res.ok j4 else
         skipValue b j4 >>= fun j5 =>
         scan b j5 0x2c >>= fun r6 =>
         match r6 with
         | none => .ok b.size
         | some j6 => findLoopF b (cstr key) f j6) := by
  have h0 : Rest b i (wb ++ 0x22 :: (serItems k ++ 0x22 :: (wk ++ 0x3a :: (wv ++ t)))) := by
    simpa [JStr.ser] using h
  simp only [findLoopF]
  rw [scan_hit b i wb 0x22 _ h0 hwb (by decide), Res.ok_bind]
  simp only []
  have h1 := h0.append.cons.2.2
  rw [matchStr_spec b k _ key _ hk h1 hkw, Res.ok_bind]
  simp only []
  have h2 : Rest b (i + wb.length + 1 + (serItems k).length + 1) (wk ++ 0x3a :: (wv ++ t)) := by
    have := h1.append.cons.2.2
    simpa [Nat.add_assoc] using this
  rw [scan_hit b _ wk 0x3a _ h2 hwk (by decide), Res.ok_bind]
  simp only []
  have h3 := h2.append.cons.2.2
  rw [skipWs_spec b wv _ _ h3 hwv ht, Res.ok_bind]
  have e : i + wb.length + 1 + (serItems k).length + 1 + wk.length + 1 + wv.length =
      i + (wb.length + k.ser.length + wk.length + 1 + wv.length) := by
    simp [JStr.ser]; omega
  rw [e]
  cases decide (JStr.decode k = some key) <;> first | rfl | simp

theorem find_members (b : Buf) (key : List UInt8) (hk : ∀ c ∈ key, c ≠ 0) :
    ∀ (ms : JMembers) (f i : Nat) (t : List UInt8), ms.WF → Rest b i (ms.ser ++ 0x7d :: t) → membersCount ms < f →
      findLoopF b (cstr key) f i = .ok (findAnswer b key ms i)
  | .one wb k wk wv v wa, f, i, t, hwf, hr, hf => by
    obtain ⟨f', rfl⟩ : ∃ f', f = f' + 1 := ⟨f - 1, by omega⟩
    obtain ⟨hwb, hkw, hwk, hwv, hv, hwa⟩ := hwf
    have hr' : Rest b i (wb ++ (k.ser ++ (wk ++ 0x3a :: (wv ++ (v.ser ++ (wa ++ 0x7d :: t)))))) := by
      simpa [JMembers.ser] using hr
    rw [find_member_head b key hk f' i wb k wk wv _ hr' hwb hkw hwk hwv (noWsHead_ser v hv _)]
    simp only []
    by_cases hd : JStr.decode k = some key
    · simp [hd, findAnswer, JMembers.erase, findMember, JMembers.valuePos]
    · have h4 : Rest b (i + (wb.length + k.ser.length + wk.length + 1 + wv.length)) (v.ser ++ (wa ++ 0x7d :: t)) := by
        have := hr'.append.append.append.cons.2.2.append
        simpa [Nat.add_assoc] using this
      rw [skipValue_spec b v _ _ hv h4 (follow_ws_cons v hwa not_num_7d)]
      simp only [hd, decide_false, Bool.false_eq_true, if_false, Res.ok_bind]
      rw [scan_miss b _ wa 0x7d 0x2c t h4.append hwa (by decide) (by decide), Res.ok_bind]
      simp [findAnswer, JMembers.erase, findMember, hd]
  | .more wb k wk wv v wa rest, f, i, t, hwf, hr, hf => by
    obtain ⟨f', rfl⟩ : ∃ f', f = f' + 1 := ⟨f - 1, by omega⟩
    obtain ⟨hwb, hkw, hwk, hwv, hv, hwa, hrest⟩ := hwf
    have hr' : Rest b i (wb ++ (k.ser ++ (wk ++ 0x3a :: (wv ++ (v.ser ++ (wa ++ 0x2c :: (rest.ser ++ 0x7d :: t))))))) := by
      simpa [JMembers.ser] using hr
    rw [find_member_head b key hk f' i wb k wk wv _ hr' hwb hkw hwk hwv (noWsHead_ser v hv _)]
    simp only []
    by_cases hd : JStr.decode k = some key
    · simp [hd, findAnswer, JMembers.erase, findMember, JMembers.valuePos]
    · have h4 : Rest b (i + (wb.length + k.ser.length + wk.length + 1 + wv.length))
          (v.ser ++ (wa ++ 0x2c :: (rest.ser ++ 0x7d :: t))) := by
        have := hr'.append.append.append.cons.2.2.append
        simpa [Nat.add_assoc] using this
      rw [skipValue_spec b v _ _ hv h4 (follow_ws_cons v hwa not_num_2c)]
      simp only [hd, decide_false, Bool.false_eq_true, if_false, Res.ok_bind]
      rw [scan_hit b _ wa 0x2c _ h4.append hwa (by decide), Res.ok_bind]
      simp only []
      rw [find_members b key hk rest f' _ t hrest h4.append.append.cons.2.2 (by simp [membersCount] at hf; omega)]
      simp only [findAnswer, JMembers.erase, findMember, hd, if_false]
      cases hm : findMember key rest.erase with
      | none => simp
      | some m =>
        simp only [Option.map_some, JMembers.valuePos]
        cases hp : rest.valuePos m with
        | none => simp
        | some p => simp; omega

/-- C17, JSON: on `lead ++ text of d ++ trail` (any value `d` with any layout, any whitespace `lead`, anything
    after it) `json_find` returns exactly `Spec.JVal.expectedFind`. -/
theorem jsonFind_spec (lead : Ws) (d : JDoc) (trail key : List UInt8) (hl : WsWF lead) (hd : d.WF)
    (hk : ∀ c ∈ key, c ≠ 0) :
    jsonFind (lead ++ d.ser ++ trail).toArray (cstr key) = .ok (expectedFind lead d trail key) := by
  let b : Buf := (lead ++ d.ser ++ trail).toArray
  have hr : Rest b 0 (lead ++ (d.ser ++ trail)) := ⟨Nat.zero_le _, by simp [b]⟩
  have hsz : b.size = lead.length + d.ser.length + trail.length := by simp [b]; omega
  show jsonFind b (cstr key) = _
  obtain ⟨c, r, hc, hws, _, _⟩ := ser_head d hd
  simp only [jsonFind]
  by_cases hobj : c = 0x7b
  · -- an object (only objects start with '{')
    subst hobj
    cases d with
    | obj0 w =>
      have hr' : Rest b 0 (lead ++ 0x7b :: (w ++ 0x7d :: trail)) := by simpa [JDoc.ser] using hr
      rw [scan_hit b 0 lead 0x7b _ hr' hl (by decide), Res.ok_bind]
      simp only []
      have h1 := hr'.append.cons.2.2
      obtain ⟨f', hf'⟩ : ∃ f', b.size + 1 = f' + 1 := ⟨b.size, rfl⟩
      rw [hf']
      simp only [findLoopF]
      rw [scan_miss b _ w 0x7d 0x22 trail h1 hd (by decide) (by decide), Res.ok_bind]
      simp [expectedFind, JDoc.erase, find, findMember, hsz]
    | obj ms =>
      have hr' : Rest b 0 (lead ++ 0x7b :: (ms.ser ++ 0x7d :: trail)) := by simpa [JDoc.ser] using hr
      rw [scan_hit b 0 lead 0x7b _ hr' hl (by decide), Res.ok_bind]
      simp only []
      have h1 := hr'.append.cons.2.2
      have hcnt := membersCount_le ms
      rw [find_members b key hk ms _ _ trail hd h1 (by simp [JDoc.ser] at hsz; omega)]
      simp only [findAnswer, expectedFind, JDoc.erase, find]
      cases findMember key ms.erase with
      | none => simp [hsz]
      | some m =>
        cases hp : ms.valuePos m with
        | none => simp only [hp]; simp [hsz]
        | some p => simp only [hp]; simp <;> omega
    | null => simp [JDoc.ser, Spec.JVal.litNull] at hc
    | bool v => cases v <;> simp [JDoc.ser, Spec.JVal.litTrue, Spec.JVal.litFalse] at hc
    | num tok => simp only [JDoc.ser] at hc; subst hc; exact absurd (hd.2 0x7b (by simp)) (by decide)
    | str s => simp [JDoc.ser, JStr.ser] at hc
    | arr0 w => simp [JDoc.ser] at hc
    | arr es => simp [JDoc.ser] at hc
  · have hr' : Rest b 0 (lead ++ c :: (r ++ trail)) := by simpa [hc] using hr
    rw [scan_miss b 0 lead c 0x7b _ hr' hl hws hobj, Res.ok_bind]
    have : expectedFind lead d trail key = b.size := by
      cases d with
      | obj0 w => simp [JDoc.ser] at hc; exact absurd hc.1.symm hobj
      | obj ms => simp [JDoc.ser] at hc; exact absurd hc.1.symm hobj
      | _ => simp [expectedFind, hsz]
    simp [this]


/-! ### statements in list form, for `Properties/C17.lean` -/

theorem isNumCh_iff : ∀ c : UInt8, isNumCh c = (c == 0 || isNumTokCh c) := by decide +kernel

theorem follow_of_followOK (d : JDoc) (t : List UInt8) (h : followOK d t) : Follow d t := by
  cases d <;> simp only [Follow] <;> try trivial
  intro c hc
  obtain ⟨h1, h2⟩ := h c hc
  rw [isNumCh_iff]
  simp [h1, h2]

/-- `skip_value` started at the first byte of the text of a value stops exactly after it -/
theorem skipValue_exact (pre : List UInt8) (d : JDoc) (post : List UInt8) (hd : d.WF) (hf : followOK d post) :
    skipValue (pre ++ d.ser ++ post).toArray pre.length = .ok (pre.length + d.ser.length) := by
  apply skipValue_spec _ d pre.length post hd _ (follow_of_followOK d post hf)
  refine ⟨by simp <;> omega, ?_⟩
  simp

/-- a selected member has a value position (the inner fall-back of `expectedFind` is never used) -/
theorem valuePos_of_findMember (key : List UInt8) : ∀ (ms : JMembers) (m : Nat),
    findMember key ms.erase = some m → ∃ p, ms.valuePos m = some p
  | .one wb k wk wv v wa, m, h => by
    simp only [JMembers.erase, findMember] at h
    split at h
    · cases h; exact ⟨_, rfl⟩
    · simp at h
  | .more wb k wk wv v wa rest, m, h => by
    simp only [JMembers.erase, findMember] at h
    split at h
    · cases h; exact ⟨_, rfl⟩
    · cases hm : findMember key rest.erase with
      | none => simp [hm] at h
      | some m' =>
        simp [hm] at h
        subst h
        obtain ⟨p, hp⟩ := valuePos_of_findMember key rest m' hm
        simp [JMembers.valuePos, hp]

end Percival.Proofs.JsonSpec
