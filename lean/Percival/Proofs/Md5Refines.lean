import Percival.Proofs.Md5Transform
import Percival.Proofs.Counters
import Percival.Proofs.HmacStream
/-! `Model.Md5.alg` refines `Spec.Md5.params` (helper lemmas for C01). -/
namespace Percival.Proofs.Md5T
open Percival Percival.Model.Md5
open Percival.Spec (Bytes)

def R (s : State) : Spec.Md5.Regs := regsAt s 0

theorem regsAt_ofFn (f : Fin 4 → UInt32) : regsAt (Vector.ofFn f) 0 = ⟨f 0, f 1, f 2, f 3⟩ := by
  simp [regsAt, slot, Fin.getElem_fin, Vector.getElem_ofFn]

/-- **P2**: the C's `MD5_Transform` is RFC 1321's processing of one 16-word block -/
theorem transform_eq (s : State) (b : Bytes) (hb : b.length = 64) :
    R (transform s b) = Spec.Md5.compress (R s) b := by
  unfold transform Spec.Md5.compress R
  simp only
  rw [regsAt_ofFn, rounds_spec, ← mix_spec s (decodeBlock b) _ (xw_decodeBlock b hb)]
  generalize (List.finRange 64).foldl (fun S i => STEPr S (decodeBlock b) i) s = S
  simp only [Spec.Md5.addRegs, regsAt, slot, Fin.getElem_fin]
  rfl

theorem toList4 (v : Vector UInt32 4) : v.toList = [v[0], v[1], v[2], v[3]] := by
  obtain ⟨⟨l⟩, h⟩ := v
  match l, h with
  | [_, _, _, _], _ => rfl

theorem digest_eq (s : State) : digest s = Spec.Md5.out (R s) := by
  unfold digest Spec.Md5.out R regsAt
  rw [toList4]
  simp [List.flatMap_cons, slot, Fin.getElem_fin]
  rfl

theorem init_eq : R initialState = Spec.Md5.init := by decide

def refines : MDStream.Refines alg Spec.Md5.params where
  R := R
  init := init_eq
  transform := transform_eq
  digest := digest_eq
  PAD := by decide
  cnt := Counters.cntMd5OK

theorem hash_len (m : Bytes) : (Spec.Md5.hash m).length = 16 := by
  unfold Spec.Md5.hash Spec.MD.hash
  simp [Spec.Md5.params, Spec.Md5.out, Spec.le32enc]

def hashOK : HmacStream.HashOK Model.Hmac.md5 Spec.Md5.params where
  rf := refines
  final := fun c msg h => MDStream.finalUpd_eq_hash refines c msg h
  hlen := hash_len
  hlen_le := by decide

end Percival.Proofs.Md5T
