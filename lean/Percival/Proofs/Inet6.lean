import Percival.Proofs.ParsersStep
/-! `inet_pton(AF_INET6) ∘ inet_ntop(AF_INET6) = id` for `Spec.Inet` (helper lemmas for `C17.inet6_pton_ntop`).

Parts: (1) `hexOf w` (built from `Nat.toDigits` / `String`) is the list of the hex digits of `w` (`digs`), and
`hexGroup` reads it back; (2) the loop of `bestRun` is a fold (`brStep`) whose invariant says that the run it returns
lies inside the list and consists of zeros (`bestRun_run`; that it is the *longest* run is not needed for the round
trip); (3) `findDouble` / `splitOn` / `groups` on a `':'`-join of non-empty colon-free groups; (4) `parse6` on the three
shapes `print6` produces. -/
namespace Percival.Proofs.Inet6
open Percival.Spec Percival.Spec.Inet Percival.Proofs.ParsersStep

theorem toList_loop (bs : ByteArray) : ∀ (n i : Nat) (r : List UInt8), n = bs.size - i →
    ByteArray.toList.loop bs i r = r.reverse ++ bs.data.toList.drop i := by
  have hs : bs.size = bs.data.toList.length := by rw [Array.length_toList]; rfl
  intro n
  induction n with
  | zero =>
    intro i r h
    rw [ByteArray.toList.loop.eq_1]
    have : ¬ i < bs.size := by omega
    rw [if_neg this]
    have : bs.data.toList.length ≤ i := by omega
    rw [List.drop_eq_nil_of_le this]; simp
  | succ n ih =>
    intro i r h
    rw [ByteArray.toList.loop.eq_1]
    have hi : i < bs.size := by omega
    rw [if_pos hi, ih (i + 1) _ (by omega)]
    have hl : i < bs.data.toList.length := by omega
    rw [List.drop_eq_getElem_cons hl]
    have : bs.get! i = bs.data.toList[i] := by
      show bs.data[i]! = _
      rw [getElem!_pos bs.data i (by rw [Array.length_toList] at hl; exact hl)]
      simp
    simp [this]

theorem toList_toByteArray (l : List UInt8) : l.toByteArray.toList = l := by
  unfold ByteArray.toList
  rw [toList_loop _ _ 0 [] rfl]
  simp [List.data_toByteArray]

/-- the ASCII code of the lower-case hex digit `d` -/
def hexDig (d : Nat) : UInt8 := if d < 10 then UInt8.ofNat (0x30 + d) else UInt8.ofNat (0x57 + d)

theorem enc_digitChar : ∀ d, d < 16 → String.utf8EncodeChar (Nat.digitChar d) = [hexDig d] := by decide
theorem hexVal_hexDig : ∀ d, d < 16 → hexVal (hexDig d) = some d := by decide
theorem hexDig_chars : ∀ d, d < 16 → hexDig d ≠ 0 ∧ hexDig d ≠ 0x3a ∧ hexDig d ≠ 0x2e := by decide

/-- the hex digits of a 16-bit value, most significant first, no leading zeros -/
def digs (n : Nat) : List Nat :=
  if n < 16 then [n] else if n < 256 then [n / 16, n % 16]
  else if n < 4096 then [n / 256, n / 16 % 16, n % 16] else [n / 4096, n / 256 % 16, n / 16 % 16, n % 16]

theorem digs_lt (n : Nat) (h : n < 65536) : ∀ d ∈ digs n, d < 16 := by
  intro d hd
  unfold digs at hd
  split at hd
  · simp at hd; omega
  · split at hd
    · simp at hd; omega
    · split at hd
      · simp at hd; omega
      · simp at hd; omega

theorem toDigits_step (n : Nat) (h : 16 ≤ n) :
    Nat.toDigits 16 n = Nat.toDigits 16 (n / 16) ++ [Nat.digitChar (n % 16)] := by
  have h1 := @Nat.toDigits_append_toDigits 16 (n / 16) (n % 16) (by omega) (by omega) (Nat.mod_lt _ (by omega))
  rw [Nat.toDigits_of_lt_base (Nat.mod_lt _ (by omega))] at h1
  rw [h1]; congr 1; omega

theorem toDigits_digs (n : Nat) (h : n < 65536) : Nat.toDigits 16 n = (digs n).map Nat.digitChar := by
  unfold digs
  split
  · rw [Nat.toDigits_of_lt_base (by omega)]; rfl
  · split
    · rw [toDigits_step n (by omega), Nat.toDigits_of_lt_base (by omega)]; rfl
    · split
      · rw [toDigits_step n (by omega), toDigits_step (n / 16) (by omega), Nat.toDigits_of_lt_base (by omega)]
        have e1 : n / 16 / 16 = n / 256 := by omega
        simp only [List.map, List.cons_append, List.nil_append, e1]
      · rw [toDigits_step n (by omega), toDigits_step (n / 16) (by omega), toDigits_step (n / 16 / 16) (by omega),
          Nat.toDigits_of_lt_base (by omega)]
        have e1 : n / 16 / 16 = n / 256 := by omega
        have e2 : n / 256 / 16 = n / 4096 := by omega
        simp only [List.map, List.cons_append, List.nil_append, e1, e2]

theorem hexOf_eq (n : Nat) (h : n < 65536) : hexOf n = (digs n).map hexDig := by
  unfold hexOf
  rw [String.toUTF8, String.toByteArray_ofList, List.utf8Encode, toList_toByteArray, toDigits_digs n h]
  have := digs_lt n h
  generalize digs n = l at this
  induction l with
  | nil => rfl
  | cons d l ih =>
    simp only [List.map, List.flatMap_cons]
    rw [enc_digitChar d (this d (by simp)), ih (fun x hx => this x (by simp [hx]))]
    rfl

theorem mapM_hexVal (l : List Nat) (h : ∀ d ∈ l, d < 16) : (l.map hexDig).mapM hexVal = some l := by
  induction l with
  | nil => rfl
  | cons d l ih =>
    simp only [List.map, List.mapM_cons, hexVal_hexDig d (h d (by simp)), ih (fun x hx => h x (by simp [hx]))]
    rfl

theorem hexGroup_hexOf (n : Nat) (h : n < 65536) :
    hexGroup (hexOf n) = some [UInt8.ofNat (n / 256), UInt8.ofNat (n % 256)] := by
  rw [hexOf_eq n h]
  unfold hexGroup
  rw [mapM_hexVal _ (digs_lt n h)]
  unfold digs
  split
  · simp
  · split
    · simp; constructor <;> congr 1 <;> omega
    · split
      · simp; constructor <;> congr 1 <;> omega
      · simp; constructor <;> congr 1 <;> omega
abbrev BR := (Nat × Nat) × (Nat × Nat) × Nat
/-- one iteration of the loop of `bestRun`: state = (best, cur, i) -/
def brStep (w : Nat) (s : BR)  : BR :=
  if w = 0 then
    let cur := if s.2.1.2 = 0 then (s.2.2, 1) else (s.2.1.1, s.2.1.2 + 1)
    (if cur.2 > s.1.2 then cur else s.1, cur, s.2.2 + 1)
  else (s.1, (0, 0), s.2.2 + 1)

/-- positions `b .. b+n-1` of `l` exist and hold zeros -/
def Run (l : List Nat) (b n : Nat) : Prop := b + n ≤ l.length ∧ ∀ j, b ≤ j → j < b + n → l[j]? = some 0

theorem Run.mono {l : List Nat} {b n : Nat} (h : Run l b n) (x : List Nat) : Run (l ++ x) b n := by
  refine ⟨by have := h.1; simp only [List.length_append]; omega, fun j h1 h2 => ?_⟩
  rw [List.getElem?_append_left (by have := h.1; omega)]
  exact h.2 j h1 h2

theorem Run.snoc {l : List Nat} {b n : Nat} (h : Run l b n) (hl : b + n = l.length) : Run (l ++ [0]) b (n + 1) := by
  refine ⟨by simp only [List.length_append, List.length_cons, List.length_nil]; omega, fun j h1 h2 => ?_⟩
  by_cases hj : j < l.length
  · rw [List.getElem?_append_left hj]; exact h.2 j h1 (by omega)
  · have : j = l.length := by omega
    subst this
    simp

theorem Run.zero (l : List Nat) (b : Nat) (h : b ≤ l.length) : Run l b 0 := ⟨h, fun j h1 h2 => by omega⟩

/-- loop invariant of `bestRun` after the prefix `pre` -/
def Inv (pre : List Nat) (s : BR) : Prop :=
  s.2.2 = pre.length ∧ Run pre s.1.1 s.1.2 ∧ (s.2.1.2 = 0 ∨ (s.2.1.1 + s.2.1.2 = pre.length ∧ Run pre s.2.1.1 s.2.1.2))

theorem inv_step (pre : List Nat) (s : BR) (w : Nat) (h : Inv pre s) : Inv (pre ++ [w]) (brStep w s) := by
  obtain ⟨⟨b1, b2⟩, ⟨c1, c2⟩, i⟩ := s
  obtain ⟨hi, hb, hc⟩ := h
  simp only at hi hb hc
  subst hi
  unfold brStep
  by_cases hw : w = 0
  · subst hw
    simp only [if_true]
    have hcur : (if c2 = 0 then (pre.length, 1) else (c1, c2 + 1)).1 + (if c2 = 0 then (pre.length, 1) else (c1, c2 + 1)).2
          = (pre ++ [0]).length ∧
        Run (pre ++ [0]) (if c2 = 0 then (pre.length, 1) else (c1, c2 + 1)).1 (if c2 = 0 then (pre.length, 1) else (c1, c2 + 1)).2 := by
      by_cases h0 : c2 = 0
      · simp only [h0, if_true, List.length_append, List.length_cons, List.length_nil, true_and]
        have := (Run.zero pre pre.length (Nat.le_refl _)).snoc rfl
        simpa using this
      · simp only [h0, if_false, List.length_append, List.length_cons, List.length_nil]
        rcases hc with hc | ⟨hc1, hc2⟩
        · exact absurd hc h0
        · exact ⟨by omega, hc2.snoc hc1⟩
    generalize (if c2 = 0 then (pre.length, 1) else (c1, c2 + 1)) = cur at hcur ⊢
    refine ⟨by simp, ?_, Or.inr hcur⟩
    simp only
    split
    · exact hcur.2
    · exact hb.mono _
  · simp only [hw, if_false]
    exact ⟨by simp, hb.mono _, Or.inl rfl⟩

theorem inv_foldl (rest : List Nat) : ∀ (pre : List Nat) (s : BR), Inv pre s →
    Inv (pre ++ rest) (rest.foldl (fun s w => brStep w s) s) := by
  induction rest with
  | nil => intro pre s h; simpa using h
  | cons w rest ih =>
    intro pre s h
    have := ih (pre ++ [w]) _ (inv_step pre s w h)
    simpa using this

theorem bestRun_eq (ws : List Nat) : bestRun ws = (ws.foldl (fun s w => brStep w s) ((0, 0), (0, 0), 0)).1 := by
  have key : ∀ (f g : Nat → BR → Id (ForInStep BR)), (∀ w s, f w s = g w s) → ∀ init, forIn ws init f = forIn ws init g := by
    intro f g h init
    have : f = g := funext fun w => funext (h w)
    rw [this]
  unfold bestRun
  simp only [Id.run]
  rw [key _ (fun w s => pure (ForInStep.yield (brStep w s))) ?_]
  · rw [List.forIn_pure_yield_eq_foldl]; rfl
  · intro w s
    unfold brStep
    by_cases hw : w = 0
    · subst hw
      by_cases h1 : s.2.1.2 = 0 <;> by_cases h2 : s.1.2 = 0 <;> simp [h1, h2]
      split <;> rfl
    · simp [hw]
theorem findDouble_cc (r : Bytes) : findDouble (0x3a :: 0x3a :: r) = some 0 := by simp [findDouble]
theorem findDouble_ne (c : UInt8) (cs : Bytes) (h : c ≠ 0x3a) : findDouble (c :: cs) = (findDouble cs).map (· + 1) := by
  rw [findDouble.eq_2]
  intro r e _; exact h e
theorem findDouble_c_ne (c : UInt8) (cs : Bytes) (h : c ≠ 0x3a) :
    findDouble (0x3a :: c :: cs) = (findDouble (c :: cs)).map (· + 1) := by
  rw [findDouble.eq_2]
  intro r _ e; injection e with e3 _; exact h e3
theorem findDouble_c : findDouble [0x3a] = none := by
  rw [findDouble.eq_2]
  · rfl
  · intro r _ e; cases e

/-- a group text: non-empty, without ':' -/
def NC (g : Bytes) : Prop := g ≠ [] ∧ (0x3a : UInt8) ∉ g

theorem findDouble_append (g rest : Bytes) (h : (0x3a : UInt8) ∉ g) :
    findDouble (g ++ rest) = (findDouble rest).map (· + g.length) := by
  induction g with
  | nil => simp
  | cons c g ih =>
    rw [List.cons_append, findDouble_ne c _ (fun e => h (by simp [e])), ih (fun hm => h (List.mem_cons_of_mem _ hm))]
    cases findDouble rest <;> simp [Nat.add_assoc]

/-- first byte is not ':' (or the text is empty) -/
def HeadNC (s : Bytes) : Prop := ∀ c, s.head? = some c → c ≠ 0x3a

theorem findDouble_colon (s : Bytes) (h : HeadNC s) (hs : s ≠ []) :
    findDouble (0x3a :: s) = (findDouble s).map (· + 1) := by
  cases s with
  | nil => exact absurd rfl hs
  | cons c cs => exact findDouble_c_ne c cs (h c rfl)

theorem joinWith_cons2 (sep : UInt8) (g g' : Bytes) (gs : List Bytes) :
    joinWith sep (g :: g' :: gs) = g ++ sep :: joinWith sep (g' :: gs) := rfl

theorem headNC_append (g rest : Bytes) (h : NC g) : HeadNC (g ++ rest) := by
  intro c hc
  cases g with
  | nil => exact absurd rfl h.1
  | cons x g =>
    simp only [List.cons_append, List.head?_cons, Option.some.injEq] at hc
    subst hc
    exact fun e => h.2 (by simp [e])

theorem join_head (gs : List Bytes) (h : ∀ g ∈ gs, NC g) (rest : Bytes) (hr : gs = [] → HeadNC rest) :
    HeadNC (joinWith 0x3a gs ++ rest) := by
  match gs, h, hr with
  | [], _, hr => simpa [joinWith] using hr rfl
  | [g], h, _ => exact headNC_append g rest (h g (by simp))
  | g :: g' :: gs, h, _ =>
    rw [joinWith_cons2, List.append_assoc]
    exact headNC_append g _ (h g (by simp))

theorem join_ne_nil (gs : List Bytes) (h : ∀ g ∈ gs, NC g) (hn : gs ≠ []) : joinWith 0x3a gs ≠ [] := by
  match gs, h, hn with
  | [g], h, _ => exact (h g (by simp)).1
  | g :: g' :: gs, h, _ =>
    rw [joinWith_cons2]
    have := (h g (by simp)).1
    cases g with
    | nil => exact absurd rfl this
    | cons x g => simp

/-- a join of non-empty colon-free groups contains no "::" -/
theorem findDouble_join (gs : List Bytes) (h : ∀ g ∈ gs, NC g) : findDouble (joinWith 0x3a gs) = none := by
  match gs, h with
  | [], _ => rfl
  | [g], h =>
    have := findDouble_append g [] (h g (by simp)).2
    simpa [joinWith, findDouble] using this
  | g :: g' :: gs, h =>
    have hh : ∀ x ∈ g' :: gs, NC x := fun x hx => h x (List.mem_cons_of_mem _ hx)
    rw [joinWith_cons2, findDouble_append g _ (h g (by simp)).2, findDouble_colon, findDouble_join (g' :: gs) hh]
    · rfl
    · have := join_head (g' :: gs) hh [] (by intro e; cases e)
      simpa using this
    · exact join_ne_nil _ hh (by simp)

/-- … and the first "::" of `join L ++ "::" ++ rest` is the one written there -/
theorem findDouble_join_cc (gs : List Bytes) (h : ∀ g ∈ gs, NC g) (rest : Bytes) :
    findDouble (joinWith 0x3a gs ++ 0x3a :: 0x3a :: rest) = some (joinWith 0x3a gs).length := by
  match gs, h with
  | [], _ => simp [joinWith, findDouble_cc]
  | [g], h =>
    rw [show joinWith 0x3a [g] = g from rfl, findDouble_append g _ (h g (by simp)).2, findDouble_cc]
    simp
  | g :: g' :: gs, h =>
    have hh : ∀ x ∈ g' :: gs, NC x := fun x hx => h x (List.mem_cons_of_mem _ hx)
    rw [joinWith_cons2, List.append_assoc, findDouble_append g _ (h g (by simp)).2, List.cons_append, findDouble_colon,
      findDouble_join_cc (g' :: gs) hh]
    · simp; omega
    · exact join_head (g' :: gs) hh _ (by intro e; cases e)
    · have := join_ne_nil _ hh (by simp)
      intro e
      exact this (List.append_eq_nil_iff.mp e).1

theorem splitOn_join (gs : List Bytes) (h : ∀ g ∈ gs, NC g) (hn : gs ≠ []) :
    splitOn 0x3a (joinWith 0x3a gs) = gs := by
  match gs, h, hn with
  | [g], h, _ => exact splitOn_single _ g (h g (by simp)).2
  | g :: g' :: gs, h, _ =>
    rw [joinWith_cons2, splitOn_cons _ _ _ (h g (by simp)).2,
      splitOn_join (g' :: gs) (fun x hx => h x (List.mem_cons_of_mem _ hx)) (by simp)]

theorem bestRun_run (ws : List Nat) : Run ws (bestRun ws).1 (bestRun ws).2 := by
  rw [bestRun_eq]
  have := inv_foldl ws [] ((0, 0), (0, 0), 0) ⟨rfl, Run.zero [] 0 (Nat.le_refl _), Or.inl rfl⟩
  simpa using this.2.1

theorem hexOf_chars (n : Nat) (h : n < 65536) : ∀ c ∈ hexOf n, c ≠ 0 ∧ c ≠ 0x3a ∧ c ≠ 0x2e := by
  rw [hexOf_eq n h]
  intro c hc
  obtain ⟨d, hd, rfl⟩ := List.mem_map.mp hc
  exact hexDig_chars d (digs_lt n h d hd)

theorem hexOf_ne_nil (n : Nat) (h : n < 65536) : hexOf n ≠ [] := by
  rw [hexOf_eq n h]
  unfold digs
  split
  · simp
  · split
    · simp
    · split <;> simp

theorem hexOf_NC (n : Nat) (h : n < 65536) : NC (hexOf n) :=
  ⟨hexOf_ne_nil n h, fun hm => (hexOf_chars n h _ hm).2.1 rfl⟩

/-- the bytes of a list of 16-bit words, big-endian -/
def bytesOf (ws : List Nat) : Bytes := ws.flatMap fun w => [UInt8.ofNat (w / 256), UInt8.ofNat (w % 256)]

theorem bytesOf_length (ws : List Nat) : (bytesOf ws).length = 2 * ws.length := by
  induction ws with
  | nil => rfl
  | cons w ws ih => simp only [bytesOf, List.flatMap_cons, List.length_append, List.length_cons, List.length_nil] at ih ⊢; omega

theorem bytesOf_append (a b : List Nat) : bytesOf (a ++ b) = bytesOf a ++ bytesOf b := by
  simp [bytesOf]

theorem bytesOf_zeros (n : Nat) : bytesOf (List.replicate n 0) = List.replicate (2 * n) 0 := by
  induction n with
  | zero => rfl
  | succ n ih =>
    rw [List.replicate_succ, show 2 * (n + 1) = (2 * n + 1) + 1 by omega, List.replicate_succ, List.replicate_succ]
    simp only [bytesOf, List.flatMap_cons] at ih ⊢
    rw [ih]; rfl

theorem hexGroups_map (last : Bool) (ws : List Nat) (h : ∀ w ∈ ws, w < 65536) (hn : ws ≠ []) :
    groups last (ws.map hexOf) = some (bytesOf ws) := by
  match ws, h, hn with
  | [w], h, _ =>
    have hw := h w (by simp)
    simp only [List.map, groups]
    have hd : (0x2e : UInt8) ∉ hexOf w := fun hc => (hexOf_chars w hw _ hc).2.2 rfl
    simp [hd, hexGroup_hexOf w hw, bytesOf]
  | w :: w' :: ws, h, _ =>
    have ih := hexGroups_map last (w' :: ws) (fun x hx => h x (List.mem_cons_of_mem _ hx)) (by simp)
    simp only [List.map] at ih ⊢
    rw [groups.eq_3 _ _ _ (by simp), ih, hexGroup_hexOf w (h w (by simp))]
    simp [bytesOf]

theorem side (last : Bool) (ws : List Nat) (h : ∀ w ∈ ws, w < 65536) :
    (if (joinWith 0x3a (ws.map hexOf)).isEmpty then some [] else groups last (splitOn 0x3a (joinWith 0x3a (ws.map hexOf))))
      = some (bytesOf ws) := by
  have hnc : ∀ g ∈ ws.map hexOf, NC g := by
    intro g hg; obtain ⟨w, hw, rfl⟩ := List.mem_map.mp hg; exact hexOf_NC w (h w hw)
  cases ws with
  | nil => rfl
  | cons w ws =>
    have hne : (w :: ws).map hexOf ≠ [] := by simp
    have := join_ne_nil _ hnc hne
    rw [splitOn_join _ hnc hne, hexGroups_map last _ h (by simp)]
    have e : (joinWith 0x3a (List.map hexOf (w :: ws))).isEmpty = false := by
      cases hj : joinWith 0x3a (List.map hexOf (w :: ws)) with
      | nil => exact absurd hj this
      | cons _ _ => rfl
    rw [e]
    simp only [Bool.false_eq_true, if_false]


theorem map_NC (ws : List Nat) (h : ∀ w ∈ ws, w < 65536) : ∀ g ∈ ws.map hexOf, NC g := by
  intro g hg; obtain ⟨w, hw, rfl⟩ := List.mem_map.mp hg; exact hexOf_NC w (h w hw)

/-- no `::`: eight groups -/
theorem parse6_plain (ws : List Nat) (h : ∀ w ∈ ws, w < 65536) (h8 : ws.length = 8) :
    parse6 (joinWith 0x3a (ws.map hexOf)) = some (bytesOf ws) := by
  have hne : ws ≠ [] := by intro e; rw [e] at h8; cases h8
  have hne' : ws.map hexOf ≠ [] := by simpa using hne
  unfold parse6
  rw [findDouble_join _ (map_NC ws h)]
  simp only [splitOn_join _ (map_NC ws h) hne', hexGroups_map true ws h hne, bytesOf_length, h8, if_true]

/-- `L :: R` with `|L| + |R| ≤ 7` -/
theorem parse6_compressed (L R : List Nat) (hL : ∀ w ∈ L, w < 65536) (hR : ∀ w ∈ R, w < 65536)
    (hlen : L.length + R.length ≤ 7) :
    parse6 (joinWith 0x3a (L.map hexOf) ++ 0x3a :: 0x3a :: joinWith 0x3a (R.map hexOf)) =
      some (bytesOf L ++ List.replicate (16 - 2 * L.length - 2 * R.length) 0 ++ bytesOf R) := by
  unfold parse6
  rw [findDouble_join_cc _ (map_NC L hL)]
  simp only []
  have e1 : (joinWith 0x3a (L.map hexOf) ++ 0x3a :: 0x3a :: joinWith 0x3a (R.map hexOf)).take (joinWith 0x3a (L.map hexOf)).length
      = joinWith 0x3a (L.map hexOf) := List.take_left' rfl
  have e2 : (joinWith 0x3a (L.map hexOf) ++ 0x3a :: 0x3a :: joinWith 0x3a (R.map hexOf)).drop ((joinWith 0x3a (L.map hexOf)).length + 2)
      = joinWith 0x3a (R.map hexOf) := by
    rw [← List.drop_drop, List.drop_left' rfl]; rfl
  rw [e1, e2, findDouble_join _ (map_NC R hR), side false L hL, side true R hR]
  have hh : ¬ (joinWith 0x3a (R.map hexOf)).head? = some 0x3a := by
    intro e
    have := join_head (R.map hexOf) (map_NC R hR) [] (fun _ c hc => by cases hc)
    rw [List.append_nil] at this
    exact this _ e rfl
  simp only [Option.isSome_none, Bool.false_eq_true, false_or, hh, if_false, bytesOf_length]
  rw [if_pos (by omega)]

theorem byte_hi (hi lo : UInt8) : UInt8.ofNat ((hi.toNat * 256 + lo.toNat) / 256) = hi := by
  have : (hi.toNat * 256 + lo.toNat) / 256 = hi.toNat := by have := lo.toNat_lt; omega
  rw [this, UInt8.ofNat_toNat]
theorem byte_lo (hi lo : UInt8) : UInt8.ofNat ((hi.toNat * 256 + lo.toNat) % 256) = lo := by
  have : (hi.toNat * 256 + lo.toNat) % 256 = lo.toNat := by have := lo.toNat_lt; omega
  rw [this, UInt8.ofNat_toNat]

theorem words_props (a : Bytes) (h : a.length = 16) :
    (words a).length = 8 ∧ (∀ w ∈ words a, w < 65536) ∧ bytesOf (words a) = a ∧
      a.drop 12 = bytesOf ((words a).drop 6) ∧ (a.drop 12).length = 4 := by
  match a, h with
  | [b0, b1, b2, b3, b4, b5, b6, b7, b8, b9, b10, b11, b12, b13, b14, b15], _ =>
    refine ⟨rfl, ?_, ?_, ?_, rfl⟩
    · intro w hw
      simp only [words, List.mem_cons, List.not_mem_nil, or_false] at hw
      have := b0.toNat_lt; have := b1.toNat_lt; have := b2.toNat_lt; have := b3.toNat_lt
      have := b4.toNat_lt; have := b5.toNat_lt; have := b6.toNat_lt; have := b7.toNat_lt
      have := b8.toNat_lt; have := b9.toNat_lt; have := b10.toNat_lt; have := b11.toNat_lt
      have := b12.toNat_lt; have := b13.toNat_lt; have := b14.toNat_lt; have := b15.toNat_lt
      omega
    · simp [words, bytesOf, byte_hi]
    · simp [words, bytesOf, byte_hi]

/-- the dotted-quad test of `print6` -/
def v4t (ws : List Nat) (bs bl : Nat) : Bool :=
  bs == 0 && bl > 0 && (bl == 6 || (bl == 5 && ws[5]? == some 0xffff))

/-- the text `print6` builds once the run and the dotted-quad decision are fixed -/
def core6 (a : Bytes) (ws : List Nat) (bs bl : Nat) (v4tail : Bool) : Bytes :=
  let nw := if v4tail then 6 else 8
  let left := ((ws.take nw).take bs).map hexOf
  let right := ((ws.take nw).drop (bs + bl)).map hexOf
  let core :=
    if bl == 0 then joinWith 0x3a ((ws.take nw).map hexOf)
    else joinWith 0x3a left ++ [0x3a, 0x3a] ++ joinWith 0x3a right
  if v4tail then
    core ++ (if core.getLast? == some 0x3a then [] else [0x3a]) ++ print4 (a.drop 12)
  else core

theorem print6_eq (a : Bytes) :
    print6 a = core6 a (words a) (if (bestRun (words a)).2 < 2 then (0, 0) else bestRun (words a)).1
      (if (bestRun (words a)).2 < 2 then (0, 0) else bestRun (words a)).2
      (v4t (words a) (if (bestRun (words a)).2 < 2 then (0, 0) else bestRun (words a)).1
        (if (bestRun (words a)).2 < 2 then (0, 0) else bestRun (words a)).2) := rfl

theorem print6_plain (a : Bytes) (h : a.length = 16) (hb : (bestRun (words a)).2 < 2) :
    print6 a = joinWith 0x3a ((words a).map hexOf) := by
  rw [print6_eq, if_pos hb]
  have h8 := (words_props a h).1
  simp [core6, v4t, List.take_of_length_le (Nat.le_of_eq h8)]

theorem print6_compressed (a : Bytes) (h : a.length = 16) (hb : ¬ (bestRun (words a)).2 < 2)
    (hv : v4t (words a) (bestRun (words a)).1 (bestRun (words a)).2 = false) :
    print6 a = joinWith 0x3a (((words a).take (bestRun (words a)).1).map hexOf) ++ 0x3a :: 0x3a ::
      joinWith 0x3a (((words a).drop ((bestRun (words a)).1 + (bestRun (words a)).2)).map hexOf) := by
  rw [print6_eq, if_neg hb, hv]
  have h8 := (words_props a h).1
  have : ((bestRun (words a)).2 == 0) = false := by
    rw [beq_eq_false_iff_ne]; omega
  simp [core6, List.take_of_length_le (Nat.le_of_eq h8), this]


theorem run_split (l : List Nat) (b n : Nat) (h : Run l b n) :
    l = l.take b ++ List.replicate n 0 ++ l.drop (b + n) := by
  obtain ⟨hl, hz⟩ := h
  apply List.ext_getElem?
  intro j
  by_cases h1 : j < b
  · rw [List.append_assoc, List.getElem?_append_left (by simp only [List.length_take]; omega), List.getElem?_take_of_lt h1]
  · by_cases h2 : j < b + n
    · rw [hz j (by omega) h2, List.append_assoc, List.getElem?_append_right (by simp only [List.length_take]; omega),
        List.getElem?_append_left (by simp only [List.length_take, List.length_replicate]; omega),
        List.getElem?_replicate]
      simp only [List.length_take]
      rw [if_pos (by omega)]
    · rw [List.getElem?_append_right (by simp only [List.length_append, List.length_take, List.length_replicate]; omega),
        List.getElem?_drop]
      simp only [List.length_append, List.length_take, List.length_replicate]
      congr 1; omega

theorem parse6_print6_plain (a : Bytes) (h : a.length = 16) (hb : (bestRun (words a)).2 < 2) :
    parse6 (print6 a) = some a := by
  obtain ⟨h8, hw, hby, _, _⟩ := words_props a h
  rw [print6_plain a h hb, parse6_plain _ hw h8, hby]

theorem parse6_print6_compressed (a : Bytes) (h : a.length = 16) (hb : ¬ (bestRun (words a)).2 < 2)
    (hv : v4t (words a) (bestRun (words a)).1 (bestRun (words a)).2 = false) :
    parse6 (print6 a) = some a := by
  obtain ⟨h8, hw, hby, _, _⟩ := words_props a h
  have hrun := bestRun_run (words a)
  rw [print6_compressed a h hb hv]
  generalize (bestRun (words a)).1 = bs at hb hv hrun ⊢
  generalize (bestRun (words a)).2 = bl at hb hv hrun ⊢
  generalize words a = ws at h8 hw hby hrun ⊢
  have hl := hrun.1
  have hLl : (ws.take bs).length = bs := by rw [List.length_take]; omega
  have hRl : (ws.drop (bs + bl)).length = 8 - (bs + bl) := by rw [List.length_drop]; omega
  rw [parse6_compressed _ _ (fun w hm => hw w (List.mem_of_mem_take hm)) (fun w hm => hw w (List.mem_of_mem_drop hm))
    (by rw [hLl, hRl]; omega)]
  rw [hLl, hRl, show 16 - 2 * bs - 2 * (8 - (bs + bl)) = 2 * bl by omega, ← bytesOf_zeros, ← bytesOf_append, ← bytesOf_append,
    ← run_split ws bs bl hrun, hby]

theorem hexOf_ffff : hexOf 0xffff = [0x66, 0x66, 0x66, 0x66] := by
  rw [hexOf_eq _ (by omega)]; decide

theorem v4t_true (ws : List Nat) (bs bl : Nat) (h : v4t ws bs bl = true) :
    bs = 0 ∧ (bl = 6 ∨ (bl = 5 ∧ ws[5]? = some 0xffff)) := by
  simp only [v4t, Bool.and_eq_true, Bool.or_eq_true, beq_iff_eq, decide_eq_true_eq] at h
  exact ⟨h.1.1, h.2⟩

theorem print6_v4a (a : Bytes) (h1 : (bestRun (words a)).1 = 0) (h2 : (bestRun (words a)).2 = 6) :
    print6 a = 0x3a :: 0x3a :: print4 (a.drop 12) := by
  rw [print6_eq, if_neg (by omega), h1, h2]
  simp [core6, v4t, joinWith]

theorem print6_v4b (a : Bytes) (h : a.length = 16) (h1 : (bestRun (words a)).1 = 0) (h2 : (bestRun (words a)).2 = 5)
    (h3 : (words a)[5]? = some 0xffff) :
    print6 a = 0x3a :: 0x3a :: ([0x66, 0x66, 0x66, 0x66] ++ 0x3a :: print4 (a.drop 12)) := by
  rw [print6_eq, if_neg (by omega), h1, h2]
  have h8 := (words_props a h).1
  have e : ((words a).take 6).drop 5 = [0xffff] := by
    rw [List.drop_take]
    have : (words a).drop 5 = 0xffff :: (words a).drop 6 := by
      rw [List.drop_eq_getElem_cons (by omega)]
      congr 1
      rw [List.getElem?_eq_getElem (by omega)] at h3
      exact Option.some.inj h3
    rw [this]; rfl
  simp [core6, v4t, joinWith, h3, e, hexOf_ffff]


theorem print4_NC (t : Bytes) (h : t.length = 4) : NC (print4 t) ∧ (0x2e : UInt8) ∈ print4 t := by
  refine ⟨⟨?_, fun hm => (print4_chars t h _ hm).2 rfl⟩, ?_⟩
  · obtain ⟨a0, a1, a2, a3, rfl⟩ := len4 t h
    rw [print4_eq]; intro e
    have := congrArg List.length e
    simp at this
  · obtain ⟨a0, a1, a2, a3, rfl⟩ := len4 t h
    rw [print4_eq]; simp

/-- `::` followed by the right part `X` (a join of groups that `groups true` reads as `b`) -/
theorem parse6_cc (gs : List Bytes) (b : Bytes) (hn : gs ≠ []) (hg : ∀ g ∈ gs, NC g) (hb : groups true gs = some b)
    (hl : b.length ≤ 14) :
    parse6 (0x3a :: 0x3a :: joinWith 0x3a gs) = some (List.replicate (16 - b.length) 0 ++ b) := by
  unfold parse6
  rw [findDouble_cc]
  have hh : ¬ (joinWith 0x3a gs).head? = some 0x3a := by
    intro e
    have := join_head gs hg [] (fun _ c hc => by cases hc)
    rw [List.append_nil] at this
    exact this _ e rfl
  have e : (joinWith 0x3a gs).isEmpty = false := by
    cases hj : joinWith 0x3a gs with
    | nil => exact absurd hj (join_ne_nil gs hg hn)
    | cons _ _ => rfl
  simp only [List.take_zero, List.drop_succ_cons, List.drop_zero, findDouble_join gs hg, Option.isSome_none,
    Bool.false_eq_true, false_or, hh, if_false, List.isEmpty_nil, if_true, e, splitOn_join gs hg hn, hb,
    List.length_nil, Nat.zero_add, List.nil_append, Nat.sub_zero]
  rw [if_pos hl]

theorem parse6_print6_v4a (a : Bytes) (h : a.length = 16) (h1 : (bestRun (words a)).1 = 0) (h2 : (bestRun (words a)).2 = 6) :
    parse6 (print6 a) = some a := by
  obtain ⟨h8, hw, hby, hd, h4⟩ := words_props a h
  have hrun := bestRun_run (words a)
  rw [h1, h2] at hrun
  have hs := run_split _ _ _ hrun
  obtain ⟨hnc, hdot⟩ := print4_NC _ h4
  rw [print6_v4a a h1 h2]
  have := parse6_cc [print4 (a.drop 12)] (a.drop 12) (by simp) (by simpa using hnc)
    (by simp [groups, hdot, parse4_print4 _ h4]) (by omega)
  rw [show joinWith 0x3a [print4 (a.drop 12)] = print4 (a.drop 12) from rfl] at this
  rw [this, h4]
  congr 1
  conv => rhs; rw [← hby, hs]
  rw [bytesOf_append, bytesOf_append, hd]
  simp [bytesOf]

theorem parse6_print6_v4b (a : Bytes) (h : a.length = 16) (h1 : (bestRun (words a)).1 = 0) (h2 : (bestRun (words a)).2 = 5)
    (h3 : (words a)[5]? = some 0xffff) :
    parse6 (print6 a) = some a := by
  obtain ⟨h8, hw, hby, hd, h4⟩ := words_props a h
  have hrun := bestRun_run (words a)
  rw [h1, h2] at hrun
  have hs := run_split _ _ _ hrun
  obtain ⟨hnc, hdot⟩ := print4_NC _ h4
  rw [print6_v4b a h h1 h2 h3]
  have hf : NC [0x66, 0x66, 0x66, 0x66] := ⟨by decide, by decide⟩
  have hx : hexGroup [0x66, 0x66, 0x66, 0x66] = some [0xff, 0xff] := by decide
  have := parse6_cc [[0x66, 0x66, 0x66, 0x66], print4 (a.drop 12)] ([0xff, 0xff] ++ a.drop 12) (by simp)
    (by intro g hg; simp only [List.mem_cons, List.not_mem_nil, or_false] at hg; rcases hg with rfl | rfl
        · exact hf
        · exact hnc)
    (by rw [groups.eq_3 _ _ _ (by simp), hx]; simp [groups, hdot, parse4_print4 _ h4]) (by simp [h4])
  rw [show joinWith 0x3a [[0x66, 0x66, 0x66, 0x66], print4 (a.drop 12)] =
    [0x66, 0x66, 0x66, 0x66] ++ 0x3a :: print4 (a.drop 12) from rfl,
    show (([0xff, 0xff] : Bytes) ++ a.drop 12).length = 6 by simp [h4]] at this
  rw [this]
  congr 1
  have e5 : (words a).drop 5 = 0xffff :: (words a).drop 6 := by
    rw [List.drop_eq_getElem_cons (by omega)]
    congr 1
    rw [List.getElem?_eq_getElem (by omega)] at h3
    exact Option.some.inj h3
  conv => rhs; rw [← hby, hs]
  rw [bytesOf_append, bytesOf_append, Nat.zero_add, e5, hd]
  simp [bytesOf]

theorem parse6_print6 (a : Bytes) (h : a.length = 16) : parse6 (print6 a) = some a := by
  by_cases hb : (bestRun (words a)).2 < 2
  · exact parse6_print6_plain a h hb
  · cases hv : v4t (words a) (bestRun (words a)).1 (bestRun (words a)).2 with
    | false => exact parse6_print6_compressed a h hb hv
    | true =>
      obtain ⟨h1, h2 | ⟨h2, h3⟩⟩ := v4t_true _ _ _ hv
      · exact parse6_print6_v4a a h h1 h2
      · exact parse6_print6_v4b a h h1 h2 h3
theorem join_chars (sep : UInt8) (gs : List Bytes) (c : UInt8) (h : c ∈ joinWith sep gs) : c = sep ∨ ∃ g ∈ gs, c ∈ g := by
  match gs, h with
  | [g], h => exact Or.inr ⟨g, by simp, h⟩
  | g :: g' :: gs, h =>
    rw [joinWith_cons2, List.mem_append, List.mem_cons] at h
    rcases h with h | h | h
    · exact Or.inr ⟨g, by simp, h⟩
    · exact Or.inl h
    · rcases join_chars sep (g' :: gs) c h with h | ⟨x, hx, hc⟩
      · exact Or.inl h
      · exact Or.inr ⟨x, List.mem_cons_of_mem _ hx, hc⟩

theorem join_hex_ne0 (ws : List Nat) (h : ∀ w ∈ ws, w < 65536) : ∀ c ∈ joinWith 0x3a (ws.map hexOf), c ≠ 0 := by
  intro c hc
  rcases join_chars _ _ c hc with rfl | ⟨g, hg, hcg⟩
  · decide
  · obtain ⟨w, hw, rfl⟩ := List.mem_map.mp hg
    exact (hexOf_chars w (h w hw) c hcg).1

/-- the text of an IPv6 address contains a ':' and no NUL -/
theorem print6_chars (a : Bytes) (h : a.length = 16) : (0x3a : UInt8) ∈ print6 a ∧ ∀ c ∈ print6 a, c ≠ 0 := by
  obtain ⟨h8, hw, _, _, h4⟩ := words_props a h
  have h40 : ∀ c ∈ print4 (a.drop 12), c ≠ 0 := fun c hc => (print4_chars _ h4 c hc).1
  by_cases hb : (bestRun (words a)).2 < 2
  · rw [print6_plain a h hb]
    refine ⟨?_, join_hex_ne0 _ hw⟩
    match hws : words a, h8 with
    | w0 :: w1 :: ws, _ => simp [joinWith]
  · cases hv : v4t (words a) (bestRun (words a)).1 (bestRun (words a)).2 with
    | false =>
      rw [print6_compressed a h hb hv]
      refine ⟨by simp, ?_⟩
      intro c hc
      simp only [List.mem_append, List.mem_cons] at hc
      rcases hc with hc | rfl | rfl | hc
      · exact join_hex_ne0 _ (fun w hm => hw w (List.mem_of_mem_take hm)) c hc
      · decide
      · decide
      · exact join_hex_ne0 _ (fun w hm => hw w (List.mem_of_mem_drop hm)) c hc
    | true =>
      obtain ⟨h1, h2 | ⟨h2, h3⟩⟩ := v4t_true _ _ _ hv
      · rw [print6_v4a a h1 h2]
        refine ⟨by simp, ?_⟩
        intro c hc
        simp only [List.mem_cons] at hc
        rcases hc with rfl | rfl | hc
        · decide
        · decide
        · exact h40 c hc
      · rw [print6_v4b a h h1 h2 h3]
        refine ⟨by simp, ?_⟩
        intro c hc
        simp only [List.mem_cons, List.mem_append, List.not_mem_nil, or_false] at hc
        rcases hc with rfl | rfl | (rfl | rfl | rfl | rfl) | rfl | hc
        all_goals first | decide | exact h40 c hc
end Percival.Proofs.Inet6
