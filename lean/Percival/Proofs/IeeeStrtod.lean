import Percival.Proofs.Ieee
import Percival.Model.ParsenumFloat
/-! C16: the rounding specification determines its result; `toDouble` and `toBinary32` meet it. -/
namespace Percival.Proofs.Ieee
open Percival.Model.Strtod Percival.Proofs.IeeeArith Percival.Spec.Ieee

/-! ### the specification determines the result -/

theorem natCast_lt_of_mul {a b : Nat} {u : Rat} (hu : 0 < u) (h : (a : Rat) * u < b * u) : a < b :=
  Rat.natCast_lt_natCast.mp (Rat.lt_of_mul_lt_mul_right h (Rat.le_of_lt hu))

/-- between two different non-negative numbers with even significands lies another number of the format -/
theorem even_between_nonneg (f : Format) (hv : Valid f) {a b : Rat} (ha : f.Even a) (hb : f.Even b)
    (h0 : 0 ≤ a) (hab : a < b) : ∃ z, f.Finite z ∧ a < z ∧ z < b := by
  obtain ⟨c1, k1, hc1, hk1, hk1', va, can1, ev1⟩ := ha
  obtain ⟨c2, k2, hc2, hk2, hk2', vb, can2, ev2⟩ := hb
  rw [Rat.abs_of_nonneg h0] at va
  rw [Rat.abs_of_nonneg (by grind)] at vb
  have hp1 : f.p = (f.p - 1) + 1 := by have := hv.p_ge; omega
  have h2p : 2 ^ f.p % 2 = 0 := by rw [hp1, Nat.pow_succ]; omega
  have hu := p2_pos k1
  have hz : (0 : Rat) ≤ ((c1 + 1 : Nat) : Rat) * 2 ^ k1 := Rat.mul_nonneg Rat.natCast_nonneg (Rat.le_of_lt hu)
  refine ⟨((c1 + 1 : Nat) : Rat) * 2 ^ k1, ⟨c1 + 1, k1, by omega, hk1, hk1', Rat.abs_of_nonneg hz⟩, ?_, ?_⟩
  · rw [va, Rat.natCast_add]; simp only [Rat.natCast_ofNat]; grind
  · by_cases hk : k1 ≤ k2
    · have hy : (c2 : Rat) * 2 ^ k2 = ((c2 * 2 ^ (k2 - k1).toNat : Nat) : Rat) * 2 ^ k1 := by
        rw [Rat.natCast_mul, ← p2_nat, Int.toNat_of_nonneg (by omega), Rat.mul_assoc, p2_sub]
      rw [vb, hy]
      rw [va, vb, hy] at hab
      have hlt := natCast_lt_of_mul hu hab
      have hj : (c2 * 2 ^ (k2 - k1).toNat) % 2 = 0 := by
        rw [Nat.mul_mod, ev2]; simp
      apply Rat.mul_lt_mul_of_pos_right _ hu
      exact Rat.natCast_lt_natCast.mpr (by omega)
    · exfalso
      have hk : k2 < k1 := by omega
      have hc : 2 ^ (f.p - 1) ≤ c1 := by rcases can1 with h | h; omega; exact h
      have a1 := mul_u_le (natCast_le hc) hu
      rw [p2_pred _ (by omega)] at a1
      have a2 := Rat.mul_le_mul_of_nonneg_left (p2_le (show k2 + 1 ≤ k1 by omega)) (Rat.le_of_lt (p2_pos ((f.p : Int) - 1)))
      have a3 : (2 : Rat) ^ ((f.p : Int) - 1) * 2 ^ (k2 + 1) = 2 ^ (f.p : Int) * 2 ^ k2 := by
        rw [← p2_add, ← p2_add]; congr 1; omega
      have a4 := Rat.mul_lt_mul_of_pos_right (Rat.natCast_lt_natCast.mpr hc2) (p2_pos k2)
      rw [pP] at a4
      grind

theorem even_between (f : Format) (hv : Valid f) {a b : Rat} (ha : f.Even a) (hb : f.Even b)
    (hab : a < b) : ∃ z, f.Finite z ∧ a < z ∧ z < b := by
  by_cases h0 : 0 ≤ a
  · exact even_between_nonneg f hv ha hb h0 hab
  · by_cases h1 : b ≤ 0
    · obtain ⟨z, hz, h2, h3⟩ := even_between_nonneg f hv ((even_neg f b).mpr hb) ((even_neg f a).mpr ha)
        (by grind) (by grind : -b < -a)
      exact ⟨-z, (finite_neg f z).mpr hz, by grind, by grind⟩
    · exact ⟨0, finite_zero f hv, by grind, by grind⟩

theorem isNearestEven_unique (f : Format) (hv : Valid f) {x a b : Rat} (ha : IsNearestEven f x a)
    (hb : IsNearestEven f x b) : a = b := by
  apply Classical.byContradiction; intro hne
  have h1 := ha.2.1 b hb.1
  have h2 := hb.2.1 a ha.1
  have heq : (x - a).abs = (x - b).abs := Rat.le_antisymm h1 h2
  have ea := ha.2.2 b hb.1 (fun h => hne h.symm) heq.symm
  have eb := hb.2.2 a ha.1 hne heq
  have ca := abs_cases (x - a)
  have cb := abs_cases (x - b)
  have hlg : a < b ∨ b < a := by
    rcases Rat.le_total (a := a) (b := b) with h | h
    · exact Or.inl (Rat.lt_of_le_of_ne h hne)
    · exact Or.inr (Rat.lt_of_le_of_ne h (fun h' => hne h'.symm))
  rcases hlg with hlt | hgt
  · obtain ⟨z, hz, z1, z2⟩ := even_between f hv ea eb hlt
    have := ha.2.1 z hz
    have cz := abs_cases (x - z)
    grind
  · obtain ⟨z, hz, z1, z2⟩ := even_between f hv eb ea hgt
    have := ha.2.1 z hz
    have cz := abs_cases (x - z)
    grind

theorem isNearestEven_exact_iff {f : Format} {x d : Rat} (h : IsNearestEven f x d) : d = x ↔ f.Finite x := by
  constructor
  · intro e; rw [← e]; exact h.1
  · intro hx
    have h1 := h.2.1 x hx
    rw [Rat.sub_self, Rat.abs_zero] at h1
    have := abs_eq_zero (Rat.le_antisymm h1 Rat.abs_nonneg)
    grind

theorem signed_inj (neg : Bool) {a b : Rat} (h : Fl.signed neg a = Fl.signed neg b) : a = b := by
  cases neg
  · exact h
  · have : -a = -b := h
    grind

/-- at most one datum is the correctly rounded value -/
theorem roundsTo_unique (f : Format) (hv : Valid f) {neg : Bool} {q : Rat} {a b : Fl}
    (ha : RoundsTo f neg q a) (hb : RoundsTo f neg q b) : a = b := by
  cases a with
  | nan => exact absurd ha id
  | inf n1 =>
    cases b with
    | nan => exact absurd hb id
    | inf n2 => rw [ha.1, hb.1]
    | fin n2 m2 => exact absurd ha.2 hb.2.2.1
  | fin n1 m1 =>
    cases b with
    | nan => exact absurd hb id
    | inf n2 => exact absurd hb.2 ha.2.2.1
    | fin n2 m2 =>
      obtain ⟨e1, _, _, na⟩ := ha
      obtain ⟨e2, _, _, nb⟩ := hb
      rw [e1] at na; rw [e2] at nb
      rw [e1, e2, signed_inj neg (isNearestEven_unique f hv na nb)]


/-! ### `toDouble`, `toBinary32` -/

open Percival.Spec.FloatNumeral (Subject ratPow FAccepts FNumeral Body)
open Percival.Model.Strto (Errno)

/-- the exact value of a subject sequence is a magnitude -/
def SubjectNonneg : Subject → Prop
  | .num q => 0 ≤ q
  | _ => True

/-- the magnitude of a finite datum is non-negative -/
def FlNonneg : Fl → Prop
  | .fin _ mag => 0 ≤ mag
  | _ => True

theorem ratPow_nonneg (b : Nat) (e : Int) : 0 ≤ ratPow b e := by
  unfold ratPow
  split
  · exact Rat.natCast_nonneg
  · rw [Rat.div_def, Rat.one_mul]
    by_cases h : ((b ^ (-e).toNat : Nat) : Rat) = 0
    · rw [h, Rat.inv_zero]; exact Rat.le_refl
    · have : (0 : Rat) < ((b ^ (-e).toNat : Nat) : Rat) :=
        Rat.lt_of_le_of_ne Rat.natCast_nonneg (fun h' => h h'.symm)
      exact Rat.le_of_lt (Rat.inv_pos.mpr this)

theorem body_nonneg {b : Body} {sub : Subject} (h : b.Denotes sub) : SubjectNonneg sub := by
  cases b with
  | inf txt => rw [h.2]; trivial
  | nan txt p => rw [h.2.2]; trivial
  | dec m =>
    obtain ⟨sig, nfrac, e, _, rfl⟩ := h
    exact Rat.mul_nonneg Rat.natCast_nonneg (ratPow_nonneg _ _)
  | hex x m =>
    obtain ⟨_, sig, nfrac, e, _, rfl⟩ := h
    exact Rat.mul_nonneg Rat.natCast_nonneg (ratPow_nonneg _ _)

theorem faccepts_nonneg {tr : Bool} {s : List UInt8} {neg : Bool} {sub : Subject} (h : FAccepts tr s neg sub) :
    SubjectNonneg sub := by
  unfold FAccepts at h
  split at h
  · obtain ⟨_, n, _, hd, _⟩ := h; exact body_nonneg hd.2.2
  · obtain ⟨n, _, hd⟩ := h; exact body_nonneg hd.2.2

theorem toDouble_converts (neg : Bool) (sub : Subject) (h : SubjectNonneg sub) : Converts neg sub (toDouble neg sub).1 := by
  cases sub with
  | inf => rfl
  | nan => rfl
  | num q => exact (roundTo_spec binary64 binary64_valid neg q h).1

theorem toDouble_erange_iff (neg : Bool) (sub : Subject) (h : SubjectNonneg sub) :
    (toDouble neg sub).2 = .erange ↔ ConvRangeError neg sub := by
  cases sub with
  | inf => simp [toDouble, ConvRangeError]
  | nan => simp [toDouble, ConvRangeError]
  | num q =>
    obtain ⟨_, h1, h2⟩ := roundTo_spec binary64 binary64_valid neg q h
    show _ ↔ RangeError binary64 (Fl.signed neg q)
    unfold RangeError
    rw [← h1, ← h2]
    unfold toDouble
    simp only
    split <;> simp_all

theorem toDouble_ok_iff (neg : Bool) (sub : Subject) (h : SubjectNonneg sub) :
    (toDouble neg sub).2 = .ok ↔ ¬ ConvRangeError neg sub := by
  rw [← toDouble_erange_iff neg sub h]
  cases sub with
  | inf => simp [toDouble]
  | nan => simp [toDouble]
  | num q =>
    unfold toDouble
    simp only
    split <;> simp

theorem converts_nonneg {neg : Bool} {sub : Subject} {d : Fl} (h : Converts neg sub d) : FlNonneg d := by
  cases sub with
  | inf => rw [show d = .inf neg from h]; trivial
  | nan => rw [show d = .nan from h]; trivial
  | num q =>
    cases d with
    | nan => trivial
    | inf n => trivial
    | fin n mag => exact h.2.1

theorem converts_unique {neg : Bool} {sub : Subject} {a b : Fl} (ha : Converts neg sub a) (hb : Converts neg sub b) :
    a = b := by
  cases sub with
  | inf => rw [show a = .inf neg from ha, show b = .inf neg from hb]
  | nan => rw [show a = .nan from ha, show b = .nan from hb]
  | num q => exact roundsTo_unique binary64 binary64_valid ha hb

/-- the `float` assignment is the second correct rounding -/
theorem toBinary32_narrows (d : Fl) (h : FlNonneg d) : Narrows d (toBinary32 d) := by
  cases d with
  | nan => rfl
  | inf n => rfl
  | fin n mag => exact (roundTo_spec binary32 binary32_valid n mag h).1

theorem narrows_unique {d a b : Fl} (ha : Narrows d a) (hb : Narrows d b) : a = b := by
  cases d with
  | nan => rw [show a = .nan from ha, show b = .nan from hb]
  | inf n => rw [show a = .inf n from ha, show b = .inf n from hb]
  | fin n mag => exact roundsTo_unique binary32 binary32_valid ha hb

end Percival.Proofs.Ieee
