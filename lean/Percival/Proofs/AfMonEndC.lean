import Percival.Proofs.AfMonEndB
import Percival.Proofs.TimerQueue
/-!
# C14, `af` protocol: the accounting piece `AcctRel` through `events_run` (part C)

`EvReg.run` moves the oracle's counter by exactly the change of `evBlocks`: an immediate event that runs gives back
its queue node (`immGet`) and its record (`freerec`); `events_timer_min`'s timeval is allocated and freed;
`init()` of events_network.c (`netInit_acct`); an expired timer gives back its queue record (`tqGetptr`), its
`struct timerrec` and its event record.  The timer loop needs to know that the pointer stored in a queue record is the
`tid` of the timer that owns the record, and that `tid`s are distinct: `TmLink` (the deadlines piece of helper `Run`,
`TmRel`, contains it together with `TmInv`).
-/
namespace Percival.Proofs.AfMonEnd
open Percival.Model Percival.Model.EvReg Percival.Model.AfStep
open Percival.Spec.AfMon (Op Ans MState monStep MAXID)
open Percival.Proofs.EvRegNet (regNet NetInv netRegistered)
open Percival.Proofs.EvRegTimer (regImm regTimers TmInv freerec_eq)
open Percival.Proofs.EvRegAcct
open Percival.Proofs.EArray (malloc_ok malloc_fail pair_eta)
open Percival.Proofs.TQ (TQInv tq_getptr)
open Percival.Proofs.AfMonRel

/-! ### transitions that keep the count -/

/-- a transition of event layer and oracle that moves the counter with `evBlocks` and leaves the socket list's
descriptors alone -/
structure EvStep (e : Ev) (m : Mem) (e' : Ev) (m' : Mem) : Prop where
  live : m'.live - m.live = evBlocks e' - evBlocks e
  heads : e'.heads.length = e.heads.length
  sAlloc : e'.sAlloc = e.sAlloc
  socks : e'.socks = e.socks
  fdsAlloc : e'.fdsAlloc = e.fdsAlloc

theorem EvStep.refl (e : Ev) (m : Mem) : EvStep e m e m := ⟨by omega, rfl, rfl, rfl, rfl⟩

theorem EvStep.trans {a b c : Ev} {ma mb mc : Mem} (h1 : EvStep a ma b mb) (h2 : EvStep b mb c mc) : EvStep a ma c mc :=
  ⟨by have := h1.live; have := h2.live; omega, h2.heads.trans h1.heads, h2.sAlloc.trans h1.sAlloc,
   h2.socks.trans h1.socks, h2.fdsAlloc.trans h1.fdsAlloc⟩

theorem evStep_freerec (e : Ev) (rid : Nat) (m : Mem) :
    (freerec e rid m).2.live - m.live = evBlocks (freerec e rid m).1 - evBlocks e - 1 ∧
    (freerec e rid m).1.heads = e.heads ∧ (freerec e rid m).1.sAlloc = e.sAlloc ∧ (freerec e rid m).1.socks = e.socks ∧
    (freerec e rid m).1.fdsAlloc = e.fdsAlloc ∧ (freerec e rid m).1.tq = e.tq ∧ (freerec e rid m).1.timers = e.timers := by
  refine ⟨freerec_live e rid m, ?_⟩
  rw [freerec_eq]
  exact ⟨rfl, rfl, rfl, rfl, rfl, rfl⟩

/-! ### immediate events -/

theorem flatten_set_length {α : Type} : ∀ (l : List (List α)) (q : Nat) (x : α) (rest : List α),
    l[q]? = some (x :: rest) → (l.set q rest).flatten.length + 1 = l.flatten.length
  | [], q, x, rest, h => by simp at h
  | a :: l, 0, x, rest, h => by
    simp only [List.getElem?_cons_zero, Option.some.injEq] at h
    subst h
    simp only [List.set_cons_zero, List.flatten_cons, List.length_append, List.length_cons]; omega
  | a :: l, q + 1, x, rest, h => by
    have := flatten_set_length l q x rest (by simpa using h)
    simp only [List.set_cons_succ, List.flatten_cons, List.length_append]
    omega

/-- `events_immediate_get` once `minq` has been advanced to `q` -/
def immGetAt (e : Ev) (m : Mem) (q : Nat) : Option ImmEnt × Ev × Mem :=
  match e.heads[q]? with
  | some (ent :: rest) =>
    if q < 32 then
      match MPool.free e.qPool ent.qid m with
      | (qp, m') => (some ent, { e with minq := q, heads := e.heads.set q rest, qPool := qp }, m')
    else (none, { e with minq := q }, m)
  | _ => (none, { e with minq := q }, m)

theorem immGet_eq (e : Ev) (m : Mem) : immGet e m = immGetAt e m (advance e.heads 33 e.minq) := rfl

theorem immGetAt_acct (e : Ev) (m : Mem) (q : Nat) :
    (immGetAt e m q).2.2.live - m.live =
      evBlocks (immGetAt e m q).2.1 - evBlocks e + (if (immGetAt e m q).1.isSome then 1 else 0) ∧
    (immGetAt e m q).2.1.heads.length = e.heads.length ∧ (immGetAt e m q).2.1.sAlloc = e.sAlloc ∧
    (immGetAt e m q).2.1.socks = e.socks ∧ (immGetAt e m q).2.1.fdsAlloc = e.fdsAlloc ∧ (immGetAt e m q).2.1.tq = e.tq ∧
    (immGetAt e m q).2.1.timers = e.timers := by
  unfold immGetAt
  have hsame : evBlocks { e with minq := q } = evBlocks e := by simp only [evBlocks_raw]
  cases hq : e.heads[q]? with
  | none => exact ⟨by simp [hsame], rfl, rfl, rfl, rfl, rfl, rfl⟩
  | some l =>
    cases l with
    | nil => exact ⟨by simp [hsame], rfl, rfl, rfl, rfl, rfl, rfl⟩
    | cons ent rest =>
      dsimp only
      split
      · have l1 := pool_free_live e.qPool ent.qid m
        have l2 := flatten_set_length e.heads q ent rest hq
        rcases hr : MPool.free e.qPool ent.qid m with ⟨qp, m'⟩
        rw [hr] at l1
        dsimp only at l1 ⊢
        refine ⟨?_, by simp, rfl, rfl, rfl, rfl, rfl⟩
        simp only [evBlocks_raw, Option.isSome_some, if_true]
        omega
      · exact ⟨by simp [hsame], rfl, rfl, rfl, rfl, rfl, rfl⟩

/-- `events_immediate_get`: the queue node goes back; the record of the event taken is still out -/
theorem immGet_acct (e : Ev) (m : Mem) :
    (immGet e m).2.2.live - m.live =
      evBlocks (immGet e m).2.1 - evBlocks e + (if (immGet e m).1.isSome then 1 else 0) ∧
    (immGet e m).2.1.heads.length = e.heads.length ∧ (immGet e m).2.1.sAlloc = e.sAlloc ∧
    (immGet e m).2.1.socks = e.socks ∧ (immGet e m).2.1.fdsAlloc = e.fdsAlloc ∧ (immGet e m).2.1.tq = e.tq ∧
    (immGet e m).2.1.timers = e.timers := by
  rw [immGet_eq]; exact immGetAt_acct e m _

/-- one immediate event taken and run -/
theorem evStep_immOne (e : Ev) (m : Mem) (ent : ImmEnt) (e1 : Ev) (m1 : Mem) (h : immGet e m = (some ent, e1, m1)) :
    EvStep e m (freerec e1 ent.rid m1).1 (freerec e1 ent.rid m1).2 ∧ (freerec e1 ent.rid m1).1.tq = e.tq ∧
    (freerec e1 ent.rid m1).1.timers = e.timers := by
  have a := immGet_acct e m
  rw [h] at a
  dsimp only at a
  obtain ⟨a1, a2, a3, a4, a5, a6, a7⟩ := a
  obtain ⟨b1, b2, b3, b4, b5, b6, b7⟩ := evStep_freerec e1 ent.rid m1
  simp only [Option.isSome_some, if_true] at a1
  exact ⟨⟨by omega, by rw [b2]; exact a2, b3.trans a3, b4.trans a4, b5.trans a5⟩, b6.trans a6, b7.trans a7⟩

theorem runImm_acct : ∀ (fuel : Nat) (e : Ev) (m : Mem) (ran : List Nat),
    EvStep e m (runImm fuel e m ran).2.1 (runImm fuel e m ran).2.2
  | 0, e, m, ran => EvStep.refl e m
  | fuel + 1, e, m, ran => by
    unfold runImm
    have a := immGet_acct e m
    rcases hr : immGet e m with ⟨o, e1, m1⟩
    cases o with
    | none =>
      rw [hr] at a
      dsimp only at a ⊢
      exact ⟨by have := a.1; simp at this; omega, a.2.1, a.2.2.1, a.2.2.2.1, a.2.2.2.2.1⟩
    | some ent =>
      dsimp only
      have b := (evStep_immOne e m ent e1 m1 hr).1
      rcases hf : freerec e1 ent.rid m1 with ⟨e2, m2⟩
      rw [hf] at b
      dsimp only at b ⊢
      exact b.trans (runImm_acct fuel e2 m2 _)

/-! ### timers -/

/-- what the timer loop of `events_run` needs: the queue's invariant, its records are the timers' cookies, the pointer
stored with a timer's cookie is the timer's `struct timerrec`, and those are distinct -/
structure TmLink (e : Ev) : Prop where
  tq : ∀ t, e.tq = some t → TQInv t.q ∧ t.q.h.a.toList.Perm (e.timers.map (·.tqr))
  tidNd : (e.timers.map (·.tid)).Nodup
  recs : ∀ t, e.tq = some t → ∀ x ∈ e.timers, ∃ rc, TimerQueue.lookup t.q.recs x.tqr = some rc ∧ rc.ptr = x.tid

theorem tmLink_init : TmLink ({} : Ev) := ⟨fun t h => (by cases h), List.nodup_nil, fun t h => (by cases h)⟩

/-- `TmLink` from `TmInv` and the two extra facts (as in helper `Run`'s `TmRel`) -/
theorem tmLink_of_tmInv {e : Ev} {m : Mem} (h : TmInv e m) (hnd : (e.timers.map (·.tid)).Nodup)
    (hr : ∀ t, e.tq = some t → ∀ x ∈ e.timers, ∃ rc, TimerQueue.lookup t.q.recs x.tqr = some rc ∧ rc.ptr = x.tid) :
    TmLink e :=
  ⟨fun t ht => ⟨(h.tq t ht).1, (h.tq t ht).2.1⟩, hnd, hr⟩

theorem tmLink_congr {e e' : Ev} (h : TmLink e) (h1 : e'.tq = e.tq) (h2 : e'.timers = e.timers) : TmLink e' :=
  ⟨fun t ht => by rw [h2]; exact h.tq t (by rw [← h1]; exact ht), by rw [h2]; exact h.tidNd,
   fun t ht x hx => h.recs t (by rw [← h1]; exact ht) x (by rw [← h2]; exact hx)⟩

theorem eq_of_nodup_map {α : Type} (f : α → Nat) : ∀ (l : List α) (a b : α), (l.map f).Nodup → a ∈ l → b ∈ l →
    f a = f b → a = b
  | [], a, _, _, ha, _, _ => by cases ha
  | x :: l, a, b, hnd, ha, hb, hf => by
    simp only [List.map_cons, List.nodup_cons] at hnd
    rcases List.mem_cons.1 ha with ha1 | ha1
    · rcases List.mem_cons.1 hb with hb1 | hb1
      · rw [ha1, hb1]
      · exact absurd (by rw [← ha1, hf]; exact List.mem_map_of_mem hb1) hnd.1
    · rcases List.mem_cons.1 hb with hb1 | hb1
      · exact absurd (by rw [← hb1, ← hf]; exact List.mem_map_of_mem ha1) hnd.1
      · exact eq_of_nodup_map f l a b hnd.2 ha1 hb1 hf

theorem perm_filter_key {α : Type} (f : α → Nat) : ∀ (l : List α) (a : α), a ∈ l → (l.map f).Nodup →
    l.Perm (a :: l.filter (fun x => f x != f a))
  | [], _, h, _ => by cases h
  | x :: xs, a, hmem, hnd => by
    simp only [List.map_cons, List.nodup_cons] at hnd
    obtain ⟨hx, hnd'⟩ := hnd
    rcases List.mem_cons.1 hmem with rfl | hmem'
    · have hall : xs.filter (fun y => f y != f a) = xs := by
        apply List.filter_eq_self.mpr
        intro y hy
        have : f y ≠ f a := fun h => hx (h ▸ List.mem_map_of_mem hy)
        simpa using this
      simp [hall]
    · have hne : f x ≠ f a := fun h => hx (h ▸ List.mem_map_of_mem hmem')
      have ih := perm_filter_key f xs a hmem' hnd'
      have : (x :: xs).filter (fun y => f y != f a) = x :: xs.filter (fun y => f y != f a) := by
        simp [hne]
      rw [this]
      exact (ih.cons x).trans (List.Perm.swap a x _)

/-- one expired timer: `timerqueue_getptr` releases its queue record, `events_timer_get` frees the `struct timerrec`,
`doevent` the event record -/
theorem timer_one (e : Ev) (t : HeapAlloc.TQA) (sec usec : Int) (m : Mem) (hl : TmLink e) (htq : e.tq = some t)
    (t' : HeapAlloc.TQA) (tid : Nat) (m1 : Mem) (hg : HeapAlloc.tqGetptr t sec usec m = (t', some tid, m1)) :
    ∃ ent, e.timers.find? (·.tid == tid) = some ent ∧
      EvStep e m (freerec { e with tq := some t', timers := e.timers.filter (·.tid != tid) } ent.rid (m1.free false)).1
        (freerec { e with tq := some t', timers := e.timers.filter (·.tid != tid) } ent.rid (m1.free false)).2 ∧
      TmLink (freerec { e with tq := some t', timers := e.timers.filter (·.tid != tid) } ent.rid (m1.free false)).1 := by
  obtain ⟨hq, hperm⟩ := hl.tq t htq
  have hsp := tq_getptr t.q sec usec hq
  unfold HeapAlloc.tqGetptr at hg
  rcases hres : TimerQueue.getptr t.q sec usec with ⟨q', o⟩
  rw [hres] at hg hsp
  cases o with
  | none => dsimp only at hg; simp at hg
  | some rp =>
    obtain ⟨r, p⟩ := rp
    dsimp only at hg hsp
    obtain ⟨hleast, _, ⟨x, hx, hp⟩, hq', hperm', hrecs⟩ := hsp
    have hs := shrink_live (HeapAlloc.shape t.q.h.a.size t.alloc) 1 SeqMap.ptrLen m
    have hsh : (HeapAlloc.shape t.q.h.a.size t.alloc).alloc = t.alloc := rfl
    rw [hsh] at hs
    rcases hshr : EArray.shrink (HeapAlloc.shape t.q.h.a.size t.alloc) 1 SeqMap.ptrLen m with ⟨a', m'⟩
    rw [hshr] at hg hs
    dsimp only at hg hs
    simp only [Prod.mk.injEq, Option.some.injEq] at hg
    obtain ⟨rfl, rfl, rfl⟩ := hg
    -- the record released is the cookie of a timer, whose `tid` is the pointer returned
    have hrin : r ∈ e.timers.map (·.tqr) := hperm.mem_iff.1 hleast.1
    obtain ⟨ent0, hent0, htqr0⟩ := List.mem_map.1 hrin
    obtain ⟨rc, hrc, hptr⟩ := hl.recs t htq ent0 hent0
    rw [htqr0, hx] at hrc
    cases hrc
    have hp0 : ent0.tid = p := by rw [hp, hptr]
    cases hfind : e.timers.find? (·.tid == p) with
    | none =>
      exfalso
      have := List.find?_eq_none.mp hfind ent0 hent0
      simp [hp0] at this
    | some ent =>
      have hmem := List.mem_of_find?_eq_some hfind
      have hid : ent.tid = p := by simpa using List.find?_some hfind
      have hee : ent = ent0 := eq_of_nodup_map (·.tid) e.timers ent ent0 hl.tidNd hmem hent0 (by rw [hid, hp0])
      subst hee
      subst hid
      refine ⟨ent, rfl, ?_, ?_⟩
      · obtain ⟨b1, b2, b3, b4, b5, _, _⟩ :=
          evStep_freerec { e with tq := some { q := q', alloc := a'.alloc }, timers := e.timers.filter (·.tid != ent.tid) }
            ent.rid ((m'.free false).free false)
        refine ⟨?_, by rw [b2], b3, b4, b5⟩
        have hlen := length_filter_ne (·.tid) e.timers ent hmem hl.tidNd
        have hev : evBlocks { e with tq := some { q := q', alloc := a'.alloc }, timers := e.timers.filter (·.tid != ent.tid) }
            + 3 = evBlocks e + (bb a'.alloc - bb t.alloc) := by
          simp only [evBlocks_raw, htq, tqBlocks]
          omega
        simp only [free_live] at b1
        simp at b1
        omega
      · apply tmLink_congr (e := { e with tq := some { q := q', alloc := a'.alloc }, timers := e.timers.filter (·.tid != ent.tid) })
        · refine ⟨fun t2 ht2 => ?_, ?_, fun t2 ht2 y hy => ?_⟩
          · simp only [Option.some.injEq] at ht2
            subst ht2
            refine ⟨hq', ?_⟩
            have pf := perm_filter_key (·.tid) e.timers ent hmem hl.tidNd
            have p1 := hperm'.symm.trans (hperm.trans (pf.map (·.tqr)))
            simp only [List.map_cons, htqr0] at p1
            exact p1.cons_inv
          · exact (List.filter_sublist.map _).nodup hl.tidNd
          · simp only [Option.some.injEq] at ht2
            subst ht2
            dsimp only
            rw [hrecs]
            exact hl.recs t htq y (List.mem_filter.1 hy).1
        · rw [freerec_eq]
        · rw [freerec_eq]

theorem runTimers_acct (now : Int) : ∀ (fuel : Nat) (e : Ev) (m : Mem) (ran : List Nat), TmLink e →
    EvStep e m (runTimers now fuel e m ran).2.1 (runTimers now fuel e m ran).2.2
  | 0, e, m, ran, _ => EvStep.refl e m
  | fuel + 1, e, m, ran, hl => by
    unfold runTimers
    cases htq : e.tq with
    | none => exact EvStep.refl e m
    | some t =>
      dsimp only
      rcases hg : HeapAlloc.tqGetptr t (secOf now) (usecOf now) m with ⟨t', o, m1⟩
      cases o with
      | none => exact EvStep.refl e m
      | some tid =>
        dsimp only
        obtain ⟨ent, hfind, hstep, hl'⟩ := timer_one e t (secOf now) (usecOf now) m hl htq t' tid m1 hg
        rw [hfind]
        dsimp only
        rcases hf : freerec { e with tq := some t', timers := e.timers.filter (·.tid != tid) } ent.rid (m1.free false)
          with ⟨e2, m2⟩
        rw [hf] at hstep hl'
        dsimp only at hstep hl' ⊢
        exact hstep.trans (runTimers_acct now fuel e2 m2 _ hl')

/-! ### `events_run` -/

theorem netInit_socks (e : Ev) (m : Mem) (ha : AcctInv e) :
    (netInit e m).2.1.socks = e.socks ∧ (netInit e m).2.1.heads = e.heads ∧ (netInit e m).2.1.tq = e.tq ∧
    (netInit e m).2.1.timers = e.timers := by
  unfold netInit
  cases hsa : e.sAlloc with
  | some a => exact ⟨rfl, rfl, rfl, rfl⟩
  | none =>
    dsimp only
    rcases EArray.init 0 sockLen m with ⟨o, m'⟩
    cases o with
    | none => exact ⟨rfl, rfl, rfl, rfl⟩
    | some a => exact ⟨(ha hsa).1.symm, rfl, rfl, rfl⟩

/-- does `events_timer_min` allocate a timeval? -/
def wantTvOf (e1 : Ev) : Bool :=
  match e1.tq with
  | some t => (Heap.getmin t.q.h).isSome
  | none => false

/-- the part of `events_run` after no immediate event was found; `b`: a timeval is allocated -/
def runTmB (e1 : Ev) (now : Int) (m1 : Mem) (b : Bool) : Bool × List Nat × Ev × Mem :=
  match (if b then m1.malloc tvSize else (true, m1)) with
  | (false, m2) => (false, [], e1, m2)
  | (true, m2) =>
    match netInit e1 m2 with
    | (false, e2, m3) => (false, [], e2, if b then m3.free false else m3)
    | (true, e2, m3) =>
      match runTimers now (e2.timers.length + 1) e2 (if b then m3.free false else m3) [] with
      | (ran, e3, m5) => (true, ran, e3, m5)

theorem run_eq (e : Ev) (now : Int) (m : Mem) : run e now m =
    match immGet e m with
    | (some ent, e1, m1) =>
      (match freerec e1 ent.rid m1 with
      | (e2, m2) =>
        match runImm (e2.heads.flatten.length + 1) e2 m2 [ent.id] with
        | (ran, e3, m3) => (true, ran, e3, m3))
    | (none, e1, m1) => runTmB e1 now m1 (wantTvOf e1) := rfl

/-- after the timeval: `init()`, the timeval freed, the timer loop -/
theorem runTail_acct (e1 : Ev) (now : Int) (m2 : Mem) (b : Bool) (ha : AcctInv e1) (hl : TmLink e1) :
    ∀ R, (match netInit e1 m2 with
      | (false, e2, m3) => ((false, [], e2, if b then m3.free false else m3) : Bool × List Nat × Ev × Mem)
      | (true, e2, m3) =>
        match runTimers now (e2.timers.length + 1) e2 (if b then m3.free false else m3) [] with
        | (ran, e3, m5) => (true, ran, e3, m5)) = R →
    R.2.2.2.live - m2.live = evBlocks R.2.2.1 - evBlocks e1 - (if b then 1 else 0) ∧ AcctInv R.2.2.1 ∧
    R.2.2.1.heads.length = e1.heads.length ∧ R.2.2.1.socks = e1.socks := by
  intro R hR
  obtain ⟨n1, n2⟩ := netInit_acct e1 m2 ha
  obtain ⟨s1, s2, s3, s4⟩ := netInit_socks e1 m2 ha
  rcases hni : netInit e1 m2 with ⟨ok, e2, m3⟩
  rw [hni] at hR n1 n2 s1 s2 s3 s4
  dsimp only at n1 n2 s1 s2 s3 s4
  have hfree : (if b then m3.free false else m3).live = m3.live - (if b then 1 else 0) := by
    cases b <;> simp [free_live]
  cases ok with
  | false =>
    dsimp only at hR
    subst hR
    dsimp only
    exact ⟨by omega, n2, by rw [s2], s1⟩
  | true =>
    dsimp only at hR
    have hl2 : TmLink e2 := tmLink_congr hl s3 s4
    have st := runTimers_acct now (e2.timers.length + 1) e2 (if b then m3.free false else m3) [] hl2
    rcases hrt : runTimers now (e2.timers.length + 1) e2 (if b then m3.free false else m3) [] with ⟨ran, e3, m5⟩
    rw [hrt] at hR st
    dsimp only at hR st
    subst hR
    dsimp only
    have := st.live
    exact ⟨by omega, acctInv_congr n2 st.sAlloc st.socks st.fdsAlloc, by rw [st.heads, s2], st.socks.trans s1⟩

theorem runTmB_acct (e1 : Ev) (now : Int) (m1 : Mem) (b : Bool) (ha1 : AcctInv e1) (hl1 : TmLink e1) :
    (runTmB e1 now m1 b).2.2.2.live - m1.live = evBlocks (runTmB e1 now m1 b).2.2.1 - evBlocks e1 ∧
    AcctInv (runTmB e1 now m1 b).2.2.1 ∧ (runTmB e1 now m1 b).2.2.1.heads.length = e1.heads.length ∧
    (runTmB e1 now m1 b).2.2.1.socks = e1.socks := by
  unfold runTmB
  cases b with
  | false =>
    simp only [Bool.false_eq_true, if_false]
    have := runTail_acct e1 now m1 false ha1 hl1 _ rfl
    simp only [Bool.false_eq_true, if_false] at this
    obtain ⟨t1, t2, t3, t4⟩ := this
    exact ⟨by omega, t2, t3, t4⟩
  | true =>
    simp only [if_true]
    cases hm : (m1.malloc tvSize).1 with
    | false =>
      rw [pair_eta _ hm]
      dsimp only
      have := (malloc_fail hm).2.1
      exact ⟨by omega, ha1, rfl, rfl⟩
    | true =>
      rw [pair_eta _ hm]
      dsimp only
      have hlive := (malloc_ok hm).2.1
      have := runTail_acct e1 now (m1.malloc tvSize).2 true ha1 hl1 _ rfl
      simp only [if_true] at this
      obtain ⟨t1, t2, t3, t4⟩ := this
      exact ⟨by omega, t2, t3, t4⟩

/-- **`events_run` moves the counter by the change of `evBlocks`**, for every oracle and every outcome -/
theorem run_acct (e : Ev) (now : Int) (m : Mem) (ha : AcctInv e) (hl : TmLink e) :
    (run e now m).2.2.2.live - m.live = evBlocks (run e now m).2.2.1 - evBlocks e ∧ AcctInv (run e now m).2.2.1 ∧
    (run e now m).2.2.1.heads.length = e.heads.length ∧ (run e now m).2.2.1.socks = e.socks := by
  rw [run_eq]
  have a := immGet_acct e m
  rcases hr : immGet e m with ⟨o, e1, m1⟩
  cases o with
  | some ent =>
    dsimp only
    have b := (evStep_immOne e m ent e1 m1 hr).1
    rcases hf : freerec e1 ent.rid m1 with ⟨e2, m2⟩
    rw [hf] at b
    dsimp only at b ⊢
    have c := runImm_acct (e2.heads.flatten.length + 1) e2 m2 [ent.id]
    rcases hri : runImm (e2.heads.flatten.length + 1) e2 m2 [ent.id] with ⟨ran, e3, m3⟩
    rw [hri] at c
    dsimp only at c ⊢
    have d := b.trans c
    exact ⟨d.live, acctInv_congr ha d.sAlloc d.socks d.fdsAlloc, d.heads, d.socks⟩
  | none =>
    rw [hr] at a
    dsimp only at a ⊢
    obtain ⟨a1, a2, a3, a4, a5, a6, a7⟩ := a
    simp at a1
    have ha1 : AcctInv e1 := acctInv_congr ha a3 a4 a5
    have hl1 : TmLink e1 := tmLink_congr hl a6 a7
    obtain ⟨t1, t2, t3, t4⟩ := runTmB_acct e1 now m1 (wantTvOf e1) ha1 hl1
    exact ⟨by omega, t2, by rw [t3, a2], t4.trans a4⟩

theorem step_run (s : S) (ha : AcctRel s) (hl : TmLink s.ev) : AcctRel (stepOp s .run).1 := by
  simp only [stepOp]
  obtain ⟨r1, r2, r3, r4⟩ := run_acct s.ev s.now s.m ha.acct hl
  rcases hr : run s.ev s.now s.m with ⟨ok, ran, e', m'⟩
  rw [hr] at r1 r2 r3 r4
  dsimp only at r1 r2 r3 r4 ⊢
  exact acctRel_ev ha r1 r2 r3 (fun fd w h => ha.net fd w ((netRegistered_of_socks r4 fd w).1 h))

/-! ### all operations -/

/-- **`AcctRel` is kept by every operation** (`end` included: `releaseAll_acctRel`); `events_run` needs `TmLink` -/
theorem acctRel_step (s : S) (op : Op) (ha : AcctRel s) (hs : Side s) (hok : OpOk op) (hl : op = .run → TmLink s.ev) :
    AcctRel (stepOp s op).1 := by
  by_cases h1 : op = .end_
  · subst h1; exact releaseAll_acctRel s ha hs
  · by_cases h2 : op = .run
    · subst h2; exact step_run s ha (hl rfl)
    · exact acctRel_step_norun s op ha hs hok h1 h2

/-- in the words of `AfMonRel`: from the registry piece and the accounting piece, the accounting piece after the
model answered and the monitor judged, and the answer to `end` is accepted -/
theorem acctRel_next (s : S) (ms : MState) (op : Op) (hr : RegRel s ms) (ha : AcctRel s) (hok : OpOk op)
    (hl : op = .run → TmLink s.ev) : AcctRel (next s ms op).1 :=
  acctRel_step s op ha (side_of_regRel hr) hok hl

end Percival.Proofs.AfMonEnd
