import Percival.Model.HttpRequest
import Percival.Spec.HttpResp
/-! The request serialiser: the `stpcpy` sequence produces the wire format, and the length computed
    beforehand is exact (the C's sanity assertion holds). -/
namespace Percival.Proofs.HttpRequest
open Percival.Model.HttpRequest

theorem foldl_append_flatten {α : Type} (f : α → List UInt8) (l : List α) (s0 : List UInt8) :
    l.foldl (fun acc h => acc ++ f h) s0 = s0 ++ (l.map f).flatten := by
  induction l generalizing s0 with
  | nil => simp
  | cons a t ih => simp [List.foldl_cons, ih, List.append_assoc]

theorem foldl_add_sum {α : Type} (f : α → Nat) (l : List α) (n0 : Nat) :
    l.foldl (fun acc h => acc + f h) n0 = n0 + (l.map f).sum := by
  induction l generalizing n0 with
  | nil => simp
  | cons a t ih => simp [List.foldl_cons, ih, Nat.add_assoc]

theorem length_flatten_map {α : Type} (f : α → List UInt8) (l : List α) :
    ((l.map f).flatten).length = (l.map (fun a => (f a).length)).sum := by
  induction l with
  | nil => simp
  | cons a t ih => simp [ih]

def toSpec (r : Request) : Percival.Spec.HttpResp.Request :=
  { method := r.method, path := r.path, headers := r.headers, body := r.body }

theorem buildHead_eq (r : Request) :
    buildHead r = r.method ++ sp ++ r.path ++ httpVer ++
      (r.headers.map (fun h => h.1 ++ colonSp ++ h.2 ++ crlf)).flatten ++ crlf := by
  simp only [buildHead]
  have := foldl_append_flatten (fun (h : Bytes × Bytes) => h.1 ++ colonSp ++ h.2 ++ crlf) r.headers
    (r.method ++ sp ++ r.path ++ httpVer)
  simp only [List.append_assoc] at this ⊢
  rw [this]
  simp only [List.append_assoc]

theorem headLen_exact (r : Request) : (buildHead r).length = headLen r := by
  rw [buildHead_eq]
  simp only [headLen]
  rw [foldl_add_sum (fun (h : Bytes × Bytes) => h.1.length + h.2.length + 4)]
  simp only [List.length_append, length_flatten_map]
  have : (r.headers.map (fun a => a.1.length + colonSp.length + a.2.length + crlf.length)) =
      r.headers.map (fun h => h.1.length + h.2.length + 4) := by
    apply List.map_congr_left
    intro a _
    simp [colonSp, crlf]; omega
  rw [this]
  simp [crlf]

theorem serializeRequest_eq (r : Request) :
    serializeRequest r = some (toSpec r).wire := by
  simp only [serializeRequest, headLen_exact, beq_self_eq_true, if_true]
  rw [buildHead_eq]
  simp [Percival.Spec.HttpResp.Request.wire, toSpec, sp, httpVer, crlf, colonSp,
    Percival.Spec.HttpResp.SP, Percival.Spec.HttpResp.spHttp11, Percival.Spec.HttpResp.crlf,
    Percival.Spec.HttpResp.CR, Percival.Spec.HttpResp.LF, Percival.Spec.HttpResp.COLON, List.append_assoc]

end Percival.Proofs.HttpRequest
